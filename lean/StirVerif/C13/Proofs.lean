/-
C13 — helper definitions and proofs about the bin-normalisation model, for an arbitrary linearly ordered field `K`
(the driver runs the same definitions at `K = Rat`) and an abstract `E : K → K` in the place of `exp`.
-/
import StirVerif.C13.Model
import Mathlib.Algebra.Order.Field.Basic
import Mathlib.Algebra.BigOperators.Group.List.Basic
import Mathlib.Tactic.Ring
import Mathlib.Tactic.FieldSimp
import Mathlib.Tactic.Linarith
import Mathlib.Tactic.NormNum

namespace StirVerif.C13

set_option linter.unusedSectionVars false

/-! ### whole data sets (any value type) -/

theorem onGroups_eq {K : Type} (f : Bin → K → Option K) (gs : List (List Bin)) (d : Bin → Option K) (h : gs.flatten.Nodup) (b : Bin) :
    onGroups f gs d b = if b ∈ gs.flatten then (d b).bind (f b) else d b := by
  induction gs generalizing d with
  | nil => simp [onGroups]
  | cons g gs ih =>
    simp only [List.flatten_cons, List.nodup_append] at h
    obtain ⟨_, h2, h3⟩ := h
    have step : onGroups f (g :: gs) d = onGroups f gs (onGroup f g d) := by simp [onGroups]
    rw [step, ih _ h2]
    by_cases hg : b ∈ g
    · have hn : b ∉ gs.flatten := fun hx => h3 b hg b hx rfl
      simp [hg, hn, onGroup]
    · simp [hg, onGroup]

variable {K : Type} [Field K] [LinearOrder K] [IsStrictOrderedRing K]

/-! ### side conditions -/

/-- no quotient with a zero divisor occurs in `undo` / `get_bin_efficiency` for this bin -/
def Defined (E : K → K) : Norm K → Bin → Prop
  | .calib _ c br, _ => c * br ≠ 0
  | .fromProjData f t, b => f (factorKey t b) ≠ 0
  | .fromAtten vx row, b => E (lineIntegral vx (row b)) ≠ 0
  | .chained n1 n2, b => Defined E n1 b ∧ Defined E n2 b
  | _, _ => True

/-- `apply` really divides by the efficiency: it is at least the floor `1e-20` (classes using the base-class `apply`),
    respectively non-zero (components) -/
def AboveFloor (E : K → K) (floor : K) : Norm K → Bin → Prop
  | .table e, b => floor ≤ e b
  | .calib u c br, _b => floor ≤ u _b / (c * br)
  | .fromComponents c, b => c.invnorm b ≠ 0
  | .chained n1 n2, b => AboveFloor E floor n1 b ∧ AboveFloor E floor n2 b
  | _, _ => True

/-- all factor data that enter the efficiency of this bin are positive -/
def PosInputs (E : K → K) : Norm K → Bin → Prop
  | .table e, b => 0 < e b
  | .calib u c br, b => 0 < u b ∧ 0 < c ∧ 0 < br
  | .fromProjData f t, b => 0 < f (factorKey t b)
  | .fromAtten vx row, b => 0 < E (lineIntegral vx (row b))
  | .fromComponents c, b => 0 < c.invnorm b
  | .chained n1 n2, b => PosInputs E n1 b ∧ PosInputs E n2 b
  | _, _ => True

/-! ### elementary facts -/

theorem fdiv_of_ne {x y : K} (h : y ≠ 0) : fdiv x y = some (x / y) := by simp [fdiv, h]

theorem fdiv_eq_some {x y w : K} (h : fdiv x y = some w) : y ≠ 0 ∧ w = x / y := by
  unfold fdiv at h
  split at h
  · cases h
  · exact ⟨by assumption, by injection h with h; exact h.symm⟩

theorem fdiv_zero (x : K) : fdiv x (0 : K) = none := by simp [fdiv]

theorem mulSkip_eq (v x : K) : mulSkip v x = v * x := by
  unfold mulSkip
  split
  · next h => rw [h, zero_mul]
  · rfl

theorem cmax_of_le {floor e : K} (h : floor ≤ e) : cmax floor e = e := by
  unfold cmax
  split
  · rfl
  · next h' => exact le_antisymm h (not_lt.mp h')

theorem cmax_of_not_lt {floor e : K} (h : ¬ floor < e) : cmax floor e = floor := by simp [cmax, h]

theorem ten_eq : (ten : K) = 10 := by unfold ten; norm_num

/-- the product form of `create_proj_data` -/
theorem invnorm_eq (c : Components K) (b : Bin) :
    c.invnorm b = if c.inFan b then
        (match c.block with | some B => B b | none => 1) *
        (match c.eff with | some (ea, eb) => ea b * eb b | none => 1) *
        (match c.geo with | some g => g b | none => 1)
      else 0 := by
  unfold Components.invnorm
  split
  · cases c.block <;> cases c.eff <;> cases c.geo <;> simp [mulSkip_eq]
  · rfl

/-! ### undo multiplies by `trueEff` -/

theorem undo_eq_some (E : K → K) (n : Norm K) (b : Bin) (v w : K) (h : undo E n b v = some w) :
    w = v * trueEff E n b := by
  induction n generalizing v w with
  | null => simp [undo] at h; simp [trueEff, h]
  | trivial => simp [undo] at h; simp [trueEff, h]
  | table e => simp [undo] at h; simp [trueEff, h]
  | calib u c br =>
    simp only [undo] at h
    cases hq : fdiv (u b) (c * br) with
    | none => simp [hq] at h
    | some e =>
      obtain ⟨_, he⟩ := fdiv_eq_some hq
      simp [hq] at h
      simp [trueEff, ← h, he]
  | fromProjData f t =>
    simp only [undo] at h
    obtain ⟨_, hw⟩ := fdiv_eq_some h
    simp [trueEff, hw, div_eq_mul_inv]
  | fromAtten vx row =>
    simp only [undo] at h
    obtain ⟨_, hw⟩ := fdiv_eq_some h
    simp [trueEff, hw, div_eq_mul_inv]
  | fromComponents c => simp [undo] at h; simp [trueEff, h]
  | chained n1 n2 ih1 ih2 =>
    simp only [undo] at h
    cases h1 : undo E n1 b v with
    | none => simp [h1] at h
    | some w1 =>
      simp [h1] at h
      have e1 := ih1 v w1 h1
      have e2 := ih2 w1 w h
      simp [trueEff, e2, e1, mul_assoc]

theorem undo_of_defined (E : K → K) (n : Norm K) (b : Bin) (v : K) (h : Defined E n b) :
    undo E n b v = some (v * trueEff E n b) := by
  induction n generalizing v with
  | null => simp [undo, trueEff]
  | trivial => simp [undo, trueEff]
  | table e => simp [undo, trueEff]
  | calib u c br =>
    have : c * br ≠ 0 := h
    simp [undo, trueEff, fdiv_of_ne this]
  | fromProjData f t =>
    have : f (factorKey t b) ≠ 0 := h
    simp [undo, trueEff, fdiv_of_ne this, div_eq_mul_inv]
  | fromAtten vx row =>
    have : E (lineIntegral vx (row b)) ≠ 0 := h
    simp [undo, trueEff, fdiv_of_ne this, div_eq_mul_inv]
  | fromComponents c => simp [undo, trueEff]
  | chained n1 n2 ih1 ih2 =>
    obtain ⟨h1, h2⟩ := h
    simp [undo, trueEff, ih1 v h1, ih2 _ h2, mul_assoc]

theorem undo_isSome_iff (E : K → K) (n : Norm K) (b : Bin) (v : K) :
    (undo E n b v).isSome ↔ Defined E n b := by
  constructor
  · intro h
    induction n generalizing v with
    | null => trivial
    | trivial => trivial
    | table e => trivial
    | calib u c br =>
      show c * br ≠ 0
      intro h0
      simp [undo, h0, fdiv_zero] at h
    | fromProjData f t =>
      show f (factorKey t b) ≠ 0
      intro h0
      simp [undo, h0, fdiv_zero] at h
    | fromAtten vx row =>
      show E (lineIntegral vx (row b)) ≠ 0
      intro h0
      simp [undo, h0, fdiv_zero] at h
    | fromComponents c => trivial
    | chained n1 n2 ih1 ih2 =>
      simp only [undo] at h
      cases h1 : undo E n1 b v with
      | none => simp [h1] at h
      | some w1 =>
        simp [h1] at h
        exact ⟨ih1 v (by simp [h1]), ih2 w1 h⟩
  · intro h
    simp [undo_of_defined E n b v h]

/-! ### the reported efficiency is `trueEff` -/

theorem reported_eq (E : K → K) (n : Norm K) (b : Bin) (e : K) (h : reported n b = some e) :
    e = trueEff E n b ∧ Defined E n b := by
  induction n generalizing e with
  | null => simp [reported] at h; simp [trueEff, Defined, h]
  | trivial => simp [reported] at h; simp [trueEff, Defined, h]
  | table t => simp [reported] at h; simp [trueEff, Defined, h]
  | calib u c br =>
    simp only [reported] at h
    obtain ⟨hne, he⟩ := fdiv_eq_some h
    exact ⟨by simp [trueEff, he], hne⟩
  | fromProjData f t => simp [reported] at h
  | fromAtten vx row => simp [reported] at h
  | fromComponents c => simp [reported] at h; simp [trueEff, Defined, h]
  | chained n1 n2 ih1 ih2 =>
    simp only [reported] at h
    cases h1 : reported n1 b with
    | none => simp [h1] at h
    | some x =>
      cases h2 : reported n2 b with
      | none => simp [h1, h2] at h
      | some y =>
        simp [h1, h2] at h
        obtain ⟨e1, d1⟩ := ih1 x h1
        obtain ⟨e2, d2⟩ := ih2 y h2
        exact ⟨by simp [trueEff, ← h, e1, e2], d1, d2⟩

/-! ### apply divides by `trueEff` -/

theorem trueEff_ne_zero (E : K → K) (floor : K) (hf : 0 < floor) (n : Norm K) (b : Bin)
    (hd : Defined E n b) (ha : AboveFloor E floor n b) : trueEff E n b ≠ 0 := by
  induction n with
  | null => simp [trueEff]
  | trivial => simp [trueEff]
  | table e =>
    have : floor ≤ e b := ha
    simp only [trueEff]
    exact ne_of_gt (lt_of_lt_of_le hf this)
  | calib u c br =>
    have : floor ≤ u b / (c * br) := ha
    simp only [trueEff]
    exact ne_of_gt (lt_of_lt_of_le hf this)
  | fromProjData f t =>
    have : f (factorKey t b) ≠ 0 := hd
    simp [trueEff, this]
  | fromAtten vx row =>
    have : E (lineIntegral vx (row b)) ≠ 0 := hd
    simp [trueEff, this]
  | fromComponents c => exact ha
  | chained n1 n2 ih1 ih2 =>
    simp only [trueEff]
    exact mul_ne_zero (ih1 hd.1 ha.1) (ih2 hd.2 ha.2)

theorem apply_of_aboveFloor (E : K → K) (floor : K) (hf : 0 < floor) (n : Norm K) (b : Bin) (v : K)
    (hd : Defined E n b) (ha : AboveFloor E floor n b) :
    apply E floor n b v = some (v / trueEff E n b) := by
  induction n generalizing v with
  | null => simp [apply, trueEff]
  | trivial => simp [apply, trueEff]
  | table e =>
    have h : floor ≤ e b := ha
    have hne : e b ≠ 0 := ne_of_gt (lt_of_lt_of_le hf h)
    simp [apply, trueEff, cmax_of_le h, fdiv_of_ne hne]
  | calib u c br =>
    have h : floor ≤ u b / (c * br) := ha
    have hc : c * br ≠ 0 := hd
    have hne : u b / (c * br) ≠ 0 := ne_of_gt (lt_of_lt_of_le hf h)
    simp [apply, trueEff, fdiv_of_ne hc, cmax_of_le h, fdiv_of_ne hne]
  | fromProjData f t => simp [apply, trueEff]
  | fromAtten vx row => simp [apply, trueEff]
  | fromComponents c =>
    have h : c.invnorm b ≠ 0 := ha
    simp [apply, trueEff, divide0, h, fdiv_of_ne h]
  | chained n1 n2 ih1 ih2 =>
    simp [apply, trueEff, ih1 v hd.1 ha.1, ih2 _ hd.2 ha.2, div_div]

/-- `apply` then `undo`, and `undo` then `apply`, restore the value -/
theorem undo_apply_id (E : K → K) (floor : K) (hf : 0 < floor) (n : Norm K) (b : Bin) (v : K)
    (hd : Defined E n b) (ha : AboveFloor E floor n b) :
    (apply E floor n b v).bind (undo E n b) = some v := by
  have hne := trueEff_ne_zero E floor hf n b hd ha
  rw [apply_of_aboveFloor E floor hf n b v hd ha]
  simp [undo_of_defined E n b _ hd, hne]

theorem apply_undo_id (E : K → K) (floor : K) (hf : 0 < floor) (n : Norm K) (b : Bin) (v : K)
    (hd : Defined E n b) (ha : AboveFloor E floor n b) :
    (undo E n b v).bind (apply E floor n b) = some v := by
  have hne := trueEff_ne_zero E floor hf n b hd ha
  rw [undo_of_defined E n b v hd]
  simp [apply_of_aboveFloor E floor hf n b _ hd ha, hne]

/-- below the floor the base-class `apply` divides by the floor, not by the efficiency -/
theorem apply_table_below_floor (E : K → K) (floor : K) (hf : 0 < floor) (e : Bin → K) (b : Bin) (v : K)
    (h : ¬ floor < e b) :
    apply E floor (.table e) b v = some (v / floor) ∧
      (undo E (.table e) b v).bind (apply E floor (.table e) b) = some (v * e b / floor) ∧
      (apply E floor (.table e) b v).bind (undo E (.table e) b) = some (v / floor * e b) := by
  have hne : floor ≠ 0 := ne_of_gt hf
  simp [apply, undo, cmax_of_not_lt h, fdiv_of_ne hne]

/-- components: `0/0 = 0`, `x/0` is not finite -/
theorem apply_components_zero_eff (E : K → K) (floor : K) (c : Components K) (b : Bin) (v : K)
    (h : c.invnorm b = 0) :
    apply E floor (.fromComponents c) b v = if v = 0 then some 0 else none := by
  simp only [apply, divide0, h, fdiv_zero]
  split <;> simp_all

/-! ### positivity -/

theorem trueEff_pos (E : K → K) (n : Norm K) (b : Bin) (h : PosInputs E n b) : 0 < trueEff E n b := by
  induction n with
  | null => simp [trueEff]
  | trivial => simp [trueEff]
  | table e => exact h
  | calib u c br =>
    obtain ⟨h1, h2, h3⟩ := h
    simp only [trueEff]
    positivity
  | fromProjData f t =>
    have : 0 < f (factorKey t b) := h
    simp only [trueEff]
    positivity
  | fromAtten vx row =>
    have : 0 < E (lineIntegral vx (row b)) := h
    simp only [trueEff]
    positivity
  | fromComponents c => exact h
  | chained n1 n2 ih1 ih2 =>
    simp only [trueEff]
    exact mul_pos (ih1 h.1) (ih2 h.2)

theorem defined_of_pos (E : K → K) (n : Norm K) (b : Bin) (h : PosInputs E n b) : Defined E n b := by
  induction n with
  | calib u c br => exact ne_of_gt (mul_pos h.2.1 h.2.2)
  | fromProjData f t => exact ne_of_gt h
  | fromAtten vx row => exact ne_of_gt h
  | chained n1 n2 ih1 ih2 => exact ⟨ih1 h.1, ih2 h.2⟩
  | _ => trivial

/-! ### chains -/

theorem trueEff_chainOf (E : K → K) (ns : List (Norm K)) (b : Bin) :
    trueEff E (chainOf ns) b = (ns.map fun n => trueEff E n b).prod := by
  induction ns with
  | nil => simp [chainOf, trueEff]
  | cons n ns ih => simp [chainOf, trueEff, ih]

theorem reported_chainOf (ns : List (Norm K)) (b : Bin) (es : List K)
    (h : ns.map (fun n => reported n b) = es.map some) :
    reported (chainOf ns) b = some es.prod := by
  induction ns generalizing es with
  | nil =>
    cases es with
    | nil => simp [chainOf, reported]
    | cons e es => simp at h
  | cons n ns ih =>
    cases es with
    | nil => simp at h
    | cons e es =>
      simp only [List.map_cons, List.cons.injEq] at h
      simp [chainOf, reported, h.1, ih es h.2]

theorem reported_chainOf_none (ns : List (Norm K)) (b : Bin) (n : Norm K) (hn : n ∈ ns) (h : reported n b = none) :
    reported (chainOf ns) b = none := by
  induction ns with
  | nil => cases hn
  | cons m ns ih =>
    rcases List.mem_cons.mp hn with rfl | hm
    · simp [chainOf, reported, h]
    · simp only [chainOf, reported, ih hm]
      cases reported m b <;> rfl

theorem defined_chainOf (E : K → K) (ns : List (Norm K)) (b : Bin) :
    Defined E (chainOf ns) b ↔ ∀ n ∈ ns, Defined E n b := by
  induction ns with
  | nil => simp [chainOf, Defined]
  | cons n ns ih => simp [chainOf, Defined, ih]

theorem aboveFloor_chainOf (E : K → K) (floor : K) (ns : List (Norm K)) (b : Bin) :
    AboveFloor E floor (chainOf ns) b ↔ ∀ n ∈ ns, AboveFloor E floor n b := by
  induction ns with
  | nil => simp [chainOf, AboveFloor]
  | cons n ns ih => simp [chainOf, AboveFloor, ih]

/-! ### trivial objects -/

/-- the min/max recorded for each present component really bound its values -/
def Components.RangeOK (c : Components K) : Prop :=
  (∀ ea eb, c.eff = some (ea, eb) → ∀ b, (c.effRange.1 ≤ ea b ∧ ea b ≤ c.effRange.2) ∧ (c.effRange.1 ≤ eb b ∧ eb b ≤ c.effRange.2)) ∧
  (∀ g, c.geo = some g → ∀ b, c.geoRange.1 ≤ g b ∧ g b ≤ c.geoRange.2) ∧
  (∀ B, c.block = some B → ∀ b, c.blockRange.1 ≤ B b ∧ B b ≤ c.blockRange.2)

theorem nearOne_zero {r : K × K} (h : nearOne 0 r = true) : r.1 = 1 ∧ r.2 = 1 := by
  simp only [nearOne, Bool.and_eq_true, Bool.not_eq_true', decide_eq_false_iff_not, not_lt] at h
  obtain ⟨⟨⟨h1, h2⟩, h3⟩, h4⟩ := h
  constructor <;> linarith

theorem invnorm_of_trivial (c : Components K) (hr : c.RangeOK) (ht : c.isTrivial 0 = true) (b : Bin) (hb : c.inFan b = true) :
    c.invnorm b = 1 := by
  rw [invnorm_eq, if_pos hb]
  simp only [Components.isTrivial, Bool.and_eq_true, Bool.or_eq_true] at ht
  obtain ⟨⟨he, hg⟩, hB⟩ := ht
  obtain ⟨re, rg, rB⟩ := hr
  have e1 : (match c.block with | some B => B b | none => (1 : K)) = 1 := by
    cases hc : c.block with
    | none => rfl
    | some B =>
      have := nearOne_zero (hB.resolve_left (by simp [hc]))
      have := rB B hc b
      simp only
      linarith [this.1, this.2]
  have e2 : (match c.eff with | some (ea, eb) => ea b * eb b | none => (1 : K)) = 1 := by
    cases hc : c.eff with
    | none => rfl
    | some p =>
      obtain ⟨ea, eb⟩ := p
      have h1 := nearOne_zero (he.resolve_left (by simp [hc]))
      have h2 := re ea eb hc b
      have ha : ea b = 1 := by linarith [h2.1.1, h2.1.2, h1.1, h1.2]
      have hb' : eb b = 1 := by linarith [h2.2.1, h2.2.2, h1.1, h1.2]
      simp [ha, hb']
  have e3 : (match c.geo with | some g => g b | none => (1 : K)) = 1 := by
    cases hc : c.geo with
    | none => rfl
    | some g =>
      have := nearOne_zero (hg.resolve_left (by simp [hc]))
      have := rg g hc b
      simp only
      linarith [this.1, this.2]
  rw [e1, e2, e3]; ring

/-! ### trivial within the tolerance of `is_trivial` -/

theorem nearOne_bounds {tol : K} {r : K × K} (h : nearOne tol r = true) {x : K} (hx : r.1 ≤ x ∧ x ≤ r.2) :
    1 - tol ≤ x ∧ x ≤ 1 + tol := by
  simp only [nearOne, Bool.and_eq_true, Bool.not_eq_true', decide_eq_false_iff_not, not_lt] at h
  obtain ⟨⟨⟨h1, h2⟩, h3⟩, h4⟩ := h
  constructor <;> linarith [hx.1, hx.2]

theorem prod_bounds (t fB fE fG : K) (hlo : 0 ≤ 1 - t) (eB : 1 - t ≤ fB ∧ fB ≤ 1 + t)
    (eE : (1 - t) * (1 - t) ≤ fE ∧ fE ≤ (1 + t) * (1 + t)) (eG : 1 - t ≤ fG ∧ fG ≤ 1 + t) :
    (1 - t) ^ 4 ≤ fB * fE * fG ∧ fB * fE * fG ≤ (1 + t) ^ 4 := by
  have hE0 : 0 ≤ (1 - t) * (1 - t) := mul_nonneg hlo hlo
  have hp : 0 ≤ 1 + t := le_trans (le_trans hlo eB.1) eB.2
  constructor
  · have : (1 - t) ^ 4 = (1 - t) * ((1 - t) * (1 - t)) * (1 - t) := by ring
    rw [this]
    have h1' : (1 - t) * ((1 - t) * (1 - t)) ≤ fB * fE :=
      mul_le_mul eB.1 eE.1 hE0 (le_trans hlo eB.1)
    exact mul_le_mul h1' eG.1 hlo (mul_nonneg (le_trans hlo eB.1) (le_trans hE0 eE.1))
  · have : (1 + t) ^ 4 = (1 + t) * ((1 + t) * (1 + t)) * (1 + t) := by ring
    rw [this]
    have h1' : fB * fE ≤ (1 + t) * ((1 + t) * (1 + t)) :=
      mul_le_mul eB.2 eE.2 (le_trans hE0 eE.1) hp
    exact mul_le_mul h1' eG.2 (le_trans hlo eG.1) (mul_nonneg hp (mul_nonneg hp hp))

theorem invnorm_within (c : Components K) (tol : K) (h0 : 0 ≤ tol) (h1 : tol ≤ 1) (hr : c.RangeOK)
    (ht : c.isTrivial tol = true) (b : Bin) (hb : c.inFan b = true) :
    (1 - tol) ^ 4 ≤ c.invnorm b ∧ c.invnorm b ≤ (1 + tol) ^ 4 := by
  rw [invnorm_eq, if_pos hb]
  simp only [Components.isTrivial, Bool.and_eq_true, Bool.or_eq_true] at ht
  obtain ⟨⟨he, hg⟩, hB⟩ := ht
  obtain ⟨re, rg, rB⟩ := hr
  have hlo : 0 ≤ 1 - tol := by linarith
  have one_in : 1 - tol ≤ (1 : K) ∧ (1 : K) ≤ 1 + tol := ⟨by linarith, by linarith⟩
  have eB : 1 - tol ≤ (match c.block with | some B => B b | none => (1 : K)) ∧
      (match c.block with | some B => B b | none => (1 : K)) ≤ 1 + tol := by
    cases hc : c.block with
    | none => exact one_in
    | some B => exact nearOne_bounds (hB.resolve_left (by simp [hc])) (rB B hc b)
  have eG : 1 - tol ≤ (match c.geo with | some g => g b | none => (1 : K)) ∧
      (match c.geo with | some g => g b | none => (1 : K)) ≤ 1 + tol := by
    cases hc : c.geo with
    | none => exact one_in
    | some g => exact nearOne_bounds (hg.resolve_left (by simp [hc])) (rg g hc b)
  have eE : (1 - tol) * (1 - tol) ≤ (match c.eff with | some (ea, eb) => ea b * eb b | none => (1 : K)) ∧
      (match c.eff with | some (ea, eb) => ea b * eb b | none => (1 : K)) ≤ (1 + tol) * (1 + tol) := by
    cases hc : c.eff with
    | none =>
      constructor
      · show (1 - tol) * (1 - tol) ≤ 1
        nlinarith
      · show (1 : K) ≤ (1 + tol) * (1 + tol)
        nlinarith
    | some p =>
      obtain ⟨ea, eb⟩ := p
      have hn := he.resolve_left (by simp [hc])
      have ha := nearOne_bounds hn (re ea eb hc b).1
      have hb' := nearOne_bounds hn (re ea eb hc b).2
      constructor
      · show (1 - tol) * (1 - tol) ≤ ea b * eb b
        exact mul_le_mul ha.1 hb'.1 hlo (le_trans hlo ha.1)
      · show ea b * eb b ≤ (1 + tol) * (1 + tol)
        exact mul_le_mul ha.2 hb'.2 (le_trans hlo hb'.1) (by linarith)
  exact prod_bounds tol _ _ _ hlo eB eE eG
/-! ### attenuation -/

theorem foldl_add_eq_sum (g : K × K → K) (row : List (K × K)) (acc : K) :
    row.foldl (fun a p => a + g p) acc = acc + (row.map g).sum := by
  induction row generalizing acc with
  | nil => simp
  | cons p row ih => simp [ih, add_assoc]

theorem lineIntegral_eq (vx : K) (row : List (K × K)) :
    lineIntegral vx row = (row.map fun p => (p.1 * vx) * (p.2 / 10)).sum := by
  unfold lineIntegral
  rw [foldl_add_eq_sum, zero_add]
  congr 1
  apply List.map_congr_left
  intro p _
  simp only [attenRescale, ten_eq]
  ring

theorem E_zero {E : K → K} (hadd : ∀ x y, E (x + y) = E x * E y) (hpos : ∀ x, 0 < E x) : E 0 = 1 := by
  have h := hadd 0 0
  rw [add_zero] at h
  have hne : E 0 ≠ 0 := ne_of_gt (hpos 0)
  have : E 0 * 1 = E 0 * E 0 := by rw [mul_one]; exact h
  exact (mul_left_cancel₀ hne this).symm

theorem E_sum {E : K → K} (hadd : ∀ x y, E (x + y) = E x * E y) (hpos : ∀ x, 0 < E x) (l : List K) :
    E l.sum = (l.map E).prod := by
  induction l with
  | nil => simp [E_zero hadd hpos]
  | cons x l ih => simp [hadd, ih]

/-! ### chains: a null member, partial application -/

theorem apply_chain_null_right (E : K → K) (floor : K) (n : Norm K) (b : Bin) (v : K) :
    apply E floor (.chained n .null) b v = apply E floor n b v := by
  cases h : apply E floor n b v <;> simp [apply, h]

theorem apply_chain_null_left (E : K → K) (floor : K) (n : Norm K) (b : Bin) (v : K) :
    apply E floor (.chained .null n) b v = apply E floor n b v := by
  simp [apply]

theorem undo_chain_null_right (E : K → K) (n : Norm K) (b : Bin) (v : K) :
    undo E (.chained n .null) b v = undo E n b v := by
  cases h : undo E n b v <;> simp [undo, h]

theorem undo_chain_null_left (E : K → K) (n : Norm K) (b : Bin) (v : K) :
    undo E (.chained .null n) b v = undo E n b v := by
  simp [undo]

theorem reported_chain_null_right (n : Norm K) (b : Bin) : reported (.chained n .null) b = reported n b := by
  cases h : reported n b <;> simp [reported, h]

theorem reported_chain_null_left (n : Norm K) (b : Bin) : reported (.chained .null n) b = reported n b := by
  cases h : reported n b <;> simp [reported, h]

theorem isTrivial_of_isFirstTrivial (tol : K) (n1 n2 : Norm K) (h : isFirstTrivial tol n1 n2 = some true) :
    isTrivial tol n1 = true := by
  cases n1 <;> simp_all [isFirstTrivial]

theorem isTrivial_of_isSecondTrivial (tol : K) (n1 n2 : Norm K) (h : isSecondTrivial tol n1 n2 = some true) :
    isTrivial tol n2 = true := by
  cases n2 <;> simp_all [isSecondTrivial]

/-! ### the check on use -/

/-- every member that checks its set-up state was set up, for a geometry `>=` that of the data -/
def UseTree.AllSetUp : UseTree → Prop
  | .null => True
  | .noCheck _ _ => True
  | .checked su ge => su = true ∧ ge = true
  | .chain _ _ f s => f.AllSetUp ∧ s.AllSetUp

theorem useRV_iff (t : UseTree) : useRV t = true ↔ t.AllSetUp := by
  induction t with
  | null => simp [useRV, UseTree.AllSetUp]
  | noCheck su ge => simp [useRV, UseTree.AllSetUp]
  | checked su ge => simp [useRV, UseTree.AllSetUp, checkUse]
  | chain su ge f s ihf ihs => simp [useRV, UseTree.AllSetUp, ihf, ihs]

end StirVerif.C13
