/-
C13 — proofs about ONE normalisation object that is set up several times (`CompObj`, `CalibObj`) and about the
analytic attenuation expectation for a uniform box (`slab`, `boxInterval`, `acfBox`).
-/
import StirVerif.C13.Proofs

namespace StirVerif.C13

set_option linter.unusedSectionVars false

variable {K : Type} [Field K] [LinearOrder K] [IsStrictOrderedRing K]

/-! ### `BinNormalisationPETFromComponents` through several `allocate` / `set_up` calls -/

theorem compObj_run_append (tol : K) (o : CompObj K) (hs hs' : List (CompStep K)) :
    CompObj.run tol o (hs ++ hs') = (CompObj.run tol o hs).bind fun o' => CompObj.run tol o' hs' := by
  induction hs generalizing o with
  | nil => simp [CompObj.run]
  | cons s r ih =>
    cases s with
    | allocate => simp [CompObj.run, ih]
    | setUp c =>
      simp only [List.cons_append, CompObj.run]
      cases o.setUp tol c with
      | none => rfl
      | some o1 => simp [ih]

/-- `allocated` is never reset -/
theorem compObj_run_allocated (tol : K) (o o' : CompObj K) (hs : List (CompStep K)) (h : CompObj.run tol o hs = some o')
    (ha : o.allocated = true) : o'.allocated = true := by
  induction hs generalizing o with
  | nil =>
    simp only [CompObj.run, Option.some.injEq] at h
    exact h ▸ ha
  | cons s r ih =>
    cases s with
    | allocate => exact ih o.allocate h rfl
    | setUp c =>
      simp only [CompObj.run, CompObj.setUp, ha, if_true, Option.bind_some] at h
      exact ih _ h rfl

/-- what `set_up` leaves behind does not depend on what the object held before -/
theorem compObj_setUp_eq (tol : K) (o o' : CompObj K) (c : Components K) (h : o.setUp tol c = some o') :
    o'.allocated = true ∧ o'.setUpDone = true ∧ o'.trivialFlag = c.isTrivial tol ∧ o'.invnorm = c.invnorm := by
  unfold CompObj.setUp at h
  split at h
  · rename_i ha
    simp only [Option.some.injEq] at h
    subst h
    exact ⟨ha, rfl, rfl, rfl⟩
  · exact absurd h (by simp)

theorem compObj_observe_of_setUp (E : K → K) (floor tol : K) (o o' : CompObj K) (c : Components K)
    (h : o.setUp tol c = some o') :
    o'.isTrivial = some (isTrivial tol (.fromComponents c)) ∧
      ∀ b v, o'.reported b = reported (.fromComponents c) b ∧ o'.undo b v = undo E (.fromComponents c) b v ∧
        o'.apply b v = apply E floor (.fromComponents c) b v := by
  obtain ⟨_, h2, h3, h4⟩ := compObj_setUp_eq tol o o' c h
  refine ⟨by simp [CompObj.isTrivial, h2, h3, isTrivial], fun b v => ?_⟩
  simp [CompObj.reported, CompObj.undo, CompObj.apply, h2, h4, reported, undo, apply]

/-! ### `BinNormalisationWithCalibration` through `set_calibration_factor` / `set_radionuclide` / `set_up` -/

theorem calibObj_observe_setUp (E : K → K) (floor : K) (o : CalibObj K) (u : Bin → K) (b : Bin) (v : K) :
    o.setUp.reported u b = reported (.calib u o.calibration o.branching) b ∧
      o.setUp.undo u b v = undo E (.calib u o.calibration o.branching) b v ∧
      o.setUp.apply floor u b v = apply E floor (.calib u o.calibration o.branching) b v := by
  simp [CalibObj.setUp, CalibObj.reported, CalibObj.undo, CalibObj.apply, reported, undo, apply]

theorem calibObj_run_append (o : CalibObj K) (hs hs' : List (CalibStep K)) :
    CalibObj.run o (hs ++ hs') = CalibObj.run (CalibObj.run o hs) hs' := by
  induction hs generalizing o with
  | nil => rfl
  | cons s r ih => cases s <;> simp [CalibObj.run, ih]

/-! ### clipping a line of response against a box -/

theorem cmax_le_iff (a b t : K) : cmax a b ≤ t ↔ a ≤ t ∧ b ≤ t := by
  unfold cmax
  split
  · rename_i h
    exact ⟨fun hb => ⟨le_trans (le_of_lt h) hb, hb⟩, fun hb => hb.2⟩
  · rename_i h
    exact ⟨fun ha => ⟨ha, le_trans (not_lt.mp h) ha⟩, fun ha => ha.1⟩

theorem le_cmin_iff (a b t : K) : t ≤ cmin a b ↔ t ≤ a ∧ t ≤ b := by
  unfold cmin
  split
  · rename_i h
    exact ⟨fun hb => ⟨le_trans hb (le_of_lt h), hb⟩, fun hb => hb.2⟩
  · rename_i h
    exact ⟨fun ha => ⟨ha, le_trans ha (not_lt.mp h)⟩, fun ha => ha.1⟩

/-- `slab` keeps exactly the parameters of `I` for which the coordinate `p + t·d` lies in `[lo, hi]` -/
theorem slab_iff (p d lo hi : K) (I : K × K) (t : K) :
    ((slab p d lo hi I).1 ≤ t ∧ t ≤ (slab p d lo hi I).2) ↔ (I.1 ≤ t ∧ t ≤ I.2 ∧ lo ≤ p + t * d ∧ p + t * d ≤ hi) := by
  unfold slab
  split
  · rename_i hd
    simp only [cmax_le_iff, le_cmin_iff, div_le_iff₀ hd, le_div_iff₀ hd]
    constructor
    · rintro ⟨⟨h1, h2⟩, h3, h4⟩
      exact ⟨h1, h3, by linarith, by linarith⟩
    · rintro ⟨h1, h3, h2, h4⟩
      exact ⟨⟨h1, by linarith⟩, h3, by linarith⟩
  · split
    · rename_i _ hd
      simp only [cmax_le_iff, le_cmin_iff, div_le_iff_of_neg hd, le_div_iff_of_neg hd]
      constructor
      · rintro ⟨⟨h1, h2⟩, h3, h4⟩
        exact ⟨h1, h3, by linarith, by linarith⟩
      · rintro ⟨h1, h3, h2, h4⟩
        exact ⟨⟨h1, by linarith⟩, h3, by linarith⟩
    · rename_i h1 h2
      have hd : d = 0 := le_antisymm (not_lt.mp h1) (not_lt.mp h2)
      subst hd
      split
      · rename_i hout
        constructor
        · rintro ⟨ha, hb⟩
          exact absurd (le_trans ha hb) (by norm_num)
        · rintro ⟨_, _, h3, h4⟩
          rcases hout with h | h
          · linarith
          · linarith
      · rename_i hin
        have h3 : lo ≤ p := not_lt.mp fun h => hin (Or.inl h)
        have h4 : p ≤ hi := not_lt.mp fun h => hin (Or.inr h)
        constructor
        · rintro ⟨ha, hb⟩
          exact ⟨ha, hb, by linarith, by linarith⟩
        · rintro ⟨ha, hb, _, _⟩
          exact ⟨ha, hb⟩

end StirVerif.C13
