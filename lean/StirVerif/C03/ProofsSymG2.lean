/-
C03 — `find_sym_op_general_bin` rebuilds the bin from its basic bin: the case with all view symmetries on.
-/
import StirVerif.C03.ProofsSym

namespace StirVerif.C03

set_option maxHeartbeats 3200000 in
theorem rbg_TT (y : Sym) (h : y.WF) (hs : Sw y true true) (seg view ax tang tof : Int) (hv : 0 ≤ view ∧ view < y.V)
    (htang : tang ≠ 0) (ht : tof = 0 ∨ y.swapS = false) :
    (y.symOpGeneral tang seg view ax).onBin (y.basic ⟨seg, view, ax, tang, tof⟩) = ⟨seg, view, ax, tang, tof⟩ := by rb_tac

end StirVerif.C03
