/-
C03 — `find_sym_op_general_bin` (tangential position ≠ 0) rebuilds the bin from its basic bin.
-/
import StirVerif.C03.ProofsSym

namespace StirVerif.C03

theorem rbg_FF (y : Sym) (h : y.WF) (hs : Sw y false false) (seg view ax tang tof : Int) (hv : 0 ≤ view ∧ view < y.V)
    (_htang : tang ≠ 0) :
    (y.symOpGeneral tang seg view ax).onBin (y.basic ⟨seg, view, ax, tang, tof⟩) = ⟨seg, view, ax, tang, tof⟩ := by rb_tac

set_option maxHeartbeats 1600000 in
theorem rbg_FT (y : Sym) (h : y.WF) (hs : Sw y false true) (seg view ax tang tof : Int) (hv : 0 ≤ view ∧ view < y.V)
    (htang : tang ≠ 0) (ht : tof = 0 ∨ y.swapS = false) :
    (y.symOpGeneral tang seg view ax).onBin (y.basic ⟨seg, view, ax, tang, tof⟩) = ⟨seg, view, ax, tang, tof⟩ := by rb_tac

end StirVerif.C03
