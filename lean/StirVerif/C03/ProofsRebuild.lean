/-
C03 — the symmetry operation found for a bin, applied to the basic bin, gives the bin back.
-/
import StirVerif.C03.ProofsSym
import StirVerif.C03.ProofsSymG
import StirVerif.C03.ProofsSymG2

namespace StirVerif.C03

/-- the one combination of switches for which `timing_pos_num` would not be restored (`swap_s` together with a view
    symmetry: of the operations chosen for `s < 0` only `swap_xmx_ymy(_zq)` negate the timing position back); the
    constructor switches `swap_s` off for TOF data -/
def TofOK (y : Sym) (b : Bin) : Prop := b.tof = 0 ∨ y.swapS = false ∨ y.d180 = false

theorem symop_rebuilds_bin (y : Sym) (h : y.WF) (b : Bin) (hv : 0 ≤ b.view ∧ b.view < y.V) (ht : TofOK y b) :
    (y.findSymOp b).onBin (y.basic b) = b := by
  obtain ⟨seg, view, ax, tang, tof⟩ := b
  simp only [TofOK] at ht hv
  unfold Sym.findSymOp
  simp only
  by_cases htang : tang = 0
  · subst htang
    simp only [if_true]
    cases h90 : y.d90 <;> cases h180 : y.d180
    · exact rb0_FF y h ⟨h90, h180⟩ seg view ax tof hv
    · exact rb0_FT y h ⟨h90, h180⟩ seg view ax tof hv
    · have := (h.h90 h90).1; rw [h180] at this; exact absurd this (by decide)
    · exact rb0_TT y h ⟨h90, h180⟩ seg view ax tof hv
  · simp only [htang, if_false]
    cases h90 : y.d90 <;> cases h180 : y.d180
    · exact rbg_FF y h ⟨h90, h180⟩ seg view ax tang tof hv htang
    · refine rbg_FT y h ⟨h90, h180⟩ seg view ax tang tof hv htang ?_
      rcases ht with ht | ht | ht
      · exact Or.inl ht
      · exact Or.inr ht
      · rw [h180] at ht; exact absurd ht (by decide)
    · have := (h.h90 h90).1; rw [h180] at this; exact absurd this (by decide)
    · refine rbg_TT y h ⟨h90, h180⟩ seg view ax tang tof hv htang ?_
      rcases ht with ht | ht | ht
      · exact Or.inl ht
      · exact Or.inr ht
      · rw [h180] at ht; exact absurd ht (by decide)

end StirVerif.C03
