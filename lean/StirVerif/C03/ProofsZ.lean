/-
C03 — axial part of the symmetry operations: `find_transform_z` needs no rounding and is twice the axial
midpoint of the LOR; the z map of the operation found for a bin carries the axial midpoint of the basic
bin's LOR to the axial midpoint of the bin's LOR.

All z quantities are in quarter planes (`4·z`), which makes them integers.
-/
import StirVerif.C03.Model
import Mathlib.Tactic.SplitIfs

namespace StirVerif.C03
set_option linter.unusedSimpArgs false

/-- 4 × (image z coordinate of the axial midpoint of the LOR of (segment `s`, axial position `a`)):
    `num_planes_per_axial_pos[s]·a + axial_pos_to_z_offset[s] + num_planes_per_scanner_ring·delta[s]/2`
    (the comment in `find_transform_z`: "Z+Q = 2*centre_of_LOR_in_image_coordinates") -/
def Sym.centre4 (y : Sym) (s a : Int) : Int := 4 * (y.nppa s * a) + y.zoff4 s + y.nppr * y.delta2 s

/-- `find_transform_z` is exactly twice the midpoint: the `floor(x + 0.5)` never rounds, whatever the average ring
    difference of the segment is, provided the offsets come from `find_relation_between_coordinate_systems` -/
theorem transformZ_eq (V : Int) (f : Flags) (g : AxGeo) (s a : Int) :
    4 * (Sym.make V f g).transformZ s a = 2 * (Sym.make V f g).centre4 s a ∧
    (Sym.make V f g).transformZ s a =
      2 * (g.nppa s * a) - g.nppa s * (g.maxAx s + g.minAx s) + (g.maxZ + g.minZ) - 2 * g.originZ := by
  simp only [Sym.transformZ, Sym.centre4, Sym.make, AxGeo.zoff4]
  generalize g.nppa s * a = p
  generalize g.nppa s * (g.maxAx s + g.minAx s) = r
  generalize g.nppr * g.delta2 s = d
  omega

/-- the z part of `transform_image_coordinates` on quarter-plane coordinates -/
def SymOp.zmap4 (o : SymOp) (z4 : Int) : Int :=
  match o.kind with
  | .trivial => z4
  | .z_shift | .swap_xmy_yx | .swap_xy_yx | .swap_xmx | .swap_ymy | .swap_xy_ymx | .swap_xmy_ymx | .swap_xmx_ymy =>
    z4 + 4 * o.zShift
  | _ => 4 * o.q - z4 + 4 * o.zShift

theorem onVoxel_zmap4 (o : SymOp) (c : Vox) : 4 * (o.onVoxel c).z = o.zmap4 (4 * c.z) := by
  obtain ⟨k, V, a, zs, q⟩ := o
  cases k <;> simp only [SymOp.onVoxel, SymOp.zmap4] <;> omega

/-- the data and the image are such that segments `s` and `-s` have the same axial sampling and range
    (the constructor checks `tantheta(-s) = -tantheta(s)`; ranges of ±s agree for every STIR projection data info) -/
structure AxGeo.Symmetric (g : AxGeo) : Prop where
  nppa : ∀ s, g.nppa (-s) = g.nppa s
  range : ∀ s, g.maxAx (-s) + g.minAx (-s) = g.maxAx s + g.minAx s

theorem centre4_neg (V : Int) (f : Flags) (g : AxGeo) (hg : g.Symmetric) (s a : Int) :
    (Sym.make V f g).centre4 (-s) a = (Sym.make V f g).centre4 s a := by
  simp only [Sym.centre4, Sym.make, AxGeo.zoff4, hg.nppa s, hg.range s]
  omega

theorem centre4_iabs (V : Int) (f : Flags) (g : AxGeo) (hg : g.Symmetric) (s a : Int) :
    (Sym.make V f g).centre4 (iabs s) a = (Sym.make V f g).centre4 s a := by
  unfold iabs; split
  · exact centre4_neg V f g hg s a
  · rfl

theorem centre4_basicSeg (V : Int) (f : Flags) (g : AxGeo) (hg : g.Symmetric) (s a : Int) :
    (Sym.make V f g).centre4 ((Sym.make V f g).basicSeg s) a = (Sym.make V f g).centre4 s a := by
  unfold Sym.basicSeg; split
  · exact centre4_neg V f g hg s a
  · rfl

theorem centre4_ax (y : Sym) (s a : Int) : y.centre4 s a = y.centre4 s 0 + 4 * (y.nppa s * a) := by
  simp only [Sym.centre4, Int.mul_zero]; omega

/-- every operation built by `find_sym_op_*` for (segment, axial position) moves the midpoint of
    (segment, basic axial position) to the midpoint of (segment, axial position) -/
theorem newOp_centre (V : Int) (f : Flags) (g : AxGeo) (hg : g.Symmetric) (k : Kind) (seg ax : Int) :
    let y := Sym.make V f g
    (y.newOp k seg ax).zmap4 (y.centre4 seg (if y.shiftZ = true ∧ ax ≠ 0 then 0 else ax)) =
      (if k = .trivial then y.centre4 seg (if y.shiftZ = true ∧ ax ≠ 0 then 0 else ax) else y.centre4 seg ax) := by
  intro y
  have hq : ∀ a, 4 * y.transformZ (iabs seg) a = 2 * y.centre4 seg a := by
    intro a; rw [(transformZ_eq V f g (iabs seg) a).1, centre4_iabs V f g hg]
  have hax := centre4_ax y seg ax
  by_cases hax0 : ax = 0
  · subst hax0
    cases hz : y.shiftZ <;> cases k <;>
      simp only [Sym.newOp, SymOp.zmap4, SymOp.triv, hz, Bool.false_eq_true, false_and, true_and, if_true, if_false,
        reduceCtorEq, hq, ne_eq, not_true_eq_false, Int.mul_zero] <;> omega
  · cases hz : y.shiftZ <;> cases k <;>
      simp only [Sym.newOp, SymOp.zmap4, SymOp.triv, hz, Bool.false_eq_true, false_and, true_and, if_true, if_false,
        reduceCtorEq, hq, ne_eq, hax0, not_false_eq_true] <;> omega

theorem mkShift_centre (V : Int) (f : Flags) (g : AxGeo) (hg : g.Symmetric) (seg ax : Int) :
    let y := Sym.make V f g
    (y.mkShift seg ax).zmap4 (y.centre4 seg (if y.shiftZ = true ∧ ax ≠ 0 then 0 else ax)) = y.centre4 seg ax := by
  intro y
  have hax := centre4_ax y seg ax
  by_cases h0 : (if y.shiftZ = true then y.nppa seg * ax else 0) = 0
  · -- z_shift == 0: trivial operation
    have : y.mkShift seg ax = SymOp.triv := by unfold Sym.mkShift; rw [if_pos h0]
    rw [this]
    simp only [SymOp.zmap4, SymOp.triv]
    cases hz : y.shiftZ
    · simp only [Bool.false_eq_true, false_and, if_false]
    · simp only [hz, if_true] at h0
      simp only [true_and]
      split
      · rw [hax, h0]; omega
      · rfl
  · have h1 : y.mkShift seg ax = y.newOp .z_shift seg ax := by unfold Sym.mkShift; rw [if_neg h0]
    rw [h1]
    have := newOp_centre V f g hg .z_shift seg ax
    simp only [reduceCtorEq, if_false] at this
    exact this

/-- the operation found for a bin is one of those built by `newOp` / `mkShift` for its segment and axial position -/
theorem findSymOp_form (y : Sym) (b : Bin) :
    (∃ k, k ≠ Kind.trivial ∧ y.findSymOp b = y.newOp k b.seg b.ax) ∨ y.findSymOp b = y.mkShift b.seg b.ax := by
  unfold Sym.findSymOp Sym.symOpBin0 Sym.symOpGeneral
  simp only
  split_ifs <;> first | exact Or.inr rfl | exact Or.inl ⟨_, by decide, rfl⟩

/-- **axial midpoint**: the z map of the operation found for `b` carries the axial midpoint of the LOR of the
    basic bin to the axial midpoint of the LOR of `b` -/
theorem zmap_centre (V : Int) (f : Flags) (g : AxGeo) (hg : g.Symmetric) (b : Bin) :
    let y := Sym.make V f g
    (y.findSymOp b).zmap4 (y.centre4 (y.basic b).seg (y.basic b).ax) = y.centre4 b.seg b.ax := by
  intro y
  have h1 : (y.basic b).seg = y.basicSeg b.seg := rfl
  have h2 : (y.basic b).ax = if y.shiftZ = true ∧ b.ax ≠ 0 then 0 else b.ax := rfl
  rw [h1, h2, centre4_basicSeg V f g hg]
  rcases findSymOp_form y b with ⟨k, hk, hop⟩ | hop
  · rw [hop]
    have := newOp_centre V f g hg k b.seg b.ax
    simp only [hk, if_false] at this
    exact this
  · rw [hop]; exact mkShift_centre V f g hg b.seg b.ax

/-- the z map of an operation is an isometry of the axis (a translation or a reflection) -/
theorem zmap4_dist (o : SymOp) (u v : Int) :
    o.zmap4 u - o.zmap4 v = u - v ∨ o.zmap4 u - o.zmap4 v = -(u - v) := by
  obtain ⟨k, V, a, zs, q⟩ := o
  cases k <;> simp only [SymOp.zmap4] <;> first | exact Or.inl trivial | exact Or.inl (by omega) | exact Or.inr (by omega)

/-- **axial slab**: a voxel whose plane lies within `w` quarter planes of the axial midpoint of the basic bin's LOR
    is moved to a plane within `w` quarter planes of the axial midpoint of the LOR of `b` -/
theorem onVoxel_z_slab (V : Int) (f : Flags) (g : AxGeo) (hg : g.Symmetric) (b : Bin) (c : Vox) (w : Int)
    (h : -w ≤ 4 * c.z - (Sym.make V f g).centre4 ((Sym.make V f g).basic b).seg ((Sym.make V f g).basic b).ax ∧
      4 * c.z - (Sym.make V f g).centre4 ((Sym.make V f g).basic b).seg ((Sym.make V f g).basic b).ax ≤ w) :
    -w ≤ 4 * (((Sym.make V f g).findSymOp b).onVoxel c).z - (Sym.make V f g).centre4 b.seg b.ax ∧
      4 * (((Sym.make V f g).findSymOp b).onVoxel c).z - (Sym.make V f g).centre4 b.seg b.ax ≤ w := by
  have h1 : ((Sym.make V f g).findSymOp b).zmap4
      ((Sym.make V f g).centre4 ((Sym.make V f g).basic b).seg ((Sym.make V f g).basic b).ax) =
        (Sym.make V f g).centre4 b.seg b.ax := zmap_centre V f g hg b
  have h2 := onVoxel_zmap4 ((Sym.make V f g).findSymOp b) c
  have h3 := zmap4_dist ((Sym.make V f g).findSymOp b) (4 * c.z)
    ((Sym.make V f g).centre4 ((Sym.make V f g).basic b).seg ((Sym.make V f g).basic b).ax)
  rw [h1] at h3
  rw [h2]
  rcases h3 with h3 | h3 <;> omega

end StirVerif.C03
