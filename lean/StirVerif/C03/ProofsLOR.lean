/-
C03 — geometric equivariance over ℝ: the line of response (LOR) of `op.onBin b` is the image of the LOR of `b`
under the grid isometry that `op.onVoxel` induces on ℝ³.  This is the geometric reason why a symmetry-related row of
the system matrix may be derived (`transform_proj_matrix_elems_for_one_bin`) instead of ray-traced.

Coordinate convention.  Points are in voxel-index coordinates `(x, y, z)` = (`c[3]`, `c[2]`, `c[1]`) of
`BasicCoordinate<3,int>`, exactly the three fields of `Vox`.  The LOR of a bin is the line that
`ray_trace_one_lor` (src/recon_buildblock/ProjMatrixByBinUsingRayTracing.cxx:457-518) traces:

    X = s·cos φ + a·sin φ,   Y = s·sin φ − a·cos φ,   Z = t/cos θ + offset_in_z − a·tan θ        (mm)
    start/stop = (X / voxel_size.x, Y / voxel_size.y, Z / voxel_size.z)

with the path parameter renamed `t := −a` (so that the direction is `(−sin φ, cos φ, tan θ)`):

    x = ox + cx·(s·cos φ − t·sin φ),   y = oy + cy·(s·sin φ + t·cos φ),   z = zmid + t·tanθ.

`φ(view) = φ₀ + view·π/V`, `cx, cy = 1/voxel size`, `(ox, oy)` = index coordinates of the scanner axis (0 for an image
centred on the axis), `zmid` = axial midpoint in plane units (= `t/cos θ + offset_in_z` over `voxel_size.z`),
`tanθ` in planes per mm.  `s` and `tanθ` are *arbitrary odd* functions of the tangential position / segment number
(arc-corrected or not; the constructor of the symmetries object checks both oddness conditions).

The convention was validated before proving (scratch `#eval` over `Float`, V = 6, 8, 12, all 17 kinds, views inside and
outside `[0, V)`, 25 bins × 4 path parameters each): maximal deviation 0 up to rounding with this convention and the
orientation table `SymOp.orient` below; with the mirrored convention (`φ ↦ −φ`) all eight 90° kinds are off by > 8
voxels, with `V` odd they are off by 0.9, and with orientation `+1` throughout 11 kinds fail.  So the statement
distinguishes the conventions, and the one used is the one of the C++ ray tracer.

The orientation `orient o b ∈ {1, −1}` says whether the operation keeps or reverses the direction
`(−sin φ, cos φ, tan θ)` of the line; it is what decides the fate of a TOF coordinate along the line.
-/
import StirVerif.C03.ProofsZ
import StirVerif.C03.ProofsRebuild
import StirVerif.C03.ProofsMisc
import Mathlib.Analysis.SpecialFunctions.Trigonometric.Basic
import Mathlib.Tactic.Ring
import Mathlib.Tactic.LinearCombination
import Mathlib.Tactic.FieldSimp
import Mathlib.Tactic.SplitIfs
import Mathlib.Tactic.Tauto

namespace StirVerif.C03
open Real
set_option linter.unusedSimpArgs false
set_option linter.unusedVariables false
set_option linter.unusedSectionVars false
noncomputable section

/-! ## points, the real-affine extension of `onVoxel` -/

/-- a point of ℝ³ in voxel-index coordinates -/
@[ext] structure P3 where
  x : ℝ
  y : ℝ
  z : ℝ

/-- the centre of a voxel -/
def Vox.toP3 (c : Vox) : P3 := ⟨c.x, c.y, c.z⟩

/-- the z part of `transform_image_coordinates`, on real plane coordinates -/
def SymOp.onZ (o : SymOp) (z : ℝ) : ℝ :=
  match o.kind with
  | .trivial => z
  | .z_shift | .swap_xmy_yx | .swap_xy_yx | .swap_xmx | .swap_ymy | .swap_xy_ymx | .swap_xmy_ymx | .swap_xmx_ymy =>
    z + o.zShift
  | _ => o.q - z + o.zShift

/-- `transform_image_coordinates` extended to ℝ³: the same signed permutation of (x, y) and the same affine map of z
    as `SymOp.onVoxel`, clause by clause -/
def SymOp.onPoint (o : SymOp) (c : P3) : P3 :=
  let zs := c.z + o.zShift
  let zq := o.q - c.z + o.zShift
  match o.kind with
  | .trivial => c
  | .z_shift => { c with z := zs }
  | .swap_xmx_zq => { z := zq, y := c.y, x := -c.x }
  | .swap_xmy_yx_zq => { z := zq, y := c.x, x := -c.y }
  | .swap_xy_yx_zq => { z := zq, y := c.x, x := c.y }
  | .swap_xmy_yx => { z := zs, y := c.x, x := -c.y }
  | .swap_xy_yx => { z := zs, y := c.x, x := c.y }
  | .swap_xmx => { z := zs, y := c.y, x := -c.x }
  | .swap_ymy => { z := zs, y := -c.y, x := c.x }
  | .swap_zq => { z := zq, y := c.y, x := c.x }
  | .swap_xmx_ymy_zq => { z := zq, y := -c.y, x := -c.x }
  | .swap_xy_ymx_zq => { z := zq, y := -c.x, x := c.y }
  | .swap_xy_ymx => { z := zs, y := -c.x, x := c.y }
  | .swap_xmy_ymx => { z := zs, y := -c.x, x := -c.y }
  | .swap_ymy_zq => { z := zq, y := -c.y, x := c.x }
  | .swap_xmx_ymy => { z := zs, y := -c.y, x := -c.x }
  | .swap_xmy_ymx_zq => { z := zq, y := -c.x, x := -c.y }

/-- `onPoint` agrees with `onVoxel` on voxel centres -/
theorem onPoint_toP3 (o : SymOp) (c : Vox) : o.onPoint c.toP3 = (o.onVoxel c).toP3 := by
  obtain ⟨k, V, a, zs, q⟩ := o
  obtain ⟨z, y, x⟩ := c
  cases k <;> simp only [SymOp.onPoint, SymOp.onVoxel, Vox.toP3, Int.cast_add, Int.cast_sub, Int.cast_neg]

theorem onPoint_z (o : SymOp) (c : P3) : (o.onPoint c).z = o.onZ c.z := by
  obtain ⟨k, V, a, zs, q⟩ := o
  cases k <;> rfl

/-- `onZ` is `zmap4` of `ProofsZ.lean` in plane units instead of quarter planes -/
theorem onZ_zmap4 (o : SymOp) (z4 : ℤ) : o.onZ ((z4 : ℝ) / 4) = ((o.zmap4 z4 : ℤ) : ℝ) / 4 := by
  obtain ⟨k, V, a, zs, q⟩ := o
  cases k <;> simp only [SymOp.onZ, SymOp.zmap4, Int.cast_add, Int.cast_sub, Int.cast_mul, Int.cast_ofNat] <;> ring

/-- every operation is an isometry of ℝ³ with the Euclidean metric of the index grid (squared distance) -/
theorem onPoint_isometry (o : SymOp) (p p' : P3) :
    ((o.onPoint p).x - (o.onPoint p').x) ^ 2 + ((o.onPoint p).y - (o.onPoint p').y) ^ 2
        + ((o.onPoint p).z - (o.onPoint p').z) ^ 2 =
      (p.x - p'.x) ^ 2 + (p.y - p'.y) ^ 2 + (p.z - p'.z) ^ 2 := by
  obtain ⟨k, V, a, zs, q⟩ := o
  cases k <;> simp only [SymOp.onPoint] <;> ring

/-! ## the geometry of a bin -/

/-- what the ray tracer takes from the projection data and the image (cylindrical scanner) -/
structure LorGeo where
  /-- number of views (`view180`) -/
  V : ℤ
  /-- azimuthal angle of view 0 (`get_phi(Bin(0,0,0,0))`) -/
  phi0 : ℝ
  /-- `get_s` (mm) as a function of the tangential position number -/
  s : ℤ → ℝ
  /-- `get_tantheta(segment) / voxel_size.z`: planes per mm of transaxial path -/
  tan : ℤ → ℝ
  /-- axial midpoint of the LOR of (segment, axial position), in plane-index units -/
  zmid : ℤ → ℤ → ℝ
  /-- `1 / voxel_size.x`, `1 / voxel_size.y` -/
  cx : ℝ
  cy : ℝ
  /-- index coordinates of the scanner axis (`−origin.x / voxel_size.x`, …) -/
  ox : ℝ
  oy : ℝ

/-- the oddness conditions the constructor checks, and a non-zero number of views -/
structure LorGeo.WF (G : LorGeo) : Prop where
  Vne : G.V ≠ 0
  s_odd : ∀ t, G.s (-t) = -G.s t
  tan_odd : ∀ g, G.tan (-g) = -G.tan g

/-- azimuthal angle of a view -/
def LorGeo.phi (G : LorGeo) (view : ℤ) : ℝ := G.phi0 + view * π / G.V

/-- the point with path parameter `t` on the ray of the tube of `b` that is displaced by `ds` (mm) tangentially and by
    `dz` (planes) axially from the central LOR (direction of increasing `t`: `(−sin φ, cos φ, tan θ)`); this is
    `ray_trace_one_lor`'s parametrisation with `t = −a`, `s_in_mm = get_s(bin) + ds` (`num_tangential_LORs > 1`) and
    `offset_in_z` displaced by `dz` (`num_lors_per_axial_pos > 1`, `add_adjacent_z`) -/
def LorGeo.ray (G : LorGeo) (b : Bin) (ds dz t : ℝ) : P3 :=
  { x := G.ox + G.cx * ((G.s b.tang + ds) * cos (G.phi b.view) - t * sin (G.phi b.view))
    y := G.oy + G.cy * ((G.s b.tang + ds) * sin (G.phi b.view) + t * cos (G.phi b.view))
    z := G.zmid b.seg b.ax + dz + t * G.tan b.seg }

/-- the point with path parameter `t` on the (central) LOR of `b` -/
def LorGeo.point (G : LorGeo) (b : Bin) (t : ℝ) : P3 := G.ray b 0 0 t

/-- the LOR of a bin as a subset of ℝ³ -/
def LorGeo.lor (G : LorGeo) (b : Bin) : Set P3 := Set.range (G.point b)

/-- the bundle of rays of a bin with tangential displacements in `Ds` and axial displacements in `Dz` -/
def LorGeo.tube (G : LorGeo) (Ds Dz : Set ℝ) (b : Bin) : Set P3 :=
  {p | ∃ ds ∈ Ds, ∃ dz ∈ Dz, ∃ t, G.ray b ds dz t = p}

/-! ## where an operation may be used -/

/-- the operation moves (x, y) -/
def Kind.movesXY : Kind → Bool
  | .trivial | .z_shift | .swap_zq => false
  | _ => true

/-- the operation changes the view number (uses `view180`) -/
def Kind.usesViews : Kind → Bool
  | .trivial | .z_shift | .swap_zq | .swap_xmx_ymy_zq | .swap_xmx_ymy => false
  | _ => true

/-- the operation exchanges x and y (uses `view180/2`) -/
def Kind.usesQuarter : Kind → Bool
  | .swap_xmy_yx_zq | .swap_xy_yx_zq | .swap_xmy_yx | .swap_xy_yx | .swap_xy_ymx_zq | .swap_xy_ymx | .swap_xmy_ymx
  | .swap_xmy_ymx_zq => true
  | _ => false

/-- the conditions under which the constructor leaves an operation in use, as far as the geometry needs them:
    * an operation that moves (x, y) needs the image centred on the scanner axis;
    * one that changes the view needs its `view180` to be the number of views, and no azimuthal offset;
    * one that exchanges x and y needs an even number of views and square voxels.
    (The constructor asks for `num_views % 4 = 0`; the geometry needs `num_views % 2 = 0` only.) -/
def SymOp.Fits (o : SymOp) (G : LorGeo) : Prop :=
  (o.kind.movesXY = true → G.ox = 0 ∧ G.oy = 0) ∧
  (o.kind.usesViews = true → o.view180 = G.V ∧ G.phi0 = 0) ∧
  (o.kind.usesQuarter = true → 2 ∣ G.V ∧ G.cx = G.cy)

/-- `+1` if the operation keeps the direction `(−sin φ, cos φ, tan θ)` of the LOR of `b`, `−1` if it reverses it
    (the branches are those of `SymOp.onBin`) -/
def SymOp.orient (o : SymOp) (b : Bin) : ℤ :=
  let h := o.view180.tdiv 2
  match o.kind with
  | .trivial | .z_shift | .swap_xmy_yx_zq | .swap_zq | .swap_ymy_zq | .swap_xmy_ymx_zq => 1
  | .swap_xmx_zq | .swap_xy_yx_zq | .swap_xmx_ymy_zq | .swap_xmx_ymy => -1
  | .swap_xmy_yx => if b.view < h then 1 else -1
  | .swap_xy_yx => if b.view ≤ h then -1 else 1
  | .swap_xmx => if b.view ≠ 0 then -1 else 1
  | .swap_ymy => if b.view ≠ 0 then 1 else -1
  | .swap_xy_ymx_zq => if b.view < h then -1 else 1
  | .swap_xy_ymx => if b.view < h then -1 else 1
  | .swap_xmy_ymx => if b.view ≤ h then 1 else -1

/-- `−1` on the branches of `onBin` that negate the tangential position (the operation maps `s ↦ −s`), else `+1` -/
def SymOp.sSign (o : SymOp) (b : Bin) : ℤ :=
  let h := o.view180.tdiv 2
  match o.kind with
  | .trivial | .z_shift | .swap_xmx_zq | .swap_xmy_yx_zq | .swap_xy_yx_zq | .swap_zq => 1
  | .swap_xmx_ymy_zq | .swap_ymy_zq | .swap_xmx_ymy | .swap_xmy_ymx_zq => -1
  | .swap_xmy_yx => if b.view < h then 1 else -1
  | .swap_xy_yx => if b.view ≤ h then 1 else -1
  | .swap_xmx => if b.view ≠ 0 then 1 else -1
  | .swap_ymy => if b.view ≠ 0 then -1 else 1
  | .swap_xy_ymx_zq => if b.view < h then -1 else 1
  | .swap_xy_ymx => if b.view < h then -1 else 1
  | .swap_xmy_ymx => if b.view ≤ h then -1 else 1

/-- `−1` for the operations that mirror z (`…_zq`), else `+1` -/
def SymOp.zSign (o : SymOp) : ℤ :=
  match o.kind with
  | .trivial | .z_shift | .swap_xmy_yx | .swap_xy_yx | .swap_xmx | .swap_ymy | .swap_xy_ymx | .swap_xmy_ymx
  | .swap_xmx_ymy => 1
  | _ => -1

/-- `sSign` is the sign `onBin` gives the tangential position -/
theorem onBin_tang (o : SymOp) (b : Bin) : (o.onBin b).tang = o.sSign b * b.tang := by
  obtain ⟨k, V, a, zs, q⟩ := o
  cases k <;> simp only [SymOp.onBin, SymOp.sSign] <;> (try split_ifs) <;> simp only [Int.one_mul, Int.neg_mul]

theorem orient_cases (o : SymOp) (b : Bin) : o.orient b = 1 ∨ o.orient b = -1 := by
  obtain ⟨k, V, a, zs, q⟩ := o
  cases k <;> simp only [SymOp.orient] <;> (try split_ifs) <;> trivial

theorem sSign_cases (o : SymOp) (b : Bin) : o.sSign b = 1 ∨ o.sSign b = -1 := by
  obtain ⟨k, V, a, zs, q⟩ := o
  cases k <;> simp only [SymOp.sSign] <;> (try split_ifs) <;> trivial

theorem zSign_cases (o : SymOp) : o.zSign = 1 ∨ o.zSign = -1 := by
  obtain ⟨k, V, a, zs, q⟩ := o
  cases k <;> first | exact Or.inl rfl | exact Or.inr rfl

theorem orient_sq (o : SymOp) (b : Bin) : o.orient b * o.orient b = 1 := by
  obtain ⟨k, V, a, zs, q⟩ := o
  cases k <;> simp only [SymOp.orient] <;> (try split_ifs) <;> rfl

/-! ## angles of the transformed views -/

section angles
variable (G : LorGeo) (hV : G.V ≠ 0) (h0 : G.phi0 = 0)
include hV h0

theorem phi_zero : G.phi 0 = 0 := by
  simp only [LorGeo.phi, h0, Int.cast_zero, zero_mul, zero_div, add_zero]

theorem phi_V_sub (v : ℤ) : G.phi (G.V - v) = π - G.phi v := by
  have : (G.V : ℝ) ≠ 0 := Int.cast_ne_zero.mpr hV
  simp only [LorGeo.phi, h0, Int.cast_sub, zero_add]
  field_simp

variable (h2 : 2 ∣ G.V)
include h2

theorem tdiv_half : (G.V : ℝ) = 2 * ((G.V.tdiv 2 : ℤ) : ℝ) ∧ ((3 * G.V).tdiv 2 : ℤ) = 3 * G.V.tdiv 2 := by
  obtain ⟨h, hh⟩ := h2
  have e1 : G.V.tdiv 2 = h := by rw [hh]; exact Int.mul_tdiv_cancel_left h (by decide)
  have e2 : (3 * G.V).tdiv 2 = 3 * h := by
    rw [hh, show 3 * (2 * h) = 2 * (3 * h) by ring]; exact Int.mul_tdiv_cancel_left _ (by decide)
  rw [e1, e2]
  exact ⟨by rw [hh]; push_cast; ring, rfl⟩

theorem phi_add_half (v : ℤ) : G.phi (v + G.V.tdiv 2) = G.phi v + π / 2 := by
  have hne : (G.V : ℝ) ≠ 0 := Int.cast_ne_zero.mpr hV
  obtain ⟨e, -⟩ := tdiv_half G hV h0 h2
  have hh : ((G.V.tdiv 2 : ℤ) : ℝ) ≠ 0 := by intro h; rw [h] at e; exact hne (by rw [e]; ring)
  simp only [LorGeo.phi, h0, Int.cast_add, zero_add, e]
  field_simp

theorem phi_sub_half (v : ℤ) : G.phi (v - G.V.tdiv 2) = G.phi v - π / 2 := by
  have hne : (G.V : ℝ) ≠ 0 := Int.cast_ne_zero.mpr hV
  obtain ⟨e, -⟩ := tdiv_half G hV h0 h2
  have hh : ((G.V.tdiv 2 : ℤ) : ℝ) ≠ 0 := by intro h; rw [h] at e; exact hne (by rw [e]; ring)
  simp only [LorGeo.phi, h0, Int.cast_sub, zero_add, e]
  field_simp

theorem phi_half_sub (v : ℤ) : G.phi (G.V.tdiv 2 - v) = π / 2 - G.phi v := by
  have hne : (G.V : ℝ) ≠ 0 := Int.cast_ne_zero.mpr hV
  obtain ⟨e, -⟩ := tdiv_half G hV h0 h2
  have hh : ((G.V.tdiv 2 : ℤ) : ℝ) ≠ 0 := by intro h; rw [h] at e; exact hne (by rw [e]; ring)
  simp only [LorGeo.phi, h0, Int.cast_sub, zero_add, e]
  field_simp

theorem phi_three_half_sub (v : ℤ) : G.phi ((3 * G.V).tdiv 2 - v) = π / 2 - G.phi v + π := by
  have hne : (G.V : ℝ) ≠ 0 := Int.cast_ne_zero.mpr hV
  obtain ⟨e, e3⟩ := tdiv_half G hV h0 h2
  have hh : ((G.V.tdiv 2 : ℤ) : ℝ) ≠ 0 := by intro h; rw [h] at e; exact hne (by rw [e]; ring)
  simp only [LorGeo.phi, h0, e3, Int.cast_sub, Int.cast_mul, Int.cast_ofNat, zero_add, e]
  field_simp
  ring

end angles

/-- cosines and sines of the five transformed views, in terms of those of the view itself -/
theorem trig_views (G : LorGeo) (hV : G.V ≠ 0) (h0 : G.phi0 = 0) (v : ℤ) :
    cos (G.phi (G.V - v)) = -cos (G.phi v) ∧ sin (G.phi (G.V - v)) = sin (G.phi v) ∧
    (2 ∣ G.V →
      (cos (G.phi (v + G.V.tdiv 2)) = -sin (G.phi v) ∧ sin (G.phi (v + G.V.tdiv 2)) = cos (G.phi v)) ∧
      (cos (G.phi (v - G.V.tdiv 2)) = sin (G.phi v) ∧ sin (G.phi (v - G.V.tdiv 2)) = -cos (G.phi v)) ∧
      (cos (G.phi (G.V.tdiv 2 - v)) = sin (G.phi v) ∧ sin (G.phi (G.V.tdiv 2 - v)) = cos (G.phi v)) ∧
      (cos (G.phi ((3 * G.V).tdiv 2 - v)) = -sin (G.phi v) ∧ sin (G.phi ((3 * G.V).tdiv 2 - v)) = -cos (G.phi v))) := by
  refine ⟨?_, ?_, fun h2 => ⟨⟨?_, ?_⟩, ⟨?_, ?_⟩, ⟨?_, ?_⟩, ⟨?_, ?_⟩⟩⟩
  · rw [phi_V_sub G hV h0, cos_pi_sub]
  · rw [phi_V_sub G hV h0, sin_pi_sub]
  · rw [phi_add_half G hV h0 h2, cos_add_pi_div_two]
  · rw [phi_add_half G hV h0 h2, sin_add_pi_div_two]
  · rw [phi_sub_half G hV h0 h2, cos_sub_pi_div_two]
  · rw [phi_sub_half G hV h0 h2, sin_sub_pi_div_two]
  · rw [phi_half_sub G hV h0 h2, cos_pi_div_two_sub]
  · rw [phi_half_sub G hV h0 h2, sin_pi_div_two_sub]
  · rw [phi_three_half_sub G hV h0 h2, cos_add_pi, cos_pi_div_two_sub]
  · rw [phi_three_half_sub G hV h0 h2, sin_add_pi, sin_pi_div_two_sub]

/-! ## the equivariance -/

set_option hygiene false in
/-- common end: unfold both sides, split the branches of `onBin`, rewrite the angles, finish by `ring` -/
macro "lor_finish" : tactic => `(tactic|
  (simp only [SymOp.onZ, SymOp.onBin] at hz
   simp only [SymOp.onPoint, SymOp.onBin, SymOp.orient, SymOp.sSign, SymOp.zSign, LorGeo.ray]
   (try split_ifs at hz ⊢)
   all_goals
     (simp only [hox, hoy, hs, ht, Int.cast_one, Int.cast_neg, P3.mk.injEq, zero_add] at hz ⊢
      exact ⟨by ring, by ring, by linear_combination hz⟩)))

set_option hygiene false in
/-- kinds that keep the view -/
macro "lor_noview" : tactic => `(tactic|
  (obtain ⟨hox, hoy⟩ := hf.1 rfl
   lor_finish))

set_option hygiene false in
/-- kinds that send the view to `view180 − view` in every branch -/
macro "lor_view" : tactic => `(tactic|
  (obtain ⟨hox, hoy⟩ := hf.1 rfl
   obtain ⟨hW, h0⟩ := hf.2.1 rfl
   simp only at hW; subst hW
   obtain ⟨c1, s1, -⟩ := trig_views G hV h0 view
   simp only [SymOp.onZ, SymOp.onBin] at hz
   simp only [SymOp.onPoint, SymOp.onBin, SymOp.orient, SymOp.sSign, SymOp.zSign, LorGeo.ray, c1, s1]
   simp only [hox, hoy, hs, ht, Int.cast_one, Int.cast_neg, P3.mk.injEq, zero_add] at hz ⊢
   exact ⟨by ring, by ring, by linear_combination hz⟩))

set_option hygiene false in
/-- kinds with a special branch for view 0 -/
macro "lor_view0" : tactic => `(tactic|
  (obtain ⟨hox, hoy⟩ := hf.1 rfl
   obtain ⟨hW, h0⟩ := hf.2.1 rfl
   simp only at hW; subst hW
   obtain ⟨c1, s1, -⟩ := trig_views G hV h0 view
   have p0 := phi_zero G hV h0
   simp only [SymOp.onZ, SymOp.onBin] at hz
   simp only [SymOp.onPoint, SymOp.onBin, SymOp.orient, SymOp.sSign, SymOp.zSign, LorGeo.ray]
   split_ifs at hz ⊢ with hv0
   · simp only [hox, hoy, hs, ht, c1, s1, Int.cast_one, Int.cast_neg, P3.mk.injEq, zero_add] at hz ⊢
     exact ⟨by ring, by ring, by linear_combination hz⟩
   · have hv1 : view = 0 := not_not.mp hv0
     subst hv1
     simp only [hox, hoy, hs, ht, p0, cos_zero, sin_zero, Int.cast_one, Int.cast_neg, P3.mk.injEq, zero_add] at hz ⊢
     exact ⟨by ring, by ring, by linear_combination hz⟩))

set_option hygiene false in
/-- kinds that exchange x and y -/
macro "lor_quarter" : tactic => `(tactic|
  (obtain ⟨hox, hoy⟩ := hf.1 rfl
   obtain ⟨hW, h0⟩ := hf.2.1 rfl
   obtain ⟨h2, hc⟩ := hf.2.2 rfl
   simp only at hW; subst hW
   obtain ⟨-, -, hq⟩ := trig_views G hV h0 view
   obtain ⟨⟨c1, s1⟩, ⟨c2, s2⟩, ⟨c3, s3⟩, ⟨c4, s4⟩⟩ := hq h2
   simp only [SymOp.onZ, SymOp.onBin] at hz
   simp only [SymOp.onPoint, SymOp.onBin, SymOp.orient, SymOp.sSign, SymOp.zSign, LorGeo.ray]
   (try split_ifs at hz ⊢)
   all_goals
     (simp only [hox, hoy, hs, ht, hc, c1, s1, c2, s2, c3, s3, c4, s4, Int.cast_one, Int.cast_neg, P3.mk.injEq,
        zero_add] at hz ⊢
      exact ⟨by ring, by ring, by linear_combination hz⟩)))

/-- **pointwise equivariance**, every kind, every ray of the tube: the operation carries the point with path
    parameter `t` on the ray `(ds, dz)` of `b` to the point with path parameter `orient · t` on the ray
    `(sSign · ds, zSign · dz)` of `o.onBin b`.
    `hz` is the axial compatibility of the operation's constants with the data: its z map carries the axial midpoint
    of `b` to the axial midpoint of `o.onBin b` (for the operations built by `find_sym_op_*` this is
    `zmap_centre`, see `lor_equivariant_findSymOp`). -/
theorem onPoint_ray (G : LorGeo) (hG : G.WF) (o : SymOp) (hf : o.Fits G) (b : Bin)
    (hz : o.onZ (G.zmid b.seg b.ax) = G.zmid (o.onBin b).seg (o.onBin b).ax) (ds dz t : ℝ) :
    o.onPoint (G.ray b ds dz t) =
      G.ray (o.onBin b) ((o.sSign b : ℝ) * ds) ((o.zSign : ℝ) * dz) ((o.orient b : ℝ) * t) := by
  obtain ⟨hV, hs, ht⟩ := hG
  obtain ⟨k, W, a, zs, q⟩ := o
  obtain ⟨seg, view, ax, tang, tof⟩ := b
  cases k
  case trivial =>
    simp only [SymOp.onPoint, SymOp.onBin, SymOp.orient, SymOp.sSign, SymOp.zSign, Int.cast_one, one_mul]
  case z_shift =>
    simp only [SymOp.onZ, SymOp.onBin] at hz
    simp only [SymOp.onPoint, SymOp.onBin, SymOp.orient, SymOp.sSign, SymOp.zSign, LorGeo.ray, Int.cast_one, one_mul, P3.mk.injEq, true_and]
    linear_combination hz
  case swap_zq =>
    simp only [SymOp.onZ, SymOp.onBin] at hz
    simp only [SymOp.onPoint, SymOp.onBin, SymOp.orient, SymOp.sSign, SymOp.zSign, LorGeo.ray, Int.cast_one, one_mul, P3.mk.injEq, true_and, ht]
    linear_combination hz
  case swap_xmx_ymy_zq => lor_noview
  case swap_xmx_ymy => lor_noview
  case swap_xmx_zq => lor_view
  case swap_ymy_zq => lor_view
  case swap_xmx => lor_view0
  case swap_ymy => lor_view0
  case swap_xmy_yx_zq => lor_quarter
  case swap_xy_yx_zq => lor_quarter
  case swap_xmy_yx => lor_quarter
  case swap_xy_yx => lor_quarter
  case swap_xy_ymx_zq => lor_quarter
  case swap_xy_ymx => lor_quarter
  case swap_xmy_ymx => lor_quarter
  case swap_xmy_ymx_zq => lor_quarter

/-- pointwise equivariance on the central LOR -/
theorem onPoint_point (G : LorGeo) (hG : G.WF) (o : SymOp) (hf : o.Fits G) (b : Bin)
    (hz : o.onZ (G.zmid b.seg b.ax) = G.zmid (o.onBin b).seg (o.onBin b).ax) (t : ℝ) :
    o.onPoint (G.point b t) = G.point (o.onBin b) ((o.orient b : ℝ) * t) := by
  have h := onPoint_ray G hG o hf b hz 0 0 t
  simp only [mul_zero] at h
  exact h

/-- a sign squares to one, over ℝ -/
theorem sign_mul_self {σ : ℤ} (h : σ = 1 ∨ σ = -1) (x : ℝ) : (σ : ℝ) * ((σ : ℝ) * x) = x := by
  rcases h with h | h <;> rw [h] <;> push_cast <;> ring

theorem sign_mem {σ : ℤ} (h : σ = 1 ∨ σ = -1) {D : Set ℝ} (hD : ∀ d ∈ D, -d ∈ D) {d : ℝ} (hd : d ∈ D) :
    (σ : ℝ) * d ∈ D := by
  rcases h with h | h <;> rw [h] <;> push_cast
  · rw [one_mul]; exact hd
  · rw [neg_one_mul]; exact hD d hd

/-- **LOR equivariance (sets)**: `onPoint o` maps the LOR of `b` onto the LOR of `o.onBin b` -/
theorem lor_equivariant (G : LorGeo) (hG : G.WF) (o : SymOp) (hf : o.Fits G) (b : Bin)
    (hz : o.onZ (G.zmid b.seg b.ax) = G.zmid (o.onBin b).seg (o.onBin b).ax) :
    o.onPoint '' G.lor b = G.lor (o.onBin b) := by
  ext p
  simp only [LorGeo.lor, Set.mem_image, Set.mem_range, exists_exists_eq_and]
  constructor
  · rintro ⟨t, rfl⟩
    exact ⟨_, (onPoint_point G hG o hf b hz t).symm⟩
  · rintro ⟨t, rfl⟩
    refine ⟨(o.orient b : ℝ) * t, ?_⟩
    rw [onPoint_point G hG o hf b hz, sign_mul_self (orient_cases o b)]

/-- **tube equivariance**: for bundles of rays whose tangential and axial displacements are symmetric about the
    central LOR (`ray_trace_one_lor` is called with `s_in_mm ± k·s_inc`; the axial rays are placed symmetrically
    about the centre of the tube), `onPoint o` maps the bundle of `b` onto the bundle of `o.onBin b` -/
theorem tube_equivariant (G : LorGeo) (hG : G.WF) (o : SymOp) (hf : o.Fits G) (b : Bin)
    (hz : o.onZ (G.zmid b.seg b.ax) = G.zmid (o.onBin b).seg (o.onBin b).ax)
    (Ds Dz : Set ℝ) (hDs : ∀ d ∈ Ds, -d ∈ Ds) (hDz : ∀ d ∈ Dz, -d ∈ Dz) :
    o.onPoint '' G.tube Ds Dz b = G.tube Ds Dz (o.onBin b) := by
  ext p
  simp only [LorGeo.tube, Set.mem_image, Set.mem_ofPred_eq]
  constructor
  · rintro ⟨_, ⟨ds, hds, dz, hdz, t, rfl⟩, rfl⟩
    exact ⟨_, sign_mem (sSign_cases o b) hDs hds, _, sign_mem (zSign_cases o) hDz hdz, _,
      (onPoint_ray G hG o hf b hz ds dz t).symm⟩
  · rintro ⟨ds, hds, dz, hdz, t, rfl⟩
    refine ⟨G.ray b ((o.sSign b : ℝ) * ds) ((o.zSign : ℝ) * dz) ((o.orient b : ℝ) * t),
      ⟨_, sign_mem (sSign_cases o b) hDs hds, _, sign_mem (zSign_cases o) hDz hdz, _, rfl⟩, ?_⟩
    rw [onPoint_ray G hG o hf b hz, sign_mul_self (sSign_cases o b), sign_mul_self (zSign_cases o),
      sign_mul_self (orient_cases o b)]

/-! ## time of flight

Modelling assumption: the TOF coordinate of an event is its path parameter `t` — measured along
`(−sin φ, cos φ, tan θ)`, an orientation fixed by view and tangential position alone
(`ProjDataInfoCylindricalNoArcCorr::get_bin_for_det_pair` orders the detector pair transaxially and flips the signs of
segment *and* timing position together) — and timing position `k` collects `|t − c(k)| ≤ w` with `c` odd. -/

/-- centres (an odd function of the timing position) and half-width of the timing bins along the path -/
structure TofGeo where
  c : ℤ → ℝ
  w : ℝ
  c_odd : ∀ k, c (-k) = -c k

/-- the part of the LOR of `b` that belongs to its timing position -/
def LorGeo.tofPart (G : LorGeo) (T : TofGeo) (b : Bin) : Set P3 :=
  G.point b '' Set.Icc (T.c b.tof - T.w) (T.c b.tof + T.w)

/-- the **TOF sign rule**: `onBin` negates the timing position exactly when the operation reverses the LOR -/
def SymOp.TofRule (o : SymOp) (b : Bin) : Prop := (o.onBin b).tof = o.orient b * b.tof

instance (o : SymOp) (b : Bin) : Decidable (o.TofRule b) :=
  inferInstanceAs (Decidable ((o.onBin b).tof = o.orient b * b.tof))

/-- the operation carries the TOF part of `b` onto the TOF part of the bin `o.onBin b` **with timing position
    `orient · tof`** — whatever `onBin` does to the timing position -/
theorem tofPart_image (G : LorGeo) (hG : G.WF) (T : TofGeo) (o : SymOp) (hf : o.Fits G) (b : Bin)
    (hz : o.onZ (G.zmid b.seg b.ax) = G.zmid (o.onBin b).seg (o.onBin b).ax) :
    o.onPoint '' G.tofPart T b = G.tofPart T { o.onBin b with tof := o.orient b * b.tof } := by
  have hp : ∀ t, G.point { o.onBin b with tof := o.orient b * b.tof } t = G.point (o.onBin b) t := fun _ => rfl
  ext p
  simp only [LorGeo.tofPart, Set.mem_image, Set.mem_Icc, exists_exists_and_eq_and, hp]
  rcases orient_cases o b with h | h
  · simp only [h, Int.one_mul]
    constructor
    · rintro ⟨t, ht, rfl⟩
      exact ⟨t, ht, by rw [onPoint_point G hG o hf b hz, h, Int.cast_one, one_mul]⟩
    · rintro ⟨t, ht, rfl⟩
      exact ⟨t, ht, by rw [onPoint_point G hG o hf b hz, h, Int.cast_one, one_mul]⟩
  · simp only [h, Int.reduceNeg, Int.neg_mul, Int.one_mul, T.c_odd]
    constructor
    · rintro ⟨t, ht, rfl⟩
      refine ⟨-t, ⟨by linarith [ht.2], by linarith [ht.1]⟩, ?_⟩
      rw [onPoint_point G hG o hf b hz, h]; push_cast; rw [neg_one_mul]
    · rintro ⟨t, ht, rfl⟩
      refine ⟨-t, ⟨by linarith [ht.2], by linarith [ht.1]⟩, ?_⟩
      rw [onPoint_point G hG o hf b hz, h]; push_cast; rw [neg_one_mul, neg_neg]

/-- **TOF equivariance**: where the sign rule holds, the TOF part of `b` goes onto the TOF part of `o.onBin b` -/
theorem tofPart_equivariant (G : LorGeo) (hG : G.WF) (T : TofGeo) (o : SymOp) (hf : o.Fits G) (b : Bin)
    (hz : o.onZ (G.zmid b.seg b.ax) = G.zmid (o.onBin b).seg (o.onBin b).ax) (hr : o.TofRule b) :
    o.onPoint '' G.tofPart T b = G.tofPart T (o.onBin b) := by
  rw [tofPart_image G hG T o hf b hz]
  unfold SymOp.TofRule at hr
  rw [← hr]

/-- the kinds that obey the sign rule for every bin: those that never reverse the LOR, and the two that reverse it
    and negate the timing position -/
def Kind.tofSafe : Kind → Bool
  | .trivial | .z_shift | .swap_xmy_yx_zq | .swap_zq | .swap_ymy_zq | .swap_xmy_ymx_zq | .swap_xmx_ymy_zq
  | .swap_xmx_ymy => true
  | _ => false

theorem tofRule_of_safe (o : SymOp) (h : o.kind.tofSafe = true) (b : Bin) : o.TofRule b := by
  obtain ⟨k, V, a, zs, q⟩ := o
  cases k <;> simp only [Kind.tofSafe, Bool.false_eq_true] at h <;>
    simp only [SymOp.TofRule, SymOp.onBin, SymOp.orient, Int.one_mul, Int.reduceNeg, Int.neg_mul]

/-- a timing position 0 is safe with every operation -/
theorem tofRule_of_tof_zero (o : SymOp) (b : Bin) (h : b.tof = 0) : o.TofRule b := by
  obtain ⟨k, V, a, zs, q⟩ := o
  obtain ⟨seg, view, ax, tang, tof⟩ := b
  simp only at h; subst h
  cases k <;> simp only [SymOp.TofRule, SymOp.onBin, SymOp.orient] <;> (try split_ifs) <;>
    simp only [Int.mul_zero, Int.neg_zero]

/-! ## the operation found for a bin -/


/-! ## the operation found for a bin -/

/-- the switch that must be on for `find_sym_op_*` to choose a kind -/
def Sym.allows (y : Sym) : Kind → Prop
  | .swap_xmy_yx_zq | .swap_xy_yx_zq | .swap_xmy_yx | .swap_xy_yx | .swap_xy_ymx_zq | .swap_xy_ymx | .swap_xmy_ymx
  | .swap_xmy_ymx_zq => y.d90 = true
  | .swap_xmx_zq | .swap_xmx | .swap_ymy | .swap_ymy_zq => y.d180 = true
  | .swap_xmx_ymy_zq | .swap_xmx_ymy => y.swapS = true
  | _ => True

/-- the geometry handed to the ray tracer agrees with the symmetries object: same number of views, axial midpoints
    given by the object's own axial relation (`centre4`, quarter planes), and the three conditions under which the
    constructor leaves the transaxial switches on: square voxels for 90°, no azimuthal offset for 90°/180°, image
    centred on the scanner axis for any of 90°/180°/swap_s -/
structure LorGeo.Agrees (G : LorGeo) (y : Sym) : Prop where
  V : G.V = y.V
  zmid : ∀ s a, G.zmid s a = ((y.centre4 s a : ℤ) : ℝ) / 4
  square : y.d90 = true → G.cx = G.cy
  phi0 : y.d180 = true → G.phi0 = 0
  centred : y.d180 = true ∨ y.swapS = true → G.ox = 0 ∧ G.oy = 0

theorem newOp_fits (y : Sym) (hy : y.WF) (G : LorGeo) (hA : G.Agrees y) (k : Kind) (seg ax : ℤ) (hk : y.allows k) :
    (y.newOp k seg ax).Fits G := by
  have hk' : (y.newOp k seg ax).kind = k := by cases k <;> rfl
  have hv : k.usesViews = true → (y.newOp k seg ax).view180 = y.V := by
    cases k <;> first | (intro h; exact absurd h (by decide)) | (intro _; rfl)
  refine ⟨?_, ?_, ?_⟩ <;> rw [hk']
  · intro hm
    have : y.d180 = true ∨ y.swapS = true := by
      cases k <;> simp only [Sym.allows] at hk <;>
        first | exact absurd hm (by decide) | exact Or.inl hk | exact Or.inr hk | exact Or.inl (hy.h90 hk).1
    exact hA.centred this
  · intro hu
    have : y.d180 = true := by
      cases k <;> simp only [Sym.allows] at hk <;>
        first | exact absurd hu (by decide) | exact hk | exact (hy.h90 hk).1
    exact ⟨(hv hu).trans hA.V.symm, hA.phi0 this⟩
  · intro hq
    have : y.d90 = true := by
      cases k <;> simp only [Sym.allows] at hk <;> first | exact absurd hq (by decide) | exact hk
    refine ⟨?_, hA.square this⟩
    have := (hy.h90 this).2
    rw [hA.V]; omega

theorem mkShift_fits (y : Sym) (G : LorGeo) (seg ax : ℤ) : (y.mkShift seg ax).Fits G := by
  have hk : (y.mkShift seg ax).kind = .trivial ∨ (y.mkShift seg ax).kind = .z_shift := by
    unfold Sym.mkShift; split_ifs <;> first | exact Or.inl rfl | exact Or.inr rfl
  unfold SymOp.Fits
  rcases hk with hk | hk <;> rw [hk] <;>
    exact ⟨fun h => absurd h (by decide), fun h => absurd h (by decide), fun h => absurd h (by decide)⟩

/-- the operation found for a bin is built by `newOp` for a kind whose switch is on, or by `mkShift` -/
theorem findSymOp_form' (y : Sym) (b : Bin) :
    (∃ k, y.findSymOp b = y.newOp k b.seg b.ax ∧ y.allows k) ∨ y.findSymOp b = y.mkShift b.seg b.ax := by
  unfold Sym.findSymOp Sym.symOpBin0 Sym.symOpGeneral
  simp only
  split_ifs <;> first
    | exact Or.inr rfl
    | exact Or.inl ⟨_, rfl, trivial⟩
    | exact Or.inl ⟨_, rfl, (by assumption : y.d90 = true ∧ _).1⟩
    | exact Or.inl ⟨_, rfl, (by assumption : y.d180 = true ∧ _).1⟩
    | exact Or.inl ⟨_, rfl, (by assumption : y.swapS = true ∧ _).1⟩

/-- the operation found for a bin may be used with every geometry that agrees with the symmetries object -/
theorem findSymOp_fits (y : Sym) (hy : y.WF) (G : LorGeo) (hA : G.Agrees y) (b : Bin) : (y.findSymOp b).Fits G := by
  rcases findSymOp_form' y b with ⟨k, hk, ha⟩ | h
  · rw [hk]; exact newOp_fits y hy G hA k _ _ ha
  · rw [h]; exact mkShift_fits y G _ _

/-- with the 180° (hence the 90°) symmetry off, every operation found obeys the TOF sign rule -/
theorem findSymOp_tofSafe (y : Sym) (hy : y.WF) (h180 : y.d180 = false) (b : Bin) :
    (y.findSymOp b).kind.tofSafe = true := by
  have h90 : y.d90 = true → False := fun h => by have := (hy.h90 h).1; rw [h180] at this; exact absurd this (by decide)
  rcases findSymOp_form' y b with ⟨k, hk, ha⟩ | h
  · have hk' : (y.newOp k b.seg b.ax).kind = k := by cases k <;> rfl
    rw [hk, hk']
    cases k <;> simp only [Sym.allows] at ha <;> first
      | rfl
      | exact (h90 ha).elim
      | (rw [h180] at ha; exact absurd ha (by decide))
  · rw [h]
    unfold Sym.mkShift; split_ifs <;> rfl

/-- the LOR depends on segment, view, axial and tangential position only -/
theorem point_congr (G : LorGeo) (b b' : Bin) (h : b.seg = b'.seg ∧ b.view = b'.view ∧ b.ax = b'.ax ∧ b.tang = b'.tang) :
    G.ray b = G.ray b' := by
  obtain ⟨h1, h2, h3, h4⟩ := h
  funext ds dz t
  simp only [LorGeo.ray, h1, h2, h3, h4]

/-- axial compatibility (`hz` of `onPoint_ray`) of the operation found for a bin: this is `zmap_centre` -/
theorem findSymOp_hz (V : ℤ) (f : Flags) (g : AxGeo) (hg : g.Symmetric) (G : LorGeo)
    (hA : G.Agrees (Sym.make V f g)) (b : Bin) :
    ((Sym.make V f g).findSymOp b).onZ (G.zmid ((Sym.make V f g).basic b).seg ((Sym.make V f g).basic b).ax) =
      G.zmid b.seg b.ax := by
  rw [hA.zmid, hA.zmid, onZ_zmap4, zmap_centre V f g hg b]

/-- **corollary, pointwise**: the operation found for `b` carries the ray `(ds, dz)` of the basic bin, point by point,
    to the ray `(± ds, ± dz)` of `b` (path parameter `± t`) -/
theorem ray_findSymOp (V : ℤ) (f : Flags) (g : AxGeo) (hg : g.Symmetric) (hy : (Sym.make V f g).WF)
    (G : LorGeo) (hG : G.WF) (hA : G.Agrees (Sym.make V f g)) (b : Bin) (hv : 0 ≤ b.view ∧ b.view < V)
    (ds dz t : ℝ) :
    let y := Sym.make V f g
    (y.findSymOp b).onPoint (G.ray (y.basic b) ds dz t) =
      G.ray b (((y.findSymOp b).sSign (y.basic b) : ℝ) * ds) (((y.findSymOp b).zSign : ℝ) * dz)
        (((y.findSymOp b).orient (y.basic b) : ℝ) * t) := by
  intro y
  -- the timing position plays no role: work with timing position 0, for which the bin is always rebuilt
  let b0 : Bin := { b with tof := 0 }
  have hop : y.findSymOp b0 = y.findSymOp b := rfl
  have hr : (y.findSymOp b0).onBin (y.basic b0) = b0 := symop_rebuilds_bin y hy b0 hv (Or.inl rfl)
  have hb : G.ray (y.basic b0) = G.ray (y.basic b) := point_congr G _ _ ⟨rfl, rfl, rfl, rfl⟩
  have hb' : G.ray b0 = G.ray b := point_congr G _ _ ⟨rfl, rfl, rfl, rfl⟩
  have hz0 := findSymOp_hz V f g hg G hA b0
  have hz : (y.findSymOp b0).onZ (G.zmid (y.basic b0).seg (y.basic b0).ax) =
      G.zmid ((y.findSymOp b0).onBin (y.basic b0)).seg ((y.findSymOp b0).onBin (y.basic b0)).ax := by
    rw [hr]; exact hz0
  have h := onPoint_ray G hG (y.findSymOp b0) (findSymOp_fits y hy G hA b0) (y.basic b0) hz ds dz t
  rw [hr, hb, hb'] at h
  have e1 : (y.findSymOp b0).sSign (y.basic b0) = (y.findSymOp b).sSign (y.basic b) := by
    rw [hop]; obtain ⟨k, W, a, zs, q⟩ := y.findSymOp b; cases k <;> rfl
  have e2 : (y.findSymOp b0).orient (y.basic b0) = (y.findSymOp b).orient (y.basic b) := by
    rw [hop]; obtain ⟨k, W, a, zs, q⟩ := y.findSymOp b; cases k <;> rfl
  rw [e1, e2, hop] at h
  exact h

/-- **corollary**: the LOR of any bin is the image, under the operation found for it, of the LOR of its basic bin -/
theorem lor_equivariant_findSymOp (V : ℤ) (f : Flags) (g : AxGeo) (hg : g.Symmetric) (hy : (Sym.make V f g).WF)
    (G : LorGeo) (hG : G.WF) (hA : G.Agrees (Sym.make V f g)) (b : Bin) (hv : 0 ≤ b.view ∧ b.view < V) :
    let y := Sym.make V f g
    (y.findSymOp b).onPoint '' G.lor (y.basic b) = G.lor b := by
  intro y
  have hp : ∀ t, (y.findSymOp b).onPoint (G.point (y.basic b) t) =
      G.point b (((y.findSymOp b).orient (y.basic b) : ℝ) * t) := by
    intro t
    have h := ray_findSymOp V f g hg hy G hG hA b hv 0 0 t
    simp only [mul_zero] at h
    exact h
  ext p
  simp only [LorGeo.lor, Set.mem_image, Set.mem_range, exists_exists_eq_and]
  constructor
  · rintro ⟨t, rfl⟩
    exact ⟨_, (hp t).symm⟩
  · rintro ⟨t, rfl⟩
    exact ⟨((y.findSymOp b).orient (y.basic b) : ℝ) * t, by rw [hp, sign_mul_self (orient_cases _ _)]⟩

/-- **corollary, tubes**: the same for bundles of rays placed symmetrically about the central LOR -/
theorem tube_equivariant_findSymOp (V : ℤ) (f : Flags) (g : AxGeo) (hg : g.Symmetric) (hy : (Sym.make V f g).WF)
    (G : LorGeo) (hG : G.WF) (hA : G.Agrees (Sym.make V f g)) (b : Bin) (hv : 0 ≤ b.view ∧ b.view < V)
    (Ds Dz : Set ℝ) (hDs : ∀ d ∈ Ds, -d ∈ Ds) (hDz : ∀ d ∈ Dz, -d ∈ Dz) :
    let y := Sym.make V f g
    (y.findSymOp b).onPoint '' G.tube Ds Dz (y.basic b) = G.tube Ds Dz b := by
  intro y
  have hp := ray_findSymOp V f g hg hy G hG hA b hv
  ext p
  simp only [LorGeo.tube, Set.mem_image, Set.mem_ofPred_eq]
  constructor
  · rintro ⟨_, ⟨ds, hds, dz, hdz, t, rfl⟩, rfl⟩
    exact ⟨_, sign_mem (sSign_cases _ _) hDs hds, _, sign_mem (zSign_cases _) hDz hdz, _, (hp ds dz t).symm⟩
  · rintro ⟨ds, hds, dz, hdz, t, rfl⟩
    refine ⟨G.ray (y.basic b) (((y.findSymOp b).sSign (y.basic b) : ℝ) * ds) (((y.findSymOp b).zSign : ℝ) * dz)
      (((y.findSymOp b).orient (y.basic b) : ℝ) * t),
      ⟨_, sign_mem (sSign_cases _ _) hDs hds, _, sign_mem (zSign_cases _) hDz hdz, _, rfl⟩, ?_⟩
    rw [hp, sign_mul_self (sSign_cases _ _), sign_mul_self (zSign_cases _), sign_mul_self (orient_cases _ _)]

/-- **corollary, TOF**: with the 180° symmetry off — in particular with the switches the constructor leaves for TOF
    data — the TOF part of the LOR of any bin is the image of the TOF part of the LOR of its basic bin -/
theorem tofPart_equivariant_findSymOp (V : ℤ) (f : Flags) (g : AxGeo) (hg : g.Symmetric) (hy : (Sym.make V f g).WF)
    (h180 : (Sym.make V f g).d180 = false)
    (G : LorGeo) (hG : G.WF) (T : TofGeo) (hA : G.Agrees (Sym.make V f g)) (b : Bin) (hv : 0 ≤ b.view ∧ b.view < V) :
    let y := Sym.make V f g
    (y.findSymOp b).onPoint '' G.tofPart T (y.basic b) = G.tofPart T b := by
  intro y
  have hr : (y.findSymOp b).onBin (y.basic b) = b := symop_rebuilds_bin y hy b hv (Or.inr (Or.inr h180))
  have hz : (y.findSymOp b).onZ (G.zmid (y.basic b).seg (y.basic b).ax) =
      G.zmid ((y.findSymOp b).onBin (y.basic b)).seg ((y.findSymOp b).onBin (y.basic b)).ax := by
    rw [hr]; exact findSymOp_hz V f g hg G hA b
  have h := tofPart_equivariant G hG T (y.findSymOp b) (findSymOp_fits y hy G hA b) (y.basic b) hz
    (tofRule_of_safe _ (findSymOp_tofSafe y hy h180 b) _)
  rw [hr] at h
  exact h

/-- for TOF data the constructor switches the 90° and 180° symmetries off (as well as swap_segment and swap_s) -/
theorem effective_tof (f : Flags) (V : ℤ) (sq phi0 xy0 : Bool) :
    (f.effective V sq phi0 true xy0).d90 = false ∧ (f.effective V sq phi0 true xy0).d180 = false ∧
    (f.effective V sq phi0 true xy0).swapSeg = false ∧ (f.effective V sq phi0 true xy0).swapS = false := by
  obtain ⟨a, b, c, d, e⟩ := f
  have he : Flags.effective ⟨a, b, c, d, e⟩ V sq phi0 true xy0 =
      effB ⟨a, b, c, d, e⟩ (V.tmod 4 != 0) (V.tmod 2 != 0) sq phi0 true xy0 := rfl
  rw [he]
  clear he
  generalize (V.tmod 4 != 0) = m4
  generalize (V.tmod 2 != 0) = m2
  revert a b c d e m4 m2 sq phi0 xy0
  decide

/-! ## a concrete instance for the non-vacuity examples of `Props.lean` -/

/-- 8 views, all five switches on, the axial geometry of a 3-ring scanner (span 1, 5 planes) -/
def yLor : Sym := Sym.make 8 ⟨true, true, true, true, true⟩ sampleGeo

theorem yLor_WF : yLor.WF :=
  ⟨by decide, fun _ => ⟨rfl, by decide⟩, fun _ => by decide, fun _ s => by simp [yLor, Sym.make, sampleGeo]⟩

/-- the same with the 180° and 90° symmetries off -/
def yLorTof : Sym := Sym.make 8 ⟨false, false, true, true, true⟩ sampleGeo

theorem yLorTof_WF : yLorTof.WF :=
  ⟨by decide, fun h => absurd h (by decide), fun h => absurd h (by decide),
    fun _ s => by simp [yLorTof, Sym.make, sampleGeo]⟩

/-- a geometry for it: tangential sampling 2.1 mm, `tan θ = 0.3·segment` planes per mm, square voxels of 1 mm, image
    centred on the axis, no azimuthal offset, axial midpoints from the symmetries object -/
def gLor : LorGeo :=
  { V := 8, phi0 := 0, s := fun t => 2.1 * t, tan := fun g => 0.3 * g,
    zmid := fun s a => ((yLor.centre4 s a : ℤ) : ℝ) / 4, cx := 1, cy := 1, ox := 0, oy := 0 }

theorem gLor_WF : gLor.WF :=
  ⟨by decide, fun t => by simp only [gLor]; push_cast; ring, fun g => by simp only [gLor]; push_cast; ring⟩

theorem gLor_agrees : gLor.Agrees yLor :=
  ⟨rfl, fun _ _ => rfl, fun _ => rfl, fun _ => rfl, fun _ => ⟨rfl, rfl⟩⟩

theorem gLor_agrees_tof : gLor.Agrees yLorTof :=
  ⟨rfl, fun _ _ => rfl, fun _ => rfl, fun _ => rfl, fun _ => ⟨rfl, rfl⟩⟩

/-- timing bins of half-width 40 mm, centres 80 mm apart -/
def tLor : TofGeo := { c := fun k => 80 * k, w := 40, c_odd := fun k => by push_cast; ring }

end
end StirVerif.C03
