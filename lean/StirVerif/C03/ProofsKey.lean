/-
C03 — `ProjMatrixByBin::cache_key` is injective on the box that `set_up` guards.
-/
import StirVerif.C03.Model
namespace StirVerif.C03

/-- the three absolute values fit their bit fields (what the compiled-out asserts of `cache_key` say) -/
def InBox (b : Bin) : Prop := b.ax.natAbs < 2 ^ 28 ∧ b.tang.natAbs < 2 ^ 12 ∧ b.tof.natAbs < 2 ^ 20

theorem signBit_lt (x : Int) : signBit x < 2 ^ 1 := by unfold signBit; split <;> decide

theorem cacheKey_arith (b : Bin) (hb : InBox b) :
    cacheKey b = signBit b.ax * 2 ^ 62 + b.ax.natAbs * 2 ^ 34 + signBit b.tang * 2 ^ 33 + b.tang.natAbs * 2 ^ 21
      + signBit b.tof * 2 ^ 20 + b.tof.natAbs := by
  obtain ⟨h1, h2, h3⟩ := hb
  have horner : cacheKey b =
      (((((signBit b.ax <<< 28 + b.ax.natAbs) <<< 1 + signBit b.tang) <<< 12 + b.tang.natAbs) <<< 1 + signBit b.tof) <<< 20
        + b.tof.natAbs) := by
    rw [Nat.shiftLeft_add_eq_or_of_lt h3, Nat.shiftLeft_add_eq_or_of_lt (signBit_lt _), Nat.shiftLeft_add_eq_or_of_lt h2,
      Nat.shiftLeft_add_eq_or_of_lt (signBit_lt _), Nat.shiftLeft_add_eq_or_of_lt h1]
    simp only [cacheKey, timingPosBits, tangPosBits, axialPosBits, Nat.shiftLeft_or_distrib, ← Nat.shiftLeft_add]
  rw [horner]
  simp only [Nat.shiftLeft_eq]
  omega
theorem cacheKey_injective (b b' : Bin) (hb : InBox b) (hb' : InBox b') (h : cacheKey b = cacheKey b') :
    b.ax = b'.ax ∧ b.tang = b'.tang ∧ b.tof = b'.tof := by
  rw [cacheKey_arith b hb, cacheKey_arith b' hb'] at h
  obtain ⟨h1, h2, h3⟩ := hb
  obtain ⟨h1', h2', h3'⟩ := hb'
  simp only [signBit] at h
  refine ⟨?_, ?_, ?_⟩ <;> (repeat' split at h) <;> omega
end StirVerif.C03
