/-
C03 — `ProjMatrixByBinUsingInterpolation`: its `set_up` has no `already_setup` short cut.  A history on such an object
is a history on the ray-tracing model in which every `set_up` is preceded by a parameter change and its reversal (which
is what switches `already_setup` off there); hence the refinement theorem of `ProofsCache.lean` carries over.
-/
import StirVerif.C03.ProofsMisc

namespace StirVerif.C03

variable {G α : Type}

/-- some other parameter set (one more tangential ray) -/
def Params.bump (p : Params) : Params := { p with ntl := p.ntl + 1 }

theorem Params.bump_ne (p : Params) : p ≠ p.bump := by
  intro h
  have := congrArg Params.ntl h
  simp [Params.bump] at this

/-- the ray-tracing history that does what the interpolating matrix does: `set_* (something else); set_* (back);
    set_up` for every `set_up`.  The first argument tracks the parameters in force. -/
def interpEvents : Params → List (Ev G) → List (Ev G)
  | _, [] => []
  | p, .setUp g :: r => .setParams p.bump :: .setParams p :: .setUp g :: interpEvents p r
  | _, .setParams q :: r => .setParams q :: interpEvents q r
  | p, .get b :: r => .get b :: interpEvents p r
  | p, .clearCache :: r => .clearCache :: interpEvents p r
  | p, .enableCache v :: r => .enableCache v :: interpEvents p r
  | p, .storeOnlyBasic v :: r => .storeOnlyBasic v :: interpEvents p r

theorem get_params (w : World G α) (s s' : PM G α) (b : Bin) (r : Row α) (h : s.get w b = .ok (s', r)) :
    s'.params = s.params := by
  unfold PM.get at h
  cases ha : s.active with
  | none => simp only [ha] at h; exact absurd h (by simp)
  | some gp =>
    obtain ⟨g, p⟩ := gp
    simp only [ha] at h
    split at h
    · split at h
      · simp only [Except.ok.injEq, Prod.mk.injEq] at h
        rw [← h.1]
      · split at h
        · exact absurd h (by simp)
        · simp only [Except.ok.injEq, Prod.mk.injEq] at h
          rw [← h.1]; exact (store_fields s _).2.2
    · split at h
      · simp only [Except.ok.injEq, Prod.mk.injEq] at h
        rw [← h.1]
      · split at h
        · simp only [Except.ok.injEq, Prod.mk.injEq] at h
          rw [← h.1]; exact (store_fields s _).2.2
        · split at h
          · exact absurd h (by simp)
          · simp only [Except.ok.injEq, Prod.mk.injEq] at h
            rw [← h.1]; exact (store_fields s _).2.2

theorem setUp_params [DecidableEq G] (w : World G α) (s s' : PM G α) (g : G) (h : s.setUp w g = .ok s') :
    s'.params = s.params := by
  unfold PM.setUp at h
  cases hact : s.active with
  | none =>
    simp only [hact, Bool.and_false, Bool.false_eq_true, if_false] at h
    split at h
    · exact absurd h (by simp)
    · injection h with h
      rw [← h]
  | some gp =>
    obtain ⟨g', p'⟩ := gp
    simp only [hact] at h
    split at h
    · injection h with h
      rw [← h]
    · split at h
      · exact absurd h (by simp)
      · injection h with h
        rw [← h]

/-- the two parameter changes leave the object as it was, except that `already_setup` is off -/
theorem bump_unbump [DecidableEq G] (w : World G α) (s : PM G α) :
    (do let (s1, _) ← s.step w (.setParams s.params.bump); s1.step w (.setParams s.params)) =
      .ok ({ s with alreadySetup := false }, none) := by
  have h : decide (s.params = s.params.bump) = false := decide_eq_false (Params.bump_ne s.params)
  simp only [PM.step, bind, Except.bind, h, Bool.and_false, Bool.false_and]

/-- **a history on the interpolating matrix is a history on the ray-tracing model** with the parameter flips inserted -/
theorem runInterp_eq [DecidableEq G] (w : World G α) (evs : List (Ev G)) :
    ∀ (s : PM G α) (cfg : Option (G × Params)), s.runInterp w cfg evs = s.run w cfg (interpEvents s.params evs) := by
  induction evs with
  | nil => intro s cfg; simp only [PM.runInterp, interpEvents, PM.run]
  | cons ev rest ih =>
    intro s cfg
    cases ev with
    | get b =>
      simp only [PM.runInterp, interpEvents, PM.run, PM.stepInterp, PM.step]
      cases hget : s.get w b with
      | error e => simp only [Except.map]
      | ok sr =>
        obtain ⟨s', r⟩ := sr
        simp only [Except.map]
        rw [ih s' cfg, get_params w s s' b r hget]
    | clearCache =>
      simp only [PM.runInterp, interpEvents, PM.run, PM.stepInterp, PM.step]
      exact ih _ cfg
    | enableCache v =>
      simp only [PM.runInterp, interpEvents, PM.run, PM.stepInterp, PM.step]
      exact ih _ cfg
    | storeOnlyBasic v =>
      simp only [PM.runInterp, interpEvents, PM.run, PM.stepInterp, PM.step]
      exact ih _ cfg
    | setParams q =>
      simp only [PM.runInterp, interpEvents, PM.run, PM.stepInterp, PM.step]
      exact ih _ cfg
    | setUp g =>
      have h : decide (s.params = s.params.bump) = false := decide_eq_false (Params.bump_ne s.params)
      simp only [PM.runInterp, interpEvents, PM.run, PM.stepInterp, PM.step, PM.setUpInterp, h, Bool.and_false,
        Bool.false_and]
      cases hsu : PM.setUp w { s with alreadySetup := false } g with
      | error e => simp only [Except.map]
      | ok s' =>
        simp only [Except.map]
        rw [ih s' (some (g, s.params)), setUp_params w _ s' g hsu]

/-- the state after a list of events (`none`: an `error()` on the way); `step` = `PM.step w` or `PM.stepInterp w` -/
def PM.after (step : PM G α → Ev G → Except Err (PM G α × Option (Row α))) : PM G α → List (Ev G) → Option (PM G α)
  | s, [] => some s
  | s, e :: r =>
    match step s e with
    | .ok (s', _) => PM.after step s' r
    | .error _ => none

end StirVerif.C03
