/-
C03 — "System-matrix rows do not depend on symmetries, caching or request history".
Property theorems over the model of `Model.lean` (cylindrical geometry).  All statements are for every number of
views, every bin, every combination of switches, every history (no bounds).

What is *not* a theorem here: that the ray tracer (`compute`) itself is equivariant under the grid isometries
(`compute (op.onBin b₀) = op.onElems (compute b₀)`); that is what the C++ oracle of the check evaluates.
What *is* a theorem (section "geometric equivariance over ℝ", `ProofsLOR.lean`) is the geometric reason for it: the
line of response of `op.onBin b₀` — and the whole bundle of rays the ray tracer traces for it — is the image of that of
`b₀` under the isometry of ℝ³ that extends `op.onVoxel`.  What stays outside Lean is only that Siddon's intersection
lengths of a line with the voxels of a grid are invariant under isometries of the grid (and floating-point rounding).
-/
import StirVerif.C03.ProofsRebuild
import StirVerif.C03.ProofsBasic
import StirVerif.C03.ProofsVox
import StirVerif.C03.ProofsKey
import StirVerif.C03.ProofsCache
import StirVerif.C03.ProofsZ
import StirVerif.C03.ProofsMisc
import StirVerif.C03.ProofsLOR
import StirVerif.C03.ProofsInterp
import StirVerif.C03.ProofsGuard

namespace StirVerif.C03

/-! ## symmetry bookkeeping -/

/-- the switches left by the constructor always satisfy `WF`: 90° only with 180° and `num_views % 4 = 0`,
    180° only with an even number of views — for every request and every kind of data -/
theorem C03_effective_WF (V : Int) (hV : 0 < V) (f : Flags) (sq phi0 tof xy0 : Bool) (g : AxGeo)
    (hn : ∀ s, g.nppa s ≠ 0) : (Sym.make V (f.effective V sq phi0 tof xy0) g).WF :=
  effective_WF V hV f sq phi0 tof xy0 g hn

/-- "derived from a symmetry-related row": **the symmetry operation found for a bin, applied to its basic bin, gives
    the bin back** — every bin in the view range, every combination of switches, every number of views.
    (`TofOK`: a non-zero timing position is restored unless `swap_s` is combined with a view symmetry; the
    constructor never leaves that combination for TOF data.) -/
theorem C03_symop_rebuilds_bin (y : Sym) (h : y.WF) (b : Bin) (hv : 0 ≤ b.view ∧ b.view < y.V) (ht : TofOK y b) :
    (y.findSymOp b).onBin (y.basic b) = b :=
  symop_rebuilds_bin y h b hv ht

/-- … and `TofOK` cannot be dropped: with `swap_s` and the 180° symmetry a bin with negative tangential position,
    a view beyond 90° and timing position 1 comes back with timing position −1 -/
theorem C03_symop_rebuilds_bin_tof_fails :
    let y : Sym := { V := 8, d90 := false, d180 := true, swapSeg := false, swapS := true, shiftZ := false,
                     nppr := 2, nppa := fun _ => 1, delta2 := fun _ => 0, zoff4 := fun _ => 0 }
    (y.findSymOp ⟨0, 6, 0, -1, 1⟩).onBin (y.basic ⟨0, 6, 0, -1, 1⟩) = ⟨0, 6, 0, -1, -1⟩ := by decide

/-- the basic bin stays inside the view range (the compiled-out asserts `0 <= view < view180`) -/
theorem C03_basic_in_range (y : Sym) (h : y.WF) (b : Bin) (hv : 0 ≤ b.view ∧ b.view < y.V) :
    0 ≤ (y.basic b).view ∧ (y.basic b).view < y.V :=
  basic_view_range y h b hv

/-- `find_basic_bin` is idempotent and reports "no change" on its own result -/
theorem C03_basic_idempotent (y : Sym) (h : y.WF) (b : Bin) (hv : 0 ≤ b.view ∧ b.view < y.V) :
    y.findBasicBin (y.basic b) = (y.basic b, false) :=
  basic_idempotent y h b hv

/-- a basic bin gets `TrivialSymmetryOperation`: identity on bins, voxels and rows (this is what makes a row cached
    as "basic" and a row cached as "requested bin" interchangeable) -/
theorem C03_basic_is_fixed (y : Sym) (h : y.WF) (b : Bin) (hv : 0 ≤ b.view ∧ b.view < y.V) :
    y.findSymOp (y.basic b) = SymOp.triv ∧ (∀ b', SymOp.triv.onBin b' = b') ∧ (∀ c, SymOp.triv.onVoxel c = c) :=
  ⟨basic_is_fixed y h b hv, fun _ => rfl, fun _ => rfl⟩

/-! ## voxels -/

/-- "no voxel appears twice": every operation is injective on image indices … -/
theorem C03_onVoxel_injective (o : SymOp) (c c' : Vox) (h : o.onVoxel c = o.onVoxel c') : c = c' :=
  onVoxel_injective o c c' h

/-- … (and onto: a signed permutation of (y,x) with an affine map of z) … -/
theorem C03_onVoxel_surjective (o : SymOp) (c : Vox) : ∃ c', o.onVoxel c' = c :=
  onVoxel_surjective o c

/-- … hence a duplicate-free basic row stays duplicate-free, and its values are carried over unchanged, in order
    ("every element non-negative" is inherited from the basic row) -/
theorem C03_row_nodup_transfer {α : Type} (o : SymOp) (e : List (Vox × α)) (h : (e.map Prod.fst).Nodup) :
    ((o.onElems e).map Prod.fst).Nodup ∧ (o.onElems e).map Prod.snd = e.map Prod.snd :=
  ⟨onElems_nodup o e h, onElems_values o e⟩

/-- "refers to a voxel inside the image", transaxial part: the symmetric square `|x|,|y| ≤ n` to which the ray tracer
    restricts itself (`n = min(max_index, -min_index)`) is mapped into itself by every operation -/
theorem C03_onVoxel_in_square (o : SymOp) (c : Vox) (n : Int) (h : -n ≤ c.x ∧ c.x ≤ n ∧ -n ≤ c.y ∧ c.y ≤ n) :
    -n ≤ (o.onVoxel c).x ∧ (o.onVoxel c).x ≤ n ∧ -n ≤ (o.onVoxel c).y ∧ (o.onVoxel c).y ≤ n :=
  onVoxel_in_square o c n h

/-- axial part: `find_transform_z` never rounds and equals twice the axial midpoint of the LOR
    (`Z + Q = 2·centre`), whatever the average ring difference of the segment -/
theorem C03_transformZ_exact (V : Int) (f : Flags) (g : AxGeo) (s a : Int) :
    4 * (Sym.make V f g).transformZ s a = 2 * (Sym.make V f g).centre4 s a :=
  (transformZ_eq V f g s a).1

/-- axial part: the z map of the operation found for `b` (mirror `z ↦ q − z + z_shift` or shift `z ↦ z + z_shift`)
    carries the axial midpoint of the basic bin's LOR to the axial midpoint of the LOR of `b`
    (quarter-plane units; `onVoxel_zmap4` ties `zmap4` to `transform_image_coordinates`) -/
theorem C03_zmap_centre (V : Int) (f : Flags) (g : AxGeo) (hg : g.Symmetric) (b : Bin) (c : Vox) :
    let y := Sym.make V f g
    (y.findSymOp b).zmap4 (y.centre4 (y.basic b).seg (y.basic b).ax) = y.centre4 b.seg b.ax ∧
      4 * ((y.findSymOp b).onVoxel c).z = (y.findSymOp b).zmap4 (4 * c.z) :=
  ⟨zmap_centre V f g hg b, onVoxel_zmap4 _ c⟩

/-- axial part, for whole tubes: the operation found for `b` carries the slab of half-width `w` (quarter planes) around
    the axial midpoint of the basic bin's LOR onto the slab of the same half-width around the axial midpoint of the
    LOR of `b` — the planes of a derived row lie around the bin's own LOR exactly as those of the basic row do -/
theorem C03_onVoxel_z_slab (V : Int) (f : Flags) (g : AxGeo) (hg : g.Symmetric) (b : Bin) (c : Vox) (w : Int) :
    let y := Sym.make V f g
    (-w ≤ 4 * c.z - y.centre4 (y.basic b).seg (y.basic b).ax ∧ 4 * c.z - y.centre4 (y.basic b).seg (y.basic b).ax ≤ w) →
    (-w ≤ 4 * ((y.findSymOp b).onVoxel c).z - y.centre4 b.seg b.ax ∧
      4 * ((y.findSymOp b).onVoxel c).z - y.centre4 b.seg b.ax ≤ w) :=
  fun h => onVoxel_z_slab V f g hg b c w h

/-! ### "refers to a voxel inside the image", axial part: false of the code for bins at the axial ends

Known finding `voxel-outside-image-in-z:within-axial-extent-of-end-ring`: rows are not clipped to the planes of the
image.  On the real code (3 rings, span 1, 5 planes `0..4` of half the ring spacing) `Bin(segment 0, view 0,
axial_pos 0, tangential 0)` has elements in plane `-1` and `Bin(0,0,2,0)` in plane `5`, with and without symmetries. -/

/-- negative witness: with the ray tracer's row for ring 0 as observed (planes −1, 0, 1 with weights 1:2:1), the rows of
    the two end rings contain a plane outside the image `0..4`; the middle ring's row does not -/
theorem C03_row_in_image_z_fails :
    (spec wEnd () pShiftZ ⟨0, 0, 0, 0, 0⟩).map (fun r => r.elems.map fun e => (e.1.z, endGeo.hasPlane e.1)) =
        some [(-1, false), (0, true), (1, true)] ∧
    (spec wEnd () pShiftZ ⟨0, 0, 1, 0, 0⟩).map (fun r => r.elems.map fun e => (e.1.z, endGeo.hasPlane e.1)) =
        some [(1, true), (2, true), (3, true)] ∧
    (spec wEnd () pShiftZ ⟨0, 0, 2, 0, 0⟩).map (fun r => r.elems.map fun e => (e.1.z, endGeo.hasPlane e.1)) =
        some [(3, true), (4, true), (5, false)] := by decide

/-- … and this is not a matter of the basic row alone: the `shift_z` operation of the last ring moves plane 1, which
    is inside the image, to plane 5, which is not (the z range of the image is not invariant under the operations,
    unlike the square `|x|,|y| ≤ n`) -/
theorem C03_onVoxel_in_image_z_fails :
    endGeo.hasPlane ⟨1, 0, 0⟩ = true ∧ endGeo.hasPlane ((yEnd.findSymOp ⟨0, 0, 2, 0, 0⟩).onVoxel ⟨1, 0, 0⟩) = false := by decide

/-- `_partial`: the extra hypothesis `hin` says that the tube of the requested bin — the slab of half-width `w` around
    the axial midpoint of its LOR — lies inside the planes of the image; it excludes exactly the bins of the known
    finding (tubes of the end rings, which stick out of an image that only just covers the ring centres).  For all
    other bins every voxel derived from a voxel in the basic bin's tube lies in a plane of the image. -/
theorem C03_row_in_image_z_partial (V : Int) (f : Flags) (g : AxGeo) (hg : g.Symmetric) (b : Bin) (c : Vox) (w : Int)
    (hc : -w ≤ 4 * c.z - (Sym.make V f g).centre4 ((Sym.make V f g).basic b).seg ((Sym.make V f g).basic b).ax ∧
      4 * c.z - (Sym.make V f g).centre4 ((Sym.make V f g).basic b).seg ((Sym.make V f g).basic b).ax ≤ w)
    (hin : 4 * g.minZ ≤ (Sym.make V f g).centre4 b.seg b.ax - w ∧ (Sym.make V f g).centre4 b.seg b.ax + w ≤ 4 * g.maxZ) :
    g.hasPlane (((Sym.make V f g).findSymOp b).onVoxel c) = true := by
  have h := onVoxel_z_slab V f g hg b c w hc
  simp only [AxGeo.hasPlane, decide_eq_true_eq]
  omega

/-! ## geometric equivariance over ℝ

"it is the same whether it is computed directly or derived from a symmetry-related row": the geometric content.
Points of ℝ³ are in voxel-index coordinates (x, y, z) = (`c[3]`, `c[2]`, `c[1]`).  The LOR of a bin is the line traced by
`ray_trace_one_lor` (ProjMatrixByBinUsingRayTracing.cxx:457-518), path parameter `t = −a`:
`x = ox + cx·((s+ds)·cos φ − t·sin φ)`, `y = oy + cy·((s+ds)·sin φ + t·cos φ)`, `z = zmid + dz + t·tanθ`,
`φ = φ₀ + view·π/V`; `s`, `tanθ` arbitrary odd functions of tangential position / segment (`LorGeo.WF`); `(ds, dz)` the
displacement of one ray of the bundle (`num_tangential_LORs`, `num_lors_per_axial_pos`) from the central LOR.
`SymOp.Fits o G` = the conditions under which the constructor leaves the operation in use, as far as needed: image
centred on the axis (operations that move x,y), `view180 = V` and `φ₀ = 0` (operations that change the view), `V` even
and square voxels (operations that exchange x and y; the constructor asks for `V % 4 = 0`, the geometry needs
`V % 2 = 0` only).  No restriction on the view number is needed. -/

/-- the real-affine map `onPoint` extends `onVoxel` (agrees with it on voxel centres) and is an isometry of ℝ³ -/
theorem C03_lor_onPoint_extends_onVoxel (o : SymOp) (c : Vox) (p p' : P3) :
    o.onPoint c.toP3 = (o.onVoxel c).toP3 ∧
    ((o.onPoint p).x - (o.onPoint p').x) ^ 2 + ((o.onPoint p).y - (o.onPoint p').y) ^ 2
        + ((o.onPoint p).z - (o.onPoint p').z) ^ 2 = (p.x - p'.x) ^ 2 + (p.y - p'.y) ^ 2 + (p.z - p'.z) ^ 2 :=
  ⟨onPoint_toP3 o c, onPoint_isometry o p p'⟩

/-- **every kind, pointwise**: the operation carries the point with path parameter `t` on the ray `(ds, dz)` of `b` to
    the point with path parameter `± t` on the ray `(± ds, ± dz)` of `o.onBin b`; the three signs are `orient`
    (−1: the direction `(−sin φ, cos φ, tan θ)` is reversed), `sSign` (−1 exactly on the branches of `onBin` that negate
    the tangential position) and `zSign` (−1 for the `…_zq` kinds).
    `hz`: the z map of the operation carries the axial midpoint of `b` to that of `o.onBin b` (a condition on the
    constants `q`, `z_shift`, `axial_pos_shift` stored in the operation; discharged for the operations actually built
    in `C03_lor_equivariant_findSymOp`). -/
theorem C03_lor_equivariant_pointwise (G : LorGeo) (hG : G.WF) (o : SymOp) (hf : o.Fits G) (b : Bin)
    (hz : o.onZ (G.zmid b.seg b.ax) = G.zmid (o.onBin b).seg (o.onBin b).ax) (ds dz t : ℝ) :
    o.onPoint (G.ray b ds dz t) =
      G.ray (o.onBin b) ((o.sSign b : ℝ) * ds) ((o.zSign : ℝ) * dz) ((o.orient b : ℝ) * t) ∧
    (o.orient b = 1 ∨ o.orient b = -1) ∧ (o.sSign b = 1 ∨ o.sSign b = -1) ∧ (o.zSign = 1 ∨ o.zSign = -1) ∧
    (o.onBin b).tang = o.sSign b * b.tang :=
  ⟨onPoint_ray G hG o hf b hz ds dz t, orient_cases o b, sSign_cases o b, zSign_cases o, onBin_tang o b⟩

/-- **every kind, as sets**: `onPoint o` maps the LOR of `b` *onto* the LOR of `o.onBin b` -/
theorem C03_lor_equivariant (G : LorGeo) (hG : G.WF) (o : SymOp) (hf : o.Fits G) (b : Bin)
    (hz : o.onZ (G.zmid b.seg b.ax) = G.zmid (o.onBin b).seg (o.onBin b).ax) :
    o.onPoint '' G.lor b = G.lor (o.onBin b) :=
  lor_equivariant G hG o hf b hz

/-- … and the bundle of rays of `b` onto the bundle of rays of `o.onBin b`, for displacements placed symmetrically
    about the central LOR (as the ray tracer places them) -/
theorem C03_lor_equivariant_tube (G : LorGeo) (hG : G.WF) (o : SymOp) (hf : o.Fits G) (b : Bin)
    (hz : o.onZ (G.zmid b.seg b.ax) = G.zmid (o.onBin b).seg (o.onBin b).ax)
    (Ds Dz : Set ℝ) (hDs : ∀ d ∈ Ds, -d ∈ Ds) (hDz : ∀ d ∈ Dz, -d ∈ Dz) :
    o.onPoint '' G.tube Ds Dz b = G.tube Ds Dz (o.onBin b) :=
  tube_equivariant G hG o hf b hz Ds Dz hDs hDz

/-- **TOF sign rule.**  Modelling assumption: the TOF coordinate is the path parameter `t` (orientation fixed by view and
    tangential position), timing position `k` collects `|t − c(k)| ≤ w`, `c` odd.  Then every operation carries the TOF
    part of `b` onto the TOF part of `o.onBin b` *with timing position `orient · tof`*; hence onto the TOF part of
    `o.onBin b` itself exactly where `onBin` negates the timing position iff the operation reverses the LOR
    (`TofRule`), which is so for every bin with the eight kinds `tofSafe` and for timing position 0 with all kinds. -/
theorem C03_lor_equivariant_tof (G : LorGeo) (hG : G.WF) (T : TofGeo) (o : SymOp) (hf : o.Fits G) (b : Bin)
    (hz : o.onZ (G.zmid b.seg b.ax) = G.zmid (o.onBin b).seg (o.onBin b).ax) :
    o.onPoint '' G.tofPart T b = G.tofPart T { o.onBin b with tof := o.orient b * b.tof } ∧
    (o.TofRule b → o.onPoint '' G.tofPart T b = G.tofPart T (o.onBin b)) ∧
    (o.kind.tofSafe = true ∨ b.tof = 0 → o.TofRule b) :=
  ⟨tofPart_image G hG T o hf b hz, tofPart_equivariant G hG T o hf b hz,
    fun h => h.elim (fun h => tofRule_of_safe o h b) (tofRule_of_tof_zero o b)⟩

/-- … and the sign rule is false for the other nine kinds: with the 180° symmetry on, the operation found for a bin with
    a view beyond 90° (`swap_xmx_zq`) reverses the LOR but leaves timing position 1 alone — the derived row would be
    that of timing position −1.  (This is the geometric reason behind the constructor's "disabling rotational
    symmetries for the projector with TOF data".) -/
theorem C03_lor_equivariant_tof_fails :
    let y : Sym := { V := 8, d90 := false, d180 := true, swapSeg := false, swapS := false, shiftZ := false,
                     nppr := 2, nppa := fun _ => 1, delta2 := fun _ => 0, zoff4 := fun _ => 0 }
    (y.findSymOp ⟨0, 6, 0, 0, 1⟩).kind = .swap_xmx_zq ∧
    (y.findSymOp ⟨0, 6, 0, 0, 1⟩).onBin (y.basic ⟨0, 6, 0, 0, 1⟩) = ⟨0, 6, 0, 0, 1⟩ ∧
    (y.findSymOp ⟨0, 6, 0, 0, 1⟩).orient (y.basic ⟨0, 6, 0, 0, 1⟩) = -1 ∧
    ¬ (y.findSymOp ⟨0, 6, 0, 0, 1⟩).TofRule (y.basic ⟨0, 6, 0, 0, 1⟩) := by decide

/-- **corollary for `find_symmetry_operation_from_basic_bin`**: for every bin in the view range, every combination of
    switches (`WF`), every geometry that agrees with the symmetries object (`Agrees`: same number of views, axial
    midpoints `centre4/4` from `find_relation_between_coordinate_systems`, square voxels if 90° is on, no azimuthal
    offset if 180° is on, image centred if 180° or swap_s is on), the LOR of `b` is the image under the operation found
    for `b` of the LOR of its basic bin — point by point (first part, with the bundle displacements) and as sets -/
theorem C03_lor_equivariant_findSymOp (V : Int) (f : Flags) (g : AxGeo) (hg : g.Symmetric)
    (hy : (Sym.make V f g).WF) (G : LorGeo) (hG : G.WF) (hA : G.Agrees (Sym.make V f g)) (b : Bin)
    (hv : 0 ≤ b.view ∧ b.view < V) :
    let y := Sym.make V f g
    (∀ ds dz t : ℝ, (y.findSymOp b).onPoint (G.ray (y.basic b) ds dz t) =
      G.ray b (((y.findSymOp b).sSign (y.basic b) : ℝ) * ds) (((y.findSymOp b).zSign : ℝ) * dz)
        (((y.findSymOp b).orient (y.basic b) : ℝ) * t)) ∧
    (y.findSymOp b).onPoint '' G.lor (y.basic b) = G.lor b :=
  ⟨ray_findSymOp V f g hg hy G hG hA b hv, lor_equivariant_findSymOp V f g hg hy G hG hA b hv⟩

/-- … the same for the bundle of rays -/
theorem C03_lor_equivariant_findSymOp_tube (V : Int) (f : Flags) (g : AxGeo) (hg : g.Symmetric)
    (hy : (Sym.make V f g).WF) (G : LorGeo) (hG : G.WF) (hA : G.Agrees (Sym.make V f g)) (b : Bin)
    (hv : 0 ≤ b.view ∧ b.view < V) (Ds Dz : Set ℝ) (hDs : ∀ d ∈ Ds, -d ∈ Ds) (hDz : ∀ d ∈ Dz, -d ∈ Dz) :
    let y := Sym.make V f g
    (y.findSymOp b).onPoint '' G.tube Ds Dz (y.basic b) = G.tube Ds Dz b :=
  tube_equivariant_findSymOp V f g hg hy G hG hA b hv Ds Dz hDs hDz

/-- … and for the TOF part when the 180° (hence the 90°) symmetry is off — as it is for TOF data, for which the
    constructor leaves `shift_z` only (second part); swap_segment and swap_s would be compatible with TOF -/
theorem C03_lor_equivariant_findSymOp_tof (V : Int) (f : Flags) (g : AxGeo) (hg : g.Symmetric)
    (hy : (Sym.make V f g).WF) (h180 : (Sym.make V f g).d180 = false) (G : LorGeo) (hG : G.WF) (T : TofGeo)
    (hA : G.Agrees (Sym.make V f g)) (b : Bin) (hv : 0 ≤ b.view ∧ b.view < V) :
    let y := Sym.make V f g
    (y.findSymOp b).onPoint '' G.tofPart T (y.basic b) = G.tofPart T b ∧
    ∀ (f' : Flags) (sq phi0 xy0 : Bool), (Sym.make V (f'.effective V sq phi0 true xy0) g).d180 = false :=
  ⟨tofPart_equivariant_findSymOp V f g hg hy h180 G hG T hA b hv, fun f' sq phi0 xy0 => (effective_tof f' V sq phi0 xy0).2.1⟩

/-! ## cache -/

/-- `cache_key` (bit packing 1+28+1+12+1+20 bits) is injective on the box whose bounds `set_up` checks.
    (`set_up` checks the axial bound for segment 0 only and only if caching is enabled at that moment: the box is a
    hypothesis here.) -/
theorem C03_cacheKey_injective (b b' : Bin) (hb : InBox b) (hb' : InBox b') (h : cacheKey b = cacheKey b') :
    b.ax = b'.ax ∧ b.tang = b'.tang ∧ b.tof = b'.tof :=
  cacheKey_injective b b' hb hb' h

/-- "with caching disabled, restricted to basic bins or complete, for any order and repetition of requests, and after
    clearing the cache or setting the matrix up again for another geometry": **for every history** of
    `get | clear_cache | enable_cache | store_only_basic_bins_in_cache | set_* | set_up` on a new object, every row
    handed out is `(findSymOp b).onRow (compute (basic b))` — bin included — for the geometry and parameters the last
    `set_up` call asked for.  A geometry is what `set_up` compares: projection data, voxel size, origin and index
    range of the image.  `Req`: requested bins lie in the view range and in the key box.
    (`Params` includes `actualBoundaries` = `set_use_actual_detector_boundaries`, which — like the number of rays and the
    FOV shape — reaches the rows only through `compute`; since the extension of the check the correspondence run
    toggles it in the histories, and TOF data with view/TOF mashing, even spans and cut-off outer segments are among the
    geometries `G` the histories switch between, so this theorem now speaks about that code as well.) -/
theorem C03_cache_refines {G α : Type} [DecidableEq G] (w : World G α) (hWF : ∀ g p, (w.symOf g p).WF)
    (p0 : Params) (evs : List (Ev G))
    (hreq : ∀ x ∈ (PM.fresh p0 : PM G α).run w none evs, Req w x) :
    ∀ x ∈ (PM.fresh p0 : PM G α).run w none evs, Refines w x :=
  run_refines w hWF evs (PM.fresh p0) none
    ⟨rfl, fun h => absurd h (by simp [PM.fresh]), fun g p h => absurd h (by simp [PM.fresh])⟩ hreq

/-- the same **for `ProjMatrixByBinUsingInterpolation`** (an anchor file of the property): same base class and cache, but its
    `set_up` has no `already_setup` short cut (`PM.setUpInterp`).  Every history on it *is* a history of the model above:
    the one with `set_* (other value); set_* (back)` inserted before each `set_up` (`interpEvents`), which is how
    `already_setup` gets switched off there — same rows, same recorded configurations. -/
theorem C03_interpolation_history_is_raytracing_history {G α : Type} [DecidableEq G] (w : World G α) (s : PM G α)
    (cfg : Option (G × Params)) (evs : List (Ev G)) :
    s.runInterp w cfg evs = s.run w cfg (interpEvents s.params evs) :=
  runInterp_eq w evs s cfg

/-- … hence "with caching disabled, restricted to basic bins or complete, for any order and repetition of requests, and
    after clearing the cache or setting the matrix up again for another geometry" for the interpolating matrix: every row
    handed out in any history is `(findSymOp b).onRow (compute (basic b))` for the configuration of the last `set_up` -/
theorem C03_cache_refines_interpolation {G α : Type} [DecidableEq G] (w : World G α) (hWF : ∀ g p, (w.symOf g p).WF)
    (p0 : Params) (evs : List (Ev G))
    (hreq : ∀ x ∈ (PM.fresh p0 : PM G α).runInterp w none evs, Req w x) :
    ∀ x ∈ (PM.fresh p0 : PM G α).runInterp w none evs, Refines w x := by
  rw [runInterp_eq] at hreq ⊢
  exact C03_cache_refines w hWF p0 _ hreq

/-- the two `set_up`s really differ: a second `set_up` for the same geometry and parameters leaves the cache of a
    ray-tracing matrix alone (early return) and empties that of an interpolating matrix -/
theorem C03_setUp_short_cut_only_in_raytracing :
    ((PM.fresh pDefault : PM Bool Nat).after (PM.step wRange) [.setUp true, .get ⟨0, 0, 0, 0, 0⟩, .setUp true]).map
        (fun s => s.cache.length) = some 1 ∧
    ((PM.fresh pDefault : PM Bool Nat).after (PM.stepInterp wRange) [.setUp true, .get ⟨0, 0, 0, 0, 0⟩, .setUp true]).map
        (fun s => s.cache.length) = some 0 := by decide

/-- the case repaired in `ProjMatrixByBinUsingRayTracing::set_up`: after `set_up` for an image that differs from the
    previous one in its index range only, rows are those of the new image (value 1), and a third `set_up` with the
    same image is skipped without harm -/
theorem C03_setup_other_index_range :
    ((PM.fresh pDefault : PM Bool Nat).run wRange none evsRange).map (fun x => (x.2.1.map Prod.fst, x.2.2.elems.map Prod.snd)) =
      [(some false, [0]), (some true, [1]), (some true, [1])] := by decide

/-! ## the x/y voxel-size guard of the constructor; `set_up` for another geometry -/

/-- "for every combination of enabled symmetries", image grids with "anisotropic voxels": **which symmetries the
    constructor leaves in force does not depend on which of the x and y voxel sizes is the larger one** — the guard
    `fabs(get_grid_spacing()[2] - get_grid_spacing()[3]) > 2.E-3F` (`float` subtraction included: `f32Round`) is symmetric
    in the two sizes — nor (with the index-range guard of the proposed repair, `r = true`) on which of the two index
    ranges is which.  (The correspondence run evaluates this model of the guard on the voxel sizes and index ranges of
    every generated image — x larger than y, y larger than x, differences on both sides of the threshold — and
    compares the effective switches with those the real constructor reports.) -/
theorem C03_xy_guard_symmetric (f : Flags) (V : Int) (vy vx : Rat) (r : Bool) (minY maxY minX maxX : Int)
    (phi0 tof xy0 : Bool) :
    f.effectiveImg V vy vx r minY maxY minX maxX phi0 tof xy0 = f.effectiveImg V vx vy r minX maxX minY maxY phi0 tof xy0 :=
  effectiveImg_symm f V vy vx r minY maxY minX maxX phi0 tof xy0

/-- **the symmetries that exchange x and y are in force only for (nearly) equal x and y voxel sizes**: whenever the
    constructor leaves `do_symmetry_90degrees_min_phi` on — whatever was requested, whatever the data — the two voxel
    sizes differ by at most `2.E-3F` plus half a unit in the last place of their `float` difference (`2⁻³³` mm); with
    the index-range guard of the proposed repair (`r = true`) the index ranges in x and y are the same as well.
    The bound is not 0: the geometric theorem `C03_lor_equivariant_findSymOp` needs `cx = cy` exactly
    (`LorGeo.Agrees.square`); rows derived by the x/y exchanging operations for sizes that differ within the bound are
    the known finding `unequal-xy-voxel-sizes-within-guard-tolerance:xy-exchanging-symmetry` of the oracle, and without
    the index-range guard (`r = false`, the pinned tree) nothing relates the two index ranges: known finding
    `interpolation-matrix:unequal-xy-index-ranges:xy-exchanging-symmetry`. -/
theorem C03_xy_swap_only_for_near_square_voxels (f : Flags) (V : Int) (vy vx : Rat) (r : Bool) (minY maxY minX maxX : Int)
    (phi0 tof xy0 : Bool) (h : (f.effectiveImg V vy vx r minY maxY minX maxX phi0 tof xy0).d90 = true) :
    |vy - vx| ≤ twoEm3F + pow2 (-33) ∧ (r = true → minY = minX ∧ maxY = maxX) :=
  ⟨squareVoxels_close vy vx (effectiveImg_d90 f V vy vx r minY maxY minX maxX phi0 tof xy0 h).1,
   (effectiveImg_d90 f V vy vx r minY maxY minX maxX phi0 tof xy0 h).2⟩

/-- "after ... setting the matrix up again for another geometry": **`set_up` for a geometry other than the one the object
    is set up for never takes the "already set up with same characteristics" short cut** — however the two are related
    (projection data contained in the previous ones in the sense of `ProjDataInfo::operator>=`, the previous ones
    contained in the new ones, equal data and another image, …): afterwards the object holds the new geometry with the
    current parameters and an empty cache, so by `C03_cache_refines` every later row is that of the new geometry.
    A geometry is what `set_up` compares with the library's `==`; since the extension of the check the histories of the
    correspondence run switch, on one object, between data with reduced axial / tangential / segment ranges and the
    data that contain them (all rows after the second `set_up`, three cache modes). -/
theorem C03_setUp_other_geometry_resets {G α : Type} [DecidableEq G] (w : World G α) (s s' : PM G α) (g : G)
    (hne : ∀ g' p, s.active = some (g', p) → g' ≠ g) (h : s.setUp w g = .ok s') :
    s'.active = some (g, s.params) ∧ s'.cache = [] ∧ s'.alreadySetup = true :=
  setUp_other_geometry w s s' g hne h

/-! ## non-vacuity -/


/-- a symmetries object with all five switches on satisfies `WF`, and a bin with negative segment and tangential
    position, a view in (135°,180°) and a non-zero axial position satisfies the request hypotheses -/
example : ySample.WF ∧ Good ySample ⟨-1, 7, 2, -1, 0⟩ ∧ ySample.basic ⟨-1, 7, 2, -1, 0⟩ = ⟨1, 1, 0, 1, 0⟩ ∧
    (ySample.findSymOp ⟨-1, 7, 2, -1, 0⟩).kind = .swap_ymy_zq :=
  ⟨ySample_WF, ⟨by decide, ⟨by decide, by decide, by decide⟩, Or.inl rfl⟩, by decide, by decide⟩

/-- the constructor's switches for 8 views, square voxels, no TOF: all five survive -/
example : Flags.effective ⟨true, false, true, true, true⟩ 8 true true false true = ⟨true, true, true, true, true⟩ := by decide

/-- … and for 6 views the 90° symmetry is dropped, for TOF data everything but `shift_z` -/
example : Flags.effective ⟨true, false, true, true, true⟩ 6 true true false true = ⟨false, true, true, true, true⟩ ∧
    Flags.effective ⟨true, true, true, true, true⟩ 8 true true true true = ⟨false, false, false, false, true⟩ := by decide

/-- the axial geometry of a 3-ring scanner (span 1, 5 planes) is symmetric in the segment number -/
example : sampleGeo.Symmetric := ⟨fun s => rfl, fun s => by simp only [sampleGeo, iabs]; split <;> split <;> omega⟩

/-- the hypotheses of `C03_cache_refines` are satisfiable by a history with repeats, mode switches,
    `clear_cache` and `set_up` for a second geometry, and its run hands out five rows -/
example : (∀ g p, (wGood.symOf g p).WF) ∧
    ((PM.fresh pDefault : PM Bool Nat).run wGood none evsGood).length = 5 ∧
    (∀ x ∈ (PM.fresh pDefault : PM Bool Nat).run wGood none evsGood, Req wGood x) := by
  refine ⟨fun _ _ => ySample_WF, by decide, ?_⟩
  intro x hx
  have hg : ∀ b ∈ [(⟨-1, 6, 2, -1, 0⟩ : Bin), ⟨1, 2, 0, 1, 0⟩, ⟨1, 5, 1, -1, 0⟩], Good ySample b := by
    intro b hb
    simp only [List.mem_cons, List.mem_singleton, List.not_mem_nil, or_false] at hb
    rcases hb with rfl | rfl | rfl <;> exact ⟨by decide, ⟨by decide, by decide, by decide⟩, Or.inl rfl⟩
  have h1 : ((PM.fresh pDefault : PM Bool Nat).run wGood none evsGood).map (fun x => (x.1, x.2.1)) =
      [(⟨-1, 6, 2, -1, 0⟩, some (false, pDefault)), (⟨-1, 6, 2, -1, 0⟩, some (false, pDefault)),
       (⟨1, 2, 0, 1, 0⟩, some (false, pDefault)), (⟨-1, 6, 2, -1, 0⟩, some (true, pDefault)),
       (⟨1, 5, 1, -1, 0⟩, some (true, pDefault))] := by decide
  have h2 : (x.1, x.2.1) ∈ ((PM.fresh pDefault : PM Bool Nat).run wGood none evsGood).map (fun x => (x.1, x.2.1)) :=
    List.mem_map_of_mem hx
  rw [h1] at h2
  simp only [List.mem_cons, List.mem_singleton, List.not_mem_nil, or_false, Prod.mk.injEq] at h2
  rcases h2 with ⟨hb, hc⟩ | ⟨hb, hc⟩ | ⟨hb, hc⟩ | ⟨hb, hc⟩ | ⟨hb, hc⟩ <;>
    exact ⟨_, _, hc, by rw [hb]; exact hg _ (by simp)⟩

/-- the hypotheses of `C03_cache_refines_interpolation` are satisfiable by the same history run on an interpolating matrix:
    five rows, all requests legitimate; the corresponding ray-tracing history has two parameter flips per `set_up` -/
example : ((PM.fresh pDefault : PM Bool Nat).runInterp wGood none evsGood).length = 5 ∧
    (interpEvents pDefault evsGood).length = evsGood.length + 4 ∧
    (∀ x ∈ (PM.fresh pDefault : PM Bool Nat).runInterp wGood none evsGood, Req wGood x) := by
  refine ⟨by decide, by decide, ?_⟩
  intro x hx
  have hg : ∀ b ∈ [(⟨-1, 6, 2, -1, 0⟩ : Bin), ⟨1, 2, 0, 1, 0⟩, ⟨1, 5, 1, -1, 0⟩], Good ySample b := by
    intro b hb
    simp only [List.mem_cons, List.mem_singleton, List.not_mem_nil, or_false] at hb
    rcases hb with rfl | rfl | rfl <;> exact ⟨by decide, ⟨by decide, by decide, by decide⟩, Or.inl rfl⟩
  have h1 : ((PM.fresh pDefault : PM Bool Nat).runInterp wGood none evsGood).map (fun x => (x.1, x.2.1)) =
      [(⟨-1, 6, 2, -1, 0⟩, some (false, pDefault)), (⟨-1, 6, 2, -1, 0⟩, some (false, pDefault)),
       (⟨1, 2, 0, 1, 0⟩, some (false, pDefault)), (⟨-1, 6, 2, -1, 0⟩, some (true, pDefault)),
       (⟨1, 5, 1, -1, 0⟩, some (true, pDefault))] := by decide
  have h2 : (x.1, x.2.1) ∈ ((PM.fresh pDefault : PM Bool Nat).runInterp wGood none evsGood).map (fun x => (x.1, x.2.1)) :=
    List.mem_map_of_mem hx
  rw [h1] at h2
  simp only [List.mem_cons, List.mem_singleton, List.not_mem_nil, or_false, Prod.mk.injEq] at h2
  rcases h2 with ⟨hb, hc⟩ | ⟨hb, hc⟩ | ⟨hb, hc⟩ | ⟨hb, hc⟩ | ⟨hb, hc⟩ <;>
    exact ⟨_, _, hc, by rw [hb]; exact hg _ (by simp)⟩

/-- the hypotheses of `C03_row_in_image_z_partial` are satisfiable: 3 rings, 5 planes, the middle ring (tube of one
    plane on either side, `w = 4` quarter planes) — and `hin` fails for the two end rings -/
example : endGeo.Symmetric ∧
    (4 * endGeo.minZ ≤ yEnd.centre4 0 1 - 4 ∧ yEnd.centre4 0 1 + 4 ≤ 4 * endGeo.maxZ) ∧
    ¬ (4 * endGeo.minZ ≤ yEnd.centre4 0 0 - 4) ∧ ¬ (yEnd.centre4 0 2 + 4 ≤ 4 * endGeo.maxZ) :=
  ⟨⟨fun s => rfl, fun s => by simp only [endGeo, iabs]; split <;> split <;> omega⟩, by decide, by decide, by decide⟩

/-- the hypotheses of the LOR theorems are satisfiable: 8 views, all switches on, a geometry with tangential sampling
    2.1 mm and `tan θ = 0.3·segment`; a 90° operation with a bin on either branch of its `onBin`, including the axial
    compatibility `hz` -/
example : gLor.WF ∧ yLor.WF ∧ sampleGeo.Symmetric ∧ gLor.Agrees yLor ∧
    (⟨.swap_xmy_yx, 8, 0, 0, 0⟩ : SymOp).Fits gLor ∧
    (∀ b ∈ [(⟨1, 1, 0, 2, 0⟩ : Bin), ⟨0, 5, 1, -1, 0⟩],
      (⟨.swap_xmy_yx, 8, 0, 0, 0⟩ : SymOp).onZ (gLor.zmid b.seg b.ax) =
        gLor.zmid ((⟨.swap_xmy_yx, 8, 0, 0, 0⟩ : SymOp).onBin b).seg ((⟨.swap_xmy_yx, 8, 0, 0, 0⟩ : SymOp).onBin b).ax) ∧
    (⟨.swap_xmy_yx, 8, 0, 0, 0⟩ : SymOp).onBin ⟨1, 1, 0, 2, 0⟩ = ⟨1, 5, 0, 2, 0⟩ ∧
    (⟨.swap_xmy_yx, 8, 0, 0, 0⟩ : SymOp).onBin ⟨0, 5, 1, -1, 0⟩ = ⟨0, 1, 1, 1, 0⟩ := by
  refine ⟨gLor_WF, yLor_WF, ⟨fun s => rfl, fun s => by simp only [sampleGeo, iabs]; split <;> split <;> omega⟩,
    gLor_agrees, ⟨fun _ => ⟨rfl, rfl⟩, fun _ => ⟨rfl, rfl⟩, fun _ => ⟨by decide, rfl⟩⟩, ?_, by decide, by decide⟩
  intro b hb
  simp only [List.mem_cons, List.not_mem_nil, or_false] at hb
  rcases hb with rfl | rfl <;>
    simp [SymOp.onZ, SymOp.onBin, gLor, yLor, Sym.make, Sym.centre4, sampleGeo, AxGeo.zoff4, iabs]

/-- … and the corollary applies to a bin with negative segment and tangential position, a view in (135°,180°) and a
    non-zero axial position: its LOR is the image, under `swap_ymy_zq` with `q = 3`, `z_shift = 2`, of the LOR of the
    basic bin `(1, 1, 0, 1)` -/
example : yLor.findSymOp ⟨-1, 7, 2, -1, 0⟩ = ⟨.swap_ymy_zq, 8, 2, 2, 3⟩ ∧ yLor.basic ⟨-1, 7, 2, -1, 0⟩ = ⟨1, 1, 0, 1, 0⟩ ∧
    (⟨.swap_ymy_zq, 8, 2, 2, 3⟩ : SymOp).onPoint '' gLor.lor ⟨1, 1, 0, 1, 0⟩ = gLor.lor ⟨-1, 7, 2, -1, 0⟩ := by
  have h1 : yLor.findSymOp ⟨-1, 7, 2, -1, 0⟩ = ⟨.swap_ymy_zq, 8, 2, 2, 3⟩ := by decide
  have h2 : yLor.basic ⟨-1, 7, 2, -1, 0⟩ = ⟨1, 1, 0, 1, 0⟩ := by decide
  have h : (yLor.findSymOp ⟨-1, 7, 2, -1, 0⟩).onPoint '' gLor.lor (yLor.basic ⟨-1, 7, 2, -1, 0⟩) =
      gLor.lor ⟨-1, 7, 2, -1, 0⟩ :=
    lor_equivariant_findSymOp 8 ⟨true, true, true, true, true⟩ sampleGeo
      ⟨fun s => rfl, fun s => by simp only [sampleGeo, iabs]; split <;> split <;> omega⟩ yLor_WF gLor gLor_WF
      gLor_agrees ⟨-1, 7, 2, -1, 0⟩ ⟨by decide, by decide⟩
  rw [h1, h2] at h
  exact ⟨h1, h2, h⟩

/-- the TOF corollary applies with the switches swap_segment, swap_s, shift_z on and a timing position 2 -/
example : yLorTof.WF ∧ yLorTof.d180 = false ∧ gLor.Agrees yLorTof ∧
    (yLorTof.findSymOp ⟨-1, 7, 2, -1, 2⟩).kind = .swap_xmx_ymy ∧ yLorTof.basic ⟨-1, 7, 2, -1, 2⟩ = ⟨1, 7, 0, 1, -2⟩ ∧
    tLor.c 2 = 160 :=
  ⟨yLorTof_WF, rfl, gLor_agrees_tof, by decide, by decide, by simp only [tLor]; norm_num⟩

/-- two bins that differ in the sign of the tangential position only get different cache keys -/
example : cacheKey ⟨0, 0, 3, 2, 0⟩ ≠ cacheKey ⟨0, 0, 3, -2, 0⟩ ∧ InBox ⟨0, 0, 3, -2, 0⟩ := by
  refine ⟨by decide, by decide, by decide, by decide⟩

/-- equal voxel sizes pass the guard (90° symmetry stays on for 8 views), sizes 2.2 / 2 mm do not — whichever of the two
    is the larger one (the 180° symmetry stays); index ranges -3..3 / -4..4 switch it off only with the index-range guard -/
example : (Flags.effectiveImg ⟨true, true, true, true, true⟩ 8 2 2 false (-3) 3 (-3) 3 true false true).d90 = true ∧
    (Flags.effectiveImg ⟨true, true, true, true, true⟩ 8 (22 / 10) 2 false (-3) 3 (-3) 3 true false true).d90 = false ∧
    (Flags.effectiveImg ⟨true, true, true, true, true⟩ 8 2 (22 / 10) false (-3) 3 (-3) 3 true false true).d90 = false ∧
    (Flags.effectiveImg ⟨true, true, true, true, true⟩ 8 2 (22 / 10) false (-3) 3 (-3) 3 true false true).d180 = true ∧
    (Flags.effectiveImg ⟨true, true, true, true, true⟩ 8 2 2 false (-4) 4 (-3) 3 true false true).d90 = true ∧
    (Flags.effectiveImg ⟨true, true, true, true, true⟩ 8 2 2 true (-4) 4 (-3) 3 true false true).d90 = false ∧
    (Flags.effectiveImg ⟨true, true, true, true, true⟩ 8 2 2 true (-3) 3 (-3) 3 true false true).d90 = true := by
  have h1 : squareVoxels 2 2 = true := squareVoxels_self 2
  have h2 : squareVoxels (22 / 10) 2 = false := squareVoxels_far _ _ (by rw [pow2_eq_zpow]; unfold twoEm3F; norm_num [abs_of_pos])
  have h3 : squareVoxels 2 (22 / 10) = false := by rw [squareVoxels_symm]; exact h2
  unfold Flags.effectiveImg
  rw [h1, h2, h3]
  decide

/-- `set_up` for another geometry on an object with a row in its cache: the new geometry is installed, the cache is empty -/
example : ((PM.fresh pDefault : PM Bool Nat).after (PM.step wRange) [.setUp false, .get ⟨0, 0, 0, 0, 0⟩, .setUp true]).map
      (fun s => (s.active.map Prod.fst, s.cache.length)) = some (some true, 0) ∧
    ((PM.fresh pDefault : PM Bool Nat).after (PM.step wRange) [.setUp false, .get ⟨0, 0, 0, 0, 0⟩]).map
      (fun s => (s.active.map Prod.fst, s.cache.length)) = some (some false, 1) := by decide

end StirVerif.C03
