import StirVerif.C03.Model
namespace StirVerif.C03
end StirVerif.C03
