/-
C03 — the constructor's x/y voxel-size guard (`squareVoxels`, `f32Round`) and `set_up` for another geometry.

* the guard does not depend on which of the two voxel sizes is the larger one (`squareVoxels_symm`): `float`
  subtraction is odd, `fabs` is even;
* whenever the guard leaves the x/y exchanging symmetries on, the two voxel sizes differ by at most `2.E-3F` plus half a
  unit in the last place of the `float` difference (`squareVoxels_close`);
* `set_up` for a geometry other than the one the object is set up for — however the two are related — installs the new
  geometry and empties the cache (`setUp_other_geometry`).
-/
import StirVerif.C03.Model
import Mathlib.Algebra.Order.Field.Rat
import Mathlib.Algebra.Order.Field.Basic
import Mathlib.Data.Rat.Floor
import Mathlib.Tactic.Linarith
import Mathlib.Tactic.Ring
import Mathlib.Tactic.SplitIfs
import Mathlib.Tactic.NormNum
import Mathlib.Tactic.Positivity
import Mathlib.Tactic.FieldSimp
import Mathlib.Tactic.GCongr
import Mathlib.Algebra.Order.Ring.Abs

namespace StirVerif.C03

theorem qabs_neg (q : Rat) : qabs (-q) = qabs q := by
  unfold qabs
  split_ifs with h1 h2 h2
  · linarith
  · exact neg_neg q
  · rfl
  · have : q = 0 := by linarith
    subst this; rfl

theorem qabs_nonneg (q : Rat) : 0 ≤ qabs q := by
  unfold qabs
  split_ifs <;> linarith

theorem qabs_eq_abs (q : Rat) : qabs q = |q| := by
  unfold qabs
  split_ifs with h
  · exact (abs_of_neg h).symm
  · exact (abs_of_nonneg (not_lt.mp h)).symm

/-- `float` rounding is odd -/
theorem f32Round_neg (q : Rat) : f32Round (-q) = -f32Round q := by
  unfold f32Round
  by_cases h0 : q = 0
  · subst h0; simp
  · have h0' : -q ≠ 0 := neg_ne_zero.mpr h0
    simp only [h0, h0', if_false, qabs_neg]
    rcases lt_or_gt_of_ne h0 with h | h
    · have h1 : ¬ (-q < 0) := by linarith
      simp only [h, h1, if_true, if_false, neg_neg]
    · have h1 : -q < 0 := by linarith
      have h2 : ¬ (q < 0) := by linarith
      simp only [h1, h2, if_true, if_false]

/-- **the guard does not depend on which of the two voxel sizes is the larger one** -/
theorem squareVoxels_symm (vy vx : Rat) : squareVoxels vy vx = squareVoxels vx vy := by
  unfold squareVoxels
  have : vx - vy = -(vy - vx) := by ring
  rw [this, f32Round_neg, qabs_neg]

theorem effectiveVox_symm (f : Flags) (V : Int) (vy vx : Rat) (p t o : Bool) :
    f.effectiveVox V vy vx p t o = f.effectiveVox V vx vy p t o := by
  unfold Flags.effectiveVox
  rw [squareVoxels_symm]

/-- the 90° switch survives the constructor only if its "square" input is true -/
theorem effective_d90 (f : Flags) (V : Int) (sq p t o : Bool) (h : (f.effective V sq p t o).d90 = true) : sq = true := by
  rcases f with ⟨a, b, c, d, e⟩
  unfold Flags.effective at h
  cases sq
  · revert h
    cases a <;> cases b <;> cases c <;> cases d <;> cases p <;> cases t <;> cases o <;>
      cases (V.tmod 4 != 0) <;> cases (V.tmod 2 != 0) <;> simp
  · rfl

/-- … hence only if the voxel-size guard passes -/
theorem effectiveVox_d90 (f : Flags) (V : Int) (vy vx : Rat) (p t o : Bool)
    (h : (f.effectiveVox V vy vx p t o).d90 = true) : squareVoxels vy vx = true :=
  effective_d90 f V _ p t o h

theorem effectiveImg_d90 (f : Flags) (V : Int) (vy vx : Rat) (r : Bool) (minY maxY minX maxX : Int) (p t o : Bool)
    (h : (f.effectiveImg V vy vx r minY maxY minX maxX p t o).d90 = true) :
    squareVoxels vy vx = true ∧ (r = true → minY = minX ∧ maxY = maxX) := by
  have h1 := effective_d90 f V _ p t o h
  simp only [Bool.and_eq_true, Bool.or_eq_true, Bool.not_eq_true', decide_eq_true_eq] at h1
  refine ⟨h1.1, fun hr => ?_⟩
  rcases h1.2 with h2 | h2
  · rw [hr] at h2; cases h2
  · exact h2

theorem effectiveImg_symm (f : Flags) (V : Int) (vy vx : Rat) (r : Bool) (minY maxY minX maxX : Int) (p t o : Bool) :
    f.effectiveImg V vy vx r minY maxY minX maxX p t o = f.effectiveImg V vx vy r minX maxX minY maxY p t o := by
  unfold Flags.effectiveImg
  rw [squareVoxels_symm vy vx]
  have h1 : decide (minY = minX) = decide (minX = minY) := by simp only [eq_comm]
  have h2 : decide (maxY = maxX) = decide (maxX = maxY) := by simp only [eq_comm]
  rw [h1, h2]

/-! ### how far apart the voxel sizes can be when the guard passes -/

theorem pow2_eq_zpow (e : Int) : pow2 e = (2 : ℚ) ^ e := by
  unfold pow2
  split_ifs with h
  · have he : e = ((e.toNat : ℕ) : ℤ) := (Int.toNat_of_nonneg h).symm
    conv_rhs => rw [he]
    rw [zpow_natCast]
    push_cast
    rfl
  · have hn : 0 ≤ -e := by omega
    have he : e = -(((-e).toNat : ℕ) : ℤ) := by rw [Int.toNat_of_nonneg hn]; ring
    conv_rhs => rw [he]
    rw [zpow_neg, zpow_natCast]
    push_cast
    rw [one_div]

theorem pow2_pos (e : Int) : 0 < pow2 e := by
  rw [pow2_eq_zpow]; exact zpow_pos (by norm_num) e

theorem pow2_mono {e e' : Int} (h : e ≤ e') : pow2 e ≤ pow2 e' := by
  rw [pow2_eq_zpow, pow2_eq_zpow]
  exact zpow_le_zpow_right₀ (by norm_num) h

theorem pow2_sub (e k : Int) : pow2 e = pow2 k * pow2 (e - k) := by
  rw [pow2_eq_zpow, pow2_eq_zpow, pow2_eq_zpow, ← zpow_add₀ (by norm_num : (2 : ℚ) ≠ 0)]
  congr 1
  ring

/-- `2^⌊log₂ a⌋ ≤ a` -/
theorem pow2_ilog2_le (a : ℚ) (ha : 0 < a) : pow2 (ilog2 a) ≤ a := by
  unfold ilog2
  simp only
  split_ifs with h
  · exact h
  · have hnum : 0 < a.num := Rat.num_pos.mpr ha
    have hn : a.num.natAbs ≠ 0 := by omega
    have h1 : 2 ^ a.num.natAbs.log2 ≤ a.num.natAbs := Nat.log2_self_le hn
    have h2 : a.den < 2 ^ (a.den.log2 + 1) := Nat.lt_log2_self
    have hd : (0 : ℚ) < a.den := by exact_mod_cast a.den_pos
    have ha' : a = (a.num.natAbs : ℚ) / (a.den : ℚ) := by
      have h3 : ((a.num.natAbs : ℕ) : ℚ) = (a.num : ℚ) := by
        rw [Nat.cast_natAbs, abs_of_pos hnum]
      rw [h3]
      exact (Rat.num_div_den a).symm
    rw [pow2_eq_zpow]
    have hz : (2 : ℚ) ^ ((a.num.natAbs.log2 : ℤ) - (a.den.log2 : ℤ) - 1)
        = (2 : ℚ) ^ a.num.natAbs.log2 / (2 : ℚ) ^ (a.den.log2 + 1) := by
      rw [show ((a.num.natAbs.log2 : ℤ) - (a.den.log2 : ℤ) - 1) = (a.num.natAbs.log2 : ℤ) - ((a.den.log2 + 1 : ℕ) : ℤ) by
        push_cast; ring]
      rw [zpow_sub₀ (by norm_num : (2 : ℚ) ≠ 0), zpow_natCast, zpow_natCast]
    rw [hz]
    have h1q : (2 : ℚ) ^ a.num.natAbs.log2 ≤ (a.num.natAbs : ℚ) := by exact_mod_cast h1
    have h2q : (a.den : ℚ) ≤ (2 : ℚ) ^ (a.den.log2 + 1) := by exact_mod_cast h2.le
    have hp : (0 : ℚ) < (2 : ℚ) ^ (a.den.log2 + 1) := by positivity
    have hnq : (0 : ℚ) ≤ (a.num.natAbs : ℚ) := by positivity
    calc (2 : ℚ) ^ a.num.natAbs.log2 / (2 : ℚ) ^ (a.den.log2 + 1)
        ≤ (a.num.natAbs : ℚ) / (2 : ℚ) ^ (a.den.log2 + 1) := by gcongr
      _ ≤ (a.num.natAbs : ℚ) / (a.den : ℚ) := by gcongr
      _ = a := ha'.symm

/-- the nearest integer is within 1/2 -/
theorem roundHalfEven_err (x : ℚ) : |((roundHalfEven x : ℤ) : ℚ) - x| ≤ 1 / 2 := by
  have h1 : ((x.floor : ℤ) : ℚ) ≤ x := Rat.floor_le x
  have h2 : x < (((x.floor + 1 : ℤ)) : ℚ) := Rat.lt_floor_add_one x
  push_cast at h2
  unfold roundHalfEven
  simp only
  rw [abs_le]
  split_ifs with ha hb hc
  · constructor <;> linarith
  · push_cast; constructor <;> linarith
  · constructor <;> linarith
  · push_cast; constructor <;> linarith

/-- rounding does not go below an integer that is not above -/
theorem le_roundHalfEven (m : ℤ) (x : ℚ) (h : (m : ℚ) ≤ x) : m ≤ roundHalfEven x := by
  have hf : m ≤ x.floor := Rat.le_floor_iff.mpr h
  unfold roundHalfEven
  simp only
  split_ifs <;> omega

/-- what `f32Round` does to a non-zero number -/
theorem f32Round_spec (q : ℚ) (h0 : q ≠ 0) :
    ∃ e : ℤ, (e = ilog2 (qabs q) ∨ e = -126) ∧
      f32Round q = (if q < 0 then -((roundHalfEven (qabs q / pow2 (e - 23)) : ℚ) * pow2 (e - 23))
                    else (roundHalfEven (qabs q / pow2 (e - 23)) : ℚ) * pow2 (e - 23)) := by
  unfold f32Round
  rw [if_neg h0]
  by_cases hL : ilog2 (qabs q) < -126
  · exact ⟨-126, Or.inr rfl, by simp only [hL, if_true]⟩
  · exact ⟨ilog2 (qabs q), Or.inl rfl, by simp only [hL, if_false]⟩

/-- a `float` result below `2^-8` is within half a unit in the last place (`2^-33`) of the exact value -/
theorem f32Round_close (q : ℚ) (h : qabs (f32Round q) < pow2 (-8)) : qabs q ≤ qabs (f32Round q) + pow2 (-33) := by
  by_cases h0 : q = 0
  · subst h0
    have : f32Round 0 = 0 := by unfold f32Round; simp
    rw [this]
    have := pow2_pos (-33)
    have h00 : qabs 0 = 0 := by unfold qabs; simp
    rw [h00]; linarith
  · obtain ⟨e, he, hr⟩ := f32Round_spec q h0
    have hapos : 0 < qabs q := by
      unfold qabs
      split_ifs with hq
      · linarith
      · exact lt_of_le_of_ne (not_lt.mp hq) (Ne.symm h0)
    set a := qabs q with ha
    set quantum := pow2 (e - 23) with hqm
    have hqpos : 0 < quantum := pow2_pos _
    set n := roundHalfEven (a / quantum) with hn
    have hn0 : 0 ≤ n := le_roundHalfEven 0 _ (by push_cast; positivity)
    have hr' : qabs (f32Round q) = (n : ℚ) * quantum := by
      rw [hr]
      have hnn : (0 : ℚ) ≤ (n : ℚ) * quantum := by
        have : (0 : ℚ) ≤ (n : ℚ) := by exact_mod_cast hn0
        positivity
      split_ifs with hq
      · rw [qabs_neg]; unfold qabs; rw [if_neg (not_lt.mpr hnn)]
      · unfold qabs; rw [if_neg (not_lt.mpr hnn)]
    rw [hr'] at h ⊢
    -- the exponent is at most -9
    have he9 : e ≤ -9 := by
      by_contra hc
      have he8 : -8 ≤ e := by omega
      have heL : e = ilog2 a := by
        rcases he with he | he
        · exact he
        · omega
      have hle : pow2 e ≤ a := by rw [heL]; exact pow2_ilog2_le a hapos
      have h23 : ((2 ^ 23 : ℤ) : ℚ) ≤ a / quantum := by
        rw [le_div_iff₀ hqpos]
        have := pow2_sub e 23
        have h223 : pow2 23 = ((2 ^ 23 : ℤ) : ℚ) := by rw [pow2_eq_zpow]; norm_num
        rw [← h223, ← this]
        exact hle
      have hn23 : (2 ^ 23 : ℤ) ≤ n := le_roundHalfEven _ _ h23
      have : pow2 e ≤ (n : ℚ) * quantum := by
        have h223 : pow2 23 = ((2 ^ 23 : ℤ) : ℚ) := by rw [pow2_eq_zpow]; norm_num
        rw [pow2_sub e 23, h223]
        have : ((2 ^ 23 : ℤ) : ℚ) ≤ (n : ℚ) := by exact_mod_cast hn23
        gcongr
      have h8 : pow2 (-8) ≤ pow2 e := pow2_mono he8
      linarith
    have hq32 : quantum ≤ pow2 (-32) := pow2_mono (by omega)
    have herr := roundHalfEven_err (a / quantum)
    rw [← hn, abs_le] at herr
    have h1 : a / quantum - (n : ℚ) ≤ 1 / 2 := by linarith [herr.1]
    have h2 : a - (n : ℚ) * quantum ≤ quantum / 2 := by
      have : a = a / quantum * quantum := by field_simp
      calc a - (n : ℚ) * quantum = (a / quantum - n) * quantum := by rw [sub_mul]; congr 1
        _ ≤ 1 / 2 * quantum := by gcongr
        _ = quantum / 2 := by ring
    have h33 : pow2 (-32) / 2 = pow2 (-33) := by rw [pow2_eq_zpow, pow2_eq_zpow]; norm_num
    linarith

/-- **when the guard leaves the x/y exchanging symmetries on, the voxel sizes differ by at most `2.E-3F + 2⁻³³` mm** -/
theorem squareVoxels_close (vy vx : ℚ) (h : squareVoxels vy vx = true) : |vy - vx| ≤ twoEm3F + pow2 (-33) := by
  unfold squareVoxels at h
  have h1 : ¬ twoEm3F < qabs (f32Round (vy - vx)) := by
    intro hc
    simp [hc] at h
  have h2 : qabs (f32Round (vy - vx)) ≤ twoEm3F := not_lt.mp h1
  have h8 : twoEm3F < pow2 (-8) := by rw [pow2_eq_zpow]; unfold twoEm3F; norm_num
  have := f32Round_close (vy - vx) (lt_of_le_of_lt h2 h8)
  rw [← qabs_eq_abs]
  linarith

/-- equal voxel sizes pass the guard -/
theorem squareVoxels_self (v : ℚ) : squareVoxels v v = true := by
  unfold squareVoxels
  have h0 : f32Round (v - v) = 0 := by rw [sub_self]; unfold f32Round; simp
  have h00 : qabs 0 = 0 := by unfold qabs; simp
  have ht : ¬ twoEm3F < 0 := by unfold twoEm3F; norm_num
  rw [h0, h00]
  simp [ht]

/-- voxel sizes further apart than the bound do not -/
theorem squareVoxels_far (vy vx : ℚ) (h : twoEm3F + pow2 (-33) < |vy - vx|) : squareVoxels vy vx = false := by
  cases hs : squareVoxels vy vx
  · rfl
  · have := squareVoxels_close vy vx hs
    linarith

/-! ### `set_up` for another geometry -/

variable {G α : Type}

/-- `set_up` for a geometry other than the one of the last effective `set_up` (or on a new object) never takes the
    early return: the object afterwards holds the new geometry with the current parameters and an empty cache -/
theorem setUp_other_geometry [DecidableEq G] (w : World G α) (s s' : PM G α) (g : G)
    (hne : ∀ g' p, s.active = some (g', p) → g' ≠ g) (h : s.setUp w g = .ok s') :
    s'.active = some (g, s.params) ∧ s'.cache = [] ∧ s'.alreadySetup = true := by
  unfold PM.setUp at h
  cases ha : s.active with
  | none =>
    rw [ha] at h
    simp only [Bool.and_false, Bool.false_eq_true, if_false] at h
    split_ifs at h
    cases h
    exact ⟨rfl, rfl, rfl⟩
  | some gp =>
    rcases gp with ⟨g', p⟩
    have hg := hne g' p ha
    rw [ha] at h
    simp only [hg, decide_false, Bool.and_false, Bool.false_eq_true, if_false] at h
    split_ifs at h
    cases h
    exact ⟨rfl, rfl, rfl⟩

end StirVerif.C03
