/-
C03 — `find_basic_bin` is idempotent, stays in range, and a basic bin gets the trivial symmetry operation.
-/
import StirVerif.C03.ProofsSym

namespace StirVerif.C03
set_option linter.unusedSimpArgs false
set_option linter.unusedTactic false

/-- the facts that characterise a basic bin -/
structure Sym.IsBasic (y : Sym) (b : Bin) : Prop where
  v90 : y.d90 = true → b.view ≤ y.V / 2 / 2
  v180 : y.d180 = true → b.view ≤ y.V / 2
  seg : y.swapSeg = true → 0 ≤ b.seg
  tang : y.swapS = true → 0 ≤ b.tang
  ax : y.shiftZ = true → b.ax = 0

theorem basicView_facts (y : Sym) (h : y.WF) (view : Int) (hv : 0 ≤ view ∧ view < y.V) :
    0 ≤ y.basicView view ∧ y.basicView view < y.V ∧ (y.d90 = true → y.basicView view ≤ y.V / 2 / 2) ∧
      (y.d180 = true → y.basicView view ≤ y.V / 2) := by
  obtain ⟨hV, h90, h180, _⟩ := h
  unfold Sym.basicView
  cases hd90 : y.d90 <;> cases hd180 : y.d180 <;>
    simp only [hd90, hd180, Bool.false_eq_true, if_true, if_false, forall_const, false_implies, true_implies] at * <;>
    repeat' (first | omega | split | constructor)

theorem basic_isBasic (y : Sym) (h : y.WF) (b : Bin) (hv : 0 ≤ b.view ∧ b.view < y.V) : y.IsBasic (y.basic b) := by
  have hf := basicView_facts y h b.view hv
  constructor
  · exact hf.2.2.1
  · exact hf.2.2.2
  · intro hs; simp only [Sym.basic, Sym.findBasicBin, Sym.basicSeg, hs, true_and]; split <;> omega
  · intro hs; simp only [Sym.basic, Sym.findBasicBin, hs, true_and]; split <;> omega
  · intro hs; simp only [Sym.basic, Sym.findBasicBin, hs, true_and]; split <;> omega

theorem basic_view_range (y : Sym) (h : y.WF) (b : Bin) (hv : 0 ≤ b.view ∧ b.view < y.V) :
    0 ≤ (y.basic b).view ∧ (y.basic b).view < y.V :=
  ⟨(basicView_facts y h b.view hv).1, (basicView_facts y h b.view hv).2.1⟩

/-- on a bin with the `IsBasic` facts `find_basic_bin` changes nothing and reports `false` -/
theorem findBasicBin_of_isBasic (y : Sym) (h : y.WF) (b : Bin) (hv : 0 ≤ b.view) (hb : y.IsBasic b) :
    y.findBasicBin b = (b, false) := by
  obtain ⟨V, d90, d180, sseg, ss, sz, nppr, nppa, delta2, zoff4⟩ := y
  obtain ⟨seg, view, ax, tang, tof⟩ := b
  obtain ⟨hV, h90, h180, hn⟩ := h
  obtain ⟨b1, b2, b3, b4, b5⟩ := hb
  simp only at hV h90 h180 hn hv b1 b2 b3 b4 b5
  clear hn
  have e1 : ¬ (sseg = true ∧ seg < 0) := fun ⟨h1, h2⟩ => by have := b3 h1; omega
  have e2 : ¬ (ss = true ∧ tang < 0) := fun ⟨h1, h2⟩ => by have := b4 h1; omega
  have e3 : ¬ (sz = true ∧ ax ≠ 0) := fun ⟨h1, h2⟩ => h2 (b5 h1)
  have e4 : (if d90 = true then (if view ≥ V / 2 + V / 2 / 2 then V - view else if view ≥ V / 2 then view - V / 2
                else if view > V / 2 / 2 then V / 2 - view else view)
              else if d180 = true then (if view > V / 2 then V - view else view) else view) = view := by
    cases d90 <;> cases d180 <;> simp only [Bool.false_eq_true, if_true, if_false, forall_const, false_implies] at * <;>
      repeat' (first | omega | split)
  have e5 : (if d90 = true then decide (view ≥ V / 2 + V / 2 / 2 ∨ view ≥ V / 2 ∨ view > V / 2 / 2)
              else if d180 = true then decide (view > V / 2) else false) = false := by
    cases d90 <;> cases d180 <;> simp only [Bool.false_eq_true, if_true, if_false, forall_const, false_implies,
      decide_eq_false_iff_not] at * <;> omega
  simp only [Sym.findBasicBin, Sym.findBasicVS, Sym.basicView, Sym.basicSeg, e1, e2, e3, e4, e5, if_false,
    decide_false, Bool.or_false]

theorem basic_idempotent (y : Sym) (h : y.WF) (b : Bin) (hv : 0 ≤ b.view ∧ b.view < y.V) :
    y.findBasicBin (y.basic b) = (y.basic b, false) :=
  findBasicBin_of_isBasic y h _ (basic_view_range y h b hv).1 (basic_isBasic y h b hv)

set_option maxHeartbeats 1000000 in
/-- a bin with the `IsBasic` facts gets `TrivialSymmetryOperation` -/
theorem findSymOp_of_isBasic (y : Sym) (h : y.WF) (b : Bin) (hv : 0 ≤ b.view) (hb : y.IsBasic b) :
    y.findSymOp b = SymOp.triv := by
  obtain ⟨V, d90, d180, sseg, ss, sz, nppr, nppa, delta2, zoff4⟩ := y
  obtain ⟨seg, view, ax, tang, tof⟩ := b
  obtain ⟨hV, h90, h180, hn⟩ := h
  obtain ⟨b1, b2, b3, b4, b5⟩ := hb
  simp only at hV h90 h180 hn hv b1 b2 b3 b4 b5
  clear hn
  cases d90 <;> cases d180 <;> cases sseg <;> cases ss <;> cases sz <;>
    simp only [Sym.findSymOp, Sym.symOpBin0, Sym.symOpGeneral, Sym.newOp, Sym.mkShift, SymOp.triv, tdiv_lit V hV,
      true_and, false_and, and_true, and_false, true_or, false_or, or_true, or_false, if_true, if_false,
      Bool.false_eq_true, forall_const, false_implies, true_implies, reduceCtorEq] at * <;>
    (try subst b5) <;>
    repeat' (first | omega | rfl | split | (simp only [Int.mul_zero] at *))

theorem basic_is_fixed (y : Sym) (h : y.WF) (b : Bin) (hv : 0 ≤ b.view ∧ b.view < y.V) :
    y.findSymOp (y.basic b) = SymOp.triv :=
  findSymOp_of_isBasic y h _ (basic_view_range y h b hv).1 (basic_isBasic y h b hv)

end StirVerif.C03
