/-
C03 — the row cache refines the specification: whatever the history of requests, cache-mode switches,
`clear_cache`, parameter changes and `set_up` calls, every row handed out is
`(findSymOp b).onRow (compute (basic b))` for the configuration of the last `set_up`.

Invariant: every stored entry sits under the key of its own bin and equals the specification of that bin.
-/
import StirVerif.C03.ProofsRebuild
import StirVerif.C03.ProofsBasic
import StirVerif.C03.ProofsKey

namespace StirVerif.C03

variable {G α : Type}

/-- what a requested bin has to satisfy (for the symmetries object `y` in force) -/
structure Good (y : Sym) (b : Bin) : Prop where
  view : 0 ≤ b.view ∧ b.view < y.V
  box : InBox b
  tof : TofOK y b

theorem triv_onElems (e : List (Vox × α)) : SymOp.triv.onElems e = e := by
  simp only [SymOp.onElems, SymOp.onVoxel, SymOp.triv]
  exact List.map_id' e

theorem good_basic (y : Sym) (h : y.WF) (b : Bin) (hb : Good y b) : Good y (y.basic b) := by
  refine ⟨basic_view_range y h b hb.view, ?_, ?_⟩
  · obtain ⟨h1, h2, h3⟩ := hb.box
    simp only [InBox, Sym.basic, Sym.findBasicBin]
    refine ⟨?_, ?_, ?_⟩
    · split <;> omega
    · split <;> omega
    · split <;> omega
  · have := hb.tof
    simp only [TofOK, Sym.basic, Sym.findBasicBin] at this ⊢
    rcases this with h1 | h1 | h1
    · left; split <;> omega
    · exact Or.inr (Or.inl h1)
    · exact Or.inr (Or.inr h1)

/-- the specification at a basic bin is the computed row itself -/
theorem spec_basic (w : World G α) (g : G) (p : Params) (h : (w.symOf g p).WF) (b : Bin) (hb : Good (w.symOf g p) b) :
    spec w g p ((w.symOf g p).basic b) = (w.compute g p ((w.symOf g p).basic b)).map fun e => ⟨(w.symOf g p).basic b, e⟩ := by
  have h1 : (w.symOf g p).basic ((w.symOf g p).basic b) = (w.symOf g p).basic b := by
    have := basic_idempotent _ h b hb.view
    show ((w.symOf g p).findBasicBin ((w.symOf g p).basic b)).1 = (w.symOf g p).basic b
    rw [this]
  have h2 := basic_is_fixed _ h b hb.view
  simp only [spec, h1, h2, triv_onElems]

/-- … and moving that row with the operation of `b` gives the specification at `b` -/
theorem spec_from_basic (w : World G α) (g : G) (p : Params) (h : (w.symOf g p).WF) (b : Bin) (hb : Good (w.symOf g p) b)
    (e : List (Vox × α)) (he : w.compute g p ((w.symOf g p).basic b) = some e) :
    spec w g p b = some (((w.symOf g p).findSymOp b).onRow ⟨(w.symOf g p).basic b, e⟩) := by
  simp only [spec, he, Option.map_some, SymOp.onRow, symop_rebuilds_bin _ h b hb.view hb.tof]

theorem ckey_inj (b b' : Bin) (hb : InBox b) (hb' : InBox b') (h : CKey.of b = CKey.of b') : b = b' := by
  simp only [CKey.of, CKey.mk.injEq] at h
  obtain ⟨h1, h2, h3⟩ := h
  obtain ⟨h4, h5, h6⟩ := cacheKey_injective b b' hb hb' h3
  obtain ⟨s, v, a, t, f⟩ := b
  obtain ⟨s', v', a', t', f'⟩ := b'
  simp only at h1 h2 h4 h5 h6
  simp only [Bin.mk.injEq]
  exact ⟨h2, h1, h4, h5, h6⟩

/-- a stored entry: under the key of its own bin, a legitimate bin, and equal to the specification of that bin -/
def EntryOK (w : World G α) (g : G) (p : Params) (e : CKey × Row α) : Prop :=
  e.1 = CKey.of e.2.bin ∧ Good (w.symOf g p) e.2.bin ∧ spec w g p e.2.bin = some e.2

def CacheOK (w : World G α) (g : G) (p : Params) (s : PM G α) : Prop := ∀ e ∈ s.cache, EntryOK w g p e

theorem lookup_spec (w : World G α) (g : G) (p : Params) (s : PM G α) (hc : CacheOK w g p s) (b : Bin)
    (hb : Good (w.symOf g p) b) (r : Row α) (hl : s.lookup b = some r) : r.bin = b ∧ spec w g p b = some r := by
  unfold PM.lookup at hl
  split at hl
  · exact absurd hl (by simp)
  · rw [Option.map_eq_some_iff] at hl
    obtain ⟨e, he, rfl⟩ := hl
    have hmem := List.mem_of_find?_eq_some he
    have hkey := List.find?_some he
    simp only [beq_iff_eq] at hkey
    obtain ⟨h1, h2, h3⟩ := hc e hmem
    have : e.2.bin = b := ckey_inj _ _ h2.box hb.box (by rw [← h1, hkey])
    exact ⟨this, by rw [← this]; exact h3⟩

theorem store_ok (w : World G α) (g : G) (p : Params) (s : PM G α) (hc : CacheOK w g p s) (r : Row α)
    (hr : Good (w.symOf g p) r.bin) (hs : spec w g p r.bin = some r) : CacheOK w g p (s.store r) := by
  unfold PM.store
  split
  · exact hc
  · split
    · exact hc
    · intro e he
      simp only [List.mem_append, List.mem_singleton] at he
      rcases he with he | he
      · exact hc e he
      · subst he; exact ⟨rfl, hr, hs⟩

theorem store_fields (s : PM G α) (r : Row α) :
    (s.store r).active = s.active ∧ (s.store r).alreadySetup = s.alreadySetup ∧ (s.store r).params = s.params := by
  unfold PM.store
  split
  · exact ⟨rfl, rfl, rfl⟩
  · split <;> exact ⟨rfl, rfl, rfl⟩

/-- one `get`: the returned row is the specification; the cache stays good; nothing else changes -/
theorem get_refines (w : World G α) (g : G) (p : Params) (h : (w.symOf g p).WF) (s : PM G α)
    (ha : s.active = some (g, p)) (hc : CacheOK w g p s) (b : Bin) (hb : Good (w.symOf g p) b)
    (s' : PM G α) (r : Row α) (hg : s.get w b = .ok (s', r)) :
    spec w g p b = some r ∧ CacheOK w g p s' ∧ s'.active = s.active ∧ s'.alreadySetup = s.alreadySetup ∧ s'.params = s.params := by
  have hb0 := good_basic _ h b hb
  -- what a freshly computed basic row is
  have hcalc : ∀ r0, s.calc w g p ((w.symOf g p).basic b) = .ok r0 →
      spec w g p ((w.symOf g p).basic b) = some r0 ∧ r0.bin = (w.symOf g p).basic b ∧
        spec w g p b = some (((w.symOf g p).findSymOp b).onRow r0) := by
    intro r0 hr0
    unfold PM.calc at hr0
    split at hr0
    · exact absurd hr0 (by simp)
    · split at hr0
      · exact absurd hr0 (by simp)
      · rename_i e he
        simp only [Except.ok.injEq] at hr0
        subst hr0
        exact ⟨by rw [spec_basic w g p h b hb, he]; rfl, rfl, spec_from_basic w g p h b hb e he⟩
  -- what a cached basic row is
  have hcached : ∀ r0, s.lookup ((w.symOf g p).basic b) = some r0 →
      spec w g p b = some (((w.symOf g p).findSymOp b).onRow r0) := by
    intro r0 hr0
    obtain ⟨h1, h2⟩ := lookup_spec w g p s hc _ hb0 r0 hr0
    rw [spec_basic w g p h b hb] at h2
    rw [Option.map_eq_some_iff] at h2
    obtain ⟨e, he, rfl⟩ := h2
    exact spec_from_basic w g p h b hb e he
  have hbin : ∀ r0 : Row α, spec w g p b = some r0 → r0.bin = b := by
    intro r0 hr0
    simp only [spec] at hr0
    rw [Option.map_eq_some_iff] at hr0
    obtain ⟨e, _, rfl⟩ := hr0
    rfl
  unfold PM.get at hg
  simp only [ha] at hg
  split at hg
  · -- cache holds basic bins only
    split at hg
    · rename_i r0 hr0
      simp only [Except.ok.injEq, Prod.mk.injEq] at hg
      obtain ⟨rfl, rfl⟩ := hg
      exact ⟨hcached r0 hr0, hc, rfl, rfl, rfl⟩
    · split at hg
      · exact absurd hg (by simp)
      · rename_i r0 hr0
        simp only [Except.ok.injEq, Prod.mk.injEq] at hg
        obtain ⟨rfl, rfl⟩ := hg
        obtain ⟨h1, h2, h3⟩ := hcalc r0 hr0
        obtain ⟨f1, f2, f3⟩ := store_fields s r0
        exact ⟨h3, store_ok w g p s hc r0 (by rw [h2]; exact hb0) (by rw [h2]; exact h1), f1, f2, f3⟩
  · -- cache holds every requested bin
    split at hg
    · rename_i r0 hr0
      simp only [Except.ok.injEq, Prod.mk.injEq] at hg
      obtain ⟨rfl, rfl⟩ := hg
      exact ⟨(lookup_spec w g p s hc b hb _ hr0).2, hc, rfl, rfl, rfl⟩
    · split at hg
      · rename_i r0 hr0
        simp only [Except.ok.injEq, Prod.mk.injEq] at hg
        obtain ⟨rfl, rfl⟩ := hg
        have h3 := hcached r0 hr0
        obtain ⟨f1, f2, f3⟩ := store_fields s (((w.symOf g p).findSymOp b).onRow r0)
        have hb' := hbin _ h3
        exact ⟨h3, store_ok w g p s hc _ (by rw [hb']; exact hb) (by rw [hb']; exact h3), f1, f2, f3⟩
      · split at hg
        · exact absurd hg (by simp)
        · rename_i r0 hr0
          simp only [Except.ok.injEq, Prod.mk.injEq] at hg
          obtain ⟨rfl, rfl⟩ := hg
          obtain ⟨_, _, h3⟩ := hcalc r0 hr0
          obtain ⟨f1, f2, f3⟩ := store_fields s (((w.symOf g p).findSymOp b).onRow r0)
          have hb' := hbin _ h3
          exact ⟨h3, store_ok w g p s hc _ (by rw [hb']; exact hb) (by rw [hb']; exact h3), f1, f2, f3⟩

/-- the invariant of a history: the object works for the configuration the last `set_up` asked for,
    `already_setup` means "set up for the current parameters", and the cache is good for that configuration -/
structure Inv (w : World G α) (s : PM G α) (cfg : Option (G × Params)) : Prop where
  act : s.active = cfg
  setup : s.alreadySetup = true → ∃ g, s.active = some (g, s.params)
  cache : ∀ g p, s.active = some (g, p) → CacheOK w g p s

/-- what the theorem asks of a history: every requested bin is legitimate for the configuration in force -/
def Req (w : World G α) (x : Bin × Option (G × Params) × Row α) : Prop :=
  ∃ g p, x.2.1 = some (g, p) ∧ Good (w.symOf g p) x.1

/-- what it delivers: the row is the specification for the configuration the last `set_up` asked for -/
def Refines (w : World G α) (x : Bin × Option (G × Params) × Row α) : Prop :=
  ∃ g p, x.2.1 = some (g, p) ∧ spec w g p x.1 = some x.2.2

theorem run_refines [DecidableEq G] (w : World G α) (hWF : ∀ g p, (w.symOf g p).WF)
    (evs : List (Ev G)) : ∀ (s : PM G α) (cfg : Option (G × Params)), Inv w s cfg →
      (∀ x ∈ s.run w cfg evs, Req w x) → ∀ x ∈ s.run w cfg evs, Refines w x := by
  induction evs with
  | nil => intro s cfg _ _ x hx; simp only [PM.run, List.not_mem_nil] at hx
  | cons ev rest ih =>
    intro s cfg hinv hreq x hx
    unfold PM.run at hx hreq
    cases ev with
    | get b =>
      simp only [PM.step] at hx hreq
      cases hget : s.get w b with
      | error e => simp only [hget, Except.map, List.not_mem_nil] at hx
      | ok sr =>
        obtain ⟨s', r⟩ := sr
        simp only [hget, Except.map, List.mem_cons] at hx hreq
        obtain ⟨g, p, hcfg, hgood⟩ := hreq (b, cfg, r) (Or.inl rfl)
        simp only at hcfg hgood
        have hact : s.active = some (g, p) := by rw [hinv.act, hcfg]
        obtain ⟨h1, h2, h3, h4, h5⟩ :=
          get_refines w g p (hWF g p) s hact (hinv.cache g p hact) b hgood s' r hget
        have hinv' : Inv w s' cfg := by
          refine ⟨by rw [h3, hinv.act], ?_, ?_⟩
          · intro hs; rw [h4] at hs; rw [h3, h5]; exact hinv.setup hs
          · intro g' p' ha'
            rw [h3, hact] at ha'
            simp only [Option.some.injEq, Prod.mk.injEq] at ha'
            obtain ⟨rfl, rfl⟩ := ha'
            exact h2
        rcases hx with hx | hx
        · subst hx; exact ⟨g, p, hcfg, h1⟩
        · exact ih s' cfg hinv' (fun y hy => hreq y (Or.inr hy)) x hx
    | clearCache =>
      simp only [PM.step] at hx hreq
      refine ih { s with cache := [] } cfg ⟨hinv.act, hinv.setup, ?_⟩ hreq x hx
      intro g p _ e he
      cases he
    | enableCache v =>
      simp only [PM.step] at hx hreq
      exact ih { s with cacheDisabled := !v } cfg ⟨hinv.act, hinv.setup, fun g p ha => hinv.cache g p ha⟩ hreq x hx
    | storeOnlyBasic v =>
      simp only [PM.step] at hx hreq
      exact ih { s with basicOnly := v } cfg ⟨hinv.act, hinv.setup, fun g p ha => hinv.cache g p ha⟩ hreq x hx
    | setParams q =>
      simp only [PM.step] at hx hreq
      refine ih { s with alreadySetup := s.alreadySetup && decide (s.params = q), params := q } cfg
        ⟨hinv.act, ?_, fun g p ha => hinv.cache g p ha⟩ hreq x hx
      intro hs
      have hs' : (s.alreadySetup && decide (s.params = q)) = true := hs
      simp only [Bool.and_eq_true, decide_eq_true_eq] at hs'
      obtain ⟨g, hg⟩ := hinv.setup hs'.1
      exact ⟨g, by show s.active = some (g, q); rw [hg, hs'.2]⟩
    | setUp g =>
      simp only [PM.step] at hx hreq
      cases hsu : s.setUp w g with
      | error e => simp only [hsu, Except.map, List.not_mem_nil] at hx
      | ok s' =>
        simp only [hsu, Except.map] at hx hreq
        refine ih s' (some (g, s.params)) ?_ hreq x hx
        have nonskip : ∀ s'' : PM G α,
            (if (!s.cacheDisabled && !w.fits g) = true then (Except.error Err.keyBits : Except Err (PM G α))
              else Except.ok { s with active := some (g, s.params), cache := [], alreadySetup := true }) = Except.ok s'' →
            Inv w s'' (some (g, s.params)) := by
          intro s'' h''
          split at h''
          · exact absurd h'' (by simp)
          · simp only [Except.ok.injEq] at h''
            subst h''
            refine ⟨rfl, fun _ => ⟨g, rfl⟩, ?_⟩
            intro g' p' _ e he
            cases he
        unfold PM.setUp at hsu
        cases hact : s.active with
        | none =>
          simp only [hact, Bool.and_false, Bool.false_eq_true, if_false] at hsu
          exact nonskip s' hsu
        | some gp =>
          obtain ⟨g', p'⟩ := gp
          simp only [hact] at hsu
          by_cases hskip : (s.alreadySetup && decide (g' = g)) = true
          · -- the early return: same parameters (`already_setup`) and same geometry
            rw [if_pos hskip] at hsu
            simp only [Except.ok.injEq] at hsu
            subst hsu
            simp only [Bool.and_eq_true, decide_eq_true_eq] at hskip
            obtain ⟨g'', hg''⟩ := hinv.setup hskip.1
            rw [hact] at hg''
            simp only [Option.some.injEq, Prod.mk.injEq] at hg''
            obtain ⟨rfl, rfl⟩ := hg''
            have : g' = g := hskip.2
            subst this
            exact ⟨hact, hinv.setup, fun g p ha => hinv.cache g p ha⟩
          · rw [if_neg hskip] at hsu
            exact nonskip s' hsu

end StirVerif.C03
