/-
C03 — executable model of the symmetry bookkeeping and of the row cache of the projection matrix
(cylindrical scanner geometry).

Sources (pinned tree), transcribed line by line:
* the 16 classes `SymmetryOperation_PET_CartesianGrid_*` (+ `TrivialSymmetryOperation`):
  `transform_bin_coordinates`, `transform_view_segment_indices`, `transform_image_coordinates`
  — src/include/stir/recon_buildblock/SymmetryOperations_PET_CartesianGrid.inl:37-562  → `SymOp.onBin/onVS/onVoxel`;
  `transform_proj_matrix_elems_for_one_bin` — src/recon_buildblock/SymmetryOperations_PET_CartesianGrid.cxx
  (16 identical copies) and src/recon_buildblock/SymmetryOperation.cxx:30 → `SymOp.onRow`;
* `find_transform_z`, `find_sym_op_bin0`, `find_sym_op_general_bin`, `find_basic_view_segment_numbers`,
  `find_basic_bin` (all: the `"Cylindrical"` branch), `find_symmetry_operation_from_basic_bin`
  — src/include/stir/recon_buildblock/DataSymmetriesForBins_PET_CartesianGrid.inl:66, :120, :223, :398, :449, :665;
* the constructor's effective switches and `find_relation_between_coordinate_systems`
  — src/recon_buildblock/DataSymmetriesForBins_PET_CartesianGrid.cxx:238-378, :51-117; its x/y voxel-size guard
  (`fabs(dy - dx) > 2.E-3F`, :301) with `float` rounding → `squareVoxels`, `f32Round`, `Flags.effectiveVox/effectiveImg`;
* `ProjMatrixByBin::cache_key` and the bit widths — src/recon_buildblock/ProjMatrixByBin.cxx:186,
  src/include/stir/recon_buildblock/ProjMatrixByBin.h:210-214 (12 / 28 / 20; the comment in the .cxx is stale);
* `ProjMatrixByBin::{get_proj_matrix_elems_for_one_bin, get_cached_…, cache_…, clear_cache, enable_cache,
  store_only_basic_bins_in_cache, set_up}` — src/include/stir/recon_buildblock/ProjMatrixByBin.inl:48,
  src/recon_buildblock/ProjMatrixByBin.cxx:60-300; `ProjMatrixByBinUsingRayTracing::{set_up, set_*}` (the
  `already_setup` logic) — src/recon_buildblock/ProjMatrixByBinUsingRayTracing.cxx:160-260, :397;
* `ProjMatrixElemsForOneBin::merge` (two-pointer loop) — src/recon_buildblock/ProjMatrixElemsForOneBin.cxx:160;
* `ProjMatrixByBinUsingInterpolation::set_up` (no `already_setup` short cut) — src/recon_buildblock/ProjMatrixByBinUsingInterpolation.cxx:95.

`find_basic_view_segment_numbers` / `find_basic_bin` update their arguments in place and keep a `change` flag; the
model gives one expression per output variable (`basicView`, `basicSeg`, …) and one for the flag.
C semantics: `/` on `int` is `Int.tdiv`; `>> 1` is floor division by 2; 32-bit overflow is not modelled.
Axial quantities that are floats in the source but always multiples of 1/4 plane (`axial_pos_to_z_offset`,
`num_planes_per_scanner_ring * delta`) are carried as integers in quarter-plane units; `floor(x + 0.5)` is then
an integer floor division.  The ray tracer (`calculate_proj_matrix_elems_for_one_bin`, TOF kernel) is an
uninterpreted `compute`.  Core Lean only.
-/
namespace StirVerif.C03

/-- `stir::Bin` coordinates -/
structure Bin where
  seg : Int
  view : Int
  ax : Int
  tang : Int
  tof : Int
  deriving Repr, DecidableEq, Inhabited

/-- image index `BasicCoordinate<3,int>`: `c[1]=z, c[2]=y, c[3]=x` -/
structure Vox where
  z : Int
  y : Int
  x : Int
  deriving Repr, DecidableEq, Inhabited

/-- `ViewSegmentNumbers` -/
structure VS where
  view : Int
  seg : Int
  deriving Repr, DecidableEq, Inhabited

/-- one constructor per symmetry-operation class -/
inductive Kind
  | trivial | z_shift
  | swap_xmx_zq | swap_xmy_yx_zq | swap_xy_yx_zq
  | swap_xmy_yx | swap_xy_yx | swap_xmx | swap_ymy | swap_zq
  | swap_xmx_ymy_zq | swap_xy_ymx_zq | swap_xy_ymx | swap_xmy_ymx
  | swap_ymy_zq | swap_xmx_ymy | swap_xmy_ymx_zq
  deriving Repr, DecidableEq, Inhabited

/-- a symmetry operation object: its class and the constructor arguments it stores
    (`TrivialSymmetryOperation` stores nothing, `z_shift` only the two shifts: unused fields are 0) -/
structure SymOp where
  kind : Kind
  view180 : Int
  axShift : Int
  zShift : Int
  q : Int
  deriving Repr, DecidableEq, Inhabited

def SymOp.triv : SymOp := ⟨.trivial, 0, 0, 0, 0⟩

/-- `transform_bin_coordinates` -/
def SymOp.onBin (o : SymOp) (b : Bin) : Bin :=
  let V := o.view180
  let h := V.tdiv 2
  let a := b.ax + o.axShift
  match o.kind with
  | .trivial => b
  | .z_shift => { b with ax := a }
  | .swap_xmx_zq => { b with ax := a, view := V - b.view }
  | .swap_xmy_yx_zq => { b with ax := a, seg := -b.seg, view := b.view + h }
  | .swap_xy_yx_zq => { b with ax := a, view := h - b.view }
  | .swap_xmy_yx =>
    if b.view < h then { b with ax := a, view := b.view + h }
    else { b with ax := a, seg := -b.seg, view := b.view - h, tang := -b.tang }
  | .swap_xy_yx =>
    if b.view ≤ h then { b with ax := a, seg := -b.seg, view := h - b.view }
    else { b with ax := a, view := (3 * V).tdiv 2 - b.view, tang := -b.tang }
  | .swap_xmx =>
    if b.view ≠ 0 then { b with ax := a, seg := -b.seg, view := V - b.view }
    else { b with ax := a, tang := -b.tang }
  | .swap_ymy =>
    if b.view ≠ 0 then { b with ax := a, view := V - b.view, tang := -b.tang }
    else { b with ax := a, seg := -b.seg }
  | .swap_zq => { b with ax := a, seg := -b.seg }
  | .swap_xmx_ymy_zq => { b with ax := a, tang := -b.tang, tof := -b.tof }
  | .swap_xy_ymx_zq =>
    if b.view < h then { b with ax := a, view := b.view + h, tang := -b.tang }
    else { b with ax := a, seg := -b.seg, view := b.view - h }
  | .swap_xy_ymx =>
    if b.view < h then { b with ax := a, seg := -b.seg, view := b.view + h, tang := -b.tang }
    else { b with ax := a, view := b.view - h }
  | .swap_xmy_ymx =>
    if b.view ≤ h then { b with ax := a, view := h - b.view, tang := -b.tang }
    else { b with ax := a, seg := -b.seg, view := (3 * V).tdiv 2 - b.view }
  | .swap_ymy_zq => { b with ax := a, seg := -b.seg, view := V - b.view, tang := -b.tang }
  | .swap_xmx_ymy => { b with ax := a, seg := -b.seg, tang := -b.tang, tof := -b.tof }
  | .swap_xmy_ymx_zq => { b with ax := a, seg := -b.seg, view := h - b.view, tang := -b.tang }

/-- `transform_view_segment_indices` -/
def SymOp.onVS (o : SymOp) (p : VS) : VS :=
  let V := o.view180
  let h := V.tdiv 2
  match o.kind with
  | .trivial => p
  | .z_shift => p
  | .swap_xmx_zq => { p with view := V - p.view }
  | .swap_xmy_yx_zq => { seg := -p.seg, view := p.view + h }
  | .swap_xy_yx_zq => { p with view := h - p.view }
  | .swap_xmy_yx =>
    if p.view < h then { p with view := p.view + h } else { seg := -p.seg, view := p.view - h }
  | .swap_xy_yx =>
    if p.view ≤ h then { seg := -p.seg, view := h - p.view } else { p with view := (3 * V).tdiv 2 - p.view }
  | .swap_xmx => if p.view ≠ 0 then { seg := -p.seg, view := V - p.view } else p
  | .swap_ymy => if p.view ≠ 0 then { p with view := V - p.view } else { p with seg := -p.seg }
  | .swap_zq => { p with seg := -p.seg }
  | .swap_xmx_ymy_zq => p
  | .swap_xy_ymx_zq =>
    if p.view < h then { p with view := p.view + h } else { seg := -p.seg, view := p.view - h }
  | .swap_xy_ymx =>
    if p.view < h then { seg := -p.seg, view := p.view + h } else { p with view := p.view - h }
  | .swap_xmy_ymx =>
    if p.view ≤ h then { p with view := h - p.view } else { seg := -p.seg, view := (3 * V).tdiv 2 - p.view }
  | .swap_ymy_zq => { seg := -p.seg, view := V - p.view }
  | .swap_xmx_ymy => { p with seg := -p.seg }
  | .swap_xmy_ymx_zq => { seg := -p.seg, view := h - p.view }

/-- `transform_image_coordinates` -/
def SymOp.onVoxel (o : SymOp) (c : Vox) : Vox :=
  let zs := c.z + o.zShift            -- `c[1] += z_shift`
  let zq := o.q - c.z + o.zShift      -- `c[1] = q - c[1] + z_shift`
  match o.kind with
  | .trivial => c
  | .z_shift => { c with z := zs }
  | .swap_xmx_zq => { z := zq, y := c.y, x := -c.x }
  | .swap_xmy_yx_zq => { z := zq, y := c.x, x := -c.y }
  | .swap_xy_yx_zq => { z := zq, y := c.x, x := c.y }
  | .swap_xmy_yx => { z := zs, y := c.x, x := -c.y }
  | .swap_xy_yx => { z := zs, y := c.x, x := c.y }
  | .swap_xmx => { z := zs, y := c.y, x := -c.x }
  | .swap_ymy => { z := zs, y := -c.y, x := c.x }
  | .swap_zq => { z := zq, y := c.y, x := c.x }
  | .swap_xmx_ymy_zq => { z := zq, y := -c.y, x := -c.x }
  | .swap_xy_ymx_zq => { z := zq, y := -c.x, x := c.y }
  | .swap_xy_ymx => { z := zs, y := -c.x, x := c.y }
  | .swap_xmy_ymx => { z := zs, y := -c.x, x := -c.y }
  | .swap_ymy_zq => { z := zq, y := -c.y, x := c.x }
  | .swap_xmx_ymy => { z := zs, y := -c.y, x := -c.x }
  | .swap_xmy_ymx_zq => { z := zq, y := -c.x, x := -c.y }

/-! ## the symmetries object -/

/-- state of a constructed `DataSymmetriesForBins_PET_CartesianGrid` (cylindrical):
    the effective switches and the axial relation between bins and image planes.
    `delta2 s = 2·deltas[s]` (average ring difference), `zoff4 s = 4·axial_pos_to_z_offset[s]`. -/
structure Sym where
  V : Int
  d90 : Bool
  d180 : Bool
  swapSeg : Bool
  swapS : Bool
  shiftZ : Bool
  nppr : Int
  nppa : Int → Int
  delta2 : Int → Int
  zoff4 : Int → Int

/-- the five switches as requested by the caller -/
structure Flags where
  d90 : Bool
  d180 : Bool
  swapSeg : Bool
  swapS : Bool
  shiftZ : Bool
  deriving Repr, DecidableEq, Inhabited

/-- what the constructor does to the requested switches (cylindrical branch, in source order):
    90° ⇒ 180°; 90° off for non-square voxels and unless `num_views % 4 == 0`; 180° off unless `num_views % 2 == 0`;
    both off for a non-zero view offset; 90°/180°/swap_segment/swap_s off for TOF data and for an image whose
    origin is shifted in x or y.  `shift_z` is never changed. -/
def Flags.effective (f : Flags) (V : Int) (squareVoxels phiOffsetZero tof originXYZero : Bool) : Flags :=
  let d90 := f.d90
  let d180 := f.d90 || f.d180
  let d90 := if !squareVoxels then false else d90
  let d90 := if V.tmod 4 != 0 then false else d90
  let d180 := if V.tmod 2 != 0 then false else d180
  let (d90, d180) := if !phiOffsetZero && (d90 || d180) then (false, false) else (d90, d180)
  let (d90, d180) := if tof then (false, false) else (d90, d180)
  let swapSeg := if tof then false else f.swapSeg
  let swapS := if tof then false else f.swapS
  if !originXYZero && (d90 || d180 || swapSeg || swapS) then
    { d90 := false, d180 := false, swapSeg := false, swapS := false, shiftZ := f.shiftZ }
  else { d90 := d90, d180 := d180, swapSeg := swapSeg, swapS := swapS, shiftZ := f.shiftZ }

/-! ### the constructor's x/y voxel-size guard

`if (fabs(get_grid_spacing()[2] - get_grid_spacing()[3]) > 2.E-3F) do_symmetry_90degrees_min_phi = false;`
— src/recon_buildblock/DataSymmetriesForBins_PET_CartesianGrid.cxx:301.  The two grid spacings are `float`s
(`[2]` = y, `[3]` = x), their difference is a `float` subtraction (round to nearest even), `fabs` and the comparison
with the `float` literal are exact.  Voxel sizes are carried as the rationals the floats are. -/

/-- `2^e` as a rational -/
def pow2 (e : Int) : Rat := if e ≥ 0 then ((2 ^ e.toNat : Nat) : Rat) else 1 / ((2 ^ (-e).toNat : Nat) : Rat)

def qabs (q : Rat) : Rat := if q < 0 then -q else q

/-- `⌊log₂ q⌋` for `q > 0`: with `2^a ≤ num < 2^(a+1)`, `2^b ≤ den < 2^(b+1)` it is `a − b` or `a − b − 1` -/
def ilog2 (q : Rat) : Int :=
  let e0 : Int := (Nat.log2 q.num.natAbs : Int) - (Nat.log2 q.den : Int)
  if pow2 e0 ≤ q then e0 else e0 - 1

/-- nearest integer of `q ≥ 0`, ties to even -/
def roundHalfEven (q : Rat) : Int :=
  let f := q.floor
  let r := q - (f : Rat)
  if r < 1 / 2 then f else if 1 / 2 < r then f + 1 else if f % 2 = 0 then f else f + 1

/-- IEEE-754 binary32 round-to-nearest-even of a rational (normal and subnormal range: the spacing of the floats around
    `q` is `2^(max(⌊log₂|q|⌋, −126) − 23)`; overflow to infinity is not modelled) -/
def f32Round (q : Rat) : Rat :=
  if q = 0 then 0 else
  let a := qabs q
  let e := if ilog2 a < -126 then -126 else ilog2 a
  let quantum := pow2 (e - 23)
  let r := (roundHalfEven (a / quantum) : Rat) * quantum
  if q < 0 then -r else r

/-- the `float` literal `2.E-3F` = `0x1.0624dep-9` -/
def twoEm3F : Rat := 8589935 / 4294967296

/-- the guard leaves `do_symmetry_90degrees_min_phi` alone: `!(fabs(y_spacing - x_spacing) > 2.E-3F)` -/
def squareVoxels (vy vx : Rat) : Bool := !decide (twoEm3F < qabs (f32Round (vy - vx)))

/-- the constructor's effective switches from the voxel sizes of the image (`Flags.effective` with the guard evaluated) -/
def Flags.effectiveVox (f : Flags) (V : Int) (vy vx : Rat) (phiOffsetZero tof originXYZero : Bool) : Flags :=
  f.effective V (squareVoxels vy vx) phiOffsetZero tof originXYZero

/-- the constructor's effective switches from the image grid: voxel sizes and index ranges in y and x.
    `xyRangeGuard`: which constructor the implementation has — `false`: the pinned tree, the index ranges are not looked
    at; `true`: with the proposed repair C03-6 `do_symmetry_90degrees_min_phi` is also switched off unless the index
    ranges in y and x are the same (`min_index[2] == min_index[3] && max_index[2] == max_index[3]`). -/
def Flags.effectiveImg (f : Flags) (V : Int) (vy vx : Rat) (xyRangeGuard : Bool) (minY maxY minX maxX : Int)
    (phiOffsetZero tof originXYZero : Bool) : Flags :=
  f.effective V (squareVoxels vy vx && (!xyRangeGuard || (decide (minY = minX) && decide (maxY = maxX))))
    phiOffsetZero tof originXYZero

/-- axial description of the data and the image needed by `find_relation_between_coordinate_systems` -/
structure AxGeo where
  nppr : Int                 -- `num_planes_per_scanner_ring`  = round(ring spacing / z voxel size)
  nppa : Int → Int          -- `num_planes_per_axial_pos[s]`  = round(axial sampling / z voxel size)
  delta2 : Int → Int        -- 2 · average ring difference of the segment
  minAx : Int → Int
  maxAx : Int → Int
  minZ : Int                 -- image `get_min_index()`
  maxZ : Int
  originZ : Int              -- `origin.z() / z voxel size` (the constructor insists it is an integer)

/-- `axial_pos_to_z_offset[s]` (times 4):
    `(max_index + min_index)/2 − origin.z/spacing − (nppa·(max_ax + min_ax) + nppr·delta)/2` -/
def AxGeo.zoff4 (g : AxGeo) (s : Int) : Int :=
  2 * (g.maxZ + g.minZ) - 4 * g.originZ - (2 * (g.nppa s * (g.maxAx s + g.minAx s)) + g.nppr * g.delta2 s)

def Sym.make (V : Int) (f : Flags) (g : AxGeo) : Sym :=
  { V := V, d90 := f.d90, d180 := f.d180, swapSeg := f.swapSeg, swapS := f.swapS, shiftZ := f.shiftZ,
    nppr := g.nppr, nppa := g.nppa, delta2 := g.delta2, zoff4 := g.zoff4 }

def iabs (x : Int) : Int := if x < 0 then -x else x

/-- `find_transform_z`: `floor(2·nppa[s]·a + nppr·delta[s] + 2·axial_pos_to_z_offset[s] + 0.5)`;
    in quarter planes the argument of `floor` is `(8·nppa·a + 2·nppr·delta2 + 2·zoff4 + 2)/4` -/
def Sym.transformZ (y : Sym) (s a : Int) : Int :=
  (8 * (y.nppa s * a) + 2 * (y.nppr * y.delta2 s) + 2 * y.zoff4 s + 2) / 4

/-- the view number left by `find_basic_view_segment_numbers` -/
def Sym.basicView (y : Sym) (view : Int) : Int :=
  let view90 := y.V / 2          -- `num_views >> 1`
  let view45 := view90 / 2
  let view135 := view90 + view45
  if y.d90 = true then
    if view ≥ view135 then y.V - view
    else if view ≥ view90 then view - view90
    else if view > view45 then view90 - view
    else view
  else if y.d180 = true then
    if view > view90 then y.V - view else view
  else view

/-- the segment number left by `find_basic_view_segment_numbers` -/
def Sym.basicSeg (y : Sym) (seg : Int) : Int := if y.swapSeg = true ∧ seg < 0 then -seg else seg

/-- `find_basic_view_segment_numbers`: new pair and the returned flag (`true` in every branch that changes the
    view, otherwise whether the segment was swapped) -/
def Sym.findBasicVS (y : Sym) (p : VS) : VS × Bool :=
  let view90 := y.V / 2
  let view45 := view90 / 2
  let view135 := view90 + view45
  let viewChanged : Bool :=
    if y.d90 = true then decide (p.view ≥ view135 ∨ p.view ≥ view90 ∨ p.view > view45)
    else if y.d180 = true then decide (p.view > view90)
    else false
  (⟨y.basicView p.view, y.basicSeg p.seg⟩, viewChanged || decide (y.swapSeg = true ∧ p.seg < 0))

/-- `find_basic_bin` (cylindrical branch): basic bin and the `change` flag -/
def Sym.findBasicBin (y : Sym) (b : Bin) : Bin × Bool :=
  let vs := y.findBasicVS ⟨b.view, b.seg⟩
  (⟨y.basicSeg b.seg, y.basicView b.view,
    if y.shiftZ = true ∧ b.ax ≠ 0 then 0 else b.ax,
    if y.swapS = true ∧ b.tang < 0 then -b.tang else b.tang,
    if y.swapS = true ∧ b.tang < 0 then -b.tof else b.tof⟩,
   vs.2 || decide (y.swapS = true ∧ b.tang < 0) || decide (y.shiftZ = true ∧ b.ax ≠ 0))

def Sym.basic (y : Sym) (b : Bin) : Bin := (y.findBasicBin b).1

/-- the three constructor arguments computed at the top of `find_sym_op_bin0` / `find_sym_op_general_bin` -/
def Sym.newOp (y : Sym) (k : Kind) (seg ax : Int) : SymOp :=
  let q := y.transformZ (iabs seg) (if y.shiftZ = true then 0 else ax)
  let axShift := if y.shiftZ = true then ax else 0
  let zShift := if y.shiftZ = true then y.nppa seg * ax else 0
  match k with
  | .trivial => SymOp.triv
  | .z_shift => ⟨.z_shift, 0, axShift, zShift, 0⟩
  | .swap_xmx_zq | .swap_xmy_yx_zq | .swap_xy_yx_zq | .swap_zq | .swap_xmx_ymy_zq | .swap_xy_ymx_zq
  | .swap_ymy_zq | .swap_xmy_ymx_zq => ⟨k, y.V, axShift, zShift, q⟩
  | _ => ⟨k, y.V, axShift, zShift, 0⟩

/-- `if (z_shift == 0) Trivial else z_shift` -/
def Sym.mkShift (y : Sym) (seg ax : Int) : SymOp :=
  if (if y.shiftZ = true then y.nppa seg * ax else 0) = 0 then SymOp.triv else y.newOp .z_shift seg ax

/-- `find_sym_op_bin0` (tangential position 0) -/
def Sym.symOpBin0 (y : Sym) (seg view ax : Int) : SymOp :=
  let view180 := y.V
  let view135 := view180.tdiv 4 * 3
  let view90 := view180.tdiv 2
  let view45 := view180.tdiv 4
  if y.d90 = true ∧ view > view90 ∧ view ≤ view135 then
    if y.swapSeg = false ∨ seg ≥ 0 then y.newOp .swap_xmy_yx seg ax else y.newOp .swap_xmy_yx_zq seg ax
  else if y.d90 = true ∧ view > view45 ∧ view ≤ view90 then
    if y.swapSeg = false ∨ seg ≥ 0 then y.newOp .swap_xy_yx_zq seg ax else y.newOp .swap_xy_yx seg ax
  else if y.d180 = true ∧ view > view90 then
    if y.swapSeg = false ∨ seg ≥ 0 then y.newOp .swap_xmx_zq seg ax else y.newOp .swap_xmx seg ax
  else
    if y.swapSeg = true ∧ seg < 0 then y.newOp .swap_zq seg ax else y.mkShift seg ax

/-- `find_sym_op_general_bin` (tangential position `s ≠ 0`) -/
def Sym.symOpGeneral (y : Sym) (s seg view ax : Int) : SymOp :=
  let view180 := y.V
  let view135 := view180.tdiv 4 * 3
  let view90 := view180.tdiv 2
  let view45 := view180.tdiv 4
  if y.d90 = true ∧ view > view90 ∧ view ≤ view135 then
    if y.swapSeg = false ∨ seg > 0 then
      if y.swapS = false ∨ s > 0 then y.newOp .swap_xmy_yx seg ax else y.newOp .swap_xy_ymx_zq seg ax
    else if seg < 0 then
      if y.swapS = false ∨ s > 0 then y.newOp .swap_xmy_yx_zq seg ax else y.newOp .swap_xy_ymx seg ax
    else
      if y.swapS = false ∨ s > 0 then y.newOp .swap_xmy_yx seg ax else y.newOp .swap_xy_ymx seg ax
  else if y.d90 = true ∧ view > view45 ∧ view ≤ view90 then
    if y.swapSeg = false ∨ seg > 0 then
      if y.swapS = false ∨ s > 0 then y.newOp .swap_xy_yx_zq seg ax else y.newOp .swap_xmy_ymx seg ax
    else if seg < 0 then
      if y.swapS = false ∨ s > 0 then y.newOp .swap_xy_yx seg ax else y.newOp .swap_xmy_ymx_zq seg ax
    else
      if y.swapS = false ∨ s > 0 then y.newOp .swap_xy_yx seg ax else y.newOp .swap_xmy_ymx seg ax
  else if y.d180 = true ∧ view > view90 then
    if y.swapSeg = false ∨ seg > 0 then
      if y.swapS = false ∨ s > 0 then y.newOp .swap_xmx_zq seg ax else y.newOp .swap_ymy seg ax
    else
      if y.swapS = false ∨ s > 0 then y.newOp .swap_xmx seg ax else y.newOp .swap_ymy_zq seg ax
  else
    if y.swapSeg = false ∨ seg > 0 then
      if y.swapS = true ∧ s < 0 then y.newOp .swap_xmx_ymy_zq seg ax else y.mkShift seg ax
    else if seg < 0 then
      if y.swapS = true ∧ s < 0 then y.newOp .swap_xmx_ymy seg ax else y.newOp .swap_zq seg ax
    else
      if y.swapS = true ∧ s < 0 then y.newOp .swap_xmx_ymy seg ax else y.mkShift seg ax

/-- `find_symmetry_operation_from_basic_bin`: the operation (chosen from the *original* coordinates);
    the bin argument is replaced by `basic b`. -/
def Sym.findSymOp (y : Sym) (b : Bin) : SymOp :=
  if b.tang = 0 then y.symOpBin0 b.seg b.view b.ax else y.symOpGeneral b.tang b.seg b.view b.ax

/-! ## rows -/

/-- a `ProjMatrixElemsForOneBin`: its bin and its elements (voxel, value) -/
structure Row (α : Type) where
  bin : Bin
  elems : List (Vox × α)

def SymOp.onElems {α : Type} (o : SymOp) (e : List (Vox × α)) : List (Vox × α) :=
  e.map fun p => (o.onVoxel p.1, p.2)

/-- `transform_proj_matrix_elems_for_one_bin` -/
def SymOp.onRow {α : Type} (o : SymOp) (r : Row α) : Row α := ⟨o.onBin r.bin, o.onElems r.elems⟩

/-- `coordinates_less`: lexicographic on (z, y, x) -/
def Vox.lt (a b : Vox) : Bool := a.z < b.z || (a.z == b.z && (a.y < b.y || (a.y == b.y && a.x < b.x)))

/-- the two-pointer loop of `ProjMatrixElemsForOneBin::merge` (both inputs already sorted):
    equal coordinates are added, smaller ones of the second list are inserted, the rest appended -/
def mergeSorted {α : Type} [Add α] : List (Vox × α) → List (Vox × α) → List (Vox × α)
  | l1, [] => l1
  | [], l2 => l2
  | (c1, v1) :: t1, (c2, v2) :: t2 =>
    if c2 = c1 then (c1, v1 + v2) :: mergeSorted t1 t2
    else if c2.lt c1 then (c2, v2) :: mergeSorted ((c1, v1) :: t1) t2
    else (c1, v1) :: mergeSorted t1 ((c2, v2) :: t2)
termination_by l1 l2 => l1.length + l2.length

/-! ## the cache -/

def timingPosBits : Nat := 20
def tangPosBits : Nat := 12
def axialPosBits : Nat := 28

def signBit (x : Int) : Nat := if x ≥ 0 then 0 else 1

/-- `ProjMatrixByBin::cache_key` -/
def cacheKey (b : Bin) : Nat :=
  (signBit b.ax <<< (timingPosBits + tangPosBits + axialPosBits + 2))
  ||| (b.ax.natAbs <<< (timingPosBits + tangPosBits + 2))
  ||| (signBit b.tang <<< (timingPosBits + tangPosBits + 1))
  ||| (b.tang.natAbs <<< (timingPosBits + 1))
  ||| (signBit b.tof <<< timingPosBits)
  ||| b.tof.natAbs

/-- the guard of `ProjMatrixByBin::set_up` (evaluated only when caching is enabled): maximal absolute
    tangential / axial (segment 0 only!) / timing positions must fit their bit fields -/
def keyFits (maxAbsAx0 maxAbsTang maxAbsTof : Nat) : Bool :=
  !(maxAbsAx0 ≥ 1 <<< axialPosBits || maxAbsTang ≥ 1 <<< tangPosBits || maxAbsTof ≥ 1 <<< timingPosBits)

/-- position of a row in `cache_collection[view][segment]` (an `unordered_map` keyed by `cache_key`) -/
structure CKey where
  view : Int
  seg : Int
  key : Nat
  deriving DecidableEq, Repr

def CKey.of (b : Bin) : CKey := ⟨b.view, b.seg, cacheKey b⟩

/-- requested parameters of a `ProjMatrixByBinUsingRayTracing` (the `set_*` functions) -/
structure Params where
  flags : Flags
  ntl : Nat                    -- `num_tangential_LORs`
  restrictFOV : Bool
  actualBoundaries : Bool
  deriving DecidableEq, Repr, Inhabited

/-- what lies outside the model: for a geometry `g : G` and parameters, the symmetries object the constructor
    builds, the ray tracer, and the bit-field guard.

    A geometry `g : G` stands for exactly what `ProjMatrixByBinUsingRayTracing::set_up` stores and compares:
    the projection data info, and voxel size, origin and index range of the image (`VoxelsOnCartesianGrid`) — the
    property's "data geometry and image grid".  Equality on `G` is the conjunction of the four comparisons
    of `set_up` (`*proj_data_info_sptr == …`, `voxel_size == …`, `origin == …`, `min_index/max_index == …`). -/
structure World (G α : Type) where
  symOf : G → Params → Sym
  compute : G → Params → Bin → Option (List (Vox × α))     -- `none`: `error()` inside the ray tracer
  fits : G → Bool

/-- state of the matrix object -/
structure PM (G α : Type) where
  cacheDisabled : Bool := false
  basicOnly : Bool := true
  params : Params
  alreadySetup : Bool := false
  active : Option (G × Params) := none       -- geometry and parameters of the last effective `set_up`
  cache : List (CKey × Row α) := []

inductive Err | notSetUp | compute | keyBits
  deriving Repr, DecidableEq

variable {G α : Type}

/-- `get_cached_proj_matrix_elems_for_one_bin` -/
def PM.lookup (s : PM G α) (b : Bin) : Option (Row α) :=
  if s.cacheDisabled then none
  else (s.cache.find? fun e => e.1 == CKey.of b).map (·.2)

/-- `cache_proj_matrix_elems_for_one_bin`; `unordered_map::insert` does not overwrite an existing key -/
def PM.store (s : PM G α) (r : Row α) : PM G α :=
  if s.cacheDisabled then s
  else if (s.cache.find? fun e => e.1 == CKey.of r.bin).isSome then s
  else { s with cache := s.cache ++ [(CKey.of r.bin, r)] }

/-- `calculate_proj_matrix_elems_for_one_bin` (+ TOF kernel) for the bin of the row -/
def PM.calc (w : World G α) (s : PM G α) (g : G) (p : Params) (b : Bin) : Except Err (Row α) :=
  if !s.alreadySetup then .error .notSetUp
  else match w.compute g p b with
    | none => .error .compute
    | some e => .ok ⟨b, e⟩

/-- `get_proj_matrix_elems_for_one_bin` -/
def PM.get (w : World G α) (s : PM G α) (b : Bin) : Except Err (PM G α × Row α) :=
  match s.active with
  | none => .error .notSetUp
  | some (g, p) =>
    let y := w.symOf g p
    if s.basicOnly then
      let op := y.findSymOp b
      let b0 := y.basic b
      match s.lookup b0 with
      | some r => .ok (s, op.onRow r)
      | none =>
        match s.calc w g p b0 with
        | .error e => .error e
        | .ok r => .ok (s.store r, op.onRow r)
    else
      match s.lookup b with
      | some r => .ok (s, r)
      | none =>
        let op := y.findSymOp b
        let b0 := y.basic b
        match s.lookup b0 with
        | some r => let r' := op.onRow r; .ok (s.store r', r')
        | none =>
          match s.calc w g p b0 with
          | .error e => .error e
          | .ok r => let r' := op.onRow r; .ok (s.store r', r')

/-- events on a matrix object -/
inductive Ev (G : Type)
  | get (b : Bin)
  | clearCache
  | enableCache (v : Bool)
  | storeOnlyBasic (v : Bool)
  | setParams (p : Params)          -- any sequence of `set_*` calls
  | setUp (g : G)

/-- `ProjMatrixByBinUsingRayTracing::set_up` followed (inside) by `ProjMatrixByBin::set_up`;
    the early return, the bit-field guard, `cache_collection.recycle()` / `clear_cache()`.
    (ProjMatrixByBinUsingRayTracing.cxx:249-263, after the repair "set_up is skipped only if the index range of the
    image is unchanged as well": the early `return` is taken iff the object is set up for the current parameters and
    projection data, voxel size, origin **and** index range all agree, i.e. iff the geometry is the same.) -/
def PM.setUp [DecidableEq G] (w : World G α) (s : PM G α) (g : G) : Except Err (PM G α) :=
  if s.alreadySetup && (match s.active with | some (g', _) => decide (g' = g) | none => false) then .ok s
  else if !s.cacheDisabled && !w.fits g then .error .keyBits
  else .ok { s with active := some (g, s.params), cache := [], alreadySetup := true }

/-- one event; `get` also yields the row -/
def PM.step [DecidableEq G] (w : World G α) (s : PM G α) : Ev G → Except Err (PM G α × Option (Row α))
  | .get b => (s.get w b).map fun (s', r) => (s', some r)
  | .clearCache => .ok ({ s with cache := [] }, none)
  | .enableCache v => .ok ({ s with cacheDisabled := !v }, none)
  | .storeOnlyBasic v => .ok ({ s with basicOnly := v }, none)
  | .setParams p => .ok ({ s with alreadySetup := s.alreadySetup && decide (s.params = p), params := p }, none)
  | .setUp g => (s.setUp w g).map fun s' => (s', none)

/-- run a history on a matrix object; it ends at the first `error()` (an exception leaves the object in no defined
    state).  For every successful `get` it records the bin, the configuration (geometry, parameters) that the last
    successful `set_up` call *asked for*, and the returned row. -/
def PM.run [DecidableEq G] (w : World G α) : PM G α → Option (G × Params) → List (Ev G) → List (Bin × Option (G × Params) × Row α)
  | _, _, [] => []
  | s, cfg, ev :: rest =>
    match s.step w ev with
    | .error _ => []
    | .ok (s', out) =>
      let cfg' := match ev with
        | .setUp g => some (g, s.params)
        | _ => cfg
      match ev, out with
      | .get b, some r => (b, cfg, r) :: PM.run w s' cfg' rest
      | _, _ => PM.run w s' cfg' rest

/-! ## `ProjMatrixByBinUsingInterpolation`

Same base class (`get_proj_matrix_elems_for_one_bin`, the cache, `cache_key`, `enable_cache`, `store_only_basic_bins_in_cache`,
`clear_cache` are those of `ProjMatrixByBin`), same symmetries class, another `calculate_proj_matrix_elems_for_one_bin`
(uninterpreted `compute` of another `World`), the five switches set through the parser — and another `set_up`. -/

/-- `ProjMatrixByBinUsingInterpolation::set_up` (src/recon_buildblock/ProjMatrixByBinUsingInterpolation.cxx:95-143): there is
    no `already_setup` short cut — every call runs `ProjMatrixByBin::set_up` (bit-field guard,
    `cache_collection.recycle()`) and builds a new symmetries object from the switches as they are now. -/
def PM.setUpInterp [DecidableEq G] (w : World G α) (s : PM G α) (g : G) : Except Err (PM G α) :=
  PM.setUp w { s with alreadySetup := false } g

/-- one event on a `ProjMatrixByBinUsingInterpolation` (`setParams`: the parser) -/
def PM.stepInterp [DecidableEq G] (w : World G α) (s : PM G α) : Ev G → Except Err (PM G α × Option (Row α))
  | .setUp g => (s.setUpInterp w g).map fun s' => (s', none)
  | ev => s.step w ev

/-- `PM.run` for a `ProjMatrixByBinUsingInterpolation` -/
def PM.runInterp [DecidableEq G] (w : World G α) : PM G α → Option (G × Params) → List (Ev G) → List (Bin × Option (G × Params) × Row α)
  | _, _, [] => []
  | s, cfg, ev :: rest =>
    match s.stepInterp w ev with
    | .error _ => []
    | .ok (s', out) =>
      let cfg' := match ev with
        | .setUp g => some (g, s.params)
        | _ => cfg
      match ev, out with
      | .get b, some r => (b, cfg, r) :: PM.runInterp w s' cfg' rest
      | _, _ => PM.runInterp w s' cfg' rest

/-- what the property says a row is: the basic bin's computed elements, moved by the symmetry operation -/
def spec (w : World G α) (g : G) (p : Params) (b : Bin) : Option (Row α) :=
  let y := w.symOf g p
  (w.compute g p (y.basic b)).map fun e => ⟨b, (y.findSymOp b).onElems e⟩

end StirVerif.C03
