/-
C03 — proofs about the symmetry bookkeeping: the operation found for a bin rebuilds the bin from its basic bin,
`find_basic_bin` is idempotent, basic bins get the trivial operation.
-/
import StirVerif.C03.Model
import Mathlib.Tactic.SplitIfs

namespace StirVerif.C03

/-- what the constructor guarantees about the effective switches (cylindrical branch), plus
    `num_planes_per_axial_pos ≠ 0` when z shifts are used (needed because `find_sym_op_*` tests `z_shift == 0`
    and not `axial_pos_num == 0`) -/
structure Sym.WF (y : Sym) : Prop where
  Vpos : 0 < y.V
  h90 : y.d90 = true → y.d180 = true ∧ y.V % 4 = 0
  h180 : y.d180 = true → y.V % 2 = 0
  nppa : y.shiftZ = true → ∀ s, y.nppa s ≠ 0

theorem tdiv_lit (V : Int) (h : 0 < V) (k : Int) : V.tdiv k = V / k :=
  Int.tdiv_eq_ediv_of_nonneg (Int.le_of_lt h)

/-- the switches that matter for the proofs, as a plain record of hypotheses -/
structure Sw (y : Sym) (d90 d180 : Bool) : Prop where
  e90 : y.d90 = d90
  e180 : y.d180 = d180

set_option hygiene false in
/-- common script: destructure, fix the switches, unfold, then walk the decision tree: at every node try to close
    the goal (or find the path contradictory) with `omega`, otherwise split the next `if` -/
macro "rb_tac" : tactic => `(tactic|
  (obtain ⟨V, d90, d180, sseg, ss, sz, nppr, nppa, delta2, zoff4⟩ := y
   obtain ⟨hV, h90, h180, hn⟩ := h
   obtain ⟨e90, e180⟩ := hs
   simp only at hV h90 h180 hn hv e90 e180
   try simp only at ht
   subst e90 e180
   have e3 : (3 * V).tdiv 2 = (3 * V) / 2 := Int.tdiv_eq_ediv_of_nonneg (by omega)
   have hz : sz = true → nppa seg * ax = 0 → ax = 0 := by
     intro h1 h2
     rcases Int.mul_eq_zero.mp h2 with h3 | h3
     · exact absurd h3 (hn h1 seg)
     · exact h3
   clear hn
   generalize hp : nppa seg * ax = p at *
   cases sseg <;> cases ss <;> cases sz <;>
     simp only [Sym.basic, Sym.findBasicBin, Sym.findBasicVS, Sym.basicView, Sym.basicSeg, Sym.symOpBin0, Sym.symOpGeneral,
       Sym.newOp, Sym.mkShift, SymOp.triv, tdiv_lit V hV, hp,
       true_and, false_and, and_true, and_false, true_or, false_or, or_true, or_false, if_true, if_false,
       Bool.false_eq_true, forall_const, false_implies, true_implies, reduceCtorEq] at * <;>
     repeat' (first
       | omega
       | split
       | (simp only [SymOp.onBin, tdiv_lit V hV, e3, Bin.mk.injEq, true_and, and_true] <;> omega)
       | simp only [SymOp.onBin, tdiv_lit V hV, e3])))

theorem rb0_FF (y : Sym) (h : y.WF) (hs : Sw y false false) (seg view ax tof : Int) (hv : 0 ≤ view ∧ view < y.V) :
    (y.symOpBin0 seg view ax).onBin (y.basic ⟨seg, view, ax, 0, tof⟩) = ⟨seg, view, ax, 0, tof⟩ := by rb_tac
theorem rb0_FT (y : Sym) (h : y.WF) (hs : Sw y false true) (seg view ax tof : Int) (hv : 0 ≤ view ∧ view < y.V) :
    (y.symOpBin0 seg view ax).onBin (y.basic ⟨seg, view, ax, 0, tof⟩) = ⟨seg, view, ax, 0, tof⟩ := by rb_tac
set_option maxHeartbeats 1000000 in
theorem rb0_TT (y : Sym) (h : y.WF) (hs : Sw y true true) (seg view ax tof : Int) (hv : 0 ≤ view ∧ view < y.V) :
    (y.symOpBin0 seg view ax).onBin (y.basic ⟨seg, view, ax, 0, tof⟩) = ⟨seg, view, ax, 0, tof⟩ := by rb_tac
end StirVerif.C03
