/-
C03 — proofs about the symmetry bookkeeping: the operation found for a bin rebuilds the bin from its basic bin,
`find_basic_bin` is idempotent, basic bins get the trivial operation.
-/
import StirVerif.C03.Model
import Mathlib.Tactic.SplitIfs

namespace StirVerif.C03

/-- what the constructor guarantees about the effective switches (cylindrical branch), plus
    `num_planes_per_axial_pos ≠ 0` when z shifts are used (needed because `find_sym_op_*` tests `z_shift == 0`
    and not `axial_pos_num == 0`) -/
structure Sym.WF (y : Sym) : Prop where
  Vpos : 0 < y.V
  h90 : y.d90 = true → y.d180 = true ∧ y.V % 4 = 0
  h180 : y.d180 = true → y.V % 2 = 0
  nppa : y.shiftZ = true → ∀ s, y.nppa s ≠ 0

theorem tdiv_lit (V : Int) (h : 0 < V) (k : Int) : V.tdiv k = V / k :=
  Int.tdiv_eq_ediv_of_nonneg (Int.le_of_lt h)

set_option maxHeartbeats 1000000 in
theorem symop_rebuilds_bin_aux (y : Sym) (h : y.WF) (b : Bin) (hv : 0 ≤ b.view ∧ b.view < y.V)
    (ht : b.tof = 0 ∨ y.swapS = false ∨ y.d180 = false) :
    (y.findSymOp b).onBin (y.basic b) = b := by
  obtain ⟨V, d90, d180, sseg, ss, sz, nppr, nppa, delta2, zoff4⟩ := y
  obtain ⟨seg, view, ax, tang, tof⟩ := b
  obtain ⟨hV, h90, h180, hn⟩ := h
  simp only at hV h90 h180 hn hv ht
  have e3 : (3 * V).tdiv 2 = (3 * V) / 2 := Int.tdiv_eq_ediv_of_nonneg (by omega)
  have hz : sz = true → nppa seg * ax = 0 → ax = 0 := by
    intro h1 h2
    rcases Int.mul_eq_zero.mp h2 with h3 | h3
    · exact absurd h3 (hn h1 seg)
    · exact h3
  clear hn
  generalize nppa seg * ax = p at *
  simp only [Sym.findSymOp, Sym.basic, Sym.findBasicBin, Sym.findBasicVS, Sym.symOpBin0, Sym.symOpGeneral,
    Sym.newOp, Sym.mkShift, SymOp.triv, tdiv_lit V hV]
  cases d90 <;> cases d180 <;> cases sseg <;> cases ss <;> cases sz <;>
    simp only [Bool.false_and, Bool.true_and, Bool.not_true, Bool.not_false, Bool.false_or, Bool.true_or, if_true, if_false,
      Bool.false_eq_true] at * <;>
    (split_ifs <;> simp only [SymOp.onBin, tdiv_lit V hV, e3, Bin.mk.injEq] <;> (try split_ifs) <;>
      simp only [Bin.mk.injEq, beq_iff_eq, bne_iff_ne, Bool.and_eq_true, decide_eq_true_eq, Bool.or_eq_true, ne_eq,
        Bool.not_eq_true', decide_eq_false_iff_not, true_and, and_true, forall_const, false_implies, true_implies] at * <;> omega)
end StirVerif.C03
