/-
C03 — every symmetry operation acts on image indices as a signed permutation of (y, x) and an affine
involution / translation of z: injective, keeps rows duplicate-free, keeps |x|,|y| bounded.
-/
import StirVerif.C03.Model

namespace StirVerif.C03
set_option linter.unusedSimpArgs false

theorem onVoxel_injective (o : SymOp) (c c' : Vox) (h : o.onVoxel c = o.onVoxel c') : c = c' := by
  obtain ⟨k, V, a, zs, q⟩ := o
  obtain ⟨z, y, x⟩ := c
  obtain ⟨z', y', x'⟩ := c'
  cases k <;> simp only [SymOp.onVoxel, Vox.mk.injEq] at h ⊢ <;> omega

/-- the operation is even a bijection of the index lattice: every voxel is hit -/
theorem onVoxel_surjective (o : SymOp) (c : Vox) : ∃ c', o.onVoxel c' = c := by
  obtain ⟨k, V, a, zs, q⟩ := o
  obtain ⟨z, y, x⟩ := c
  cases k
  case trivial => exact ⟨⟨z, y, x⟩, rfl⟩
  case z_shift => exact ⟨⟨z - zs, y, x⟩, by simp only [SymOp.onVoxel, Vox.mk.injEq, true_and, and_true, Int.neg_neg]; omega⟩
  case swap_xmx_zq => exact ⟨⟨q + zs - z, y, -x⟩, by simp only [SymOp.onVoxel, Vox.mk.injEq, true_and, and_true, Int.neg_neg]; omega⟩
  case swap_xmy_yx_zq => exact ⟨⟨q + zs - z, -x, y⟩, by simp only [SymOp.onVoxel, Vox.mk.injEq, true_and, and_true, Int.neg_neg]; omega⟩
  case swap_xy_yx_zq => exact ⟨⟨q + zs - z, x, y⟩, by simp only [SymOp.onVoxel, Vox.mk.injEq, true_and, and_true, Int.neg_neg]; omega⟩
  case swap_xmy_yx => exact ⟨⟨z - zs, -x, y⟩, by simp only [SymOp.onVoxel, Vox.mk.injEq, true_and, and_true, Int.neg_neg]; omega⟩
  case swap_xy_yx => exact ⟨⟨z - zs, x, y⟩, by simp only [SymOp.onVoxel, Vox.mk.injEq, true_and, and_true, Int.neg_neg]; omega⟩
  case swap_xmx => exact ⟨⟨z - zs, y, -x⟩, by simp only [SymOp.onVoxel, Vox.mk.injEq, true_and, and_true, Int.neg_neg]; omega⟩
  case swap_ymy => exact ⟨⟨z - zs, -y, x⟩, by simp only [SymOp.onVoxel, Vox.mk.injEq, true_and, and_true, Int.neg_neg]; omega⟩
  case swap_zq => exact ⟨⟨q + zs - z, y, x⟩, by simp only [SymOp.onVoxel, Vox.mk.injEq, true_and, and_true, Int.neg_neg]; omega⟩
  case swap_xmx_ymy_zq => exact ⟨⟨q + zs - z, -y, -x⟩, by simp only [SymOp.onVoxel, Vox.mk.injEq, true_and, and_true, Int.neg_neg]; omega⟩
  case swap_xy_ymx_zq => exact ⟨⟨q + zs - z, x, -y⟩, by simp only [SymOp.onVoxel, Vox.mk.injEq, true_and, and_true, Int.neg_neg]; omega⟩
  case swap_xy_ymx => exact ⟨⟨z - zs, x, -y⟩, by simp only [SymOp.onVoxel, Vox.mk.injEq, true_and, and_true, Int.neg_neg]; omega⟩
  case swap_xmy_ymx => exact ⟨⟨z - zs, -x, -y⟩, by simp only [SymOp.onVoxel, Vox.mk.injEq, true_and, and_true, Int.neg_neg]; omega⟩
  case swap_ymy_zq => exact ⟨⟨q + zs - z, -y, x⟩, by simp only [SymOp.onVoxel, Vox.mk.injEq, true_and, and_true, Int.neg_neg]; omega⟩
  case swap_xmx_ymy => exact ⟨⟨z - zs, -y, -x⟩, by simp only [SymOp.onVoxel, Vox.mk.injEq, true_and, and_true, Int.neg_neg]; omega⟩
  case swap_xmy_ymx_zq => exact ⟨⟨q + zs - z, -x, -y⟩, by simp only [SymOp.onVoxel, Vox.mk.injEq, true_and, and_true, Int.neg_neg]; omega⟩

/-- a duplicate-free row stays duplicate-free -/
theorem onElems_nodup {α : Type} (o : SymOp) (e : List (Vox × α)) (h : (e.map Prod.fst).Nodup) :
    ((o.onElems e).map Prod.fst).Nodup := by
  have : (o.onElems e).map Prod.fst = (e.map Prod.fst).map o.onVoxel := by
    simp only [SymOp.onElems, List.map_map]; rfl
  rw [this]
  exact List.Pairwise.map _ (fun a b hab hh => hab (onVoxel_injective o a b hh)) h

/-- values are carried along unchanged, in the same order -/
theorem onElems_values {α : Type} (o : SymOp) (e : List (Vox × α)) : (o.onElems e).map Prod.snd = e.map Prod.snd := by
  simp only [SymOp.onElems, List.map_map]; rfl

/-- transaxial part: the square `|x|,|y| ≤ n` (the symmetric part of the image grid, to which the ray tracer
    restricts itself) is mapped into itself -/
theorem onVoxel_in_square (o : SymOp) (c : Vox) (n : Int) (h : -n ≤ c.x ∧ c.x ≤ n ∧ -n ≤ c.y ∧ c.y ≤ n) :
    -n ≤ (o.onVoxel c).x ∧ (o.onVoxel c).x ≤ n ∧ -n ≤ (o.onVoxel c).y ∧ (o.onVoxel c).y ≤ n := by
  obtain ⟨k, V, a, zs, q⟩ := o
  obtain ⟨z, y, x⟩ := c
  cases k <;> simp only [SymOp.onVoxel] at h ⊢ <;> omega

/-- axial part: a z range `[lo, hi]` goes to `[lo + zShift, hi + zShift]` or to its mirror image
    `[q + zShift − hi, q + zShift − lo]` -/
theorem onVoxel_z (o : SymOp) (c : Vox) :
    (o.onVoxel c).z = c.z ∨ (o.onVoxel c).z = c.z + o.zShift ∨ (o.onVoxel c).z = o.q - c.z + o.zShift := by
  obtain ⟨k, V, a, zs, q⟩ := o
  obtain ⟨z, y, x⟩ := c
  cases k <;> simp only [SymOp.onVoxel, or_true, true_or, Int.add_zero] <;> omega

end StirVerif.C03
