/-
C03 — the constructor's effective switches satisfy `Sym.WF`; a new matrix object; the concrete worlds used by the
negative witness and the non-vacuity examples of `Props.lean`; the axial slab of a row.
-/
import StirVerif.C03.ProofsCache

namespace StirVerif.C03

/-- `Flags.effective` with the two divisibility tests as Boolean inputs (same text) -/
def effB (f : Flags) (m4 m2 squareVoxels phiOffsetZero tof originXYZero : Bool) : Flags :=
  let d90 := f.d90
  let d180 := f.d90 || f.d180
  let d90 := if !squareVoxels then false else d90
  let d90 := if m4 then false else d90
  let d180 := if m2 then false else d180
  let (d90, d180) := if !phiOffsetZero && (d90 || d180) then (false, false) else (d90, d180)
  let (d90, d180) := if tof then (false, false) else (d90, d180)
  let swapSeg := if tof then false else f.swapSeg
  let swapS := if tof then false else f.swapS
  if !originXYZero && (d90 || d180 || swapSeg || swapS) then
    { d90 := false, d180 := false, swapSeg := false, swapS := false, shiftZ := f.shiftZ }
  else { d90 := d90, d180 := d180, swapSeg := swapSeg, swapS := swapS, shiftZ := f.shiftZ }

theorem effB_spec : ∀ a b c d e m4 m2 sq phi0 tof xy0 : Bool, (m4 = false → m2 = false) →
    ((effB ⟨a, b, c, d, e⟩ m4 m2 sq phi0 tof xy0).d90 = true →
      (effB ⟨a, b, c, d, e⟩ m4 m2 sq phi0 tof xy0).d180 = true ∧ m4 = false) ∧
    ((effB ⟨a, b, c, d, e⟩ m4 m2 sq phi0 tof xy0).d180 = true → m2 = false) := by decide

theorem effective_WF (V : Int) (hV : 0 < V) (f : Flags) (sq phi0 tof xy0 : Bool) (g : AxGeo)
    (hn : ∀ s, g.nppa s ≠ 0) : (Sym.make V (f.effective V sq phi0 tof xy0) g).WF := by
  obtain ⟨a, b, c, d, e⟩ := f
  have h4 : V.tmod 4 = V % 4 := Int.tmod_eq_emod_of_nonneg (by omega)
  have h2 : V.tmod 2 = V % 2 := Int.tmod_eq_emod_of_nonneg (by omega)
  have he : Flags.effective ⟨a, b, c, d, e⟩ V sq phi0 tof xy0 = effB ⟨a, b, c, d, e⟩ (V.tmod 4 != 0) (V.tmod 2 != 0) sq phi0 tof xy0 := rfl
  have hm : (V.tmod 4 != 0) = false → (V.tmod 2 != 0) = false := by
    rw [h4, h2]; intro h
    have h' : V % 4 = 0 := by simpa using h
    have : V % 2 = 0 := by omega
    simp [this]
  have hs := effB_spec a b c d e (V.tmod 4 != 0) (V.tmod 2 != 0) sq phi0 tof xy0 hm
  have m4 : (V.tmod 4 != 0) = false → V % 4 = 0 := by
    intro h; rw [h4] at h; simpa using h
  have m2 : (V.tmod 2 != 0) = false → V % 2 = 0 := by
    intro h; rw [h2] at h; simpa using h
  refine ⟨hV, ?_, ?_, fun _ s => hn s⟩
  · intro h
    simp only [Sym.make, he] at h ⊢
    exact ⟨(hs.1 h).1, m4 (hs.1 h).2⟩
  · intro h
    simp only [Sym.make, he] at h
    exact m2 (hs.2 h)

/-- a new matrix object (`set_defaults`: caching on, basic bins only, not set up) -/
def PM.fresh (p : Params) : PM G α := { params := p }

def ySimple : Sym :=
  { V := 8, d90 := false, d180 := false, swapSeg := false, swapS := false, shiftZ := false,
    nppr := 2, nppa := fun _ => 1, delta2 := fun _ => 0, zoff4 := fun _ => 0 }

def pDefault : Params := { flags := ⟨true, true, true, true, true⟩, ntl := 1, restrictFOV := true, actualBoundaries := false }

theorem ySimple_WF : ySimple.WF :=
  ⟨by decide, fun h => absurd h (by decide), fun h => absurd h (by decide), fun h => absurd h (by decide)⟩

/-! ### `set_up` again for an image that differs in its index range only (the case repaired in `set_up`) -/

/-- two geometries (`false`: small image, `true`: large image) with the same projection data, voxel size and origin;
    the ray tracer gives the value 0 resp. 1 to its single voxel -/
def wRange : World Bool Nat :=
  { symOf := fun _ _ => ySimple
    compute := fun g _ _ => some [(⟨0, 0, 0⟩, if g then 1 else 0)]
    fits := fun _ => true }

def evsRange : List (Ev Bool) := [.setUp false, .get ⟨0, 0, 0, 0, 0⟩, .setUp true, .get ⟨0, 0, 0, 0, 0⟩, .setUp true, .get ⟨0, 0, 0, 0, 0⟩]

/-! ### the world of the negative witness "voxel outside the image in z" -/

/-- axial geometry of a 3-ring scanner, span 1, with the standard image: 5 planes `0..4` of half the ring spacing -/
def endGeo : AxGeo :=
  { nppr := 2, nppa := fun _ => 2, delta2 := fun s => 2 * s, minAx := fun _ => 0,
    maxAx := fun s => 2 - iabs s, minZ := 0, maxZ := 4, originZ := 0 }

/-- … with 8 views and only `shift_z` switched on -/
def yEnd : Sym := Sym.make 8 ⟨false, false, false, false, true⟩ endGeo

/-- the ray tracer's answer for the direct LORs of ring 0 at view 0 as observed on the real code
    (`add_adjacent_z`: the plane of the ring with weight 2, the two neighbouring planes with weight 1 — in units
    of a quarter), one voxel per plane kept -/
def wEnd : World Unit Nat :=
  { symOf := fun _ _ => yEnd
    compute := fun _ _ b => some [(⟨b.ax * 2 - 1, 0, 0⟩, 1), (⟨b.ax * 2, 0, 0⟩, 2), (⟨b.ax * 2 + 1, 0, 0⟩, 1)]
    fits := fun _ => true }

def pShiftZ : Params := { flags := ⟨false, false, false, false, true⟩, ntl := 1, restrictFOV := true, actualBoundaries := false }

/-- "the voxel lies in a plane of the image" -/
def AxGeo.hasPlane (g : AxGeo) (c : Vox) : Bool := decide (g.minZ ≤ c.z ∧ c.z ≤ g.maxZ)

/-! ### a world for the non-vacuity examples: two really different geometries, all switches on -/

def ySample : Sym :=
  { V := 8, d90 := true, d180 := true, swapSeg := true, swapS := true, shiftZ := true,
    nppr := 2, nppa := fun _ => 1, delta2 := fun s => 2 * s, zoff4 := fun s => 8 - 2 * s }

theorem ySample_WF : ySample.WF :=
  ⟨by decide, fun _ => ⟨rfl, by decide⟩, fun _ => by decide, fun _ _ => by simp [ySample]⟩

def wGood : World Bool Nat :=
  { symOf := fun _ _ => ySample
    compute := fun g _ b => some [(⟨b.ax, b.view, b.tang⟩, if g then 1 else 0), (⟨b.ax + 1, b.view, b.tang⟩, 2)]
    fits := fun _ => true }

def evsGood : List (Ev Bool) :=
  [.setUp false, .get ⟨-1, 6, 2, -1, 0⟩, .storeOnlyBasic false, .get ⟨-1, 6, 2, -1, 0⟩, .get ⟨1, 2, 0, 1, 0⟩,
   .clearCache, .setUp true, .get ⟨-1, 6, 2, -1, 0⟩, .enableCache false, .get ⟨1, 5, 1, -1, 0⟩]

def sampleGeo : AxGeo :=
  { nppr := 2, nppa := fun _ => 1, delta2 := fun s => 2 * s, minAx := fun _ => 0,
    maxAx := fun s => 2 - iabs s, minZ := 0, maxZ := 4, originZ := 0 }

end StirVerif.C03
