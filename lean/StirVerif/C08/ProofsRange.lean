/-
C08 — the objective function restricted to fewer segments / TOF bins than the data have (`Problem.processed`,
`Problem.restrict`): every quantity of the restricted objective function is that quantity of ONE system matrix, the rows of the
bins inside the range.
-/
import StirVerif.C08.Model

namespace StirVerif.C08

theorem restrict_processed (q : Problem) (r : Row) : q.restrict.processed r = true := by
  simp [Problem.restrict, Problem.processed, inSymRange]

theorem restrict_tofRestricted (q : Problem) : q.restrict.tofRestricted = false := by
  simp [Problem.restrict, Problem.tofRestricted]

theorem restrict_rangeOk (q : Problem) : q.restrict.rangeOk = true := by
  simp [Problem.restrict, Problem.rangeOk]

/-- a fold over the filtered array is the fold that skips the other elements -/
theorem foldl_filter_skip {α β : Type} (p : α → Bool) (f : β → α → β) (xs : Array α) (init : β) :
    (xs.filter p).foldl f init = xs.foldl (fun acc r => if !p r then acc else f acc r) init := by
  rw [Array.foldl_filter]
  congr 1
  funext acc r
  cases p r <;> simp

theorem viewgramMax_restrict (q : Problem) (f : Row → Rat) : viewgramMax q.restrict f = viewgramMax q f := by
  unfold viewgramMax
  simp only [restrict_processed]
  show (q.rows.filter q.processed).foldl _ _ = _
  rw [foldl_filter_skip]
  rfl

theorem nvox_restrict (q : Problem) : q.restrict.nvox = q.nvox := rfl

theorem gradLik_restrict (q : Problem) (S : Int) (x : Array Rat) : q.restrict.gradLik S x = q.gradLik S x := by
  unfold Problem.gradLik
  simp only [viewgramMax_restrict, restrict_processed, nvox_restrict]
  show (q.rows.filter q.processed).foldl _ _ = _
  rw [foldl_filter_skip]
  congr 1
  funext out r
  cases q.processed r <;> simp

theorem hessOnes_restrict (q : Problem) : q.restrict.hessOnes = q.hessOnes := by
  unfold Problem.hessOnes
  simp only [viewgramMax_restrict, restrict_processed, nvox_restrict]
  show (q.rows.filter q.processed).foldl _ _ = _
  rw [foldl_filter_skip]
  congr 1
  funext out r
  cases q.processed r <;> simp [Problem.restrict]

theorem sensitivity_restrict (q : Problem) : q.restrict.sensitivity = q.sensitivity := by
  unfold Problem.sensitivity
  simp only [restrict_tofRestricted, restrict_processed, nvox_restrict]
  by_cases h : q.tofRestricted = true
  · simp only [h, if_true]
    show (Option.getD (Problem.restrict q).sensRows (q.rows.filter q.processed)).foldl _ _ = _
    have : (Problem.restrict q).sensRows = none := by simp [Problem.restrict, h]
    rw [this]
    simp only [Option.getD_none]
    rw [foldl_filter_skip]
    congr 1
    funext out r
    cases q.processed r <;> simp [Problem.restrict]
  · have h' : q.tofRestricted = false := by simpa using h
    simp only [h']
    cases hs : q.sensRows with
    | none =>
      have : (Problem.restrict q).sensRows = none := by simp [Problem.restrict, h', hs]
      rw [this]
      simp only [Option.getD_none, Bool.false_eq_true, if_false]
      show (q.rows.filter q.processed).foldl _ _ = _
      rw [foldl_filter_skip]
      congr 1
      funext out r
      cases q.processed r <;> simp [Problem.restrict]
    | some a =>
      have : (Problem.restrict q).sensRows = some (a.filter q.processed) := by simp [Problem.restrict, h', hs]
      rw [this]
      simp only [Option.getD_some, Bool.false_eq_true, if_false]
      rw [foldl_filter_skip]
      congr 1
      funext out r
      cases q.processed r <;> simp [Problem.restrict]

theorem viewgramsPerSubset_restrict (q : Problem) : q.restrict.viewgramsPerSubset = q.viewgramsPerSubset := by
  unfold Problem.viewgramsPerSubset
  simp only [restrict_processed]
  have : (Problem.restrict q).rows.foldl
        (fun m r => if (!true) = true then m else m.modify r.vg (fun _ => some r.subset))
        (Array.replicate (Problem.restrict q).numViewgrams none)
      = q.rows.foldl (fun m r => if (!q.processed r) = true then m else m.modify r.vg (fun _ => some r.subset))
        (Array.replicate q.numViewgrams none) := by
    show (q.rows.filter q.processed).foldl _ _ = _
    rw [foldl_filter_skip]
    rfl
  rw [this]
  rfl

theorem balanced_restrict (q : Problem) : q.restrict.balanced = q.balanced := by
  unfold Problem.balanced
  rw [viewgramsPerSubset_restrict]

end StirVerif.C08
