/-
C08 — executable model of `stir::OSSPSReconstruction` (relaxed ordered-subsets separable paraboloidal surrogates).

Sources (pinned tree), transcribed line by line:
* `threshold_upper_lower`, `threshold_lower`, `threshold_min_to_small_positive_value`
  — src/include/stir/thresholding.h:44, :73, :100;  `min_positive_element` — src/include/stir/min_positive_element.h:43;
* `OSSPSReconstruction::precompute_denominator_of_conditioner_without_penalty` — src/iterative/OSSPS/OSSPSReconstruction.cxx:182;
  `OSSPSReconstruction::set_up` — :226;  `OSSPSReconstruction::update_estimate` — :282-406;
* `IterativeReconstruction::set_up` (range checks) — src/recon_buildblock/IterativeReconstruction.cxx:421,
  `::reconstruct(target)` (the loop) — :397, `::get_subset_num` (non-randomised branch) — :630;
* `GeneralisedObjectiveFunction::compute_sub_gradient` (likelihood sub-gradient minus prior gradient / num_subsets),
  `::prior_is_zero`, `::add_multiplication_with_approximate_Hessian_without_penalty` (sum over subsets)
  — src/recon_buildblock/GeneralisedObjectiveFunction.cxx:128, :104, :315;
* `PoissonLogLikelihoodWithLinearModelForMeanAndProjData::actual_add_multiplication_with_approximate_sub_Hessian_without_penalty`
  — src/recon_buildblock/PoissonLogLikelihoodWithLinearModelForMeanAndProjData.cxx:947;
  `RPC_process_related_viewgrams_gradient<false>` — same file :1402;
  `divide_and_truncate(Viewgram, Viewgram, 0, …)` — src/buildblock/recon_array_functions.cxx:172;
  `PoissonLogLikelihoodWithLinearModelForMean::fill_nonidentifiable_target_parameters` — PoissonLogLikelihoodWithLinearModelForMean.cxx:439;
* `QuadraticPrior::compute_gradient`, `::parabolic_surrogate_curvature` — src/recon_buildblock/QuadraticPrior.cxx:283, :458.

Numbers: every quantity is an exact rational (`Rat`); the float rounding of the implementation is not modelled (the
correspondence run compares with a derived forward error bound).  Images are `List Rat` in `begin_all()` order (z, y, x).
The objective function enters `OSSPSReconstruction` only through a handful of things (`Objective`); `Problem.toObjective` builds
them from an explicit system matrix (one row per bin, TOF bins included), the normalisation factor of every bin
(`BinNormalisationFromProjData::apply/undo` = multiply / divide by the factor), the `zero_seg0_end_planes` flag of every bin,
`use_subset_sensitivities` and, for TOF data without `use time-of-flight sensitivities`, the rows of the non-TOF matrix the
sensitivity is back projected with.  Further sources transcribed:
* `distributable.cxx: get_viewgrams` (:166: mult viewgrams = `undo(ones)`, `zero_end_sinograms` of data, additive term, mult),
  `RPC_process_related_viewgrams_gradient` (`- mult` instead of `- 1`), `RPC_process_related_viewgrams_sensitivity_computation`;
* `PoissonLogLikelihoodWithLinearModelForMeanAndProjData::actual_subsets_are_approximately_balanced` (:494) and the refusal of
  unbalanced subsets without subset sensitivities in `PoissonLogLikelihoodWithLinearModelForMean::set_up` (:275);
* `OSSPSReconstruction::set_up`, branch `precomputed denominator := <file>` (:261-272) with
  `DiscretisedDensity::actual_has_same_characteristics` (DiscretisedDensity.inl:71) and
  `DiscretisedDensityOnCartesianGrid::actual_has_same_characteristics` (DiscretisedDensityOnCartesianGrid.inl:73);
* `IterativeReconstruction::end_of_iteration_processing` (IterativeReconstruction.cxx:538: inter-iteration filter every
  `inter_iteration_filter_interval` sub-iterations, post filter after the last one — both AFTER the clamp of `update_estimate`);
  `ArrayFilter1DUsingConvolution::do_it` (zero boundary) for the 3-tap separable filters the harness uses.
* object re-use: `setUpObject` / `runObject` / `runHistory` — `OSSPSReconstruction::set_up` called again on an object that was
  run before (l.251-272: every branch replaces `precomputed_denominator_ptr`), followed by `reconstruct(target)`;
* `OSSPSReconstruction::set_defaults` (`Params.default`) is also what a parameter file that does not mention the OSSPS keys
  leaves (`initialise` = `set_defaults` + `parse`).
* segment / TOF range of the objective function: `max_segment_num_to_process`, `max_timing_pos_num_to_process`
  (`Problem.maxSegToProcess`, `.maxTofToProcess`; `none` = -1 = all of the data) as
  `PoissonLogLikelihoodWithLinearModelForMeanAndProjData::set_up_before_sensitivity` (:600-623: a range larger than the data's is
  an `error()`; :676-682: TOF data, no TOF sensitivities, restricted TOF range → TOF sensitivities after all) and every loop over
  `-max…to_process … +max…to_process` have it: `actual_subsets_are_approximately_balanced` (:513), `add_subset_sensitivity` (:922-930),
  `actual_compute_subset_gradient_without_penalty` (:761-769), `actual_add_multiplication_with_approximate_sub_Hessian_without_penalty`
  (:1025-1028) — `Problem.processed`;
* a `PriorWithParabolicSurrogate` other than the quadratic one (`LogcoshPrior`): only what `OSSPSReconstruction` asks of it
  (`prior_is_zero`, `parabolic_surrogate_curvature_depends_on_argument`); its gradient and curvature are data (`Problem.opaquePrior`).
Not modelled: the random permutation of `randomise_subset_order` (the subset used is data; that every full iteration uses a
permutation is C06's and the harness oracle's), `write_update_image`, 32-bit overflow.
Core Lean only.
-/
namespace StirVerif.C08

/-- an image (or any `TargetT`) flattened in `begin_all()` order -/
abbrev Img := List Rat

/-! ## thresholding.h -/

/-- `threshold_upper_lower(begin,end,new_min,new_max)`, one element (thresholding.h:44):
    `if (*iter > new_max) *iter = new_max; else if (new_min > *iter) *iter = new_min;` -/
def thresholdUpperLower (newMin newMax x : Rat) : Rat :=
  if x > newMax then newMax else if newMin > x then newMin else x

/-- `threshold_lower`, one element (thresholding.h:73) -/
def thresholdLower (newMin x : Rat) : Rat := if newMin > x then newMin else x

/-- one step of the scan of `min_positive_element` (min_positive_element.h:43): skip values `<= 0`, keep the first
    positive one, replace it by a later one only if that is positive and strictly smaller -/
def minPosStep (acc : Option Rat) (x : Rat) : Option Rat :=
  if x ≤ 0 then acc
  else match acc with
    | none => some x
    | some m => if x < m then some x else some m

/-- the value `*min_positive_element(begin,end)`, `none` when it returns `end` -/
def minPositive (l : Img) : Option Rat := l.foldl minPosStep none

/-- `threshold_min_to_small_positive_value(begin,end,small_number)` (thresholding.h:100) -/
def thresholdMinToSmallPositiveValue (l : Img) (small : Rat) : Img :=
  match minPositive l with
  | some m => l.map (thresholdLower (m * small))
  | none => l.map (fun _ => small)

/-- the literal `10.E-6F` used twice in OSSPSReconstruction.cxx (l.249, l.345): the float nearest to 10⁻⁵ -/
def smallNumber : Rat := 2748779 / 274877906944

/-! ## relaxation and subset schedule -/

/-- OSSPSReconstruction.cxx:372-374
    `relaxation_parameter / (1 + relaxation_gamma * ((subiteration_num - 1) / num_subsets))` — `int / int` of the 1-based
    `subiteration_num` minus one: the 0-based number of the full iteration the sub-iteration belongs to
    (repaired code, fix C08-1; before the fix the code divided `subiteration_num` itself). -/
def relaxation (alpha gamma : Rat) (k numSubsets : Int) : Rat :=
  alpha / (1 + gamma * (((k - 1).tdiv numSubsets : Int) : Rat))

/-- `IterativeReconstruction::get_subset_num`, `randomise_subset_order == false` (IterativeReconstruction.cxx:638) -/
def subsetNum (k startSubset numSubsets : Int) : Int := (k + startSubset - 1).tmod numSubsets

/-! ## the reconstruction object -/

/-- the parameters of `OSSPSReconstruction` / `IterativeReconstruction` that matter -/
structure Params where
  numSubsets : Int
  startSubset : Int
  numSubiterations : Int
  alpha : Rat            -- relaxation_parameter
  gamma : Rat            -- relaxation_gamma
  upperBound : Rat       -- static_cast<float>(upper_bound)
  enforceInitialPositivity : Bool
  /-- `precomputed denominator := 1` (the file name "1": denominator of ones instead of the Hessian on ones) -/
  denominatorOnes : Bool := false
  deriving Repr, Inhabited

/-- `OSSPSReconstruction::set_defaults` (l.60-75) on top of `IterativeReconstruction::set_defaults`:
    one subset, start subset 0, one sub-iteration, relaxation 1, gamma `0.1F`, upper bound `FLT_MAX`,
    `enforce_initial_positivity = 0`, denominator computed -/
def Params.default : Params :=
  { numSubsets := 1, startSubset := 0, numSubiterations := 1, alpha := 1,
    gamma := 13421773 / 134217728,                                  -- 0.1F
    upperBound := 340282346638528859811704183484516925440,          -- NumericInfo<float>().max_value()
    enforceInitialPositivity := false, denominatorOnes := false }

/-- what `OSSPSReconstruction` uses of its objective function -/
structure Objective where
  /-- `compute_sub_gradient(·, current_estimate, subset_num)`: penalised -/
  grad : Int → Img → Img
  /-- `add_multiplication_with_approximate_Hessian_without_penalty(0, ones)` -/
  hessOnes : Img
  /-- `prior_is_zero()` -/
  priorIsZero : Bool
  /-- the prior is a `PriorWithParabolicSurrogate` (or there is none) -/
  priorParabolic : Bool
  /-- `parabolic_surrogate_curvature(·, current_estimate)` -/
  curv : Img → Img
  /-- `parabolic_surrogate_curvature_depends_on_argument()` -/
  curvDepends : Bool
  /-- `fill_nonidentifiable_target_parameters(·, 0)` -/
  fillNonIdent : Img → Img
  /-- `objective_function_sptr->set_up(target)` succeeds (IterativeReconstruction.cxx:485); for the Poisson log-likelihood:
      the subsets are balanced or subset sensitivities are used -/
  setUpOk : Bool := true

/-- the mutable state: the image estimate, `*precomputed_denominator_ptr`, `subiteration_num` -/
structure State where
  image : Img
  denom : Img
  k : Int
  deriving Repr, Inhabited, DecidableEq

/-- `precompute_denominator_of_conditioner_without_penalty` (l.182): Hessian applied to ones, sign flipped -/
def precomputeDenominator (obj : Objective) : Img := obj.hessOnes.map (fun a => -a)

/-- `OSSPSReconstruction::set_up` on top of `IterativeReconstruction::set_up` (`precomputed denominator` not given):
    `none` = `Succeeded::no` / `error()`.  Returns the (possibly modified) target image and the denominator. -/
def setUp (p : Params) (obj : Objective) (start : Int) (target : Img) : Option (Img × Img) :=
  if p.numSubsets < 1 then none
  else if p.numSubiterations < 1 then none
  else if p.startSubset < 0 || p.startSubset ≥ p.numSubsets then none
  else if start < 1 then none
  else if !obj.setUpOk then none
  else if p.alpha ≤ 0 then none
  else if p.gamma < 0 then none
  else if !obj.priorParabolic then none
  else
    let target' := if p.enforceInitialPositivity then thresholdMinToSmallPositiveValue target smallNumber else target
    -- l.251-260
    some (target', if p.denominatorOnes then target.map (fun _ => 1) else precomputeDenominator obj)

/-- `recompute_penalty_term_in_denominator` (l.294) -/
def recomputePenalty (obj : Objective) : Bool := !obj.priorIsZero && obj.curvDepends

/-- the denominator image `work_image` of l.325-345 -/
def workDenominator (obj : Objective) (x denom : Img) : Img :=
  let work := if !obj.priorIsZero then List.zipWith (fun c d => c * 2 + d) (obj.curv x) denom else denom
  thresholdMinToSmallPositiveValue work smallNumber

/-- l.285-289: at the start of EVERY sub-iteration the non-identifiable voxels are set to 0
    (repaired code, fix C08-2; before the fix only at the first sub-iteration of a run) -/
def currentImage (obj : Objective) (image : Img) : Img := obj.fillNonIdent image

/-- the image the numerator is divided by (l.323-369): freshly computed when the penalty term has to be recomputed or at
    the first sub-iteration of a run, otherwise `*precomputed_denominator_ptr` -/
def denomUsed (obj : Objective) (first : Bool) (x denom : Img) : Img :=
  if recomputePenalty obj || first then workDenominator obj x denom else denom

/-- `*precomputed_denominator_ptr` after the sub-iteration: l.350-354 "store for future use" -/
def denomStored (obj : Objective) (first : Bool) (x denom : Img) : Img :=
  if recomputePenalty obj || first then
    (if !recomputePenalty obj then workDenominator obj x denom else denom)
  else denom

/-- the additive update image (`*numerator_ptr` at l.394):
    l.312 sub-gradient of the scheduled subset, l.314 `* num_subsets`, l.357/364 `/ denominator`,
    l.372-380 `* relaxation_parameter * alpha` with `alpha = 1.F` -/
def additiveUpdate (p : Params) (obj : Objective) (k : Int) (x D : Img) : Img :=
  let subset := subsetNum k p.startSubset p.numSubsets
  let numerator := (obj.grad subset x).map (fun g => g * (p.numSubsets : Rat))
  let numerator := List.zipWith (fun n d => n / d) numerator D
  let zeta := relaxation p.alpha p.gamma k p.numSubsets
  numerator.map (fun v => v * zeta * 1)

/-- `OSSPSReconstruction::update_estimate` (l.282-406); `start` is `start_subiteration_num`.  `k` is left unchanged.
    l.394 `current_image_estimate += *numerator_ptr`, l.405 `threshold_upper_lower(…, 0.F, static_cast<float>(upper_bound))`. -/
def updateEstimate (p : Params) (obj : Objective) (start : Int) (s : State) : State :=
  let first := s.k == start
  let x := currentImage obj s.image
  let D := denomUsed obj first x s.denom
  { image := (List.zipWith (fun a b => a + b) x (additiveUpdate p obj s.k x D)).map (thresholdUpperLower 0 p.upperBound),
    denom := denomStored obj first x s.denom,
    k := s.k }

/-- one turn of the loop of `IterativeReconstruction::reconstruct(target)` (no filters): update, `subiteration_num++` -/
def step (p : Params) (obj : Objective) (start : Int) (s : State) : State :=
  let s' := updateEstimate p obj start s
  { s' with k := s'.k + 1 }

/-- `n` turns of the loop -/
def loop (p : Params) (obj : Objective) (start : Int) : Nat → State → State
  | 0, s => s
  | n + 1, s => loop p obj start n (step p obj start s)

/-- `IterativeReconstruction::reconstruct(target)`:
    `for (subiteration_num = start; subiteration_num <= num_subiterations; ++subiteration_num)` -/
def reconstruct (p : Params) (obj : Objective) (start : Int) (image denom : Img) : State :=
  loop p obj start (p.numSubiterations - start + 1).toNat ⟨image, denom, start⟩

/-- set_up followed by reconstruct(target): what a (re)started run does -/
def run (p : Params) (obj : Objective) (start : Int) (target : Img) : Option State :=
  match setUp p obj start target with
  | none => none
  | some (img, d) => some (reconstruct p obj start img d)

/-! ## `precomputed denominator := <file>` -/

/-- what `has_same_characteristics` looks at: origin (z,y,x), the regular index range (min, max per dimension), grid spacing -/
structure Chars where
  origin : List Rat
  range : List Int
  spacing : List Rat
  deriving Repr, Inhabited, DecidableEq

/-- `norm(a - b)²` of two coordinates -/
def normSq (a b : List Rat) : Rat := (List.zipWith (fun x y => (x - y) * (x - y)) a b).foldl (· + ·) 0

/-- the double `1.E-2` (DiscretisedDensity.inl:80) and the float `1.E-4F` (DiscretisedDensityOnCartesianGrid.inl:85) -/
def originTolerance : Rat := 5764607523034235 / 576460752303423488
def spacingTolerance : Rat := 13743895 / 137438953472

/-- `this->has_same_characteristics(other)` for two `VoxelsOnCartesianGrid<float>` (same type):
    `norm(other.origin - this.origin) > 1.E-2` → no; index ranges differ → no;
    `norm(other.spacing - this.spacing) > 1.E-4F * norm(this.spacing)` → no.  (Norms compared through their squares.) -/
def sameCharacteristics (this other : Chars) : Bool :=
  if normSq other.origin this.origin > originTolerance * originTolerance then false
  else if other.range != this.range then false
  else if normSq other.spacing this.spacing
            > spacingTolerance * spacingTolerance * normSq this.spacing (this.spacing.map fun _ => 0) then false
  else true

/-- the file named by `precomputed denominator`: `read_from_file` throws, or an image -/
inductive DenomFile where
  | unreadable
  | image (chars : Chars) (values : Img)
  deriving Repr, Inhabited

/-- `OSSPSReconstruction::set_up` with `precomputed denominator := <file>` (l.261-272): all the checks of `setUp`, then the file
    is read and must have the characteristics of the target image; nothing is computed, the file's values are the denominator. -/
def setUpFile (p : Params) (obj : Objective) (start : Int) (targetChars : Chars) (file : DenomFile) (target : Img) :
    Option (Img × Img) :=
  match setUp p obj start target with
  | none => none
  | some (target', _) =>
    match file with
    | .unreadable => none
    | .image ch values => if sameCharacteristics ch targetChars then some (target', values) else none

/-! ## one reconstruction object, several runs -/

/-- `OSSPSReconstruction::set_up` (l.226-274) as a method of an OBJECT that may have been set up and run before:
    `old` is `*precomputed_denominator_ptr` as the previous run left it (`none`: null pointer, a fresh object) — after a run
    with a prior that is the data part PLUS twice the prior's surrogate curvature (`denomStored`).
    `file = none`: `precomputed denominator` is "" or "1" (`Params.denominatorOnes`); `some (characteristics of the target, file)`:
    a file name.  Every branch of l.251-272 REPLACES the pointer (`reset(target->get_empty_copy())` + recomputation / fill with 1 /
    `read_from_file`): nothing of `old` survives a successful `set_up`, whatever the data, the prior or the parameters of the
    earlier run were.  (When `set_up` refuses, the object must not be run; in the file branch the pointer then already points to
    the mismatching image that was read.) -/
def setUpObject (p : Params) (obj : Objective) (start : Int) (file : Option (Chars × DenomFile)) (_old : Option Img)
    (target : Img) : Option (Img × Img) :=
  match file with
  | none => setUp p obj start target
  | some (targetChars, f) => setUpFile p obj start targetChars f target

/-- what the user configures before one `set_up(target)` + `reconstruct(target)` on the object: the parameters (number of
    subsets, relaxation, upper bound, …), the objective function (input data, additive term, normalisation, prior — they may all
    have been changed since the previous run), `start_subiteration_num`, `precomputed denominator`, the initial image -/
structure RunSpec where
  p : Params
  obj : Objective
  start : Int
  file : Option (Chars × DenomFile) := none
  target : Img

/-- `set_up(target)` followed by `reconstruct(target)` on an object whose stored denominator is `old` -/
def runObject (old : Option Img) (r : RunSpec) : Option State :=
  match setUpObject r.p r.obj r.start r.file old r.target with
  | none => none
  | some (img, d) => some (reconstruct r.p r.obj r.start img d)

/-- consecutive runs on ONE object: every run starts from the stored denominator the previous run left
    (`none` when one of the `set_up`s refuses) -/
def runHistory (old : Option Img) : List RunSpec → Option (List State)
  | [] => some []
  | r :: rs =>
    match runObject old r with
    | none => none
    | some s =>
      match runHistory (some s.denom) rs with
      | none => none
      | some ss => some (s :: ss)

/-! ## inter-iteration and post filter -/

/-- the image processors of `IterativeReconstruction` / `Reconstruction`: `inter_iteration_filter_ptr` with its interval,
    `post_filter_sptr` -/
structure Filters where
  interInterval : Int := 0
  inter : Option (Img → Img) := none
  post : Option (Img → Img) := none

/-- `if (inter_iteration_filter_interval > 0 && !is_null_ptr(inter_iteration_filter_ptr)
        && subiteration_num % inter_iteration_filter_interval == 0) inter_iteration_filter_ptr->apply(current_estimate)` -/
def applyInterFilter (f : Filters) (k : Int) (img : Img) : Img :=
  match f.inter with
  | some g => if f.interInterval > 0 && k.tmod f.interInterval == 0 then g img else img
  | none => img

/-- `if (subiteration_num == num_subiterations && !is_null_ptr(post_filter_sptr)) post_filter_sptr->apply(current_estimate)` -/
def applyPostFilter (f : Filters) (numSubiterations k : Int) (img : Img) : Img :=
  match f.post with
  | some g => if k == numSubiterations then g img else img
  | none => img

/-- `IterativeReconstruction::end_of_iteration_processing` (:538), the part that changes the image: inter-iteration filter,
    then post filter.  Nothing is clamped afterwards. -/
def endOfIteration (f : Filters) (numSubiterations k : Int) (img : Img) : Img :=
  applyPostFilter f numSubiterations k (applyInterFilter f k img)

/-- one turn of the loop of `reconstruct(target)` with filters: `update_estimate`, `end_of_iteration_processing`, `++` -/
def stepF (f : Filters) (p : Params) (obj : Objective) (start : Int) (s : State) : State :=
  let s' := updateEstimate p obj start s
  { s' with image := endOfIteration f p.numSubiterations s'.k s'.image, k := s'.k + 1 }

def loopF (f : Filters) (p : Params) (obj : Objective) (start : Int) : Nat → State → State
  | 0, s => s
  | n + 1, s => loopF f p obj start n (stepF f p obj start s)

/-- one pass of `ArrayFilter1DUsingConvolution::do_it` (zero boundary condition, ArrayFilter1DUsingConvolution.cxx:137) with
    the three taps `c[-1], c[0], c[1]` along an axis of `len` entries and stride `stride` of an image flattened in z,y,x order:
    `out[i] = Σ_j c[j]·in[i-j]` over the `i-j` inside the line -/
def conv3Axis (len stride : Nat) (cm c0 cp : Rat) (x : Img) : Img :=
  (List.range x.length).map fun j =>
    let pos := (j / stride) % len
    let prev := if 1 ≤ pos then x.getD (j - stride) 0 else 0
    let next := if pos + 1 < len then x.getD (j + stride) 0 else 0
    cp * prev + c0 * x.getD j 0 + cm * next

/-- `SeparableConvolutionImageFilter` with the same three taps in y and in x and the trivial kernel `{1}` in z, on an
    `nz × ny × nx` image -/
def sepConvYX (ny nx : Nat) (cm c0 cp : Rat) (x : Img) : Img :=
  conv3Axis nx 1 cm c0 cp (conv3Axis ny nx cm c0 cp x)

/-! ## a concrete objective function: Poisson log-likelihood with explicit system matrix + quadratic prior -/

/-- one bin: its viewgram (for the per-viewgram threshold of `divide_and_truncate`), its subset, measured counts, additive
    term, and its row of the system matrix as (voxel index, value) -/
structure Row where
  vg : Nat
  subset : Int
  y : Rat
  add : Rat
  elems : List (Nat × Rat)
  /-- the normalisation factor of the bin (`BinNormalisationFromProjData`: the value of the normalisation data; 1 = trivial) -/
  norm : Rat := 1
  /-- first or last axial position of segment 0 and `zero_seg0_end_planes` is set -/
  zeroed : Bool := false
  /-- segment number and TOF bin (`timing_pos_num`) of the bin -/
  seg : Int := 0
  tof : Int := 0
  deriving Repr, Inhabited

/-- the bin's value in the `mult_viewgrams` of `distributable.cxx: get_viewgrams`: ones, `normalisation->undo` (divide by the
    factor), end planes of segment 0 zeroed.  (Trivial normalisation and no zeroing: no mult viewgrams, `- 1`.) -/
def Row.mult (r : Row) : Rat := if r.zeroed then 0 else 1 / r.norm

/-- `QuadraticPrior` (+ the test double of the harness that makes the curvature image dependent) -/
structure Prior where
  beta : Rat                           -- penalisation_factor
  /-- index range of `weights` and the weights in `begin_all()` order -/
  wMinZ : Int
  wMaxZ : Int
  wMinY : Int
  wMaxY : Int
  wMinX : Int
  wMaxX : Int
  weights : Array Rat
  kappa : Option (Array Rat)
  /-- `parabolic_surrogate_curvature_depends_on_argument()`; when true the harness' subclass multiplies the
      curvature of voxel j by `1 + x_j²` -/
  depends : Bool
  deriving Repr, Inhabited

structure Problem where
  nz : Nat
  ny : Nat
  nx : Nat
  numSubsets : Int
  rows : Array Row
  numViewgrams : Nat
  prior : Option Prior
  /-- a prior object that is not a `PriorWithParabolicSurrogate` -/
  priorNotParabolic : Bool
  /-- `use_subset_sensitivities` -/
  useSubsetSens : Bool := true
  /-- TOF data without `use time-of-flight sensitivities`: the rows (subset, normalisation factor, zeroed, elements) of the
      non-TOF matrix of the cloned back projector the sensitivity is computed with; `none`: the data's own rows -/
  sensRows : Option (Array Row) := none
  /-- `max_segment_num_to_process` (setter / keyword `maximum absolute segment number to process`); `none`: -1, which `set_up`
      replaces by the data's maximum segment number: all rows -/
  maxSegToProcess : Option Int := none
  /-- `max_timing_pos_num_to_process` (setter only); `none`: -1 = all TOF bins of the data -/
  maxTofToProcess : Option Int := none
  /-- `proj_data_sptr->get_max_segment_num()`, `->get_max_tof_pos_num()` -/
  dataMaxSeg : Int := 0
  dataMaxTof : Int := 0
  /-- a prior object that is a `PriorWithParabolicSurrogate` but not the quadratic one (`LogcoshPrior`), with non-zero
      penalisation factor; the value is what its `parabolic_surrogate_curvature_depends_on_argument()` returns (`LogcoshPrior`:
      `false`).  Its gradient and curvature are not modelled: `Problem.grad` / `.curv` then give the likelihood part / zero and
      are not to be used; `OSSPSReconstruction` (`updateEstimate`) is modelled for it with the prior's answers as data. -/
  opaquePrior : Option Bool := none
  deriving Repr, Inhabited

/-- `-m <= a <= m`: the loops `for (segment_num = -max_segment_num_to_process; segment_num <= max_segment_num_to_process; …)` -/
def inSymRange (m : Option Int) (a : Int) : Bool :=
  match m with
  | none => true
  | some m => decide (-m ≤ a) && decide (a ≤ m)

/-- the bin belongs to the segment range AND the TOF range the objective function processes: every quantity of the objective
    function (sensitivity, sub-gradient, approximate Hessian, balancing of the subsets) runs over exactly these bins -/
def Problem.processed (q : Problem) (r : Row) : Bool :=
  inSymRange q.maxSegToProcess r.seg && inSymRange q.maxTofToProcess r.tof

/-- `set_up_before_sensitivity` (:606, :619): `error("max_segment_num_to_process (%d) is too large")`, same for TOF -/
def Problem.rangeOk (q : Problem) : Bool :=
  (match q.maxSegToProcess with | none => true | some m => decide (m ≤ q.dataMaxSeg)) &&
  (match q.maxTofToProcess with | none => true | some m => decide (m ≤ q.dataMaxTof))

/-- `max_timing_pos_num_to_process < proj_data_info_sptr->get_max_tof_pos_num()` (:677): then `use_tofsens` is switched on
    ("the non-TOF sensitivity is the sum over all TOF bins") -/
def Problem.tofRestricted (q : Problem) : Bool :=
  match q.maxTofToProcess with
  | none => false
  | some m => decide (m < q.dataMaxTof)

def Problem.nvox (q : Problem) : Nat := q.nz * q.ny * q.nx

/-- `SMALL_NUM` of recon_array_functions.cxx:44 (`0.000001F`): the float nearest to 10⁻⁶ -/
def SMALL_NUM : Rat := 8796093 / 8796093022208

/-- `divide_and_truncate` for one bin with `rim_truncation_sino = 0` (recon_array_functions.cxx:213-246):
    `small_value = max(numerator_viewgram.find_max() * SMALL_NUM, 0)` is passed in. -/
def divideAndTruncate (smallValue num den : Rat) : Rat :=
  if num ≤ smallValue then 0
  else if num > 10000 * den then 10000
  else num / den

def maxR (a b : Rat) : Rat := if a < b then b else a

/-- `ProjMatrixElemsForOneBin::forward_project`: Σ_j P_bj x_j -/
def Row.forward (r : Row) (x : Array Rat) : Rat :=
  r.elems.foldl (fun acc e => acc + e.2 * x.getD e.1 0) 0

/-- back projection of one bin value: out_j += P_bj v -/
def Row.backInto (r : Row) (v : Rat) (out : Array Rat) : Array Rat :=
  r.elems.foldl (fun o e => o.modify e.1 (· + e.2 * v)) out

/-- per-viewgram maxima of a per-bin quantity (`Viewgram::find_max`; every viewgram has at least one bin) -/
def viewgramMax (q : Problem) (f : Row → Rat) : Array (Option Rat) :=
  q.rows.foldl (fun m r =>
    -- (only viewgrams of the segment / TOF range to process are ever read)
    if !q.processed r then m else
    let v := f r
    m.modify r.vg (fun o => match o with | none => some v | some w => some (maxR w v))) (Array.replicate q.numViewgrams none)

def smallValueOf (m : Array (Option Rat)) (vg : Nat) (sn : Rat) : Rat :=
  match m.getD vg none with
  | some w => maxR (w * sn) 0
  | none => 0

/-- `actual_compute_subset_gradient_without_penalty(…, add_sensitivity = false)` via
    `RPC_process_related_viewgrams_gradient<false>`: for every bin of the subset (every TOF bin)
    `back_project( divide_and_truncate(y, forward_project(x) + additive) - mult )`, where `get_viewgrams` has set data,
    additive term and mult of a zeroed end plane to 0 (so the per-viewgram maximum is taken over the other bins) -/
def Problem.gradLik (q : Problem) (subset : Int) (x : Array Rat) : Array Rat :=
  let ymax := viewgramMax q (fun r => if r.zeroed then 0 else r.y)
  q.rows.foldl (fun out r =>
    if r.subset != subset || !q.processed r then out
    else
      let y := if r.zeroed then 0 else r.y
      let add := if r.zeroed then 0 else r.add
      let den := r.forward x + add
      let quot := divideAndTruncate (smallValueOf ymax r.vg SMALL_NUM) y den
      r.backInto (quot - r.mult) out) (Array.replicate q.nvox 0)

/-- `add_multiplication_with_approximate_Hessian_without_penalty(output = 0, input = ones)`: for every subset and every
    bin of it (every TOF bin) `output -= back_project( divide_and_truncate(forward_project(ones), y·n·n) )` — the data with the
    normalisation applied twice (l.1010, l.1014); with `zero_seg0_end_planes` the forward projection of the end planes of
    segment 0 is set to 0 before the division (repaired code, fix C08-3: before the fix the viewgrams were used as read and the
    end planes took part). -/
def Problem.hessOnes (q : Problem) : Array Rat :=
  let ones : Array Rat := Array.replicate q.nvox 1
  let fwd (r : Row) : Rat := if r.zeroed then 0 else r.forward ones
  let fmax := viewgramMax q fwd
  q.rows.foldl (fun out r =>
    if r.subset < 0 || r.subset ≥ q.numSubsets || !q.processed r then out
    else
      let quot := divideAndTruncate (smallValueOf fmax r.vg SMALL_NUM) (fwd r) (r.y * r.norm * r.norm)
      r.backInto (-quot) out) (Array.replicate q.nvox 0)

/-- the sensitivity image (`add_subset_sensitivity` for every subset, `RPC_process_related_viewgrams_sensitivity_computation`:
    back projection of the mult viewgrams): Σ_b P_bj mult_b over all bins of all subsets — of the data's own matrix, or of the
    non-TOF matrix when the data are TOF and `use time-of-flight sensitivities` is off.  With `use_subset_sensitivities` off
    the subset sensitivities are accumulated into one image right away: the same sum. -/
def Problem.sensitivity (q : Problem) : Array Rat :=
  -- a restricted TOF range switches `use_tofsens` on: the data's own (TOF) rows
  (if q.tofRestricted then q.rows else q.sensRows.getD q.rows).foldl
    (fun out r => if r.subset < 0 || r.subset ≥ q.numSubsets || !q.processed r then out else r.backInto r.mult out)
    (Array.replicate q.nvox 0)

/-- number of viewgrams (view, segment[, TOF bin]) in every subset.  (`actual_subsets_are_approximately_balanced` counts, per
    subset, the view/segments related to the basic ones of the subset; that these are the view/segments whose bins carry the
    subset's number is C06's subject.  With TOF every view/segment counts once per TOF bin in every subset alike.) -/
def Problem.viewgramsPerSubset (q : Problem) : Array Nat :=
  let vgSubset : Array (Option Int) :=
    q.rows.foldl (fun m r => if !q.processed r then m else m.modify r.vg (fun _ => some r.subset))
      (Array.replicate q.numViewgrams none)
  vgSubset.foldl (fun c o =>
    match o with
    | some s => if 0 ≤ s && s < q.numSubsets then c.modify s.toNat (· + 1) else c
    | none => c) (Array.replicate q.numSubsets.toNat 0)

/-- `actual_subsets_are_approximately_balanced` (PoissonLogLikelihoodWithLinearModelForMeanAndProjData.cxx:494):
    every subset has as many view/segments as subset 0 -/
def Problem.balanced (q : Problem) : Bool :=
  let c := q.viewgramsPerSubset
  c.all (fun n => n == c.getD 0 0)

/-- `PoissonLogLikelihoodWithLinearModelForMean::set_up` (:275): unbalanced subsets are refused unless
    `use_subset_sensitivities` is on; `set_up_before_sensitivity`: a segment / TOF range larger than the data's is an error -/
def Problem.setUpOk (q : Problem) : Bool := q.rangeOk && (q.balanced || q.useSubsetSens)

/-- the problem whose DATA consist of the processed bins only, with no restriction left: by `C08_restricted_range_is_one_matrix`
    every quantity of `q` is that quantity of `q.restrict` — gradient, sensitivity and approximate Hessian (hence D) belong to one
    and the same system matrix -/
def Problem.restrict (q : Problem) : Problem :=
  { q with rows := q.rows.filter q.processed,
           sensRows := if q.tofRestricted then none else q.sensRows.map (fun a => a.filter q.processed),
           maxSegToProcess := none, maxTofToProcess := none }

/-- sensitivity == 0 (`PoissonLogLikelihoodWithLinearModelForMean::fill_nonidentifiable_target_parameters` tests
    `*sens_iter == 0`); matrix rows may contain elements whose value is 0 -/
def Problem.nonIdent (q : Problem) : Array Bool := q.sensitivity.map (fun v => v == 0)

/-- the neighbourhood sum shared by `QuadraticPrior::compute_gradient` and `::parabolic_surrogate_curvature`:
    Σ over (dz,dy,dx) in the weights' index range intersected with the image of `term w κ_j κ_k x_j x_k` -/
def Prior.neighbourSum (pr : Prior) (nz ny nx : Nat) (x : Array Rat) (term : Rat → Rat → Rat → Rat) : Array Rat :=
  let sy : Int := pr.wMaxY - pr.wMinY + 1
  let sx : Int := pr.wMaxX - pr.wMinX + 1
  let rng (lo hi : Int) : List Int := (List.range (hi - lo + 1).toNat).map (fun (i : Nat) => lo + Int.ofNat i)
  (Array.range (nz * ny * nx)).map fun j =>
    let z : Int := (j / (ny * nx) : Nat)
    let y : Int := ((j / nx) % ny : Nat)
    let xx : Int := (j % nx : Nat)
    let kj := match pr.kappa with | some k => k.getD j 1 | none => 1
    let xj := x.getD j 0
    (rng (max pr.wMinZ (0 - z)) (min pr.wMaxZ ((nz : Int) - 1 - z))).foldl (fun acc dz =>
      (rng (max pr.wMinY (0 - y)) (min pr.wMaxY ((ny : Int) - 1 - y))).foldl (fun acc dy =>
        (rng (max pr.wMinX (0 - xx)) (min pr.wMaxX ((nx : Int) - 1 - xx))).foldl (fun acc dx =>
          let w := pr.weights.getD (((dz - pr.wMinZ) * sy + (dy - pr.wMinY)) * sx + (dx - pr.wMinX)).toNat 0
          let k : Nat := (((z + dz) * (ny : Int) + (y + dy)) * (nx : Int) + (xx + dx)).toNat
          let kk := match pr.kappa with | some kp => kj * kp.getD k 1 | none => 1
          acc + term w kk (xj - x.getD k 0)) acc) acc) 0

/-- `QuadraticPrior::compute_gradient`: β Σ_d w_d (x_j − x_{j+d}) κ_j κ_{j+d} -/
def Prior.gradient (pr : Prior) (nz ny nx : Nat) (x : Array Rat) : Array Rat :=
  (pr.neighbourSum nz ny nx x (fun w kk diff => w * diff * kk)).map (· * pr.beta)

/-- `QuadraticPrior::parabolic_surrogate_curvature`: β Σ_d w_d κ_j κ_{j+d}  (independent of the image);
    with the harness' test double additionally `· (1 + x_j²)` -/
def Prior.curvature (pr : Prior) (nz ny nx : Nat) (x : Array Rat) : Array Rat :=
  let c := (pr.neighbourSum nz ny nx x (fun w kk _ => w * 1 * kk)).map (· * pr.beta)
  if pr.depends then (Array.range c.size).map (fun j => c.getD j 0 * (1 + x.getD j 0 * x.getD j 0)) else c

/-- `GeneralisedObjectiveFunction::prior_is_zero` -/
def Problem.priorIsZero (q : Problem) : Bool :=
  match q.opaquePrior with
  | some _ => false
  | none =>
  match q.prior with
  | none => !q.priorNotParabolic
  | some pr => pr.beta == 0

/-- `GeneralisedObjectiveFunction::compute_sub_gradient`: likelihood part minus prior gradient / num_subsets -/
def Problem.grad (q : Problem) (subset : Int) (x : Array Rat) : Array Rat :=
  let g := q.gradLik subset x
  match q.prior with
  | some pr =>
    if pr.beta == 0 then g
    else
      let pg := pr.gradient q.nz q.ny q.nx x
      (Array.range g.size).map (fun j => g.getD j 0 - pg.getD j 0 / (q.numSubsets : Rat))
  | none => g

def Problem.curv (q : Problem) (x : Array Rat) : Array Rat :=
  match q.prior with
  | some pr => pr.curvature q.nz q.ny q.nx x
  | none => Array.replicate q.nvox 0

/-- `fill_nonidentifiable_target_parameters(target, 0)` for a given sensitivity-is-zero mask -/
def fillMask (mask : List Bool) (x : Img) : Img :=
  List.zipWith (fun (b : Bool) v => if b then 0 else v) mask x

def Problem.fill (q : Problem) (x : Img) : Img := fillMask q.nonIdent.toList x

/-- the problem as `OSSPSReconstruction` sees it, with the two image-independent precomputations passed in
    (so that an executable can cache them) -/
def Problem.toObjectiveWith (q : Problem) (hess : Img) (mask : List Bool) : Objective where
  grad := fun s x => (q.grad s x.toArray).toList
  hessOnes := hess
  priorIsZero := q.priorIsZero
  priorParabolic := !q.priorNotParabolic
  curv := fun x => (q.curv x.toArray).toList
  curvDepends := match q.opaquePrior with
    | some d => d
    | none => match q.prior with | some pr => pr.depends | none => true
  fillNonIdent := fillMask mask
  setUpOk := q.setUpOk

/-- the problem as `OSSPSReconstruction` sees it -/
def Problem.toObjective (q : Problem) : Objective := q.toObjectiveWith q.hessOnes.toList q.nonIdent.toList

end StirVerif.C08
