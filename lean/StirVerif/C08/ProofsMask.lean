/-
C08 — non-identifiable voxels: `fill_nonidentifiable_target_parameters(·,0)` is idempotent, and when the (penalised) gradient
vanishes on the voxels with zero sensitivity — the case without a prior — every iterate is exactly 0 there.
-/
import StirVerif.C08.ProofsRun

namespace StirVerif.C08

/-- `img` vanishes wherever `mask` is set -/
def ZeroOn (mask : List Bool) (img : Img) : Prop :=
  ∀ j : Nat, mask[j]? = some true → ∀ v, img[j]? = some v → v = 0

theorem fillMask_getElem? (mask : List Bool) (img : Img) (j : Nat) :
    (fillMask mask img)[j]? = match mask[j]?, img[j]? with
      | some b, some v => some (if b then 0 else v)
      | _, _ => none := by
  unfold fillMask
  rw [List.getElem?_zipWith]
  cases mask[j]? <;> cases img[j]? <;> rfl

theorem zeroOn_fillMask (mask : List Bool) (img : Img) : ZeroOn mask (fillMask mask img) := by
  intro j hm v hv
  rw [fillMask_getElem?, hm] at hv
  cases h : img[j]? with
  | none => rw [h] at hv; simp at hv
  | some w => rw [h] at hv; simp at hv; exact hv.symm

theorem fillMask_length_le (mask : List Bool) (img : Img) : (fillMask mask img).length ≤ img.length := by
  unfold fillMask
  rw [List.length_zipWith]
  exact Nat.min_le_right _ _

theorem fillMask_eq_self (mask : List Bool) (img : Img) (hlen : img.length ≤ mask.length) (hz : ZeroOn mask img) :
    fillMask mask img = img := by
  apply List.ext_getElem?
  intro j
  rw [fillMask_getElem?]
  cases hi : img[j]? with
  | none => cases mask[j]? <;> rfl
  | some v =>
    have hj : j < img.length := by
      by_contra hcon
      have : img[j]? = none := List.getElem?_eq_none (by omega)
      rw [this] at hi; simp at hi
    have hjm : j < mask.length := by omega
    rw [List.getElem?_eq_getElem hjm]
    simp only
    cases hb : mask[j] with
    | false => simp
    | true =>
      have : mask[j]? = some true := by rw [List.getElem?_eq_getElem hjm, hb]
      have := hz j this v hi
      simp [this]

/-- one sub-iteration keeps the masked voxels at 0 when the gradient vanishes there -/
theorem updateEstimate_zeroOn (p : Params) (obj : Objective) (start : Int) (s : State) (mask : List Bool)
    (hub : 0 ≤ p.upperBound)
    (hx : ZeroOn mask (currentImage obj s.image))
    (hg : ∀ S y, ZeroOn mask (obj.grad S y)) :
    ZeroOn mask (updateEstimate p obj start s).image := by
  intro j hm v hv
  unfold updateEstimate additiveUpdate at hv
  simp only [List.getElem?_map, List.getElem?_zipWith] at hv
  generalize hxe : (currentImage obj s.image)[j]? = ox at hv
  generalize hge : (obj.grad (subsetNum s.k p.startSubset p.numSubsets) (currentImage obj s.image))[j]? = og at hv
  generalize hde : (denomUsed obj (s.k == start) (currentImage obj s.image) s.denom)[j]? = od at hv
  cases ox with
  | none => cases og <;> cases od <;> simp at hv
  | some xj =>
    cases og with
    | none => cases od <;> simp at hv
    | some gj =>
      cases od with
      | none => simp at hv
      | some dj =>
        simp at hv
        have hxj : xj = 0 := hx j hm xj hxe
        have hgj : gj = 0 := hg _ _ j hm gj hge
        subst hxj hgj
        rw [← hv]
        simp [thresholdUpperLower]
        intro h; linarith

theorem updateEstimate_length_le (p : Params) (obj : Objective) (start : Int) (s : State) :
    (updateEstimate p obj start s).image.length ≤ (currentImage obj s.image).length := by
  unfold updateEstimate
  simp only [List.length_map, List.length_zipWith]
  exact Nat.min_le_left _ _

/-- after at least one sub-iteration of a run, the image vanishes on the mask and is not longer than the start image -/
theorem loop_zeroOn (p : Params) (obj : Objective) (start : Int) (mask : List Bool) (img d : Img) (n : Nat)
    (hub : 0 ≤ p.upperBound) (hfill : obj.fillNonIdent = fillMask mask)
    (hg : ∀ S y, ZeroOn mask (obj.grad S y)) :
    ZeroOn mask (loop p obj start (n + 1) ⟨img, d, start⟩).image ∧
      (loop p obj start (n + 1) ⟨img, d, start⟩).image.length ≤ img.length := by
  induction n with
  | zero =>
    show ZeroOn mask (updateEstimate p obj start ⟨img, d, start⟩).image ∧
      (updateEstimate p obj start ⟨img, d, start⟩).image.length ≤ img.length
    have hcur : currentImage obj img = fillMask mask img := by
      unfold currentImage; rw [hfill]
    refine ⟨?_, ?_⟩
    · apply updateEstimate_zeroOn p obj start _ mask hub _ hg
      show ZeroOn mask (currentImage obj img)
      rw [hcur]; exact zeroOn_fillMask mask img
    · refine le_trans (updateEstimate_length_le p obj start _) ?_
      show (currentImage obj img).length ≤ img.length
      rw [hcur]; exact fillMask_length_le mask img
  | succ n ih =>
    rw [loop_succ]
    have hcur : currentImage obj (loop p obj start (n + 1) ⟨img, d, start⟩).image
        = fillMask mask (loop p obj start (n + 1) ⟨img, d, start⟩).image := by
      unfold currentImage; rw [hfill]
    refine ⟨?_, ?_⟩
    · show ZeroOn mask (updateEstimate p obj start (loop p obj start (n + 1) ⟨img, d, start⟩)).image
      apply updateEstimate_zeroOn p obj start _ mask hub _ hg
      rw [hcur]; exact zeroOn_fillMask mask _
    · show (updateEstimate p obj start (loop p obj start (n + 1) ⟨img, d, start⟩)).image.length ≤ img.length
      refine le_trans (updateEstimate_length_le p obj start _) ?_
      rw [hcur]; exact le_trans (fillMask_length_le mask _) ih.2

end StirVerif.C08
