/-
C08 — one `OSSPSReconstruction` object set up and run several times (`setUpObject`, `runObject`, `runHistory`).
-/
import StirVerif.C08.ProofsExt

namespace StirVerif.C08

/-- `set_up` does not look at the denominator an earlier run left -/
theorem setUpObject_old (p : Params) (obj : Objective) (start : Int) (file : Option (Chars × DenomFile)) (old old' : Option Img)
    (target : Img) : setUpObject p obj start file old target = setUpObject p obj start file old' target := rfl

theorem runObject_old (old old' : Option Img) (r : RunSpec) : runObject old r = runObject old' r := rfl

/-- `precomputed denominator` not given: the object-level `set_up` + `reconstruct` is `run` -/
theorem runObject_computed (old : Option Img) (p : Params) (obj : Objective) (start : Int) (target : Img) :
    runObject old { p := p, obj := obj, start := start, target := target } = run p obj start target := rfl

/-- the runs of a history, one by one, each on a fresh object -/
def freshRuns : List RunSpec → Option (List State)
  | [] => some []
  | r :: rs =>
    match runObject none r with
    | none => none
    | some s =>
      match freshRuns rs with
      | none => none
      | some ss => some (s :: ss)

theorem runHistory_eq_freshRuns (rs : List RunSpec) : ∀ old : Option Img, runHistory old rs = freshRuns rs := by
  induction rs with
  | nil => intro old; rfl
  | cons r rs ih =>
    intro old
    unfold runHistory freshRuns
    rw [runObject_old old none r]
    cases h : runObject none r with
    | none => rfl
    | some s => simp only [ih]; rfl

/-- `freshRuns` succeeds iff every run does, and then lists the states of the single runs in order -/
theorem freshRuns_get (rs : List RunSpec) : ∀ (ss : List State), freshRuns rs = some ss →
    ss.length = rs.length ∧ ∀ (i : Nat) (r : RunSpec), rs[i]? = some r → (ss[i]?) = runObject none r := by
  induction rs with
  | nil =>
    intro ss h
    simp only [freshRuns, Option.some.injEq] at h
    subst h
    exact ⟨rfl, fun i r hr => by simp at hr⟩
  | cons r0 rs ih =>
    intro ss h
    unfold freshRuns at h
    cases h0 : runObject none r0 with
    | none => rw [h0] at h; simp at h
    | some s0 =>
      rw [h0] at h
      cases h1 : freshRuns rs with
      | none => rw [h1] at h; simp at h
      | some ss1 =>
        rw [h1] at h
        simp only [Option.some.injEq] at h
        subst h
        obtain ⟨hl, hg⟩ := ih ss1 h1
        refine ⟨by simp [hl], ?_⟩
        intro i r hr
        cases i with
        | zero =>
          simp only [List.getElem?_cons_zero, Option.some.injEq] at hr ⊢
          subst hr
          exact h0.symm
        | succ i =>
          simp only [List.getElem?_cons_succ] at hr ⊢
          exact hg i r hr

theorem freshRuns_none (rs : List RunSpec) : freshRuns rs = none → ∃ r ∈ rs, runObject none r = none := by
  induction rs with
  | nil => intro h; simp [freshRuns] at h
  | cons r0 rs ih =>
    intro h
    unfold freshRuns at h
    cases h0 : runObject none r0 with
    | none => exact ⟨r0, List.mem_cons_self, h0⟩
    | some s0 =>
      rw [h0] at h
      cases h1 : freshRuns rs with
      | none =>
        obtain ⟨r, hr, hn⟩ := ih h1
        exact ⟨r, List.mem_cons_of_mem _ hr, hn⟩
      | some ss1 => rw [h1] at h; simp at h

end StirVerif.C08
