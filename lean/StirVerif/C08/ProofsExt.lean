/-
C08 — extensions: the inter-iteration / post filter applied after the clamp (`end_of_iteration_processing`), the separable
3-tap convolution filter, and `precomputed denominator := <file>`.
-/
import StirVerif.C08.ProofsMask

namespace StirVerif.C08

/-- every voxel lies in `[0, ub]` -/
def InBox (ub : Rat) (img : Img) : Prop := ∀ v ∈ img, 0 ≤ v ∧ v ≤ ub

/-- both image processors (where present) map images with all voxels in `[0, ub]` to such images -/
def Filters.Preserve (f : Filters) (ub : Rat) : Prop :=
  (∀ g, f.inter = some g → ∀ img, InBox ub img → InBox ub (g img)) ∧
  (∀ g, f.post = some g → ∀ img, InBox ub img → InBox ub (g img))

/-! ### end_of_iteration_processing -/

theorem endOfIteration_inBox (f : Filters) (K k : Int) (img : Img) (ub : Rat) (hf : f.Preserve ub) (h : InBox ub img) :
    InBox ub (endOfIteration f K k img) := by
  have h1 : InBox ub (applyInterFilter f k img) := by
    unfold applyInterFilter
    cases hi : f.inter with
    | none => exact h
    | some g =>
      simp only
      split_ifs
      · exact hf.1 g hi img h
      · exact h
  unfold endOfIteration applyPostFilter
  cases hp : f.post with
  | none => exact h1
  | some g =>
    simp only
    split_ifs
    · exact hf.2 g hp _ h1
    · exact h1

theorem endOfIteration_noFilters (K k : Int) (img : Img) : endOfIteration {} K k img = img := rfl

theorem stepF_noFilters (p : Params) (obj : Objective) (start : Int) (s : State) :
    stepF {} p obj start s = step p obj start s := rfl

theorem loopF_noFilters (p : Params) (obj : Objective) (start : Int) (n : Nat) : ∀ s : State,
    loopF {} p obj start n s = loop p obj start n s := by
  induction n with
  | zero => intro s; rfl
  | succ n ih =>
    intro s
    show loopF {} p obj start n (stepF {} p obj start s) = loop p obj start n (step p obj start s)
    rw [stepF_noFilters, ih]

theorem stepF_inBox (f : Filters) (p : Params) (obj : Objective) (start : Int) (s : State) (hub : 0 ≤ p.upperBound)
    (hf : f.Preserve p.upperBound) : InBox p.upperBound (stepF f p obj start s).image := by
  unfold stepF
  exact endOfIteration_inBox f _ _ _ _ hf (updateEstimate_in_bounds p obj start s hub)

theorem loopF_succ (f : Filters) (p : Params) (obj : Objective) (start : Int) (n : Nat) : ∀ s : State,
    loopF f p obj start (n + 1) s = stepF f p obj start (loopF f p obj start n s) := by
  induction n with
  | zero => intro s; rfl
  | succ n ih =>
    intro s
    show loopF f p obj start (n + 1) (stepF f p obj start s) = _
    rw [ih (stepF f p obj start s)]
    rfl

theorem loopF_inBox (f : Filters) (p : Params) (obj : Objective) (start : Int) (n : Nat) (s : State) (hub : 0 ≤ p.upperBound)
    (hf : f.Preserve p.upperBound) : InBox p.upperBound (loopF f p obj start (n + 1) s).image := by
  rw [loopF_succ]
  exact stepF_inBox f p obj start _ hub hf

/-! ### the 3-tap convolution -/

theorem getD_inBox (ub : Rat) (x : Img) (hub : 0 ≤ ub) (hx : InBox ub x) (j : Nat) : 0 ≤ x.getD j 0 ∧ x.getD j 0 ≤ ub := by
  rw [List.getD_eq_getElem?_getD]
  cases h : x[j]? with
  | none => simpa using hub
  | some a => simpa using hx a (List.mem_of_getElem? h)

theorem conv3Axis_inBox (len stride : Nat) (cm c0 cp ub : Rat) (hcm : 0 ≤ cm) (hc0 : 0 ≤ c0) (hcp : 0 ≤ cp)
    (hsum : cm + c0 + cp ≤ 1) (hub : 0 ≤ ub) (x : Img) (hx : InBox ub x) : InBox ub (conv3Axis len stride cm c0 cp x) := by
  intro v hv
  unfold conv3Axis at hv
  simp only [List.mem_map, List.mem_range] at hv
  obtain ⟨j, _, rfl⟩ := hv
  have hzero : (0 : Rat) ≤ 0 ∧ (0 : Rat) ≤ ub := ⟨le_refl _, hub⟩
  have hprev : 0 ≤ (if 1 ≤ (j / stride) % len then x.getD (j - stride) 0 else 0) ∧
      (if 1 ≤ (j / stride) % len then x.getD (j - stride) 0 else 0) ≤ ub := by
    split_ifs
    · exact getD_inBox ub x hub hx _
    · exact hzero
  have hnext : 0 ≤ (if (j / stride) % len + 1 < len then x.getD (j + stride) 0 else 0) ∧
      (if (j / stride) % len + 1 < len then x.getD (j + stride) 0 else 0) ≤ ub := by
    split_ifs
    · exact getD_inBox ub x hub hx _
    · exact hzero
  have hcur := getD_inBox ub x hub hx j
  obtain ⟨a0, a1⟩ := hprev
  obtain ⟨b0, b1⟩ := hcur
  obtain ⟨n0, n1⟩ := hnext
  constructor
  · have := mul_nonneg hcp a0
    have := mul_nonneg hc0 b0
    have := mul_nonneg hcm n0
    linarith
  · have e1 := mul_le_mul_of_nonneg_left a1 hcp
    have e2 := mul_le_mul_of_nonneg_left b1 hc0
    have e3 := mul_le_mul_of_nonneg_left n1 hcm
    have e4 : (cm + c0 + cp) * ub ≤ 1 * ub := mul_le_mul_of_nonneg_right hsum hub
    nlinarith

theorem sepConvYX_inBox (ny nx : Nat) (cm c0 cp ub : Rat) (hcm : 0 ≤ cm) (hc0 : 0 ≤ c0) (hcp : 0 ≤ cp)
    (hsum : cm + c0 + cp ≤ 1) (hub : 0 ≤ ub) (x : Img) (hx : InBox ub x) : InBox ub (sepConvYX ny nx cm c0 cp x) := by
  unfold sepConvYX
  exact conv3Axis_inBox nx 1 cm c0 cp ub hcm hc0 hcp hsum hub _
    (conv3Axis_inBox ny nx cm c0 cp ub hcm hc0 hcp hsum hub x hx)

/-! ### precomputed denominator from file -/

theorem setUpFile_some (p : Params) (obj : Objective) (start : Int) (tc : Chars) (file : DenomFile) (target img d : Img)
    (h : setUpFile p obj start tc file target = some (img, d)) :
    ∃ fc d', file = .image fc d ∧ sameCharacteristics fc tc = true ∧ setUp p obj start target = some (img, d') := by
  unfold setUpFile at h
  cases hs : setUp p obj start target with
  | none => rw [hs] at h; simp at h
  | some r =>
    obtain ⟨t', d'⟩ := r
    rw [hs] at h
    cases file with
    | unreadable => simp at h
    | image ch values =>
      simp only at h
      split_ifs at h with hc
      simp only [Option.some.injEq, Prod.mk.injEq] at h
      obtain ⟨rfl, rfl⟩ := h
      exact ⟨ch, d', rfl, hc, rfl⟩

theorem setUpFile_of_setUp (p : Params) (obj : Objective) (start : Int) (tc fc : Chars) (target img d v : Img)
    (h : setUp p obj start target = some (img, d)) (hc : sameCharacteristics fc tc = true) :
    setUpFile p obj start tc (.image fc v) target = some (img, v) := by
  unfold setUpFile
  rw [h]
  simp [hc]

theorem setUpFile_refused (p : Params) (obj : Objective) (start : Int) (tc fc : Chars) (target v : Img)
    (hc : sameCharacteristics fc tc = false) :
    setUpFile p obj start tc (.image fc v) target = none ∧ setUpFile p obj start tc .unreadable target = none := by
  unfold setUpFile
  cases setUp p obj start target with
  | none => simp
  | some r => simp [hc]

end StirVerif.C08
