/-
C08 — the run: invariants of `update_estimate` / the `reconstruct` loop, bounds, positivity of the denominator that is
actually used, and the restart argument.
-/
import StirVerif.C08.Proofs

namespace StirVerif.C08

/-! ### bookkeeping -/

@[simp] theorem updateEstimate_k (p : Params) (obj : Objective) (start : Int) (s : State) :
    (updateEstimate p obj start s).k = s.k := rfl

@[simp] theorem step_k (p : Params) (obj : Objective) (start : Int) (s : State) :
    (step p obj start s).k = s.k + 1 := rfl

theorem loop_k (p : Params) (obj : Objective) (start : Int) (n : Nat) : ∀ s : State,
    (loop p obj start n s).k = s.k + n := by
  induction n with
  | zero => intro s; simp [loop]
  | succ n ih =>
    intro s
    simp only [loop]
    rw [ih, step_k]
    push_cast
    ring

theorem loop_succ (p : Params) (obj : Objective) (start : Int) (n : Nat) (s : State) :
    loop p obj start (n + 1) s = step p obj start (loop p obj start n s) := by
  induction n generalizing s with
  | zero => rfl
  | succ n ih =>
    show loop p obj start (n + 1) (step p obj start s) = _
    rw [ih (step p obj start s)]
    rfl

theorem denomStored_not_first (obj : Objective) (x d : Img) : denomStored obj false x d = d := by
  unfold denomStored
  cases recomputePenalty obj <;> simp

theorem denomUsed_not_first (obj : Objective) (x d : Img) :
    denomUsed obj false x d = if recomputePenalty obj then workDenominator obj x d else d := by
  unfold denomUsed
  cases recomputePenalty obj <;> simp

theorem denomUsed_first (obj : Objective) (x d : Img) : denomUsed obj true x d = workDenominator obj x d := by
  unfold denomUsed
  simp

theorem denomStored_first (obj : Objective) (x d : Img) :
    denomStored obj true x d = if recomputePenalty obj then d else workDenominator obj x d := by
  unfold denomStored
  cases recomputePenalty obj <;> simp

/-- a sub-iteration that is not the first of its run does not look at `start_subiteration_num` -/
theorem updateEstimate_indep_start (p : Params) (obj : Objective) (a b : Int) (s : State) (ha : s.k ≠ a) (hb : s.k ≠ b) :
    updateEstimate p obj a s = updateEstimate p obj b s := by
  unfold updateEstimate
  have h1 : (s.k == a) = false := by simpa using ha
  have h2 : (s.k == b) = false := by simpa using hb
  simp only [h1, h2]

theorem loop_indep_start (p : Params) (obj : Objective) (a b : Int) (n : Nat) : ∀ s : State, a < s.k → b < s.k →
    loop p obj a n s = loop p obj b n s := by
  induction n with
  | zero => intro s _ _; rfl
  | succ n ih =>
    intro s ha hb
    simp only [loop]
    have hs : step p obj a s = step p obj b s := by
      unfold step
      rw [updateEstimate_indep_start p obj a b s (ne_of_gt ha) (ne_of_gt hb)]
    rw [hs]
    apply ih
    · rw [step_k]; omega
    · rw [step_k]; omega

/-! ### bounds -/

theorem updateEstimate_in_bounds (p : Params) (obj : Objective) (start : Int) (s : State) (hub : 0 ≤ p.upperBound) :
    ∀ v ∈ (updateEstimate p obj start s).image, 0 ≤ v ∧ v ≤ p.upperBound := by
  intro v hv
  unfold updateEstimate at hv
  simp only [List.mem_map] at hv
  obtain ⟨y, _, rfl⟩ := hv
  exact thresholdUpperLower_bounds 0 p.upperBound y hub

theorem loop_in_bounds (p : Params) (obj : Objective) (start : Int) (n : Nat) (s : State) (hub : 0 ≤ p.upperBound) :
    ∀ v ∈ (loop p obj start (n + 1) s).image, 0 ≤ v ∧ v ≤ p.upperBound := by
  rw [loop_succ]
  exact updateEstimate_in_bounds p obj start _ hub

/-! ### the denominator that is used is positive -/

theorem workDenominator_pos (obj : Objective) (x d : Img) : ∀ v ∈ workDenominator obj x d, 0 < v := by
  unfold workDenominator
  exact thresholdMin_pos _ _ smallNumber_pos

/-- the stored denominator after at least one sub-iteration of a run started at `⟨img, d, start⟩` -/
theorem loop_denom (p : Params) (obj : Objective) (start : Int) (img d : Img) (n : Nat) :
    (loop p obj start (n + 1) ⟨img, d, start⟩).denom
      = if recomputePenalty obj then d else workDenominator obj (currentImage obj img) d := by
  induction n with
  | zero =>
    show (updateEstimate p obj start ⟨img, d, start⟩).denom = _
    unfold updateEstimate
    simp only [beq_self_eq_true]
    rw [denomStored_first]
  | succ n ih =>
    rw [loop_succ]
    show (updateEstimate p obj start (loop p obj start (n + 1) ⟨img, d, start⟩)).denom = _
    unfold updateEstimate
    have hk : (loop p obj start (n + 1) ⟨img, d, start⟩).k = start + (n + 1 : Nat) := loop_k p obj start (n + 1) _
    have hne : ((loop p obj start (n + 1) ⟨img, d, start⟩).k == start) = false := by
      rw [hk]; simp; omega
    simp only [hne]
    rw [denomStored_not_first]
    exact ih

/-- the image every numerator is divided by, in every sub-iteration of a run, is strictly positive -/
theorem denomUsed_pos_in_run (p : Params) (obj : Objective) (start : Int) (img d : Img) (n : Nat) :
    let s := loop p obj start n ⟨img, d, start⟩
    let first := s.k == start
    ∀ v ∈ denomUsed obj first (currentImage obj s.image) s.denom, 0 < v := by
  intro s first
  cases n with
  | zero =>
    have : first = true := by simp [first, s, loop]
    rw [this, denomUsed_first]
    exact workDenominator_pos obj _ _
  | succ n =>
    have hk : s.k = start + (n + 1 : Nat) := loop_k p obj start (n + 1) _
    have : first = false := by
      simp only [first]; rw [hk]; simp; omega
    rw [this, denomUsed_not_first]
    by_cases hr : recomputePenalty obj = true
    · rw [if_pos hr]
      exact workDenominator_pos obj _ _
    · rw [if_neg hr]
      have hd : s.denom = workDenominator obj (currentImage obj img) d := by
        have := loop_denom p obj start img d n
        rw [if_neg hr] at this
        exact this
      rw [hd]
      exact workDenominator_pos obj _ _

/-! ### restart -/

theorem setUp_some (p : Params) (obj : Objective) (start : Int) (target img d : Img)
    (h : setUp p obj start target = some (img, d)) :
    d = (if p.denominatorOnes then target.map (fun _ => 1) else precomputeDenominator obj) ∧
    img = (if p.enforceInitialPositivity then thresholdMinToSmallPositiveValue target smallNumber else target) ∧
    1 ≤ p.numSubsets ∧ 0 < p.alpha ∧ 0 ≤ p.gamma := by
  unfold setUp at h
  split_ifs at h <;>
  · simp only [Option.some.injEq, Prod.mk.injEq] at h
    obtain ⟨h1, h2⟩ := h
    subst h1 h2
    refine ⟨by simp [*], by simp [*], by omega, by linarith, by linarith⟩

/-- set_up only looks at `start_subiteration_num` to check it is at least 1 -/
theorem setUp_start (p : Params) (obj : Objective) (a b : Int) (target : Img) (ha : 1 ≤ a) (hb : 1 ≤ b) :
    setUp p obj a target = setUp p obj b target := by
  unfold setUp
  have h1 : ¬ a < 1 := by omega
  have h2 : ¬ b < 1 := by omega
  simp only [h1, h2]

/-- the work denominator depends on the image only through the prior's curvature, and only when the curvature is used -/
theorem workDenominator_congr (obj : Objective) (x x' d : Img)
    (h : obj.priorIsZero = false → obj.curv x = obj.curv x') :
    workDenominator obj x d = workDenominator obj x' d := by
  unfold workDenominator
  cases hp : obj.priorIsZero with
  | true => simp
  | false => simp only [Bool.not_false, if_true]; rw [h hp]

/-- The restart argument.  `s0 = ⟨img0, d0, 1⟩` is the state after `set_up` of the uninterrupted run, `sk` the state after
    `k ≥ 1` sub-iterations.  A fresh object set up on the saved image `sk.image` with `start_subiteration_num = k+1` is, after
    its first sub-iteration, in exactly the state of the uninterrupted run — hence for ever after.
    (No condition on the non-identifiable voxels: they are zeroed at the start of every sub-iteration of every run.) -/
theorem restart_core (p : Params) (obj : Objective) (img0 d0 : Img) (k : Nat) (hk : 1 ≤ k)
    (hcurv : obj.priorIsZero = false → obj.curvDepends = false → ∀ a b, obj.curv a = obj.curv b) :
    let sk := loop p obj 1 k ⟨img0, d0, 1⟩
    ∀ m : Nat, 1 ≤ m → loop p obj ((k : Int) + 1) m ⟨sk.image, d0, (k : Int) + 1⟩ = loop p obj 1 m sk := by
  intro sk m hm
  obtain ⟨k', rfl⟩ : ∃ k', k = k' + 1 := ⟨k - 1, by omega⟩
  obtain ⟨m', rfl⟩ : ∃ m', m = m' + 1 := ⟨m - 1, by omega⟩
  have hskk : sk.k = 1 + ((k' + 1 : Nat) : Int) := loop_k p obj 1 (k' + 1) _
  have hskd : sk.denom = if recomputePenalty obj then d0 else workDenominator obj (currentImage obj img0) d0 :=
    loop_denom p obj 1 img0 d0 k'
  -- the first sub-iteration of the resumed run equals the next sub-iteration of the uninterrupted run
  have hfirst : step p obj (((k' + 1 : Nat) : Int) + 1) ⟨sk.image, d0, ((k' + 1 : Nat) : Int) + 1⟩ = step p obj 1 sk := by
    have hne : (sk.k == (1 : Int)) = false := by rw [hskk]; simp; omega
    have hkeq : sk.k = ((k' + 1 : Nat) : Int) + 1 := by rw [hskk]; ring
    unfold step updateEstimate
    simp only [beq_self_eq_true, hne]
    rw [denomUsed_first, denomStored_first, denomUsed_not_first, denomStored_not_first]
    have hD : workDenominator obj (currentImage obj sk.image) d0
        = (if recomputePenalty obj then workDenominator obj (currentImage obj sk.image) sk.denom else sk.denom) := by
      by_cases hr : recomputePenalty obj = true
      · rw [if_pos hr, hskd, if_pos hr]
      · rw [if_neg hr, hskd, if_neg hr]
        apply workDenominator_congr
        intro hp
        have hcd : obj.curvDepends = false := by
          unfold recomputePenalty at hr
          rw [hp] at hr
          simpa using hr
        exact hcurv hp hcd _ _
    have hS : (if recomputePenalty obj then d0 else workDenominator obj (currentImage obj sk.image) d0) = sk.denom := by
      by_cases hr : recomputePenalty obj = true
      · rw [if_pos hr, hskd, if_pos hr]
      · rw [if_neg hr, hD, if_neg hr]
    rw [← hD, hS, hkeq]
  show loop p obj (((k' + 1 : Nat) : Int) + 1) m' (step p obj (((k' + 1 : Nat) : Int) + 1) ⟨sk.image, d0, ((k' + 1 : Nat) : Int) + 1⟩)
      = loop p obj 1 m' (step p obj 1 sk)
  rw [hfirst]
  apply loop_indep_start
  · rw [step_k, hskk]; omega
  · rw [step_k, hskk]; omega

end StirVerif.C08
