/-
C08 — "OSSPS sub-iterations follow the preconditioned relaxed update within bounds".
Property theorems over the model of `Model.lean` (exact rational arithmetic).  Every statement is for all image sizes,
all objective functions (`Objective` is arbitrary: any gradient, any curvature, any Hessian-on-ones, any set of
non-identifiable voxels), all parameters and all sub-iteration numbers unless a hypothesis says otherwise.
Images are lists; `l[j]?` is voxel `j`.

Because `Objective` is arbitrary, every theorem about `updateEstimate` / `loop` / `setUp` below applies in particular to
`Problem.toObjective q` for the extended `Problem` of `Model.lean`: Poisson log-likelihood with bin normalisation factors
(`Row.norm`), time-of-flight bins (one `Row` per TOF bin), `zero_seg0_end_planes` (`Row.zeroed`), with or without
`use_subset_sensitivities` (`Problem.setUpOk` feeds `Objective.setUpOk`, the only new thing `setUp` looks at), and the
sensitivity of a non-TOF back projector (`Problem.sensRows`).  The harness exercises exactly these configurations against
the real code; the theorems did not have to be re-proved or weakened for them.

Object re-use (section "one object, several runs" at the end): `C08_reuse_eq_fresh` reduces every run of a history on ONE
`OSSPSReconstruction` object (set_up → run → change anything → set_up → run …) to the run of a fresh object, so every theorem
above about `setUp` / `run` / `loop` applies to each run of such a history, with the objective function (data, normalisation,
prior) and parameters current at that run; the harness drives these histories through the real code (`recfg` / `resetup` ops).

Round-4 extension of `Problem` (section "restricted segment / TOF range, voxels nothing sees" at the end): the objective function
restricted to fewer segments / TOF bins than the data have (`Problem.maxSegToProcess`, `.maxTofToProcess`, `Problem.processed`)
and a `PriorWithParabolicSurrogate` other than the quadratic one (`Problem.opaquePrior`: the log-cosh prior, its answers are
data).  Again every theorem about `updateEstimate` / `loop` / `setUp` applies unchanged — in particular `C08_D_positive_in_run`
("D strictly positive", with a prior present whose kappa image / weights vanish where the data see nothing: `C08_D_zero_before_
thresholding_with_prior`) and `C08_in_bounds_run`; `C08_restricted_range_is_one_matrix` adds that gradient, sensitivity, balancing
and the approximate Hessian (hence D) of a restricted objective function all belong to ONE system matrix.
-/
import StirVerif.C08.ProofsReuse
import StirVerif.C08.ProofsRange

namespace StirVerif.C08

/-! ## the update map -/

/-- "One OSSPS sub-iteration on subset S maps lambda to clamp(lambda + zeta N grad_S Phi(lambda) / D, 0, upper bound)":
    voxel `j` of the image after `update_estimate`, in terms of voxel `j` of the current image (non-identifiable voxels
    zeroed at the start of every sub-iteration), of the penalised sub-gradient of the scheduled subset at that image, and of
    the denominator in use (`C08_denominator_used`).  The order of operations is the code's: `((g·N)/D)·ζ`. -/
theorem C08_ossps_formula (p : Params) (obj : Objective) (start : Int) (s : State) (j : Nat) (xj gj dj : Rat)
    (hx : (currentImage obj s.image)[j]? = some xj)
    (hg : (obj.grad (subsetNum s.k p.startSubset p.numSubsets) (currentImage obj s.image))[j]? = some gj)
    (hd : (denomUsed obj (s.k == start) (currentImage obj s.image) s.denom)[j]? = some dj) :
    (updateEstimate p obj start s).image[j]? =
      some (thresholdUpperLower 0 p.upperBound
              (xj + gj * (p.numSubsets : Rat) / dj * relaxation p.alpha p.gamma s.k p.numSubsets)) := by
  unfold updateEstimate additiveUpdate
  simp only [List.getElem?_map, List.getElem?_zipWith, hx, hg, hd]
  simp

/-- "D the strictly positive precomputed curvature (minus the approximate log-likelihood Hessian applied to a uniform
    image, plus twice the prior's surrogate curvature)": which image the numerator is divided by, every branch.
    * first sub-iteration of a run, or curvature declared image dependent (and a prior present): thresholded
      `2·curvature(current image) + stored denominator` (just the thresholded stored denominator when `prior_is_zero()`);
    * otherwise the stored denominator;
    and what is stored afterwards: the freshly computed image at the first sub-iteration unless the penalty term is
    recomputed every time, otherwise unchanged. -/
theorem C08_denominator_used (obj : Objective) (x d : Img) :
    denomUsed obj true x d
        = thresholdMinToSmallPositiveValue
            (if obj.priorIsZero then d else List.zipWith (fun c d => c * 2 + d) (obj.curv x) d) smallNumber ∧
    denomUsed obj false x d = (if !obj.priorIsZero && obj.curvDepends then denomUsed obj true x d else d) ∧
    denomStored obj true x d = (if !obj.priorIsZero && obj.curvDepends then d else denomUsed obj true x d) ∧
    denomStored obj false x d = d := by
  refine ⟨?_, ?_, ?_, denomStored_not_first obj x d⟩
  · rw [denomUsed_first]; unfold workDenominator; cases obj.priorIsZero <;> simp
  · rw [denomUsed_not_first, denomUsed_first]; rfl
  · rw [denomStored_first, denomUsed_first]; rfl

/-- after set_up (denominator not given by the user) the stored denominator is minus the approximate Hessian (without
    penalty) applied to the uniform image.  (For `Problem.toObjective` that is `Problem.hessOnes`: with normalisation the
    data enter as `y·n²`, every TOF bin is a row, and the end planes of segment 0 are left out when `zero_seg0_end_planes`
    removes them from gradient and sensitivity: `C08_denominator_excludes_zeroed_end_planes`.) -/
theorem C08_denominator_after_setup (p : Params) (obj : Objective) (start : Int) (target img d : Img)
    (h : setUp p obj start target = some (img, d)) (hd : p.denominatorOnes = false) : d = obj.hessOnes.map (fun a => -a) := by
  have := (setUp_some p obj start target img d h).1
  rw [hd] at this
  simpa [precomputeDenominator] using this

/-! ## bounds -/

/-- "Iterates therefore always lie within [0, upper bound]": for every objective function, gradient, denominator (even a
    zero or negative one: in exact arithmetic `x/0 = 0`; in floats this clause additionally needs `C08_D_positive_in_run`
    to exclude NaN) — provided the upper bound is not negative. -/
theorem C08_in_bounds (p : Params) (obj : Objective) (start : Int) (s : State) (hub : 0 ≤ p.upperBound) :
    ∀ v ∈ (updateEstimate p obj start s).image, 0 ≤ v ∧ v ≤ p.upperBound :=
  updateEstimate_in_bounds p obj start s hub

/-- … hence every iterate of every run (any start image, any start sub-iteration, any number `n+1 ≥ 1` of sub-iterations) -/
theorem C08_in_bounds_run (p : Params) (obj : Objective) (start : Int) (s : State) (n : Nat) (hub : 0 ≤ p.upperBound) :
    ∀ v ∈ (loop p obj start (n + 1) s).image, 0 ≤ v ∧ v ≤ p.upperBound :=
  loop_in_bounds p obj start n s hub

/-- the hypothesis is needed: `threshold_upper_lower` tests the upper bound first, so with a negative upper bound every
    voxel ends up negative (the parser accepts any `upper bound`) -/
theorem C08_in_bounds_fails_negative_upper_bound :
    thresholdUpperLower 0 (-1) 5 = -1 ∧ thresholdUpperLower 0 (-1) (-3) = 0 ∧ ¬ (0 ≤ thresholdUpperLower 0 (-1) 5) := by
  unfold thresholdUpperLower
  norm_num

/-! ## positivity of the denominator -/

/-- "the strictly positive precomputed curvature": `threshold_min_to_small_positive_value` makes every element strictly
    positive, whatever the input (negative, zero, all non-positive) -/
theorem C08_D_positive (l : Img) : ∀ v ∈ thresholdMinToSmallPositiveValue l smallNumber, 0 < v :=
  thresholdMin_pos l smallNumber smallNumber_pos

/-- the floor is `10.E-6F` times the smallest strictly positive element (or `10.E-6F` itself when nothing is positive);
    strictly positive elements are not changed at all -/
theorem C08_D_lower_bound (l : Img) :
    (∀ v ∈ thresholdMinToSmallPositiveValue l smallNumber,
        (match minPositive l with | some m => m * smallNumber | none => smallNumber) ≤ v) ∧
    ((∀ x ∈ l, 0 < x) → thresholdMinToSmallPositiveValue l smallNumber = l) :=
  ⟨thresholdMin_lower_bound l smallNumber, thresholdMin_of_all_pos l smallNumber smallNumber_pos smallNumber_le_one⟩

/-- so the threshold is NOT an absolute `10⁻⁵` (as DESIGN.md assumed): a voxel with zero data curvature next to voxels with
    small curvature gets a denominator far below `10⁻⁵` -/
theorem C08_D_ge_small_fails :
    thresholdMinToSmallPositiveValue [1 / 1000, 0] smallNumber = [1 / 1000, 1 / 1000 * smallNumber] ∧
      1 / 1000 * smallNumber < smallNumber := by
  constructor
  · simp [thresholdMinToSmallPositiveValue, minPositive, minPosStep, thresholdLower, smallNumber]
    norm_num
  · unfold smallNumber; norm_num

/-- in every sub-iteration of every run — after `set_up`, for any start image, denominator, parameters, objective — the
    image the numerator is divided by is strictly positive (first sub-iteration: freshly thresholded; later: recomputed and
    thresholded, or the stored thresholded one).  `obj` is arbitrary: with or WITHOUT a prior (`workDenominator` thresholds after
    the penalty curvature was added, so a prior whose curvature vanishes in voxels the data do not see — kappa image 0 outside the
    FOV, all weights 0 — is covered: `C08_D_zero_before_thresholding_with_prior`; the harness drives exactly such problems,
    quadratic and log-cosh, through the real code), any segment / TOF range of the objective function. -/
theorem C08_D_positive_in_run (p : Params) (obj : Objective) (start : Int) (img d : Img) (n : Nat) :
    let s := loop p obj start n ⟨img, d, start⟩
    ∀ v ∈ denomUsed obj (s.k == start) (currentImage obj s.image) s.denom, 0 < v :=
  denomUsed_pos_in_run p obj start img d n

/-! ## relaxation schedule -/

/-- The clause of the property: "zeta_n = alpha / (1 + gamma n) the relaxation for full iteration n", i.e. for every
    sub-iteration `k = n·N + r`, `1 ≤ r ≤ N`, of full iteration `n` (0-based) — all of them, the last one (`r = N`) included.
    (Before the repair `fix: OSSPS relaxation uses the 0-based full iteration number` the code divided the 1-based
    `subiteration_num` itself and the last sub-iteration of every full iteration used `alpha/(1+gamma (n+1))`.) -/
theorem C08_relaxation_schedule (alpha gamma : Rat) (N n r : Int) (hN : 1 ≤ N) (hn : 0 ≤ n) (hr : 1 ≤ r) (hrN : r ≤ N) :
    relaxation alpha gamma (n * N + r) N = alpha / (1 + gamma * (n : Rat)) := by
  unfold relaxation
  rw [tdiv_block_pred N n r hN hn hr hrN]

/-- in particular the first full iteration is relaxed by `alpha` itself, for every number of subsets -/
theorem C08_relaxation_first_iteration (alpha gamma : Rat) (N r : Int) (hN : 1 ≤ N) (hr : 1 ≤ r) (hrN : r ≤ N) :
    relaxation alpha gamma r N = alpha := by
  have := C08_relaxation_schedule alpha gamma N 0 r hN (le_refl _) hr hrN
  simpa using this

/-- the relaxation is positive, at most alpha, and never increases from one sub-iteration to the next -/
theorem C08_relaxation_pos_antitone (alpha gamma : Rat) (N k k' : Int) (ha : 0 < alpha) (hg : 0 ≤ gamma) (hN : 1 ≤ N)
    (hk : 1 ≤ k) (hkk : k ≤ k') :
    0 < relaxation alpha gamma k' N ∧ relaxation alpha gamma k' N ≤ relaxation alpha gamma k N ∧
      relaxation alpha gamma k N ≤ alpha := by
  unfold relaxation
  have hk0 : 0 ≤ k - 1 := by omega
  have hk' : 0 ≤ k' - 1 := by omega
  have e1 : (k - 1).tdiv N = (k - 1) / N := Int.tdiv_eq_ediv_of_nonneg hk0
  have e2 : (k' - 1).tdiv N = (k' - 1) / N := Int.tdiv_eq_ediv_of_nonneg hk'
  rw [e1, e2]
  have hNpos : 0 < N := by omega
  have q0 : 0 ≤ (k - 1) / N := Int.ediv_nonneg hk0 (le_of_lt hNpos)
  have qle : (k - 1) / N ≤ (k' - 1) / N := Int.ediv_le_ediv hNpos (by omega)
  have q0r : (0 : Rat) ≤ (((k - 1) / N : Int) : Rat) := by exact_mod_cast q0
  have qler : (((k - 1) / N : Int) : Rat) ≤ (((k' - 1) / N : Int) : Rat) := by exact_mod_cast qle
  have d1 : 0 < 1 + gamma * (((k - 1) / N : Int) : Rat) := by nlinarith
  have d2 : 0 < 1 + gamma * (((k' - 1) / N : Int) : Rat) := by nlinarith
  refine ⟨div_pos ha d2, ?_, ?_⟩
  · apply div_le_div_of_nonneg_left (le_of_lt ha) d1
    nlinarith
  · rw [div_le_iff₀ d1]
    have := mul_nonneg (mul_nonneg (le_of_lt ha) hg) q0r
    nlinarith

/-! ## restart -/

/-- "With no prior or a quadratic prior, resuming from a saved iterate reproduces the uninterrupted run."
    `⟨img0, d0, 1⟩` is the state after `set_up` of the uninterrupted run, `sk` the state after `k ≥ 1` sub-iterations.
    A fresh object with `start_subiteration_num = k+1`, set up on the saved image `sk.image`, succeeds in `set_up`, leaves the
    image alone, recomputes the same `d0`, and from its first sub-iteration on is in EXACTLY the state (image, stored
    denominator, counter) of the uninterrupted run.  Side conditions, each necessary (negative witnesses below):
    * `hcurv`: if a prior is present and its curvature is declared image independent, it is image independent
      (quadratic prior: `C08_quadratic_curvature_independent`; no prior: vacuous);
    * `hpos`: `enforce_initial_positivity` is off (the OSSPS default) or the saved image has no zero.
    No condition on the non-identifiable voxels: the repaired code (`fix: OSSPS zeroes the non-identifiable voxels at every
    sub-iteration`) zeroes them at the start of every sub-iteration of every run, so the re-zeroing done by the resumed run's
    first sub-iteration is also done by the uninterrupted run (before the repair the theorem needed the extra hypothesis that
    `fill_nonidentifiable_target_parameters(·,0)` leaves the saved image alone, which a penalty falsifies:
    `C08_restart_nonidentifiable_with_prior`). -/
theorem C08_restart_eq (p : Params) (obj : Objective) (target img0 d0 : Img) (k : Nat) (hk : 1 ≤ k)
    (hset : setUp p obj 1 target = some (img0, d0)) (hden : p.denominatorOnes = false)
    (hcurv : obj.priorIsZero = false → obj.curvDepends = false → ∀ a b, obj.curv a = obj.curv b)
    (hpos : p.enforceInitialPositivity = false ∨ ∀ v ∈ (loop p obj 1 k ⟨img0, d0, 1⟩).image, 0 < v) :
    setUp p obj ((k : Int) + 1) (loop p obj 1 k ⟨img0, d0, 1⟩).image = some ((loop p obj 1 k ⟨img0, d0, 1⟩).image, d0) ∧
    ∀ m : Nat, 1 ≤ m →
      loop p obj ((k : Int) + 1) m ⟨(loop p obj 1 k ⟨img0, d0, 1⟩).image, d0, (k : Int) + 1⟩
        = loop p obj 1 m (loop p obj 1 k ⟨img0, d0, 1⟩) := by
  refine ⟨?_, restart_core p obj img0 d0 k hk hcurv⟩
  obtain ⟨hd, _, _, _, _⟩ := setUp_some p obj 1 target img0 d0 hset
  -- set_up succeeds again: its checks do not depend on the image or on the (valid) start sub-iteration
  have hsome : ∀ t : Img, setUp p obj ((k : Int) + 1) t
      = some (if p.enforceInitialPositivity then thresholdMinToSmallPositiveValue t smallNumber else t, d0) := by
    intro t
    rw [setUp_start p obj ((k : Int) + 1) 1 t (by omega) (by omega)]
    unfold setUp at hset ⊢
    split_ifs at hset ⊢ <;> simp_all
  rw [hsome]
  congr 2
  rcases hpos with h | h
  · simp [h]
  · split_ifs
    · exact thresholdMin_of_all_pos _ _ smallNumber_pos smallNumber_le_one h
    · rfl

/-- the same for whole runs: if `k < num_subiterations`, resuming after sub-iteration `k` ends in exactly the final state
    of the uninterrupted run -/
theorem C08_restart_eq_run (p : Params) (obj : Objective) (target img0 d0 : Img) (k : Nat) (hk : 1 ≤ k)
    (hK : (k : Int) < p.numSubiterations)
    (hset : setUp p obj 1 target = some (img0, d0)) (hden : p.denominatorOnes = false)
    (hcurv : obj.priorIsZero = false → obj.curvDepends = false → ∀ a b, obj.curv a = obj.curv b)
    (hpos : p.enforceInitialPositivity = false ∨ ∀ v ∈ (loop p obj 1 k ⟨img0, d0, 1⟩).image, 0 < v) :
    run p obj ((k : Int) + 1) (loop p obj 1 k ⟨img0, d0, 1⟩).image = run p obj 1 target := by
  obtain ⟨h1, h2⟩ := C08_restart_eq p obj target img0 d0 k hk hset hden hcurv hpos
  unfold run
  rw [h1, hset]
  simp only [reconstruct]
  congr 1
  obtain ⟨K, hKe⟩ : ∃ K : Nat, p.numSubiterations = (K : Int) := ⟨p.numSubiterations.toNat, by omega⟩
  have e1 : (p.numSubiterations - ((k : Int) + 1) + 1).toNat = K - k := by omega
  have e2 : (p.numSubiterations - 1 + 1).toNat = k + (K - k) := by omega
  rw [e1, e2, h2 (K - k) (by omega)]
  -- loop (k + m) = loop m ∘ loop k
  have hadd : ∀ (a b : Nat) (s : State), loop p obj 1 (a + b) s = loop p obj 1 b (loop p obj 1 a s) := by
    intro a b s
    induction a generalizing s with
    | zero => simp [loop]
    | succ a ih =>
      have : a + 1 + b = (a + b) + 1 := by omega
      rw [this]
      simp only [loop]
      exact ih _
  rw [hadd]

/-- the non-identifiable voxels are exactly 0 in every iterate of every run when the penalised gradient vanishes on them (no
    prior: the back projection does not reach them) — and the iterates never get longer than the start image -/
theorem C08_nonidentifiable_stay_zero (p : Params) (obj : Objective) (start : Int) (mask : List Bool) (img d : Img) (n : Nat)
    (hub : 0 ≤ p.upperBound) (hfill : obj.fillNonIdent = fillMask mask)
    (hg : ∀ S y, ZeroOn mask (obj.grad S y)) :
    ZeroOn mask (loop p obj start (n + 1) ⟨img, d, start⟩).image ∧
      (loop p obj start (n + 1) ⟨img, d, start⟩).image.length ≤ img.length :=
  loop_zeroOn p obj start mask img d n hub hfill hg

/-- the surrogate curvature of the (real) quadratic prior does not depend on the image: `hcurv` of `C08_restart_eq` holds for
    every `Problem` whose prior is the quadratic prior -/
theorem C08_quadratic_curvature_independent (q : Problem) (pr : Prior) (hq : q.prior = some pr) (hd : pr.depends = false) :
    ∀ a b : Img, q.toObjective.curv a = q.toObjective.curv b := by
  intro a b
  show (q.curv a.toArray).toList = (q.curv b.toArray).toList
  unfold Problem.curv
  rw [hq]
  simp only
  unfold Prior.curvature
  rw [hd]
  rfl

/-! ### witnesses: each side condition of the restart theorem is necessary, and the documented set_up trap -/

/-- two voxels, voxel 0 has zero sensitivity; a "quadratic prior" couples them (gradient `x₁ - x₀` on voxel 0) -/
def witObjPrior : Objective where
  grad := fun _ x => match x with | [a, b] => [b - a, a - b - 1] | _ => []
  hessOnes := [0, -1]
  priorIsZero := false
  priorParabolic := true
  curv := fun _ => [1, 1]
  curvDepends := false
  fillNonIdent := fillMask [true, false]

def witParams : Params :=
  { numSubsets := 1, startSubset := 0, numSubiterations := 2, alpha := 1, gamma := 0, upperBound := 10,
    enforceInitialPositivity := false }

/-- the configuration that broke the restart clause before the repair (then a known candidate
    `restart:fill-nonidentifiable-rezeroes-penalty-driven-voxels`): with a prior, the penalty gradient moves the zero-sensitivity
    voxel away from 0 (`1/2` after the first sub-iteration).  The repaired code zeroes it again at the start of the second
    sub-iteration in the uninterrupted run too, so the resumed run (last line) reproduces it exactly. -/
theorem C08_restart_nonidentifiable_with_prior :
    setUp witParams witObjPrior 1 [5, 1] = some ([5, 1], [0, 1]) ∧
    loop witParams witObjPrior 1 1 ⟨[5, 1], [0, 1], 1⟩ = ⟨[1 / 2, 1 / 3], [2, 3], 2⟩ ∧
    (loop witParams witObjPrior 1 2 ⟨[5, 1], [0, 1], 1⟩).image = [1 / 6, 0] ∧
    (loop witParams witObjPrior 2 1 ⟨[1 / 2, 1 / 3], [0, 1], 2⟩).image = [1 / 6, 0] := by
  refine ⟨?_, ?_, ?_, ?_⟩ <;>
  · simp [setUp, precomputeDenominator, loop, step, updateEstimate, currentImage, denomUsed, denomStored, additiveUpdate,
      workDenominator, recomputePenalty, witObjPrior, witParams, fillMask, thresholdMinToSmallPositiveValue, minPositive,
      minPosStep, thresholdLower, thresholdUpperLower, relaxation, subsetNum, smallNumber]
    try norm_num

/-- no prior, no non-identifiable voxel; the gradient drives voxel 0 to the lower bound in the first sub-iteration -/
def witObjZero : Objective where
  grad := fun _ x => match x with | [a, _] => [if a == 1 then -5 else a, 0] | _ => []
  hessOnes := [-1, -1]
  priorIsZero := true
  priorParabolic := true
  curv := fun _ => []
  curvDepends := true
  fillNonIdent := fun x => x

/-- negative witness for `hpos`: the clamp produces an exact 0; a resumed run with `enforce_initial_positivity` on lifts it
    to `10.E-6F ·` (smallest positive voxel) in `set_up` and then moves on from there, the uninterrupted run stays at 0. -/
theorem C08_restart_fails_enforce_initial_positivity :
    (loop witParams witObjZero 1 1 ⟨[1, 1], [1, 1], 1⟩).image = [0, 1] ∧
    (loop witParams witObjZero 1 2 ⟨[1, 1], [1, 1], 1⟩).image = [0, 1] ∧
    setUp { witParams with enforceInitialPositivity := true } witObjZero 2 [0, 1] = some ([smallNumber, 1], [1, 1]) ∧
    (loop { witParams with enforceInitialPositivity := true } witObjZero 2 1 ⟨[smallNumber, 1], [1, 1], 2⟩).image
      = [2 * smallNumber, 1] := by
  refine ⟨?_, ?_, ?_, ?_⟩ <;>
  · simp [setUp, precomputeDenominator, loop, step, updateEstimate, currentImage, denomUsed, denomStored, additiveUpdate,
      workDenominator, recomputePenalty, witObjZero, witParams, thresholdMinToSmallPositiveValue, minPositive,
      minPosStep, thresholdLower, thresholdUpperLower, relaxation, subsetNum, smallNumber]
    try norm_num

/-- "This modifies *precomputed_denominator_ptr. So, you have to call set_up() before running a new reconstruction"
    (doc of `update_estimate`): a second `reconstruct()` on the same object without `set_up` adds the penalty curvature to the
    stored denominator a second time (3 → 5 here) and produces a different image than a run that was set up. -/
theorem C08_restart_needs_setup :
    let first := reconstruct witParams witObjPrior 1 [5, 1] [0, 1]
    first.denom = [2, 3] ∧
    (reconstruct witParams witObjPrior 1 [5, 1] first.denom).denom = [4, 5] ∧
    (reconstruct witParams witObjPrior 1 [5, 1] first.denom).image ≠ first.image := by
  have h1 : reconstruct witParams witObjPrior 1 [5, 1] [0, 1] = ⟨[1 / 6, 0], [2, 3], 3⟩ := by
    simp [reconstruct, loop, step, updateEstimate, currentImage, denomUsed, denomStored, additiveUpdate,
      workDenominator, recomputePenalty, witObjPrior, witParams, fillMask, thresholdMinToSmallPositiveValue, minPositive,
      minPosStep, thresholdLower, thresholdUpperLower, relaxation, smallNumber]
    norm_num
  have h2 : reconstruct witParams witObjPrior 1 [5, 1] [2, 3] = ⟨[3 / 20, 7 / 25], [4, 5], 3⟩ := by
    simp [reconstruct, loop, step, updateEstimate, currentImage, denomUsed, denomStored, additiveUpdate,
      workDenominator, recomputePenalty, witObjPrior, witParams, fillMask, thresholdMinToSmallPositiveValue, minPositive,
      minPosStep, thresholdLower, thresholdUpperLower, relaxation, smallNumber]
    norm_num
  simp only [h1, h2]
  refine ⟨trivial, trivial, ?_⟩
  norm_num

/-! ## non-vacuity: the hypotheses of the theorems above are satisfiable by concrete, non-trivial instances -/

/-- `C08_ossps_formula`: voxel 1 of the first sub-iteration of the witness problem (x = 1, g = -2, N = 1, D = 3, ζ = 1) -/
example : (updateEstimate witParams witObjPrior 1 ⟨[5, 1], [0, 1], 1⟩).image[1]?
    = some (thresholdUpperLower 0 10 (1 + (-2) * 1 / 3 * relaxation 1 0 1 1)) := by
  have := C08_ossps_formula witParams witObjPrior 1 ⟨[5, 1], [0, 1], 1⟩ 1 1 (-2) 3
    (by simp [currentImage, witObjPrior, fillMask])
    (by simp [currentImage, witObjPrior, fillMask, subsetNum, witParams]; norm_num)
    (by simp [currentImage, denomUsed, workDenominator, recomputePenalty, witObjPrior, fillMask,
          thresholdMinToSmallPositiveValue, minPositive, minPosStep, thresholdLower, smallNumber]; norm_num)
  simpa [witParams] using this

/-- `C08_in_bounds` / `C08_in_bounds_run`: the default upper bound (FLT_MAX) and any user value ≥ 0 qualify -/
example : (0 : Rat) ≤ witParams.upperBound := by simp [witParams]

/-- `C08_relaxation_schedule`: 4 subsets, full iteration 2, its last sub-iteration 12 (r = 4) -/
example : relaxation 1 (1 / 10) (2 * 4 + 4) 4 = 1 / (1 + 1 / 10 * ((2 : Int) : Rat)) :=
  C08_relaxation_schedule 1 (1 / 10) 4 2 4 (by norm_num) (by norm_num) (by norm_num) (by norm_num)

/-- `C08_relaxation_pos_antitone`: the OSSPS defaults alpha = 1, gamma = 0.1 -/
example : 0 < relaxation 1 (1 / 10) 7 3 ∧ relaxation 1 (1 / 10) 7 3 ≤ relaxation 1 (1 / 10) 2 3 ∧ relaxation 1 (1 / 10) 2 3 ≤ 1 :=
  C08_relaxation_pos_antitone 1 (1 / 10) 3 2 7 (by norm_num) (by norm_num) (by norm_num) (by norm_num) (by norm_num)

/-- a problem without prior in which the gradient vanishes on the non-identifiable voxel 0 -/
def witObjNoPrior : Objective where
  grad := fun _ x => match x with | [_, b] => [0, 1 - b] | _ => []
  hessOnes := [0, -2]
  priorIsZero := true
  priorParabolic := true
  curv := fun _ => []
  curvDepends := true
  fillNonIdent := fillMask [true, false]

/-- `C08_nonidentifiable_stay_zero`: all hypotheses hold for the no-prior witness -/
example : ZeroOn [true, false] (loop witParams witObjNoPrior 1 (3 + 1) ⟨[5, 3], [0, 2], 1⟩).image ∧
    (loop witParams witObjNoPrior 1 (3 + 1) ⟨[5, 3], [0, 2], 1⟩).image.length ≤ [(5 : Rat), 3].length := by
  apply C08_nonidentifiable_stay_zero witParams witObjNoPrior 1 [true, false] [5, 3] [0, 2] 3
  · simp [witParams]
  · rfl
  · intro S y j hj v hv
    simp only [witObjNoPrior] at hv
    match y, hv with
    | [a, b], hv =>
      match j, hj, hv with
      | 0, _, hv => simp at hv; exact hv.symm
      | 1, hj, _ => simp at hj
      | (n + 2), hj, _ => simp at hj
    | [], hv => simp at hv
    | [_], hv => simp at hv
    | _ :: _ :: _ :: _, hv => simp at hv

/-- `C08_restart_eq`: every hypothesis holds for the quadratic-prior witness WITH a non-identifiable voxel, resume after 1 -/
example : ∀ m : Nat, 1 ≤ m →
    loop witParams witObjPrior ((1 : Nat) + 1 : Int) m ⟨(loop witParams witObjPrior 1 1 ⟨[5, 1], [0, 1], 1⟩).image, [0, 1], ((1 : Nat) : Int) + 1⟩
      = loop witParams witObjPrior 1 m (loop witParams witObjPrior 1 1 ⟨[5, 1], [0, 1], 1⟩) :=
  (C08_restart_eq witParams witObjPrior [5, 1] [5, 1] [0, 1] 1 (le_refl _)
    (by simp [setUp, precomputeDenominator, witParams, witObjPrior]) rfl (fun _ _ _ _ => rfl) (Or.inl rfl)).2

/-! ## extensions: filters after the clamp, denominator from file, zeroed end planes -/

/-- "Iterates therefore always lie within [0, upper bound]" for the iterates `reconstruct` hands out and saves, i.e. AFTER
    `end_of_iteration_processing` has applied the inter-iteration filter (every `inter_iteration_filter_interval`
    sub-iterations) and the post filter (after the last sub-iteration): true for every run when both image processors map
    `[0, ub]ⁿ` into itself (`Filters.Preserve`) — OSSPS does not clamp again after filtering. -/
theorem C08_in_bounds_after_filters (f : Filters) (p : Params) (obj : Objective) (start : Int) (s : State) (n : Nat)
    (hub : 0 ≤ p.upperBound) (hf : f.Preserve p.upperBound) :
    ∀ v ∈ (loopF f p obj start (n + 1) s).image, 0 ≤ v ∧ v ≤ p.upperBound :=
  loopF_inBox f p obj start n s hub hf

/-- the real `SeparableConvolutionImageFilter` with three non-negative taps of sum ≤ 1 in y and x (zero boundary) is such a
    processor, for every image size and every upper bound ≥ 0 -/
theorem C08_smoothing_filter_preserves_bounds (ny nx : Nat) (cm c0 cp ub : Rat) (hcm : 0 ≤ cm) (hc0 : 0 ≤ c0) (hcp : 0 ≤ cp)
    (hsum : cm + c0 + cp ≤ 1) (hub : 0 ≤ ub) (x : Img) (hx : ∀ v ∈ x, 0 ≤ v ∧ v ≤ ub) :
    ∀ v ∈ sepConvYX ny nx cm c0 cp x, 0 ≤ v ∧ v ≤ ub :=
  sepConvYX_inBox ny nx cm c0 cp ub hcm hc0 hcp hsum hub x hx

/-- without filters the loop with `end_of_iteration_processing` is the plain loop: every theorem above about `loop` is about
    `loopF {}` -/
theorem C08_no_filters (p : Params) (obj : Objective) (start : Int) (n : Nat) (s : State) :
    loopF {} p obj start n s = loop p obj start n s :=
  loopF_noFilters p obj start n s

/-- the hypothesis `Filters.Preserve` is needed: a sharpening kernel (negative side lobes: -1/8, 5/4, -1/8) applied after the
    clamp takes the in-bounds image `[1, 0, 1]` (upper bound 1) to `[25/16, -5/16, 25/16]` — below 0 and above the upper bound —
    and `end_of_iteration_processing` hands that out as the iterate (the harness sees the real code do this: known finding
    `bounds:sharpening-filter-applied-after-clamp`) -/
theorem C08_in_bounds_fails_after_sharpening_filter :
    endOfIteration { interInterval := 1, inter := some (sepConvYX 1 3 (-1 / 8) (5 / 4) (-1 / 8)) } 5 2 [1, 0, 1]
      = [25 / 16, -5 / 16, 25 / 16] := by
  simp [endOfIteration, applyInterFilter, applyPostFilter, sepConvYX, conv3Axis, List.range, List.range.loop]
  norm_num

/-- "resuming from a saved iterate reproduces the uninterrupted run", resume variant `precomputed denominator := <file>` with the
    file `<prefix>_precomputed_denominator` that the uninterrupted run's `set_up` wrote (`d0`, read back with the characteristics
    of the image): `set_up` of the resumed run accepts the file, leaves the saved image alone, and from its first sub-iteration
    on the resumed run is in exactly the state of the uninterrupted run.  Same side conditions as `C08_restart_eq`. -/
theorem C08_restart_eq_saved_denominator (p : Params) (obj : Objective) (target img0 d0 : Img) (k : Nat) (hk : 1 ≤ k)
    (hset : setUp p obj 1 target = some (img0, d0)) (hden : p.denominatorOnes = false)
    (hcurv : obj.priorIsZero = false → obj.curvDepends = false → ∀ a b, obj.curv a = obj.curv b)
    (hpos : p.enforceInitialPositivity = false ∨ ∀ v ∈ (loop p obj 1 k ⟨img0, d0, 1⟩).image, 0 < v)
    (tc fc : Chars) (hsame : sameCharacteristics fc tc = true) :
    setUpFile p obj ((k : Int) + 1) tc (.image fc d0) (loop p obj 1 k ⟨img0, d0, 1⟩).image
        = some ((loop p obj 1 k ⟨img0, d0, 1⟩).image, d0) ∧
    ∀ m : Nat, 1 ≤ m →
      loop p obj ((k : Int) + 1) m ⟨(loop p obj 1 k ⟨img0, d0, 1⟩).image, d0, (k : Int) + 1⟩
        = loop p obj 1 m (loop p obj 1 k ⟨img0, d0, 1⟩) := by
  obtain ⟨h1, h2⟩ := C08_restart_eq p obj target img0 d0 k hk hset hden hcurv hpos
  exact ⟨setUpFile_of_setUp p obj _ tc fc _ _ d0 d0 h1 hsame, h2⟩

/-- a denominator file is used only if it can be read and has the characteristics of the image (origin within 0.01 mm, same
    index range, grid spacing within 10⁻⁴ relative): otherwise `set_up` refuses — whatever the other parameters;
    and when `set_up` succeeds the denominator is the file's content, nothing is computed -/
theorem C08_denominator_file (p : Params) (obj : Objective) (start : Int) (tc fc : Chars) (target v : Img) :
    (sameCharacteristics fc tc = false → setUpFile p obj start tc (.image fc v) target = none) ∧
    setUpFile p obj start tc .unreadable target = none ∧
    (∀ img d, setUpFile p obj start tc (.image fc v) target = some (img, d) →
        d = v ∧ sameCharacteristics fc tc = true ∧ ∃ d', setUp p obj start target = some (img, d')) := by
  refine ⟨fun hc => (setUpFile_refused p obj start tc fc target v hc).1, ?_, ?_⟩
  · unfold setUpFile
    cases setUp p obj start target <;> simp
  · intro img d h
    obtain ⟨fc', d', hfile, hc, hs⟩ := setUpFile_some p obj start tc _ target img d h
    cases hfile
    exact ⟨rfl, hc, d', hs⟩

/-- characteristics of the 5×5×3 image of 40 mm voxels of the harness' fixed case, and of files that differ from it -/
def witChars : Chars := { origin := [0, 0, 0], range := [0, 2, -2, 2, -2, 2], spacing := [2, 40, 40] }

/-- `has_same_characteristics` as the code has it: identical → yes; origin 1/256 mm off → yes (inside the 0.01 mm tolerance);
    origin 0.5 mm off → no; one voxel more → no; voxels 1.5 times as large → no; voxel size 2⁻¹⁶ relative off → yes -/
theorem C08_same_characteristics_examples :
    sameCharacteristics witChars witChars = true ∧
    sameCharacteristics { witChars with origin := [0, 0, 1 / 256] } witChars = true ∧
    sameCharacteristics { witChars with origin := [0, 1 / 2, 0] } witChars = false ∧
    sameCharacteristics { witChars with range := [0, 2, -2, 3, -2, 3] } witChars = false ∧
    sameCharacteristics { witChars with spacing := [2, 60, 60] } witChars = false ∧
    sameCharacteristics { witChars with spacing := [2, 40 + 40 / 65536, 40 + 40 / 65536] } witChars = true := by
  refine ⟨?_, ?_, ?_, ?_, ?_, ?_⟩ <;>
  · simp [sameCharacteristics, witChars, normSq, originTolerance, spacingTolerance]
    try norm_num

/-- one voxel, two bins of one subset seeing it with weight 1, both with 2 counts; the second bin lies in an end plane of
    segment 0 and `zero_seg0_end_planes` is set -/
def witZeroed : Problem :=
  { nz := 1, ny := 1, nx := 1, numSubsets := 1, numViewgrams := 2, prior := none, priorNotParabolic := false,
    rows := #[{ vg := 0, subset := 0, y := 2, add := 0, elems := [(0, 1)] },
              { vg := 1, subset := 0, y := 2, add := 0, elems := [(0, 1)], zeroed := true }] }

/-- the clause "D = minus the approximate log-likelihood Hessian applied to a uniform image" with `zero_seg0_end_planes`
    (repaired code; before `fix: Hessian functions honour zero_seg0_end_planes` the denominator counted the zeroed bin: known
    finding `denominator:includes-zeroed-seg0-end-planes`): gradient, sensitivity AND denominator leave the zeroed bin out
    (gradient at x = 1: 2/1 - 1 = 1, sensitivity 1, denominator 1/2: the Hessian of the one-bin objective on the uniform image,
    the same as for the problem without the zeroed bin) -/
theorem C08_denominator_excludes_zeroed_end_planes :
    witZeroed.gradLik 0 #[1] = #[1] ∧ witZeroed.sensitivity = #[1] ∧ witZeroed.hessOnes = #[-1 / 2] ∧
      ({ witZeroed with rows := witZeroed.rows.pop } : Problem).hessOnes = #[-1 / 2] := by
  refine ⟨?_, ?_, ?_, ?_⟩ <;> decide +kernel

/-- non-vacuity of `C08_in_bounds_after_filters` + `C08_smoothing_filter_preserves_bounds`: the harness' smoothing filter
    (1/4, 1/2, 1/4) as inter-iteration filter (every sub-iteration) and post filter satisfies `Filters.Preserve` -/
example (ny nx : Nat) (ub : Rat) (hub : 0 ≤ ub) :
    Filters.Preserve { interInterval := 1, inter := some (sepConvYX ny nx (1 / 4) (1 / 2) (1 / 4)),
                       post := some (sepConvYX ny nx (1 / 4) (1 / 2) (1 / 4)) } ub := by
  constructor <;>
  · intro g hg img himg
    simp only [Option.some.injEq] at hg
    subst hg
    exact sepConvYX_inBox ny nx _ _ _ ub (by norm_num) (by norm_num) (by norm_num) (by norm_num) hub img himg

/-- non-vacuity of `C08_restart_eq_saved_denominator`: the quadratic-prior witness, resume after 1 with the saved denominator -/
example : setUpFile witParams witObjPrior ((1 : Nat) + 1 : Int) witChars (.image witChars [0, 1])
      (loop witParams witObjPrior 1 1 ⟨[5, 1], [0, 1], 1⟩).image
    = some ((loop witParams witObjPrior 1 1 ⟨[5, 1], [0, 1], 1⟩).image, [0, 1]) :=
  (C08_restart_eq_saved_denominator witParams witObjPrior [5, 1] [5, 1] [0, 1] 1 (le_refl _)
    (by simp [setUp, precomputeDenominator, witParams, witObjPrior]) rfl (fun _ _ _ _ => rfl) (Or.inl rfl)
    witChars witChars C08_same_characteristics_examples.1).1

/-! ## one object, several runs -/

/-- "D the strictly positive precomputed curvature (minus the approximate log-likelihood Hessian applied to a uniform image,
    plus twice the prior's surrogate curvature)" — for an object that has been set up and run before: `set_up` succeeds or
    refuses, and returns the image and the stored denominator, exactly as on a fresh object (`old = none`), whatever denominator
    `old` the earlier run left (after a run with a prior: data part + 2·curvature; possibly for other data).  With `precomputed
    denominator` not given the stored denominator is minus the approximate Hessian of the CURRENT objective function on the
    uniform image, and the first sub-iteration of the new run divides by that plus twice the prior's curvature — once, not once
    per earlier run. -/
theorem C08_setup_again_resets_denominator (p : Params) (obj : Objective) (start : Int) (file : Option (Chars × DenomFile))
    (old : Option Img) (target : Img) :
    setUpObject p obj start file old target = setUpObject p obj start file none target ∧
    (∀ img d, file = none → p.denominatorOnes = false → setUpObject p obj start file old target = some (img, d) →
      d = obj.hessOnes.map (fun a => -a) ∧
      ∀ x, denomUsed obj true x d
        = thresholdMinToSmallPositiveValue
            (if obj.priorIsZero then obj.hessOnes.map (fun a => -a)
             else List.zipWith (fun c d => c * 2 + d) (obj.curv x) (obj.hessOnes.map (fun a => -a))) smallNumber) := by
  refine ⟨rfl, ?_⟩
  intro img d hf hd h
  subst hf
  have hd0 : d = obj.hessOnes.map (fun a => -a) := C08_denominator_after_setup p obj start target img d h hd
  refine ⟨hd0, fun x => ?_⟩
  rw [(C08_denominator_used obj x d).1, hd0]

/-- Histories on one object: `set_up(target)` → `reconstruct(target)` → (the user changes input data, additive term,
    normalisation, number of subsets, relaxation parameters, prior, start sub-iteration, initial image, `precomputed
    denominator`) → `set_up` again → `reconstruct` …, any number of runs, starting from any object state `old`.
    Every run of the history ends in exactly the state (image, stored denominator, counter) that a FRESH object configured
    identically reaches; the history as a whole fails iff one of the `set_up`s would refuse on a fresh object. -/
theorem C08_reuse_eq_fresh (old : Option Img) (rs : List RunSpec) :
    (∀ ss, runHistory old rs = some ss →
        ss.length = rs.length ∧ ∀ (i : Nat) (r : RunSpec), rs[i]? = some r → ss[i]? = runObject none r) ∧
    (runHistory old rs = none → ∃ r ∈ rs, runObject none r = none) := by
  rw [runHistory_eq_freshRuns]
  exact ⟨freshRuns_get rs, freshRuns_none rs⟩

/-- "With no prior or a quadratic prior, resuming from a saved iterate reproduces the uninterrupted run" when the resumed run is
    made by RE-USING the object of the interrupted run (whatever stored denominator `old` it was left with — the interrupted
    run's `D` includes the prior's curvature already): `set_start_subiteration_num(k+1)`, `set_up(saved image)`,
    `reconstruct(saved image)` ends in the final state of the uninterrupted run.  Hypotheses as in `C08_restart_eq_run`. -/
theorem C08_restart_eq_reused_object (p : Params) (obj : Objective) (target img0 d0 : Img) (k : Nat) (hk : 1 ≤ k)
    (hK : (k : Int) < p.numSubiterations)
    (hset : setUp p obj 1 target = some (img0, d0)) (hden : p.denominatorOnes = false)
    (hcurv : obj.priorIsZero = false → obj.curvDepends = false → ∀ a b, obj.curv a = obj.curv b)
    (hpos : p.enforceInitialPositivity = false ∨ ∀ v ∈ (loop p obj 1 k ⟨img0, d0, 1⟩).image, 0 < v) (old : Option Img) :
    runObject old { p := p, obj := obj, start := (k : Int) + 1, target := (loop p obj 1 k ⟨img0, d0, 1⟩).image }
      = run p obj 1 target := by
  rw [runObject_computed]
  exact C08_restart_eq_run p obj target img0 d0 k hk hK hset hden hcurv hpos

/-- the quadratic-prior witness as a run of an object -/
def witRun : RunSpec := { p := witParams, obj := witObjPrior, start := 1, target := [5, 1] }

/-- the same problem with other data: the approximate Hessian on the uniform image is `[0, -3]` instead of `[0, -1]` -/
def witRunOtherData : RunSpec := { witRun with obj := { witObjPrior with hessOnes := [0, -3] } }

/-- non-vacuity of `C08_reuse_eq_fresh`, and the contrast with `C08_restart_needs_setup`: three consecutive runs on one object,
    each after `set_up` — the second repeats the first exactly (stored denominator `[2, 3]` again, not `[4, 5]` as without
    `set_up`), the third, after the data were changed, uses the denominator of the new data (`[0, 3] + 2·[1, 1]`), not the stale
    one -/
theorem C08_reuse_history_example :
    runHistory none [witRun, witRun, witRunOtherData]
      = some [⟨[1 / 6, 0], [2, 3], 3⟩, ⟨[1 / 6, 0], [2, 3], 3⟩, ⟨[3 / 10, 7 / 25], [2, 5], 3⟩] := by
  have h1 : runObject none witRun = some ⟨[1 / 6, 0], [2, 3], 3⟩ := by decide +kernel
  have h2 : runObject none witRunOtherData = some ⟨[3 / 10, 7 / 25], [2, 5], 3⟩ := by decide +kernel
  rw [runHistory_eq_freshRuns]
  simp only [freshRuns, h1, h2]

/-- non-vacuity of `C08_restart_eq_reused_object`: the quadratic-prior witness (with a non-identifiable voxel), interrupted
    after sub-iteration 1 and resumed on the same object, which was left with the stored denominator `[2, 3]` -/
example : runObject (some [2, 3])
      { p := witParams, obj := witObjPrior, start := ((1 : Nat) : Int) + 1,
        target := (loop witParams witObjPrior 1 1 ⟨[5, 1], [0, 1], 1⟩).image }
    = run witParams witObjPrior 1 [5, 1] :=
  C08_restart_eq_reused_object witParams witObjPrior [5, 1] [5, 1] [0, 1] 1 (le_refl _) (by simp [witParams])
    (by simp [setUp, precomputeDenominator, witParams, witObjPrior]) rfl (fun _ _ _ _ => rfl) (Or.inl rfl) (some [2, 3])

/-! ## restricted segment / TOF range, voxels nothing sees -/

/-- "Phi the penalised objective … D … minus the approximate log-likelihood Hessian applied to a uniform image": when the
    objective function is restricted to fewer segments / TOF bins than the data have (`maximum absolute segment number to
    process`, `set_max_timing_pos_num_to_process`), the sub-gradient of every subset, the sensitivity (hence the non-identifiable
    voxels), the balancing of the subsets AND the approximate Hessian on the uniform image (hence D) are those of one and the same
    problem: `q.restrict`, whose data consist of exactly the bins inside the range (and which has no restriction left).  So D
    belongs to the same Phi as the gradient — for every problem, every range, every image. -/
theorem C08_restricted_range_is_one_matrix (q : Problem) :
    (∀ S x, q.gradLik S x = q.restrict.gradLik S x) ∧ q.hessOnes = q.restrict.hessOnes ∧
    q.sensitivity = q.restrict.sensitivity ∧ q.nonIdent = q.restrict.nonIdent ∧ q.balanced = q.restrict.balanced ∧
    (∀ r ∈ q.restrict.rows, r ∈ q.rows ∧ q.processed r = true) ∧
    (∀ r ∈ q.rows, q.processed r = true → r ∈ q.restrict.rows) := by
  refine ⟨fun S x => (gradLik_restrict q S x).symm, (hessOnes_restrict q).symm, (sensitivity_restrict q).symm, ?_,
    (balanced_restrict q).symm, ?_, ?_⟩
  · unfold Problem.nonIdent; rw [sensitivity_restrict]
  · intro r hr
    have : r ∈ q.rows.filter q.processed := hr
    simpa using this
  · intro r hr hp
    show r ∈ q.rows.filter q.processed
    simp [hr, hp]

/-- `set_up` refuses (`error("max_segment_num_to_process (%d) is too large")`, same for the TOF bins) a range that exceeds the
    data's: no OSSPS run, whatever the other parameters -/
theorem C08_range_larger_than_data_refused (p : Params) (q : Problem) (start : Int) (target : Img)
    (h : (∃ m, q.maxSegToProcess = some m ∧ q.dataMaxSeg < m) ∨ (∃ m, q.maxTofToProcess = some m ∧ q.dataMaxTof < m)) :
    run p q.toObjective start target = none := by
  have hok : q.toObjective.setUpOk = false := by
    show q.setUpOk = false
    unfold Problem.setUpOk Problem.rangeOk
    rcases h with ⟨m, hm, hlt⟩ | ⟨m, hm, hlt⟩
    · rw [hm]; simp; intro h1; omega
    · rw [hm]; simp; intro _ h1; omega
  unfold run setUp
  rw [hok]
  split_ifs <;> simp_all

/-- one voxel, one subset, two bins seeing it with weight 1 and 2 counts each: one in segment 0, one in segment 1; the
    objective function is restricted to segment 0 -/
def witSegs : Problem :=
  { nz := 1, ny := 1, nx := 1, numSubsets := 1, numViewgrams := 2, prior := none, priorNotParabolic := false,
    maxSegToProcess := some 0, dataMaxSeg := 1,
    rows := #[{ vg := 0, subset := 0, y := 2, add := 0, elems := [(0, 1)], seg := 0 },
              { vg := 1, subset := 0, y := 2, add := 0, elems := [(0, 1)], seg := 1 }] }

/-- non-vacuity of `C08_restricted_range_is_one_matrix`, and what goes wrong when ONE of the quantities takes the data's own
    segment range instead (the seeded slip "handle asymmetric segment ranges" in the approximate Hessian): gradient (at x = 1:
    2/1 - 1 = 1), sensitivity (1) and D (1/2) of the restricted problem are those of the one-bin problem; with all segments D
    would be 1 — twice as large, every OSSPS step half as long — while gradient and sensitivity stay those of one bin. -/
theorem C08_restricted_range_example :
    witSegs.gradLik 0 #[1] = #[1] ∧ witSegs.sensitivity = #[1] ∧ witSegs.hessOnes = #[-1 / 2] ∧
    witSegs.restrict.rows.size = 1 ∧ witSegs.setUpOk = true ∧
    ({ witSegs with maxSegToProcess := none } : Problem).hessOnes = #[-1] ∧
    ({ witSegs with maxSegToProcess := some 2 } : Problem).setUpOk = false := by
  refine ⟨?_, ?_, ?_, ?_, ?_, ?_, ?_⟩ <;> decide +kernel

/-- the model side of the oracle clause "a voxel whose gradient component is 0 keeps its (clamped) value": with the strictly
    positive — in particular finite, non-zero — denominator the update `ζ·N·0/D` is 0.  (In float arithmetic a denominator that
    is exactly 0 would give 0/0 = NaN here; `C08_D_positive_in_run` is what excludes it.) -/
theorem C08_zero_gradient_voxel_keeps_value (p : Params) (obj : Objective) (start : Int) (s : State) (j : Nat) (xj dj : Rat)
    (hx : (currentImage obj s.image)[j]? = some xj)
    (hg : (obj.grad (subsetNum s.k p.startSubset p.numSubsets) (currentImage obj s.image))[j]? = some 0)
    (hd : (denomUsed obj (s.k == start) (currentImage obj s.image) s.denom)[j]? = some dj) :
    (updateEstimate p obj start s).image[j]? = some (thresholdUpperLower 0 p.upperBound xj) := by
  rw [C08_ossps_formula p obj start s j xj 0 dj hx hg hd]
  simp

/-- three voxels in a row; voxel 0 is seen by no bin and has kappa 0 (a kappa image as it looks outside the FOV), voxels 1 and
    2 are seen by one bin each (2 counts) and have kappa 1; quadratic prior, weights 1 for the two in-line neighbours, factor 1 -/
def witKappaZero : Problem :=
  { nz := 1, ny := 1, nx := 3, numSubsets := 1, numViewgrams := 1, priorNotParabolic := false,
    prior := some { beta := 1, wMinZ := 0, wMaxZ := 0, wMinY := 0, wMaxY := 0, wMinX := -1, wMaxX := 1, weights := #[1, 0, 1],
                    kappa := some #[0, 1, 1], depends := false },
    rows := #[{ vg := 0, subset := 0, y := 2, add := 0, elems := [(1, 1)] },
              { vg := 0, subset := 0, y := 2, add := 0, elems := [(2, 1)] }] }

/-- "D the strictly positive precomputed curvature (… plus twice the prior's surrogate curvature)" with a prior PRESENT whose
    curvature vanishes where the data see nothing: data part `[0, 1/2, 1/2]`, penalty curvature `[0, 1, 1]`, so before the
    thresholding D is EXACTLY 0 in voxel 0 — the penalty does not make the denominator positive — and
    `threshold_min_to_small_positive_value` (applied after the penalty term was added, prior or no prior) lifts it to `10.E-6F`
    times the smallest positive element.  The voxel has gradient 0 (neither data nor penalty see it) and keeps its value 0. -/
theorem C08_D_zero_before_thresholding_with_prior :
    witKappaZero.toObjective.priorIsZero = false ∧
    precomputeDenominator witKappaZero.toObjective = [0, 1 / 2, 1 / 2] ∧
    witKappaZero.toObjective.curv [0, 1, 3] = [0, 1, 1] ∧
    denomUsed witKappaZero.toObjective true [0, 1, 3] [0, 1 / 2, 1 / 2] = [5 / 2 * smallNumber, 5 / 2, 5 / 2] ∧
    witKappaZero.toObjective.grad 0 [0, 1, 3] = [0, 3, -7 / 3] ∧
    (updateEstimate { witParams with numSubiterations := 1 } witKappaZero.toObjective 1 ⟨[0, 1, 3], [0, 1 / 2, 1 / 2], 1⟩).image
      = [0, 11 / 5, 31 / 15] := by
  refine ⟨?_, ?_, ?_, ?_, ?_, ?_⟩ <;> decide +kernel

/-- non-vacuity of `C08_zero_gradient_voxel_keeps_value`: voxel 0 of the problem above -/
example : (updateEstimate { witParams with numSubiterations := 1 } witKappaZero.toObjective 1
      ⟨[0, 1, 3], [0, 1 / 2, 1 / 2], 1⟩).image[0]? = some (thresholdUpperLower 0 10 0) :=
  C08_zero_gradient_voxel_keeps_value { witParams with numSubiterations := 1 } witKappaZero.toObjective 1
    ⟨[0, 1, 3], [0, 1 / 2, 1 / 2], 1⟩ 0 0 (5 / 2 * smallNumber) (by decide +kernel) (by decide +kernel) (by decide +kernel)

/-- non-vacuity of `C08_range_larger_than_data_refused`: the two-segment problem asked to process segments -2 … 2 -/
example : run witParams ({ witSegs with maxSegToProcess := some 2 } : Problem).toObjective 1 [1] = none :=
  C08_range_larger_than_data_refused witParams _ 1 [1] (Or.inl ⟨2, rfl, by decide⟩)

end StirVerif.C08
