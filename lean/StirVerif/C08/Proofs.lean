/-
C08 — helper lemmas: thresholding, the relaxation's integer division, positivity of the denominator.
-/
import StirVerif.C08.Model
import Mathlib.Tactic.Linarith
import Mathlib.Tactic.Ring
import Mathlib.Tactic.Positivity
import Mathlib.Tactic.NormNum
import Mathlib.Tactic.FieldSimp
import Mathlib.Algebra.Order.Field.Rat
import Mathlib.Algebra.Order.Field.Basic

namespace StirVerif.C08

/-! ### threshold_upper_lower -/

theorem thresholdUpperLower_bounds (lo hi x : Rat) (h : lo ≤ hi) :
    lo ≤ thresholdUpperLower lo hi x ∧ thresholdUpperLower lo hi x ≤ hi := by
  unfold thresholdUpperLower
  split_ifs with h1 h2
  · exact ⟨h, le_refl _⟩
  · exact ⟨le_refl _, h⟩
  · exact ⟨not_lt.mp h2, not_lt.mp h1⟩

theorem thresholdUpperLower_of_mem (lo hi x : Rat) (h1 : lo ≤ x) (h2 : x ≤ hi) : thresholdUpperLower lo hi x = x := by
  unfold thresholdUpperLower
  rw [if_neg (not_lt.mpr h2), if_neg (not_lt.mpr h1)]

/-! ### min_positive_element -/

theorem minPosStep_pos (acc : Option Rat) (x : Rat) (h : ∀ m, acc = some m → 0 < m) :
    ∀ m, minPosStep acc x = some m → 0 < m := by
  intro m hm
  unfold minPosStep at hm
  split_ifs at hm with hx
  · exact h m hm
  · cases acc with
    | none => simp at hm; subst hm; exact not_le.mp hx
    | some a =>
      simp only at hm
      split_ifs at hm with h2
      · simp at hm; subst hm; exact not_le.mp hx
      · simp at hm; subst hm; exact h a rfl

/-- the scan of `min_positive_element`: the result is positive, not larger than the running value it started from,
    and not larger than any positive element scanned; it is `none` only if nothing positive was seen -/
theorem foldl_minPosStep_spec (l : Img) : ∀ (acc : Option Rat), (∀ m, acc = some m → 0 < m) →
    (∀ m, l.foldl minPosStep acc = some m →
        0 < m ∧ (∀ a, acc = some a → m ≤ a) ∧ (∀ x ∈ l, 0 < x → m ≤ x)) ∧
    (l.foldl minPosStep acc = none → acc = none ∧ ∀ x ∈ l, x ≤ 0) := by
  induction l with
  | nil =>
    intro acc hacc
    refine ⟨?_, ?_⟩
    · intro m hm
      simp only [List.foldl_nil] at hm
      exact ⟨hacc m hm, fun a ha => by rw [hm] at ha; injection ha with ha; exact le_of_eq ha, by simp⟩
    · intro h
      simp only [List.foldl_nil] at h
      exact ⟨h, by simp⟩
  | cons y t ih =>
    intro acc hacc
    have hstep := minPosStep_pos acc y hacc
    obtain ⟨ih1, ih2⟩ := ih (minPosStep acc y) hstep
    simp only [List.foldl_cons]
    refine ⟨?_, ?_⟩
    · intro m hm
      obtain ⟨hpos, hle, hall⟩ := ih1 m hm
      refine ⟨hpos, ?_, ?_⟩
      · intro a ha
        subst ha
        unfold minPosStep at hle
        by_cases hy : y ≤ 0
        · rw [if_pos hy] at hle; exact hle a rfl
        · rw [if_neg hy] at hle
          simp only at hle
          by_cases h2 : y < a
          · rw [if_pos h2] at hle
            exact le_trans (hle y rfl) (le_of_lt h2)
          · rw [if_neg h2] at hle; exact hle a rfl
      · intro x hx hxpos
        rcases List.mem_cons.mp hx with rfl | hx'
        · unfold minPosStep at hle
          rw [if_neg (not_le.mpr hxpos)] at hle
          cases acc with
          | none => exact hle x rfl
          | some a =>
            simp only at hle
            by_cases h2 : x < a
            · rw [if_pos h2] at hle; exact hle x rfl
            · rw [if_neg h2] at hle; exact le_trans (hle a rfl) (not_lt.mp h2)
        · exact hall x hx' hxpos
    · intro h
      obtain ⟨hnone, hall⟩ := ih2 h
      unfold minPosStep at hnone
      by_cases hy : y ≤ 0
      · rw [if_pos hy] at hnone
        refine ⟨hnone, ?_⟩
        intro x hx
        rcases List.mem_cons.mp hx with rfl | hx'
        · exact hy
        · exact hall x hx'
      · rw [if_neg hy] at hnone
        cases acc with
        | none => simp at hnone
        | some a =>
          simp only at hnone
          split_ifs at hnone

theorem minPositive_some (l : Img) (m : Rat) (h : minPositive l = some m) :
    0 < m ∧ ∀ x ∈ l, 0 < x → m ≤ x := by
  have := (foldl_minPosStep_spec l none (by simp)).1 m h
  exact ⟨this.1, this.2.2⟩

theorem minPositive_none (l : Img) (h : minPositive l = none) : ∀ x ∈ l, x ≤ 0 :=
  ((foldl_minPosStep_spec l none (by simp)).2 h).2

/-! ### threshold_min_to_small_positive_value -/

theorem smallNumber_pos : 0 < smallNumber := by unfold smallNumber; norm_num
theorem smallNumber_le_one : smallNumber ≤ 1 := by unfold smallNumber; norm_num

/-- every element of the thresholded sequence is strictly positive -/
theorem thresholdMin_pos (l : Img) (small : Rat) (hs : 0 < small) :
    ∀ v ∈ thresholdMinToSmallPositiveValue l small, 0 < v := by
  intro v hv
  unfold thresholdMinToSmallPositiveValue at hv
  cases hm : minPositive l with
  | none =>
    rw [hm] at hv
    simp only [List.mem_map] at hv
    obtain ⟨_, _, rfl⟩ := hv
    exact hs
  | some m =>
    rw [hm] at hv
    simp only [List.mem_map] at hv
    obtain ⟨x, _, rfl⟩ := hv
    have hmpos := (minPositive_some l m hm).1
    have : 0 < m * small := mul_pos hmpos hs
    unfold thresholdLower
    split_ifs with h
    · exact this
    · exact lt_of_lt_of_le this (not_lt.mp h)

/-- … and at least `small` times the smallest positive element (or `small` itself when there is none) -/
theorem thresholdMin_lower_bound (l : Img) (small : Rat) :
    ∀ v ∈ thresholdMinToSmallPositiveValue l small,
      (match minPositive l with | some m => m * small | none => small) ≤ v := by
  intro v hv
  unfold thresholdMinToSmallPositiveValue at hv
  cases hm : minPositive l with
  | none =>
    rw [hm] at hv
    simp only [List.mem_map] at hv
    obtain ⟨_, _, rfl⟩ := hv
    exact le_refl _
  | some m =>
    rw [hm] at hv
    simp only [List.mem_map] at hv
    obtain ⟨x, _, rfl⟩ := hv
    simp only
    unfold thresholdLower
    split_ifs with h
    · exact le_refl _
    · exact not_lt.mp h

/-- strictly positive elements are left alone (for `small ≤ 1`) -/
theorem thresholdLower_of_pos (l : Img) (small : Rat) (hs : small ≤ 1) (m : Rat) (hm : minPositive l = some m)
    (x : Rat) (hx : x ∈ l) (hpos : 0 < x) : thresholdLower (m * small) x = x := by
  obtain ⟨hmpos, hmin⟩ := minPositive_some l m hm
  unfold thresholdLower
  rw [if_neg]
  have h1 : m * small ≤ m := by nlinarith
  exact not_lt.mpr (le_trans h1 (hmin x hx hpos))

/-- a sequence of strictly positive numbers is not changed at all (for `0 < small ≤ 1`) -/
theorem thresholdMin_of_all_pos (l : Img) (small : Rat) (hs0 : 0 < small) (hs : small ≤ 1) (h : ∀ x ∈ l, 0 < x) :
    thresholdMinToSmallPositiveValue l small = l := by
  unfold thresholdMinToSmallPositiveValue
  cases hm : minPositive l with
  | none =>
    have hall := minPositive_none l hm
    cases l with
    | nil => simp
    | cons a t =>
      exfalso
      have h1 := h a (by simp)
      have h2 := hall a (by simp)
      linarith
  | some m =>
    simp only
    conv_rhs => rw [← List.map_id l]
    apply List.map_congr_left
    intro x hx
    simp only [id]
    exact thresholdLower_of_pos l small hs m hm x hx (h x hx)

theorem thresholdMin_length (l : Img) (small : Rat) : (thresholdMinToSmallPositiveValue l small).length = l.length := by
  unfold thresholdMinToSmallPositiveValue
  cases minPositive l <;> simp

/-- thresholding twice is thresholding once (`0 < small ≤ 1`) -/
theorem thresholdMin_idem (l : Img) (small : Rat) (hs0 : 0 < small) (hs : small ≤ 1) :
    thresholdMinToSmallPositiveValue (thresholdMinToSmallPositiveValue l small) small
      = thresholdMinToSmallPositiveValue l small :=
  thresholdMin_of_all_pos _ small hs0 hs (thresholdMin_pos l small hs0)

/-! ### relaxation -/

theorem tdiv_block (N n r : Int) (hN : 1 ≤ N) (hn : 0 ≤ n) (hr0 : 0 ≤ r) (hr : r < N) : (n * N + r).tdiv N = n := by
  have hnonneg : 0 ≤ n * N + r := by nlinarith
  rw [Int.tdiv_eq_ediv_of_nonneg hnonneg]
  rw [add_comm, Int.add_mul_ediv_right _ _ (by omega : N ≠ 0)]
  rw [Int.ediv_eq_zero_of_lt hr0 hr]
  simp

/-- sub-iteration `k = n·N + r`, `1 ≤ r ≤ N`, belongs to full iteration `n`: `(k - 1) / N = n` -/
theorem tdiv_block_pred (N n r : Int) (hN : 1 ≤ N) (hn : 0 ≤ n) (hr1 : 1 ≤ r) (hr : r ≤ N) :
    (n * N + r - 1).tdiv N = n := by
  have : n * N + r - 1 = n * N + (r - 1) := by ring
  rw [this]
  exact tdiv_block N n (r - 1) hN hn (by omega) (by omega)

end StirVerif.C08
