/-
C09 — the prior OBJECT (`NbPrior`): lazily computed default weights, `set_up`, weights given with `weights :=`.
-/
import StirVerif.C09.ProofsMisc
import StirVerif.C09.ProofsCalc
import StirVerif.C09.ProofsPls

namespace StirVerif.C09
open Finset

/-! ### default weights (`compute_weights`) -/

theorem defaultWeightsBox_sym (only2D : Bool) : SymBox (defaultWeightsBox only2D) := by
  cases only2D <;> decide

theorem defaultWeightsBox_not_empty (only2D : Bool) : weightsEmpty (defaultWeightsBox only2D) = false := by
  cases only2D <;> decide

/-- `compute_weights` gives `w(-d) = w(d)` for every grid spacing -/
theorem defaultWeights_neg (sz sy sx : ℝ) (dz dy dx : Int) :
    defaultWeights (fun n : Int => (n : ℝ)) sz sy sx (-dz) (-dy) (-dx) = defaultWeights (fun n : Int => (n : ℝ)) sz sy sx dz dy dx := by
  unfold defaultWeights
  have hc : ((-dz == 0 && -dy == 0 && -dx == 0) : Bool) = (dz == 0 && dy == 0 && dx == 0) := by
    rw [Bool.eq_iff_iff]; simp
  rw [hc]
  simp only [sq, Int.cast_neg, neg_mul, mul_neg, neg_neg]

theorem defaultWeights_symmetric (only2D : Bool) (sz sy sx : ℝ) :
    SymWeights (defaultWeightsBox only2D) (defaultWeights (fun n : Int => (n : ℝ)) sz sy sx) :=
  ⟨defaultWeightsBox_sym only2D, fun dz dy dx _ => defaultWeights_neg sz sy sx dz dy dx⟩

theorem defaultWeights_nonneg (sz sy sx : ℝ) (hx : 0 ≤ sx) (dz dy dx : Int) :
    0 ≤ defaultWeights (fun n : Int => (n : ℝ)) sz sy sx dz dy dx := by
  unfold defaultWeights
  split_ifs
  · exact le_refl _
  · exact div_nonneg hx (Real.sqrt_nonneg _)

/-! ### the object: weights are computed once -/

section obj
variable {K : Type}

theorem lazyWeights_of_not_empty (dflt : K → K → K → Img K) (o : NbPrior K) (sz sy sx : K) (h : weightsEmpty o.wb = false) :
    o.lazyWeights dflt sz sy sx = o := by
  unfold NbPrior.lazyWeights; simp [h]

theorem lazyWeights_not_empty (dflt : K → K → K → Img K) (o : NbPrior K) (sz sy sx : K) :
    weightsEmpty (o.lazyWeights dflt sz sy sx).wb = false := by
  unfold NbPrior.lazyWeights
  by_cases h : weightsEmpty o.wb = true
  · simp [h, defaultWeightsBox_not_empty]
  · simp [h]

variable [Zero K] [BEq K]

/-- a second call (of any API function, with an image of any other grid spacing) changes nothing -/
theorem afterCall_afterCall (dflt : K → K → K → Img K) (o : NbPrior K) (s1z s1y s1x s2z s2y s2x : K) :
    (o.afterCall dflt s1z s1y s1x).afterCall dflt s2z s2y s2x = o.afterCall dflt s1z s1y s1x := by
  unfold NbPrior.afterCall
  by_cases hpf : (o.pf == 0) = true
  · simp [hpf]
  · have hpf' : ((o.lazyWeights dflt s1z s1y s1x).pf == 0) = false := by
      unfold NbPrior.lazyWeights; split_ifs <;> simpa using hpf
    simp only [hpf, hpf', Bool.false_eq_true, if_false]
    exact lazyWeights_of_not_empty dflt _ _ _ _ (lazyWeights_not_empty dflt o _ _ _)

end obj

/-- the invariant of an object that never got user weights: no weights yet, or symmetric non-negative ones -/
def DefaultOrEmpty (o : NbPrior ℝ) : Prop :=
  weightsEmpty o.wb = true ∨ (SymWeights o.wb o.w ∧ ∀ dz dy dx, InBox o.wb dz dy dx → 0 ≤ o.w dz dy dx)

theorem afterCall_invariant (o : NbPrior ℝ) (sz sy sx : ℝ) (hx : 0 ≤ sx) (h : DefaultOrEmpty o) :
    DefaultOrEmpty ((o.afterCall (defaultWeights fun n : Int => (n : ℝ)) sz sy sx).setUp) := by
  have hcall : DefaultOrEmpty (o.afterCall (defaultWeights fun n : Int => (n : ℝ)) sz sy sx) := by
    unfold NbPrior.afterCall
    split_ifs with hpf
    · exact h
    · unfold NbPrior.lazyWeights
      split_ifs with he
      · exact Or.inr ⟨defaultWeights_symmetric _ _ _ _, fun dz dy dx _ => defaultWeights_nonneg sz sy sx hx dz dy dx⟩
      · exact h
  unfold NbPrior.setUp
  split_ifs
  · exact hcall
  · exact Or.inl (show weightsEmpty emptyBox = true by decide)

theorem history_invariant (l : List (ℝ × ℝ × ℝ)) (hl : ∀ s ∈ l, 0 ≤ s.2.2) (o : NbPrior ℝ) (h : DefaultOrEmpty o) :
    DefaultOrEmpty (l.foldl (fun o s => (o.afterCall (defaultWeights fun n : Int => (n : ℝ)) s.1 s.2.1 s.2.2).setUp) o) := by
  induction l generalizing o with
  | nil => exact h
  | cons s l ih =>
    rw [List.foldl_cons]
    exact ih (fun t ht => hl t (List.mem_cons_of_mem _ ht)) _ (afterCall_invariant o _ _ _ (hl s (List.mem_cons_self ..)) h)

/-! ### `weights :=`: re-indexing, even sizes -/

theorem parsedRange_odd (h : Nat) : parsedRange (2 * h + 1) = (-(h : Int), (h : Int)) := by
  unfold parsedRange
  have : (2 * h + 1) / 2 = h := by omega
  rw [this]; ext <;> simp; omega

theorem parsedRange_even (h : Nat) : parsedRange (2 * h) = (-(h : Int), (h : Int) - 1) := by
  unfold parsedRange
  have : (2 * h) / 2 = h := by omega
  rw [this]; ext <;> simp; omega

section pad
variable {K : Type} [Field K]

/-- the clipped neighbourhood loops over a larger weights box give the same sum if the summand vanishes on the added offsets -/
theorem nbSum_zero_extend (b wb wb' : Box) (z y x : Int) (f : Int → Int → Int → K)
    (hsub : ∀ dz dy dx, InBox wb dz dy dx → InBox wb' dz dy dx)
    (h0 : ∀ dz dy dx, InBox wb' dz dy dx → ¬ InBox wb dz dy dx → f dz dy dx = 0) :
    nbSum b wb z y x f = nbSum b wb' z y x f := by
  rw [nbSum_eq, nbSum_eq]
  refine Finset.sum_subset (fun d hd => mem_boxF.mpr (hsub _ _ _ (mem_boxF.mp hd))) fun d hd hnd => ?_
  rw [h0 _ _ _ (mem_boxF.mp hd) fun h => hnd (mem_boxF.mpr h)]
  simp

theorem valueSum_zero_extend (term : K → K → K → K) (w : Img K) (κ : Option (Img K)) (b wb wb' : Box) (img : Img K)
    (hterm : ∀ a c, term 0 a c = 0)
    (hsub : ∀ dz dy dx, InBox wb dz dy dx → InBox wb' dz dy dx)
    (h0 : ∀ dz dy dx, InBox wb' dz dy dx → ¬ InBox wb dz dy dx → w dz dy dx = 0) :
    valueSum term w κ b wb img = valueSum term w κ b wb' img := by
  unfold valueSum
  refine voxSum_congr b _ _ fun z y x _ => nbSum_zero_extend b wb wb' z y x _ hsub fun dz dy dx h h' => ?_
  rw [h0 dz dy dx h h', hterm, zero_mul]

theorem gradCore_zero_extend (d10 : K → K → K) (pf : K) (w : Img K) (κ : Option (Img K)) (b wb wb' : Box) (img : Img K)
    (hsub : ∀ dz dy dx, InBox wb dz dy dx → InBox wb' dz dy dx)
    (h0 : ∀ dz dy dx, InBox wb' dz dy dx → ¬ InBox wb dz dy dx → w dz dy dx = 0) (z y x : Int) :
    gradCore d10 pf w κ b wb img z y x = gradCore d10 pf w κ b wb' img z y x := by
  unfold gradCore
  rw [nbSum_zero_extend b wb wb' z y x _ hsub fun dz dy dx h h' => by rw [h0 dz dy dx h h', zero_mul, zero_mul]]

theorem hessTimesCore_zero_extend [DecidableEq K] (d20 d11 : K → K → K) (pf : K) (w : Img K) (κ : Option (Img K)) (b wb wb' : Box)
    (cur inp : Img K)
    (hsub : ∀ dz dy dx, InBox wb dz dy dx → InBox wb' dz dy dx)
    (h0 : ∀ dz dy dx, InBox wb' dz dy dx → ¬ InBox wb dz dy dx → w dz dy dx = 0) (z y x : Int) :
    hessTimesCore d20 d11 pf w κ b wb cur inp z y x = hessTimesCore d20 d11 pf w κ b wb' cur inp z y x := by
  unfold hessTimesCore
  rw [nbSum_zero_extend b wb wb' z y x _ hsub fun dz dy dx h h' => by simp [h0 dz dy dx h h']]

end pad

/-- the index range `post_processing` gives to `nz × ny × nx` weights -/
def parsedBox (nz ny nx : Nat) : Box :=
  ⟨(parsedRange nz).1, (parsedRange nz).2, (parsedRange ny).1, (parsedRange ny).2, (parsedRange nx).1, (parsedRange nx).2⟩

/-- the symmetric index range `-(n/2) .. n/2` in every dimension ("make this odd") -/
def paddedBox (nz ny nx : Nat) : Box :=
  ⟨-((nz / 2 : Nat) : Int), ((nz / 2 : Nat) : Int), -((ny / 2 : Nat) : Int), ((ny / 2 : Nat) : Int), -((nx / 2 : Nat) : Int), ((nx / 2 : Nat) : Int)⟩

theorem paddedBox_sym (nz ny nx : Nat) : SymBox (paddedBox nz ny nx) := ⟨rfl, rfl, rfl⟩

theorem parsedBox_sub_paddedBox (nz ny nx : Nat) (dz dy dx : Int) (h : InBox (parsedBox nz ny nx) dz dy dx) :
    InBox (paddedBox nz ny nx) dz dy dx := by
  unfold InBox parsedBox parsedRange at h
  unfold InBox paddedBox
  simp only at h ⊢
  omega

/-! ### instance: default weights are recomputed when the object is set up for another voxel size (repair C09-4) -/

/-- 1×2×1 image `(3, 1)` (two voxels along y) -/
def sB : Box := ⟨0, 0, 0, 1, 0, 0⟩
def sLam : Img ℝ := fun _ y _ => if y = 0 then 3 else 1
/-- `compute_weights` -/
noncomputable def sDflt : ℝ → ℝ → ℝ → Img ℝ := defaultWeights fun n : Int => (n : ℝ)

theorem irange_eval2 : irange 0 0 = [0] ∧ irange 0 1 = [0, 1] ∧ irange (-1) 0 = [-1, 0] := by decide

theorem sqrt_four : Real.sqrt 4 = 2 := by
  rw [show (4 : ℝ) = 2 ^ 2 by norm_num, Real.sqrt_sq (by norm_num)]

theorem stale_value (sz sy sx : ℝ) :
    qValue 1 (sDflt sz sy sx) none sB (defaultWeightsBox false) sLam = 2 * (sx / Real.sqrt (sy * sy)) := by
  obtain ⟨r00, r01, rm10⟩ := irange_eval2
  simp [defaultWeightsBox, qValue, qValueCore, valueSum, voxSum, nbSum, sumRange, sB, r00, r01, rm10, qTerm, sq, four, kfac, sLam, sDflt,
    defaultWeights, transc_sqrt]
  ring

theorem stale_first_call (sz sy sx : ℝ) :
    (NbPrior.ctor 0 false (1 : ℝ) 0 0 0).afterCall sDflt sz sy sx
      = { NbPrior.ctor 0 false (1 : ℝ) 0 0 0 with wb := defaultWeightsBox false, w := sDflt sz sy sx } := by
  have he : weightsEmpty emptyBox = true := by decide
  simp [NbPrior.afterCall, NbPrior.lazyWeights, NbPrior.ctor, he, ctorOnly2D]

theorem stale_witness :
    (((NbPrior.ctor 0 false (1 : ℝ) 0 0 0).call sDflt 1 1 1 (fun _ => ())).1.setUp.call sDflt 1 2 1
        (fun o => qValue o.pf o.w o.kappa sB o.wb sLam)).2 = 1
    ∧ ((NbPrior.ctor 0 false (1 : ℝ) 0 0 0).call sDflt 1 2 1 (fun o => qValue o.pf o.w o.kappa sB o.wb sLam)).2 = 1 := by
  have he : weightsEmpty emptyBox = true := by decide
  have hreset : (((NbPrior.ctor 0 false (1 : ℝ) 0 0 0).afterCall sDflt 1 1 1).setUp).afterCall sDflt 1 2 1
      = { NbPrior.ctor 0 false (1 : ℝ) 0 0 0 with wb := defaultWeightsBox false, w := sDflt 1 2 1 } := by
    rw [stale_first_call]
    simp [NbPrior.setUp, NbPrior.afterCall, NbPrior.lazyWeights, NbPrior.ctor, he, ctorOnly2D]
  constructor
  · show (fun o : NbPrior ℝ => qValue o.pf o.w o.kappa sB o.wb sLam)
      ((((NbPrior.ctor 0 false (1 : ℝ) 0 0 0).afterCall sDflt 1 1 1).setUp).afterCall sDflt 1 2 1) = 1
    rw [hreset]
    simp only [NbPrior.ctor]
    rw [stale_value]; norm_num [sqrt_four]
  · show (fun o : NbPrior ℝ => qValue o.pf o.w o.kappa sB o.wb sLam) ((NbPrior.ctor 0 false (1 : ℝ) 0 0 0).afterCall sDflt 1 2 1) = 1
    rw [stale_first_call]
    simp only [NbPrior.ctor]
    rw [stale_value]; norm_num [sqrt_four]
end StirVerif.C09
