/-
C09 — "Priors: value, gradient and Hessian are mutually consistent and convex".

Executable model (core Lean only) of the triple loops of

* `QuadraticPrior<elemT>`           /repo/src/recon_buildblock/QuadraticPrior.cxx
* `RelativeDifferencePrior<elemT>`  /repo/src/recon_buildblock/RelativeDifferencePrior.cxx
* `LogcoshPrior<elemT>`             /repo/src/recon_buildblock/LogcoshPrior.cxx  (+ LogcoshPrior.h: logcosh, surrogate)
* `PLSPrior<elemT>`                 /repo/src/recon_buildblock/PLSPrior.cxx

The definitions are written once over an arbitrary scalar type `K` (only the operations that the C++
uses are required as type-class arguments).  The driver executes them at `Rat` (Quadratic: exact) and at
`Float` (RDP, log-cosh, PLS, default weights: `sqrt/log/cosh/tanh`); `Proofs*.lean` instantiates the same
text at an ordered field / at `ℝ`.

The model describes the code AFTER the repairs docs/fixes/C09-1..3 (line numbers refer to the repaired files):
PLS gradient with per-direction border handling and kappa inside the divergence; Hessian functions of the three neighbourhood
priors skip the centre offset.  Asymmetric user weights are modelled as the code treats them (known finding).

What is *not* modelled: float rounding (`static_cast<elemT>`, float accumulators; handled by the derived
tolerance of `checks/c09.py`), parsing (`post_processing`), the `check()`/`set_up()` guards, file output of
the gradient, non-regular (ragged) arrays (`VoxelsOnCartesianGrid` is always regular; the weights are
assumed regular as `post_processing` requires), 32-bit overflow of indices.
-/
namespace StirVerif.C09

/-- index range of a regular 3-D array (`IndexRange3D(z0,z1,y0,y1,x0,x1)`), used both for images and for
    the weights (`weights.get_min_index()`, `weights[0].get_min_index()`, `weights[0][0].get_min_index()` …) -/
structure Box where
  z0 : Int
  z1 : Int
  y0 : Int
  y1 : Int
  x0 : Int
  x1 : Int
deriving Repr, DecidableEq, Inhabited

/-- an image / a weights array: a value for every index triple (only indices inside the box are ever read) -/
abbrev Img (K : Type) := Int → Int → Int → K

/-- the values `lo, lo+1, …, hi` of a C loop `for (int i = lo; i <= hi; ++i)` (none if `hi < lo`) -/
def irange (lo hi : Int) : List Int := (List.range (hi + 1 - lo).toNat).map fun (k : Nat) => lo + (k : Int)

section generic
variable {K : Type} [Add K] [Sub K] [Mul K] [Div K] [Neg K] [Zero K] [One K] [BEq K]

/-- `for (int i = lo; i <= hi; ++i) result += f(i);` -/
def sumRange (lo hi : Int) (f : Int → K) : K := ((irange lo hi).map f).sum

/-- the three image loops `for z … for y … for x` (QuadraticPrior.cxx:252-270 and all the copies) -/
def voxSum (b : Box) (f : Int → Int → Int → K) : K :=
  sumRange b.z0 b.z1 fun z => sumRange b.y0 b.y1 fun y => sumRange b.x0 b.x1 fun x => f z y x

/-- the three neighbourhood loops with border clipping (QuadraticPrior.cxx:256-257, 264-265, 272-273, 281-283):
    `min_dz = max(weights.get_min_index(), min_z - z)`, `max_dz = min(weights.get_max_index(), max_z - z)`, same for y, x. -/
def nbSum (b wb : Box) (z y x : Int) (f : Int → Int → Int → K) : K :=
  sumRange (max wb.z0 (b.z0 - z)) (min wb.z1 (b.z1 - z)) fun dz =>
  sumRange (max wb.y0 (b.y0 - y)) (min wb.y1 (b.y1 - y)) fun dy =>
  sumRange (max wb.x0 (b.x0 - x)) (min wb.x1 (b.x1 - x)) fun dx => f dz dy dx

/-- is `(dz,dy,dx)` one of the offsets visited by the clipped loops of voxel `(z,y,x)`? -/
def inNb (b wb : Box) (z y x dz dy dx : Int) : Bool :=
  decide (max wb.z0 (b.z0 - z) ≤ dz) && decide (dz ≤ min wb.z1 (b.z1 - z)) &&
  decide (max wb.y0 (b.y0 - y) ≤ dy) && decide (dy ≤ min wb.y1 (b.y1 - y)) &&
  decide (max wb.x0 (b.x0 - x) ≤ dx) && decide (dx ≤ min wb.x1 (b.x1 - x))

/-- `if (do_kappa) current *= (*kappa_ptr)[z][y][x] * (*kappa_ptr)[z+dz][y+dy][x+dx];` as a factor
    (`1` when there is no kappa image) -/
def kfac (κ : Option (Img K)) (z y x z' y' x' : Int) : K :=
  match κ with
  | none => 1
  | some k => k z y x * k z' y' x'

def sq (a : K) : K := a * a
def two : K := 1 + 1
def three : K := 1 + 1 + 1
def four : K := (1 + 1) * (1 + 1)

/-! ### the loops shared (textually) by QuadraticPrior, RelativeDifferencePrior and LogcoshPrior -/

/-- `compute_value` double loop: `result += term(weights[dz][dy][dx], image[z][y][x], image[z+dz][y+dy][x+dx]) * kappa…`
    (QuadraticPrior.cxx:251-296, RelativeDifferencePrior.cxx:322-369, LogcoshPrior.cxx compute_value) -/
def valueSum (term : K → K → K → K) (w : Img K) (κ : Option (Img K)) (b wb : Box) (img : Img K) : K :=
  voxSum b fun z y x => nbSum b wb z y x fun dz dy dx =>
    term (w dz dy dx) (img z y x) (img (z + dz) (y + dy) (x + dx)) * kfac κ z y x (z + dz) (y + dy) (x + dx)

/-- `compute_gradient`, before the early return for a zero penalisation factor: the gradient at voxel `(z,y,x)`
    (QuadraticPrior.cxx:353-366, RelativeDifferencePrior.cxx:420-434):
    `gradient += weights[dz][dy][dx] * d10(image[z][y][x], image[z+dz][y+dy][x+dx]) * kappa…;  … = gradient * penalisation_factor` -/
def gradCore (d10 : K → K → K) (pf : K) (w : Img K) (κ : Option (Img K)) (b wb : Box) (img : Img K) (z y x : Int) : K :=
  (nbSum b wb z y x fun dz dy dx =>
    w dz dy dx * d10 (img z y x) (img (z + dz) (y + dy) (x + dx)) * kfac κ z y x (z + dz) (y + dy) (x + dx)) * pf

/-- `compute_gradient`: `if (penalisation_factor == 0) { prior_gradient.fill(0); return; }` -/
def grad (d10 : K → K → K) (pf : K) (w : Img K) (κ : Option (Img K)) (b wb : Box) (img : Img K) (z y x : Int) : K :=
  if pf == 0 then 0 else gradCore d10 pf w κ b wb img z y x

/-- `compute_Hessian` (QuadraticPrior.cxx:384-457, RelativeDifferencePrior.cxx:452-525, LogcoshPrior.cxx:394-467): the entry at voxel
    `(z,y,x)` of the Hessian row of voxel `(cz,cy,cx)`.  The C++ first fills the output with 0 and then assigns, for
    every offset `d` of the clipped neighbourhood of `c`, the voxel `c+d`: the diagonal (`d = 0`) gets the sum over
    the neighbourhood **without the centre offset** (`if (ddz == 0 && ddy == 0 && ddx == 0) continue;`) of
    `w(dd) * d20(image[c], image[c+dd]) * kappa…`, the others `w(d) * d11(image[c], image[c+d]) * kappa…`,
    each `* penalisation_factor`. -/
def hessRowCore (d20 d11 : K → K → K) (pf : K) (w : Img K) (κ : Option (Img K)) (b wb : Box) (img : Img K)
    (cz cy cx : Int) (z y x : Int) : K :=
  let dz := z - cz; let dy := y - cy; let dx := x - cx
  if inNb b wb cz cy cx dz dy dx then
    (if dz == 0 && dy == 0 && dx == 0 then
      nbSum b wb cz cy cx fun ddz ddy ddx =>
        if ddz == 0 && ddy == 0 && ddx == 0 then 0
        else
          w ddz ddy ddx * d20 (img cz cy cx) (img (cz + ddz) (cy + ddy) (cx + ddx)) * kfac κ cz cy cx (cz + ddz) (cy + ddy) (cx + ddx)
     else
      w dz dy dx * d11 (img cz cy cx) (img (cz + dz) (cy + dy) (cx + dx)) * kfac κ cz cy cx (cz + dz) (cy + dy) (cx + dx)) * pf
  else 0

/-- `compute_Hessian`: `fill(0); if (penalisation_factor == 0) return;` -/
def hessRow (d20 d11 : K → K → K) (pf : K) (w : Img K) (κ : Option (Img K)) (b wb : Box) (img : Img K)
    (cz cy cx : Int) (z y x : Int) : K :=
  if pf == 0 then 0 else hessRowCore d20 d11 pf w κ b wb img cz cy cx z y x

/-- `accumulate_Hessian_times_input` (QuadraticPrior.cxx:602-690, RelativeDifferencePrior.cxx:535-622, LogcoshPrior.cxx:536-615), the amount
    added to `output[z][y][x]`:
    `current = w; if (current == 0) continue; if (d == 0) continue; else current *= d20(..)*input[r] + d11(..)*input[r+d];
     current *= kappa…; result += current;  output[z][y][x] += result * penalisation_factor`
    (a voxel is not its own neighbour: the centre weight contributes nothing, as in value and gradient) -/
def hessTimesCore (d20 d11 : K → K → K) (pf : K) (w : Img K) (κ : Option (Img K)) (b wb : Box) (cur inp : Img K) (z y x : Int) : K :=
  (nbSum b wb z y x fun dz dy dx =>
    let current := w dz dy dx
    if current == 0 then 0
    else if dz == 0 && dy == 0 && dx == 0 then 0
    else
      current * (d20 (cur z y x) (cur (z + dz) (y + dy) (x + dx)) * inp z y x
                   + d11 (cur z y x) (cur (z + dz) (y + dy) (x + dx)) * inp (z + dz) (y + dy) (x + dx))
      * kfac κ z y x (z + dz) (y + dy) (x + dx)) * pf

/-- `accumulate_Hessian_times_input`: `if (penalisation_factor == 0) return;` … `output[z][y][x] += …` -/
def hessTimes (d20 d11 : K → K → K) (pf : K) (w : Img K) (κ : Option (Img K)) (b wb : Box) (cur inp out : Img K) (z y x : Int) : K :=
  if pf == 0 then out z y x else out z y x + hessTimesCore d20 d11 pf w κ b wb cur inp z y x

/-! ### QuadraticPrior -/

/-- `QuadraticPrior::derivative_20` (QuadraticPrior.cxx:694): `return 1.0;` -/
def qD20 (_xj _xk : K) : K := 1
/-- `QuadraticPrior::derivative_11` (QuadraticPrior.cxx:701): `return -1.0;` -/
def qD11 (_xj _xk : K) : K := -1
/-- the factor of the weight in `QuadraticPrior::compute_gradient` (QuadraticPrior.cxx:358-359) -/
def qD10 (a b : K) : K := a - b
/-- `weights[dz][dy][dx] * square(image[z][y][x] - image[z+dz][y+dy][x+dx]) / 4` (QuadraticPrior.cxx:285-287) -/
def qTerm (w a b : K) : K := w * sq (a - b) / four

/-- `QuadraticPrior::compute_value` (QuadraticPrior.cxx:232-298), without the early return -/
def qValueCore (pf : K) (w : Img K) (κ : Option (Img K)) (b wb : Box) (img : Img K) : K :=
  valueSum qTerm w κ b wb img * pf
/-- `QuadraticPrior::compute_value`: `if (penalisation_factor == 0) return 0.;` -/
def qValue (pf : K) (w : Img K) (κ : Option (Img K)) (b wb : Box) (img : Img K) : K :=
  if pf == 0 then 0 else qValueCore pf w κ b wb img
/-- `QuadraticPrior::compute_gradient` (QuadraticPrior.cxx:300-382) -/
def qGrad : K → Img K → Option (Img K) → Box → Box → Img K → Int → Int → Int → K := grad qD10
/-- `QuadraticPrior::compute_Hessian` (QuadraticPrior.cxx:384-457) -/
def qHessRow : K → Img K → Option (Img K) → Box → Box → Img K → Int → Int → Int → Int → Int → Int → K := hessRow qD20 qD11
/-- `QuadraticPrior::accumulate_Hessian_times_input` (QuadraticPrior.cxx:602-690) -/
def qHessTimes : K → Img K → Option (Img K) → Box → Box → Img K → Img K → Img K → Int → Int → Int → K := hessTimes qD20 qD11

/-- `QuadraticPrior::parabolic_surrogate_curvature` (QuadraticPrior.cxx:459-534): `current = weights * 1 * kappa…` -/
def qSurrogate (pf : K) (w : Img K) (κ : Option (Img K)) (b wb : Box) (z y x : Int) : K :=
  if pf == 0 then 0
  else (nbSum b wb z y x fun dz dy dx => w dz dy dx * 1 * kfac κ z y x (z + dz) (y + dy) (x + dx)) * pf

/-- `QuadraticPrior::add_multiplication_with_approximate_Hessian` (QuadraticPrior.cxx:536-600):
    `current = weights * input[z+dz][y+dy][x+dx] * kappa…; output[z][y][x] += result * penalisation_factor` -/
def qApproxHessTimes (pf : K) (w : Img K) (κ : Option (Img K)) (b wb : Box) (inp out : Img K) (z y x : Int) : K :=
  if pf == 0 then out z y x
  else out z y x + (nbSum b wb z y x fun dz dy dx =>
        w dz dy dx * inp (z + dz) (y + dy) (x + dx) * kfac κ z y x (z + dz) (y + dy) (x + dx)) * pf

end generic

/-! ### scalar functions of RelativeDifferencePrior and LogcoshPrior -/

/-- the transcendental functions used by the priors (`Float` in the driver, `ℝ` in the proofs) -/
class Transc (K : Type) where
  sqrt : K → K
  log : K → K
  cosh : K → K
  tanh : K → K

instance : Transc Float := ⟨Float.sqrt, Float.log, Float.cosh, Float.tanh⟩

section scalar
variable {K : Type} [Add K] [Sub K] [Mul K] [Div K] [Neg K] [Zero K] [One K] [BEq K] [LT K] [DecidableLT K]

/-- `std::abs` -/
def absK (a : K) : K := if a < 0 then -a else a

/-- the denominator `x + y + gamma * |x - y| + epsilon` of the relative difference potential -/
def rdpDen (γ ε x y : K) : K := x + y + γ * absK (x - y) + ε

/-- `RelativeDifferencePrior::value` (RelativeDifferencePrior.cxx:280-283):
    `0.5 * (square(x - y) / (x + y + gamma * abs(x - y) + epsilon))` -/
def rdpPsi (γ ε x y : K) : K := 1 / two * (sq (x - y) / rdpDen γ ε x y)

/-- `RelativeDifferencePrior::derivative_10` (RelativeDifferencePrior.cxx:285-299) -/
def rdpD10 (γ ε x y : K) : K :=
  if ε == 0 && x == 0 && y == 0 then 0
  else
    let num := (x - y) * (γ * absK (x - y) + x + three * y + two * ε)
    let denom_sqrt := x + y + γ * absK (x - y) + ε
    num / (denom_sqrt * denom_sqrt)

/-- `RelativeDifferencePrior::derivative_20` (RelativeDifferencePrior.cxx:624-632);
    the `else return INFINITY` branch (`x_j <= 0 && x_k <= 0 && epsilon <= 0`) is modelled as division by zero -/
def rdpD20 (γ ε xj xk : K) : K :=
  if 0 < xj || 0 < xk || 0 < ε then
    two * sq (two * xk + ε) / (rdpDen γ ε xj xk * rdpDen γ ε xj xk * rdpDen γ ε xj xk)
  else 1 / 0

/-- `RelativeDifferencePrior::derivative_11` (RelativeDifferencePrior.cxx:634-643) -/
def rdpD11 (γ ε xj xk : K) : K :=
  if 0 < xj || 0 < xk || 0 < ε then
    -two * (two * xj + ε) * (two * xk + ε) / (rdpDen γ ε xj xk * rdpDen γ ε xj xk * rdpDen γ ε xj xk)
  else 1 / 0

/-- the per-pair term of `RelativeDifferencePrior::compute_value` (RelativeDifferencePrior.cxx:350-361) -/
def rdpTerm (γ ε w a b : K) : K :=
  if ε == 0 && a == 0 && b == 0 then 0 else w * rdpPsi γ ε a b

/-- `RelativeDifferencePrior::compute_value` (RelativeDifferencePrior.cxx:301-371) -/
def rValue (γ ε pf : K) (w : Img K) (κ : Option (Img K)) (b wb : Box) (img : Img K) : K :=
  if pf == 0 then 0 else valueSum (rdpTerm γ ε) w κ b wb img * pf
/-- `RelativeDifferencePrior::compute_gradient` (RelativeDifferencePrior.cxx:373-450) -/
def rGrad (γ ε : K) : K → Img K → Option (Img K) → Box → Box → Img K → Int → Int → Int → K := grad (rdpD10 γ ε)
/-- `RelativeDifferencePrior::compute_Hessian` (RelativeDifferencePrior.cxx:452-525) -/
def rHessRow (γ ε : K) : K → Img K → Option (Img K) → Box → Box → Img K → Int → Int → Int → Int → Int → Int → K := hessRow (rdpD20 γ ε) (rdpD11 γ ε)
/-- `RelativeDifferencePrior::accumulate_Hessian_times_input` (RelativeDifferencePrior.cxx:535-622) -/
def rHessTimes (γ ε : K) : K → Img K → Option (Img K) → Box → Box → Img K → Img K → Img K → Int → Int → Int → K := hessTimes (rdpD20 γ ε) (rdpD11 γ ε)

variable [Transc K]

/-- the constant `30` of `LogcoshPrior::logcosh` -/
def thirty : K := (two * two * two * two - 1) * two
/-- `log(0.5f)` -/
def logHalf : K := Transc.log (1 / two)

/-- `LogcoshPrior::logcosh` (LogcoshPrior.h:183-194): `x = fabs(d); x < 30 ? log(cosh(x)) : x + log(0.5)` -/
def logcosh (d : K) : K :=
  let x := absK d
  if x < thirty then Transc.log (Transc.cosh x) else x + logHalf

/-- per-pair term of `LogcoshPrior::compute_value`:
    `weights[dz][dy][dx] * 1 / (scalar * scalar) * logcosh(scalar * voxel_diff)` -/
def lcTerm (s w a b : K) : K := w * 1 / (s * s) * logcosh (s * (a - b))

/-- factor of the weight in `LogcoshPrior::compute_gradient`: `(1 / scalar) * tanh(scalar * voxel_diff)` -/
def lcD10 (s a b : K) : K := (1 / s) * Transc.tanh (s * (a - b))

/-- `LogcoshPrior::derivative_20`: `square((1 / cosh((x_j - x_k) * scalar)))` -/
def lcD20 (s xj xk : K) : K := sq (1 / Transc.cosh ((xj - xk) * s))
/-- `LogcoshPrior::derivative_11`: `-derivative_20(x_j, x_k)` -/
def lcD11 (s xj xk : K) : K := -lcD20 s xj xk

/-- `LogcoshPrior::compute_value`: `return result * penalisation_factor / 2.0;` -/
def lValue (s pf : K) (w : Img K) (κ : Option (Img K)) (b wb : Box) (img : Img K) : K :=
  if pf == 0 then 0 else valueSum (lcTerm s) w κ b wb img * pf / two
/-- `LogcoshPrior::compute_gradient` -/
def lGrad (s : K) : K → Img K → Option (Img K) → Box → Box → Img K → Int → Int → Int → K := grad (lcD10 s)
/-- `LogcoshPrior::compute_Hessian` -/
def lHessRow (s : K) : K → Img K → Option (Img K) → Box → Box → Img K → Int → Int → Int → Int → Int → Int → K := hessRow (lcD20 s) (lcD11 s)
/-- `LogcoshPrior::accumulate_Hessian_times_input` -/
def lHessTimes (s : K) : K → Img K → Option (Img K) → Box → Box → Img K → Img K → Img K → Int → Int → Int → K := hessTimes (lcD20 s) (lcD11 s)

/-- `LogcoshPrior::surrogate` (LogcoshPrior.h:203-219): `x = d*scalar; |x| < 0.01 ? 1 - x^2/3 : tanh(x)/x` -/
def lcSurrogateFn (s d : K) : K :=
  let eps : K := 1 / ((two * two * two + two) * (two * two * two + two))
  let x := d * s
  if absK x < eps then 1 - sq x / three else Transc.tanh x / x

/-- `LogcoshPrior::parabolic_surrogate_curvature`: `current = weights * surrogate(voxel_diff, scalar) * kappa…` -/
def lSurrogate (s pf : K) (w : Img K) (κ : Option (Img K)) (b wb : Box) (img : Img K) (z y x : Int) : K :=
  if pf == 0 then 0
  else (nbSum b wb z y x fun dz dy dx =>
      w dz dy dx * lcSurrogateFn s (img z y x - img (z + dz) (y + dy) (x + dx)) * kfac κ z y x (z + dz) (y + dy) (x + dx)) * pf

/-! ### default weights -/

/-- the constructors: `QuadraticPrior(only_2D, pf)` keeps its argument; `RelativeDifferencePrior(only_2D, pf, gamma, epsilon)`,
    `LogcoshPrior(only_2D, pf, scalar)` and `PLSPrior(only_2D, pf)` initialise `only_2D(only_2D_v)` and then call
    `set_defaults()`, which resets `only_2D = false` (RelativeDifferencePrior.cxx:197-207, LogcoshPrior.cxx:134-143,
    PLSPrior.cxx:160-166).  `kind`: 0 = Quadratic, 1 = RDP, 2 = Logcosh, 3 = PLS. -/
def ctorOnly2D (kind : Nat) (only2DArg : Bool) : Bool := if kind == 0 then only2DArg else false

/-- index range of the default weights (`compute_weights`, QuadraticPrior.cxx:204-214) -/
def defaultWeightsBox (only2D : Bool) : Box :=
  if only2D then ⟨0, 0, -1, 1, -1, 1⟩ else ⟨-1, 1, -1, 1, -1, 1⟩

/-- `compute_weights` (QuadraticPrior.cxx:201-228, copies in RelativeDifferencePrior.cxx:249, LogcoshPrior.cxx):
    `weights[z][y][x] = grid_spacing.x() / sqrt(square(x*grid_spacing.x()) + square(y*grid_spacing.y()) + square(z*grid_spacing.z()))`,
    0 at the centre.  `ofInt` is the int→float conversion. -/
def defaultWeights (ofInt : Int → K) (sz sy sx : K) : Img K := fun z y x =>
  if z == 0 && y == 0 && x == 0 then 0
  else sx / Transc.sqrt (sq (ofInt x * sx) + sq (ofInt y * sy) + sq (ofInt z * sz))

/-! ### the prior OBJECT: members that outlive a call (QuadraticPrior / RelativeDifferencePrior / LogcoshPrior)

`weights` is a `mutable` member that is filled in lazily by whichever API function is called first
(`if (weights.get_length() == 0) compute_weights(weights, <image>.get_grid_spacing(), only_2D);`), AFTER the early return for a zero
penalisation factor.  The block occurs in
QuadraticPrior.cxx:244 (`compute_value`), :317 (`compute_gradient`), :405 (`compute_Hessian`), :477 (`parabolic_surrogate_curvature`),
:554 (`add_multiplication_with_approximate_Hessian`), :621 (`accumulate_Hessian_times_input`),
RelativeDifferencePrior.cxx:315/390/473/552, LogcoshPrior.cxx:262/332/415/485/553.  The grid spacing is that of
`current_image_estimate` (value, gradient, Hessian row, surrogate) resp. of `output` (approximate Hessian, Hessian times input).
`set_up` empties `weights` again unless they were supplied by the user (repair C09-4), so that default weights always belong to the
grid spacing of the current target. -/

/-- the members of a neighbourhood prior that the API functions read or write -/
structure NbPrior (K : Type) where
  /-- 0 = Quadratic, 1 = RDP, 2 = Logcosh -/
  kind : Nat
  only2D : Bool
  pf : K
  gamma : K
  eps : K
  scalar : K
  /-- index range of `weights`; `weights.get_length() == 0` iff `wb.z1 < wb.z0` -/
  wb : Box
  w : Img K
  kappa : Option (Img K)
  /-- `weights_set_by_user`: the weights were given with `set_weights` (non-empty array) or the `weights :=` keyword -/
  wUser : Bool := false

/-- the index range of an empty `Array<3,float>` as the harness prints it -/
def emptyBox : Box := ⟨0, -1, 0, -1, 0, -1⟩

/-- `weights.get_length() == 0` -/
def weightsEmpty (wb : Box) : Bool := decide (wb.z1 < wb.z0)

/-- the constructors `QuadraticPrior(only_2D, pf)`, `RelativeDifferencePrior(only_2D, pf, gamma, epsilon)`,
    `LogcoshPrior(only_2D, pf, scalar)`: no weights, no kappa; `only_2D` as `ctorOnly2D` says -/
def NbPrior.ctor (kind : Nat) (only2DArg : Bool) (pf γ ε s : K) : NbPrior K :=
  { kind := kind, only2D := ctorOnly2D kind only2DArg, pf := pf, gamma := γ, eps := ε, scalar := s,
    wb := emptyBox, w := fun _ _ _ => 0, kappa := none }

/-- `if (weights.get_length() == 0) compute_weights(weights, grid_spacing, only_2D);` — `dflt sz sy sx` are the values
    `compute_weights` stores (`defaultWeights`; a parameter because the driver evaluates them in binary64 also for the exact-`Rat` model) -/
def NbPrior.lazyWeights (dflt : K → K → K → Img K) (o : NbPrior K) (sz sy sx : K) : NbPrior K :=
  if weightsEmpty o.wb then { o with wb := defaultWeightsBox o.only2D, w := dflt sz sy sx } else o

/-- the state of the object after a call of any of the API functions with an image of grid spacing `(sz, sy, sx)`:
    `if (penalisation_factor == 0) { …; return; }` comes first, so nothing is computed for a zero penalisation factor -/
def NbPrior.afterCall (dflt : K → K → K → Img K) (o : NbPrior K) (sz sy sx : K) : NbPrior K :=
  if o.pf == 0 then o else o.lazyWeights dflt sz sy sx

/-- every API function: the lazy block, then the loops (`qValue`, `grad`, `hessRow`, `hessTimes`, … above) on the members as they are
    then; returns the object as it is left behind and the result -/
def NbPrior.call {α : Type} (dflt : K → K → K → Img K) (o : NbPrior K) (sz sy sx : K) (loops : NbPrior K → α) : NbPrior K × α :=
  let o' := o.afterCall dflt sz sy sx
  (o', loops o')

/-- `set_weights(w)`: `this->weights = w` (an empty array makes the next call compute the default weights again) -/
def NbPrior.setWeights (o : NbPrior K) (wb : Box) (w : Img K) : NbPrior K := { o with wb := wb, w := w, wUser := !weightsEmpty wb }
/-- `set_kappa_sptr` -/
def NbPrior.setKappa (o : NbPrior K) (κ : Option (Img K)) : NbPrior K := { o with kappa := κ }
/-- `set_penalisation_factor` (GeneralisedPrior.inl:41) -/
def NbPrior.setPf (o : NbPrior K) (pf : K) : NbPrior K := { o with pf := pf }
/-- `RelativeDifferencePrior::set_gamma` / `set_epsilon`, `LogcoshPrior::set_scalar` -/
def NbPrior.setGamma (o : NbPrior K) (v : K) : NbPrior K := { o with gamma := v }
def NbPrior.setEps (o : NbPrior K) (v : K) : NbPrior K := { o with eps := v }
def NbPrior.setScalar (o : NbPrior K) (v : K) : NbPrior K := { o with scalar := v }
/-- `set_up(target)` (after repair C09-4): `if (!weights_set_by_user) weights.recycle();` — default weights are computed again, from
    the grid spacing of the new target, at the next use; user weights stay -/
def NbPrior.setUp (o : NbPrior K) : NbPrior K := if o.wUser then o else { o with wb := emptyBox }

/-! ### weights given with the `weights :=` keyword (`post_processing`) -/

/-- `post_processing` (QuadraticPrior.cxx:76-80, 84-88, 91-95): an array dimension with `size` elements (parsed with indices
    `0 .. size-1`) gets `min_index = -static_cast<int>(size / 2)`; the elements keep their order, so the last index is
    `min_index + size - 1`: `-h .. h` for `size = 2h+1`, `-h .. h-1` for `size = 2h` ("even number of weights … I'll (effectively) make
    this odd by appending a 0 at the end") -/
def parsedRange (size : Nat) : Int × Int := (-((size / 2 : Nat) : Int), -((size / 2 : Nat) : Int) + (size : Int) - 1)

/-- `this->weights.is_regular()`: all rows have the same length, all planes the same number of rows -/
def isRegular {α : Type} (a : List (List (List α))) : Bool :=
  match a with
  | [] => true
  | p :: _ =>
    a.all (fun q => q.length == p.length) &&
    (match p with
     | [] => true
     | r :: _ => a.all fun q => q.all fun r' => r'.length == r.length)

/-- the weights after parsing `weights := {{{…},…},…}` (`a[z][y][x]`, indices from 0) and `post_processing`: `none` = parse error
    ("only supports regular arrays"); an empty array stays empty (default weights will be computed) -/
def parsedWeights (a : List (List (List K))) : Option (Box × Img K) :=
  if a.isEmpty then some (emptyBox, fun _ _ _ => 0)
  else if !isRegular a then none
  else
    let nz := a.length
    let ny := (a.headD []).length
    let nx := ((a.headD []).headD []).length
    let rz := parsedRange nz; let ry := parsedRange ny; let rx := parsedRange nx
    some (⟨rz.1, rz.2, ry.1, ry.2, rx.1, rx.2⟩,
          fun z y x => (((a.getD (z - rz.1).toNat []).getD (y - ry.1).toNat []).getD (x - rx.1).toNat 0))

/-- `parse()` of a default-constructed object with the keys `penalisation factor`, `only 2D`, `gamma value`, `epsilon value`, `scalar`,
    `weights` (QuadraticPrior.cxx:40-104 and copies): here `only 2D` is honoured by all three classes; kappa is read from
    `kappa filename` by `post_processing` (modelled as data) -/
def NbPrior.parsed (kind : Nat) (only2D : Bool) (pf γ ε s : K) (a : List (List (List K))) (κ : Option (Img K)) : Option (NbPrior K) :=
  match parsedWeights a with
  | none => none
  | some (wb, w) => some { kind := kind, only2D := only2D, pf := pf, gamma := γ, eps := ε, scalar := s, wb := wb, w := w, kappa := κ,
                           wUser := !weightsEmpty wb }

/-! ### PLSPrior -/

/-- `PLSPrior::compute_image_gradient_element` (PLSPrior.cxx:309-357): forward differences, 0 where `i+1 > max_i` -/
def plsGradElem (b : Box) (dir : Nat) (img : Img K) : Img K := fun z y x =>
  match dir with
  | 0 => if z + 1 > b.z1 then 0 else img (z + 1) y x - img z y x
  | 1 => if y + 1 > b.y1 then 0 else img z (y + 1) x - img z y x
  | _ => if x + 1 > b.x1 then 0 else img z y (x + 1) - img z y x

/-- `PLSPrior::compute_normalisation_anatomical_gradient` (PLSPrior.cxx:359-396) -/
def plsNorm (only2D : Bool) (η : K) (az ay ax : Img K) : Img K := fun z y x =>
  if only2D then Transc.sqrt (sq (ay z y x) + sq (ax z y x) + sq η)
  else Transc.sqrt (sq (az z y x) + sq (ay z y x) + sq (ax z y x) + sq η)

/-- the anatomical data prepared by `PLSPrior::set_up` (PLSPrior.cxx:55-96) -/
structure PlsAnat (K : Type) where
  az : Img K
  ay : Img K
  ax : Img K
  norm : Img K

def plsSetUp (only2D : Bool) (η : K) (b : Box) (anat : Img K) : PlsAnat K :=
  let az := plsGradElem b 0 anat
  let ay := plsGradElem b 1 anat
  let ax := plsGradElem b 2 anat
  { az := az, ay := ay, ax := ax, norm := plsNorm only2D η az ay ax }

/-- `inner_product` of `PLSPrior::compute_inner_product_and_penalty` (PLSPrior.cxx:398-453) -/
def plsInner (only2D : Bool) (A : PlsAnat K) (gz gy gx : Img K) : Img K := fun z y x =>
  if only2D then
    (gy z y x * A.ay z y x / A.norm z y x) + (gx z y x * A.ax z y x / A.norm z y x)
  else
    (gz z y x * A.az z y x + gy z y x * A.ay z y x + gx z y x * A.ax z y x) / A.norm z y x

/-- `penalty` of `PLSPrior::compute_inner_product_and_penalty` -/
def plsPenalty (only2D : Bool) (α : K) (ip gz gy gx : Img K) : Img K := fun z y x =>
  if only2D then Transc.sqrt (sq α + sq (gy z y x) + sq (gx z y x) - sq (ip z y x))
  else Transc.sqrt (sq α + sq (gz z y x) + sq (gy z y x) + sq (gx z y x) - sq (ip z y x))

/-- the images computed by `compute_inner_product_and_penalty` (the C++ stores them in image-sized arrays) -/
structure PlsFields (K : Type) where
  gz : Img K
  gy : Img K
  gx : Img K
  ip : Img K
  pen : Img K

/-- `PLSPrior::compute_inner_product_and_penalty` (PLSPrior.cxx:398-453) -/
def plsFields (only2D : Bool) (α : K) (A : PlsAnat K) (b : Box) (img : Img K) : PlsFields K :=
  let gz := plsGradElem b 0 img
  let gy := plsGradElem b 1 img
  let gx := plsGradElem b 2 img
  let ip := plsInner only2D A gz gy gx
  { gz := gz, gy := gy, gx := gx, ip := ip, pen := plsPenalty only2D α ip gz gy gx }

/-- the summation loop of `PLSPrior::compute_value` (PLSPrior.cxx:481-514): `current = penalty[z][y][x]; if (do_kappa) current *= kappa[z][y][x]` -/
def plsValueOf (pf : K) (F : PlsFields K) (κ : Option (Img K)) (b : Box) : K :=
  (voxSum b fun z y x => match κ with | none => F.pen z y x | some k => F.pen z y x * k z y x) * pf

/-- `PLSPrior::compute_value` (PLSPrior.cxx:455-515) -/
def plsValue (only2D : Bool) (α pf : K) (A : PlsAnat K) (κ : Option (Img K)) (b : Box) (img : Img K) : K :=
  if pf == 0 then 0 else plsValueOf pf (plsFields only2D α A b img) κ b

/-- the lambda `flux` of `PLSPrior::compute_gradient` (PLSPrior.cxx:567-578):
    `current = (pet_im_grad[r] - anatomical_grad[r] * inner_product[r] / norm[r]) / penalty[r]; if (do_kappa) current *= kappa[r];`
    It vanishes at the last voxel along its direction (both forward differences are 0 there). -/
def plsFlux (κ : Option (Img K)) (g a ip nrm pen : Img K) (z y x : Int) : K :=
  let current := (g z y x - a z y x * ip z y x / nrm z y x) / pen z y x
  match κ with | none => current | some k => current * k z y x

/-- the two loops of `PLSPrior::compute_gradient` (PLSPrior.cxx:580-641): for every voxel and every direction
    `gradient_d[r] = flux_d(r); if (r_d > min_d) gradient_d[r] -= flux_d(r - e_d);` (minus the backward difference of the flux: the
    adjoint of the forward difference used in `compute_value`), then `-(gradientz + gradienty + gradientx) * penalisation_factor`
    (`-(gradienty + gradientx)` for `only_2D`). -/
def plsGradOf (only2D : Bool) (pf : K) (A : PlsAnat K) (F : PlsFields K) (κ : Option (Img K)) (b : Box) (z y x : Int) : K :=
  let fx := plsFlux κ F.gx A.ax F.ip A.norm F.pen
  let fy := plsFlux κ F.gy A.ay F.ip A.norm F.pen
  let fz := plsFlux κ F.gz A.az F.ip A.norm F.pen
  let gradx : K := if x > b.x0 then fx z y x - fx z y (x - 1) else fx z y x
  let grady : K := if y > b.y0 then fy z y x - fy z (y - 1) x else fy z y x
  let gradz : K := if z > b.z0 then fz z y x - fz (z - 1) y x else fz z y x
  let g : K := if only2D then -(grady + gradx) else -(gradz + grady + gradx)
  g * pf

/-- `PLSPrior::compute_gradient` (PLSPrior.cxx:517-654) -/
def plsGrad (only2D : Bool) (α pf : K) (A : PlsAnat K) (κ : Option (Img K)) (b : Box) (img : Img K) (z y x : Int) : K :=
  if pf == 0 then 0 else plsGradOf only2D pf A (plsFields only2D α A b img) κ b z y x

end scalar

end StirVerif.C09
