/-
C09 — proofs, part 6: "the gradient is the derivative of the value" at image level for RDP and log-cosh
(instances of `value_hasDerivAt`).
-/
import StirVerif.C09.ProofsDeriv

namespace StirVerif.C09

/-- **RDP: the gradient is the derivative of the value** along every line `λ + t e`, at every `t0` where neighbouring voxels have
    different values and the denominators do not vanish (symmetric weights) -/
theorem rdp_gradient_is_derivative_of_value (γ ε pf : ℝ) (w : Img ℝ) (κ : Option (Img ℝ)) (b wb : Box) (lam e : Img ℝ) (t0 : ℝ)
    (hw : SymWeights wb w)
    (hne : ∀ z y x z' y' x', InBox b z y x → InBox b z' y' x' → ¬ (z = z' ∧ y = y' ∧ x = x') →
      lam z y x + t0 * e z y x ≠ lam z' y' x' + t0 * e z' y' x')
    (hD : ∀ z y x z' y' x', InBox b z y x → InBox b z' y' x' →
      rdpDen γ ε (lam z y x + t0 * e z y x) (lam z' y' x' + t0 * e z' y' x') ≠ 0) :
    HasDerivAt (fun t => rValue γ ε pf w κ b wb (fun z y x => lam z y x + t * e z y x))
      (inner b (rGrad γ ε pf w κ b wb (fun z y x => lam z y x + t0 * e z y x)) e) t0 := by
  by_cases hpf : pf = 0
  · subst hpf
    have h1 : (fun t => rValue γ ε 0 w κ b wb (fun z y x => lam z y x + t * e z y x)) = fun _ => 0 := by
      funext t; simp [rValue]
    have h2 : inner b (rGrad γ ε 0 w κ b wb (fun z y x => lam z y x + t0 * e z y x)) e = 0 := by
      unfold inner rGrad grad
      rw [voxSum_congr b _ (fun _ _ _ => (0 : ℝ)) (fun _ _ _ _ => by simp)]
      simp [voxSum_eq]
    rw [h1, h2]; exact hasDerivAt_const _ _
  · -- the terms with a zero weight-offset (r = s) vanish; all other pairs have different values
    have key := value_hasDerivAt (fun a c => if a = c then 0 else rdpPsi γ ε a c) (rdpD10 γ ε) pf w κ b wb lam e t0 hw ?_
    · have hv : ∀ t, rValue γ ε pf w κ b wb (fun z y x => lam z y x + t * e z y x)
          = valueSum (fun w a c => w * (if a = c then 0 else rdpPsi γ ε a c)) w κ b wb (fun z y x => lam z y x + t * e z y x) * pf := by
        intro t
        unfold rValue
        have : (pf == 0) = false := by simpa using hpf
        simp only [this, Bool.false_eq_true, if_false]
        congr 1
        unfold valueSum
        refine voxSum_congr _ _ _ fun z y x _ => nbSum_congr _ _ _ _ _ _ _ fun dz dy dx _ _ => ?_
        congr 1
        unfold rdpTerm
        beta_reduce
        by_cases hac : lam z y x + t * e z y x = lam (z + dz) (y + dy) (x + dx) + t * e (z + dz) (y + dy) (x + dx)
        · rw [if_pos hac]
          have : rdpPsi γ ε (lam z y x + t * e z y x) (lam (z + dz) (y + dy) (x + dx) + t * e (z + dz) (y + dy) (x + dx)) = 0 := by
            rw [hac]; unfold rdpPsi sq; simp
          rw [this]; split_ifs <;> simp
        · rw [if_neg hac]
          split_ifs with hc
          · simp only [Bool.and_eq_true, beq_iff_eq] at hc
            exact absurd (by rw [hc.1.2, hc.2]) hac
          · rfl
      have hg : inner b (rGrad γ ε pf w κ b wb (fun z y x => lam z y x + t0 * e z y x)) e
          = inner b (gradCore (rdpD10 γ ε) pf w κ b wb (fun z y x => lam z y x + t0 * e z y x)) e := by
        unfold inner rGrad; simp only [grad_eq_core]
      rw [hg]
      exact key.congr_of_eventuallyEq (Filter.Eventually.of_forall hv)
    · intro r s hr hs _
      by_cases hrs : r = s
      · subst hrs
        have hz : (fun t : ℝ => if lam.at r + t * e.at r = lam.at r + t * e.at r then (0 : ℝ) else rdpPsi γ ε (lam.at r + t * e.at r) (lam.at r + t * e.at r))
            = fun _ => 0 := by funext t; simp
        rw [hz]
        have : (rdpD10 γ ε (lam.at r + t0 * e.at r) (lam.at r + t0 * e.at r) * e.at r
            + rdpD10 γ ε (lam.at r + t0 * e.at r) (lam.at r + t0 * e.at r) * e.at r) / 2 = 0 := by
          rw [rdpD10_self]; simp
        rw [this]; exact hasDerivAt_const _ _
      · have hne' : lam.at r + t0 * e.at r ≠ lam.at s + t0 * e.at s :=
          hne _ _ _ _ _ _ (mem_boxF.mp hr) (mem_boxF.mp hs) fun h => hrs (by ext <;> simp [h.1, h.2.1, h.2.2])
        have hline := rdp_psi_line γ ε (lam.at r) (lam.at s) (e.at r) (e.at s) t0 hne'
          (hD _ _ _ _ _ _ (mem_boxF.mp hr) (mem_boxF.mp hs))
        refine hline.congr_of_eventuallyEq ?_
        have hc : ContinuousAt (fun t : ℝ => (lam.at r + t * e.at r) - (lam.at s + t * e.at s)) t0 := by fun_prop
        have := hc.eventually_ne (sub_ne_zero.mpr hne')
        filter_upwards [this] with t ht
        rw [if_neg (sub_ne_zero.mp ht)]


/-- **log-cosh: the gradient is the derivative of the value** along every line, where all neighbour differences are on the branch
    `|s Δ| < 30` of `logcosh` (symmetric weights) -/
theorem logcosh_gradient_is_derivative_of_value (s pf : ℝ) (w : Img ℝ) (κ : Option (Img ℝ)) (b wb : Box) (lam e : Img ℝ) (t0 : ℝ)
    (hs : s ≠ 0) (hw : SymWeights wb w)
    (hbr : ∀ z y x z' y' x', InBox b z y x → InBox b z' y' x' →
      |s * ((lam z y x + t0 * e z y x) - (lam z' y' x' + t0 * e z' y' x'))| < 30) :
    HasDerivAt (fun t => lValue s pf w κ b wb (fun z y x => lam z y x + t * e z y x))
      (inner b (lGrad s pf w κ b wb (fun z y x => lam z y x + t0 * e z y x)) e) t0 := by
  have hg : inner b (lGrad s pf w κ b wb (fun z y x => lam z y x + t0 * e z y x)) e
      = inner b (gradCore (lcD10 s) pf w κ b wb (fun z y x => lam z y x + t0 * e z y x)) e := by
    unfold inner lGrad; simp only [grad_eq_core]
  rw [hg]
  have key := value_hasDerivAt (fun a c => lcTerm s 1 a c / 2) (lcD10 s) pf w κ b wb lam e t0 hw ?_
  · refine key.congr_of_eventuallyEq (Filter.Eventually.of_forall fun t => ?_)
    show lValue s pf w κ b wb (fun z y x => lam z y x + t * e z y x)
      = valueSum (fun w a c => w * (lcTerm s 1 a c / 2)) w κ b wb (fun z y x => lam z y x + t * e z y x) * pf
    have hv : valueSum (fun w a c => w * (lcTerm s 1 a c / 2)) w κ b wb (fun z y x => lam z y x + t * e z y x)
        = valueSum (lcTerm s) w κ b wb (fun z y x => lam z y x + t * e z y x) * (1 / 2) := by
      unfold valueSum
      rw [voxSum_mul_right]
      refine voxSum_congr _ _ _ fun z y x _ => ?_
      rw [nbSum_mul_right]
      refine nbSum_congr _ _ _ _ _ _ _ fun dz dy dx _ _ => ?_
      unfold lcTerm; ring
    rw [hv]
    unfold lValue
    by_cases hpf : pf = 0
    · simp [hpf]
    · have : (pf == 0) = false := by simpa using hpf
      simp only [this, Bool.false_eq_true, if_false, two_eq]
      ring
  · intro r s' hr hs' _
    exact (lc_term_line s (lam.at r) (lam.at s') (e.at r) (e.at s') t0 hs
      (hbr _ _ _ _ _ _ (mem_boxF.mp hr) (mem_boxF.mp hs'))).div_const 2

end StirVerif.C09
