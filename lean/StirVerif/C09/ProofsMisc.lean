/-
C09 — proofs, part 3: the early returns for a zero penalisation factor are consistent with the loops, linearity in the
penalisation factor, zero gradient of uniform images, locality / border behaviour, linearity of the quadratic gradient.
-/
import StirVerif.C09.ProofsHess

namespace StirVerif.C09
open Finset

section
variable {K : Type} [Field K] [LinearOrder K] [IsStrictOrderedRing K]

/-! ### the `if (penalisation_factor == 0) return` shortcuts do not change the result -/

theorem qValue_eq_core (pf : K) (w : Img K) (κ : Option (Img K)) (b wb : Box) (img : Img K) :
    qValue pf w κ b wb img = qValueCore pf w κ b wb img := by
  unfold qValue
  by_cases h : pf = 0
  · simp [h, qValueCore]
  · simp [h]

theorem grad_eq_core (d10 : K → K → K) (pf : K) (w : Img K) (κ : Option (Img K)) (b wb : Box) (img : Img K) (z y x : Int) :
    grad d10 pf w κ b wb img z y x = gradCore d10 pf w κ b wb img z y x := by
  unfold grad
  by_cases h : pf = 0
  · simp [h, gradCore]
  · simp [h]

theorem hessRow_eq_core (d20 d11 : K → K → K) (pf : K) (w : Img K) (κ : Option (Img K)) (b wb : Box) (img : Img K)
    (cz cy cx z y x : Int) :
    hessRow d20 d11 pf w κ b wb img cz cy cx z y x = hessRowCore d20 d11 pf w κ b wb img cz cy cx z y x := by
  unfold hessRow
  by_cases h : pf = 0
  · simp [h, hessRowCore]
  · simp [h]

theorem hessTimes_eq_core (d20 d11 : K → K → K) (pf : K) (w : Img K) (κ : Option (Img K)) (b wb : Box) (cur inp out : Img K)
    (z y x : Int) :
    hessTimes d20 d11 pf w κ b wb cur inp out z y x = out z y x + hessTimesCore d20 d11 pf w κ b wb cur inp z y x := by
  unfold hessTimes
  by_cases h : pf = 0
  · simp [h, hessTimesCore]
  · simp [h]

/-! ### linear in the penalisation factor -/

theorem qValueCore_scale (c pf : K) (w : Img K) (κ : Option (Img K)) (b wb : Box) (img : Img K) :
    qValueCore (c * pf) w κ b wb img = c * qValueCore pf w κ b wb img := by
  unfold qValueCore; ring

theorem gradCore_scale (d10 : K → K → K) (c pf : K) (w : Img K) (κ : Option (Img K)) (b wb : Box) (img : Img K) (z y x : Int) :
    gradCore d10 (c * pf) w κ b wb img z y x = c * gradCore d10 pf w κ b wb img z y x := by
  unfold gradCore; ring

theorem hessRowCore_scale (d20 d11 : K → K → K) (c pf : K) (w : Img K) (κ : Option (Img K)) (b wb : Box) (img : Img K)
    (cz cy cx z y x : Int) :
    hessRowCore d20 d11 (c * pf) w κ b wb img cz cy cx z y x = c * hessRowCore d20 d11 pf w κ b wb img cz cy cx z y x := by
  unfold hessRowCore
  simp only []
  split_ifs <;> ring

theorem hessTimesCore_scale (d20 d11 : K → K → K) (c pf : K) (w : Img K) (κ : Option (Img K)) (b wb : Box) (cur inp : Img K)
    (z y x : Int) :
    hessTimesCore d20 d11 (c * pf) w κ b wb cur inp z y x = c * hessTimesCore d20 d11 pf w κ b wb cur inp z y x := by
  unfold hessTimesCore; ring

/-! ### uniform images -/

theorem gradCore_uniform (d10 : K → K → K) (pf : K) (w : Img K) (κ : Option (Img K)) (b wb : Box) (c : K) (h : d10 c c = 0)
    (z y x : Int) : gradCore d10 pf w κ b wb (fun _ _ _ => c) z y x = 0 := by
  unfold gradCore
  rw [nbSum_congr b wb z y x _ (fun _ _ _ => (0 : K)) (fun dz dy dx _ _ => by simp [h]), nbSum_zero, zero_mul]

/-! ### locality: which values the loops read -/

theorem mem_irange {lo hi i : Int} : i ∈ irange lo hi ↔ lo ≤ i ∧ i ≤ hi := by
  simp only [irange, List.mem_map, List.mem_range]
  constructor
  · rintro ⟨k, hk, rfl⟩; omega
  · rintro ⟨h1, h2⟩; exact ⟨(i - lo).toNat, by omega, by omega⟩

/-- every offset visited by the clipped loop of coordinate `c` lies in the weights range and leads to an index inside the image -/
theorem clipped_in_image (wlo whi lo hi c d : Int) (h : d ∈ irange (max wlo (lo - c)) (min whi (hi - c))) :
    wlo ≤ d ∧ d ≤ whi ∧ lo ≤ c + d ∧ c + d ≤ hi := by
  rw [mem_irange, max_le_iff, le_min_iff] at h
  omega

/-- the gradient at a voxel of the image depends only on image values inside the image -/
theorem gradCore_congr (d10 : K → K → K) (pf : K) (w : Img K) (κ : Option (Img K)) (b wb : Box) (img img' : Img K)
    (h : ∀ z y x, InBox b z y x → img z y x = img' z y x) (z y x : Int) (hr : InBox b z y x) :
    gradCore d10 pf w κ b wb img z y x = gradCore d10 pf w κ b wb img' z y x := by
  unfold gradCore
  rw [nbSum_congr b wb z y x _ _ fun dz dy dx _ hin => by rw [h _ _ _ hr, h _ _ _ hin]]

/-- the gradient at voxel `r` does not change when the image is changed at a voxel `s ≠ r` whose offset `s - r` is not in the
    weights box -/
theorem gradCore_local (d10 : K → K → K) (pf : K) (w : Img K) (κ : Option (Img K)) (b wb : Box) (img img' : Img K)
    (z y x sz sy sx : Int) (hs : ¬ InBox wb (sz - z) (sy - y) (sx - x)) (hne : ¬ (sz = z ∧ sy = y ∧ sx = x))
    (h : ∀ z' y' x', ¬ (z' = sz ∧ y' = sy ∧ x' = sx) → img z' y' x' = img' z' y' x') :
    gradCore d10 pf w κ b wb img z y x = gradCore d10 pf w κ b wb img' z y x := by
  unfold gradCore
  rw [nbSum_congr b wb z y x _ _ fun dz dy dx hd _ => ?_]
  rw [h z y x (fun hh => hne ⟨hh.1.symm, hh.2.1.symm, hh.2.2.symm⟩), h (z + dz) (y + dy) (x + dx) ?_]
  rintro ⟨h1, h2, h3⟩
  apply hs
  have e1 : sz - z = dz := by omega
  have e2 : sy - y = dy := by omega
  have e3 : sx - x = dx := by omega
  rw [e1, e2, e3]; exact hd

theorem valueSum_congr (term : K → K → K → K) (w : Img K) (κ : Option (Img K)) (b wb : Box) (img img' : Img K)
    (h : ∀ z y x, InBox b z y x → img z y x = img' z y x) :
    valueSum term w κ b wb img = valueSum term w κ b wb img' := by
  unfold valueSum
  refine voxSum_congr _ _ _ fun z y x hr => nbSum_congr _ _ _ _ _ _ _ fun dz dy dx _ hin => ?_
  rw [h _ _ _ hr, h _ _ _ hin]

theorem hessTimesCore_congr (d20 d11 : K → K → K) (pf : K) (w : Img K) (κ : Option (Img K)) (b wb : Box)
    (cur cur' inp inp' : Img K) (h : ∀ z y x, InBox b z y x → cur z y x = cur' z y x)
    (h' : ∀ z y x, InBox b z y x → inp z y x = inp' z y x) (z y x : Int) (hr : InBox b z y x) :
    hessTimesCore d20 d11 pf w κ b wb cur inp z y x = hessTimesCore d20 d11 pf w κ b wb cur' inp' z y x := by
  unfold hessTimesCore
  rw [nbSum_congr b wb z y x _ _ fun dz dy dx _ hin => by rw [h _ _ _ hr, h _ _ _ hin, h' _ _ _ hr, h' _ _ _ hin]]

/-! ### the quadratic gradient is affine: `grad(λ + t e) = grad λ + t H e` -/

theorem qGrad_linear (pf : K) (w : Img K) (κ : Option (Img K)) (b wb : Box) (lam e : Img K) (t : K)
    (z y x : Int) :
    gradCore qD10 pf w κ b wb (fun z y x => lam z y x + t * e z y x) z y x
      = gradCore qD10 pf w κ b wb lam z y x + t * hessTimesCore qD20 qD11 pf w κ b wb lam e z y x := by
  rw [hessTimesCore_eq]
  unfold gradCore
  rw [← mul_assoc, nbSum_mul_left, ← add_mul, ← nbSum_add]
  congr 1
  refine nbSum_congr _ _ _ _ _ _ _ fun dz dy dx _ _ => ?_
  simp only [qD10, qD20, qD11]
  by_cases hd : dz = 0 ∧ dy = 0 ∧ dx = 0
  · obtain ⟨rfl, rfl, rfl⟩ := hd
    simp
  · rw [if_neg hd]; ring

end
end StirVerif.C09
