/-
C09 — proofs, part 5: derivatives along lines `λ + t e` — of the scalar potentials (RDP, log-cosh) and, at image level,
"the gradient is the derivative of the value" and "the Hessian-times-vector is the directional derivative of the gradient".
-/
import StirVerif.C09.ProofsCalc
import StirVerif.C09.ProofsMisc
import Mathlib.Analysis.Calculus.Deriv.Add

namespace StirVerif.C09
open Real Finset

/-! ### line derivatives of the RDP potential -/

theorem rdpPsi_eq (γ ε x y : ℝ) : rdpPsi γ ε x y = (x - y) * (x - y) / (2 * rdpDen γ ε x y) := by
  unfold rdpPsi sq; rw [two_eq]; ring

/-- derivative of the value term along a line `(x + t a, y + t b)` -/
theorem rdp_psi_line (γ ε x y a c t0 : ℝ) (hxy : x + t0 * a ≠ y + t0 * c) (hD : rdpDen γ ε (x + t0 * a) (y + t0 * c) ≠ 0) :
    HasDerivAt (fun t => rdpPsi γ ε (x + t * a) (y + t * c))
      ((rdpD10 γ ε (x + t0 * a) (y + t0 * c) * a + rdpD10 γ ε (y + t0 * c) (x + t0 * a) * c) / 2) t0 := by
  have hD2 : rdpDen γ ε (y + t0 * c) (x + t0 * a) ≠ 0 := by rw [← rdpDen_comm]; exact hD
  rw [rdpD10_eq _ _ _ _ hD, rdpD10_eq _ _ _ _ hD2, ← rdpDen_comm γ ε (x + t0 * a) (y + t0 * c), abs_sub_comm (y + t0 * c)]
  simp only [rdpPsi_eq]
  have hX : HasDerivAt (fun t : ℝ => x + t * a) a t0 := by simpa using ((hasDerivAt_id t0).mul_const a).const_add x
  have hY : HasDerivAt (fun t : ℝ => y + t * c) c t0 := by simpa using ((hasDerivAt_id t0).mul_const c).const_add y
  have hu : HasDerivAt (fun t : ℝ => (x + t * a) - (y + t * c)) (a - c) t0 := hX.sub hY
  have hnum : HasDerivAt (fun t : ℝ => ((x + t * a) - (y + t * c)) * ((x + t * a) - (y + t * c)))
      ((a - c) * ((x + t0 * a) - (y + t0 * c)) + ((x + t0 * a) - (y + t0 * c)) * (a - c)) t0 := hu.mul hu
  have hcont : ContinuousAt (fun t : ℝ => (x + t * a) - (y + t * c)) t0 := by fun_prop
  rcases lt_or_gt_of_ne hxy with hlt | hgt
  · have hneg : (x + t0 * a) - (y + t0 * c) < 0 := by linarith
    have hev : (fun t => (x + t * a - (y + t * c)) * (x + t * a - (y + t * c)) / (2 * rdpDen γ ε (x + t * a) (y + t * c))) =ᶠ[nhds t0]
        fun t => (x + t * a - (y + t * c)) * (x + t * a - (y + t * c))
          / (2 * ((x + t * a) + (y + t * c) + γ * (-((x + t * a) - (y + t * c))) + ε)) := by
      filter_upwards [hcont.eventually (gt_mem_nhds hneg)] with t ht
      rw [rdpDen_eq, abs_of_neg ht]
    refine HasDerivAt.congr_of_eventuallyEq ?_ hev
    have hden : HasDerivAt (fun t : ℝ => 2 * ((x + t * a) + (y + t * c) + γ * (-((x + t * a) - (y + t * c))) + ε))
        (2 * (a + c + γ * (-(a - c)))) t0 :=
      (((hX.add hY).add ((hu.neg).const_mul γ)).add_const ε).const_mul 2
    have hD' : 2 * ((x + t0 * a) + (y + t0 * c) + γ * (-((x + t0 * a) - (y + t0 * c))) + ε) ≠ 0 := by
      have := hD; rw [rdpDen_eq, abs_of_neg hneg] at this
      exact mul_ne_zero two_ne_zero this
    have h := hnum.div hden hD'
    have hD'' : (x + t0 * a) + (y + t0 * c) + γ * (-((x + t0 * a) - (y + t0 * c))) + ε ≠ 0 := by
      intro h0; apply hD'; rw [h0]; ring
    refine h.congr_deriv ?_
    rw [rdpDen_eq, abs_of_neg hneg]
    field_simp
    ring
  · have hpos : 0 < (x + t0 * a) - (y + t0 * c) := by linarith
    have hev : (fun t => (x + t * a - (y + t * c)) * (x + t * a - (y + t * c)) / (2 * rdpDen γ ε (x + t * a) (y + t * c))) =ᶠ[nhds t0]
        fun t => (x + t * a - (y + t * c)) * (x + t * a - (y + t * c))
          / (2 * ((x + t * a) + (y + t * c) + γ * ((x + t * a) - (y + t * c)) + ε)) := by
      filter_upwards [hcont.eventually (lt_mem_nhds hpos)] with t ht
      rw [rdpDen_eq, abs_of_pos ht]
    refine HasDerivAt.congr_of_eventuallyEq ?_ hev
    have hden : HasDerivAt (fun t : ℝ => 2 * ((x + t * a) + (y + t * c) + γ * ((x + t * a) - (y + t * c)) + ε))
        (2 * (a + c + γ * (a - c))) t0 :=
      (((hX.add hY).add (hu.const_mul γ)).add_const ε).const_mul 2
    have hD' : 2 * ((x + t0 * a) + (y + t0 * c) + γ * ((x + t0 * a) - (y + t0 * c)) + ε) ≠ 0 := by
      have := hD; rw [rdpDen_eq, abs_of_pos hpos] at this
      exact mul_ne_zero two_ne_zero this
    have h := hnum.div hden hD'
    have hD'' : (x + t0 * a) + (y + t0 * c) + γ * ((x + t0 * a) - (y + t0 * c)) + ε ≠ 0 := by
      intro h0; apply hD'; rw [h0]; ring
    refine h.congr_deriv ?_
    rw [rdpDen_eq, abs_of_pos hpos]
    field_simp
    ring


/-- derivative of the gradient factor along a line `(x + t a, y + t b)`: `derivative_20 · a + derivative_11 · b` -/
theorem rdp_d10_line (γ ε x y a c t0 : ℝ) (hxy : x + t0 * a ≠ y + t0 * c) (hD : rdpDen γ ε (x + t0 * a) (y + t0 * c) ≠ 0)
    (hpos : 0 < x + t0 * a ∨ 0 < y + t0 * c ∨ 0 < ε) :
    HasDerivAt (fun t => rdpD10 γ ε (x + t * a) (y + t * c))
      (rdpD20 γ ε (x + t0 * a) (y + t0 * c) * a + rdpD11 γ ε (x + t0 * a) (y + t0 * c) * c) t0 := by
  rw [rdpD20_eq _ _ _ _ hpos, rdpD11_eq _ _ _ _ hpos]
  have hX : HasDerivAt (fun t : ℝ => x + t * a) a t0 := by simpa using ((hasDerivAt_id t0).mul_const a).const_add x
  have hY : HasDerivAt (fun t : ℝ => y + t * c) c t0 := by simpa using ((hasDerivAt_id t0).mul_const c).const_add y
  have hu : HasDerivAt (fun t : ℝ => (x + t * a) - (y + t * c)) (a - c) t0 := hX.sub hY
  have hcont : ContinuousAt (fun t : ℝ => (x + t * a) - (y + t * c)) t0 := by fun_prop
  have hcontD : ContinuousAt (fun t : ℝ => rdpDen γ ε (x + t * a) (y + t * c)) t0 := by
    simp only [rdpDen_eq]; fun_prop
  have hDev := hcontD.eventually_ne hD
  rcases lt_or_gt_of_ne hxy with hlt | hgt
  · have hneg : (x + t0 * a) - (y + t0 * c) < 0 := by linarith
    have hev : (fun t => rdpD10 γ ε (x + t * a) (y + t * c)) =ᶠ[nhds t0]
        fun t => ((x + t * a) - (y + t * c)) * (γ * (-((x + t * a) - (y + t * c))) + (x + t * a) + 3 * (y + t * c) + 2 * ε)
          / (((x + t * a) + (y + t * c) + γ * (-((x + t * a) - (y + t * c))) + ε) * ((x + t * a) + (y + t * c) + γ * (-((x + t * a) - (y + t * c))) + ε)) := by
      filter_upwards [hcont.eventually (gt_mem_nhds hneg), hDev] with t ht hDt
      rw [rdpD10_eq _ _ _ _ hDt, rdpDen_eq, abs_of_neg ht]
    refine HasDerivAt.congr_of_eventuallyEq ?_ hev
    have hden : HasDerivAt (fun t : ℝ => (x + t * a) + (y + t * c) + γ * (-((x + t * a) - (y + t * c))) + ε)
        (a + c + γ * (-(a - c))) t0 := ((hX.add hY).add ((hu.neg).const_mul γ)).add_const ε
    have hN : HasDerivAt (fun t : ℝ => γ * (-((x + t * a) - (y + t * c))) + (x + t * a) + 3 * (y + t * c) + 2 * ε)
        (γ * (-(a - c)) + a + 3 * c) t0 := ((((hu.neg).const_mul γ).add hX).add (hY.const_mul 3)).add_const (2 * ε)
    have hD' : (x + t0 * a) + (y + t0 * c) + γ * (-((x + t0 * a) - (y + t0 * c))) + ε ≠ 0 := by
      have := hD; rw [rdpDen_eq, abs_of_neg hneg] at this; exact this
    have h := (hu.mul hN).div (hden.mul hden) (mul_ne_zero hD' hD')
    refine h.congr_deriv ?_
    simp only [Pi.mul_apply]
    rw [rdpDen_eq, abs_of_neg hneg]
    field_simp
    ring
  · have hpos' : 0 < (x + t0 * a) - (y + t0 * c) := by linarith
    have hev : (fun t => rdpD10 γ ε (x + t * a) (y + t * c)) =ᶠ[nhds t0]
        fun t => ((x + t * a) - (y + t * c)) * (γ * ((x + t * a) - (y + t * c)) + (x + t * a) + 3 * (y + t * c) + 2 * ε)
          / (((x + t * a) + (y + t * c) + γ * ((x + t * a) - (y + t * c)) + ε) * ((x + t * a) + (y + t * c) + γ * ((x + t * a) - (y + t * c)) + ε)) := by
      filter_upwards [hcont.eventually (lt_mem_nhds hpos'), hDev] with t ht hDt
      rw [rdpD10_eq _ _ _ _ hDt, rdpDen_eq, abs_of_pos ht]
    refine HasDerivAt.congr_of_eventuallyEq ?_ hev
    have hden : HasDerivAt (fun t : ℝ => (x + t * a) + (y + t * c) + γ * ((x + t * a) - (y + t * c)) + ε)
        (a + c + γ * (a - c)) t0 := ((hX.add hY).add (hu.const_mul γ)).add_const ε
    have hN : HasDerivAt (fun t : ℝ => γ * ((x + t * a) - (y + t * c)) + (x + t * a) + 3 * (y + t * c) + 2 * ε)
        (γ * (a - c) + a + 3 * c) t0 := (((hu.const_mul γ).add hX).add (hY.const_mul 3)).add_const (2 * ε)
    have hD' : (x + t0 * a) + (y + t0 * c) + γ * ((x + t0 * a) - (y + t0 * c)) + ε ≠ 0 := by
      have := hD; rw [rdpDen_eq, abs_of_pos hpos'] at this; exact this
    have h := (hu.mul hN).div (hden.mul hden) (mul_ne_zero hD' hD')
    refine h.congr_deriv ?_
    simp only [Pi.mul_apply]
    rw [rdpDen_eq, abs_of_pos hpos']
    field_simp
    ring

/-! ### line derivatives of the log-cosh potential -/

theorem lcD10_anti (s x y : ℝ) : lcD10 s y x = -lcD10 s x y := by
  unfold lcD10
  show 1 / s * Real.tanh (s * (y - x)) = -(1 / s * Real.tanh (s * (x - y)))
  have : s * (y - x) = -(s * (x - y)) := by ring
  rw [this, Real.tanh_neg]; ring

theorem lc_term_line (s x y a c t0 : ℝ) (hs : s ≠ 0) (h : |s * ((x + t0 * a) - (y + t0 * c))| < 30) :
    HasDerivAt (fun t => lcTerm s 1 (x + t * a) (y + t * c))
      (lcD10 s (x + t0 * a) (y + t0 * c) * a + lcD10 s (y + t0 * c) (x + t0 * a) * c) t0 := by
  -- the term only depends on the difference of its arguments
  have hfun : (fun t => lcTerm s 1 (x + t * a) (y + t * c)) = (fun u => lcTerm s 1 u (y + t0 * c)) ∘ fun t => x + t * a - t * c + t0 * c := by
    funext t
    simp only [Function.comp, lcTerm]
    congr 2; ring
  have hin : HasDerivAt (fun t : ℝ => x + t * a - t * c + t0 * c) (a - c) t0 := by
    have h1 : HasDerivAt (fun t : ℝ => x + t * a) a t0 := by simpa using ((hasDerivAt_id t0).mul_const a).const_add x
    have h2 : HasDerivAt (fun t : ℝ => t * c) c t0 := by simpa using (hasDerivAt_id t0).mul_const c
    exact (h1.sub h2).add_const (t0 * c)
  have hpt : x + t0 * a - t0 * c + t0 * c = x + t0 * a := by ring
  have hout := lc_d10_is_derivative s (x + t0 * a) (y + t0 * c) hs h
  rw [← hpt] at hout
  have := hout.comp t0 hin
  rw [hfun]
  refine this.congr_deriv ?_
  rw [lcD10_anti s (x + t0 * a) (y + t0 * c), hpt]; ring

theorem lc_d10_line (s x y a c t0 : ℝ) (hs : s ≠ 0) :
    HasDerivAt (fun t => lcD10 s (x + t * a) (y + t * c))
      (lcD20 s (x + t0 * a) (y + t0 * c) * a + lcD11 s (x + t0 * a) (y + t0 * c) * c) t0 := by
  have hfun : (fun t => lcD10 s (x + t * a) (y + t * c)) = (fun u => lcD10 s u (y + t0 * c)) ∘ fun t => x + t * a - t * c + t0 * c := by
    funext t
    simp only [Function.comp, lcD10]
    congr 2; ring
  have hin : HasDerivAt (fun t : ℝ => x + t * a - t * c + t0 * c) (a - c) t0 := by
    have h1 : HasDerivAt (fun t : ℝ => x + t * a) a t0 := by simpa using ((hasDerivAt_id t0).mul_const a).const_add x
    have h2 : HasDerivAt (fun t : ℝ => t * c) c t0 := by simpa using (hasDerivAt_id t0).mul_const c
    exact (h1.sub h2).add_const (t0 * c)
  have hpt : x + t0 * a - t0 * c + t0 * c = x + t0 * a := by ring
  have hout := lc_d20_is_derivative s (x + t0 * a) (y + t0 * c) hs
  rw [← hpt] at hout
  have := hout.comp t0 hin
  rw [hfun]
  refine this.congr_deriv ?_
  rw [hpt]; unfold lcD11; ring


/-! ### image level: the gradient is the derivative of the value, the Hessian that of the gradient -/

theorem pairSum_hasDerivAt (b wb : Box) (H : ℝ → V → V → ℝ) (H' : V → V → ℝ) (t0 : ℝ)
    (h : ∀ r s, r ∈ boxF b → s ∈ boxF b → subV s r ∈ boxF wb → HasDerivAt (fun t => H t r s) (H' r s) t0) :
    HasDerivAt (fun t => pairSum b wb (H t)) (pairSum b wb H') t0 := by
  unfold pairSum
  refine HasDerivAt.fun_sum fun r hr => HasDerivAt.fun_sum fun d hd => ?_
  by_cases hin : InBox b (r.1 + d.1) (r.2.1 + d.2.1) (r.2.2 + d.2.2)
  · simp only [if_pos hin]
    apply h _ _ hr (mem_boxF.mpr hin)
    simpa only [subV, add_sub_cancel_left] using hd
  · simp only [if_neg hin]
    exact hasDerivAt_const _ _

theorem nbSum_hasDerivAt (b wb : Box) (z y x : Int) (f : ℝ → Int → Int → Int → ℝ) (f' : Int → Int → Int → ℝ) (t0 : ℝ)
    (h : ∀ dz dy dx, InBox wb dz dy dx → InBox b (z + dz) (y + dy) (x + dx) → HasDerivAt (fun t => f t dz dy dx) (f' dz dy dx) t0) :
    HasDerivAt (fun t => nbSum b wb z y x (f t)) (nbSum b wb z y x f') t0 := by
  simp only [nbSum_eq]
  refine HasDerivAt.fun_sum fun d hd => ?_
  by_cases hin : InBox b (z + d.1) (y + d.2.1) (x + d.2.2)
  · simp only [if_pos hin]
    exact h _ _ _ (mem_boxF.mp hd) hin
  · simp only [if_neg hin]
    exact hasDerivAt_const _ _

/-- **the gradient is the derivative of the value** (along any line `λ + t e`), for a value of the form
    `pf · Σ_r Σ_d w(d) ψ(λ_r, λ_{r+d}) κ_r κ_{r+d}` and a gradient `pf · Σ_d w(d) d10(λ_r, λ_{r+d}) κ_r κ_{r+d}`, provided the
    weights are symmetric and `d10` is twice the derivative of the (symmetric) potential along the line at every pair of neighbours -/
theorem value_hasDerivAt (ψ d10 : ℝ → ℝ → ℝ) (pf : ℝ) (w : Img ℝ) (κ : Option (Img ℝ)) (b wb : Box) (lam e : Img ℝ) (t0 : ℝ)
    (hw : SymWeights wb w)
    (hψ : ∀ r s, r ∈ boxF b → s ∈ boxF b → subV s r ∈ boxF wb →
      HasDerivAt (fun t => ψ (lam.at r + t * e.at r) (lam.at s + t * e.at s))
        ((d10 (lam.at r + t0 * e.at r) (lam.at s + t0 * e.at s) * e.at r
          + d10 (lam.at s + t0 * e.at s) (lam.at r + t0 * e.at r) * e.at s) / 2) t0) :
    HasDerivAt (fun t => valueSum (fun w a b => w * ψ a b) w κ b wb (fun z y x => lam z y x + t * e z y x) * pf)
      (inner b (gradCore d10 pf w κ b wb (fun z y x => lam z y x + t0 * e z y x)) e) t0 := by
  simp only [valueSum_eq_pairSum]
  rw [inner_grad]
  refine HasDerivAt.mul_const ?_ pf
  -- derivative of the pair sum, term by term
  have hd := pairSum_hasDerivAt b wb
    (fun t r s => w.at (subV s r) * ψ (lam.at r + t * e.at r) (lam.at s + t * e.at s) * kf κ r s)
    (fun r s => w.at (subV s r) * ((d10 (lam.at r + t0 * e.at r) (lam.at s + t0 * e.at s) * e.at r
          + d10 (lam.at s + t0 * e.at s) (lam.at r + t0 * e.at r) * e.at s) / 2) * kf κ r s) t0
    (fun r s hr hs hd => ((hψ r s hr hs hd).const_mul _).mul_const _)
  refine hd.congr_deriv ?_
  -- symmetrise: Σ W (A_rs e_r + A_sr e_s)/2 = Σ W A_rs e_r
  set A : V → V → ℝ := fun r s => d10 (lam.at r + t0 * e.at r) (lam.at s + t0 * e.at s) with hA
  set Wk : V → V → ℝ := fun r s => w.at (subV s r) * kf κ r s with hWk
  have hWs : ∀ r s, r ∈ boxF b → s ∈ boxF b → subV s r ∈ boxF wb → Wk s r = Wk r s := by
    intro r s _ _ hd
    simp only [hWk, kf]
    rw [hw.at_swap hd, kfac_comm]
  have e1 : (pairSum b wb fun r s => w.at (subV s r) * ((A r s * e.at r + A s r * e.at s) / 2) * kf κ r s)
      = (1 / 2) * pairSum b wb (fun r s => Wk r s * A r s * e.at r) + (1 / 2) * pairSum b wb (fun r s => Wk r s * A s r * e.at s) := by
    rw [pairSum_mul_left, pairSum_mul_left, ← pairSum_add]
    refine pairSum_congr _ _ _ _ fun r s _ _ _ => ?_
    simp only [hWk]; ring
  have e2 : pairSum b wb (fun r s => Wk r s * A s r * e.at s) = pairSum b wb (fun r s => Wk r s * A r s * e.at r) := by
    rw [pairSum_swap b wb hw.box]
    refine pairSum_congr _ _ _ _ fun r s hr hs hd => ?_
    rw [hWs r s hr hs hd]
  have e3 : (pairSum b wb fun r s => w.at (subV s r) * d10 (Img.at (fun z y x => lam z y x + t0 * e z y x) r)
        (Img.at (fun z y x => lam z y x + t0 * e z y x) s) * kf κ r s * e.at r)
      = pairSum b wb (fun r s => Wk r s * A r s * e.at r) := by
    refine pairSum_congr _ _ _ _ fun r s _ _ _ => ?_
    simp only [hWk, hA, Img.at]; ring
  rw [e1, e2, e3]; ring

/-- **the Hessian-times-vector is the directional derivative of the gradient** (any weights; the potential's `d10` vanishes
    on the diagonal, so the centre weight plays no role) -/
theorem grad_hasDerivAt (d10 d20 d11 : ℝ → ℝ → ℝ) (pf : ℝ) (w : Img ℝ) (κ : Option (Img ℝ)) (b wb : Box) (lam v : Img ℝ) (t0 : ℝ)
    (h10 : ∀ a : ℝ, d10 a a = 0) (z y x : Int) (hr : InBox b z y x)
    (hd : ∀ r s, r ∈ boxF b → s ∈ boxF b → subV s r ∈ boxF wb → r ≠ s →
      HasDerivAt (fun t => d10 (lam.at r + t * v.at r) (lam.at s + t * v.at s))
        (d20 (lam.at r + t0 * v.at r) (lam.at s + t0 * v.at s) * v.at r
          + d11 (lam.at r + t0 * v.at r) (lam.at s + t0 * v.at s) * v.at s) t0) :
    HasDerivAt (fun t => gradCore d10 pf w κ b wb (fun z y x => lam z y x + t * v z y x) z y x)
      (hessTimesCore d20 d11 pf w κ b wb (fun z y x => lam z y x + t0 * v z y x) v z y x) t0 := by
  rw [hessTimesCore_eq]
  unfold gradCore
  refine HasDerivAt.mul_const ?_ pf
  refine nbSum_hasDerivAt b wb z y x _ _ t0 fun dz dy dx hdw hin => ?_
  by_cases h0 : dz = 0 ∧ dy = 0 ∧ dx = 0
  · obtain ⟨rfl, rfl, rfl⟩ := h0
    simp only [add_zero, h10, mul_zero, zero_mul, and_self, if_true]
    exact hasDerivAt_const _ _
  · rw [if_neg h0]
    have hne : ((z, y, x) : V) ≠ (z + dz, y + dy, x + dx) := by
      intro h
      simp only [Prod.mk.injEq] at h
      apply h0; omega
    have := hd (z, y, x) (z + dz, y + dy, x + dx) (mem_boxF.mpr hr) (mem_boxF.mpr hin)
      (by rw [mem_boxF]; simpa only [subV, add_sub_cancel_left] using hdw) hne
    exact (this.const_mul _).mul_const _

end StirVerif.C09
