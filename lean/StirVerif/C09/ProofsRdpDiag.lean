/-
C09 — proofs, part 4b (real analysis): the relative difference potential ON the diagonal `x = y`.
`|t - y|` is not differentiable at `t = y`, so the quotient-rule proofs of `ProofsCalc.lean` exclude that point; but
`2ψ(t,y) = (t-y)·((t-y)/D(t))` and `derivative_10(t,y) = (t-y)·(N(t)/D(t)²)` have the form `(t-y)·h(t)` with `h` continuous at `y`
(`D`, `N` contain `|t-y|` only through continuous expressions), and such a function has derivative `h(y)` at `y`.
-/
import StirVerif.C09.ProofsCalc
import Mathlib.Analysis.Calculus.Deriv.Slope

namespace StirVerif.C09
open Real Filter Topology

/-- `t ↦ (t - a) · h t` has derivative `h a` at `a` as soon as `h` is continuous at `a` (no differentiability of `h` needed) -/
theorem hasDerivAt_sub_mul_of_continuousAt (h : ℝ → ℝ) (a : ℝ) (hc : ContinuousAt h a) :
    HasDerivAt (fun t => (t - a) * h t) (h a) a := by
  rw [hasDerivAt_iff_tendsto_slope]
  have hev : h =ᶠ[𝓝[≠] a] slope (fun t => (t - a) * h t) a := by
    filter_upwards [self_mem_nhdsWithin] with t ht
    have hne : t - a ≠ 0 := sub_ne_zero.mpr ht
    rw [slope_def_field]
    simp only [sub_self, zero_mul, sub_zero]
    field_simp
  exact (hc.tendsto.mono_left nhdsWithin_le_nhds).congr' hev

theorem rdpDen_continuousAt (γ ε y x : ℝ) : ContinuousAt (fun t : ℝ => rdpDen γ ε t y) x := by
  simp only [rdpDen_eq]; fun_prop

/-- `derivative_10(x,x) = 0` is the derivative of `2ψ(·,x)` at `x`, and `derivative_20(x,x) = 2/(2x+ε)` is the derivative of
    `derivative_10(·,x)` at `x`, wherever the denominator `2x + ε` is positive -/
theorem rdp_derivatives_on_diagonal (γ ε x : ℝ) (hD : 0 < rdpDen γ ε x x) (hx : 0 < x ∨ 0 < ε) :
    HasDerivAt (fun t => two * rdpPsi γ ε t x) (rdpD10 γ ε x x) x
    ∧ HasDerivAt (fun t => rdpD10 γ ε t x) (rdpD20 γ ε x x) x := by
  have hcont := rdpDen_continuousAt γ ε x x
  have hDne : rdpDen γ ε x x ≠ 0 := hD.ne'
  have hDxx : rdpDen γ ε x x = 2 * x + ε := by rw [rdpDen_eq]; simp; ring
  constructor
  · -- 2ψ(t,x) = (t - x) · ((t - x) / D(t))
    have hfun : (fun t => two * rdpPsi γ ε t x) = fun t => (t - x) * ((t - x) / rdpDen γ ε t x) := by
      funext t; rw [rdp_two_psi, mul_div_assoc]
    have hh : ContinuousAt (fun t : ℝ => (t - x) / rdpDen γ ε t x) x :=
      ContinuousAt.div (by fun_prop) hcont hDne
    have h := hasDerivAt_sub_mul_of_continuousAt _ x hh
    rw [hfun, rdpD10_self]
    simpa using h
  · -- derivative_10(t,x) = (t - x) · (N(t) / D(t)²) near x
    have hDev := hcont.eventually_ne hDne
    have hev : (fun t => rdpD10 γ ε t x) =ᶠ[𝓝 x]
        fun t => (t - x) * ((γ * |t - x| + t + 3 * x + 2 * ε) / (rdpDen γ ε t x * rdpDen γ ε t x)) := by
      filter_upwards [hDev] with t hDt
      rw [rdpD10_eq γ ε t x hDt, mul_div_assoc]
    have hh : ContinuousAt (fun t : ℝ => (γ * |t - x| + t + 3 * x + 2 * ε) / (rdpDen γ ε t x * rdpDen γ ε t x)) x :=
      ContinuousAt.div (by fun_prop) (hcont.mul hcont) (mul_ne_zero hDne hDne)
    have h := hasDerivAt_sub_mul_of_continuousAt _ x hh
    refine HasDerivAt.congr_of_eventuallyEq ?_ hev
    have key : rdpD20 γ ε x x
        = (γ * |x - x| + x + 3 * x + 2 * ε) / (rdpDen γ ε x x * rdpDen γ ε x x) := by
      rw [rdpD20_eq γ ε x x (by tauto), hDxx]
      have h2 : 2 * x + ε ≠ 0 := by rw [← hDxx]; exact hDne
      simp only [sub_self, abs_zero, mul_zero, zero_add]
      field_simp
      ring
    rw [key]
    exact h

end StirVerif.C09
