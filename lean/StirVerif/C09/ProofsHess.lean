/-
C09 — proofs, part 2: algebra of the neighbourhood priors (Quadratic, RDP, log-cosh share the loops):
Hessian row = H·unit, symmetry and positive semi-definiteness of the Hessian, the exact second-order expansion of the
quadratic prior, linearity in the penalisation factor, zero gradient of uniform images, locality.
-/
import StirVerif.C09.ProofsSum
import Mathlib.Algebra.Order.Field.Basic
import Mathlib.Tactic.Positivity
import Mathlib.Tactic.LinearCombination
import Mathlib.Tactic.FieldSimp

namespace StirVerif.C09
open Finset

section
variable {K : Type} [Field K] [LinearOrder K] [IsStrictOrderedRing K]

/-- the weights are symmetric: symmetric index range and `w(-d) = w(d)` -/
structure SymWeights (wb : Box) (w : Img K) : Prop where
  box : SymBox wb
  sym : ∀ dz dy dx, InBox wb dz dy dx → w (-dz) (-dy) (-dx) = w dz dy dx

/-- inner product of two images over the box -/
def inner (b : Box) (u v : Img K) : K := voxSum b fun z y x => u z y x * v z y x

/-- the unit image of voxel `(cz,cy,cx)` -/
def unitImg (cz cy cx : Int) : Img K := fun z y x => if z = cz ∧ y = cy ∧ x = cx then 1 else 0

theorem kfac_comm (κ : Option (Img K)) (z y x z' y' x' : Int) :
    kfac κ z y x z' y' x' = kfac κ z' y' x' z y x := by
  cases κ <;> simp [kfac, mul_comm]

/-- `accumulate_Hessian_times_input` without the `if (current == 0) continue` shortcut -/
theorem hessTimesCore_eq (d20 d11 : K → K → K) (pf : K) (w : Img K) (κ : Option (Img K)) (b wb : Box) (cur inp : Img K)
    (z y x : Int) :
    hessTimesCore d20 d11 pf w κ b wb cur inp z y x
      = (nbSum b wb z y x fun dz dy dx =>
          if dz = 0 ∧ dy = 0 ∧ dx = 0 then 0
          else w dz dy dx * (d20 (cur z y x) (cur (z + dz) (y + dy) (x + dx)) * inp z y x
              + d11 (cur z y x) (cur (z + dz) (y + dy) (x + dx)) * inp (z + dz) (y + dy) (x + dx))
            * kfac κ z y x (z + dz) (y + dy) (x + dx)) * pf := by
  unfold hessTimesCore
  congr 1
  refine nbSum_congr _ _ _ _ _ _ _ fun dz dy dx _ _ => ?_
  by_cases hd : dz = 0 ∧ dy = 0 ∧ dx = 0
  · obtain ⟨rfl, rfl, rfl⟩ := hd
    simp
  · have : (dz == 0 && dy == 0 && dx == 0) = false := by
      simp only [Bool.and_eq_false_iff, beq_eq_false_iff_ne, ne_eq]
      tauto
    by_cases hw : w dz dy dx = 0
    · simp [hw]
    · simp [hw, hd, this]

/-- the term of the ordered pair `(r, s)` in `⟨u, H v⟩` (nothing for `s = r`: a voxel is not its own neighbour) -/
def hPair (d20 d11 : K → K → K) (w : Img K) (κ : Option (Img K)) (cur u v : Img K) (r s : V) : K :=
  if (subV s r).1 = 0 ∧ (subV s r).2.1 = 0 ∧ (subV s r).2.2 = 0 then 0
  else u.at r * (w.at (subV s r) * (d20 (cur.at r) (cur.at s) * v.at r + d11 (cur.at r) (cur.at s) * v.at s)
    * kfac κ r.1 r.2.1 r.2.2 s.1 s.2.1 s.2.2)

theorem inner_hessTimes (d20 d11 : K → K → K) (pf : K) (w : Img K) (κ : Option (Img K)) (b wb : Box) (cur u v : Img K) :
    inner b u (hessTimesCore d20 d11 pf w κ b wb cur v) = pairSum b wb (hPair d20 d11 w κ cur u v) * pf := by
  unfold inner
  have h1 : ∀ z y x, u z y x * hessTimesCore d20 d11 pf w κ b wb cur v z y x
      = (nbSum b wb z y x fun dz dy dx =>
          if dz = 0 ∧ dy = 0 ∧ dx = 0 then 0
          else u z y x * (w dz dy dx * (d20 (cur z y x) (cur (z + dz) (y + dy) (x + dx)) * v z y x
              + d11 (cur z y x) (cur (z + dz) (y + dy) (x + dx)) * v (z + dz) (y + dy) (x + dx))
            * kfac κ z y x (z + dz) (y + dy) (x + dx))) * pf := by
    intro z y x
    rw [hessTimesCore_eq, ← mul_assoc, nbSum_mul_left]
    simp only [mul_ite, mul_zero]
  simp only [h1]
  rw [← voxSum_mul_right]
  congr 1
  exact voxSum_nbSum_eq_pairSum b wb fun r d s =>
    if d.1 = 0 ∧ d.2.1 = 0 ∧ d.2.2 = 0 then 0
    else u.at r * (w.at d * (d20 (cur.at r) (cur.at s) * v.at r + d11 (cur.at r) (cur.at s) * v.at s)
      * kfac κ r.1 r.2.1 r.2.2 s.1 s.2.1 s.2.2)

theorem SymWeights.at_swap {wb : Box} {w : Img K} (hw : SymWeights wb w) {r s : V} (h : subV s r ∈ boxF wb) :
    w.at (subV r s) = w.at (subV s r) := by
  have := hw.sym _ _ _ (mem_boxF.mp h)
  simpa only [Img.at, subV, neg_sub] using this

theorem pairSum_hPair_symm (d20 d11 : K → K → K) (w : Img K) (κ : Option (Img K)) (b wb : Box) (cur u v : Img K)
    (hw : SymWeights wb w) (h11 : ∀ r s, r ∈ boxF b → s ∈ boxF b → d11 (cur.at r) (cur.at s) = d11 (cur.at s) (cur.at r)) :
    pairSum b wb (hPair d20 d11 w κ cur u v) = pairSum b wb (hPair d20 d11 w κ cur v u) := by
  -- diagonal-type part A (symmetric in u, v pointwise) and off-diagonal part B (symmetric after swapping the pair)
  let A (u v : Img K) (r s : V) : K :=
    if (subV s r).1 = 0 ∧ (subV s r).2.1 = 0 ∧ (subV s r).2.2 = 0 then 0
    else u.at r * (w.at (subV s r) * (d20 (cur.at r) (cur.at s) * v.at r) * kfac κ r.1 r.2.1 r.2.2 s.1 s.2.1 s.2.2)
  let B (u v : Img K) (r s : V) : K :=
    if (subV s r).1 = 0 ∧ (subV s r).2.1 = 0 ∧ (subV s r).2.2 = 0 then 0
    else u.at r * (w.at (subV s r) * (d11 (cur.at r) (cur.at s) * v.at s) * kfac κ r.1 r.2.1 r.2.2 s.1 s.2.1 s.2.2)
  have split : ∀ u v : Img K, pairSum b wb (hPair d20 d11 w κ cur u v) = pairSum b wb (A u v) + pairSum b wb (B u v) := by
    intro u v
    rw [← pairSum_add]
    refine pairSum_congr _ _ _ _ fun r s _ _ _ => ?_
    simp only [hPair, A, B]
    split_ifs <;> ring
  rw [split u v, split v u]
  congr 1
  · refine pairSum_congr _ _ _ _ fun r s _ _ _ => ?_
    simp only [A]
    split_ifs <;> ring
  · rw [pairSum_swap b wb hw.box]
    refine pairSum_congr _ _ _ _ fun r s hr hs hd => ?_
    simp only [B]
    have hz : ((subV r s).1 = 0 ∧ (subV r s).2.1 = 0 ∧ (subV r s).2.2 = 0)
        ↔ ((subV s r).1 = 0 ∧ (subV s r).2.1 = 0 ∧ (subV s r).2.2 = 0) := by
      simp only [subV]; omega
    rw [hw.at_swap hd, h11 s r hs hr, kfac_comm κ s.1 s.2.1 s.2.2]
    by_cases hc : (subV s r).1 = 0 ∧ (subV s r).2.1 = 0 ∧ (subV s r).2.2 = 0
    · rw [if_pos hc, if_pos (hz.mpr hc)]
    · rw [if_neg hc, if_neg (fun h => hc (hz.mp h))]; ring

/-- the Hessian is symmetric: `⟨u, H v⟩ = ⟨v, H u⟩` (symmetric weights, symmetric `derivative_11`) -/
theorem H_symmetric (d20 d11 : K → K → K) (pf : K) (w : Img K) (κ : Option (Img K)) (b wb : Box) (cur u v : Img K)
    (hw : SymWeights wb w) (h11 : ∀ r s, r ∈ boxF b → s ∈ boxF b → d11 (cur.at r) (cur.at s) = d11 (cur.at s) (cur.at r)) :
    inner b u (hessTimesCore d20 d11 pf w κ b wb cur v) = inner b v (hessTimesCore d20 d11 pf w κ b wb cur u) := by
  rw [inner_hessTimes, inner_hessTimes, pairSum_hPair_symm d20 d11 w κ b wb cur u v hw h11]

/-- the kappa image (if any) is non-negative on the image -/
def KappaNonneg (b : Box) (κ : Option (Img K)) : Prop :=
  ∀ k, κ = some k → ∀ z y x, InBox b z y x → 0 ≤ k z y x

theorem kfac_nonneg {b : Box} {κ : Option (Img K)} (hκ : KappaNonneg b κ) {r s : V} (hr : r ∈ boxF b) (hs : s ∈ boxF b) :
    0 ≤ kfac κ r.1 r.2.1 r.2.2 s.1 s.2.1 s.2.2 := by
  cases κ with
  | none => simp [kfac]
  | some k => exact mul_nonneg (hκ k rfl _ _ _ (mem_boxF.mp hr)) (hκ k rfl _ _ _ (mem_boxF.mp hs))

/-- `⟨e, H e⟩ ≥ 0` for non-negative symmetric weights, non-negative kappa and penalisation factor, when the 2×2 matrices
    `[[d20(a,b), d11(a,b)], [d11(a,b), d20(b,a)]]` of the potential are positive semi-definite at the image values -/
theorem H_psd (d20 d11 : K → K → K) (pf : K) (w : Img K) (κ : Option (Img K)) (b wb : Box) (cur e : Img K)
    (hw : SymWeights wb w) (hw0 : ∀ dz dy dx, InBox wb dz dy dx → 0 ≤ w dz dy dx) (hκ : KappaNonneg b κ) (hpf : 0 ≤ pf)
    (h11 : ∀ r s, r ∈ boxF b → s ∈ boxF b → d11 (cur.at r) (cur.at s) = d11 (cur.at s) (cur.at r))
    (hpsd : ∀ r s, r ∈ boxF b → s ∈ boxF b → ∀ a c : K,
      0 ≤ d20 (cur.at r) (cur.at s) * a * a + 2 * d11 (cur.at r) (cur.at s) * a * c + d20 (cur.at s) (cur.at r) * c * c) :
    0 ≤ inner b e (hessTimesCore d20 d11 pf w κ b wb cur e) := by
  rw [inner_hessTimes]
  refine mul_nonneg ?_ hpf
  have h2 : 0 ≤ pairSum b wb (hPair d20 d11 w κ cur e e) + pairSum b wb (hPair d20 d11 w κ cur e e) := by
    conv_lhs => skip
    nth_rewrite 2 [pairSum_swap b wb hw.box]
    rw [← pairSum_add]
    refine pairSum_nonneg _ _ _ fun r s hr hs hd => ?_
    simp only [hPair]
    have hz : ((subV r s).1 = 0 ∧ (subV r s).2.1 = 0 ∧ (subV r s).2.2 = 0)
        ↔ ((subV s r).1 = 0 ∧ (subV s r).2.1 = 0 ∧ (subV s r).2.2 = 0) := by
      simp only [subV]; omega
    rw [hw.at_swap hd, h11 s r hs hr, kfac_comm κ s.1 s.2.1 s.2.2]
    have hW : 0 ≤ w.at (subV s r) := hw0 _ _ _ (mem_boxF.mp hd)
    have hk := kfac_nonneg hκ hr hs
    by_cases hc : (subV s r).1 = 0 ∧ (subV s r).2.1 = 0 ∧ (subV s r).2.2 = 0
    · rw [if_pos hc, if_pos (hz.mpr hc)]; simp
    · rw [if_neg hc, if_neg (fun h => hc (hz.mp h))]
      have q := hpsd r s hr hs (e.at r) (e.at s)
      have : e.at r * (w.at (subV s r) * (d20 (cur.at r) (cur.at s) * e.at r + d11 (cur.at r) (cur.at s) * e.at s) * kfac κ r.1 r.2.1 r.2.2 s.1 s.2.1 s.2.2)
          + e.at s * (w.at (subV s r) * (d20 (cur.at s) (cur.at r) * e.at s + d11 (cur.at r) (cur.at s) * e.at r) * kfac κ r.1 r.2.1 r.2.2 s.1 s.2.1 s.2.2)
          = w.at (subV s r) * kfac κ r.1 r.2.1 r.2.2 s.1 s.2.1 s.2.2
            * (d20 (cur.at r) (cur.at s) * e.at r * e.at r + 2 * d11 (cur.at r) (cur.at s) * e.at r * e.at s + d20 (cur.at s) (cur.at r) * e.at s * e.at s) := by
        ring
      rw [this]
      exact mul_nonneg (mul_nonneg hW hk) q
  linarith

theorem inNb_iff (b wb : Box) (z y x dz dy dx : Int) :
    inNb b wb z y x dz dy dx = true ↔ InBox wb dz dy dx ∧ InBox b (z + dz) (y + dy) (x + dx) := by
  simp only [inNb, Bool.and_eq_true, decide_eq_true_eq, max_le_iff, le_min_iff, InBox]
  omega

theorem hessRow_eq_hessTimes_unit (d20 d11 : K → K → K) (pf : K) (w : Img K) (κ : Option (Img K)) (b wb : Box) (cur : Img K)
    (hw : SymWeights wb w) (h11 : ∀ a c : K, d11 a c = d11 c a)
    (cz cy cx z y x : Int) (hc : InBox b cz cy cx) (hr : InBox b z y x) :
    hessRowCore d20 d11 pf w κ b wb cur cz cy cx z y x
      = hessTimesCore d20 d11 pf w κ b wb cur (unitImg cz cy cx) z y x := by
  rw [hessTimesCore_eq]
  unfold hessRowCore
  obtain ⟨hb1, hb2, hb3⟩ := hw.box
  by_cases hrc : z = cz ∧ y = cy ∧ x = cx
  · -- diagonal entry
    obtain ⟨rfl, rfl, rfl⟩ := hrc
    simp only [sub_self]
    by_cases h0 : InBox wb 0 0 0
    · have hin : inNb b wb z y x 0 0 0 = true := by
        rw [inNb_iff]; exact ⟨h0, by simpa using hr⟩
      rw [if_pos hin]
      simp only [beq_self_eq_true, Bool.and_self, if_true]
      congr 1
      refine nbSum_congr _ _ _ _ _ _ _ fun dz dy dx _ _ => ?_
      by_cases hd : dz = 0 ∧ dy = 0 ∧ dx = 0
      · obtain ⟨rfl, rfl, rfl⟩ := hd
        simp
      · have : unitImg (K := K) z y x (z + dz) (y + dy) (x + dx) = 0 := by
          unfold unitImg
          rw [if_neg]
          intro h; apply hd; omega
        have hbq : (dz == 0 && dy == 0 && dx == 0) = false := by
          simp only [Bool.and_eq_false_iff, beq_eq_false_iff_ne, ne_eq]
          tauto
        rw [if_neg hd, hbq, this]
        simp [unitImg]
    · have hin : ¬ inNb b wb z y x 0 0 0 = true := by
        rw [inNb_iff]; exact fun h => h0 h.1
      rw [if_neg hin, nbSum_eq]
      have : boxF wb = ∅ := by
        unfold boxF
        simp only [InBox] at h0
        by_cases hz : wb.z1 < 0
        · rw [Finset.Icc_eq_empty (by omega)]; simp
        · by_cases hy : wb.y1 < 0
          · rw [Finset.Icc_eq_empty (a := wb.y0) (by omega)]; simp
          · rw [Finset.Icc_eq_empty (a := wb.x0) (by omega)]; simp
      simp [this]
  · -- off-diagonal entry
    have hbeq : ((z - cz) == 0 && (y - cy) == 0 && (x - cx) == 0) = false := by
      simp only [Bool.and_eq_false_iff, beq_eq_false_iff_ne, ne_eq]; omega
    have he : unitImg (K := K) cz cy cx z y x = 0 := by unfold unitImg; rw [if_neg hrc]
    have e1' : cz + (z - cz) = z := by omega
    have e2' : cy + (y - cy) = y := by omega
    have e3' : cx + (x - cx) = x := by omega
    -- right-hand side: only the offset d = c - r contributes
    have hR : (nbSum b wb z y x fun dz dy dx =>
          if dz = 0 ∧ dy = 0 ∧ dx = 0 then 0
          else w dz dy dx * (d20 (cur z y x) (cur (z + dz) (y + dy) (x + dx)) * unitImg cz cy cx z y x
              + d11 (cur z y x) (cur (z + dz) (y + dy) (x + dx)) * unitImg cz cy cx (z + dz) (y + dy) (x + dx))
            * kfac κ z y x (z + dz) (y + dy) (x + dx))
        = if InBox wb (cz - z) (cy - y) (cx - x) then
            w (cz - z) (cy - y) (cx - x) * d11 (cur z y x) (cur cz cy cx) * kfac κ z y x cz cy cx else 0 := by
      rw [nbSum_eq]
      have hother : ∀ d : V, d ≠ ((cz - z, cy - y, cx - x) : V) →
          (if InBox b (z + d.1) (y + d.2.1) (x + d.2.2) then
            (if d.1 = 0 ∧ d.2.1 = 0 ∧ d.2.2 = 0 then 0
             else w d.1 d.2.1 d.2.2 * (d20 (cur z y x) (cur (z + d.1) (y + d.2.1) (x + d.2.2)) * unitImg cz cy cx z y x
                + d11 (cur z y x) (cur (z + d.1) (y + d.2.1) (x + d.2.2)) * unitImg cz cy cx (z + d.1) (y + d.2.1) (x + d.2.2))
              * kfac κ z y x (z + d.1) (y + d.2.1) (x + d.2.2)) else 0) = 0 := by
        intro d hd
        have : unitImg (K := K) cz cy cx (z + d.1) (y + d.2.1) (x + d.2.2) = 0 := by
          unfold unitImg
          rw [if_neg]
          intro h; apply hd
          ext <;> simp <;> omega
        split_ifs <;> simp [he, this]
      by_cases hd : InBox wb (cz - z) (cy - y) (cx - x)
      · rw [if_pos hd, Finset.sum_eq_single_of_mem ((cz - z, cy - y, cx - x) : V) (mem_boxF.mpr hd) (fun d _ h => hother d h)]
        have e1 : z + (cz - z) = cz := by omega
        have e2 : y + (cy - y) = cy := by omega
        have e3 : x + (cx - x) = cx := by omega
        have hcz : ¬ ((cz - z) = 0 ∧ (cy - y) = 0 ∧ (cx - x) = 0) := by omega
        have hu : unitImg (K := K) cz cy cx cz cy cx = 1 := by simp [unitImg]
        simp only [e1, e2, e3, if_pos hc, if_neg hcz, he, hu, mul_zero, zero_add, mul_one]
      · rw [if_neg hd]
        refine Finset.sum_eq_zero fun d hdm => hother d ?_
        rintro rfl
        exact hd (mem_boxF.mp hdm)
    rw [hR]
    have hiff : InBox wb (z - cz) (y - cy) (x - cx) ↔ InBox wb (cz - z) (cy - y) (cx - x) := by
      simp only [InBox]; omega
    by_cases hd : InBox wb (z - cz) (y - cy) (x - cx)
    · have hin : inNb b wb cz cy cx (z - cz) (y - cy) (x - cx) = true := by
        rw [inNb_iff, e1', e2', e3']; exact ⟨hd, hr⟩
      rw [if_pos hin, if_pos (hiff.mp hd), hbeq, e1', e2', e3']
      have hs := hw.sym _ _ _ hd
      simp only [neg_sub] at hs
      rw [hs, h11 (cur z y x) (cur cz cy cx), kfac_comm κ z y x]
      simp
    · have hin : ¬ inNb b wb cz cy cx (z - cz) (y - cy) (x - cx) = true := by
        rw [inNb_iff]; exact fun h => hd h.1
      rw [if_neg hin, if_neg (fun h => hd (hiff.mpr h))]
      simp

/-- abbreviation: the kappa factor of a pair of voxels -/
abbrev kf (κ : Option (Img K)) (r s : V) : K := kfac κ r.1 r.2.1 r.2.2 s.1 s.2.1 s.2.2

theorem valueSum_eq_pairSum (term : K → K → K → K) (w : Img K) (κ : Option (Img K)) (b wb : Box) (img : Img K) :
    valueSum term w κ b wb img
      = pairSum b wb fun r s => term (w.at (subV s r)) (img.at r) (img.at s) * kf κ r s := by
  unfold valueSum
  exact voxSum_nbSum_eq_pairSum b wb fun r d s => term (w.at d) (img.at r) (img.at s) * kf κ r s

theorem inner_grad (d10 : K → K → K) (pf : K) (w : Img K) (κ : Option (Img K)) (b wb : Box) (img e : Img K) :
    inner b (gradCore d10 pf w κ b wb img) e
      = pairSum b wb (fun r s => w.at (subV s r) * d10 (img.at r) (img.at s) * kf κ r s * e.at r) * pf := by
  unfold inner gradCore
  have h1 : ∀ z y x, (nbSum b wb z y x fun dz dy dx =>
        w dz dy dx * d10 (img z y x) (img (z + dz) (y + dy) (x + dx)) * kfac κ z y x (z + dz) (y + dy) (x + dx)) * pf * e z y x
      = (nbSum b wb z y x fun dz dy dx =>
        w dz dy dx * d10 (img z y x) (img (z + dz) (y + dy) (x + dx)) * kfac κ z y x (z + dz) (y + dy) (x + dx) * e z y x) * pf := by
    intro z y x
    rw [mul_right_comm, nbSum_mul_right]
  simp only [h1]
  rw [← voxSum_mul_right]
  congr 1
  exact voxSum_nbSum_eq_pairSum b wb fun r d s => w.at d * d10 (img.at r) (img.at s) * kf κ r s * e.at r

/-- exact second-order expansion of the quadratic prior (symmetric weights; any centre weight):
    `value(λ + t e) = value λ + t ⟨grad λ, e⟩ + t²/2 ⟨e, H e⟩` -/
theorem qValue_expansion (pf : K) (w : Img K) (κ : Option (Img K)) (b wb : Box) (lam e : Img K) (t : K)
    (hw : SymWeights wb w) :
    qValueCore pf w κ b wb (fun z y x => lam z y x + t * e z y x)
      = qValueCore pf w κ b wb lam + t * inner b (gradCore qD10 pf w κ b wb lam) e
        + t ^ 2 / 2 * inner b e (hessTimesCore qD20 qD11 pf w κ b wb lam e) := by
  unfold qValueCore
  rw [valueSum_eq_pairSum, valueSum_eq_pairSum, inner_grad, inner_hessTimes]
  -- the pair sums that occur
  set W : V → V → K := fun r s => w.at (subV s r) * kf κ r s with hWdef
  set P0 := pairSum b wb fun r s => qTerm (w.at (subV s r)) (lam.at r) (lam.at s) * kf κ r s with hP0
  set X := pairSum b wb fun r s => W r s * (lam.at r - lam.at s) * e.at r with hX
  set X' := pairSum b wb fun r s => W r s * (lam.at r - lam.at s) * e.at s with hX'
  set Y := pairSum b wb fun r s => W r s * (e.at r * e.at r) with hY
  set Y' := pairSum b wb fun r s => W r s * (e.at s * e.at s) with hY'
  set Z := pairSum b wb fun r s => W r s * (e.at r * e.at s) with hZ
  have hWs : ∀ r s, r ∈ boxF b → s ∈ boxF b → subV s r ∈ boxF wb → W s r = W r s := by
    intro r s _ _ hd
    simp only [hWdef, kf]
    rw [hw.at_swap hd, kfac_comm]
  -- expansion of the perturbed value
  have h1 : (pairSum b wb fun r s => qTerm (w.at (subV s r)) (Img.at (fun z y x => lam z y x + t * e z y x) r)
        (Img.at (fun z y x => lam z y x + t * e z y x) s) * kf κ r s)
      = P0 + t * ((X - X') / 2) + t ^ 2 * ((Y - 2 * Z + Y') / 4) := by
    have : (P0 + t * ((X - X') / 2) + t ^ 2 * ((Y - 2 * Z + Y') / 4))
        = pairSum b wb fun r s => qTerm (w.at (subV s r)) (lam.at r) (lam.at s) * kf κ r s
            + ((t / 2) * (W r s * (lam.at r - lam.at s) * e.at r) + ((-t / 2) * (W r s * (lam.at r - lam.at s) * e.at s)
            + ((t ^ 2 / 4) * (W r s * (e.at r * e.at r)) + ((-t ^ 2 / 2) * (W r s * (e.at r * e.at s))
            + (t ^ 2 / 4) * (W r s * (e.at s * e.at s)))))) := by
      simp only [pairSum_add, ← pairSum_mul_left]
      ring
    rw [this]
    refine pairSum_congr _ _ _ _ fun r s _ _ _ => ?_
    simp only [qTerm, sq, four, hWdef, Img.at]
    field_simp
    ring
  -- ⟨grad, e⟩
  have h2 : (pairSum b wb fun r s => w.at (subV s r) * qD10 (lam.at r) (lam.at s) * kf κ r s * e.at r) = X := by
    refine pairSum_congr _ _ _ _ fun r s _ _ _ => ?_
    simp only [qD10, hWdef]; ring
  -- swapping the pair: X' = -X, Y' = Y
  have h3 : X' = -X := by
    rw [hX', pairSum_swap b wb hw.box, hX, ← neg_one_mul, pairSum_mul_left]
    refine pairSum_congr _ _ _ _ fun r s hr hs hd => ?_
    rw [hWs r s hr hs hd]; ring
  have h4 : Y' = Y := by
    rw [hY', pairSum_swap b wb hw.box, hY]
    refine pairSum_congr _ _ _ _ fun r s hr hs hd => ?_
    rw [hWs r s hr hs hd]
  -- ⟨e, H e⟩ = Y - Z  (the pair (r, r) contributes to neither side)
  have h5 : pairSum b wb (hPair qD20 qD11 w κ lam e e) = Y - Z := by
    have : Y - Z = pairSum b wb fun r s => W r s * (e.at r * e.at r) + (-1) * (W r s * (e.at r * e.at s)) := by
      simp only [pairSum_add, ← pairSum_mul_left]; ring
    rw [this]
    refine pairSum_congr _ _ _ _ fun r s _ _ _ => ?_
    simp only [hPair, qD20, qD11, hWdef]
    by_cases hc : (subV s r).1 = 0 ∧ (subV s r).2.1 = 0 ∧ (subV s r).2.2 = 0
    · have hsr : s = r := by
        have a1 : s.1 - r.1 = 0 := hc.1
        have a2 : s.2.1 - r.2.1 = 0 := hc.2.1
        have a3 : s.2.2 - r.2.2 = 0 := hc.2.2
        ext <;> omega
      rw [if_pos hc, hsr]; ring
    · rw [if_neg hc]; ring
  rw [h1, h2, h3, h4, h5]
  ring

end
end StirVerif.C09
