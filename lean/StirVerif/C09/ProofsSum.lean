/-
C09 — proofs, part 1: the loops of the model as finite sums, and the reindexing `(r, r+d) ↦ (r+d, r)` of the
ordered pairs of neighbouring voxels on which every symmetry statement of the property rests.
-/
import StirVerif.C09.Model
import Mathlib.Algebra.BigOperators.Group.Finset.Basic
import Mathlib.Algebra.BigOperators.Group.Finset.Sigma
import Mathlib.Algebra.BigOperators.Group.Finset.Piecewise
import Mathlib.Algebra.BigOperators.Ring.Finset
import Mathlib.Algebra.BigOperators.Group.List.Basic
import Mathlib.Algebra.Order.BigOperators.Group.Finset
import Mathlib.Data.Int.Interval
import Mathlib.Tactic.Ring
import Mathlib.Tactic.Linarith

namespace StirVerif.C09
open Finset

/-- a voxel index / an offset -/
abbrev V := Int × Int × Int

/-- the voxels of a box as a finite set -/
def boxF (b : Box) : Finset V := Finset.Icc b.z0 b.z1 ×ˢ Finset.Icc b.y0 b.y1 ×ˢ Finset.Icc b.x0 b.x1

/-- the index triple lies in the box -/
def InBox (b : Box) (z y x : Int) : Prop :=
  b.z0 ≤ z ∧ z ≤ b.z1 ∧ b.y0 ≤ y ∧ y ≤ b.y1 ∧ b.x0 ≤ x ∧ x ≤ b.x1

instance (b : Box) (z y x : Int) : Decidable (InBox b z y x) :=
  inferInstanceAs (Decidable (b.z0 ≤ z ∧ z ≤ b.z1 ∧ b.y0 ≤ y ∧ y ≤ b.y1 ∧ b.x0 ≤ x ∧ x ≤ b.x1))

theorem mem_boxF {b : Box} {p : V} : p ∈ boxF b ↔ InBox b p.1 p.2.1 p.2.2 := by
  simp only [boxF, Finset.mem_product, Finset.mem_Icc, InBox]; tauto

/-- the index range of the weights is symmetric about 0 -/
def SymBox (wb : Box) : Prop := wb.z0 = -wb.z1 ∧ wb.y0 = -wb.y1 ∧ wb.x0 = -wb.x1

instance (wb : Box) : Decidable (SymBox wb) := by unfold SymBox; infer_instance

/-- value of an image at a voxel given as a triple -/
abbrev Img.at {K : Type} (f : Img K) (p : V) : K := f p.1 p.2.1 p.2.2

/-- the offset `s - r` -/
abbrev subV (s r : V) : V := (s.1 - r.1, s.2.1 - r.2.1, s.2.2 - r.2.2)

section monoid
variable {K : Type} [AddCommMonoid K]

theorem sumRange_eq_sum_Icc (lo hi : Int) (f : Int → K) :
    sumRange lo hi f = ∑ i ∈ Finset.Icc lo hi, f i := by
  unfold sumRange irange
  rw [List.map_map]
  have h : ∀ (n : Nat) (lo : Int), ((List.range n).map (f ∘ fun (k : Nat) => lo + (k : Int))).sum
      = ∑ i ∈ Finset.Ico lo (lo + n), f i := by
    intro n
    induction n with
    | zero => intro lo; simp
    | succ n ih =>
      intro lo
      rw [List.range_succ, List.map_append, List.sum_append, ih lo]
      simp only [List.map_cons, List.map_nil, List.sum_cons, List.sum_nil, add_zero, Function.comp]
      have : Finset.Ico lo (lo + ((n + 1 : Nat) : Int)) = insert (lo + (n : Int)) (Finset.Ico lo (lo + n)) := by
        ext i; simp only [Finset.mem_Ico, Finset.mem_insert]; push_cast; omega
      rw [this, Finset.sum_insert (by simp), add_comm]
  rw [h]
  congr 1
  ext i
  simp only [Finset.mem_Ico, Finset.mem_Icc]
  omega

/-- the clipped loop bounds `max(wmin, lo - c) .. min(wmax, hi - c)` select exactly the offsets `d` of the weights range
    with `c + d` inside `lo..hi` -/
theorem sum_clip (a a' l h c : Int) (g : Int → K) :
    ∑ d ∈ Finset.Icc (max a (l - c)) (min a' (h - c)), g d
      = ∑ d ∈ Finset.Icc a a', if l ≤ c + d ∧ c + d ≤ h then g d else 0 := by
  rw [← Finset.sum_filter]
  congr 1
  ext d
  simp only [Finset.mem_Icc, Finset.mem_filter, max_le_iff, le_min_iff]
  omega

theorem nbSum_eq (b wb : Box) (z y x : Int) (f : Int → Int → Int → K) :
    nbSum b wb z y x f
      = ∑ d ∈ boxF wb, if InBox b (z + d.1) (y + d.2.1) (x + d.2.2) then f d.1 d.2.1 d.2.2 else 0 := by
  unfold nbSum
  simp only [sumRange_eq_sum_Icc, sum_clip, boxF, Finset.sum_product]
  refine Finset.sum_congr rfl fun dz _ => ?_
  by_cases hz : b.z0 ≤ z + dz ∧ z + dz ≤ b.z1
  · rw [if_pos hz]
    refine Finset.sum_congr rfl fun dy _ => ?_
    by_cases hy : b.y0 ≤ y + dy ∧ y + dy ≤ b.y1
    · rw [if_pos hy]
      refine Finset.sum_congr rfl fun dx _ => ?_
      by_cases hx : b.x0 ≤ x + dx ∧ x + dx ≤ b.x1
      · have h : InBox b (z + dz) (y + dy) (x + dx) := ⟨hz.1, hz.2, hy.1, hy.2, hx.1, hx.2⟩
        simp [hx, h]
      · have h : ¬ InBox b (z + dz) (y + dy) (x + dx) := fun h => hx ⟨h.2.2.2.2.1, h.2.2.2.2.2⟩
        simp [hx, h]
    · rw [if_neg hy]
      symm
      refine Finset.sum_eq_zero fun dx _ => ?_
      have h : ¬ InBox b (z + dz) (y + dy) (x + dx) := fun h => hy ⟨h.2.2.1, h.2.2.2.1⟩
      simp [h]
  · rw [if_neg hz]
    symm
    refine Finset.sum_eq_zero fun dy _ => Finset.sum_eq_zero fun dx _ => ?_
    have h : ¬ InBox b (z + dz) (y + dy) (x + dx) := fun h => hz ⟨h.1, h.2.1⟩
    simp [h]

theorem voxSum_eq (b : Box) (f : Int → Int → Int → K) :
    voxSum b f = ∑ r ∈ boxF b, f r.1 r.2.1 r.2.2 := by
  unfold voxSum
  simp only [sumRange_eq_sum_Icc, boxF, Finset.sum_product]

/-- only offsets inside the weights box that lead to a voxel inside the image are ever used:
    "voxels at the image border interact only with neighbours inside the image" -/
theorem nbSum_congr (b wb : Box) (z y x : Int) (f g : Int → Int → Int → K)
    (h : ∀ dz dy dx, InBox wb dz dy dx → InBox b (z + dz) (y + dy) (x + dx) → f dz dy dx = g dz dy dx) :
    nbSum b wb z y x f = nbSum b wb z y x g := by
  rw [nbSum_eq, nbSum_eq]
  refine Finset.sum_congr rfl fun d hd => ?_
  by_cases hin : InBox b (z + d.1) (y + d.2.1) (x + d.2.2)
  · rw [if_pos hin, if_pos hin, h _ _ _ (mem_boxF.mp hd) hin]
  · rw [if_neg hin, if_neg hin]

theorem voxSum_congr (b : Box) (f g : Int → Int → Int → K)
    (h : ∀ z y x, InBox b z y x → f z y x = g z y x) : voxSum b f = voxSum b g := by
  rw [voxSum_eq, voxSum_eq]
  exact Finset.sum_congr rfl fun r hr => h _ _ _ (mem_boxF.mp hr)

theorem nbSum_zero (b wb : Box) (z y x : Int) : nbSum b wb z y x (fun _ _ _ => (0 : K)) = 0 := by
  rw [nbSum_eq]; simp

theorem nbSum_add (b wb : Box) (z y x : Int) (f g : Int → Int → Int → K) :
    nbSum b wb z y x (fun dz dy dx => f dz dy dx + g dz dy dx) = nbSum b wb z y x f + nbSum b wb z y x g := by
  simp only [nbSum_eq, ← Finset.sum_add_distrib]
  refine Finset.sum_congr rfl fun d _ => ?_
  split_ifs <;> simp

theorem voxSum_add (b : Box) (f g : Int → Int → Int → K) :
    voxSum b (fun z y x => f z y x + g z y x) = voxSum b f + voxSum b g := by
  simp only [voxSum_eq, ← Finset.sum_add_distrib]

/-- sum over all ordered pairs `(r, s = r + d)` of voxels of the image whose offset `d` lies in the weights box -/
def pairSum (b wb : Box) (H : V → V → K) : K :=
  ∑ r ∈ boxF b, ∑ d ∈ boxF wb,
    if InBox b (r.1 + d.1) (r.2.1 + d.2.1) (r.2.2 + d.2.2) then H r (r.1 + d.1, r.2.1 + d.2.1, r.2.2 + d.2.2) else 0

/-- the double loop of the model is a sum over ordered pairs -/
theorem voxSum_nbSum_eq_pairSum (b wb : Box) (G : V → V → V → K) :
    voxSum b (fun z y x => nbSum b wb z y x fun dz dy dx => G (z, y, x) (dz, dy, dx) (z + dz, y + dy, x + dx))
      = pairSum b wb fun r s => G r (subV s r) s := by
  rw [voxSum_eq]
  simp only [nbSum_eq]
  unfold pairSum
  refine Finset.sum_congr rfl fun r _ => Finset.sum_congr rfl fun d _ => ?_
  simp only [subV, add_sub_cancel_left]

theorem pairSum_congr (b wb : Box) (H H' : V → V → K)
    (h : ∀ r s, r ∈ boxF b → s ∈ boxF b → subV s r ∈ boxF wb → H r s = H' r s) :
    pairSum b wb H = pairSum b wb H' := by
  unfold pairSum
  refine Finset.sum_congr rfl fun r hr => Finset.sum_congr rfl fun d hd => ?_
  by_cases hin : InBox b (r.1 + d.1) (r.2.1 + d.2.1) (r.2.2 + d.2.2)
  · rw [if_pos hin, if_pos hin]
    apply h _ _ hr (mem_boxF.mpr hin)
    simpa only [subV, add_sub_cancel_left] using hd
  · rw [if_neg hin, if_neg hin]

theorem pairSum_add (b wb : Box) (H H' : V → V → K) :
    pairSum b wb (fun r s => H r s + H' r s) = pairSum b wb H + pairSum b wb H' := by
  unfold pairSum
  simp only [← Finset.sum_add_distrib]
  refine Finset.sum_congr rfl fun r _ => Finset.sum_congr rfl fun d _ => ?_
  split_ifs <;> simp

/-- reindexing `(r, s) ↦ (s, r)` of the ordered pairs: a bijection when the weights box is symmetric -/
theorem pairSum_swap (b wb : Box) (hs : SymBox wb) (H : V → V → K) :
    pairSum b wb H = pairSum b wb fun r s => H s r := by
  unfold pairSum
  rw [← Finset.sum_product', ← Finset.sum_product', ← Finset.sum_filter, ← Finset.sum_filter]
  refine Finset.sum_nbij' (fun p => ((p.1.1 + p.2.1, p.1.2.1 + p.2.2.1, p.1.2.2 + p.2.2.2), (-p.2.1, -p.2.2.1, -p.2.2.2)))
    (fun p => ((p.1.1 + p.2.1, p.1.2.1 + p.2.2.1, p.1.2.2 + p.2.2.2), (-p.2.1, -p.2.2.1, -p.2.2.2))) ?_ ?_ ?_ ?_ ?_
  · rintro ⟨⟨rz, ry, rx⟩, ⟨dz, dy, dx⟩⟩ h
    obtain ⟨h1, h2, h3⟩ := hs
    obtain ⟨hp, hin⟩ := Finset.mem_filter.mp h
    obtain ⟨hr, hd⟩ := Finset.mem_product.mp hp
    rw [mem_boxF] at hr hd
    refine Finset.mem_filter.mpr ⟨Finset.mem_product.mpr ⟨mem_boxF.mpr ?_, mem_boxF.mpr ?_⟩, ?_⟩ <;>
      (simp only [InBox] at hr hd hin ⊢; omega)
  · rintro ⟨⟨rz, ry, rx⟩, ⟨dz, dy, dx⟩⟩ h
    obtain ⟨h1, h2, h3⟩ := hs
    obtain ⟨hp, hin⟩ := Finset.mem_filter.mp h
    obtain ⟨hr, hd⟩ := Finset.mem_product.mp hp
    rw [mem_boxF] at hr hd
    refine Finset.mem_filter.mpr ⟨Finset.mem_product.mpr ⟨mem_boxF.mpr ?_, mem_boxF.mpr ?_⟩, ?_⟩ <;>
      (simp only [InBox] at hr hd hin ⊢; omega)
  · rintro ⟨⟨rz, ry, rx⟩, ⟨dz, dy, dx⟩⟩ _
    simp
  · rintro ⟨⟨rz, ry, rx⟩, ⟨dz, dy, dx⟩⟩ _
    simp
  · rintro ⟨⟨rz, ry, rx⟩, ⟨dz, dy, dx⟩⟩ _
    simp

end monoid

section semiring
variable {K : Type} [CommSemiring K]

theorem nbSum_mul_right (b wb : Box) (z y x : Int) (f : Int → Int → Int → K) (c : K) :
    nbSum b wb z y x f * c = nbSum b wb z y x fun dz dy dx => f dz dy dx * c := by
  simp only [nbSum_eq, Finset.sum_mul]
  refine Finset.sum_congr rfl fun d _ => ?_
  split_ifs <;> simp

theorem nbSum_mul_left (b wb : Box) (z y x : Int) (f : Int → Int → Int → K) (c : K) :
    c * nbSum b wb z y x f = nbSum b wb z y x fun dz dy dx => c * f dz dy dx := by
  simp only [nbSum_eq, Finset.mul_sum]
  refine Finset.sum_congr rfl fun d _ => ?_
  split_ifs <;> simp

theorem voxSum_mul_right (b : Box) (f : Int → Int → Int → K) (c : K) :
    voxSum b f * c = voxSum b fun z y x => f z y x * c := by
  simp only [voxSum_eq, Finset.sum_mul]

theorem pairSum_mul_left (b wb : Box) (H : V → V → K) (c : K) :
    c * pairSum b wb H = pairSum b wb fun r s => c * H r s := by
  unfold pairSum
  simp only [Finset.mul_sum]
  refine Finset.sum_congr rfl fun r _ => Finset.sum_congr rfl fun d _ => ?_
  split_ifs <;> simp

end semiring

section ordered
variable {K : Type} [AddCommMonoid K] [PartialOrder K] [IsOrderedAddMonoid K]

theorem pairSum_nonneg (b wb : Box) (H : V → V → K)
    (h : ∀ r s, r ∈ boxF b → s ∈ boxF b → subV s r ∈ boxF wb → 0 ≤ H r s) : 0 ≤ pairSum b wb H := by
  unfold pairSum
  refine Finset.sum_nonneg fun r hr => Finset.sum_nonneg fun d hd => ?_
  by_cases hin : InBox b (r.1 + d.1) (r.2.1 + d.2.1) (r.2.2 + d.2.2)
  · rw [if_pos hin]
    apply h _ _ hr (mem_boxF.mpr hin)
    simpa only [subV, add_sub_cancel_left] using hd
  · rw [if_neg hin]

end ordered

end StirVerif.C09
