/-
C09 — proofs, part 7: PLSPrior (the repaired `compute_gradient`): the gradient is the derivative of the value with respect to
every single voxel (borders included, any kappa image), linearity in the penalisation factor, zero gradient of uniform images.
-/
import StirVerif.C09.ProofsCalc
import StirVerif.C09.ProofsHess
import Mathlib.Analysis.SpecialFunctions.Sqrt
import Mathlib.Analysis.Calculus.Deriv.Add
import Mathlib.Analysis.Calculus.Deriv.Mul

namespace StirVerif.C09
open Finset

/-! ### one voxel: derivative of `sqrt(alpha² + |g|² - <g, a/n>²)` along `g + t c` -/

/-- Cauchy–Schwarz in three dimensions -/
theorem cs3 (g1 g2 g3 a1 a2 a3 : ℝ) :
    (g1 * a1 + g2 * a2 + g3 * a3) * (g1 * a1 + g2 * a2 + g3 * a3)
      ≤ (g1 * g1 + g2 * g2 + g3 * g3) * (a1 * a1 + a2 * a2 + a3 * a3) := by
  nlinarith [sq_nonneg (g1 * a2 - g2 * a1), sq_nonneg (g1 * a3 - g3 * a1), sq_nonneg (g2 * a3 - g3 * a2)]

/-- the radicand of the PLS penalty is at least `alpha²` when `n² ≥ |a|²` -/
theorem pls_radicand_ge (α g1 g2 g3 a1 a2 a3 n : ℝ) (hn : a1 * a1 + a2 * a2 + a3 * a3 ≤ n * n) :
    α * α ≤ α * α + g1 * g1 + g2 * g2 + g3 * g3
      - (g1 * a1 + g2 * a2 + g3 * a3) / n * ((g1 * a1 + g2 * a2 + g3 * a3) / n) := by
  by_cases h0 : n = 0
  · subst h0
    simp only [div_zero, mul_zero, sub_zero]
    nlinarith [mul_self_nonneg g1, mul_self_nonneg g2, mul_self_nonneg g3]
  · have hnn : 0 < n * n := mul_self_pos.mpr h0
    have hcs := cs3 g1 g2 g3 a1 a2 a3
    have hg : 0 ≤ g1 * g1 + g2 * g2 + g3 * g3 := by
      nlinarith [mul_self_nonneg g1, mul_self_nonneg g2, mul_self_nonneg g3]
    have h1 : (g1 * a1 + g2 * a2 + g3 * a3) / n * ((g1 * a1 + g2 * a2 + g3 * a3) / n)
        = (g1 * a1 + g2 * a2 + g3 * a3) * (g1 * a1 + g2 * a2 + g3 * a3) / (n * n) := by
      field_simp
    have h2 : (g1 * a1 + g2 * a2 + g3 * a3) * (g1 * a1 + g2 * a2 + g3 * a3) / (n * n) ≤ g1 * g1 + g2 * g2 + g3 * g3 := by
      rw [div_le_iff₀ hnn]
      calc (g1 * a1 + g2 * a2 + g3 * a3) * (g1 * a1 + g2 * a2 + g3 * a3)
          ≤ (g1 * g1 + g2 * g2 + g3 * g3) * (a1 * a1 + a2 * a2 + a3 * a3) := hcs
        _ ≤ (g1 * g1 + g2 * g2 + g3 * g3) * (n * n) := mul_le_mul_of_nonneg_left hn hg
    rw [h1]; linarith

/-- derivative at `t = 0` of the penalty of one voxel when its three image differences move as `g + t c` -/
theorem pls_pen_hasDerivAt (α g1 g2 g3 c1 c2 c3 a1 a2 a3 n : ℝ) (hα : α ≠ 0)
    (hn : a1 * a1 + a2 * a2 + a3 * a3 ≤ n * n) :
    HasDerivAt (fun t : ℝ => Real.sqrt (α * α + (g1 + t * c1) * (g1 + t * c1) + (g2 + t * c2) * (g2 + t * c2)
        + (g3 + t * c3) * (g3 + t * c3)
        - ((g1 + t * c1) * a1 + (g2 + t * c2) * a2 + (g3 + t * c3) * a3) / n
          * (((g1 + t * c1) * a1 + (g2 + t * c2) * a2 + (g3 + t * c3) * a3) / n)))
      (c1 * ((g1 - a1 * ((g1 * a1 + g2 * a2 + g3 * a3) / n) / n)
            / Real.sqrt (α * α + g1 * g1 + g2 * g2 + g3 * g3
                - (g1 * a1 + g2 * a2 + g3 * a3) / n * ((g1 * a1 + g2 * a2 + g3 * a3) / n)))
        + c2 * ((g2 - a2 * ((g1 * a1 + g2 * a2 + g3 * a3) / n) / n)
            / Real.sqrt (α * α + g1 * g1 + g2 * g2 + g3 * g3
                - (g1 * a1 + g2 * a2 + g3 * a3) / n * ((g1 * a1 + g2 * a2 + g3 * a3) / n)))
        + c3 * ((g3 - a3 * ((g1 * a1 + g2 * a2 + g3 * a3) / n) / n)
            / Real.sqrt (α * α + g1 * g1 + g2 * g2 + g3 * g3
                - (g1 * a1 + g2 * a2 + g3 * a3) / n * ((g1 * a1 + g2 * a2 + g3 * a3) / n)))) 0 := by
  set R0 : ℝ := α * α + g1 * g1 + g2 * g2 + g3 * g3
      - (g1 * a1 + g2 * a2 + g3 * a3) / n * ((g1 * a1 + g2 * a2 + g3 * a3) / n) with hR0
  set R1 : ℝ := 2 * (g1 * c1 + g2 * c2 + g3 * c3)
      - 2 * ((g1 * a1 + g2 * a2 + g3 * a3) / n) * ((c1 * a1 + c2 * a2 + c3 * a3) / n) with hR1
  set R2 : ℝ := c1 * c1 + c2 * c2 + c3 * c3 - (c1 * a1 + c2 * a2 + c3 * a3) / n * ((c1 * a1 + c2 * a2 + c3 * a3) / n) with hR2
  have hpoly : HasDerivAt (fun t : ℝ => R0 + t * R1 + t * t * R2) R1 0 := by
    have h1 : HasDerivAt (fun t : ℝ => t * R1) R1 0 := by simpa using (hasDerivAt_id (0 : ℝ)).mul_const R1
    have h2 : HasDerivAt (fun t : ℝ => t * t * R2) 0 0 := by
      simpa using ((hasDerivAt_id (0 : ℝ)).mul (hasDerivAt_id (0 : ℝ))).mul_const R2
    have h3 := (h1.add h2).const_add R0
    refine (h3.congr_deriv (by ring)).congr_of_eventuallyEq (Filter.Eventually.of_forall fun t => ?_)
    simp only [Pi.add_apply]; ring
  have hfun : ∀ t : ℝ, α * α + (g1 + t * c1) * (g1 + t * c1) + (g2 + t * c2) * (g2 + t * c2)
        + (g3 + t * c3) * (g3 + t * c3)
        - ((g1 + t * c1) * a1 + (g2 + t * c2) * a2 + (g3 + t * c3) * a3) / n
          * (((g1 + t * c1) * a1 + (g2 + t * c2) * a2 + (g3 + t * c3) * a3) / n)
      = R0 + t * R1 + t * t * R2 := by
    intro t; simp only [hR0, hR1, hR2]; ring
  have hpos : 0 < R0 := by
    have := pls_radicand_ge α g1 g2 g3 a1 a2 a3 n hn
    have hα2 : 0 < α * α := mul_self_pos.mpr hα
    linarith
  have hR0' : (fun t : ℝ => R0 + t * R1 + t * t * R2) 0 ≠ 0 := by simp [hpos.ne']
  have hs := hpoly.sqrt hR0'
  have hsq : Real.sqrt R0 ≠ 0 := (Real.sqrt_pos.mpr hpos).ne'
  refine (hs.congr_deriv ?_).congr_of_eventuallyEq (Filter.Eventually.of_forall fun t => ?_)
  · simp only [zero_mul, add_zero, mul_zero]
    simp only [hR1]
    field_simp
    ring
  · show Real.sqrt _ = Real.sqrt _
    rw [hfun t]

/-! ### the model's fields in closed form -/

/-- the image with voxel `j` perturbed by `t` -/
def pert (lam : Img ℝ) (jz jy jx : Int) (t : ℝ) : Img ℝ :=
  fun z y x => lam z y x + if z = jz ∧ y = jy ∧ x = jx then t else 0

/-- forward differences are linear: the perturbed image has differences `g + t c`, `c` the differences of the unit image -/
theorem plsGradElem_pert (b : Box) (dir : Nat) (lam : Img ℝ) (jz jy jx : Int) (t : ℝ) (z y x : Int) :
    plsGradElem b dir (pert lam jz jy jx t) z y x
      = plsGradElem b dir lam z y x + t * plsGradElem b dir (unitImg jz jy jx) z y x := by
  unfold plsGradElem pert unitImg
  rcases dir with _ | _ | dir <;> simp only [] <;> split_ifs <;> ring

/-- at the last voxel along a direction the forward difference is 0 -/
theorem plsGradElem_last_x (b : Box) (img : Img ℝ) (z y x : Int) (h : x + 1 > b.x1) : plsGradElem b 2 img z y x = 0 := by
  unfold plsGradElem; simp [h]
theorem plsGradElem_last_y (b : Box) (img : Img ℝ) (z y x : Int) (h : y + 1 > b.y1) : plsGradElem b 1 img z y x = 0 := by
  unfold plsGradElem; simp [h]
theorem plsGradElem_last_z (b : Box) (img : Img ℝ) (z y x : Int) (h : z + 1 > b.z1) : plsGradElem b 0 img z y x = 0 := by
  unfold plsGradElem; simp [h]

/-- the flux vanishes where both forward differences vanish (last voxel along the direction) -/
theorem plsFlux_zero (κ : Option (Img ℝ)) (g a ip nrm pen : Img ℝ) (z y x : Int) (hg : g z y x = 0) (ha : a z y x = 0) :
    plsFlux κ g a ip nrm pen z y x = 0 := by
  unfold plsFlux
  cases κ <;> simp [hg, ha]

/-- with a kappa image the flux is the flux without kappa times kappa at the voxel -/
theorem plsFlux_kappa (k : Img ℝ) (g a ip nrm pen : Img ℝ) (z y x : Int) :
    plsFlux (some k) g a ip nrm pen z y x = plsFlux none g a ip nrm pen z y x * k z y x := by
  unfold plsFlux; rfl

/-- `norm² ≥ |anatomical gradient|²` for the anatomical data of `set_up` -/
theorem plsSetUp_norm (only2D : Bool) (η : ℝ) (b : Box) (anat : Img ℝ) (z y x : Int) :
    let A := plsSetUp only2D η b anat
    (if only2D then 0 else A.az z y x * A.az z y x) + A.ay z y x * A.ay z y x + A.ax z y x * A.ax z y x
      ≤ A.norm z y x * A.norm z y x := by
  intro A
  simp only [A, plsSetUp, plsNorm, sq]
  cases only2D
  · simp only [Bool.false_eq_true, if_false]
    have hnn : 0 ≤ plsGradElem b 0 anat z y x * plsGradElem b 0 anat z y x + plsGradElem b 1 anat z y x * plsGradElem b 1 anat z y x
        + plsGradElem b 2 anat z y x * plsGradElem b 2 anat z y x + η * η := by
      have h0 := mul_self_nonneg (plsGradElem b 0 anat z y x)
      have h1 := mul_self_nonneg (plsGradElem b 1 anat z y x)
      have h2 := mul_self_nonneg (plsGradElem b 2 anat z y x)
      have h3 := mul_self_nonneg η
      linarith
    show _ ≤ Real.sqrt _ * Real.sqrt _
    rw [Real.mul_self_sqrt hnn]
    have h3 := mul_self_nonneg η
    linarith
  · simp only [if_true]
    have hnn : 0 ≤ plsGradElem b 1 anat z y x * plsGradElem b 1 anat z y x
        + plsGradElem b 2 anat z y x * plsGradElem b 2 anat z y x + η * η := by
      have h1 := mul_self_nonneg (plsGradElem b 1 anat z y x)
      have h2 := mul_self_nonneg (plsGradElem b 2 anat z y x)
      have h3 := mul_self_nonneg η
      linarith
    show _ ≤ Real.sqrt _ * Real.sqrt _
    rw [Real.mul_self_sqrt hnn]
    have h3 := mul_self_nonneg η
    linarith

theorem transc_sqrt (x : ℝ) : (Transc.sqrt x : ℝ) = Real.sqrt x := rfl

/-- one voxel of the model: derivative at `t = 0` of its penalty when voxel `j` of the image is perturbed by `t` -/
theorem pls_pen_voxel_hasDerivAt (only2D : Bool) (α η : ℝ) (b : Box) (anat lam : Img ℝ) (jz jy jx : Int) (hα : α ≠ 0)
    (z y x : Int) :
    HasDerivAt (fun t => (plsFields only2D α (plsSetUp only2D η b anat) b (pert lam jz jy jx t)).pen z y x)
      ((if only2D then 0 else plsGradElem b 0 (unitImg jz jy jx) z y x
            * plsFlux none (plsFields only2D α (plsSetUp only2D η b anat) b lam).gz (plsSetUp only2D η b anat).az
                (plsFields only2D α (plsSetUp only2D η b anat) b lam).ip (plsSetUp only2D η b anat).norm
                (plsFields only2D α (plsSetUp only2D η b anat) b lam).pen z y x)
        + plsGradElem b 1 (unitImg jz jy jx) z y x
            * plsFlux none (plsFields only2D α (plsSetUp only2D η b anat) b lam).gy (plsSetUp only2D η b anat).ay
                (plsFields only2D α (plsSetUp only2D η b anat) b lam).ip (plsSetUp only2D η b anat).norm
                (plsFields only2D α (plsSetUp only2D η b anat) b lam).pen z y x
        + plsGradElem b 2 (unitImg jz jy jx) z y x
            * plsFlux none (plsFields only2D α (plsSetUp only2D η b anat) b lam).gx (plsSetUp only2D η b anat).ax
                (plsFields only2D α (plsSetUp only2D η b anat) b lam).ip (plsSetUp only2D η b anat).norm
                (plsFields only2D α (plsSetUp only2D η b anat) b lam).pen z y x) 0 := by
  have hn := plsSetUp_norm only2D η b anat z y x
  cases only2D
  · simp only [Bool.false_eq_true, if_false] at hn ⊢
    have key := pls_pen_hasDerivAt α (plsGradElem b 0 lam z y x) (plsGradElem b 1 lam z y x) (plsGradElem b 2 lam z y x)
      (plsGradElem b 0 (unitImg jz jy jx) z y x) (plsGradElem b 1 (unitImg jz jy jx) z y x) (plsGradElem b 2 (unitImg jz jy jx) z y x)
      ((plsSetUp false η b anat).az z y x) ((plsSetUp false η b anat).ay z y x) ((plsSetUp false η b anat).ax z y x)
      ((plsSetUp false η b anat).norm z y x) hα hn
    refine (key.congr_deriv ?_).congr_of_eventuallyEq (Filter.Eventually.of_forall fun t => ?_)
    · simp only [plsFlux, plsFields, plsPenalty, plsInner, sq, transc_sqrt, Bool.false_eq_true, if_false]
    · simp only [plsFields, plsPenalty, plsInner, sq, transc_sqrt, Bool.false_eq_true, if_false, plsGradElem_pert]
  · simp only [if_true, zero_add] at hn ⊢
    have hn' : (0 : ℝ) * 0 + (plsSetUp true η b anat).ay z y x * (plsSetUp true η b anat).ay z y x
        + (plsSetUp true η b anat).ax z y x * (plsSetUp true η b anat).ax z y x
        ≤ (plsSetUp true η b anat).norm z y x * (plsSetUp true η b anat).norm z y x := by linarith
    have key := pls_pen_hasDerivAt α 0 (plsGradElem b 1 lam z y x) (plsGradElem b 2 lam z y x)
      0 (plsGradElem b 1 (unitImg jz jy jx) z y x) (plsGradElem b 2 (unitImg jz jy jx) z y x)
      0 ((plsSetUp true η b anat).ay z y x) ((plsSetUp true η b anat).ax z y x)
      ((plsSetUp true η b anat).norm z y x) hα hn'
    refine (key.congr_deriv ?_).congr_of_eventuallyEq (Filter.Eventually.of_forall fun t => ?_)
    · simp only [plsFlux, plsFields, plsPenalty, plsInner, sq, transc_sqrt, if_true]
      simp only [zero_mul, zero_add, add_zero, mul_zero, add_div]
    · simp only [plsFields, plsPenalty, plsInner, sq, transc_sqrt, if_true, plsGradElem_pert]
      congr 1
      ring

/-! ### summing the forward differences of the unit image against a field (adjoint of the forward difference) -/

theorem sum_unit_x (b : Box) (jz jy jx : Int) (hj : InBox b jz jy jx) (f : Int → Int → Int → ℝ) :
    ∑ r ∈ boxF b, plsGradElem b 2 (unitImg jz jy jx) r.1 r.2.1 r.2.2 * f r.1 r.2.1 r.2.2
      = (if jx > b.x0 then f jz jy (jx - 1) else 0) - (if jx + 1 > b.x1 then 0 else f jz jy jx) := by
  have hs : ∀ r ∈ boxF b, plsGradElem b 2 (unitImg jz jy jx) r.1 r.2.1 r.2.2 * f r.1 r.2.1 r.2.2
      = (if r = ((jz, jy, jx - 1) : V) then f r.1 r.2.1 r.2.2 else 0)
        - (if r = ((jz, jy, jx) : V) then (if jx + 1 > b.x1 then 0 else f r.1 r.2.1 r.2.2) else 0) := by
    rintro ⟨z, y, x⟩ hr
    have hr' := mem_boxF.mp hr
    simp only [InBox] at hr' hj
    simp only [plsGradElem, unitImg, Prod.mk.injEq]
    split_ifs <;> first | ring1 | (exfalso; omega)
  rw [Finset.sum_congr rfl hs, Finset.sum_sub_distrib, Finset.sum_ite_eq', Finset.sum_ite_eq']
  have m1 : ((jz, jy, jx - 1) : V) ∈ boxF b ↔ jx > b.x0 := by
    rw [mem_boxF]; simp only [InBox] at hj ⊢; omega
  have m2 : ((jz, jy, jx) : V) ∈ boxF b := mem_boxF.mpr hj
  simp only [m1, m2, if_true]

theorem sum_unit_y (b : Box) (jz jy jx : Int) (hj : InBox b jz jy jx) (f : Int → Int → Int → ℝ) :
    ∑ r ∈ boxF b, plsGradElem b 1 (unitImg jz jy jx) r.1 r.2.1 r.2.2 * f r.1 r.2.1 r.2.2
      = (if jy > b.y0 then f jz (jy - 1) jx else 0) - (if jy + 1 > b.y1 then 0 else f jz jy jx) := by
  have hs : ∀ r ∈ boxF b, plsGradElem b 1 (unitImg jz jy jx) r.1 r.2.1 r.2.2 * f r.1 r.2.1 r.2.2
      = (if r = ((jz, jy - 1, jx) : V) then f r.1 r.2.1 r.2.2 else 0)
        - (if r = ((jz, jy, jx) : V) then (if jy + 1 > b.y1 then 0 else f r.1 r.2.1 r.2.2) else 0) := by
    rintro ⟨z, y, x⟩ hr
    have hr' := mem_boxF.mp hr
    simp only [InBox] at hr' hj
    simp only [plsGradElem, unitImg, Prod.mk.injEq]
    split_ifs <;> first | ring1 | (exfalso; omega)
  rw [Finset.sum_congr rfl hs, Finset.sum_sub_distrib, Finset.sum_ite_eq', Finset.sum_ite_eq']
  have m1 : ((jz, jy - 1, jx) : V) ∈ boxF b ↔ jy > b.y0 := by
    rw [mem_boxF]; simp only [InBox] at hj ⊢; omega
  have m2 : ((jz, jy, jx) : V) ∈ boxF b := mem_boxF.mpr hj
  simp only [m1, m2, if_true]

theorem sum_unit_z (b : Box) (jz jy jx : Int) (hj : InBox b jz jy jx) (f : Int → Int → Int → ℝ) :
    ∑ r ∈ boxF b, plsGradElem b 0 (unitImg jz jy jx) r.1 r.2.1 r.2.2 * f r.1 r.2.1 r.2.2
      = (if jz > b.z0 then f (jz - 1) jy jx else 0) - (if jz + 1 > b.z1 then 0 else f jz jy jx) := by
  have hs : ∀ r ∈ boxF b, plsGradElem b 0 (unitImg jz jy jx) r.1 r.2.1 r.2.2 * f r.1 r.2.1 r.2.2
      = (if r = ((jz - 1, jy, jx) : V) then f r.1 r.2.1 r.2.2 else 0)
        - (if r = ((jz, jy, jx) : V) then (if jz + 1 > b.z1 then 0 else f r.1 r.2.1 r.2.2) else 0) := by
    rintro ⟨z, y, x⟩ hr
    have hr' := mem_boxF.mp hr
    simp only [InBox] at hr' hj
    simp only [plsGradElem, unitImg, Prod.mk.injEq]
    split_ifs <;> first | ring1 | (exfalso; omega)
  rw [Finset.sum_congr rfl hs, Finset.sum_sub_distrib, Finset.sum_ite_eq', Finset.sum_ite_eq']
  have m1 : ((jz - 1, jy, jx) : V) ∈ boxF b ↔ jz > b.z0 := by
    rw [mem_boxF]; simp only [InBox] at hj ⊢; omega
  have m2 : ((jz, jy, jx) : V) ∈ boxF b := mem_boxF.mpr hj
  simp only [m1, m2, if_true]

/-! ### the value and the gradient of the model -/

/-- `current = penalty[z][y][x]; if (do_kappa) current *= kappa[z][y][x]` -/
def kapMul (κ : Option (Img ℝ)) (v : ℝ) (z y x : Int) : ℝ :=
  match κ with | none => v | some k => v * k z y x

theorem plsValueOf_eq (pf : ℝ) (F : PlsFields ℝ) (κ : Option (Img ℝ)) (b : Box) :
    plsValueOf pf F κ b = (∑ r ∈ boxF b, kapMul κ (F.pen r.1 r.2.1 r.2.2) r.1 r.2.1 r.2.2) * pf := by
  unfold plsValueOf
  rw [voxSum_eq]
  congr 1
  refine Finset.sum_congr rfl fun r _ => ?_
  cases κ <;> rfl

/-- the summand of `compute_value` for one voxel, and its derivative in terms of the flux with kappa -/
theorem pls_summand_hasDerivAt (only2D : Bool) (α η : ℝ) (b : Box) (κ : Option (Img ℝ)) (anat lam : Img ℝ) (jz jy jx : Int)
    (hα : α ≠ 0) (z y x : Int) :
    HasDerivAt (fun t => kapMul κ ((plsFields only2D α (plsSetUp only2D η b anat) b (pert lam jz jy jx t)).pen z y x) z y x)
      ((if only2D then 0 else plsGradElem b 0 (unitImg jz jy jx) z y x
            * plsFlux κ (plsFields only2D α (plsSetUp only2D η b anat) b lam).gz (plsSetUp only2D η b anat).az
                (plsFields only2D α (plsSetUp only2D η b anat) b lam).ip (plsSetUp only2D η b anat).norm
                (plsFields only2D α (plsSetUp only2D η b anat) b lam).pen z y x)
        + plsGradElem b 1 (unitImg jz jy jx) z y x
            * plsFlux κ (plsFields only2D α (plsSetUp only2D η b anat) b lam).gy (plsSetUp only2D η b anat).ay
                (plsFields only2D α (plsSetUp only2D η b anat) b lam).ip (plsSetUp only2D η b anat).norm
                (plsFields only2D α (plsSetUp only2D η b anat) b lam).pen z y x
        + plsGradElem b 2 (unitImg jz jy jx) z y x
            * plsFlux κ (plsFields only2D α (plsSetUp only2D η b anat) b lam).gx (plsSetUp only2D η b anat).ax
                (plsFields only2D α (plsSetUp only2D η b anat) b lam).ip (plsSetUp only2D η b anat).norm
                (plsFields only2D α (plsSetUp only2D η b anat) b lam).pen z y x) 0 := by
  have h := pls_pen_voxel_hasDerivAt only2D α η b anat lam jz jy jx hα z y x
  cases κ with
  | none => exact h
  | some k =>
    show HasDerivAt (fun t => (plsFields only2D α (plsSetUp only2D η b anat) b (pert lam jz jy jx t)).pen z y x * k z y x) _ 0
    refine (h.mul_const (k z y x)).congr_deriv ?_
    simp only [plsFlux_kappa]
    split_ifs <;> ring

/-- **PLS: the gradient is the derivative of the value** with respect to every single voxel `j` of the image (border voxels
    included, any kappa image), for the anatomical data prepared by `set_up` and `alpha ≠ 0` -/
theorem pls_gradient_is_derivative_of_value (only2D : Bool) (α η pf : ℝ) (b : Box) (κ : Option (Img ℝ)) (anat lam : Img ℝ)
    (jz jy jx : Int) (hα : α ≠ 0) (hj : InBox b jz jy jx) :
    HasDerivAt (fun t => plsValue only2D α pf (plsSetUp only2D η b anat) κ b (pert lam jz jy jx t))
      (plsGrad only2D α pf (plsSetUp only2D η b anat) κ b lam jz jy jx) 0 := by
  by_cases hpf : pf = 0
  · subst hpf
    have h1 : (fun t => plsValue only2D α 0 (plsSetUp only2D η b anat) κ b (pert lam jz jy jx t)) = fun _ => 0 := by
      funext t; simp [plsValue]
    have h2 : plsGrad only2D α 0 (plsSetUp only2D η b anat) κ b lam jz jy jx = 0 := by simp [plsGrad]
    rw [h1, h2]; exact hasDerivAt_const _ _
  · have hb : (pf == 0) = false := by simpa using hpf
    simp only [plsValue, plsGrad, hb, Bool.false_eq_true, if_false, plsValueOf_eq, plsGradOf]
    refine HasDerivAt.mul_const ?_ pf
    have hsum := HasDerivAt.fun_sum (u := boxF b) (x := (0 : ℝ))
      (A := fun (r : V) (t : ℝ) =>
        kapMul κ ((plsFields only2D α (plsSetUp only2D η b anat) b (pert lam jz jy jx t)).pen r.1 r.2.1 r.2.2) r.1 r.2.1 r.2.2)
      (fun r _ => pls_summand_hasDerivAt only2D α η b κ anat lam jz jy jx hα r.1 r.2.1 r.2.2)
    refine hsum.congr_deriv ?_
    -- the sum of the per-voxel derivatives, direction by direction
    rw [Finset.sum_add_distrib, Finset.sum_add_distrib, sum_unit_y b jz jy jx hj, sum_unit_x b jz jy jx hj]
    -- the flux vanishes at the last voxel along its direction
    have zx : jx + 1 > b.x1 → plsFlux κ (plsFields only2D α (plsSetUp only2D η b anat) b lam).gx (plsSetUp only2D η b anat).ax
        (plsFields only2D α (plsSetUp only2D η b anat) b lam).ip (plsSetUp only2D η b anat).norm
        (plsFields only2D α (plsSetUp only2D η b anat) b lam).pen jz jy jx = 0 := fun h =>
      plsFlux_zero κ _ _ _ _ _ jz jy jx (plsGradElem_last_x b lam jz jy jx h) (plsGradElem_last_x b anat jz jy jx h)
    have zy : jy + 1 > b.y1 → plsFlux κ (plsFields only2D α (plsSetUp only2D η b anat) b lam).gy (plsSetUp only2D η b anat).ay
        (plsFields only2D α (plsSetUp only2D η b anat) b lam).ip (plsSetUp only2D η b anat).norm
        (plsFields only2D α (plsSetUp only2D η b anat) b lam).pen jz jy jx = 0 := fun h =>
      plsFlux_zero κ _ _ _ _ _ jz jy jx (plsGradElem_last_y b lam jz jy jx h) (plsGradElem_last_y b anat jz jy jx h)
    have zz : jz + 1 > b.z1 → plsFlux κ (plsFields only2D α (plsSetUp only2D η b anat) b lam).gz (plsSetUp only2D η b anat).az
        (plsFields only2D α (plsSetUp only2D η b anat) b lam).ip (plsSetUp only2D η b anat).norm
        (plsFields only2D α (plsSetUp only2D η b anat) b lam).pen jz jy jx = 0 := fun h =>
      plsFlux_zero κ _ _ _ _ _ jz jy jx (plsGradElem_last_z b lam jz jy jx h) (plsGradElem_last_z b anat jz jy jx h)
    cases only2D
    · simp only [Bool.false_eq_true, if_false]
      rw [sum_unit_z b jz jy jx hj]
      by_cases hx : jx + 1 > b.x1 <;> by_cases hy : jy + 1 > b.y1 <;> by_cases hz : jz + 1 > b.z1 <;>
        simp only [hx, hy, hz, if_true, if_false, zx, zy, zz, true_implies] <;> split_ifs <;> ring
    · simp only [if_true, Finset.sum_const_zero]
      by_cases hx : jx + 1 > b.x1 <;> by_cases hy : jy + 1 > b.y1 <;>
        simp only [hx, hy, if_true, if_false, zx, zy, true_implies] <;> split_ifs <;> ring

/-! ### linear in the penalisation factor; uniform images -/

theorem pls_scale (only2D : Bool) (α c pf : ℝ) (A : PlsAnat ℝ) (κ : Option (Img ℝ)) (b : Box) (img : Img ℝ) (z y x : Int) :
    plsValue only2D α (c * pf) A κ b img = c * plsValue only2D α pf A κ b img
    ∧ plsGrad only2D α (c * pf) A κ b img z y x = c * plsGrad only2D α pf A κ b img z y x := by
  unfold plsValue plsGrad plsValueOf plsGradOf
  by_cases hpf : pf = 0
  · simp [hpf]
  · by_cases hc : c = 0
    · simp [hc]
    · have h1 : (c * pf == 0) = false := by simpa using mul_ne_zero hc hpf
      have h2 : (pf == 0) = false := by simpa using hpf
      simp only [h1, h2, Bool.false_eq_true, if_false]
      constructor <;> ring

theorem plsGradElem_const (b : Box) (dir : Nat) (c : ℝ) (z y x : Int) : plsGradElem b dir (fun _ _ _ => c) z y x = 0 := by
  unfold plsGradElem
  rcases dir with _ | _ | dir <;> simp

theorem pls_grad_uniform (only2D : Bool) (α pf c : ℝ) (A : PlsAnat ℝ) (κ : Option (Img ℝ)) (b : Box) (z y x : Int) :
    plsGrad only2D α pf A κ b (fun _ _ _ => c) z y x = 0 := by
  have hf : ∀ (g a : Img ℝ) (z y x : Int), g z y x = 0 → (plsFields only2D α A b (fun _ _ _ => c)).ip z y x = 0 →
      plsFlux κ g a (plsFields only2D α A b (fun _ _ _ => c)).ip A.norm (plsFields only2D α A b (fun _ _ _ => c)).pen z y x = 0 := by
    intro g a z y x hg hip
    unfold plsFlux
    cases κ <;> simp [hg, hip]
  have hip : ∀ z y x, (plsFields only2D α A b (fun _ _ _ => c)).ip z y x = 0 := by
    intro z y x
    simp only [plsFields, plsInner, plsGradElem_const]
    split_ifs <;> simp
  unfold plsGrad
  split_ifs
  · rfl
  · unfold plsGradOf
    have hx : ∀ z y x, plsFlux κ (plsFields only2D α A b (fun _ _ _ => c)).gx A.ax (plsFields only2D α A b (fun _ _ _ => c)).ip A.norm
        (plsFields only2D α A b (fun _ _ _ => c)).pen z y x = 0 := fun z y x => hf _ _ z y x (plsGradElem_const b 2 c z y x) (hip z y x)
    have hy : ∀ z y x, plsFlux κ (plsFields only2D α A b (fun _ _ _ => c)).gy A.ay (plsFields only2D α A b (fun _ _ _ => c)).ip A.norm
        (plsFields only2D α A b (fun _ _ _ => c)).pen z y x = 0 := fun z y x => hf _ _ z y x (plsGradElem_const b 1 c z y x) (hip z y x)
    have hz : ∀ z y x, plsFlux κ (plsFields only2D α A b (fun _ _ _ => c)).gz A.az (plsFields only2D α A b (fun _ _ _ => c)).ip A.norm
        (plsFields only2D α A b (fun _ _ _ => c)).pen z y x = 0 := fun z y x => hf _ _ z y x (plsGradElem_const b 0 c z y x) (hip z y x)
    simp only [hx, hy, hz]
    split_ifs <;> simp

end StirVerif.C09
