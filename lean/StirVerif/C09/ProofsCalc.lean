/-
C09 — proofs, part 4 (real analysis): the scalar potentials of the relative difference prior and of the log-cosh prior.
`derivative_10` is the partial derivative of (twice) the value term, `derivative_20` / `derivative_11` are the partial derivatives
of `derivative_10`; the 2×2 Hessians of the potentials are positive semi-definite.
The model definitions are the ones executed by the driver at `Float`, here instantiated at `ℝ`.
-/
import StirVerif.C09.Model
import Mathlib.Analysis.SpecialFunctions.Trigonometric.DerivHyp
import Mathlib.Analysis.SpecialFunctions.Log.Deriv
import Mathlib.Analysis.Calculus.Deriv.Abs
import Mathlib.Tactic.Ring
import Mathlib.Tactic.Linarith
import Mathlib.Tactic.FieldSimp
import Mathlib.Tactic.Positivity

namespace StirVerif.C09
open Real

noncomputable instance : Transc ℝ := ⟨Real.sqrt, Real.log, Real.cosh, Real.tanh⟩

theorem absK_eq_abs (a : ℝ) : absK a = |a| := by
  unfold absK
  split_ifs with h
  · rw [abs_of_neg h]
  · rw [abs_of_nonneg (not_lt.mp h)]

theorem two_eq : (two : ℝ) = 2 := by unfold two; norm_num
theorem three_eq : (three : ℝ) = 3 := by unfold three; norm_num
theorem thirty_eq : (thirty : ℝ) = 30 := by unfold thirty; rw [two_eq]; norm_num

/-- on the branch `|d| < 30` of `LogcoshPrior::logcosh` the model is `log (cosh d)` -/
theorem logcosh_eq {d : ℝ} (h : |d| < 30) : logcosh d = Real.log (Real.cosh d) := by
  unfold logcosh
  simp only [absK_eq_abs, thirty_eq, if_pos h]
  show Real.log (Real.cosh |d|) = _
  rw [Real.cosh_abs]

/-- `(1/scalar) tanh(scalar (x - y))`, the factor in `LogcoshPrior::compute_gradient`, is the derivative with respect to `x` of
    `1/scalar² logcosh(scalar (x - y))`, the term of `compute_value` (whose sum is multiplied by `penalisation_factor / 2`,
    every unordered pair being visited twice) — on the branch `|scalar (x-y)| < 30` -/
theorem lc_d10_is_derivative (s x y : ℝ) (hs : s ≠ 0) (h : |s * (x - y)| < 30) :
    HasDerivAt (fun t => lcTerm s 1 t y) (lcD10 s x y) x := by
  have hev : (fun t => lcTerm s 1 t y) =ᶠ[nhds x] fun t => 1 / (s * s) * Real.log (Real.cosh (s * (t - y))) := by
    have hc : ContinuousAt (fun t : ℝ => |s * (t - y)|) x := by fun_prop
    have := hc.eventually (gt_mem_nhds h)
    filter_upwards [this] with t ht
    unfold lcTerm
    rw [logcosh_eq ht]; ring
  refine HasDerivAt.congr_of_eventuallyEq ?_ hev
  have h1 : HasDerivAt (fun t : ℝ => s * (t - y)) s x := by
    simpa using ((hasDerivAt_id x).sub_const y).const_mul s
  have h2 := (h1.cosh).log (Real.cosh_pos _).ne'
  have h3 := h2.const_mul (1 / (s * s))
  have key : lcD10 s x y = 1 / (s * s) * (Real.sinh (s * (x - y)) * s / Real.cosh (s * (x - y))) := by
    unfold lcD10
    show 1 / s * Real.tanh (s * (x - y)) = _
    rw [Real.tanh_eq_sinh_div_cosh]
    field_simp
  rw [key]
  exact h3

/-- `LogcoshPrior::derivative_20` is the derivative of the gradient factor with respect to `x_j` -/
theorem lc_d20_is_derivative (s x y : ℝ) (hs : s ≠ 0) :
    HasDerivAt (fun t => lcD10 s t y) (lcD20 s x y) x := by
  have h1 : HasDerivAt (fun t : ℝ => s * (t - y)) s x := by
    simpa using ((hasDerivAt_id x).sub_const y).const_mul s
  have hc := (Real.cosh_pos (s * (x - y))).ne'
  have h2 : HasDerivAt (fun t : ℝ => Real.sinh (s * (t - y)) / Real.cosh (s * (t - y)))
      ((Real.cosh (s * (x - y)) * s * Real.cosh (s * (x - y)) - Real.sinh (s * (x - y)) * (Real.sinh (s * (x - y)) * s))
        / Real.cosh (s * (x - y)) ^ 2) x := (h1.sinh).div (h1.cosh) hc
  have h3 := h2.const_mul (1 / s)
  have hfun : (fun t => lcD10 s t y) = fun t => 1 / s * (Real.sinh (s * (t - y)) / Real.cosh (s * (t - y))) := by
    funext t
    unfold lcD10
    show 1 / s * Real.tanh (s * (t - y)) = _
    rw [Real.tanh_eq_sinh_div_cosh]
  rw [hfun]
  have key : lcD20 s x y = 1 / s * ((Real.cosh (s * (x - y)) * s * Real.cosh (s * (x - y)) - Real.sinh (s * (x - y)) * (Real.sinh (s * (x - y)) * s))
        / Real.cosh (s * (x - y)) ^ 2) := by
    unfold lcD20 sq
    show 1 / Real.cosh ((x - y) * s) * (1 / Real.cosh ((x - y) * s)) = _
    have hsq := Real.cosh_sq (s * (x - y))
    rw [mul_comm (x - y) s]
    field_simp
    nlinarith [hsq]
  rw [key]
  exact h3

/-- `LogcoshPrior::derivative_11` is the derivative of the gradient factor with respect to `x_k` -/
theorem lc_d11_is_derivative (s x y : ℝ) (hs : s ≠ 0) :
    HasDerivAt (fun t => lcD10 s x t) (lcD11 s x y) y := by
  have h := lc_d20_is_derivative s x y hs
  -- lcD10 s x t = lcD10 s (x + y - t) y as functions of t
  have hcomp : HasDerivAt (fun t : ℝ => x + y - t) (-1) y := by
    simpa using (hasDerivAt_id y).const_sub (x + y)
  have h' : HasDerivAt (fun t => lcD10 s t y) (lcD20 s x y) (x + y - y) := by simpa using h
  have := h'.comp y hcomp
  have hfun : ((fun t => lcD10 s t y) ∘ fun t : ℝ => x + y - t) = fun t => lcD10 s x t := by
    funext t; simp only [Function.comp, lcD10]; congr 2; ring
  rw [hfun] at this
  have key : lcD11 s x y = lcD20 s x y * -1 := by unfold lcD11; ring
  rw [key]
  exact this


/-! ### relative difference prior -/

theorem rdpDen_eq (γ ε x y : ℝ) : rdpDen γ ε x y = x + y + γ * |x - y| + ε := by
  unfold rdpDen; rw [absK_eq_abs]

theorem rdpDen_comm (γ ε x y : ℝ) : rdpDen γ ε x y = rdpDen γ ε y x := by
  rw [rdpDen_eq, rdpDen_eq, abs_sub_comm]; ring

/-- `2 ψ(x,y) = (x-y)² / (x + y + γ|x-y| + ε)` -/
theorem rdp_two_psi (γ ε x y : ℝ) : two * rdpPsi γ ε x y = (x - y) * (x - y) / rdpDen γ ε x y := by
  unfold rdpPsi sq; rw [two_eq]; ring

theorem rdpD10_eq (γ ε x y : ℝ) (hD : rdpDen γ ε x y ≠ 0) :
    rdpD10 γ ε x y = (x - y) * (γ * |x - y| + x + 3 * y + 2 * ε) / (rdpDen γ ε x y * rdpDen γ ε x y) := by
  unfold rdpD10
  have hcond : (ε == 0 && x == 0 && y == 0) = false := by
    rw [Bool.eq_false_iff]
    intro h
    simp only [Bool.and_eq_true, beq_iff_eq] at h
    obtain ⟨⟨rfl, rfl⟩, rfl⟩ := h
    apply hD; rw [rdpDen_eq]; simp
  rw [hcond]
  simp only [Bool.false_eq_true, if_false, absK_eq_abs, two_eq, three_eq, rdpDen_eq]

/-- `derivative_10` is the derivative with respect to `x` of `2 ψ` (ψ = `RelativeDifferencePrior::value`; the sum in `compute_value`
    visits every unordered pair twice) at points `x ≠ y` with non-zero denominator -/
theorem rdp_d10_is_derivative (γ ε x y : ℝ) (hxy : x ≠ y) (hD : rdpDen γ ε x y ≠ 0) :
    HasDerivAt (fun t => two * rdpPsi γ ε t y) (rdpD10 γ ε x y) x := by
  simp only [rdp_two_psi]
  rw [rdpD10_eq γ ε x y hD]
  have hid : HasDerivAt (fun t : ℝ => t - y) 1 x := (hasDerivAt_id x).sub_const y
  have hnum : HasDerivAt (fun t : ℝ => (t - y) * (t - y)) (1 * (x - y) + (x - y) * 1) x := hid.mul hid
  rcases lt_or_gt_of_ne hxy with hlt | hgt
  · -- x < y : |t - y| = -(t - y) near x
    have hev : (fun t => (t - y) * (t - y) / rdpDen γ ε t y) =ᶠ[nhds x]
        fun t => (t - y) * (t - y) / (t + y + γ * (-(t - y)) + ε) := by
      filter_upwards [gt_mem_nhds hlt] with t ht
      rw [rdpDen_eq, abs_of_neg (by linarith)]
    refine HasDerivAt.congr_of_eventuallyEq ?_ hev
    have hden : HasDerivAt (fun t : ℝ => t + y + γ * (-(t - y)) + ε) (1 + γ * (-1)) x :=
      (((hasDerivAt_id x).add_const y).add ((hid.neg).const_mul γ)).add_const ε
    have hD' : x + y + γ * (-(x - y)) + ε ≠ 0 := by
      have := hD; rw [rdpDen_eq, abs_of_neg (by linarith)] at this; exact this
    have h := hnum.div hden hD'
    have key : (x - y) * (γ * |x - y| + x + 3 * y + 2 * ε) / (rdpDen γ ε x y * rdpDen γ ε x y)
        = ((1 * (x - y) + (x - y) * 1) * (x + y + γ * (-(x - y)) + ε) - (x - y) * (x - y) * (1 + γ * (-1)))
          / (x + y + γ * (-(x - y)) + ε) ^ 2 := by
      rw [rdpDen_eq, abs_of_neg (by linarith : x - y < 0)]
      field_simp
      ring
    rw [key]; exact h
  · -- x > y
    have hev : (fun t => (t - y) * (t - y) / rdpDen γ ε t y) =ᶠ[nhds x]
        fun t => (t - y) * (t - y) / (t + y + γ * (t - y) + ε) := by
      filter_upwards [lt_mem_nhds hgt] with t ht
      rw [rdpDen_eq, abs_of_pos (by linarith)]
    refine HasDerivAt.congr_of_eventuallyEq ?_ hev
    have hden : HasDerivAt (fun t : ℝ => t + y + γ * (t - y) + ε) (1 + γ * 1) x :=
      (((hasDerivAt_id x).add_const y).add (hid.const_mul γ)).add_const ε
    have hD' : x + y + γ * (x - y) + ε ≠ 0 := by
      have := hD; rw [rdpDen_eq, abs_of_pos (by linarith)] at this; exact this
    have h := hnum.div hden hD'
    have key : (x - y) * (γ * |x - y| + x + 3 * y + 2 * ε) / (rdpDen γ ε x y * rdpDen γ ε x y)
        = ((1 * (x - y) + (x - y) * 1) * (x + y + γ * (x - y) + ε) - (x - y) * (x - y) * (1 + γ * 1))
          / (x + y + γ * (x - y) + ε) ^ 2 := by
      rw [rdpDen_eq, abs_of_pos (by linarith : 0 < x - y)]
      field_simp
      ring
    rw [key]; exact h


theorem rdpD20_eq (γ ε x y : ℝ) (hpos : 0 < x ∨ 0 < y ∨ 0 < ε) :
    rdpD20 γ ε x y = 2 * ((2 * y + ε) * (2 * y + ε)) / (rdpDen γ ε x y * rdpDen γ ε x y * rdpDen γ ε x y) := by
  unfold rdpD20
  have : (decide (0 < x) || decide (0 < y) || decide (0 < ε)) = true := by
    simp only [Bool.or_eq_true, decide_eq_true_eq]; tauto
  rw [if_pos this]
  simp only [two_eq, sq]

theorem rdpD11_eq (γ ε x y : ℝ) (hpos : 0 < x ∨ 0 < y ∨ 0 < ε) :
    rdpD11 γ ε x y = -2 * (2 * x + ε) * (2 * y + ε) / (rdpDen γ ε x y * rdpDen γ ε x y * rdpDen γ ε x y) := by
  unfold rdpD11
  have : (decide (0 < x) || decide (0 < y) || decide (0 < ε)) = true := by
    simp only [Bool.or_eq_true, decide_eq_true_eq]; tauto
  rw [if_pos this]
  simp only [two_eq]

/-- `derivative_20` is the derivative of `derivative_10` with respect to `x_j` -/
theorem rdp_d20_is_derivative (γ ε x y : ℝ) (hxy : x ≠ y) (hD : rdpDen γ ε x y ≠ 0) (hpos : 0 < x ∨ 0 < y ∨ 0 < ε) :
    HasDerivAt (fun t => rdpD10 γ ε t y) (rdpD20 γ ε x y) x := by
  rw [rdpD20_eq γ ε x y hpos]
  have hid : HasDerivAt (fun t : ℝ => t - y) 1 x := (hasDerivAt_id x).sub_const y
  have hcont : ContinuousAt (fun t : ℝ => rdpDen γ ε t y) x := by
    simp only [rdpDen_eq]; fun_prop
  have hDev := hcont.eventually_ne hD
  rcases lt_or_gt_of_ne hxy with hlt | hgt
  · have hev : (fun t => rdpD10 γ ε t y) =ᶠ[nhds x]
        fun t => (t - y) * (γ * (-(t - y)) + t + 3 * y + 2 * ε) / ((t + y + γ * (-(t - y)) + ε) * (t + y + γ * (-(t - y)) + ε)) := by
      filter_upwards [gt_mem_nhds hlt, hDev] with t ht hDt
      rw [rdpD10_eq γ ε t y hDt, rdpDen_eq, abs_of_neg (by linarith)]
    refine HasDerivAt.congr_of_eventuallyEq ?_ hev
    have hden : HasDerivAt (fun t : ℝ => t + y + γ * (-(t - y)) + ε) (1 + γ * (-1)) x :=
      (((hasDerivAt_id x).add_const y).add ((hid.neg).const_mul γ)).add_const ε
    have hN : HasDerivAt (fun t : ℝ => γ * (-(t - y)) + t + 3 * y + 2 * ε) (γ * (-1) + 1) x :=
      (((hid.neg.const_mul γ).add (hasDerivAt_id x)).add_const (3 * y)).add_const (2 * ε)
    have hD' : x + y + γ * (-(x - y)) + ε ≠ 0 := by
      have := hD; rw [rdpDen_eq, abs_of_neg (by linarith)] at this; exact this
    have h := (hid.mul hN).div (hden.mul hden) (mul_ne_zero hD' hD')
    have key : 2 * ((2 * y + ε) * (2 * y + ε)) / (rdpDen γ ε x y * rdpDen γ ε x y * rdpDen γ ε x y)
        = ((1 * (γ * (-(x - y)) + x + 3 * y + 2 * ε) + (x - y) * (γ * (-1) + 1)) * ((x + y + γ * (-(x - y)) + ε) * (x + y + γ * (-(x - y)) + ε))
            - (x - y) * (γ * (-(x - y)) + x + 3 * y + 2 * ε) * ((1 + γ * (-1)) * (x + y + γ * (-(x - y)) + ε) + (x + y + γ * (-(x - y)) + ε) * (1 + γ * (-1))))
          / ((x + y + γ * (-(x - y)) + ε) * (x + y + γ * (-(x - y)) + ε)) ^ 2 := by
      rw [rdpDen_eq, abs_of_neg (by linarith : x - y < 0)]
      field_simp
      ring
    rw [key]; exact h
  · have hev : (fun t => rdpD10 γ ε t y) =ᶠ[nhds x]
        fun t => (t - y) * (γ * (t - y) + t + 3 * y + 2 * ε) / ((t + y + γ * (t - y) + ε) * (t + y + γ * (t - y) + ε)) := by
      filter_upwards [lt_mem_nhds hgt, hDev] with t ht hDt
      rw [rdpD10_eq γ ε t y hDt, rdpDen_eq, abs_of_pos (by linarith)]
    refine HasDerivAt.congr_of_eventuallyEq ?_ hev
    have hden : HasDerivAt (fun t : ℝ => t + y + γ * (t - y) + ε) (1 + γ * 1) x :=
      (((hasDerivAt_id x).add_const y).add (hid.const_mul γ)).add_const ε
    have hN : HasDerivAt (fun t : ℝ => γ * (t - y) + t + 3 * y + 2 * ε) (γ * 1 + 1) x :=
      (((hid.const_mul γ).add (hasDerivAt_id x)).add_const (3 * y)).add_const (2 * ε)
    have hD' : x + y + γ * (x - y) + ε ≠ 0 := by
      have := hD; rw [rdpDen_eq, abs_of_pos (by linarith)] at this; exact this
    have h := (hid.mul hN).div (hden.mul hden) (mul_ne_zero hD' hD')
    have key : 2 * ((2 * y + ε) * (2 * y + ε)) / (rdpDen γ ε x y * rdpDen γ ε x y * rdpDen γ ε x y)
        = ((1 * (γ * (x - y) + x + 3 * y + 2 * ε) + (x - y) * (γ * 1 + 1)) * ((x + y + γ * (x - y) + ε) * (x + y + γ * (x - y) + ε))
            - (x - y) * (γ * (x - y) + x + 3 * y + 2 * ε) * ((1 + γ * 1) * (x + y + γ * (x - y) + ε) + (x + y + γ * (x - y) + ε) * (1 + γ * 1)))
          / ((x + y + γ * (x - y) + ε) * (x + y + γ * (x - y) + ε)) ^ 2 := by
      rw [rdpDen_eq, abs_of_pos (by linarith : 0 < x - y)]
      field_simp
      ring
    rw [key]; exact h

/-- `derivative_11` is the derivative of `derivative_10` with respect to `x_k` -/
theorem rdp_d11_is_derivative (γ ε x y : ℝ) (hxy : x ≠ y) (hD : rdpDen γ ε x y ≠ 0) (hpos : 0 < x ∨ 0 < y ∨ 0 < ε) :
    HasDerivAt (fun t => rdpD10 γ ε x t) (rdpD11 γ ε x y) y := by
  rw [rdpD11_eq γ ε x y hpos]
  have hid : HasDerivAt (fun t : ℝ => x - t) (-1) y := by simpa using (hasDerivAt_id y).const_sub x
  have hcont : ContinuousAt (fun t : ℝ => rdpDen γ ε x t) y := by
    simp only [rdpDen_eq]; fun_prop
  have hDev := hcont.eventually_ne hD
  rcases lt_or_gt_of_ne hxy with hlt | hgt
  · -- x < y: |x - t| = -(x - t) for t near y
    have hev : (fun t => rdpD10 γ ε x t) =ᶠ[nhds y]
        fun t => (x - t) * (γ * (-(x - t)) + x + 3 * t + 2 * ε) / ((x + t + γ * (-(x - t)) + ε) * (x + t + γ * (-(x - t)) + ε)) := by
      filter_upwards [lt_mem_nhds hlt, hDev] with t ht hDt
      rw [rdpD10_eq γ ε x t hDt, rdpDen_eq, abs_of_neg (by linarith)]
    refine HasDerivAt.congr_of_eventuallyEq ?_ hev
    have hden : HasDerivAt (fun t : ℝ => x + t + γ * (-(x - t)) + ε) (1 + γ * (-(-1))) y :=
      (((hasDerivAt_id y).const_add x).add ((hid.neg).const_mul γ)).add_const ε
    have hN : HasDerivAt (fun t : ℝ => γ * (-(x - t)) + x + 3 * t + 2 * ε) (γ * (-(-1)) + 3 * 1) y :=
      ((((hid.neg).const_mul γ).add_const x).add ((hasDerivAt_id y).const_mul 3)).add_const (2 * ε)
    have hD' : x + y + γ * (-(x - y)) + ε ≠ 0 := by
      have := hD; rw [rdpDen_eq, abs_of_neg (by linarith)] at this; exact this
    have h := (hid.mul hN).div (hden.mul hden) (mul_ne_zero hD' hD')
    have key : -2 * (2 * x + ε) * (2 * y + ε) / (rdpDen γ ε x y * rdpDen γ ε x y * rdpDen γ ε x y)
        = ((-1 * (γ * (-(x - y)) + x + 3 * y + 2 * ε) + (x - y) * (γ * (-(-1)) + 3 * 1)) * ((x + y + γ * (-(x - y)) + ε) * (x + y + γ * (-(x - y)) + ε))
            - (x - y) * (γ * (-(x - y)) + x + 3 * y + 2 * ε) * ((1 + γ * (-(-1))) * (x + y + γ * (-(x - y)) + ε) + (x + y + γ * (-(x - y)) + ε) * (1 + γ * (-(-1)))))
          / ((x + y + γ * (-(x - y)) + ε) * (x + y + γ * (-(x - y)) + ε)) ^ 2 := by
      rw [rdpDen_eq, abs_of_neg (by linarith : x - y < 0)]
      field_simp
      ring
    rw [key]; exact h
  · have hev : (fun t => rdpD10 γ ε x t) =ᶠ[nhds y]
        fun t => (x - t) * (γ * (x - t) + x + 3 * t + 2 * ε) / ((x + t + γ * (x - t) + ε) * (x + t + γ * (x - t) + ε)) := by
      filter_upwards [gt_mem_nhds hgt, hDev] with t ht hDt
      rw [rdpD10_eq γ ε x t hDt, rdpDen_eq, abs_of_pos (by linarith)]
    refine HasDerivAt.congr_of_eventuallyEq ?_ hev
    have hden : HasDerivAt (fun t : ℝ => x + t + γ * (x - t) + ε) (1 + γ * (-1)) y :=
      (((hasDerivAt_id y).const_add x).add (hid.const_mul γ)).add_const ε
    have hN : HasDerivAt (fun t : ℝ => γ * (x - t) + x + 3 * t + 2 * ε) (γ * (-1) + 3 * 1) y :=
      (((hid.const_mul γ).add_const x).add ((hasDerivAt_id y).const_mul 3)).add_const (2 * ε)
    have hD' : x + y + γ * (x - y) + ε ≠ 0 := by
      have := hD; rw [rdpDen_eq, abs_of_pos (by linarith)] at this; exact this
    have h := (hid.mul hN).div (hden.mul hden) (mul_ne_zero hD' hD')
    have key : -2 * (2 * x + ε) * (2 * y + ε) / (rdpDen γ ε x y * rdpDen γ ε x y * rdpDen γ ε x y)
        = ((-1 * (γ * (x - y) + x + 3 * y + 2 * ε) + (x - y) * (γ * (-1) + 3 * 1)) * ((x + y + γ * (x - y) + ε) * (x + y + γ * (x - y) + ε))
            - (x - y) * (γ * (x - y) + x + 3 * y + 2 * ε) * ((1 + γ * (-1)) * (x + y + γ * (x - y) + ε) + (x + y + γ * (x - y) + ε) * (1 + γ * (-1))))
          / ((x + y + γ * (x - y) + ε) * (x + y + γ * (x - y) + ε)) ^ 2 := by
      rw [rdpDen_eq, abs_of_pos (by linarith : 0 < x - y)]
      field_simp
      ring
    rw [key]; exact h

theorem rdpD11_comm (γ ε x y : ℝ) : rdpD11 γ ε x y = rdpD11 γ ε y x := by
  unfold rdpD11
  rw [rdpDen_comm γ ε x y]
  have : (decide (0 < x) || decide (0 < y) || decide (0 < ε)) = (decide (0 < y) || decide (0 < x) || decide (0 < ε)) := by
    rw [Bool.or_comm (decide (0 < x))]
  rw [this]
  split_ifs
  · ring
  · rfl

/-- the 2×2 Hessian of the relative difference potential is positive semi-definite where the denominator is positive
    (`d20(x,y) d20(y,x) - d11(x,y)² = 0`, `d20 ≥ 0`) -/
theorem rdp_psd (γ ε x y a c : ℝ) (hD : 0 < rdpDen γ ε x y) (hpos : 0 < x ∨ 0 < y ∨ 0 < ε) :
    0 ≤ rdpD20 γ ε x y * a * a + 2 * rdpD11 γ ε x y * a * c + rdpD20 γ ε y x * c * c := by
  have hpos' : 0 < y ∨ 0 < x ∨ 0 < ε := by tauto
  rw [rdpD20_eq γ ε x y hpos, rdpD11_eq γ ε x y hpos, rdpD20_eq γ ε y x hpos', ← rdpDen_comm γ ε x y]
  have : 2 * ((2 * y + ε) * (2 * y + ε)) / (rdpDen γ ε x y * rdpDen γ ε x y * rdpDen γ ε x y) * a * a
      + 2 * (-2 * (2 * x + ε) * (2 * y + ε) / (rdpDen γ ε x y * rdpDen γ ε x y * rdpDen γ ε x y)) * a * c
      + 2 * ((2 * x + ε) * (2 * x + ε)) / (rdpDen γ ε x y * rdpDen γ ε x y * rdpDen γ ε x y) * c * c
      = 2 * (((2 * y + ε) * a - (2 * x + ε) * c) ^ 2) / (rdpDen γ ε x y * rdpDen γ ε x y * rdpDen γ ε x y) := by
    field_simp
    ring
  rw [this]
  positivity


/-! ### log-cosh: symmetry and convexity -/

theorem lcD20_comm (s x y : ℝ) : lcD20 s x y = lcD20 s y x := by
  unfold lcD20
  show sq (1 / Real.cosh ((x - y) * s)) = sq (1 / Real.cosh ((y - x) * s))
  have : (y - x) * s = -((x - y) * s) := by ring
  rw [this, Real.cosh_neg]

theorem lcD11_comm (s x y : ℝ) : lcD11 s x y = lcD11 s y x := by
  unfold lcD11; rw [lcD20_comm]

theorem lcD20_nonneg (s x y : ℝ) : 0 ≤ lcD20 s x y := by
  unfold lcD20 sq; exact mul_self_nonneg _

/-- the 2×2 Hessian `sech² · [[1,-1],[-1,1]]` of the log-cosh potential is positive semi-definite -/
theorem lc_psd (s x y a c : ℝ) :
    0 ≤ lcD20 s x y * a * a + 2 * lcD11 s x y * a * c + lcD20 s y x * c * c := by
  rw [← lcD20_comm s x y]
  have : lcD20 s x y * a * a + 2 * lcD11 s x y * a * c + lcD20 s x y * c * c = lcD20 s x y * (a - c) ^ 2 := by
    unfold lcD11; ring
  rw [this]
  exact mul_nonneg (lcD20_nonneg s x y) (sq_nonneg _)

/-- `derivative_10(x,x) = 0` for both priors: uniform images have zero gradient -/
theorem lcD10_self (s x : ℝ) : lcD10 s x x = 0 := by
  unfold lcD10
  show 1 / s * Real.tanh (s * (x - x)) = 0
  simp

theorem rdpD10_self (γ ε x : ℝ) : rdpD10 γ ε x x = 0 := by
  unfold rdpD10
  split_ifs <;> simp

end StirVerif.C09
