/-
C09 — "Priors: value, gradient and Hessian are mutually consistent and convex".

Property theorems over the model of `Model.lean` (the loops of QuadraticPrior / RelativeDifferencePrior / LogcoshPrior,
transcribed line by line and tied to the C++ by the correspondence run of `checks/c09.py`).  Every statement is for all image
boxes, weights boxes, weights, kappa images, penalisation factors and images (no size bound).  `K` is any linearly ordered
field (ℚ — the type the driver executes the quadratic prior at — and ℝ are instances).

The model describes the code after the repairs C09-1..3 (PLS gradient: per-direction borders, kappa inside the divergence;
Quadratic/RDP/log-cosh Hessian functions: a voxel is not its own neighbour, the centre weight contributes nothing).

Hypotheses that occur:
* `SymWeights wb w` — the weights array has a symmetric index range and `w(-d) = w(d)`.  True for the default weights
  (`compute_weights`) and for the documented example `{{{0,1,0},{1,0,1},{0,1,0}}}`; NOT enforced by `set_weights` / the parser, and
  for asymmetric user weights the code does NOT satisfy the property (known finding `weights:asymmetric-user-weights`):
  `C09_quadratic_expansion_asymmetric_weights_fails`, `C09_quadratic_H_symmetric_asymmetric_weights_fails` are the negative
  witnesses, and every theorem that needs `SymWeights` is named `…_partial`.
* non-negative weights, kappa and penalisation factor for positive semi-definiteness (the domain of "penalty weights").
  For an OBJECT that never got user weights the hypothesis is discharged by `C09_object_history_keeps_symmetric_weights`: whichever
  API function is called first (each has its own copy of the lazy `compute_weights` block), whatever grid spacings the images of
  the later calls have and however often `set_up` is called in between, the weights the object holds are symmetric and non-negative —
  so all `…_partial` theorems apply to every state such an object can reach.  For weights given with `weights :=` and an even size in some dimension the
  index range is not symmetric; `C09_even_weights_are_zero_padded` says that value, gradient and Hessian-times-vector are those of the
  symmetric range with zeros appended, to which the theorems then apply (if the padded weights are symmetric).
No hypothesis on the centre weight `w 0 0 0` is needed any more (`C09_nonzero_centre_weight_is_covered`).
PLSPrior: derivative of the value with respect to every single voxel (partial derivatives), scaling, uniform images.
The RDP derivative statements also hold at points with equal neighbouring values (`C09_rdp_derivatives_at_equal_values`, where
`|x - y|` is not differentiable but the potential is).
Not covered by theorems (correspondence run + oracle only): float rounding; PLS directional derivatives along arbitrary images.
-/
import StirVerif.C09.ProofsImage
import StirVerif.C09.ProofsRdpDiag
import StirVerif.C09.ProofsPls
import StirVerif.C09.ProofsObj

namespace StirVerif.C09

section structural
variable {K : Type} [Field K] [LinearOrder K] [IsStrictOrderedRing K]

/-! ### "a single Hessian row equals the Hessian applied to the corresponding unit image" -/

/-- `compute_Hessian(coords = c)` = `accumulate_Hessian_times_input(output = 0, input = unit image of c)`, for the shared loops of
    the three neighbourhood priors (any `derivative_20`, any symmetric `derivative_11`), symmetric weights
    Partial: `SymWeights` is assumed (the clause fails for asymmetric user weights, known finding `weights:asymmetric-user-weights`). -/
theorem C09_hessian_row_eq_H_unit_partial (d20 d11 : K → K → K) (pf : K) (w : Img K) (κ : Option (Img K)) (b wb : Box) (cur : Img K)
    (hw : SymWeights wb w) (h11 : ∀ a c : K, d11 a c = d11 c a)
    (cz cy cx z y x : Int) (hc : InBox b cz cy cx) (hr : InBox b z y x) :
    hessRow d20 d11 pf w κ b wb cur cz cy cx z y x
      = hessTimes d20 d11 pf w κ b wb cur (unitImg cz cy cx) (fun _ _ _ => 0) z y x := by
  rw [hessRow_eq_core, hessTimes_eq_core, zero_add]
  exact hessRow_eq_hessTimes_unit d20 d11 pf w κ b wb cur hw h11 cz cy cx z y x hc hr

/-- … for `QuadraticPrior`
    Partial: `SymWeights` is assumed (the clause fails for asymmetric user weights, known finding `weights:asymmetric-user-weights`). -/
theorem C09_quadratic_hessian_row_eq_H_unit_partial (pf : K) (w : Img K) (κ : Option (Img K)) (b wb : Box) (cur : Img K)
    (hw : SymWeights wb w) (cz cy cx z y x : Int) (hc : InBox b cz cy cx) (hr : InBox b z y x) :
    qHessRow pf w κ b wb cur cz cy cx z y x = qHessTimes pf w κ b wb cur (unitImg cz cy cx) (fun _ _ _ => 0) z y x :=
  C09_hessian_row_eq_H_unit_partial qD20 qD11 pf w κ b wb cur hw (fun _ _ => rfl) cz cy cx z y x hc hr

/-- … for `RelativeDifferencePrior`
    Partial: `SymWeights` is assumed (the clause fails for asymmetric user weights, known finding `weights:asymmetric-user-weights`). -/
theorem C09_rdp_hessian_row_eq_H_unit_partial (γ ε pf : ℝ) (w : Img ℝ) (κ : Option (Img ℝ)) (b wb : Box) (cur : Img ℝ)
    (hw : SymWeights wb w) (cz cy cx z y x : Int) (hc : InBox b cz cy cx) (hr : InBox b z y x) :
    rHessRow γ ε pf w κ b wb cur cz cy cx z y x = rHessTimes γ ε pf w κ b wb cur (unitImg cz cy cx) (fun _ _ _ => 0) z y x :=
  C09_hessian_row_eq_H_unit_partial (rdpD20 γ ε) (rdpD11 γ ε) pf w κ b wb cur hw (rdpD11_comm γ ε) cz cy cx z y x hc hr

/-- … for `LogcoshPrior`
    Partial: `SymWeights` is assumed (the clause fails for asymmetric user weights, known finding `weights:asymmetric-user-weights`). -/
theorem C09_logcosh_hessian_row_eq_H_unit_partial (s pf : ℝ) (w : Img ℝ) (κ : Option (Img ℝ)) (b wb : Box) (cur : Img ℝ)
    (hw : SymWeights wb w) (cz cy cx z y x : Int) (hc : InBox b cz cy cx) (hr : InBox b z y x) :
    lHessRow s pf w κ b wb cur cz cy cx z y x = lHessTimes s pf w κ b wb cur (unitImg cz cy cx) (fun _ _ _ => 0) z y x :=
  C09_hessian_row_eq_H_unit_partial (lcD20 s) (lcD11 s) pf w κ b wb cur hw (lcD11_comm s) cz cy cx z y x hc hr

/-! ### "The Hessian is symmetric" -/

/-- `⟨u, H v⟩ = ⟨v, H u⟩` where `H v` is what `accumulate_Hessian_times_input` adds to its output.
    (Applies to the members of an object in every state it can reach without user weights — first call of any API function, images of
    other voxel sizes, repeated `set_up` —, see `C09_object_history_keeps_symmetric_weights`; same for the other `…_partial` theorems.)
    Partial: `SymWeights` is assumed (the clause fails for asymmetric user weights, known finding `weights:asymmetric-user-weights`). -/
theorem C09_H_symmetric_partial (d20 d11 : K → K → K) (pf : K) (w : Img K) (κ : Option (Img K)) (b wb : Box) (cur u v : Img K)
    (hw : SymWeights wb w) (h11 : ∀ a c : K, d11 a c = d11 c a) :
    inner b u (hessTimesCore d20 d11 pf w κ b wb cur v) = inner b v (hessTimesCore d20 d11 pf w κ b wb cur u) :=
  H_symmetric d20 d11 pf w κ b wb cur u v hw fun _ _ _ _ => h11 _ _

/-- the same statement on the API function (output initialised with 0)
    Partial: `SymWeights` is assumed (the clause fails for asymmetric user weights, known finding `weights:asymmetric-user-weights`). -/
theorem C09_H_symmetric_api_partial (d20 d11 : K → K → K) (pf : K) (w : Img K) (κ : Option (Img K)) (b wb : Box) (cur u v : Img K)
    (hw : SymWeights wb w) (h11 : ∀ a c : K, d11 a c = d11 c a) :
    inner b u (hessTimes d20 d11 pf w κ b wb cur v fun _ _ _ => 0) = inner b v (hessTimes d20 d11 pf w κ b wb cur u fun _ _ _ => 0) := by
  have h := C09_H_symmetric_partial d20 d11 pf w κ b wb cur u v hw h11
  unfold inner at h ⊢
  simpa only [hessTimes_eq_core, zero_add] using h

/-! ### "… and positive semi-definite for priors that declare themselves convex" -/

/-- `⟨e, H e⟩ ≥ 0` for non-negative symmetric weights, non-negative kappa and penalisation factor whenever the 2×2 Hessians of the
    potential are positive semi-definite at the image values
    Partial: `SymWeights` is assumed (the clause fails for asymmetric user weights, known finding `weights:asymmetric-user-weights`). -/
theorem C09_H_psd_partial (d20 d11 : K → K → K) (pf : K) (w : Img K) (κ : Option (Img K)) (b wb : Box) (cur e : Img K)
    (hw : SymWeights wb w) (hw0 : ∀ dz dy dx, InBox wb dz dy dx → 0 ≤ w dz dy dx) (hκ : KappaNonneg b κ) (hpf : 0 ≤ pf)
    (h11 : ∀ a c : K, d11 a c = d11 c a)
    (hpsd : ∀ z y x z' y' x', InBox b z y x → InBox b z' y' x' → ∀ a c : K,
      0 ≤ d20 (cur z y x) (cur z' y' x') * a * a + 2 * d11 (cur z y x) (cur z' y' x') * a * c + d20 (cur z' y' x') (cur z y x) * c * c) :
    0 ≤ inner b e (hessTimesCore d20 d11 pf w κ b wb cur e) :=
  H_psd d20 d11 pf w κ b wb cur e hw hw0 hκ hpf (fun _ _ _ _ => h11 _ _)
    fun _ _ hr hs a c => hpsd _ _ _ _ _ _ (mem_boxF.mp hr) (mem_boxF.mp hs) a c

/-- `QuadraticPrior` (`is_convex() = true`): the Hessian is positive semi-definite
    Partial: `SymWeights` is assumed (the clause fails for asymmetric user weights, known finding `weights:asymmetric-user-weights`). -/
theorem C09_quadratic_H_psd_partial (pf : K) (w : Img K) (κ : Option (Img K)) (b wb : Box) (cur e : Img K)
    (hw : SymWeights wb w) (hw0 : ∀ dz dy dx, InBox wb dz dy dx → 0 ≤ w dz dy dx) (hκ : KappaNonneg b κ) (hpf : 0 ≤ pf) :
    0 ≤ inner b e (hessTimesCore qD20 qD11 pf w κ b wb cur e) := by
  refine C09_H_psd_partial qD20 qD11 pf w κ b wb cur e hw hw0 hκ hpf (fun _ _ => rfl) fun _ _ _ _ _ _ _ _ a c => ?_
  simp only [qD20, qD11]
  nlinarith [sq_nonneg (a - c)]

/-- `RelativeDifferencePrior` (`is_convex() = true`), positive image, `γ, ε ≥ 0`: the Hessian is positive semi-definite
    Partial: `SymWeights` is assumed (the clause fails for asymmetric user weights, known finding `weights:asymmetric-user-weights`). -/
theorem C09_rdp_H_psd_partial (γ ε pf : ℝ) (w : Img ℝ) (κ : Option (Img ℝ)) (b wb : Box) (cur e : Img ℝ)
    (hw : SymWeights wb w) (hw0 : ∀ dz dy dx, InBox wb dz dy dx → 0 ≤ w dz dy dx) (hκ : KappaNonneg b κ) (hpf : 0 ≤ pf)
    (hγ : 0 ≤ γ) (hε : 0 ≤ ε) (hcur : ∀ z y x, InBox b z y x → 0 < cur z y x) :
    0 ≤ inner b e (hessTimesCore (rdpD20 γ ε) (rdpD11 γ ε) pf w κ b wb cur e) := by
  refine C09_H_psd_partial _ _ pf w κ b wb cur e hw hw0 hκ hpf (rdpD11_comm γ ε) fun z y x z' y' x' h h' a c => ?_
  have h1 := hcur _ _ _ h
  have h2 := hcur _ _ _ h'
  refine rdp_psd γ ε _ _ a c ?_ (Or.inl h1)
  rw [rdpDen_eq]
  have := mul_nonneg hγ (abs_nonneg (cur z y x - cur z' y' x'))
  linarith

/-- `LogcoshPrior` (`is_convex() = true`): the Hessian is positive semi-definite
    Partial: `SymWeights` is assumed (the clause fails for asymmetric user weights, known finding `weights:asymmetric-user-weights`). -/
theorem C09_logcosh_H_psd_partial (s pf : ℝ) (w : Img ℝ) (κ : Option (Img ℝ)) (b wb : Box) (cur e : Img ℝ)
    (hw : SymWeights wb w) (hw0 : ∀ dz dy dx, InBox wb dz dy dx → 0 ≤ w dz dy dx) (hκ : KappaNonneg b κ) (hpf : 0 ≤ pf) :
    0 ≤ inner b e (hessTimesCore (lcD20 s) (lcD11 s) pf w κ b wb cur e) :=
  C09_H_psd_partial _ _ pf w κ b wb cur e hw hw0 hκ hpf (lcD11_comm s) fun _ _ _ _ _ _ _ _ a c => lc_psd s _ _ a c

/-! ### "the gradient is the derivative of the value, the Hessian-times-vector is the directional derivative of the gradient" -/

/-- QuadraticPrior, exact (no limit needed): `value(λ + t e) = value(λ) + t ⟨grad λ, e⟩ + t²/2 ⟨e, H e⟩` for symmetric weights
    (any centre weight).  So `grad` is the derivative of `value` and `H` its second derivative.
    Partial: needs `SymWeights` (false for asymmetric user weights, `C09_quadratic_expansion_asymmetric_weights_fails`). -/
theorem C09_quadratic_value_expansion_partial (pf : K) (w : Img K) (κ : Option (Img K)) (b wb : Box) (lam e : Img K) (t : K)
    (hw : SymWeights wb w) :
    qValue pf w κ b wb (fun z y x => lam z y x + t * e z y x)
      = qValue pf w κ b wb lam + t * inner b (qGrad pf w κ b wb lam) e
        + t ^ 2 / 2 * inner b e (qHessTimes pf w κ b wb lam e fun _ _ _ => 0) := by
  have h := qValue_expansion pf w κ b wb lam e t hw
  simp only [qValue_eq_core]
  unfold inner at h ⊢
  simpa only [qGrad, qHessTimes, grad_eq_core, hessTimes_eq_core, zero_add] using h

/-- QuadraticPrior: `grad(λ + t e) = grad(λ) + t · H e` at every voxel, for ALL weights (no symmetry, no condition on the centre):
    the Hessian-times-vector is exactly the directional derivative of the gradient -/
theorem C09_quadratic_gradient_affine (pf : K) (w : Img K) (κ : Option (Img K)) (b wb : Box) (lam e : Img K) (t : K)
    (z y x : Int) :
    qGrad pf w κ b wb (fun z y x => lam z y x + t * e z y x) z y x
      = qGrad pf w κ b wb lam z y x + t * (qHessTimes pf w κ b wb lam e (fun _ _ _ => 0) z y x) := by
  simp only [qGrad, qHessTimes, grad_eq_core, hessTimes_eq_core, zero_add]
  exact qGrad_linear pf w κ b wb lam e t z y x

end structural

/-- RDP: `derivative_10 = ∂(2ψ)/∂x`, `derivative_20 = ∂ derivative_10/∂x_j`, `derivative_11 = ∂ derivative_10/∂x_k`
    (ψ = `RelativeDifferencePrior::value`; `compute_value` visits every unordered pair twice), at `x ≠ y` with positive denominator -/
theorem C09_rdp_derivatives (γ ε x y : ℝ) (hxy : x ≠ y) (hD : 0 < rdpDen γ ε x y) (hpos : 0 < x ∨ 0 < y ∨ 0 < ε) :
    HasDerivAt (fun t => two * rdpPsi γ ε t y) (rdpD10 γ ε x y) x
    ∧ HasDerivAt (fun t => rdpD10 γ ε t y) (rdpD20 γ ε x y) x
    ∧ HasDerivAt (fun t => rdpD10 γ ε x t) (rdpD11 γ ε x y) y :=
  ⟨rdp_d10_is_derivative γ ε x y hxy hD.ne', rdp_d20_is_derivative γ ε x y hxy hD.ne' hpos,
   rdp_d11_is_derivative γ ε x y hxy hD.ne' hpos⟩

/-- RDP is convex in the pair: `d20 ≥ 0`-type condition `d20(x,y) a² + 2 d11(x,y) a c + d20(y,x) c² ≥ 0` (the determinant is 0) -/
theorem C09_rdp_potential_convex (γ ε x y a c : ℝ) (hD : 0 < rdpDen γ ε x y) (hpos : 0 < x ∨ 0 < y ∨ 0 < ε) :
    0 ≤ rdpD20 γ ε x y * a * a + 2 * rdpD11 γ ε x y * a * c + rdpD20 γ ε y x * c * c :=
  rdp_psd γ ε x y a c hD hpos

/-- log-cosh: `(1/s) tanh(s(x-y))` is the derivative of the value term `1/s² logcosh(s(x-y))` (branch `|s(x-y)| < 30` of
    `LogcoshPrior::logcosh`), `derivative_20`/`derivative_11` are the derivatives of the gradient factor -/
theorem C09_logcosh_derivatives (s x y : ℝ) (hs : s ≠ 0) (h : |s * (x - y)| < 30) :
    HasDerivAt (fun t => lcTerm s 1 t y) (lcD10 s x y) x
    ∧ HasDerivAt (fun t => lcD10 s t y) (lcD20 s x y) x
    ∧ HasDerivAt (fun t => lcD10 s x t) (lcD11 s x y) y :=
  ⟨lc_d10_is_derivative s x y hs h, lc_d20_is_derivative s x y hs, lc_d11_is_derivative s x y hs⟩

/-- log-cosh is convex in the pair -/
theorem C09_logcosh_potential_convex (s x y a c : ℝ) :
    0 ≤ lcD20 s x y * a * a + 2 * lcD11 s x y * a * c + lcD20 s y x * c * c :=
  lc_psd s x y a c

/-- **RDP: the gradient is the derivative of the value** along every line `λ + t e`, at every `t0` where neighbouring voxels have
    different values and the denominators do not vanish (symmetric weights)
    Partial: `SymWeights` is assumed (the clause fails for asymmetric user weights, known finding `weights:asymmetric-user-weights`). -/
theorem C09_rdp_gradient_is_derivative_of_value_partial (γ ε pf : ℝ) (w : Img ℝ) (κ : Option (Img ℝ)) (b wb : Box) (lam e : Img ℝ) (t0 : ℝ)
    (hw : SymWeights wb w)
    (hne : ∀ z y x z' y' x', InBox b z y x → InBox b z' y' x' → ¬ (z = z' ∧ y = y' ∧ x = x') →
      lam z y x + t0 * e z y x ≠ lam z' y' x' + t0 * e z' y' x')
    (hD : ∀ z y x z' y' x', InBox b z y x → InBox b z' y' x' →
      rdpDen γ ε (lam z y x + t0 * e z y x) (lam z' y' x' + t0 * e z' y' x') ≠ 0) :
    HasDerivAt (fun t => rValue γ ε pf w κ b wb (fun z y x => lam z y x + t * e z y x))
      (inner b (rGrad γ ε pf w κ b wb (fun z y x => lam z y x + t0 * e z y x)) e) t0 :=
  rdp_gradient_is_derivative_of_value γ ε pf w κ b wb lam e t0 hw hne hD

/-- **RDP: the Hessian-times-vector is the directional derivative of the gradient** (same conditions on the image; ALL weights) -/
theorem C09_rdp_hessian_is_derivative_of_gradient (γ ε pf : ℝ) (w : Img ℝ) (κ : Option (Img ℝ)) (b wb : Box) (lam v : Img ℝ) (t0 : ℝ)
    (z y x : Int) (hr : InBox b z y x)
    (hne : ∀ z y x z' y' x', InBox b z y x → InBox b z' y' x' → ¬ (z = z' ∧ y = y' ∧ x = x') →
      lam z y x + t0 * v z y x ≠ lam z' y' x' + t0 * v z' y' x')
    (hD : ∀ z y x z' y' x', InBox b z y x → InBox b z' y' x' →
      rdpDen γ ε (lam z y x + t0 * v z y x) (lam z' y' x' + t0 * v z' y' x') ≠ 0)
    (hpos : ∀ z y x, InBox b z y x → 0 < lam z y x + t0 * v z y x) :
    HasDerivAt (fun t => gradCore (rdpD10 γ ε) pf w κ b wb (fun z y x => lam z y x + t * v z y x) z y x)
      (hessTimesCore (rdpD20 γ ε) (rdpD11 γ ε) pf w κ b wb (fun z y x => lam z y x + t0 * v z y x) v z y x) t0 :=
  grad_hasDerivAt (rdpD10 γ ε) (rdpD20 γ ε) (rdpD11 γ ε) pf w κ b wb lam v t0 (rdpD10_self γ ε) z y x hr fun r s hr hs _ hrs =>
    rdp_d10_line γ ε (lam.at r) (lam.at s) (v.at r) (v.at s) t0
      (hne _ _ _ _ _ _ (mem_boxF.mp hr) (mem_boxF.mp hs) fun h => hrs (by ext <;> simp [h.1, h.2.1, h.2.2]))
      (hD _ _ _ _ _ _ (mem_boxF.mp hr) (mem_boxF.mp hs)) (Or.inl (hpos _ _ _ (mem_boxF.mp hr)))

/-- **log-cosh: the Hessian-times-vector is the directional derivative of the gradient** (ALL weights) -/
theorem C09_logcosh_hessian_is_derivative_of_gradient (s pf : ℝ) (w : Img ℝ) (κ : Option (Img ℝ)) (b wb : Box) (lam v : Img ℝ) (t0 : ℝ)
    (hs : s ≠ 0) (z y x : Int) (hr : InBox b z y x) :
    HasDerivAt (fun t => gradCore (lcD10 s) pf w κ b wb (fun z y x => lam z y x + t * v z y x) z y x)
      (hessTimesCore (lcD20 s) (lcD11 s) pf w κ b wb (fun z y x => lam z y x + t0 * v z y x) v z y x) t0 :=
  grad_hasDerivAt (lcD10 s) (lcD20 s) (lcD11 s) pf w κ b wb lam v t0 (lcD10_self s) z y x hr fun r s' _ _ _ _ =>
    lc_d10_line s (lam.at r) (lam.at s') (v.at r) (v.at s') t0 hs

/-- **log-cosh: the gradient is the derivative of the value** along every line, where all neighbour differences are on the branch
    `|s Δ| < 30` of `logcosh` (symmetric weights)
    Partial: `SymWeights` is assumed (the clause fails for asymmetric user weights, known finding `weights:asymmetric-user-weights`). -/
theorem C09_logcosh_gradient_is_derivative_of_value_partial (s pf : ℝ) (w : Img ℝ) (κ : Option (Img ℝ)) (b wb : Box) (lam e : Img ℝ) (t0 : ℝ)
    (hs : s ≠ 0) (hw : SymWeights wb w)
    (hbr : ∀ z y x z' y' x', InBox b z y x → InBox b z' y' x' →
      |s * ((lam z y x + t0 * e z y x) - (lam z' y' x' + t0 * e z' y' x'))| < 30) :
    HasDerivAt (fun t => lValue s pf w κ b wb (fun z y x => lam z y x + t * e z y x))
      (inner b (lGrad s pf w κ b wb (fun z y x => lam z y x + t0 * e z y x)) e) t0 :=
  logcosh_gradient_is_derivative_of_value s pf w κ b wb lam e t0 hs hw hbr

section structural2
variable {K : Type} [Field K] [LinearOrder K] [IsStrictOrderedRing K]

/-! ### "value, gradient and Hessian scale linearly with the penalisation factor" -/

theorem C09_linear_in_penalisation_factor (d10 d20 d11 : K → K → K) (c pf : K) (w : Img K) (κ : Option (Img K)) (b wb : Box)
    (img inp : Img K) (cz cy cx z y x : Int) :
    qValue (c * pf) w κ b wb img = c * qValue pf w κ b wb img
    ∧ grad d10 (c * pf) w κ b wb img z y x = c * grad d10 pf w κ b wb img z y x
    ∧ hessRow d20 d11 (c * pf) w κ b wb img cz cy cx z y x = c * hessRow d20 d11 pf w κ b wb img cz cy cx z y x
    ∧ hessTimes d20 d11 (c * pf) w κ b wb img inp (fun _ _ _ => 0) z y x
        = c * hessTimes d20 d11 pf w κ b wb img inp (fun _ _ _ => 0) z y x := by
  simp only [qValue_eq_core, grad_eq_core, hessRow_eq_core, hessTimes_eq_core, zero_add]
  exact ⟨qValueCore_scale c pf w κ b wb img, gradCore_scale d10 c pf w κ b wb img z y x,
    hessRowCore_scale d20 d11 c pf w κ b wb img cz cy cx z y x, hessTimesCore_scale d20 d11 c pf w κ b wb img inp z y x⟩

/-- … and so do the values of `RelativeDifferencePrior` and `LogcoshPrior` (their gradients and Hessians are the generic loops above) -/
theorem C09_rdp_logcosh_value_linear_in_penalisation_factor (γ ε s c pf : ℝ) (w : Img ℝ) (κ : Option (Img ℝ)) (b wb : Box) (img : Img ℝ) :
    rValue γ ε (c * pf) w κ b wb img = c * rValue γ ε pf w κ b wb img
    ∧ lValue s (c * pf) w κ b wb img = c * lValue s pf w κ b wb img := by
  unfold rValue lValue
  by_cases hpf : pf = 0
  · simp [hpf]
  · by_cases hc : c = 0
    · simp [hc]
    · have h1 : (c * pf == 0) = false := by simpa using mul_ne_zero hc hpf
      have h2 : (pf == 0) = false := by simpa using hpf
      simp only [h1, h2, Bool.false_eq_true, if_false]
      constructor <;> ring

/-- the early returns `if (penalisation_factor == 0)` agree with the loops (which would compute `… * 0`) -/
theorem C09_zero_penalisation_shortcuts (d10 d20 d11 : K → K → K) (pf : K) (w : Img K) (κ : Option (Img K)) (b wb : Box)
    (img inp out : Img K) (cz cy cx z y x : Int) :
    qValue pf w κ b wb img = qValueCore pf w κ b wb img
    ∧ grad d10 pf w κ b wb img z y x = gradCore d10 pf w κ b wb img z y x
    ∧ hessRow d20 d11 pf w κ b wb img cz cy cx z y x = hessRowCore d20 d11 pf w κ b wb img cz cy cx z y x
    ∧ hessTimes d20 d11 pf w κ b wb img inp out z y x = out z y x + hessTimesCore d20 d11 pf w κ b wb img inp z y x :=
  ⟨qValue_eq_core _ _ _ _ _ _, grad_eq_core _ _ _ _ _ _ _ _ _ _, hessRow_eq_core _ _ _ _ _ _ _ _ _ _ _ _ _ _,
   hessTimes_eq_core _ _ _ _ _ _ _ _ _ _ _ _ _⟩

/-! ### "the gradient vanishes for uniform images" -/

theorem C09_grad_uniform_zero (d10 : K → K → K) (pf : K) (w : Img K) (κ : Option (Img K)) (b wb : Box) (c : K)
    (h : d10 c c = 0) (z y x : Int) : grad d10 pf w κ b wb (fun _ _ _ => c) z y x = 0 := by
  rw [grad_eq_core]; exact gradCore_uniform d10 pf w κ b wb c h z y x

theorem C09_quadratic_grad_uniform_zero (pf : K) (w : Img K) (κ : Option (Img K)) (b wb : Box) (c : K) (z y x : Int) :
    qGrad pf w κ b wb (fun _ _ _ => c) z y x = 0 :=
  C09_grad_uniform_zero qD10 pf w κ b wb c (by simp [qD10]) z y x

/-! ### "voxels at the image border interact only with neighbours inside the image" -/

/-- every offset visited by a clipped neighbourhood loop lies in the weights range and leads to an index inside the image -/
theorem C09_border_uses_only_inside_neighbours (wlo whi lo hi c d : Int)
    (h : d ∈ irange (max wlo (lo - c)) (min whi (hi - c))) : wlo ≤ d ∧ d ≤ whi ∧ lo ≤ c + d ∧ c + d ≤ hi :=
  clipped_in_image wlo whi lo hi c d h

/-- consequently value, gradient and Hessian-times-vector only depend on image values inside the image … -/
theorem C09_depends_only_on_inside_values (term : K → K → K → K) (d10 d20 d11 : K → K → K) (pf : K) (w : Img K) (κ : Option (Img K))
    (b wb : Box) (img img' inp inp' : Img K)
    (h : ∀ z y x, InBox b z y x → img z y x = img' z y x) (h' : ∀ z y x, InBox b z y x → inp z y x = inp' z y x)
    (z y x : Int) (hr : InBox b z y x) :
    valueSum term w κ b wb img = valueSum term w κ b wb img'
    ∧ gradCore d10 pf w κ b wb img z y x = gradCore d10 pf w κ b wb img' z y x
    ∧ hessTimesCore d20 d11 pf w κ b wb img inp z y x = hessTimesCore d20 d11 pf w κ b wb img' inp' z y x :=
  ⟨valueSum_congr term w κ b wb img img' h, gradCore_congr d10 pf w κ b wb img img' h z y x hr,
   hessTimesCore_congr d20 d11 pf w κ b wb img img' inp inp' h h' z y x hr⟩

/-- … and the gradient at voxel `r` is unchanged when the image changes at a voxel `s ≠ r` whose offset `s - r` is outside the weights box -/
theorem C09_gradient_local (d10 : K → K → K) (pf : K) (w : Img K) (κ : Option (Img K)) (b wb : Box) (img img' : Img K)
    (z y x sz sy sx : Int) (hs : ¬ InBox wb (sz - z) (sy - y) (sx - x)) (hne : ¬ (sz = z ∧ sy = y ∧ sx = x))
    (h : ∀ z' y' x', ¬ (z' = sz ∧ y' = sy ∧ x' = sx) → img z' y' x' = img' z' y' x') :
    gradCore d10 pf w κ b wb img z y x = gradCore d10 pf w κ b wb img' z y x :=
  gradCore_local d10 pf w κ b wb img img' z y x sz sy sx hs hne h

end structural2

/-! ### non-vacuity: the hypotheses are satisfiable by non-trivial instances -/

/-- 3×3×3 nearest-neighbour-and-diagonal weights with zero centre (the shape of the default weights) -/
def exW : Img ℚ := fun dz dy dx => if dz = 0 ∧ dy = 0 ∧ dx = 0 then 0 else 1
def exWB : Box := ⟨-1, 1, -1, 1, -1, 1⟩

example : SymWeights exWB exW ∧ exW 0 0 0 = 0 ∧ (∀ dz dy dx, InBox exWB dz dy dx → 0 ≤ exW dz dy dx) := by
  refine ⟨⟨by decide, fun dz dy dx _ => ?_⟩, by simp [exW], fun dz dy dx _ => ?_⟩
  · unfold exW
    have : (-dz = 0 ∧ -dy = 0 ∧ -dx = 0) ↔ (dz = 0 ∧ dy = 0 ∧ dx = 0) := by omega
    simp only [this]
  · unfold exW; split_ifs <;> norm_num

example : KappaNonneg (K := ℚ) ⟨0, 1, 0, 2, 0, 3⟩ (some fun _ _ x => if x = 0 then 1 / 2 else 2) := by
  intro k hk z y x _
  cases hk
  beta_reduce
  split_ifs <;> norm_num

example : InBox ⟨0, 1, 0, 2, 0, 3⟩ 1 2 3 ∧ ¬ InBox ⟨0, 1, 0, 2, 0, 3⟩ 2 0 0 := by decide

/-- the hypotheses of the RDP statements hold e.g. for γ = 2, ε = 1, x = 1, y = 2 -/
example : (1 : ℝ) ≠ 2 ∧ 0 < rdpDen 2 1 (1 : ℝ) 2 ∧ (0 < (1 : ℝ) ∨ 0 < (2 : ℝ) ∨ 0 < (1 : ℝ)) := by
  refine ⟨by norm_num, ?_, Or.inl one_pos⟩
  rw [rdpDen_eq]; norm_num [abs_of_neg]

example : (2 : ℝ) ≠ 0 ∧ |(2 : ℝ) * (3 - 1)| < 30 := by
  refine ⟨by norm_num, ?_⟩
  rw [abs_of_pos] <;> norm_num

/-! ### negative witnesses: what fails without the hypotheses (replayed on the implementation by the harness) -/

/-- 1×1×2 image -/
def nB : Box := ⟨0, 0, 0, 0, 0, 1⟩
/-- weights on the offsets x ∈ {-1, 0, 1} -/
def nWB : Box := ⟨0, 0, 0, 0, -1, 1⟩
/-- only the forward neighbour has a weight: asymmetric -/
def nWasym : Img ℚ := fun _ _ dx => if dx = 1 then 1 else 0
/-- symmetric, with a non-zero centre weight -/
def nWcentre : Img ℚ := fun _ _ dx => if dx = 0 then 2 else 1
def nLam : Img ℚ := fun _ _ x => if x = 0 then 3 else 1
def nE : Img ℚ := fun _ _ x => if x = 0 then 1 else 0

theorem irange_eval : irange 0 0 = [0] ∧ irange 0 1 = [0, 1] ∧ irange (-1) 0 = [-1, 0] ∧ irange (-1) 1 = [-1, 0, 1] := by decide

/-- with asymmetric user weights the gradient of `QuadraticPrior` is NOT the derivative of its value: the second-order expansion
    (exact for symmetric weights, `C09_quadratic_value_expansion_partial`) fails: 9/4 ≠ 1 + 2 + 1/2 -/
theorem C09_quadratic_expansion_asymmetric_weights_fails :
    ¬ (qValue 1 nWasym none nB nWB (fun z y x => nLam z y x + 1 * nE z y x)
        = qValue 1 nWasym none nB nWB nLam + 1 * inner nB (qGrad 1 nWasym none nB nWB nLam) nE
          + 1 ^ 2 / 2 * inner nB nE (qHessTimes 1 nWasym none nB nWB nLam nE fun _ _ _ => 0)) := by
  obtain ⟨r00, r01, rm10, rm11⟩ := irange_eval
  have v1 : qValue 1 nWasym none nB nWB (fun z y x => nLam z y x + 1 * nE z y x) = 9 / 4 := by
    simp [qValue, qValueCore, valueSum, voxSum, nbSum, sumRange, nB, nWB, r00, r01, rm10, qTerm, sq, four, kfac, nWasym, nLam, nE]
    norm_num
  have v0 : qValue 1 nWasym none nB nWB nLam = 1 := by
    simp [qValue, qValueCore, valueSum, voxSum, nbSum, sumRange, nB, nWB, r00, r01, rm10, qTerm, sq, four, kfac, nWasym, nLam]
    norm_num
  have g : inner nB (qGrad 1 nWasym none nB nWB nLam) nE = 2 := by
    simp [inner, qGrad, grad, gradCore, voxSum, nbSum, sumRange, nB, nWB, r00, r01, rm10, qD10, kfac, nWasym, nLam, nE]
    norm_num
  have hh : inner nB nE (qHessTimes 1 nWasym none nB nWB nLam nE fun _ _ _ => 0) = 1 := by
    simp [inner, qHessTimes, hessTimes, hessTimesCore, voxSum, nbSum, sumRange, nB, nWB, r00, r01, rm10, qD20, qD11, kfac, nWasym, nE]
  rw [v1, v0, g, hh]; norm_num

/-- … and the Hessian of `QuadraticPrior` is not symmetric for these weights: `⟨e0, H e1⟩ = -1 ≠ 0 = ⟨e1, H e0⟩` -/
theorem C09_quadratic_H_symmetric_asymmetric_weights_fails :
    ¬ (inner nB (unitImg 0 0 0) (qHessTimes 1 nWasym none nB nWB nLam (unitImg 0 0 1) fun _ _ _ => 0)
        = inner nB (unitImg 0 0 1) (qHessTimes 1 nWasym none nB nWB nLam (unitImg 0 0 0) fun _ _ _ => 0)) := by
  obtain ⟨r00, r01, rm10, rm11⟩ := irange_eval
  have a : inner nB (unitImg 0 0 0) (qHessTimes 1 nWasym none nB nWB nLam (unitImg 0 0 1) fun _ _ _ => 0) = -1 := by
    simp [inner, qHessTimes, hessTimes, hessTimesCore, voxSum, nbSum, sumRange, nB, nWB, r00, r01, rm10, qD20, qD11, kfac, nWasym, unitImg]
  have c : inner nB (unitImg 0 0 1) (qHessTimes 1 nWasym none nB nWB nLam (unitImg 0 0 0) fun _ _ _ => 0) = 0 := by
    simp [inner, qHessTimes, hessTimes, hessTimesCore, voxSum, nbSum, sumRange, nB, nWB, r00, r01, rm10, qD20, qD11, kfac, nWasym, unitImg]
  rw [a, c]; norm_num

/-- a non-zero centre weight is covered by the theorems (before repair C09-3 the Hessian functions added `w(0) κ_r²` to the diagonal
    and the expansion failed, 9/2 ≠ 2 + 2 + 3/2): `nWcentre` is symmetric with centre weight 2, and the expansion holds for it -/
theorem C09_nonzero_centre_weight_is_covered :
    SymWeights nWB nWcentre ∧ nWcentre 0 0 0 = 2
    ∧ qValue 1 nWcentre none nB nWB (fun z y x => nLam z y x + 1 * nE z y x)
        = qValue 1 nWcentre none nB nWB nLam + 1 * inner nB (qGrad 1 nWcentre none nB nWB nLam) nE
          + 1 ^ 2 / 2 * inner nB nE (qHessTimes 1 nWcentre none nB nWB nLam nE fun _ _ _ => 0) := by
  have hs : SymWeights nWB nWcentre := by
    refine ⟨by decide, fun dz dy dx _ => ?_⟩
    unfold nWcentre
    have : (-dx = 0) ↔ (dx = 0) := by omega
    simp only [this]
  exact ⟨hs, by simp [nWcentre], C09_quadratic_value_expansion_partial 1 nWcentre none nB nWB nLam nE 1 hs⟩

/-! ### the prior object: lazily computed default weights, `set_up`, `weights :=`

"… for every image size, voxel spacing, neighbourhood weights …": the weights an OBJECT uses are not an argument of the API functions but
a member that the first call fills in (`NbPrior.afterCall`, the block `if (weights.get_length() == 0) compute_weights(…)` that occurs in
each of `compute_value`, `compute_gradient`, `compute_Hessian`, `parabolic_surrogate_curvature`,
`add_multiplication_with_approximate_Hessian`, `accumulate_Hessian_times_input` of the three classes). -/

/-- the default weights (`compute_weights`) are symmetric with a symmetric index range, for every grid spacing and `only_2D`, and
    non-negative for a non-negative x-voxel size: the hypotheses `SymWeights` / `0 ≤ w` of the theorems above hold for them -/
theorem C09_default_weights_symmetric (only2D : Bool) (sz sy sx : ℝ) :
    SymWeights (defaultWeightsBox only2D) (defaultWeights (fun n : Int => (n : ℝ)) sz sy sx)
    ∧ (0 ≤ sx → ∀ dz dy dx, 0 ≤ defaultWeights (fun n : Int => (n : ℝ)) sz sy sx dz dy dx) :=
  ⟨defaultWeights_symmetric only2D sz sy sx, fun hx dz dy dx => defaultWeights_nonneg sz sy sx hx dz dy dx⟩

/-- the weights are computed ONCE: after a call of any API function (with an image of grid spacing `s1`) a second call of any API
    function with an image of any grid spacing `s2` leaves the object as it is -/
theorem C09_weights_computed_once {K : Type} [Zero K] [BEq K] (dflt : K → K → K → Img K) (o : NbPrior K)
    (s1z s1y s1x s2z s2y s2x : K) :
    (o.afterCall dflt s1z s1y s1x).afterCall dflt s2z s2y s2x = o.afterCall dflt s1z s1y s1x :=
  afterCall_afterCall dflt o s1z s1y s1x s2z s2y s2x

/-- an object made by a constructor (no user weights) holds, after ANY history of calls with images of any grid spacings (x-voxel
    size ≥ 0) and `set_up`s in between, either no weights yet or symmetric, non-negative weights with a symmetric index range: the
    `…_partial` theorems apply to the loops run on its members in every reachable state -/
theorem C09_object_history_keeps_symmetric_weights (kind : Nat) (only2DArg : Bool) (pf γ ε s : ℝ) (l : List (ℝ × ℝ × ℝ))
    (hl : ∀ sp ∈ l, 0 ≤ sp.2.2) :
    let o := l.foldl (fun o sp => (o.afterCall (defaultWeights fun n : Int => (n : ℝ)) sp.1 sp.2.1 sp.2.2).setUp)
      (NbPrior.ctor kind only2DArg pf γ ε s)
    weightsEmpty o.wb = true ∨ (SymWeights o.wb o.w ∧ ∀ dz dy dx, InBox o.wb dz dy dx → 0 ≤ o.w dz dy dx) :=
  history_invariant l hl _ (Or.inl (by simp only [NbPrior.ctor]; decide))

/-- "every voxel spacing" (after repair C09-4; before it the first value was 2, the weight of the y-neighbour still being 1):
    `QuadraticPrior(false, 1)` used once with an image of voxel size (1,1,1), set up again and asked for the value of the 1×2×1 image
    `(3, 1)` of voxel size (z,y,x) = (1,2,1) answers 1 as a fresh object does (weight x-size / distance = 1/2).  Replayed on the
    implementation by the harness. -/
theorem C09_default_weights_recomputed_after_set_up :
    (((NbPrior.ctor 0 false (1 : ℝ) 0 0 0).call sDflt 1 1 1 (fun _ => ())).1.setUp.call sDflt 1 2 1
        (fun o => qValue o.pf o.w o.kappa sB o.wb sLam)).2 = 1
    ∧ ((NbPrior.ctor 0 false (1 : ℝ) 0 0 0).call sDflt 1 2 1 (fun o => qValue o.pf o.w o.kappa sB o.wb sLam)).2 = 1 :=
  stale_witness

/-- `post_processing`: `size` weights along a dimension get the indices `-h .. h` for `size = 2h+1` and `-h .. h-1` for `size = 2h`
    ("the middle element gets index 0"; even: "I'll (effectively) make this odd by appending a 0 at the end") -/
theorem C09_parsed_weights_index_range (h : Nat) :
    parsedRange (2 * h + 1) = (-(h : Int), (h : Int)) ∧ parsedRange (2 * h) = (-(h : Int), (h : Int) - 1) :=
  ⟨parsedRange_odd h, parsedRange_even h⟩

section padding
variable {K : Type} [Field K] [DecidableEq K]

/-- "… make this odd by appending a 0 at the end": value, gradient and Hessian-times-vector computed with the index range that
    `post_processing` gives to `nz × ny × nx` weights are those computed with the symmetric range `-(n/2) .. n/2` and weights that
    vanish on the added offsets (for every potential with `term 0 a c = 0`, i.e. all three priors) -/
theorem C09_even_weights_are_zero_padded (term : K → K → K → K) (d10 d20 d11 : K → K → K) (pf : K) (w : Img K) (κ : Option (Img K))
    (b : Box) (nz ny nx : Nat) (img inp : Img K) (hterm : ∀ a c, term 0 a c = 0)
    (h0 : ∀ dz dy dx, InBox (paddedBox nz ny nx) dz dy dx → ¬ InBox (parsedBox nz ny nx) dz dy dx → w dz dy dx = 0) (z y x : Int) :
    SymBox (paddedBox nz ny nx)
    ∧ valueSum term w κ b (parsedBox nz ny nx) img = valueSum term w κ b (paddedBox nz ny nx) img
    ∧ gradCore d10 pf w κ b (parsedBox nz ny nx) img z y x = gradCore d10 pf w κ b (paddedBox nz ny nx) img z y x
    ∧ hessTimesCore d20 d11 pf w κ b (parsedBox nz ny nx) img inp z y x
        = hessTimesCore d20 d11 pf w κ b (paddedBox nz ny nx) img inp z y x :=
  ⟨paddedBox_sym nz ny nx,
   valueSum_zero_extend term w κ b _ _ img hterm (parsedBox_sub_paddedBox nz ny nx) h0,
   gradCore_zero_extend d10 pf w κ b _ _ img (parsedBox_sub_paddedBox nz ny nx) h0 z y x,
   hessTimesCore_zero_extend d20 d11 pf w κ b _ _ img inp (parsedBox_sub_paddedBox nz ny nx) h0 z y x⟩

end padding

/-- non-vacuity: `{{{1, 2}}}` (1×1×2 weights) gets the x-range `-1 .. 0`, the padded range is `-1 .. 1`, and the offset `+1` is the one
    that is added -/
example : parsedBox 1 1 2 = ⟨0, 0, 0, 0, -1, 0⟩ ∧ paddedBox 1 1 2 = ⟨0, 0, 0, 0, -1, 1⟩
    ∧ InBox (paddedBox 1 1 2) 0 0 1 ∧ ¬ InBox (parsedBox 1 1 2) 0 0 1 := by decide

/-- non-vacuity: the potentials of the three priors vanish for a zero weight -/
example : (∀ a c : ℚ, qTerm 0 a c = 0) ∧ (∀ γ ε a c : ℝ, rdpTerm γ ε 0 a c = 0) ∧ (∀ s a c : ℝ, lcTerm s 0 a c = 0) := by
  refine ⟨fun a c => by simp [qTerm], fun γ ε a c => by unfold rdpTerm; split_ifs <;> simp, fun s a c => by simp [lcTerm]⟩

/-- non-vacuity of `C09_object_history_keeps_symmetric_weights`: a history of two images with different voxel sizes -/
example : ∀ sp ∈ [((1 : ℝ), (1 : ℝ), (1 : ℝ)), (2, 3 / 2, 5 / 4)], (0 : ℝ) ≤ sp.2.2 := by
  intro sp h
  simp only [List.mem_cons, List.mem_nil_iff, or_false] at h
  rcases h with rfl | rfl <;> norm_num

/-! ### the RDP derivative statements at equal neighbouring values (formerly stated but not proved) -/

/-- the RDP derivative statements at points with `x = y` (uniform regions of the image): `|t - x|` is not differentiable at `t = x`, so
    the quotient-rule proofs for `x ≠ y` do not apply, but `2ψ(t,x) = (t-x)·((t-x)/D(t))` and `derivative_10(t,x) = (t-x)·(N(t)/D(t)²)`
    with `D`, `N` continuous at `x`, hence both are differentiable at `t = x`: `derivative_10(x,x) = 0` is the derivative of (twice) the value
    term and `derivative_20(x,x) = 2/(2x+ε)` is the derivative of `derivative_10(·,x)`, for every `γ` (any sign) wherever the
    denominator `2x + ε` is positive.  Full strength: exactly the hypotheses of the clause as it was stated before it was proved
    (the second one, the guard of `derivative_20`, is in fact implied by the first). -/
theorem C09_rdp_derivatives_at_equal_values (γ ε x : ℝ) (h : 0 < rdpDen γ ε x x) (hx : 0 < x ∨ 0 < ε) :
    HasDerivAt (fun t => two * rdpPsi γ ε t x) (rdpD10 γ ε x x) x ∧ HasDerivAt (fun t => rdpD10 γ ε t x) (rdpD20 γ ε x x) x :=
  rdp_derivatives_on_diagonal γ ε x h hx

/-- non-vacuity: `γ = 2`, `ε = 0`, `x = y = 1` meets the hypotheses (denominator `2`), and the second derivative there is
    `derivative_20(1,1) = 1 ≠ 0`; so does `x = y = 0` with `ε = 1/2` (an empty region of the image) -/
example : 0 < rdpDen (2 : ℝ) 0 1 1 ∧ ((0 : ℝ) < 1 ∨ (0 : ℝ) < 0) ∧ rdpD20 (2 : ℝ) 0 1 1 = 1
    ∧ 0 < rdpDen (2 : ℝ) (1 / 2) 0 0 ∧ ((0 : ℝ) < 0 ∨ (0 : ℝ) < 1 / 2) := by
  refine ⟨?_, Or.inl one_pos, ?_, ?_, Or.inr (by norm_num)⟩
  · rw [rdpDen_eq]; norm_num
  · rw [rdpD20_eq _ _ _ _ (Or.inl one_pos), rdpDen_eq]; norm_num
  · rw [rdpDen_eq]; norm_num

/-! ### PLSPrior (the code after the repairs C09-1, C09-2) -/

/-- **PLS: the gradient is the derivative of the value** with respect to EVERY single voxel `(z,y,x)` of the image (border voxels
    included), for every kappa image, `only_2D` or not, any anatomical image (prepared as `set_up` does) and `alpha ≠ 0`:
    the partial derivative at `t = 0` of `compute_value(λ + t·unit)` is the entry of `compute_gradient(λ)`.
    (Partial derivatives only: the statement along arbitrary directions follows as the value is differentiable, not proved here.) -/
theorem C09_pls_gradient_is_derivative_of_value (only2D : Bool) (α η pf : ℝ) (b : Box) (κ : Option (Img ℝ)) (anat lam : Img ℝ)
    (z y x : Int) (hα : α ≠ 0) (hr : InBox b z y x) :
    HasDerivAt (fun t => plsValue only2D α pf (plsSetUp only2D η b anat) κ b
        (fun z' y' x' => lam z' y' x' + if z' = z ∧ y' = y ∧ x' = x then t else 0))
      (plsGrad only2D α pf (plsSetUp only2D η b anat) κ b lam z y x) 0 :=
  pls_gradient_is_derivative_of_value only2D α η pf b κ anat lam z y x hα hr

/-- PLS: value and gradient scale linearly with the penalisation factor -/
theorem C09_pls_linear_in_penalisation_factor (only2D : Bool) (α c pf : ℝ) (A : PlsAnat ℝ) (κ : Option (Img ℝ)) (b : Box)
    (img : Img ℝ) (z y x : Int) :
    plsValue only2D α (c * pf) A κ b img = c * plsValue only2D α pf A κ b img
    ∧ plsGrad only2D α (c * pf) A κ b img z y x = c * plsGrad only2D α pf A κ b img z y x :=
  pls_scale only2D α c pf A κ b img z y x

/-- PLS: the gradient vanishes for uniform images -/
theorem C09_pls_grad_uniform_zero (only2D : Bool) (α pf c : ℝ) (A : PlsAnat ℝ) (κ : Option (Img ℝ)) (b : Box) (z y x : Int) :
    plsGrad only2D α pf A κ b (fun _ _ _ => c) z y x = 0 :=
  pls_grad_uniform only2D α pf c A κ b z y x

/-- PLS: border voxels use only neighbours inside the image — the forward difference towards a voxel outside the image is 0 -/
theorem C09_pls_border_difference_zero (b : Box) (img : Img ℝ) (z y x : Int) :
    (z + 1 > b.z1 → plsGradElem b 0 img z y x = 0) ∧ (y + 1 > b.y1 → plsGradElem b 1 img z y x = 0)
    ∧ (x + 1 > b.x1 → plsGradElem b 2 img z y x = 0) :=
  ⟨plsGradElem_last_z b img z y x, plsGradElem_last_y b img z y x, plsGradElem_last_x b img z y x⟩

/-- the hypotheses of the PLS theorem are satisfiable: a corner voxel of a 2×3×4 image, `alpha = 1` -/
example : (1 : ℝ) ≠ 0 ∧ InBox ⟨0, 1, 0, 2, 0, 3⟩ 0 0 0 ∧ InBox ⟨0, 1, 0, 2, 0, 3⟩ 1 2 3 := by
  refine ⟨one_ne_zero, by decide, by decide⟩

end StirVerif.C09
