import StirVerif.C09.Model
namespace StirVerif.C09
end StirVerif.C09
