/-
C10 — proofs, part: exam information written to and reconstructed from the header.
-/
import StirVerif.C10.Model
import Mathlib.Tactic.Ring
import Mathlib.Tactic.Linarith
import Mathlib.Tactic.NormNum

namespace StirVerif.C10

/-- what the reader reports for an `Exam` all of whose stored fields survive: unset values come back as the
    reader's defaults (-1, "Unknown", one empty time frame) -/
def Exam.normalised (e : Exam) : Exam :=
  { e with
    calibration := if e.calibration > 0 then e.calibration else -1
    lowThres := if e.highThres > 0 ∧ e.lowThres ≥ 0 then e.lowThres else -1
    highThres := if e.highThres > 0 ∧ e.lowThres ≥ 0 then e.highThres else -1
    frames := if e.frames = [] then [(0, 0)] else e.frames
    rnName := if e.rnName = "" ∨ e.rnName = "Unknown" then "Unknown" else e.rnName
    rnHalfLife := if e.rnHalfLife > 0 then e.rnHalfLife else -1
    rnBranching := if e.rnBranching > 0 then e.rnBranching else -1 }

/-- hypotheses under which the Interfile image header stores the exam information faithfully -/
structure Exam.Storable (e : Exam) : Prop where
  orientation : e.orientation ≤ 3
  rotation : e.rotation ≤ 5
  durations : ∀ p ∈ e.frames, p.2 - p.1 > 0                -- frames of duration ≤ 0 are not written

theorem enumFrom1_snd_mem {α : Type} (l : List α) (i : Nat) : ∀ p ∈ enumFrom1 i l, p.2 ∈ l := by
  induction l generalizing i with
  | nil => intro p hp; cases hp
  | cons a r ih =>
    intro p hp
    simp only [enumFrom1, List.mem_cons] at hp
    rcases hp with rfl | hp
    · exact List.mem_cons_self
    · exact List.mem_cons_of_mem _ (ih (i + 1) p hp)

theorem enumFrom1_length {α : Type} (l : List α) (i : Nat) : (enumFrom1 i l).length = l.length := by
  induction l generalizing i with
  | nil => rfl
  | cons a r ih => simp [enumFrom1, ih]

def hdrFrames (i : Nat) (l : List (Rat × Rat)) : List (Nat × Rat × Rat) :=
  (enumFrom1 i l).map fun p => (p.1, p.2.2 - p.2.1, p.2.1)

theorem lookup_hdrFrames (l : List (Rat × Rat)) (i k : Nat) (hk : k < l.length) :
    lookupFrame (hdrFrames i l) (i + k) = l[k] := by
  induction l generalizing i k with
  | nil => simp at hk
  | cons a r ih =>
    cases k with
    | zero =>
      simp [lookupFrame, hdrFrames, enumFrom1]
    | succ k' =>
      have hk' : k' < r.length := by simpa using hk
      have := ih (i + 1) k' hk'
      simp only [lookupFrame, hdrFrames, enumFrom1, List.map_cons, List.find?_cons] at this ⊢
      have hne : ¬ (i = i + (k' + 1)) := by omega
      simp only [hne, decide_false]
      have he : i + (k' + 1) = i + 1 + k' := by omega
      rw [he]
      simpa using this

theorem frames_roundtrip (l : List (Rat × Rat)) (hd : ∀ p ∈ l, p.2 - p.1 > 0) :
    (List.range l.length).map (fun k => lookupFrame
        (((enumFrom1 1 l).filter fun p => p.2.2 - p.2.1 > 0).map fun p => (p.1, p.2.2 - p.2.1, p.2.1)) (k + 1)) = l := by
  have hfilter : ((enumFrom1 1 l).filter fun p => decide (p.2.2 - p.2.1 > 0)) = enumFrom1 1 l := by
    rw [List.filter_eq_self]
    intro p hp
    simpa using hd p.2 (enumFrom1_snd_mem l 1 p hp)
  rw [hfilter]
  apply List.ext_getElem
  · simp
  · intro k h1 h2
    simp only [List.getElem_map, List.getElem_range]
    have := lookup_hdrFrames l 1 k h2
    rw [Nat.add_comm 1 k] at this
    exact this

theorem exam_roundtrip (e : Exam) (h : e.Storable) : readExam (writeExam e) none = e.normalised := by
  have ho := h.orientation
  have hr := h.rotation
  have hfr := frames_roundtrip e.frames h.durations
  -- field by field
  have hmod : (readExam (writeExam e) none).modality = e.modality := by
    simp only [readExam, writeExam]
    by_cases hm : e.modality = 0 <;> simp [hm]
  have hori : (readExam (writeExam e) none).orientation = e.orientation := by
    simp only [readExam, writeExam]
    by_cases h3 : e.orientation < 3
    · simp [h3]
    · simp [h3]; omega
  have hrot : (readExam (writeExam e) none).rotation = e.rotation := by
    simp only [readExam, writeExam]
    by_cases h5 : e.rotation < 5
    · simp [h5]
    · simp [h5]; omega
  have hcal : (readExam (writeExam e) none).calibration = if e.calibration > 0 then e.calibration else -1 := by
    simp only [readExam, writeExam]
    by_cases hc : e.calibration > 0 <;> simp [hc]
  have hwin : (readExam (writeExam e) none).lowThres = (if e.highThres > 0 ∧ e.lowThres ≥ 0 then e.lowThres else -1) ∧
      (readExam (writeExam e) none).highThres = (if e.highThres > 0 ∧ e.lowThres ≥ 0 then e.highThres else -1) := by
    simp only [readExam, writeExam]
    by_cases hh : e.highThres > 0
    · by_cases hl : e.lowThres ≥ 0
      · simp [hh, hl]
      · simp [hh, hl]
    · simp [hh]
  have hframes : (readExam (writeExam e) none).frames = if e.frames = [] then [(0, 0)] else e.frames := by
    simp only [readExam, writeExam]
    by_cases hne : e.frames = []
    · simp [hne, enumFrom1, lookupFrame]
    · have hlen : e.frames.length > 0 := List.length_pos_iff.mpr hne
      simp only [hne, if_false, hlen, if_true]
      exact hfr
  have hname : (readExam (writeExam e) none).rnName = if e.rnName = "" ∨ e.rnName = "Unknown" then "Unknown" else e.rnName := by
    simp only [readExam, writeExam]
    by_cases h1 : e.rnName = ""
    · simp [h1]
    · by_cases h2 : e.rnName = "Unknown"
      · simp [h2]
      · simp [h1, h2]
  have hhl : (readExam (writeExam e) none).rnHalfLife = if e.rnHalfLife > 0 then e.rnHalfLife else -1 := by
    simp only [readExam, writeExam]
    by_cases hc : e.rnHalfLife > 0 <;> simp [hc]
  have hbr : (readExam (writeExam e) none).rnBranching = if e.rnBranching > 0 then e.rnBranching else -1 := by
    simp only [readExam, writeExam]
    by_cases hc : e.rnBranching > 0 <;> simp [hc]
  cases hx : readExam (writeExam e) none with
  | mk m o r c lo hi fr n hl br =>
    rw [hx] at hmod hori hrot hcal hwin hframes hname hhl hbr
    simp only at hmod hori hrot hcal hwin hframes hname hhl hbr
    simp only [Exam.normalised]
    rw [hmod, hori, hrot, hcal, hwin.1, hwin.2, hframes, hname, hhl, hbr]

/-- every patient rotation, including `right` (2) and `left` (3), is read back unchanged (repo commit 697526ee8) -/
theorem rotation_survives (e : Exam) (h : e.rotation ≤ 5) (db : Option (Rat × Rat)) :
    (readExam (writeExam e) db).rotation = e.rotation := by
  simp only [readExam, writeExam]
  by_cases h5 : e.rotation < 5
  · simp [h5]
  · simp [h5]; omega

/-- an energy window with lower threshold 0 is written and read back (repo commit ccc9f5cdc) -/
theorem window_zero_survives (e : Exam) (hh : e.highThres > 0) (hl : e.lowThres = 0) (db : Option (Rat × Rat)) :
    (writeExam e).window = some (0, e.highThres) ∧
      (readExam (writeExam e) db).lowThres = 0 ∧ (readExam (writeExam e) db).highThres = e.highThres := by
  simp only [readExam, writeExam]
  simp [hh, hl]

/-- a time frame of duration ≤ 0 is not written; the reader reports it as the default frame (0, 0) -/
theorem zero_duration_frame_lost (e : Exam) (t : Rat) (hf : e.frames = [(t, t)]) (db : Option (Rat × Rat)) :
    (readExam (writeExam e) db).frames = [(0, 0)] := by
  simp only [readExam, writeExam, hf]
  simp [enumFrom1, lookupFrame, List.range_succ]

/-! ### regression witnesses: the code before commits 697526ee8 / ccc9f5cdc -/

/-- old `write_interfile_patient_position`: `right`, `left` and `other` were all written as `other` -/
def writeRotationOld (r : Nat) : Option Nat :=
  if r = 0 then some 0 else if r = 1 then some 1 else if r = 2 ∨ r = 3 ∨ r = 4 then some 4 else none

/-- old `InterfileHeader::post_processing`: the window was accepted only when both thresholds were > 0 -/
def windowAcceptedOld (lo hi : Rat) : Bool := decide (hi > 0 ∧ lo > 0)

theorem old_rotation_lost : writeRotationOld 2 = some 4 ∧ writeRotationOld 3 = some 4 := by
  simp [writeRotationOld]

theorem old_window_zero_lost (hi : Rat) : windowAcceptedOld 0 hi = false := by
  simp [windowAcceptedOld]

end StirVerif.C10
