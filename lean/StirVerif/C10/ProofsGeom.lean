/-
C10 — proofs, geometry part: header arithmetic of the writer and the reader.
-/
import StirVerif.C10.Model
import Mathlib.Tactic.Ring
import Mathlib.Tactic.Linarith
import Mathlib.Tactic.Push
import Mathlib.Algebra.Order.AbsoluteValue.Basic
import Mathlib.Algebra.Order.Ring.Abs

namespace StirVerif.C10

/-- one axis: position of voxel `m' + k` of the image read back (index range starting at `m'`, origin recomputed as
    `f fpo - f v * m'`) in terms of the header numbers only -/
theorem axis_read (pv pf : Rat) (m' k : Int) :
    physPos1 pv (pf - pv * m') (m' + k) = pf + pv * k := by
  unfold physPos1
  push_cast
  ring

theorem axis_orig (v o : Rat) (mn k : Int) :
    physPos1 v o (mn + k) = firstPixelOffset v mn o + v * k := by
  unfold physPos1 firstPixelOffset
  push_cast
  ring

theorem axis_err (f : Rat → Rat) (v o : Rat) (mn m' k : Int) :
    |physPos1 (f v) (f (firstPixelOffset v mn o) - f v * m') (m' + k) - physPos1 v o (mn + k)|
      ≤ |f (firstPixelOffset v mn o) - firstPixelOffset v mn o| + |(k : Rat)| * |f v - v| := by
  rw [axis_read, axis_orig]
  have : f (firstPixelOffset v mn o) + f v * k - (firstPixelOffset v mn o + v * k)
       = (f (firstPixelOffset v mn o) - firstPixelOffset v mn o) + k * (f v - v) := by ring
  rw [this]
  calc |f (firstPixelOffset v mn o) - firstPixelOffset v mn o + k * (f v - v)|
      ≤ |f (firstPixelOffset v mn o) - firstPixelOffset v mn o| + |(k : Rat) * (f v - v)| := abs_add_le _ _
    _ = _ := by rw [abs_mul]

theorem axis_err_rel (f : Rat → Rat) (ε : Rat) (hf : ∀ x, |f x - x| ≤ ε * |x|) (v o : Rat) (mn m' k : Int) :
    |physPos1 (f v) (f (firstPixelOffset v mn o) - f v * m') (m' + k) - physPos1 v o (mn + k)|
      ≤ ε * (|firstPixelOffset v mn o| + |(k : Rat)| * |v|) := by
  refine le_trans (axis_err f v o mn m' k) ?_
  have h1 := hf (firstPixelOffset v mn o)
  have h2 := hf v
  have hk : 0 ≤ |(k : Rat)| := abs_nonneg _
  have h3 : |(k : Rat)| * |f v - v| ≤ |(k : Rat)| * (ε * |v|) := mul_le_mul_of_nonneg_left h2 hk
  calc |f (firstPixelOffset v mn o) - firstPixelOffset v mn o| + |(k : Rat)| * |f v - v|
      ≤ ε * |firstPixelOffset v mn o| + |(k : Rat)| * (ε * |v|) := add_le_add h1 h3
    _ = ε * (|firstPixelOffset v mn o| + |(k : Rat)| * |v|) := by ring

theorem position_preserved_exact (g : Geom) (k : V3 Int) :
    posOfOffset (readGeom (writeHeader id g)) k = posOfOffset g k := by
  simp only [posOfOffset, physPos, readGeom, geomWithMin, writeHeader, V3.map, id]
  simp only [axis_read]
  simp only [axis_orig]

theorem position_preserved_fmt (fmt : Rat → Rat) (g : Geom) (k : V3 Int) :
    |(posOfOffset (readGeom (writeHeader fmt g)) k).z - (posOfOffset g k).z|
        ≤ |fmt (firstPixelOffset g.voxel.z g.minI.z g.origin.z) - firstPixelOffset g.voxel.z g.minI.z g.origin.z|
          + |(k.z : Rat)| * |fmt g.voxel.z - g.voxel.z| ∧
    |(posOfOffset (readGeom (writeHeader fmt g)) k).y - (posOfOffset g k).y|
        ≤ |fmt (firstPixelOffset g.voxel.y g.minI.y g.origin.y) - firstPixelOffset g.voxel.y g.minI.y g.origin.y|
          + |(k.y : Rat)| * |fmt g.voxel.y - g.voxel.y| ∧
    |(posOfOffset (readGeom (writeHeader fmt g)) k).x - (posOfOffset g k).x|
        ≤ |fmt (firstPixelOffset g.voxel.x g.minI.x g.origin.x) - firstPixelOffset g.voxel.x g.minI.x g.origin.x|
          + |(k.x : Rat)| * |fmt g.voxel.x - g.voxel.x| := by
  simp only [posOfOffset, physPos, readGeom, geomWithMin, writeHeader, V3.map]
  exact ⟨axis_err fmt _ _ _ _ _, axis_err fmt _ _ _ _ _, axis_err fmt _ _ _ _ _⟩

theorem position_preserved_rel (fmt : Rat → Rat) (ε : Rat) (hf : ∀ x, |fmt x - x| ≤ ε * |x|) (g : Geom) (k : V3 Int) :
    |(posOfOffset (readGeom (writeHeader fmt g)) k).z - (posOfOffset g k).z|
        ≤ ε * (|firstPixelOffset g.voxel.z g.minI.z g.origin.z| + |(k.z : Rat)| * |g.voxel.z|) ∧
    |(posOfOffset (readGeom (writeHeader fmt g)) k).y - (posOfOffset g k).y|
        ≤ ε * (|firstPixelOffset g.voxel.y g.minI.y g.origin.y| + |(k.y : Rat)| * |g.voxel.y|) ∧
    |(posOfOffset (readGeom (writeHeader fmt g)) k).x - (posOfOffset g k).x|
        ≤ ε * (|firstPixelOffset g.voxel.x g.minI.x g.origin.x| + |(k.x : Rat)| * |g.voxel.x|) := by
  simp only [posOfOffset, physPos, readGeom, geomWithMin, writeHeader, V3.map]
  exact ⟨axis_err_rel fmt ε hf _ _ _ _ _, axis_err_rel fmt ε hf _ _ _ _ _, axis_err_rel fmt ε hf _ _ _ _ _⟩

theorem renormalise_invariant (h : Header) (f : V3 Rat) (hf : h.fpo = some f) (m k : V3 Int) :
    posOfOffset (geomWithMin h m) k = ⟨f.z + h.pixel.z * k.z, f.y + h.pixel.y * k.y, f.x + h.pixel.x * k.x⟩ := by
  simp only [posOfOffset, physPos, geomWithMin, hf, axis_read]

theorem renormalise_invariant_nofpo (h : Header) (hf : h.fpo = none) (k : V3 Int) :
    posOfOffset (readGeom h) k = ⟨h.pixel.z * k.z, h.pixel.y * ((-h.size.y).tdiv 2 + k.y : Int), h.pixel.x * ((-h.size.x).tdiv 2 + k.x : Int)⟩ := by
  simp only [posOfOffset, physPos, readGeom, geomWithMin, hf, readMin, physPos1]
  congr 1 <;> simp

theorem read_range_size (h : Header) :
    V3.zip dimension (readGeom h).minI (readGeom h).maxI = h.size := by
  simp only [readGeom, geomWithMin, V3.zip, dimension]
  cases h with
  | mk size pixel fpo =>
    cases size with
    | mk z y x => simp; refine ⟨?_, ?_, ?_⟩ <;> omega

theorem write_size (fmt : Rat → Rat) (g : Geom) :
    (writeHeader fmt g).size = ⟨g.maxI.z - g.minI.z + 1, g.maxI.y - g.minI.y + 1, g.maxI.x - g.minI.x + 1⟩ := by
  simp [writeHeader, V3.zip, dimension]

theorem readMin_centred (size : V3 Int) (hy : 0 ≤ size.y) (hx : 0 ≤ size.x) :
    readMin size = ⟨0, -(size.y / 2), -(size.x / 2)⟩ := by
  unfold readMin
  have h : ∀ n : Int, 0 ≤ n → (-n).tdiv 2 = -(n / 2) := by
    intro n hn
    rw [Int.neg_tdiv, Int.tdiv_eq_ediv_of_nonneg hn]
  rw [h _ hy, h _ hx]

end StirVerif.C10
