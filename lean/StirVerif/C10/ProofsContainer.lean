/-
C10 — proofs, part: files with several data sets (dynamic / parametric images, Interfile and Multi), and the exam
information of the members of such images and of single images.
-/
import StirVerif.C10.ProofsExam

namespace StirVerif.C10

/-! ### data-file length, several data sets -/

theorem readAll_error_of_mem (sizeAll bytes fileLen : Nat) (offs : List Nat) (o : Nat) (ho : o ∈ offs)
    (h : fileLen < o + sizeAll * bytes) : readAll sizeAll bytes fileLen offs = .error () := by
  induction offs with
  | nil => cases ho
  | cons a r ih =>
    by_cases ha : fileLen < a + sizeAll * bytes
    · simp [readAll, readDataset, ha]
    · simp only [readAll, readDataset, ha, if_false]
      rcases List.mem_cons.mp ho with rfl | hr
      · exact absurd h ha
      · exact ih hr

theorem readAll_ok_of_forall (sizeAll bytes fileLen : Nat) (offs : List Nat)
    (h : ∀ o ∈ offs, o + sizeAll * bytes ≤ fileLen) : readAll sizeAll bytes fileLen offs = .ok () := by
  induction offs with
  | nil => rfl
  | cons a r ih =>
    have ha : ¬ fileLen < a + sizeAll * bytes := Nat.not_lt.mpr (h a List.mem_cons_self)
    simp only [readAll, readDataset, ha, if_false]
    exact ih fun o ho => h o (List.mem_cons_of_mem _ ho)

theorem mem_datasetOffsets (nsets sizeAll bytes i : Nat) (hi : i < nsets) :
    i * (sizeAll * bytes) ∈ datasetOffsets nsets sizeAll bytes := by
  simp only [datasetOffsets, List.mem_map, List.mem_range]
  exact ⟨i, hi, rfl⟩

theorem datasetOffsets_le (nsets sizeAll bytes o : Nat) (ho : o ∈ datasetOffsets nsets sizeAll bytes) :
    o + sizeAll * bytes ≤ nsets * (sizeAll * bytes) := by
  simp only [datasetOffsets, List.mem_map, List.mem_range] at ho
  obtain ⟨i, hi, rfl⟩ := ho
  calc i * (sizeAll * bytes) + sizeAll * bytes = (i + 1) * (sizeAll * bytes) := by rw [Nat.succ_mul]
    _ ≤ nsets * (sizeAll * bytes) := Nat.mul_le_mul_right _ hi

/-! #### the offsets `read_interfile_dynamic_image` uses (frames without a parsed offset follow the previous one) -/

theorem followAux_eq (fb : Nat) : ∀ (l : List Nat) (k : Nat),
    (∀ i (h : i < l.length), l[i] = 0 ∨ l[i] = (k + 1 + i) * fb) →
    followAux fb (k * fb) l = (List.range' (k + 1) l.length).map (· * fb) := by
  intro l
  induction l with
  | nil => intro k _; rfl
  | cons o r ih =>
    intro k h
    have ho : (if o = 0 then k * fb + fb else o) = (k + 1) * fb := by
      have h0 := h 0 (by simp)
      simp only [List.getElem_cons_zero, Nat.add_zero] at h0
      by_cases hz : o = 0
      · simp [hz, Nat.succ_mul]
      · rcases h0 with h0 | h0
        · exact absurd h0 hz
        · rw [if_neg hz, h0]
    have hr : ∀ i (hi : i < r.length), r[i] = 0 ∨ r[i] = (k + 1 + 1 + i) * fb := by
      intro i hi
      have := h (i + 1) (by simpa using hi)
      simp only [List.getElem_cons_succ] at this
      rcases this with h1 | h1
      · exact Or.inl h1
      · right; rw [h1]; congr 1; omega
    simp only [followAux, ho, List.length_cons, List.range'_succ, List.map_cons]
    rw [ih (k + 1) hr]

/-- a list of `n` parsed offsets whose `i`-th entry is either missing (0) or the running sum `i·frameBytes` is
    completed to the running sums -/
theorem dynamicOffsets_eq (fb : Nat) (l : List Nat)
    (h : ∀ i (hi : i < l.length), l[i] = 0 ∨ l[i] = i * fb) :
    dynamicOffsets fb l = (List.range l.length).map (· * fb) := by
  cases l with
  | nil => rfl
  | cons o r =>
    have h0 : o = 0 := by
      have := h 0 (by simp)
      simpa using this
    subst h0
    have hr : ∀ i (hi : i < r.length), r[i] = 0 ∨ r[i] = (0 + 1 + i) * fb := by
      intro i hi
      have := h (i + 1) (by simpa using hi)
      simp only [List.getElem_cons_succ] at this
      rcases this with h1 | h1
      · exact Or.inl h1
      · right; rw [h1]; congr 1; omega
    have := followAux_eq fb r 0 hr
    simp only [Nat.zero_mul] at this
    simp only [dynamicOffsets, this, List.length_cons, List.range_eq_range', List.range'_succ, List.map_cons, Nat.zero_mul,
      Nat.zero_add]

/-- the dynamic reader seeks to the announced offsets, whether or not the offset keys were parsed (NM) -/
theorem usedOffsets_dynamic (nm : Bool) (nsets sizeAll bytes : Nat) :
    usedOffsets true nm (datasetOffsets nsets sizeAll bytes) sizeAll bytes = datasetOffsets nsets sizeAll bytes := by
  simp only [usedOffsets, if_true]
  have hlen : (parsedOffsets nm (datasetOffsets nsets sizeAll bytes)).length = nsets := by
    cases nm <;> simp [parsedOffsets, datasetOffsets]
  rw [dynamicOffsets_eq, hlen]
  · rfl
  · intro i hi
    cases nm
    · right; simp [parsedOffsets, datasetOffsets]
    · left; simp [parsedOffsets]

theorem usedOffsets_notNM (dyn : Bool) (nsets sizeAll bytes : Nat) :
    usedOffsets dyn false (datasetOffsets nsets sizeAll bytes) sizeAll bytes = datasetOffsets nsets sizeAll bytes := by
  cases dyn
  · simp [usedOffsets, parsedOffsets]
  · exact usedOffsets_dynamic false nsets sizeAll bytes

theorem readAll_datasetOffsets_short (nsets sizeAll bytes fileLen : Nat) (h : fileLen < nsets * (sizeAll * bytes)) :
    readAll sizeAll bytes fileLen (datasetOffsets nsets sizeAll bytes) = .error () := by
  have hn : 0 < nsets := by
    rcases Nat.eq_zero_or_pos nsets with h0 | hp
    · subst h0; simp at h
    · exact hp
  apply readAll_error_of_mem _ _ _ _ ((nsets - 1) * (sizeAll * bytes)) (mem_datasetOffsets _ _ _ _ (by omega))
  have : (nsets - 1) * (sizeAll * bytes) + sizeAll * bytes = nsets * (sizeAll * bytes) := by
    have h1 : nsets = (nsets - 1) + 1 := by omega
    conv_rhs => rw [h1, Nat.succ_mul]
  omega

/-- an Interfile file with `nsets` data sets, dynamic (any modality) or parametric (not NM): shorter than announced → error -/
theorem truncated_container_rejected (dyn nm : Bool) (hd : dyn = true ∨ nm = false) (nsets sizeAll bytes fileLen : Nat)
    (h : fileLen < nsets * (sizeAll * bytes)) :
    readDatasets dyn nm (datasetOffsets nsets sizeAll bytes) sizeAll bytes fileLen = .error () := by
  have hu : usedOffsets dyn nm (datasetOffsets nsets sizeAll bytes) sizeAll bytes = datasetOffsets nsets sizeAll bytes := by
    rcases hd with rfl | rfl
    · exact usedOffsets_dynamic nm _ _ _
    · exact usedOffsets_notNM dyn _ _ _
  simp only [readDatasets, hu]
  exact readAll_datasetOffsets_short _ _ _ _ h

theorem complete_container_accepted (dyn nm : Bool) (hd : dyn = true ∨ nm = false) (nsets sizeAll bytes fileLen : Nat)
    (h : nsets * (sizeAll * bytes) ≤ fileLen) :
    readDatasets dyn nm (datasetOffsets nsets sizeAll bytes) sizeAll bytes fileLen = .ok () := by
  have hu : usedOffsets dyn nm (datasetOffsets nsets sizeAll bytes) sizeAll bytes = datasetOffsets nsets sizeAll bytes := by
    rcases hd with rfl | rfl
    · exact usedOffsets_dynamic nm _ _ _
    · exact usedOffsets_notNM dyn _ _ _
  simp only [readDatasets, hu]
  exact readAll_ok_of_forall _ _ _ _ fun o ho => Nat.le_trans (datasetOffsets_le _ _ _ o ho) h

/-- parametric image, any announced offsets (not NM): a file that ends before the end of one of the data sets is rejected -/
theorem truncated_dataset_rejected (offsets : List Nat) (o : Nat) (ho : o ∈ offsets) (sizeAll bytes fileLen : Nat)
    (h : fileLen < o + sizeAll * bytes) : readDatasets false false offsets sizeAll bytes fileLen = .error () := by
  simp only [readDatasets, usedOffsets, parsedOffsets, Bool.false_eq_true, if_false]
  exact readAll_error_of_mem _ _ _ _ o ho h

/-- parametric image, NM: every data set is read from offset 0, so a file that holds one data set is accepted whatever
    was announced -/
theorem nm_parametric_accepted_when_one_dataset_fits (offsets : List Nat) (sizeAll bytes fileLen : Nat)
    (h : sizeAll * bytes ≤ fileLen) : readDatasets false true offsets sizeAll bytes fileLen = .ok () := by
  simp only [readDatasets, usedOffsets, parsedOffsets, Bool.false_eq_true, if_false, if_true]
  apply readAll_ok_of_forall
  intro o ho
  simp only [List.mem_map] at ho
  obtain ⟨_, _, rfl⟩ := ho
  simpa using h

/-! #### regression witness: `read_interfile_dynamic_image` before repo commit 0e66b8adc -/

/-- the old dynamic reader used the parsed offsets as they were (like the parametric reader still does) -/
def readDynamicOld (nm : Bool) (offsets : List Nat) (sizeAll bytes fileLen : Nat) : Except Unit Unit :=
  readAll sizeAll bytes fileLen (parsedOffsets nm offsets)

theorem old_dynamic_nm_accepted (offsets : List Nat) (sizeAll bytes fileLen : Nat) (h : sizeAll * bytes ≤ fileLen) :
    readDynamicOld true offsets sizeAll bytes fileLen = .ok () := by
  simp only [readDynamicOld, parsedOffsets, if_true]
  apply readAll_ok_of_forall
  intro o ho
  simp only [List.mem_map] at ho
  obtain ⟨_, _, rfl⟩ := ho
  simpa using h

/-- Multi: a member whose data file is short makes reading the image fail -/
theorem truncated_member_rejected (sizeAll bytes : Nat) (lens : List Nat) (len : Nat) (hl : len ∈ lens)
    (h : len < sizeAll * bytes) : readMembers sizeAll bytes lens = .error () := by
  induction lens with
  | nil => cases hl
  | cons a r ih =>
    by_cases ha : a < sizeAll * bytes
    · simp [readMembers, readDataset, ha]
    · simp only [readMembers, readDataset, Nat.zero_add, ha, if_false]
      rcases List.mem_cons.mp hl with rfl | hr
      · exact absurd h ha
      · exact ih hr

theorem complete_members_accepted (sizeAll bytes : Nat) (lens : List Nat) (h : ∀ len ∈ lens, sizeAll * bytes ≤ len) :
    readMembers sizeAll bytes lens = .ok () := by
  induction lens with
  | nil => rfl
  | cons a r ih =>
    have ha : ¬ a < sizeAll * bytes := Nat.not_lt.mpr (h a List.mem_cons_self)
    simp only [readMembers, readDataset, Nat.zero_add, ha, if_false]
    exact ih fun l hl => h l (List.mem_cons_of_mem _ hl)

/-! ### exam information of members and of single images -/

/-- member `f` of a dynamic Interfile image gets every field of the header's exam information and time frame `f` -/
theorem member_exam_roundtrip (e : Exam) (h : e.Storable) (f : Nat) (hf1 : 1 ≤ f) (hf : f ≤ e.frames.length) :
    memberExam (readExam (writeExam e) none) f =
      some { e.normalised with frames := [e.frames[f - 1]'(by omega)] } := by
  rw [exam_roundtrip e h]
  have hne : e.frames ≠ [] := by
    intro h0; rw [h0] at hf; simp at hf; omega
  have hf0 : f ≠ 0 := by omega
  have hidx : f - 1 < e.frames.length := by omega
  simp only [memberExam, frameOf, hf0, if_false, Exam.normalised, hne]
  simp [List.getElem?_eq_getElem hidx]

/-- a frame number outside `1..number of frames` is an error (`get_start_time` throws) -/
theorem member_exam_out_of_range (e : Exam) (f : Nat) (hf : f = 0 ∨ e.frames.length < f) : memberExam e f = none := by
  rcases hf with rfl | hf
  · simp [memberExam, frameOf]
  · have h0 : f ≠ 0 := by omega
    have : e.frames[f - 1]? = none := List.getElem?_eq_none (by omega)
    simp [memberExam, frameOf, h0, this]

/-- a single image written with at most one time frame: `read_interfile_image` changes nothing -/
theorem single_exam_roundtrip (e : Exam) (h : e.Storable) (h1 : e.frames.length ≤ 1) :
    singleExam (readExam (writeExam e) none) = e.normalised := by
  rw [exam_roundtrip e h]
  have : ¬ (e.normalised.frames.length > 1) := by
    simp only [Exam.normalised]
    by_cases h0 : e.frames = []
    · simp [h0]
    · simp [h0]; omega
  simp [singleExam, this]

/-- a single image written with several time frames: only the first one is read back -/
theorem single_exam_keeps_first (e : Exam) (h : e.Storable) (p q : Rat × Rat) (r : List (Rat × Rat))
    (hfr : e.frames = p :: q :: r) :
    singleExam (readExam (writeExam e) none) = { e.normalised with frames := [p] } := by
  rw [exam_roundtrip e h]
  simp [singleExam, Exam.normalised, hfr]

/-- Multi dynamic image: members that each carry one time frame give the first member's exam information with
    the list of these frames -/
theorem multi_dyn_exam (first : Exam) (rest : List Exam) (h : ∀ m ∈ first :: rest, m.frames.length = 1) :
    multiDynExam (first :: rest) = some { first with frames := (first :: rest).map fun m => m.frames.headD (0, 0) } := by
  have : (first :: rest).all (fun m => m.frames.length == 1) = true := by
    rw [List.all_eq_true]
    intro m hm
    simpa using h m hm
  simp only [multiDynExam, this, if_true]

end StirVerif.C10
