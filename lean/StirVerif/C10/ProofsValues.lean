/-
C10 — proofs, part: scale factor, conversion to integers, quantisation error.
-/
import StirVerif.C10.ProofsRound
import Mathlib.Tactic.FieldSimp

namespace StirVerif.C10

/-- integer limits of the integer types -/
def imax (sg : Bool) (b : Nat) : Int := if sg then 2 ^ (b - 1) - 1 else 2 ^ b - 1
def imin (sg : Bool) (b : Nat) : Int := if sg then -(2 ^ (b - 1)) else 0

theorem maxValue_eq (sg : Bool) (b : Nat) : (NumT.int sg b).maxValue = (imax sg b : Rat) := by
  cases sg <;> simp [NumT.maxValue, imax]

theorem minValue_eq (sg : Bool) (b : Nat) : (NumT.int sg b).minValue = (imin sg b : Rat) := by
  cases sg <;> simp [NumT.minValue, imin]

theorem minValue_neg (b : Nat) : (NumT.int true b).minValue < 0 := by
  simp [NumT.minValue]

theorem castToFloat_cases (r : Rat) : castToFloat r = 0 ∨ castToFloat r = r := by
  unfold castToFloat
  split
  · left; rfl
  · right; rfl

theorem castToFloat_eq_zero_iff (r : Rat) : castToFloat r = 0 ↔ (-(1 / 2 ^ 150) ≤ r ∧ r ≤ 1 / 2 ^ 150) := by
  unfold castToFloat
  constructor
  · intro h
    by_contra hc
    rw [if_neg hc] at h
    apply hc
    rw [h]
    constructor <;> norm_num
  · intro h
    rw [if_pos h]

theorem findScaleFactor_int (sg : Bool) (b : Nat) (given : Rat) (xs : List Rat) :
    findScaleFactor (.int sg b) given xs =
      if given = 0 ∨ tmpScale (.int sg b) xs > given then castToFloat (tmpScale (.int sg b) xs) else given := by
  simp [findScaleFactor]

/-- the scale factor returned is the given one or the computed one, and never smaller than the computed one
    (unless it is 0) -/
theorem scale_cases (t : NumT) (ht : t ≠ .float32) (given : Rat) (hg : 0 ≤ given) (xs : List Rat)
    (hs : findScaleFactor t given xs ≠ 0) :
    tmpScale t xs ≤ findScaleFactor t given xs ∧
      (findScaleFactor t given xs = tmpScale t xs ∨ (findScaleFactor t given xs = given ∧ 0 < given)) := by
  unfold findScaleFactor at hs ⊢
  rw [if_neg ht] at hs ⊢
  split
  · rename_i hc
    rw [if_pos hc] at hs
    rcases castToFloat_cases (tmpScale t xs) with h | h
    · exact absurd h hs
    · rw [h]; exact ⟨le_refl _, Or.inl rfl⟩
  · rename_i hc
    rw [if_neg hc] at hs
    rw [not_or, not_lt] at hc
    exact ⟨hc.2, Or.inr ⟨rfl, lt_of_le_of_ne hg (Ne.symm hc.1)⟩⟩

/-- `tmpScale` written with the two quotients -/
theorem tmpScale_unsigned (b : Nat) (xs : List Rat) :
    tmpScale (.int false b) xs = dataMax xs / (NumT.int false b).maxValue * (101 / 100) := by
  simp [tmpScale, NumT.isSigned]

theorem tmpScale_signed (b : Nat) (xs : List Rat) :
    tmpScale (.int true b) xs =
      max (dataMax xs / (NumT.int true b).maxValue) (dataMin xs / (NumT.int true b).minValue) * (101 / 100) := by
  simp [tmpScale, NumT.isSigned]

/-- for a signed type the two quotients cannot both be negative -/
theorem signed_quotients_nonneg (b : Nat) (hmax : 0 < (NumT.int true b).maxValue) (xs : List Rat) :
    0 ≤ max (dataMax xs / (NumT.int true b).maxValue) (dataMin xs / (NumT.int true b).minValue) := by
  by_cases h : 0 ≤ dataMax xs
  · exact le_trans (div_nonneg h (le_of_lt hmax)) (le_max_left _ _)
  · have h' : dataMax xs < 0 := not_le.mp h
    have h2 : dataMin xs < 0 := lt_of_le_of_lt (dataMin_le_dataMax xs) h'
    have : 0 ≤ dataMin xs / (NumT.int true b).minValue :=
      le_of_lt (div_pos_of_neg_of_neg h2 (minValue_neg b))
    exact le_trans this (le_max_right _ _)

/-- **core range lemma**: with a positive scale factor that is at least `max/maxValue` (and at least
    `min/minValue` for signed types) every correctly rounded quotient is inside the type's range -/
theorem ideal_in_range (sg : Bool) (b : Nat) (s : Rat) (hs : 0 < s) (xs : List Rat) (x : Rat) (hx : x ∈ xs)
    (hmax : 0 < (NumT.int sg b).maxValue)
    (ha : dataMax xs / (NumT.int sg b).maxValue ≤ s)
    (hb : sg = true → dataMin xs / (NumT.int sg b).minValue ≤ s) :
    imin sg b ≤ convertIdeal sg s x ∧ convertIdeal sg s x ≤ imax sg b := by
  have hxmax : x ≤ dataMax xs := le_dataMax hx
  have hxmin : dataMin xs ≤ x := dataMin_le hx
  have hupper : x / s ≤ (imax sg b : Rat) := by
    rw [← maxValue_eq, div_le_iff₀ hs]
    rw [div_le_iff₀ hmax] at ha
    linarith
  cases sg with
  | false =>
    unfold convertIdeal
    by_cases hneg : x < 0
    · simp [hneg, imin, imax]
      have : (1 : Int) ≤ 2 ^ b := by exact_mod_cast (Nat.one_le_two_pow : 1 ≤ 2 ^ b)
      linarith
    · simp [hneg]
      have h0 : ((imin false b : Int) : Rat) ≤ x / s := by
        simp [imin]
        exact div_nonneg (not_lt.mp hneg) (le_of_lt hs)
      exact roundHalfAway_range h0 hupper
  | true =>
    unfold convertIdeal
    simp
    have hb' := hb rfl
    have hminneg := minValue_neg b
    have h0 : ((imin true b : Int) : Rat) ≤ x / s := by
      rw [← minValue_eq, le_div_iff₀ hs]
      rw [div_le_iff_of_neg hminneg] at hb'
      linarith
    exact roundHalfAway_range h0 hupper

/-- **no overflow**: with the scale factor of `find_scale_factor` (any given scale ≥ 0) every element of the array
    is converted to a number inside the range of the integer type -/
theorem no_overflow (sg : Bool) (b : Nat) (given : Rat) (hg : 0 ≤ given) (xs : List Rat) (x : Rat) (hx : x ∈ xs)
    (hmax : 0 < (NumT.int sg b).maxValue)
    (hs : findScaleFactor (.int sg b) given xs ≠ 0) :
    imin sg b ≤ convertIdeal sg (findScaleFactor (.int sg b) given xs) x ∧
      convertIdeal sg (findScaleFactor (.int sg b) given xs) x ≤ imax sg b := by
  have ⟨hle, _⟩ := scale_cases (.int sg b) (by simp) given hg xs hs
  generalize findScaleFactor (.int sg b) given xs = s at hs hle ⊢
  cases sg with
  | true =>
    rw [tmpScale_signed] at hle
    have hq := signed_quotients_nonneg b hmax xs
    set m := max (dataMax xs / (NumT.int true b).maxValue) (dataMin xs / (NumT.int true b).minValue) with hm
    have hms : m ≤ s := by linarith
    have hspos : 0 < s := lt_of_le_of_ne (le_trans hq hms) (Ne.symm hs)
    exact ideal_in_range true b s hspos xs x hx hmax (le_trans (le_max_left _ _) hms)
      (fun _ => le_trans (le_max_right _ _) hms)
  | false =>
    rw [tmpScale_unsigned] at hle
    rcases lt_or_gt_of_ne hs with hneg | hpos
    · -- negative scale: all data negative, everything is truncated to 0
      have hdm : dataMax xs < 0 := by
        by_contra hc
        have : 0 ≤ dataMax xs / (NumT.int false b).maxValue := div_nonneg (not_lt.mp hc) (le_of_lt hmax)
        linarith
      have hxneg : x < 0 := lt_of_le_of_lt (le_dataMax hx) hdm
      unfold convertIdeal
      simp [hxneg, imin, imax]
      have : (1 : Int) ≤ 2 ^ b := by exact_mod_cast (Nat.one_le_two_pow : 1 ≤ 2 ^ b)
      linarith
    · refine ideal_in_range false b s hpos xs x hx hmax ?_ (by simp)
      by_cases h0 : 0 ≤ dataMax xs / (NumT.int false b).maxValue
      · linarith
      · linarith

/-- **what the factor 1.01 buys**: any positive scale factor within a factor 1/1.01 of the computed one
    (e.g. after rounding to `float`, or printing with 6 digits) still cannot overflow -/
theorem no_overflow_robust (sg : Bool) (b : Nat) (xs : List Rat) (x : Rat) (hx : x ∈ xs)
    (hmax : 0 < (NumT.int sg b).maxValue) (s' : Rat) (hs' : 0 < s')
    (hclose : 100 * tmpScale (.int sg b) xs ≤ 101 * s') :
    imin sg b ≤ convertIdeal sg s' x ∧ convertIdeal sg s' x ≤ imax sg b := by
  cases sg with
  | true =>
    rw [tmpScale_signed] at hclose
    set m := max (dataMax xs / (NumT.int true b).maxValue) (dataMin xs / (NumT.int true b).minValue) with hm
    have hms : m ≤ s' := by linarith
    exact ideal_in_range true b s' hs' xs x hx hmax (le_trans (le_max_left _ _) hms)
      (fun _ => le_trans (le_max_right _ _) hms)
  | false =>
    rw [tmpScale_unsigned] at hclose
    exact ideal_in_range false b s' hs' xs x hx hmax (by linarith) (by simp)

/-- with a scale factor ≥ the computed one, a signed quotient stays a factor 1.01 away from the type's minimum -/
theorem quotient_lower_margin (b : Nat) (xs : List Rat) (x : Rat) (hx : x ∈ xs) (s : Rat) (hs : 0 < s)
    (hle : tmpScale (.int true b) xs ≤ s) :
    (NumT.int true b).minValue * (100 / 101) ≤ x / s := by
  have hminneg := minValue_neg b
  rw [tmpScale_signed] at hle
  have hb : dataMin xs / (NumT.int true b).minValue * (101 / 100) ≤ s :=
    le_trans (mul_le_mul_of_nonneg_right (le_max_right _ _) (by norm_num)) hle
  have hxmin : dataMin xs ≤ x := dataMin_le hx
  rw [le_div_iff₀ hs]
  -- dataMin ≥ s * minValue * 100/101
  have h1 : dataMin xs / (NumT.int true b).minValue ≤ s * (100 / 101) := by linarith
  rw [div_le_iff_of_neg hminneg] at h1
  linarith

/-- **the conversion as coded agrees with the correctly rounded quotient** whenever the integer type fits in
    `int` (`maxValue < 2³¹`: all of STIR's types except `unsigned int`, `long`, `unsigned long`) -/
theorem convertOne_eq_ideal (sg : Bool) (b : Nat) (hb : 1 ≤ b) (given : Rat) (hg : 0 ≤ given) (xs : List Rat) (x : Rat)
    (hx : x ∈ xs) (hmax : 0 < (NumT.int sg b).maxValue) (hfit : imax sg b < 2 ^ 31)
    (hs : findScaleFactor (.int sg b) given xs ≠ 0) :
    convertOne sg b (findScaleFactor (.int sg b) given xs) x =
      some (convertIdeal sg (findScaleFactor (.int sg b) given xs) x) := by
  have hrange := no_overflow sg b given hg xs x hx hmax hs
  have ⟨hle, _⟩ := scale_cases (.int sg b) (by simp) given hg xs hs
  generalize findScaleFactor (.int sg b) given xs = s at hs hle hrange ⊢
  cases sg with
  | false =>
    unfold convertOne convertIdeal at *
    by_cases hneg : x < 0
    · simp [hneg]
    · simp [hneg] at hrange ⊢
      have h0 : 0 ≤ roundHalfAway (x / s) := by simpa [imin] using hrange.1
      have h1 : roundHalfAway (x / s) < 2 ^ b := by
        have := hrange.2
        simp [imax] at this
        omega
      have h2 : roundHalfAway (x / s) < 2 ^ 31 := lt_of_le_of_lt hrange.2 hfit
      rw [stirRound_some (by omega) (by exact_mod_cast h2)]
      simp [wrap_unsigned_id b _ h0 h1]
  | true =>
    -- the scale factor is positive
    rw [tmpScale_signed] at hle
    have hq := signed_quotients_nonneg b hmax xs
    have hspos : 0 < s := by
      refine lt_of_le_of_ne ?_ (Ne.symm hs)
      have : 0 ≤ max (dataMax xs / (NumT.int true b).maxValue) (dataMin xs / (NumT.int true b).minValue) * (101 / 100) :=
        mul_nonneg hq (by norm_num)
      linarith
    have hmargin := quotient_lower_margin b xs x hx s hspos (by rw [tmpScale_signed]; exact hle)
    unfold convertOne convertIdeal at *
    simp at hrange ⊢
    have hlo : -(2 ^ (b - 1)) ≤ roundHalfAway (x / s) := by simpa [imin] using hrange.1
    have hhi : roundHalfAway (x / s) < 2 ^ (b - 1) := by
      have := hrange.2
      simp [imax] at this
      omega
    have h2 : roundHalfAway (x / s) < 2 ^ 31 := lt_of_le_of_lt hrange.2 hfit
    -- lower bound: r ≥ x/s - 1/2 ≥ minValue*100/101 - 1/2 > -2^31
    have hpow : (2 : Rat) ^ (b - 1) ≤ 2 ^ 31 := by
      have : (2 : Int) ^ (b - 1) ≤ 2 ^ 31 := by simp [imax] at hfit; omega
      exact_mod_cast this
    have herr := roundHalfAway_err (x / s)
    rw [abs_le] at herr
    have hlow : -(2 ^ 31 : Int) < roundHalfAway (x / s) := by
      have hr : (-(2 ^ 31 : Rat)) < ((roundHalfAway (x / s) : Int) : Rat) := by
        have hmv : (NumT.int true b).minValue = -(2 : Rat) ^ (b - 1) := by simp [NumT.minValue]
        rw [hmv] at hmargin
        have : (-(2:Rat)^31) * (100/101) - 1/2 > -(2:Rat)^31 := by norm_num
        nlinarith [herr.1, hmargin, hpow]
      exact_mod_cast hr
    rw [stirRound_some hlow (by exact_mod_cast h2)]
    simp [wrap_signed_id b hb _ hlo hhi]

/-- **`stir::round` overflows for every unsigned type of 32 or more bits** with the automatic scale factor:
    the largest voxel's quotient is `maxValue/1.01 ≥ 2³¹`, outside `int` -/
theorem wide_unsigned_overflows (b : Nat) (hb : 32 ≤ b) (xs : List Rat) (hpos : 0 < dataMax xs)
    (hs : findScaleFactor (.int false b) 0 xs ≠ 0) :
    convertOne false b (findScaleFactor (.int false b) 0 xs) (dataMax xs) = none := by
  have ⟨_, hcase⟩ := scale_cases (.int false b) (by simp) 0 (le_refl _) xs hs
  have hseq : findScaleFactor (.int false b) 0 xs = tmpScale (.int false b) xs := by
    rcases hcase with h | h
    · exact h
    · exact absurd h.2 (lt_irrefl _)
  rw [hseq, tmpScale_unsigned]
  have hmaxv : (NumT.int false b).maxValue = 2 ^ b - 1 := by simp [NumT.maxValue]
  have hpw : (2 : Rat) ^ 32 ≤ 2 ^ b := pow_le_pow_right₀ (by norm_num) hb
  have hmpos : (0 : Rat) < 2 ^ b - 1 := by linarith [show (1:Rat) < 2 ^ 32 by norm_num]
  unfold convertOne
  have hnn : ¬ dataMax xs < 0 := not_lt.mpr (le_of_lt hpos)
  simp [hnn]
  apply stirRound_none_of_ge
  rw [hmaxv]
  have : dataMax xs / (dataMax xs / (2 ^ b - 1) * (101 / 100)) = (2 ^ b - 1) * (100 / 101) := by
    field_simp
  rw [this]
  linarith [show (2:Rat)^31 ≤ ((2:Rat)^32 - 1) * (100/101) by norm_num]

/-- **quantisation error**: the decoded value differs from the original by at most half a step -/
theorem quantisation_bound (s : Rat) (hs : 0 < s) (x : Rat) :
    |x - decodeInt s (roundHalfAway (x / s))| ≤ s / 2 := by
  unfold decodeInt
  have h := roundHalfAway_err (x / s)
  have : x - (roundHalfAway (x / s) : Rat) * s = -(s * ((roundHalfAway (x / s) : Rat) - x / s)) := by
    field_simp
    ring
  rw [this, abs_neg, abs_mul, abs_of_pos hs]
  calc s * |(roundHalfAway (x / s) : Rat) - x / s| ≤ s * (1 / 2) := mul_le_mul_of_nonneg_left h (le_of_lt hs)
    _ = s / 2 := by ring

/-- decoding with another scale factor `s'` than the one used for rounding (the header prints it with 6 digits) -/
theorem value_roundtrip_bound (s s' : Rat) (hs : 0 < s) (x : Rat) :
    |x - decodeInt s' (roundHalfAway (x / s))| ≤ s / 2 + |(roundHalfAway (x / s) : Rat)| * |s' - s| := by
  have h := quantisation_bound s hs x
  unfold decodeInt at *
  have : x - (roundHalfAway (x / s) : Rat) * s' =
      (x - (roundHalfAway (x / s) : Rat) * s) + (-((roundHalfAway (x / s) : Rat) * (s' - s))) := by ring
  rw [this]
  calc _ ≤ |x - (roundHalfAway (x / s) : Rat) * s| + |-((roundHalfAway (x / s) : Rat) * (s' - s))| := abs_add_le _ _
    _ ≤ s / 2 + |(roundHalfAway (x / s) : Rat)| * |s' - s| := by
        rw [abs_neg, abs_mul]
        linarith

end StirVerif.C10
