import StirVerif.C10.Model
namespace StirVerif.C10
end StirVerif.C10
