/-
C10 — "Image files round-trip voxel positions, values and exam information".
Property theorems over the model of `Model.lean`; proofs in `Proofs*.lean`.  All statements are for every index
range, origin, voxel size, array content and length, integer width, given scale factor and exam information
(no bounds).  Clauses of the property that the code as it stands violates are stated as `…_fails` theorems
(general, plus concrete witnesses) next to the `…_partial` theorem that excludes exactly those inputs.
-/
import StirVerif.C10.ProofsGeom
import StirVerif.C10.ProofsWrite
import StirVerif.C10.ProofsExam
import StirVerif.C10.ProofsContainer

namespace StirVerif.C10

/-! ## Positions

(The header of a dynamic / parametric Interfile image is written from the geometry of its first member and every
member is read back with the geometry built from that header; the members of a Multi image are single images.  The
correspondence run replays `whdr`/`rhdr` for every header and every member read back.) -/

/-- "Writing an image to file and reading it back preserves, for every voxel, its physical position … for all index
    ranges, origins, voxel sizes": when the header numbers are printed exactly, the `k`-th voxel (per axis, counted
    from the first) of the image read back is where the `k`-th voxel of the original was — although the reader
    re-normalises the index range and recomputes the origin. -/
theorem C10_position_preserved_exact (g : Geom) (k : V3 Int) :
    posOfOffset (readGeom (writeHeader id g)) k = posOfOffset g k :=
  position_preserved_exact g k

/-- … with an explicit error bound otherwise: for any formatting `fmt` of the header numbers the position error is at
    most the error of the printed first pixel offset plus `|k|` times the error of the printed voxel size, per axis. -/
theorem C10_position_preserved_fmt (fmt : Rat → Rat) (g : Geom) (k : V3 Int) :
    |(posOfOffset (readGeom (writeHeader fmt g)) k).z - (posOfOffset g k).z|
        ≤ |fmt (firstPixelOffset g.voxel.z g.minI.z g.origin.z) - firstPixelOffset g.voxel.z g.minI.z g.origin.z|
          + |(k.z : Rat)| * |fmt g.voxel.z - g.voxel.z| ∧
    |(posOfOffset (readGeom (writeHeader fmt g)) k).y - (posOfOffset g k).y|
        ≤ |fmt (firstPixelOffset g.voxel.y g.minI.y g.origin.y) - firstPixelOffset g.voxel.y g.minI.y g.origin.y|
          + |(k.y : Rat)| * |fmt g.voxel.y - g.voxel.y| ∧
    |(posOfOffset (readGeom (writeHeader fmt g)) k).x - (posOfOffset g k).x|
        ≤ |fmt (firstPixelOffset g.voxel.x g.minI.x g.origin.x) - firstPixelOffset g.voxel.x g.minI.x g.origin.x|
          + |(k.x : Rat)| * |fmt g.voxel.x - g.voxel.x| :=
  position_preserved_fmt fmt g k

/-- … in particular, if printing has relative error at most `ε` (`ε = 5·10⁻⁶` for 6 significant digits), the position
    error of voxel `k` is at most `ε (|first pixel offset| + |k| |voxel size|)`. -/
theorem C10_position_preserved_rel (fmt : Rat → Rat) (ε : Rat) (hf : ∀ x, |fmt x - x| ≤ ε * |x|) (g : Geom) (k : V3 Int) :
    |(posOfOffset (readGeom (writeHeader fmt g)) k).z - (posOfOffset g k).z|
        ≤ ε * (|firstPixelOffset g.voxel.z g.minI.z g.origin.z| + |(k.z : Rat)| * |g.voxel.z|) ∧
    |(posOfOffset (readGeom (writeHeader fmt g)) k).y - (posOfOffset g k).y|
        ≤ ε * (|firstPixelOffset g.voxel.y g.minI.y g.origin.y| + |(k.y : Rat)| * |g.voxel.y|) ∧
    |(posOfOffset (readGeom (writeHeader fmt g)) k).x - (posOfOffset g k).x|
        ≤ ε * (|firstPixelOffset g.voxel.x g.minI.x g.origin.x| + |(k.x : Rat)| * |g.voxel.x|) :=
  position_preserved_rel fmt ε hf g k

/-- the hypothesis of `C10_position_preserved_rel` is satisfiable (exact printing, ε = 0) -/
example : ∀ x : Rat, |id x - x| ≤ 0 * |x| := by intro x; simp

/-- re-normalising the index range with the recomputed origin never changes physical positions: whatever first index
    `m` the reader chooses, voxel `k` sits at `first pixel offset + k · voxel size`. -/
theorem C10_renormalise_invariant (h : Header) (f : V3 Rat) (hf : h.fpo = some f) (m k : V3 Int) :
    posOfOffset (geomWithMin h m) k = ⟨f.z + h.pixel.z * k.z, f.y + h.pixel.y * k.y, f.x + h.pixel.x * k.x⟩ :=
  renormalise_invariant h f hf m k

example : (writeHeader id ⟨⟨-2, -3, 4⟩, ⟨1, 0, 8⟩, ⟨3, 4, 5⟩, ⟨32 / 5, -7 / 2, 12 / 5⟩⟩).fpo = some ⟨2 / 5, -31 / 2, 112 / 5⟩ := by
  simp [writeHeader, V3.map, firstPixelOffset]; norm_num

/-- the reader's index range has the announced sizes, and starts at `(0, -⌊ny/2⌋, -⌊nx/2⌋)` -/
theorem C10_read_range (h : Header) (hy : 0 ≤ h.size.y) (hx : 0 ≤ h.size.x) :
    V3.zip dimension (readGeom h).minI (readGeom h).maxI = h.size ∧
      (readGeom h).minI = ⟨0, -(h.size.y / 2), -(h.size.x / 2)⟩ :=
  ⟨read_range_size h, by simp only [readGeom, geomWithMin]; exact readMin_centred h.size hy hx⟩

/-! ## Values: scaled integer output

`write_basic_interfile` writes every data set of a dynamic or parametric image with the same `write_data`, each
with a scale factor of its own (interfile.cxx:855-861, 902-908), and the Multi formats write every member as a
single image: the theorems of this and the next two sections apply per data set / member (the correspondence run
replays `fsf` and `conv` for every data set of every container). -/

/-- "scaled integer output, which never overflows the chosen type … for all number types … and scale factors":
    with the scale factor `find_scale_factor` returns (for any requested scale ≥ 0) the correctly rounded quotient of
    every element lies in `[minValue, maxValue]`, for every signed/unsigned width.  (`s ≠ 0`: otherwise zeros are
    written, `C10_all_zero_case`.) -/
theorem C10_no_overflow (sg : Bool) (b : Nat) (given : Rat) (hg : 0 ≤ given) (xs : List Rat) (x : Rat) (hx : x ∈ xs)
    (hmax : 0 < (NumT.int sg b).maxValue) (hs : findScaleFactor (.int sg b) given xs ≠ 0) :
    (NumT.int sg b).minValue ≤ (convertIdeal sg (findScaleFactor (.int sg b) given xs) x : Rat) ∧
      (convertIdeal sg (findScaleFactor (.int sg b) given xs) x : Rat) ≤ (NumT.int sg b).maxValue := by
  rw [minValue_eq, maxValue_eq]
  have := no_overflow sg b given hg xs x hx hmax hs
  exact ⟨by exact_mod_cast this.1, by exact_mod_cast this.2⟩

/-- the hypotheses hold for `short` output of a mixed-sign array -/
example : 0 < (NumT.int true 16).maxValue ∧ findScaleFactor (.int true 16) 0 [9453 / 100, -137 / 10] ≠ 0 := by
  constructor
  · norm_num [NumT.maxValue]
  · norm_num [findScaleFactor_int, tmpScale, dataMax, dataMin, castToFloat, NumT.maxValue, NumT.minValue, NumT.isSigned]

/-- this is where the factor 1.01 is used: any positive scale factor `s'` with `s' ≥ computed/1.01` (the computed one
    rounded to `float`, or printed with 6 digits and read back) still cannot overflow. -/
theorem C10_no_overflow_robust (sg : Bool) (b : Nat) (xs : List Rat) (x : Rat) (hx : x ∈ xs)
    (hmax : 0 < (NumT.int sg b).maxValue) (s' : Rat) (hs' : 0 < s')
    (hclose : 100 * tmpScale (.int sg b) xs ≤ 101 * s') :
    (NumT.int sg b).minValue ≤ (convertIdeal sg s' x : Rat) ∧ (convertIdeal sg s' x : Rat) ≤ (NumT.int sg b).maxValue := by
  rw [minValue_eq, maxValue_eq]
  have := no_overflow_robust sg b xs x hx hmax s' hs' hclose
  exact ⟨by exact_mod_cast this.1, by exact_mod_cast this.2⟩

example : (0 : Rat) < 1 / 100 ∧ 100 * tmpScale (.int false 8) [2, 1] ≤ 101 * (1 / 100) := by
  norm_num [tmpScale, dataMax, NumT.maxValue, NumT.isSigned]

/-- the full statement "the conversion as coded (`stir::round`, which returns `int`, then a cast to the output type)
    stores the correctly rounded quotient, for every integer type" — false, see `C10_no_overflow_fails_wide_unsigned`. -/
def C10_conversion_as_coded_all_types : Prop :=
  ∀ (sg : Bool) (b : Nat) (given : Rat) (xs : List Rat) (x : Rat), 1 ≤ b → 0 ≤ given → x ∈ xs →
    0 < (NumT.int sg b).maxValue → findScaleFactor (.int sg b) given xs ≠ 0 →
    convertOne sg b (findScaleFactor (.int sg b) given xs) x =
      some (convertIdeal sg (findScaleFactor (.int sg b) given xs) x)

/-- … it holds for the types whose `maxValue` is below 2³¹ (signed/unsigned char, short, unsigned short, int); the
    missing hypothesis for the others is that every quotient stays inside `int`.  (For `int` itself the proof uses the
    factor 1.01 to keep the quotient away from -2³¹.) -/
theorem C10_conversion_as_coded_partial (sg : Bool) (b : Nat) (hb : 1 ≤ b) (given : Rat) (hg : 0 ≤ given)
    (xs : List Rat) (x : Rat) (hx : x ∈ xs) (hmax : 0 < (NumT.int sg b).maxValue)
    (hfit : (NumT.int sg b).maxValue < 2 ^ 31) (hs : findScaleFactor (.int sg b) given xs ≠ 0) :
    convertOne sg b (findScaleFactor (.int sg b) given xs) x =
      some (convertIdeal sg (findScaleFactor (.int sg b) given xs) x) := by
  apply convertOne_eq_ideal sg b hb given hg xs x hx hmax _ hs
  rw [maxValue_eq] at hfit
  exact_mod_cast hfit

example : (NumT.int true 32).maxValue < 2 ^ 31 ∧ (NumT.int false 16).maxValue < 2 ^ 31 := by
  norm_num [NumT.maxValue]

/-- **the code violates "never overflows" for every unsigned type of ≥ 32 bits** (`unsigned int`, `unsigned long`):
    with the automatic scale factor the largest voxel's quotient is `maxValue/1.01 ≥ 2³¹` and `stir::round`'s
    conversion to `int` is undefined (`none`). -/
theorem C10_no_overflow_fails_wide_unsigned (b : Nat) (hb : 32 ≤ b) (xs : List Rat) (hpos : 0 < dataMax xs)
    (hs : findScaleFactor (.int false b) 0 xs ≠ 0) :
    convertOne false b (findScaleFactor (.int false b) 0 xs) (dataMax xs) = none :=
  wide_unsigned_overflows b hb xs hpos hs

/-- concrete witness (replayed on the implementation by the harness: every `u32` case with automatic scale) -/
theorem C10_no_overflow_fails_uint32 :
    convertOne false 32 (findScaleFactor (.int false 32) 0 [1]) 1 = none := by
  have h := wide_unsigned_overflows 32 (le_refl _) [1] (by norm_num [dataMax])
    (by norm_num [findScaleFactor_int, tmpScale, dataMax, castToFloat, NumT.maxValue, NumT.isSigned])
  simpa [dataMax] using h

theorem C10_conversion_as_coded_all_types_fails : ¬ C10_conversion_as_coded_all_types := by
  intro h
  have h1 := h false 32 0 [1] 1 (by norm_num) (le_refl _) (by simp) (by norm_num [NumT.maxValue])
    (by norm_num [findScaleFactor_int, tmpScale, dataMax, castToFloat, NumT.maxValue, NumT.isSigned])
  rw [C10_no_overflow_fails_uint32] at h1
  cases h1

/-- "its value … within half a quantisation step for scaled integer output": decoding with the scale factor `s`
    that was used for rounding gives back `x` within `s/2` (any `x` for signed types; `x ≥ 0` is not needed for the
    inequality itself — for unsigned types negative `x` are stored as 0, `convertIdeal`). -/
theorem C10_quantisation_bound (s : Rat) (hs : 0 < s) (x : Rat) :
    |x - decodeInt s (roundHalfAway (x / s))| ≤ s / 2 :=
  quantisation_bound s hs x

/-- what the reader really does: it multiplies by the scale factor `s'` *printed in the header*; the error is then at
    most half a step plus `|stored integer| · |s' - s|` (for 6 digits: `≤ s/2 + 5·10⁻⁶|x|`, more than half a step for
    16- and 32-bit output). -/
theorem C10_value_roundtrip_bound (s s' : Rat) (hs : 0 < s) (x : Rat) :
    |x - decodeInt s' (roundHalfAway (x / s))| ≤ s / 2 + |(roundHalfAway (x / s) : Rat)| * |s' - s| :=
  value_roundtrip_bound s s' hs x

example : (0 : Rat) < 303 / 3276700 := by norm_num

/-- the all-zero case: scale factor 0 is written, all stored numbers are 0, and 0 · 0 = 0 is read back -/
theorem C10_all_zero_case (sg : Bool) (b : Nat) (xs : List Rat) (h : ∀ x ∈ xs, x = 0) :
    convertRangeInt sg b 0 xs = (0, xs.map fun _ => some 0) ∧ ∀ x ∈ xs, decodeInt 0 0 = x := by
  refine ⟨all_zero_case sg b xs h, ?_⟩
  intro x hx
  rw [h x hx]
  simp [decodeInt]

example : ∀ x ∈ [(0 : Rat), 0, 0], x = 0 := by simp

/-! ## Values: floating-point output -/

/-- "exactly for floating-point output": `float` output ignores the requested scale factor, stores the values
    themselves with scale factor 1, and decoding returns them. -/
theorem C10_float_exact (given : Rat) (rows : List (List Rat)) :
    writeData .float32 given rows = (1, .ok (rows.map fun r => r.map Stored.real)) ∧ ∀ v, decodeReal 1 v = v :=
  ⟨float_write_exact given rows, decodeReal_one⟩

/-- `double` output with a requested scale factor `s ≠ 0` is exact in exact arithmetic (`x/s·s`) -/
theorem C10_double_exact_given_scale_partial (s : Rat) (hs : s ≠ 0) (x : Rat) : decodeReal s (x / s) = x :=
  double_exact_given_scale s hs x

/-- **the code violates "exactly for floating-point output" for `double` output with the automatic scale factor**:
    for every array of `float`s `max/DBL_MAX·1.01` underflows `float`, the scale factor becomes 0 and zeros are
    written. -/
theorem C10_double_autoscale_fails (xs : List Rat) (hx : ∀ x ∈ xs, |x| ≤ FLT_MAX) :
    convertRangeReal .float64 0 xs = (0, xs.map fun _ => 0) :=
  double_autoscale_writes_zeros xs hx

example : ∀ x ∈ [(1 : Rat), -2], |x| ≤ FLT_MAX := by
  intro x hx
  simp at hx
  rcases hx with rfl | rfl <;> norm_num [FLT_MAX]

/-! ## `write_data` succeeds -/

/-- the row-wise re-computation of the scale factor in `write_data_with_fixed_scale_factor` never rejects a row when
    the global scale factor is positive (missing for the full statement: the scale factor may be ≤ 0 for unsigned
    output, see `C10_write_fails_negative_scale`). -/
theorem C10_write_succeeds_partial (sg : Bool) (b : Nat) (hmax : 0 < (NumT.int sg b).maxValue) (given : Rat) (hg : 0 ≤ given)
    (rows : List (List Rat)) (hne : ∀ r ∈ rows, r ≠ [])
    (hpos : 0 < findScaleFactor (.int sg b) given rows.flatten) :
    ∃ out, (writeData (.int sg b) given rows).2 = .ok out :=
  write_succeeds_of_pos sg b hmax given hg rows hne hpos

example : 0 < findScaleFactor (.int false 8) 0 ([[1, 2], [3, -4]] : List (List Rat)).flatten := by
  norm_num [findScaleFactor_int, tmpScale, dataMax, castToFloat, NumT.maxValue, NumT.isSigned]

/-- **`write_data` fails whenever the scale factor is negative** (and `write_basic_interfile` ignores it) -/
theorem C10_write_fails_negative_scale (sg : Bool) (b : Nat) (given : Rat) (row : List Rat) (rows : List (List Rat))
    (hneg : findScaleFactor (.int sg b) given (row :: rows).flatten < 0) :
    (writeData (.int sg b) given (row :: rows)).2 = .error () :=
  write_fails_of_neg sg b given row rows hneg

/-- concrete witness: an all-negative image written as `unsigned char` with the automatic scale factor -/
theorem C10_write_fails_unsigned_all_negative : (writeData (.int false 8) 0 [[-1, -2]]).2 = .error () := by
  apply write_fails_of_neg
  norm_num [findScaleFactor_int, tmpScale, dataMax, castToFloat, NumT.maxValue, NumT.isSigned]

/-! ## Truncated data files -/

/-- "A data file shorter than its header announces is reported as an error rather than returned as an image":
    at the level of the model of `read_data` (stream semantics assumed).  One data set: a single image, also one
    written with several time frame definitions (`read_interfile_image` reads from the first offset only), and each
    member of a Multi image (`C10_truncated_multi_member_rejected`). -/
theorem C10_truncated_file_rejected (offset sizeAll bytes fileLen : Nat) (h : fileLen < offset + sizeAll * bytes) :
    readDataset offset sizeAll bytes fileLen = .error () :=
  truncated_file_rejected offset sizeAll bytes fileLen h

theorem C10_complete_file_accepted (offset sizeAll bytes fileLen : Nat) (h : offset + sizeAll * bytes ≤ fileLen) :
    readDataset offset sizeAll bytes fileLen = .ok () :=
  complete_file_accepted offset sizeAll bytes fileLen h

/-- … for a dynamic Interfile image of ANY modality and a parametric one of any modality but NM (`nsets` data sets of
    `sizeAll·bytes` bytes in one data file, at the offsets `write_basic_interfile` announces): a file shorter than the
    `nsets·sizeAll·bytes` bytes announced is rejected, at every length.  (Dynamic + NM: the offset keys are still not
    parsed, but since repo commit 0e66b8adc `read_interfile_dynamic_image` lets a frame without a parsed offset follow
    the previous one, which is where the writer put it.) -/
theorem C10_truncated_container_rejected (dyn nm : Bool) (hd : dyn = true ∨ nm = false) (nsets sizeAll bytes fileLen : Nat)
    (h : fileLen < nsets * (sizeAll * bytes)) :
    readDatasets dyn nm (datasetOffsets nsets sizeAll bytes) sizeAll bytes fileLen = .error () :=
  truncated_container_rejected dyn nm hd nsets sizeAll bytes fileLen h

theorem C10_complete_container_accepted (dyn nm : Bool) (hd : dyn = true ∨ nm = false) (nsets sizeAll bytes fileLen : Nat)
    (h : nsets * (sizeAll * bytes) ≤ fileLen) :
    readDatasets dyn nm (datasetOffsets nsets sizeAll bytes) sizeAll bytes fileLen = .ok () :=
  complete_container_accepted dyn nm hd nsets sizeAll bytes fileLen h

example : datasetOffsets 3 6 2 = [0, 12, 24] ∧ (35 : Nat) < 3 * (6 * 2) := by decide

/-- the dynamic reader seeks to exactly the offsets the writer announced, also when the keys were not parsed (NM):
    every frame is read from its own place (values of frames > 1 are no longer those of frame 1) -/
theorem C10_dynamic_reader_uses_announced_offsets (nm : Bool) (nsets sizeAll bytes : Nat) :
    usedOffsets true nm (datasetOffsets nsets sizeAll bytes) sizeAll bytes = datasetOffsets nsets sizeAll bytes :=
  usedOffsets_dynamic nm nsets sizeAll bytes

/-- … parametric image, whatever offsets the header announces (not NM): a file that ends before the end of any
    announced data set -/
theorem C10_truncated_dataset_rejected (offsets : List Nat) (o : Nat) (ho : o ∈ offsets) (sizeAll bytes fileLen : Nat)
    (h : fileLen < o + sizeAll * bytes) : readDatasets false false offsets sizeAll bytes fileLen = .error () :=
  truncated_dataset_rejected offsets o ho sizeAll bytes fileLen h

/-- the full statement for Interfile images with several data sets, both readers, any modality — false for
    parametric + NM, see below -/
def C10_truncated_container_rejected_all_modalities : Prop :=
  ∀ (dyn nm : Bool) (nsets sizeAll bytes fileLen : Nat), fileLen < nsets * (sizeAll * bytes) →
    readDatasets dyn nm (datasetOffsets nsets sizeAll bytes) sizeAll bytes fileLen = .error ()

/-- **the code violates the clause for parametric images of modality NM** (known finding: `data offset in bytes` is not
    a registered key after `!type of data := Tomographic`, and `read_interfile_parametric_image` uses the parsed offsets
    as they are): every data set is read from offset 0, so a file that holds one data set is returned as an image
    although the header announces two. -/
theorem C10_truncated_parametric_NM_accepted (offsets : List Nat) (sizeAll bytes fileLen : Nat)
    (h : sizeAll * bytes ≤ fileLen) : readDatasets false true offsets sizeAll bytes fileLen = .ok () :=
  nm_parametric_accepted_when_one_dataset_fits offsets sizeAll bytes fileLen h

theorem C10_truncated_container_rejected_all_modalities_fails : ¬ C10_truncated_container_rejected_all_modalities := by
  intro h
  have h1 := h false true 2 6 4 24 (by decide)
  rw [C10_truncated_parametric_NM_accepted _ 6 4 24 (by decide)] at h1
  cases h1

/-- regression witness: `read_interfile_dynamic_image` before repo commit 0e66b8adc (parsed offsets used as they were)
    accepted a dynamic NM file holding a single frame, whatever the header announced -/
theorem C10_old_dynamic_reader_accepted_truncated_NM :
    readDynamicOld true (datasetOffsets 2 6 4) 6 4 24 = .ok () ∧ (24 : Nat) < 2 * (6 * 4) :=
  ⟨old_dynamic_nm_accepted _ 6 4 24 (by decide), by decide⟩

/-- … for a Multi image (every member a single image in a data file of its own): one short member file is enough -/
theorem C10_truncated_multi_member_rejected (sizeAll bytes : Nat) (lens : List Nat) (len : Nat) (hl : len ∈ lens)
    (h : len < sizeAll * bytes) : readMembers sizeAll bytes lens = .error () :=
  truncated_member_rejected sizeAll bytes lens len hl h

theorem C10_complete_multi_accepted (sizeAll bytes : Nat) (lens : List Nat) (h : ∀ len ∈ lens, sizeAll * bytes ≤ len) :
    readMembers sizeAll bytes lens = .ok () :=
  complete_members_accepted sizeAll bytes lens h

example : (23 : Nat) ∈ [24, 23, 24] ∧ 23 < 6 * 4 := by decide

/-! ## Exam information -/

/-- the full statement "every exam information survives" — false: time frames of duration ≤ 0 are not written,
    see `C10_exam_roundtrip_all_fails` -/
def C10_exam_roundtrip_all : Prop :=
  ∀ e : Exam, e.orientation ≤ 3 → e.rotation ≤ 5 → readExam (writeExam e) none = e.normalised

/-- "The exam information that the format stores (modality, patient position, time frames, radionuclide, energy window,
    calibration factor) survives the round trip" — for every exam information whose time frames have positive duration
    (`Storable`; the enum values must be valid); radionuclide not in the data base (a data-base hit returns the
    data-base record instead). -/
theorem C10_exam_roundtrip_partial (e : Exam) (h : e.Storable) : readExam (writeExam e) none = e.normalised :=
  exam_roundtrip e h

example : Exam.Storable ⟨1, 1, 3, 5 / 2, 0, 650, [(41 / 2, 45), (50, 373 / 4)], "Verif-7", 2469 / 2, 1 / 2⟩ := by
  constructor <;> simp
  norm_num

/-- every patient rotation — including the decubitus positions `right`/`left` — is read back unchanged
    (was violated before repo commit 697526ee8: `old_rotation_lost`) -/
theorem C10_exam_rotation_survives (e : Exam) (h : e.rotation ≤ 5) (db : Option (Rat × Rat)) :
    (readExam (writeExam e) db).rotation = e.rotation :=
  rotation_survives e h db

/-- an energy window `[0, high]` is written and read back (was violated before repo commit ccc9f5cdc:
    `old_window_zero_lost`) -/
theorem C10_exam_window_zero_survives (e : Exam) (hh : e.highThres > 0) (hl : e.lowThres = 0) (db : Option (Rat × Rat)) :
    (writeExam e).window = some (0, e.highThres) ∧
      (readExam (writeExam e) db).lowThres = 0 ∧ (readExam (writeExam e) db).highThres = e.highThres :=
  window_zero_survives e hh hl db

/-- regression witnesses for the two repaired defects (the old code, kept as separate definitions) -/
theorem C10_exam_old_code_lost_rotation_and_window :
    (writeRotationOld 2 = some 4 ∧ writeRotationOld 3 = some 4) ∧ ∀ hi : Rat, windowAcceptedOld 0 hi = false :=
  ⟨old_rotation_lost, old_window_zero_lost⟩

/-- a time frame of zero duration does not survive: it is not written, and read back as the default frame (0, 0) -/
theorem C10_exam_roundtrip_all_fails : ¬ C10_exam_roundtrip_all := by
  intro h
  have h1 := h ⟨1, 0, 0, -1, -1, -1, [(5, 5)], "", -1, -1⟩ (by norm_num) (by norm_num)
  have h2 := zero_duration_frame_lost ⟨1, 0, 0, -1, -1, -1, [(5, 5)], "", -1, -1⟩ 5 rfl none
  rw [h1] at h2
  simp [Exam.normalised] at h2

/-! ### exam information of single images and of the members of dynamic images -/

/-- "… survives the round trip" for a single image with at most one time frame: `read_interfile_image` returns what
    the header reader reconstructed (`C10_exam_roundtrip_partial`). -/
theorem C10_exam_single_roundtrip_partial (e : Exam) (h : e.Storable) (h1 : e.frames.length ≤ 1) :
    singleExam (readExam (writeExam e) none) = e.normalised :=
  single_exam_roundtrip e h h1

/-- the full statement for single images — false: of several time frames attached to a single image only the first
    is read back (`read_interfile_image`: "Only the first will be kept"; every other field survives) -/
def C10_exam_single_roundtrip_all_frames : Prop :=
  ∀ e : Exam, e.Storable → singleExam (readExam (writeExam e) none) = e.normalised

theorem C10_exam_single_keeps_first_frame (e : Exam) (h : e.Storable) (p q : Rat × Rat) (r : List (Rat × Rat))
    (hfr : e.frames = p :: q :: r) :
    singleExam (readExam (writeExam e) none) = { e.normalised with frames := [p] } :=
  single_exam_keeps_first e h p q r hfr

theorem C10_exam_single_roundtrip_all_frames_fails : ¬ C10_exam_single_roundtrip_all_frames := by
  intro h
  have hs : Exam.Storable ⟨1, 0, 0, -1, -1, -1, [(0, 10), (10, 30)], "", -1, -1⟩ := by
    constructor <;> simp
    norm_num
  have h1 := h _ hs
  rw [C10_exam_single_keeps_first_frame _ hs (0, 10) (10, 30) [] rfl] at h1
  simp [Exam.normalised] at h1

/-- "time frames … survive": member `f` of a dynamic Interfile image is read back with every stored field of the
    exam information that was written and with exactly its own time frame. -/
theorem C10_exam_member_roundtrip_partial (e : Exam) (h : e.Storable) (f : Nat) (hf1 : 1 ≤ f) (hf : f ≤ e.frames.length) :
    memberExam (readExam (writeExam e) none) f =
      some { e.normalised with frames := [e.frames[f - 1]'(by omega)] } :=
  member_exam_roundtrip e h f hf1 hf

example : Exam.Storable ⟨2, 0, 2, -1, 0, 650, [(0, 10), (10, 30), (31, 40)], "Verif-3", 100, 1 / 2⟩ ∧ 1 ≤ 3 ∧
    3 ≤ ([(0, 10), (10, 30), (31, 40)] : List (Rat × Rat)).length := by
  refine ⟨?_, by decide, by decide⟩
  constructor <;> simp
  norm_num

/-- a Multi dynamic image is assembled from its members: all fields of the first member, frame `i` := the time frame
    of member `i` (each member being a single image with one frame, `C10_exam_single_roundtrip_partial`) -/
theorem C10_exam_multi_dynamic (first : Exam) (rest : List Exam) (h : ∀ m ∈ first :: rest, m.frames.length = 1) :
    multiDynExam (first :: rest) = some { first with frames := (first :: rest).map fun m => m.frames.headD (0, 0) } :=
  multi_dyn_exam first rest h

end StirVerif.C10
