/-
C10 — proofs, part: rounding (`roundHalfAway`, `stirRound`, `wrap`) and list maximum / minimum.
-/
import StirVerif.C10.Model
import Mathlib.Tactic.Ring
import Mathlib.Tactic.Linarith
import Mathlib.Tactic.NormNum
import Mathlib.Tactic.Positivity
import Mathlib.Data.Rat.Floor
import Mathlib.Algebra.Order.Floor.Ring

namespace StirVerif.C10

theorem floor_eq (q : Rat) : q.floor = ⌊q⌋ := rfl

/-- `roundHalfAway q` is within 1/2 of `q` -/
theorem roundHalfAway_err (q : Rat) : |((roundHalfAway q : Int) : Rat) - q| ≤ 1 / 2 := by
  unfold roundHalfAway
  split
  · rw [floor_eq]
    have h1 := Int.floor_le (q + 1 / 2)
    have h2 := Int.lt_floor_add_one (q + 1 / 2)
    rw [abs_le]
    constructor <;> linarith
  · rw [floor_eq]
    have h1 := Int.floor_le (-q + 1 / 2)
    have h2 := Int.lt_floor_add_one (-q + 1 / 2)
    push_cast
    rw [abs_le]
    constructor <;> linarith

theorem roundHalfAway_intCast (n : Int) : roundHalfAway (n : Rat) = n := by
  unfold roundHalfAway
  split
  · rw [floor_eq, Int.floor_eq_iff]
    constructor <;> push_cast <;> linarith
  · rw [floor_eq]
    have : ⌊-(n : Rat) + 1 / 2⌋ = -n := by
      rw [Int.floor_eq_iff]
      constructor <;> push_cast <;> linarith
    rw [this]; ring

theorem roundHalfAway_nonneg {q : Rat} (h : 0 ≤ q) : 0 ≤ roundHalfAway q := by
  unfold roundHalfAway
  rw [if_pos h, floor_eq]
  apply Int.floor_nonneg.mpr
  linarith

theorem roundHalfAway_nonpos {q : Rat} (h : q < 0) : roundHalfAway q ≤ 0 := by
  unfold roundHalfAway
  rw [if_neg (not_le.mpr h), floor_eq]
  have : 0 ≤ ⌊-q + 1 / 2⌋ := Int.floor_nonneg.mpr (by linarith)
  linarith

theorem roundHalfAway_mono {p q : Rat} (h : p ≤ q) : roundHalfAway p ≤ roundHalfAway q := by
  by_cases hp : 0 ≤ p
  · have hq : 0 ≤ q := le_trans hp h
    unfold roundHalfAway
    rw [if_pos hp, if_pos hq, floor_eq, floor_eq]
    exact Int.floor_le_floor (by linarith)
  · have hp' : p < 0 := not_le.mp hp
    by_cases hq : 0 ≤ q
    · exact le_trans (roundHalfAway_nonpos hp') (roundHalfAway_nonneg hq)
    · unfold roundHalfAway
      rw [if_neg hp, if_neg hq, floor_eq, floor_eq]
      have : ⌊-q + 1 / 2⌋ ≤ ⌊-p + 1 / 2⌋ := Int.floor_le_floor (by linarith)
      linarith

/-- a quotient between two integers rounds to an integer between them -/
theorem roundHalfAway_range {q : Rat} {lo hi : Int} (h1 : (lo : Rat) ≤ q) (h2 : q ≤ (hi : Rat)) :
    lo ≤ roundHalfAway q ∧ roundHalfAway q ≤ hi := by
  constructor
  · have := roundHalfAway_mono h1
    rwa [roundHalfAway_intCast] at this
  · have := roundHalfAway_mono h2
    rwa [roundHalfAway_intCast] at this

theorem stirRound_some {q : Rat} (h1 : -(2 ^ 31 : Int) < roundHalfAway q) (h2 : roundHalfAway q < (2 ^ 31 : Int)) :
    stirRound q = some (roundHalfAway q) := by
  unfold stirRound
  simp only
  rw [if_pos ⟨h1, h2⟩]

theorem stirRound_none_of_ge {q : Rat} (h : (2 : Rat) ^ 31 ≤ q) : stirRound q = none := by
  unfold stirRound
  simp only
  have : (2 ^ 31 : Int) ≤ roundHalfAway q := by
    have h' : (((2 ^ 31 : Int)) : Rat) ≤ q := by push_cast; exact h
    have := roundHalfAway_mono h'
    rwa [roundHalfAway_intCast] at this
  rw [if_neg]
  intro hh
  omega

theorem wrap_unsigned_id (b : Nat) (r : Int) (h0 : 0 ≤ r) (h1 : r < 2 ^ b) : wrap false b r = r := by
  unfold wrap
  simp
  exact Int.emod_eq_of_lt h0 h1

theorem wrap_signed_id (b : Nat) (hb : 1 ≤ b) (r : Int) (h0 : -(2 ^ (b - 1)) ≤ r) (h1 : r < 2 ^ (b - 1)) :
    wrap true b r = r := by
  unfold wrap
  simp
  have hp : (2 : Int) ^ b = 2 * 2 ^ (b - 1) := by
    have : b = (b - 1) + 1 := by omega
    conv_lhs => rw [this, pow_succ]
    ring
  have : (r + 2 ^ (b - 1)) % 2 ^ b = r + 2 ^ (b - 1) := by
    apply Int.emod_eq_of_lt
    · linarith
    · rw [hp]; linarith
  rw [this]; ring

/-! ### list maximum / minimum -/

theorem foldl_max_ge (l : List Rat) (a : Rat) : a ≤ l.foldl max a ∧ ∀ x ∈ l, x ≤ l.foldl max a := by
  induction l generalizing a with
  | nil => simp
  | cons y r ih =>
    simp only [List.foldl_cons, List.mem_cons]
    have ⟨h1, h2⟩ := ih (max a y)
    refine ⟨le_trans (le_max_left a y) h1, ?_⟩
    intro x hx
    rcases hx with rfl | hx
    · exact le_trans (le_max_right a x) h1
    · exact h2 x hx

theorem foldl_min_le (l : List Rat) (a : Rat) : l.foldl min a ≤ a ∧ ∀ x ∈ l, l.foldl min a ≤ x := by
  induction l generalizing a with
  | nil => simp
  | cons y r ih =>
    simp only [List.foldl_cons, List.mem_cons]
    have ⟨h1, h2⟩ := ih (min a y)
    refine ⟨le_trans h1 (min_le_left a y), ?_⟩
    intro x hx
    rcases hx with rfl | hx
    · exact le_trans h1 (min_le_right a x)
    · exact h2 x hx

theorem foldl_max_mem (l : List Rat) (a : Rat) : l.foldl max a = a ∨ l.foldl max a ∈ l := by
  induction l generalizing a with
  | nil => simp
  | cons y r ih =>
    simp only [List.foldl_cons, List.mem_cons]
    rcases ih (max a y) with h | h
    · rw [h]
      rcases max_choice a y with h' | h'
      · left; exact h'
      · right; left; exact h'
    · right; right; exact h

theorem foldl_min_mem (l : List Rat) (a : Rat) : l.foldl min a = a ∨ l.foldl min a ∈ l := by
  induction l generalizing a with
  | nil => simp
  | cons y r ih =>
    simp only [List.foldl_cons, List.mem_cons]
    rcases ih (min a y) with h | h
    · rw [h]
      rcases min_choice a y with h' | h'
      · left; exact h'
      · right; left; exact h'
    · right; right; exact h

theorem le_dataMax {xs : List Rat} {x : Rat} (h : x ∈ xs) : x ≤ dataMax xs := by
  cases xs with
  | nil => cases h
  | cons a r =>
    simp only [dataMax]
    rcases List.mem_cons.mp h with rfl | h
    · exact (foldl_max_ge r x).1
    · exact (foldl_max_ge r a).2 x h

theorem dataMin_le {xs : List Rat} {x : Rat} (h : x ∈ xs) : dataMin xs ≤ x := by
  cases xs with
  | nil => cases h
  | cons a r =>
    simp only [dataMin]
    rcases List.mem_cons.mp h with rfl | h
    · exact (foldl_min_le r x).1
    · exact (foldl_min_le r a).2 x h

theorem dataMax_mem {xs : List Rat} (h : xs ≠ []) : dataMax xs ∈ xs := by
  cases xs with
  | nil => exact absurd rfl h
  | cons a r =>
    simp only [dataMax]
    rcases foldl_max_mem r a with h | h
    · rw [h]; exact List.mem_cons_self
    · exact List.mem_cons_of_mem _ h

theorem dataMin_mem {xs : List Rat} (h : xs ≠ []) : dataMin xs ∈ xs := by
  cases xs with
  | nil => exact absurd rfl h
  | cons a r =>
    simp only [dataMin]
    rcases foldl_min_mem r a with h | h
    · rw [h]; exact List.mem_cons_self
    · exact List.mem_cons_of_mem _ h

theorem dataMin_le_dataMax (xs : List Rat) : dataMin xs ≤ dataMax xs := by
  cases xs with
  | nil => simp [dataMin, dataMax]
  | cons a r =>
    have h : a ∈ a :: r := List.mem_cons_self
    exact le_trans (dataMin_le h) (le_dataMax h)

end StirVerif.C10
