/-
C10 — proofs, part: float / double output, the all-zero case, success and failure of `write_data`, file length.
-/
import StirVerif.C10.ProofsValues

namespace StirVerif.C10

/-! ### float output -/

theorem float_scale_one (given : Rat) (xs : List Rat) : findScaleFactor .float32 given xs = 1 := by
  simp [findScaleFactor]

theorem float_convert_exact (given : Rat) (xs : List Rat) : convertRangeReal .float32 given xs = (1, xs) := by
  simp [convertRangeReal]

theorem float_write_exact (given : Rat) (rows : List (List Rat)) :
    writeData .float32 given rows = (1, .ok (rows.map fun r => r.map Stored.real)) := by
  unfold writeData
  simp only [float_scale_one]
  congr 1
  induction rows with
  | nil => rfl
  | cons r rs ih =>
    rw [List.mapM_cons, ih]
    simp [writeRow]
    rfl

theorem decodeReal_one (v : Rat) : decodeReal 1 v = v := by simp [decodeReal]

/-! ### double output -/

theorem double_exact_given_scale (s : Rat) (hs : s ≠ 0) (x : Rat) : decodeReal s (x / s) = x := by
  unfold decodeReal
  field_simp

theorem FLT_MAX_pos : 0 < FLT_MAX := by unfold FLT_MAX; norm_num
theorem DBL_MAX_pos : 0 < DBL_MAX := by unfold DBL_MAX; norm_num

theorem flt_over_dbl : FLT_MAX / DBL_MAX * (101 / 100) ≤ 1 / 2 ^ 150 := by
  unfold FLT_MAX DBL_MAX
  have h971 : (2 : Rat) ^ 971 = 2 ^ 150 * 2 ^ 821 := by rw [← pow_add]
  have h821 : (2 : Rat) ^ 135 ≤ 2 ^ 821 := pow_le_pow_right₀ (by norm_num) (by norm_num)
  rw [h971]
  generalize (2 : Rat) ^ 821 = Y at h821
  have hY : (0 : Rat) < Y := lt_of_lt_of_le (by norm_num) h821
  rw [div_mul_eq_mul_div, div_le_div_iff₀ (by positivity) (by positivity)]
  norm_num at h821 ⊢
  nlinarith

/-- every array of `float`s gets the automatic scale factor 0 for `double` output -/
theorem double_autoscale_zero (xs : List Rat) (hx : ∀ x ∈ xs, |x| ≤ FLT_MAX) :
    findScaleFactor .float64 0 xs = 0 := by
  have hmaxb : |dataMax xs| ≤ FLT_MAX := by
    cases xs with
    | nil => simp [dataMax]; exact le_of_lt FLT_MAX_pos
    | cons a r => exact hx _ (dataMax_mem (by simp))
  have hminb : |dataMin xs| ≤ FLT_MAX := by
    cases xs with
    | nil => simp [dataMin]; exact le_of_lt FLT_MAX_pos
    | cons a r => exact hx _ (dataMin_mem (by simp))
  have hD := DBL_MAX_pos
  have hF := FLT_MAX_pos
  rw [abs_le] at hmaxb hminb
  -- both quotients are within ±FLT_MAX/DBL_MAX
  have ha1 : dataMax xs / DBL_MAX ≤ FLT_MAX / DBL_MAX := div_le_div_of_nonneg_right hmaxb.2 (le_of_lt hD)
  have ha2 : -(FLT_MAX / DBL_MAX) ≤ dataMax xs / DBL_MAX := by
    rw [← neg_div]; exact div_le_div_of_nonneg_right hmaxb.1 (le_of_lt hD)
  have hb1 : dataMin xs / (-DBL_MAX) ≤ FLT_MAX / DBL_MAX := by
    rw [div_neg, neg_le, ← neg_div]
    exact div_le_div_of_nonneg_right hminb.1 (le_of_lt hD)
  have hb2 : -(FLT_MAX / DBL_MAX) ≤ dataMin xs / (-DBL_MAX) := by
    rw [div_neg, neg_le_neg_iff]
    exact div_le_div_of_nonneg_right hminb.2 (le_of_lt hD)
  have hm1 : max (dataMax xs / DBL_MAX) (dataMin xs / (-DBL_MAX)) ≤ FLT_MAX / DBL_MAX := max_le ha1 hb1
  have hm2 : -(FLT_MAX / DBL_MAX) ≤ max (dataMax xs / DBL_MAX) (dataMin xs / (-DBL_MAX)) := le_trans ha2 (le_max_left _ _)
  have hr := flt_over_dbl
  unfold findScaleFactor
  simp only [show (NumT.float64 = NumT.float32) = False by simp, if_false, true_or, if_true]
  rw [castToFloat_eq_zero_iff]
  simp only [tmpScale, NumT.isSigned, NumT.maxValue, NumT.minValue, if_true]
  constructor
  · have : -(FLT_MAX / DBL_MAX * (101 / 100)) ≤ max (dataMax xs / DBL_MAX) (dataMin xs / (-DBL_MAX)) * (101 / 100) := by
      nlinarith
    linarith
  · have : max (dataMax xs / DBL_MAX) (dataMin xs / (-DBL_MAX)) * (101 / 100) ≤ FLT_MAX / DBL_MAX * (101 / 100) := by
      nlinarith
    linarith

/-- … and therefore zeros are written, whatever the image -/
theorem double_autoscale_writes_zeros (xs : List Rat) (hx : ∀ x ∈ xs, |x| ≤ FLT_MAX) :
    convertRangeReal .float64 0 xs = (0, xs.map fun _ => 0) := by
  unfold convertRangeReal
  simp only [show (NumT.float64 = NumT.float32) = False by simp, if_false]
  rw [double_autoscale_zero xs hx]
  simp

/-! ### the all-zero case -/

theorem dataMax_all_zero (xs : List Rat) (h : ∀ x ∈ xs, x = 0) : dataMax xs = 0 := by
  cases xs with
  | nil => rfl
  | cons a r => exact h _ (dataMax_mem (by simp))

theorem dataMin_all_zero (xs : List Rat) (h : ∀ x ∈ xs, x = 0) : dataMin xs = 0 := by
  cases xs with
  | nil => rfl
  | cons a r => exact h _ (dataMin_mem (by simp))

theorem all_zero_scale (sg : Bool) (b : Nat) (xs : List Rat) (h : ∀ x ∈ xs, x = 0) :
    findScaleFactor (.int sg b) 0 xs = 0 := by
  unfold findScaleFactor
  simp only [show (NumT.int sg b = NumT.float32) = False by simp, if_false, true_or, if_true]
  have : tmpScale (.int sg b) xs = 0 := by
    cases sg <;> simp [tmpScale, NumT.isSigned, dataMax_all_zero xs h, dataMin_all_zero xs h]
  rw [this]
  simp [castToFloat]

theorem all_zero_case (sg : Bool) (b : Nat) (xs : List Rat) (h : ∀ x ∈ xs, x = 0) :
    convertRangeInt sg b 0 xs = (0, xs.map fun _ => some 0) := by
  unfold convertRangeInt
  simp only [all_zero_scale sg b xs h, if_true]

/-! ### `write_data`: row-wise check -/

theorem mapM_ok_of_forall {α β : Type} (f : α → Except Unit β) (l : List α)
    (h : ∀ a ∈ l, ∃ b, f a = .ok b) : ∃ bs, l.mapM f = .ok bs := by
  induction l with
  | nil => exact ⟨[], rfl⟩
  | cons a r ih =>
    obtain ⟨b, hb⟩ := h a List.mem_cons_self
    obtain ⟨bs, hbs⟩ := ih (fun x hx => h x (List.mem_cons_of_mem _ hx))
    refine ⟨b :: bs, ?_⟩
    rw [List.mapM_cons, hb, hbs]
    rfl

/-- the computed scale of a part of the data is not larger than that of all data (positive `maxValue`) -/
theorem tmpScale_row_le (sg : Bool) (b : Nat) (hmax : 0 < (NumT.int sg b).maxValue) (row all : List Rat)
    (hsub : ∀ x ∈ row, x ∈ all) (hne : row ≠ []) :
    tmpScale (.int sg b) row ≤ tmpScale (.int sg b) all := by
  have h1 : dataMax row ≤ dataMax all := le_dataMax (hsub _ (dataMax_mem hne))
  have h2 : dataMin all ≤ dataMin row := dataMin_le (hsub _ (dataMin_mem hne))
  have ha : dataMax row / (NumT.int sg b).maxValue ≤ dataMax all / (NumT.int sg b).maxValue :=
    div_le_div_of_nonneg_right h1 (le_of_lt hmax)
  cases sg with
  | false =>
    rw [tmpScale_unsigned, tmpScale_unsigned]
    linarith
  | true =>
    rw [tmpScale_signed, tmpScale_signed]
    have hb : dataMin row / (NumT.int true b).minValue ≤ dataMin all / (NumT.int true b).minValue :=
      div_le_div_of_nonpos_of_le (le_of_lt (minValue_neg b)) h2
    have : max (dataMax row / (NumT.int true b).maxValue) (dataMin row / (NumT.int true b).minValue)
         ≤ max (dataMax all / (NumT.int true b).maxValue) (dataMin all / (NumT.int true b).minValue) :=
      max_le_max ha hb
    linarith

/-- **`write_data` succeeds** when the global scale factor is positive: every row keeps it -/
theorem write_succeeds_of_pos (sg : Bool) (b : Nat) (hmax : 0 < (NumT.int sg b).maxValue) (given : Rat) (hg : 0 ≤ given)
    (rows : List (List Rat)) (hne : ∀ r ∈ rows, r ≠ [])
    (hpos : 0 < findScaleFactor (.int sg b) given rows.flatten) :
    ∃ out, (writeData (.int sg b) given rows).2 = .ok out := by
  unfold writeData
  simp only
  have ⟨hle, _⟩ := scale_cases (.int sg b) (by simp) given hg rows.flatten (ne_of_gt hpos)
  generalize findScaleFactor (.int sg b) given rows.flatten = s at hpos hle
  apply mapM_ok_of_forall
  intro row hrow
  have hsub : ∀ x ∈ row, x ∈ rows.flatten := fun x hx => List.mem_flatten.mpr ⟨row, hrow, hx⟩
  have hrowle : tmpScale (.int sg b) row ≤ s := le_trans (tmpScale_row_le sg b hmax row _ hsub (hne row hrow)) hle
  have hkeep : findScaleFactor (.int sg b) s row = s := by
    unfold findScaleFactor
    simp only [show (NumT.int sg b = NumT.float32) = False by simp, if_false]
    rw [if_neg]
    rw [not_or, not_lt]
    exact ⟨ne_of_gt hpos, hrowle⟩
  unfold writeRow convertRangeInt
  simp only [hkeep, if_neg (ne_of_gt hpos)]
  simp
  have : ¬ s * 1000⁻¹ < 0 := by
    have : 0 < s * 1000⁻¹ := by positivity
    linarith
  rw [if_neg this]
  exact ⟨_, rfl⟩

/-- **`write_data` fails** whenever the global scale factor is negative (unsigned output of an all-negative
    image): the check `|new - scale| > scale * 0.001` is then true whatever the row gives -/
theorem write_fails_of_neg (sg : Bool) (b : Nat) (given : Rat) (row : List Rat) (rows : List (List Rat))
    (hneg : findScaleFactor (.int sg b) given (row :: rows).flatten < 0) :
    (writeData (.int sg b) given (row :: rows)).2 = .error () := by
  unfold writeData
  simp only
  generalize findScaleFactor (.int sg b) given (row :: rows).flatten = s at hneg
  rw [List.mapM_cons]
  have : writeRow (.int sg b) s row = .error () := by
    unfold writeRow
    simp only
    rw [if_pos]
    have h1 : s * (1 / 1000) < 0 := by nlinarith
    split <;> linarith
  rw [this]
  rfl

/-! ### file length -/

theorem truncated_file_rejected (offset sizeAll bytes fileLen : Nat) (h : fileLen < offset + sizeAll * bytes) :
    readDataset offset sizeAll bytes fileLen = .error () := by
  simp [readDataset, h]

theorem complete_file_accepted (offset sizeAll bytes fileLen : Nat) (h : offset + sizeAll * bytes ≤ fileLen) :
    readDataset offset sizeAll bytes fileLen = .ok () := by
  simp [readDataset, Nat.not_lt.mpr h]

end StirVerif.C10
