/-
C10 — "Image files round-trip voxel positions, values and exam information".

Executable model (core Lean only, exact arithmetic in `Rat`) of the arithmetic / decision core of STIR's
Interfile image writer and reader:

* header geometry      `write_basic_interfile_image_header`   src/IO/interfile.cxx:512-621
                       `create_image_and_header_from`         src/IO/interfile.cxx:87-121
* value conversion     `find_scale_factor`, `convert_range`   src/include/stir/convert_range.inl:91-185
                       `stir::round(float)`                   src/include/stir/round.inl:55-62
                       `write_data_with_fixed_scale_factor_help` (1D), `write_data`  src/include/stir/IO/write_data.inl:62-116
                       `read_interfile_image` (scaling)       src/IO/interfile.cxx:139-148
* file length          `read_data_1d`                         src/include/stir/IO/read_data_1d.inl:31-58
                       data sets of a dynamic / parametric image: offsets written by `write_basic_interfile`
                       (interfile.cxx:840-926), offsets parsed (`InterfileHeader::set_type_of_data`, InterfileHeader.cxx:422-456),
                       the reading loops of `read_interfile_dynamic_image` / `read_interfile_parametric_image`
                       (interfile.cxx:181-292) and of the Multi input formats (Multi*InputFileFormat.h)
* exam information     `write_interfile_*` helpers            src/IO/interfile.cxx:369-493, 550-580
                       `InterfileHeader::post_processing`     src/IO/InterfileHeader.cxx:253-394
                       single images (`read_interfile_image`, interfile.cxx:165-173), members of dynamic images
                       (interfile.cxx:200-220), Multi dynamic images (MultiDynamicDiscretisedDensityInputFileFormat.h:73-96)

What is modelled exactly: every formula on indices, sizes, offsets, scale factors and rounded integers, as
rational arithmetic.  What is *not* modelled: binary32/binary64 rounding of the individual operations (the
correspondence run uses a derived tolerance for it), except the one place where it changes the control flow
(`castToFloat`: a double that underflows binary32 becomes 0); decimal text formatting of header numbers (an
abstract rounding `fmt : Rat → Rat`, identity in the driver: the harness sends the printed strings); the file
system; the radionuclide data base (its answer is an input).
-/
namespace StirVerif.C10

/-! ## 1. Geometry -/

/-- a STIR `BasicCoordinate<3,_>`: order (z, y, x).  The Interfile header lists x as `[1]`, y as `[2]`, z as `[3]`. -/
structure V3 (α : Type) where
  z : α
  y : α
  x : α
  deriving Repr, DecidableEq

def V3.map {α β : Type} (f : α → β) (v : V3 α) : V3 β := ⟨f v.z, f v.y, f v.x⟩
def V3.zip {α β γ : Type} (f : α → β → γ) (a : V3 α) (b : V3 β) : V3 γ := ⟨f a.z b.z, f a.y b.y, f a.x b.x⟩

/-- what `VoxelsOnCartesianGrid<float>` knows about positions: regular index range, grid spacing, origin -/
structure Geom where
  minI : V3 Int
  maxI : V3 Int
  voxel : V3 Rat
  origin : V3 Rat
  deriving Repr, DecidableEq

/-- the geometry keys of an Interfile image header (stored here in STIR order z,y,x):
    `!matrix size [k]`, `scaling factor (mm/pixel) [k]`, `first pixel offset (mm) [k]` (absent = `none`) -/
structure Header where
  size : V3 Int
  pixel : V3 Rat
  fpo : Option (V3 Rat)
  deriving Repr, DecidableEq

/-- `DiscretisedDensity::get_physical_coordinates_for_indices` for `VoxelsOnCartesianGrid`
    (DiscretisedDensity.inl:175, VoxelsOnCartesianGrid: relative coordinate = grid_spacing * index):
    one axis. -/
def physPos1 (voxel origin : Rat) (i : Int) : Rat := voxel * i + origin

def physPos (g : Geom) (i : V3 Int) : V3 Rat :=
  ⟨physPos1 g.voxel.z g.origin.z i.z, physPos1 g.voxel.y g.origin.y i.y, physPos1 g.voxel.x g.origin.x i.x⟩

/-- physical position of the voxel that is `k` steps (per axis) after the first voxel of the index range -/
def posOfOffset (g : Geom) (k : V3 Int) : V3 Rat :=
  physPos g ⟨g.minI.z + k.z, g.minI.y + k.y, g.minI.x + k.x⟩

/-- interfile.cxx:531 `dimensions = max_indices - min_indices + 1` -/
def dimension (minI maxI : Int) : Int := maxI - minI + 1

/-- interfile.cxx:617 `first_pixel_offsets = voxel_size * min_indices + origin` (one axis) -/
def firstPixelOffset (voxel : Rat) (minI : Int) (origin : Rat) : Rat := voxel * minI + origin

/-- `write_basic_interfile_image_header` (interfile.cxx:512), geometry keys only.  `fmt` is the decimal
    formatting of `operator<<(float)` followed by the reader's decimal→double→float conversion.
    (The guard `origin.z() != InterfileHeader::double_value_not_set` at l.615 compares a `float` with the
    `double` -12345.60789, which no `float` equals: the first pixel offsets are always written.) -/
def writeHeader (fmt : Rat → Rat) (g : Geom) : Header :=
  { size := V3.zip dimension g.minI g.maxI
    pixel := g.voxel.map fmt
    fpo := some ⟨fmt (firstPixelOffset g.voxel.z g.minI.z g.origin.z),
                 fmt (firstPixelOffset g.voxel.y g.minI.y g.origin.y),
                 fmt (firstPixelOffset g.voxel.x g.minI.x g.origin.x)⟩ }

/-- interfile.cxx:107 `min_indices = make_coordinate(0, -y_size / 2, -x_size / 2)` (C integer division) -/
def readMin (size : V3 Int) : V3 Int := ⟨0, (-size.y).tdiv 2, (-size.x).tdiv 2⟩

/-- the image geometry built from a header when the index range is made to start at `m`:
    interfile.cxx:108 `max_indices = min_indices + size - 1`, l.110-118 `origin = first_pixel_offsets - voxel_size * min_indices`
    (origin 0 if the header has no first pixel offset), l.120 -/
def geomWithMin (h : Header) (m : V3 Int) : Geom :=
  { minI := m
    maxI := V3.zip (fun a s => a + s - 1) m h.size
    voxel := h.pixel
    origin := match h.fpo with
      | none => ⟨0, 0, 0⟩
      | some f => ⟨f.z - h.pixel.z * m.z, f.y - h.pixel.y * m.y, f.x - h.pixel.x * m.x⟩ }

/-- `create_image_and_header_from` (interfile.cxx:87) -/
def readGeom (h : Header) : Geom := geomWithMin h (readMin h.size)

/-! ## 2. Numeric types and scale factors -/

/-- the `NumericType`s that `write_data` / `read_data` handle (write_data.inl:140-150) -/
inductive NumT where
  | int (signed : Bool) (bits : Nat)
  | float32
  | float64
  deriving Repr, DecidableEq

def FLT_MAX : Rat := (2 ^ 24 - 1) * 2 ^ 104
def DBL_MAX : Rat := (2 ^ 53 - 1) * 2 ^ 971

/-- `NumericInfo<T>::max_value()` -/
def NumT.maxValue : NumT → Rat
  | .int true b => 2 ^ (b - 1) - 1
  | .int false b => 2 ^ b - 1
  | .float32 => FLT_MAX
  | .float64 => DBL_MAX

/-- `NumericInfo<T>::min_value()` -/
def NumT.minValue : NumT → Rat
  | .int true b => -(2 ^ (b - 1))
  | .int false _ => 0
  | .float32 => -FLT_MAX
  | .float64 => -DBL_MAX

def NumT.isSigned : NumT → Bool
  | .int s _ => s
  | _ => true

def NumT.bytes : NumT → Nat
  | .int _ b => b / 8
  | .float32 => 4
  | .float64 => 8

/-- `*std::max_element(begin, end)`; the empty range (undefined in C++) is given 0 -/
def dataMax : List Rat → Rat
  | [] => 0
  | x :: r => r.foldl max x

/-- `*std::min_element(begin, end)` -/
def dataMin : List Rat → Rat
  | [] => 0
  | x :: r => r.foldl min x

/-- `scaleT(tmp_scale)` with `scaleT = float`, `tmp_scale` a double (convert_range.inl:124): the only effect of
    the narrowing that is modelled is underflow: magnitudes up to 2⁻¹⁵⁰ (half the smallest subnormal) become 0. -/
def castToFloat (r : Rat) : Rat :=
  if -(1 / 2 ^ 150) ≤ r ∧ r ≤ 1 / 2 ^ 150 then 0 else r

/-- the double `tmp_scale` of `find_scale_factor` (convert_range.inl:109-119), input element type `float` -/
def tmpScale (t : NumT) (xs : List Rat) : Rat :=
  let a := dataMax xs / t.maxValue
  let b := if t.isSigned then max a (dataMin xs / t.minValue) else a
  b * (101 / 100)

/-- `find_scale_factor(scale_factor, begin, end, NumericInfo<T2>())` (convert_range.inl:91) with input type `float`;
    `given` is the value of `scale_factor` on entry, the result its value on exit. -/
def findScaleFactor (t : NumT) (given : Rat) (xs : List Rat) : Rat :=
  if t = .float32 then 1
  else if given = 0 ∨ tmpScale t xs > given then castToFloat (tmpScale t xs) else given

/-- round half away from zero: the value `stir::round` computes when nothing overflows -/
def roundHalfAway (q : Rat) : Int :=
  if 0 ≤ q then (q + 1 / 2).floor else -((-q + 1 / 2).floor)

/-- `int stir::round(const float x)` (round.inl:55): `static_cast<int>(x + 0.5F)` resp. `-static_cast<int>(-x + 0.5F)`;
    the float→int conversion is undefined (`none`) when the truncated value is not an `int` (32 bit). -/
def stirRound (q : Rat) : Option Int :=
  let r := roundHalfAway q
  if -(2 ^ 31) < r ∧ r < 2 ^ 31 then some r else none

/-- `static_cast<OutType>(int)`: modular for the integer types -/
def wrap (signed : Bool) (bits : Nat) (r : Int) : Int :=
  if signed then (r + 2 ^ (bits - 1)) % 2 ^ bits - 2 ^ (bits - 1) else r % 2 ^ bits

/-- one element of the integer branch of `convert_range` (convert_range.inl:160-176) -/
def convertOne (signed : Bool) (bits : Nat) (s : Rat) (x : Rat) : Option Int :=
  if !signed && decide (x < 0) then some 0 else (stirRound (x / s)).map (wrap signed bits)

/-- what the element should be: the correctly rounded quotient (negative → 0 for unsigned) -/
def convertIdeal (signed : Bool) (s : Rat) (x : Rat) : Int :=
  if !signed && decide (x < 0) then 0 else roundHalfAway (x / s)

/-- `convert_range` to an integer type (convert_range.inl:130): returns the scale factor used and the elements
    (`none` = undefined behaviour in `stir::round`) -/
def convertRangeInt (signed : Bool) (bits : Nat) (given : Rat) (xs : List Rat) : Rat × List (Option Int) :=
  let s := findScaleFactor (.int signed bits) given xs
  if s = 0 then (s, xs.map fun _ => some 0) else (s, xs.map (convertOne signed bits s))

/-- `convert_range` to `float` (specialisation for equal iterator types, convert_range.inl:181: scale 1, copy)
    or `double` (l.152: `*in / scale_factor`) -/
def convertRangeReal (t : NumT) (given : Rat) (xs : List Rat) : Rat × List Rat :=
  if t = .float32 then (1, xs)
  else
    let s := findScaleFactor t given xs
    if s = 0 then (s, xs.map fun _ => 0) else (s, xs.map (· / s))

/-- elements as stored in the data file -/
inductive Stored where
  | int (v : Option Int)
  | real (v : Rat)
  deriving Repr, DecidableEq

/-- `write_data_with_fixed_scale_factor_help(is_1d, …)` (write_data.inl:52-72) for one row (innermost dimension):
    the row is converted with `new_scale_factor` initialised to the global one; if the conversion changed it by
    more than 0.1 % the function returns `Succeeded::no`. -/
def writeRow (t : NumT) (s : Rat) (row : List Rat) : Except Unit (List Stored) :=
  match t with
  | .float32 => .ok (row.map .real)      -- typeid equal and scale 1: raw write
  | .int sg b =>
    let (s', out) := convertRangeInt sg b s row
    if (if s' - s < 0 then s - s' else s' - s) > s * (1 / 1000) then .error () else .ok (out.map .int)
  | .float64 =>
    let (s', out) := convertRangeReal .float64 s row
    if (if s' - s < 0 then s - s' else s' - s) > s * (1 / 1000) then .error () else .ok (out.map .real)

/-- `write_data(s, data, NumericType, scale, byte_order)` (write_data.inl:119) on an array given as its rows:
    global `find_scale_factor`, then row by row.  (`write_basic_interfile` ignores the returned `Succeeded`:
    interfile.cxx:755, 841, 888.) -/
def writeData (t : NumT) (given : Rat) (rows : List (List Rat)) : Rat × Except Unit (List (List Stored)) :=
  let s := findScaleFactor t given rows.flatten
  (s, rows.mapM (writeRow t s))

/-- the reader: `read_data` converts the stored number to `float` with scale 1, `read_interfile_image`
    multiplies by the header's `image scaling factor` (interfile.cxx:146-148) -/
def decodeInt (sHdr : Rat) (q : Int) : Rat := q * sHdr
def decodeReal (sHdr : Rat) (v : Rat) : Rat := v * sHdr

/-! ## 3. Data-file length -/

/-- `seekg(offset)` + `read_data` of an array of `sizeAll` elements of `bytes` bytes from a file of `fileLen` bytes
    (read_data_1d.inl:44-50: `s.read(ptr, num_to_read); if (!s) return Succeeded::no`).
    Assumed stream semantics: `read` sets failbit iff fewer than `num_to_read` bytes remain. -/
def readDataset (offset sizeAll bytes fileLen : Nat) : Except Unit Unit :=
  if fileLen < offset + sizeAll * bytes then .error () else .ok ()

/-! ## 4. Exam information -/

/-- the part of `ExamInfo` that the Interfile image header stores.
    modality: 0 Unknown, 1 PT, 2 NM, 3 MR, 4 CT, 5 US, 6 Optical (`ImagingModality::ImagingModalityValue`);
    orientation: 0 head_in, 1 feet_in, 2 other, 3 unknown; rotation: 0 supine, 1 prone, 2 right, 3 left, 4 other, 5 unknown
    (`PatientPosition`); time frames as (start, end). -/
structure Exam where
  modality : Nat
  orientation : Nat
  rotation : Nat
  calibration : Rat
  lowThres : Rat
  highThres : Rat
  frames : List (Rat × Rat)
  rnName : String
  rnHalfLife : Rat
  rnBranching : Rat
  deriving Repr, DecidableEq

/-- the exam-information keys of the header; `none` = key not written -/
structure ExamHeader where
  modality : Option Nat
  orientation : Option Nat          -- index in `patient_orientation_values`
  rotation : Option Nat             -- index in `patient_rotation_values`
  calibration : Option Rat
  window : Option (Rat × Rat)
  numFrames : Nat
  frames : List (Nat × Rat × Rat)   -- (frame number, duration, relative start time)
  rnName : Option String
  rnHalfLife : Option Rat
  rnBranching : Option Rat
  deriving Repr, DecidableEq

def enumFrom1 {α : Type} : Nat → List α → List (Nat × α)
  | _, [] => []
  | n, a :: r => (n, a) :: enumFrom1 (n + 1) r

/-- `write_interfile_modality`, `write_interfile_patient_position` (interfile.cxx:369-416: supine, prone, right, left,
    other are written under their own names, unknown is not written), calibration factor, `write_interfile_radionuclide_info` (l.475),
    `write_interfile_time_frame_definitions` (l.412: frames with duration ≤ 0 are skipped),
    `write_interfile_energy_windows` (l.438) -/
def writeExam (e : Exam) : ExamHeader :=
  { modality := if e.modality = 0 then none else some e.modality
    orientation := if e.orientation < 3 then some e.orientation else none
    rotation := if e.rotation < 5 then some e.rotation else none
    calibration := if e.calibration > 0 then some e.calibration else none
    window := if e.highThres > 0 ∧ e.lowThres ≥ 0 then some (e.lowThres, e.highThres) else none
    numFrames := if e.frames.length > 0 then e.frames.length else 1
    frames := ((enumFrom1 1 e.frames).filter fun p => p.2.2 - p.2.1 > 0).map fun p => (p.1, p.2.2 - p.2.1, p.2.1)
    rnName := if e.rnName ≠ "" ∧ e.rnName ≠ "Unknown" then some e.rnName else none
    rnHalfLife := if e.rnHalfLife > 0 then some e.rnHalfLife else none
    rnBranching := if e.rnBranching > 0 then some e.rnBranching else none }

def lookupFrame (l : List (Nat × Rat × Rat)) (k : Nat) : Rat × Rat :=
  match l.find? (fun p => p.1 = k) with
  | some p => (p.2.2, p.2.2 + p.2.1)   -- (start, start + duration)
  | none => (0, 0)                     -- `read_frames_info` default: start 0, duration 0

/-- `InterfileHeader::post_processing` (InterfileHeader.cxx:253), exam-information part.
    `db` is the answer of `RadionuclideDB::get_radionuclide(modality, name)` for the name looked up
    (`none` = not in the data base); defaults as set by the `InterfileHeader` constructor (l.139-174). -/
def readExam (h : ExamHeader) (db : Option (Rat × Rat)) : Exam :=
  let modality := h.modality.getD 0
  let name := h.rnName.getD ""
  let (rn, hl, br) : String × Rat × Rat :=
    match db with
    | some (dhl, dbr) =>
        -- found: the data-base record (its name is the looked-up name; default nuclide for an empty name)
        ((if name = "" then (if modality = 1 then "^18^Fluorine" else "^99m^Technetium") else name), dhl, dbr)
    | none => ((if name = "" then "Unknown" else name), h.rnHalfLife.getD (-1), h.rnBranching.getD (-1))
  let win : Rat × Rat :=
    match h.window with
    | some (lo, hi) => if hi > 0 ∧ lo ≥ 0 then (lo, hi) else (-1, -1)   -- l.384: `upper > 0 && lower >= 0`
    | none => (-1, -1)
  { modality := modality
    orientation := h.orientation.getD 3
    rotation := h.rotation.getD 5
    calibration := h.calibration.getD (-1)
    lowThres := win.1
    highThres := win.2
    frames := (List.range h.numFrames).map fun k => lookupFrame h.frames (k + 1)
    rnName := rn
    rnHalfLife := hl
    rnBranching := br }

/-- `read_interfile_image` (interfile.cxx:165-173): a single image keeps only the first time frame of the header
    (`set_num_time_frames(1)`, with a warning); 0 or 1 frames are left alone. -/
def singleExam (e : Exam) : Exam :=
  if e.frames.length > 1 then { e with frames := e.frames.take 1 } else e

/-- `TimeFrameDefinitions(org_frame_defs, frame_num)` (TimeFrameDefinitions.cxx:250): the one frame `frame_num`
    (1-based); `get_start_time` throws for a frame number beyond the list (`none`). -/
def frameOf (frames : List (Rat × Rat)) (f : Nat) : Option (List (Rat × Rat)) :=
  if f = 0 then none else (frames[f - 1]?).map fun p => [p]

/-- `read_interfile_dynamic_image` (interfile.cxx:200, 219-220): the exam information of member `f` of a dynamic image
    is the header's exam information with the time frame definitions replaced by frame `f` alone. -/
def memberExam (e : Exam) (f : Nat) : Option Exam :=
  (frameOf e.frames f).map fun fr => { e with frames := fr }

/-- `MultiDynamicDiscretisedDensityInputFileFormat::read_from_file` (MultiDynamicDiscretisedDensityInputFileFormat.h:73-96):
    every member is read as a single image and must have exactly one time frame (`error` otherwise = `none`); the
    container's exam information is the first member's, with time frame `i` := the frame of member `i`. -/
def multiDynExam (members : List Exam) : Option Exam :=
  match members with
  | [] => none                      -- (a `DynamicDiscretisedDensity` without exam information from any file)
  | first :: _ =>
    if members.all (fun m => m.frames.length == 1) then
      some { first with frames := members.map fun m => m.frames.headD (0, 0) }
    else none

/-! ## 5. Files with several data sets (dynamic / parametric images) -/

/-- `write_basic_interfile(…, DynamicDiscretisedDensity | ParametricVoxelsOnCartesianGrid, …)` (interfile.cxx:840-926):
    `file_offsets[i-1] = output_data.tellp()` before each `write_data`; when every `write_data` writes its
    `sizeAll·bytes` bytes, data set `i` (0-based) starts at `i·sizeAll·bytes`. -/
def datasetOffsets (nsets sizeAll bytes : Nat) : List Nat :=
  (List.range nsets).map fun i => i * (sizeAll * bytes)

/-- the offsets the reader uses.  `data offset in bytes` is a registered (vectorised) key only after
    `!type of data := PET` (`InterfileHeader::set_type_of_data`, InterfileHeader.cxx:431-441; in the `Tomographic`
    branch the key is inside `#if 0`, l.451-454), and the writer announces `Tomographic` for modality NM
    (interfile.cxx:592): for NM the lines `data offset in bytes[i] := …` are not recognised and every entry keeps the
    default 0 of `read_frames_info` (l.466). -/
def parsedOffsets (nm : Bool) (offsets : List Nat) : List Nat :=
  if nm then offsets.map fun _ => 0 else offsets

/-- the loop over the data sets in `read_interfile_dynamic_image` / `read_interfile_parametric_image`
    (interfile.cxx:201-224, 255-289): `seekg(offset[i])`, `read_data`; the first failure makes the function return 0. -/
def readAll (sizeAll bytes fileLen : Nat) : List Nat → Except Unit Unit
  | [] => .ok ()
  | o :: r =>
    match readDataset o sizeAll bytes fileLen with
    | .error e => .error e
    | .ok _ => readAll sizeAll bytes fileLen r

/-- `read_interfile_dynamic_image` (interfile.cxx:200-214, since repo commit 0e66b8adc): a frame after the first one
    whose parsed offset is 0 (the default: no `data offset in bytes[frame]` was given, or the key was not recognised)
    follows the previous frame in the file, `offset = previous_offset + frame_size_in_bytes`; `prev` is the offset used
    for the previous frame. -/
def followAux (frameBytes prev : Nat) : List Nat → List Nat
  | [] => []
  | o :: r =>
    let o' := if o = 0 then prev + frameBytes else o
    o' :: followAux frameBytes o' r

/-- the offsets `read_interfile_dynamic_image` seeks to, from the parsed ones (the first frame's is used as parsed) -/
def dynamicOffsets (frameBytes : Nat) : List Nat → List Nat
  | [] => []
  | o :: r => o :: followAux frameBytes o r

/-- the offsets the reading loop seeks to: `read_interfile_dynamic_image` (`dyn = true`) lets frames follow each
    other; `read_interfile_parametric_image` (interfile.cxx:268-272) uses the parsed offsets as they are. -/
def usedOffsets (dyn nm : Bool) (offsets : List Nat) (sizeAll bytes : Nat) : List Nat :=
  if dyn then dynamicOffsets (sizeAll * bytes) (parsedOffsets nm offsets) else parsedOffsets nm offsets

/-- reading an Interfile dynamic (`dyn = true`) / parametric (`dyn = false`) image whose header announces the data
    sets at `offsets` -/
def readDatasets (dyn nm : Bool) (offsets : List Nat) (sizeAll bytes fileLen : Nat) : Except Unit Unit :=
  readAll sizeAll bytes fileLen (usedOffsets dyn nm offsets sizeAll bytes)

/-- reading a Multi image (`Multi…InputFileFormat::read_from_file`): every member is a single image in a data file of
    its own (length `lens[i]`), read from offset 0; `read_from_file` of a member that cannot be read throws. -/
def readMembers (sizeAll bytes : Nat) : List Nat → Except Unit Unit
  | [] => .ok ()
  | len :: r =>
    match readDataset 0 sizeAll bytes len with
    | .error e => .error e
    | .ok _ => readMembers sizeAll bytes r

end StirVerif.C10
