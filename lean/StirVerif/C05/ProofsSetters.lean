/-
C05 — the public setters and `already_set_up` (`Obj`, `Obj.set`, `setUpMembers`, `Obj.answer` of Model.lean): the flag is on only
while every member that enters the quantities is the one the last successful `set_up` worked with.
-/
import StirVerif.C05.Model
import Mathlib.Tactic.Common

namespace StirVerif.C05

/-- what the flag promises: the members that enter the quantities are those the last successful `set_up` left, the number of
    subsets is positive, and a range that stands for "all of the data" is the range of the data -/
def Inv (d : Data) (o : Obj) : Prop :=
  o.already = true → ∃ s, o.snap = some s ∧ o.m.core = s.core ∧ 0 < o.m.numSubsets ∧
    ((o.m.maxSegDefault = true ∨ o.m.maxSeg = -1) → o.m.maxSeg = d.segMax o.m.projData) ∧
    ((o.m.maxTofDefault = true ∨ o.m.maxTof = -1) → o.m.maxTof = d.tofMax o.m.projData)

theorem inv_new (d : Data) : Inv d Obj.new := by
  intro h; simp [Obj.new] at h

theorem clampSubsets_pos {n : Int} (h : 0 < n) : clampSubsets n = n := by
  unfold clampSubsets; split <;> omega

/-- every setter but `parse` keeps the promise -/
theorem inv_set (d : Data) (o : Obj) (s : Setter) (hs : Event.noParse (.set s) = true) (h : Inv d o) : Inv d (o.set s) := by
  obtain ⟨m, al, snap, pr, sr⟩ := o
  obtain ⟨ns, pd, ad, nm, pp, sg, sgd, tf, tfd, ze, us, rc, tn, sn, fn, fd, pri⟩ := m
  cases s with
  | numSubsets n =>
    intro ha
    simp only [Obj.set, Bool.and_eq_true, beq_iff_eq] at ha
    obtain ⟨ha, hn⟩ := ha
    subst hn
    obtain ⟨s, h1, h2, h3, h4, h5⟩ := h ha
    simp only at h3
    exact ⟨s, h1, by simpa [Obj.set, clampSubsets_pos h3] using h2, by simpa [Obj.set, clampSubsets_pos h3] using h3, h4, h5⟩
  | projData p => intro ha; simp [Obj.set] at ha
  | inputData p => intro ha; simp [Obj.set] at ha
  | additive p => intro ha; simp [Obj.set] at ha
  | normalisation p => intro ha; simp [Obj.set] at ha
  | projectorPair p => intro ha; simp [Obj.set] at ha
  | sensFilename p => intro ha; simp [Obj.set] at ha
  | subsensFilenames p => intro ha; simp [Obj.set] at ha
  | subsetSensSptr a p => intro ha; simp [Obj.set] at ha
  | maxSegment k =>
    intro ha
    simp only [Obj.set, Bool.and_eq_true, beq_iff_eq] at ha
    obtain ⟨ha, hk⟩ := ha
    subst hk
    obtain ⟨s, h1, h2, h3, h4, h5⟩ := h ha
    refine ⟨s, h1, by simpa [Obj.set, Members.core] using h2, h3, ?_, h5⟩
    intro hh
    simp only [Obj.set] at hh ⊢
    rcases hh with hh | hh
    · simp at hh
    · exact h4 (Or.inr hh)
  | maxTof k =>
    intro ha
    simp only [Obj.set, Bool.and_eq_true, beq_iff_eq] at ha
    obtain ⟨ha, hk⟩ := ha
    subst hk
    obtain ⟨s, h1, h2, h3, h4, h5⟩ := h ha
    refine ⟨s, h1, by simpa [Obj.set, Members.core] using h2, h3, h4, ?_⟩
    intro hh
    simp only [Obj.set] at hh ⊢
    rcases hh with hh | hh
    · simp at hh
    · exact h5 (Or.inr hh)
  | zeroEndPlanes b =>
    intro ha
    simp only [Obj.set, Bool.and_eq_true, beq_iff_eq] at ha
    obtain ⟨ha, hk⟩ := ha
    subst hk
    exact h ha
  | useSubsetSens b =>
    intro ha
    simp only [Obj.set, Bool.and_eq_true, beq_iff_eq] at ha
    obtain ⟨ha, hk⟩ := ha
    subst hk
    exact h ha
  | frameNum b =>
    intro ha
    simp only [Obj.set, Bool.and_eq_true, beq_iff_eq] at ha
    obtain ⟨ha, hk⟩ := ha
    subst hk
    exact h ha
  | frameDefs b =>
    intro ha
    simp only [Obj.set, Bool.and_eq_true, beq_iff_eq] at ha
    obtain ⟨ha, hk⟩ := ha
    subst hk
    exact h ha
  | recomputeSens b =>
    intro ha
    obtain ⟨s, h1, h2, h3, h4, h5⟩ := h ha
    exact ⟨s, h1, by simpa [Obj.set, Members.core] using h2, h3, h4, h5⟩
  | prior p r =>
    intro ha
    obtain ⟨s, h1, h2, h3, h4, h5⟩ := h ha
    exact ⟨s, h1, by simpa [Obj.set, Members.core] using h2, h3, h4, h5⟩
  | parseKeys z k => simp [Event.noParse] at hs

/-! ### `set_up` -/

/-- "a range that stands for all of the data is the range of the data" -/
def RangesOK (d : Data) (m : Members) : Prop :=
  ((m.maxSegDefault = true ∨ m.maxSeg = -1) → m.maxSeg = d.segMax m.projData) ∧
  ((m.maxTofDefault = true ∨ m.maxTof = -1) → m.maxTof = d.tofMax m.projData)

theorem suRecompute_core (w : Call) (m : Members) : (suRecompute w m).core = m.core := by
  unfold suRecompute; split <;> rfl

theorem suRecompute_fields (w : Call) (m : Members) :
    (suRecompute w m).numSubsets = m.numSubsets ∧ (suRecompute w m).projData = m.projData ∧
    (suRecompute w m).maxSeg = m.maxSeg ∧ (suRecompute w m).maxSegDefault = m.maxSegDefault ∧
    (suRecompute w m).maxTof = m.maxTof ∧ (suRecompute w m).maxTofDefault = m.maxTofDefault := by
  unfold suRecompute; split <;> simp

theorem suSeg_fields (d : Data) (m : Members) :
    (suSeg d m).numSubsets = m.numSubsets ∧ (suSeg d m).projData = m.projData ∧
    (suSeg d m).maxTof = m.maxTof ∧ (suSeg d m).maxTofDefault = m.maxTofDefault := by
  unfold suSeg; split <;> simp

theorem suTof_fields (d : Data) (m : Members) :
    (suTof d m).numSubsets = m.numSubsets ∧ (suTof d m).projData = m.projData ∧
    (suTof d m).maxSeg = m.maxSeg ∧ (suTof d m).maxSegDefault = m.maxSegDefault := by
  unfold suTof; split <;> simp

/-- after the segment step the segment range is no longer the placeholder -/
theorem suSeg_ok (d : Data) (m : Members) :
    ((suSeg d m).maxSegDefault = true ∨ (suSeg d m).maxSeg = -1) → (suSeg d m).maxSeg = d.segMax (suSeg d m).projData := by
  unfold suSeg
  split
  · intro _; rfl
  · rename_i hc
    simp only [Bool.or_eq_true, beq_iff_eq, not_or] at hc
    intro hh
    rcases hh with hh | hh
    · exact absurd hh hc.2
    · exact absurd hh hc.1

theorem suTof_ok (d : Data) (m : Members) :
    ((suTof d m).maxTofDefault = true ∨ (suTof d m).maxTof = -1) → (suTof d m).maxTof = d.tofMax (suTof d m).projData := by
  unfold suTof
  split
  · intro _; rfl
  · rename_i hc
    simp only [Bool.or_eq_true, beq_iff_eq, not_or] at hc
    intro hh
    rcases hh with hh | hh
    · exact absurd hh hc.2
    · exact absurd hh hc.1

/-- on members whose ranges are already those of the data the two range steps change nothing that enters the quantities -/
theorem suSeg_core (d : Data) (m : Members) (h : (m.maxSegDefault = true ∨ m.maxSeg = -1) → m.maxSeg = d.segMax m.projData) :
    (suSeg d m).core = m.core := by
  unfold suSeg
  split
  · rename_i hc
    simp only [Bool.or_eq_true, beq_iff_eq] at hc
    have := h (hc.symm)
    simp [Members.core, ← this]
  · rfl

theorem suTof_core (d : Data) (m : Members) (h : (m.maxTofDefault = true ∨ m.maxTof = -1) → m.maxTof = d.tofMax m.projData) :
    (suTof d m).core = m.core := by
  unfold suTof
  split
  · rename_i hc
    simp only [Bool.or_eq_true, beq_iff_eq] at hc
    have := h (hc.symm)
    simp [Members.core, ← this]
  · rfl

/-- the members `set_up` leaves, successful or not, are one of the four stages -/
theorem setUpMembers_stage (d : Data) (w : Call) (m : Members) :
    (setUpMembers d w m).2 = m ∨ (setUpMembers d w m).2 = suRecompute w m ∨
    (setUpMembers d w m).2 = suSeg d (suRecompute w m) ∨ (setUpMembers d w m).2 = suTof d (suSeg d (suRecompute w m)) := by
  unfold setUpMembers
  simp only
  repeat' split
  all_goals simp

/-- a successful `set_up` went through all stages, with a positive number of subsets -/
theorem setUpMembers_success (d : Data) (w : Call) (m : Members) (h : (setUpMembers d w m).1 = true) :
    (setUpMembers d w m).2 = suTof d (suSeg d (suRecompute w m)) ∧ 0 < m.numSubsets := by
  unfold setUpMembers at h ⊢
  simp only at h ⊢
  split_ifs at h ⊢ with h0
  exact ⟨rfl, by omega⟩

/-- the stages keep the core members and the promise about the ranges, when the ranges were those of the data to begin with -/
theorem stages_core (d : Data) (w : Call) (m : Members) (h : RangesOK d m) :
    (suRecompute w m).core = m.core ∧ (suSeg d (suRecompute w m)).core = m.core ∧
    (suTof d (suSeg d (suRecompute w m))).core = m.core ∧
    RangesOK d (suRecompute w m) ∧ RangesOK d (suSeg d (suRecompute w m)) ∧ RangesOK d (suTof d (suSeg d (suRecompute w m))) := by
  obtain ⟨f1, f2, f3, f4, f5, f6⟩ := suRecompute_fields w m
  have r1 : RangesOK d (suRecompute w m) := by
    unfold RangesOK; rw [f2, f3, f4, f5, f6]; exact h
  obtain ⟨g1, g2, g3, g4⟩ := suSeg_fields d (suRecompute w m)
  have r2 : RangesOK d (suSeg d (suRecompute w m)) := by
    refine ⟨suSeg_ok d _, ?_⟩
    rw [g2, g3, g4]; exact r1.2
  obtain ⟨k1, k2, k3, k4⟩ := suTof_fields d (suSeg d (suRecompute w m))
  have r3 : RangesOK d (suTof d (suSeg d (suRecompute w m))) := by
    refine ⟨?_, suTof_ok d _⟩
    rw [k2, k3, k4]; exact r2.1
  have c1 := suRecompute_core w m
  have c2 : (suSeg d (suRecompute w m)).core = m.core := by rw [suSeg_core d _ r1.1, c1]
  have c3 : (suTof d (suSeg d (suRecompute w m))).core = m.core := by rw [suTof_core d _ r2.2, c2]
  exact ⟨c1, c2, c3, r1, r2, r3⟩

/-- whatever the members were, after a successful `set_up` the ranges are those of the data where they stand for "all" -/
theorem success_rangesOK (d : Data) (w : Call) (m : Members) : RangesOK d (suTof d (suSeg d (suRecompute w m))) := by
  obtain ⟨k1, k2, k3, k4⟩ := suTof_fields d (suSeg d (suRecompute w m))
  refine ⟨?_, suTof_ok d _⟩
  rw [k2, k3, k4]; exact suSeg_ok d _

theorem stages_numSubsets (d : Data) (w : Call) (m : Members) :
    (suRecompute w m).numSubsets = m.numSubsets ∧ (suSeg d (suRecompute w m)).numSubsets = m.numSubsets ∧
    (suTof d (suSeg d (suRecompute w m))).numSubsets = m.numSubsets := by
  have a := (suRecompute_fields w m).1
  have b := (suSeg_fields d (suRecompute w m)).1
  have c := (suTof_fields d (suSeg d (suRecompute w m))).1
  exact ⟨a, by rw [b, a], by rw [c, b, a]⟩

/-- `set_up` keeps the promise: a successful one makes it true, a failing one — which leaves the flag as it was — does not
    touch a member that enters the quantities of an object whose flag was on -/
theorem inv_setUp (d : Data) (w : Call) (o : Obj) (h : Inv d o) : Inv d (o.setUp d w).2 := by
  unfold Obj.setUp
  simp only
  split
  · rename_i hok
    obtain ⟨he, hn⟩ := setUpMembers_success d w o.m hok
    intro _
    refine ⟨_, rfl, rfl, ?_, ?_⟩
    · simp only; rw [he, (stages_numSubsets d w o.m).2.2]; exact hn
    · simp only; rw [he]; exact success_rangesOK d w o.m
  · intro ha
    simp only at ha
    obtain ⟨s, h1, h2, h3, h4, h5⟩ := h ha
    obtain ⟨c1, c2, c3, r1, r2, r3⟩ := stages_core d w o.m ⟨h4, h5⟩
    obtain ⟨n1, n2, n3⟩ := stages_numSubsets d w o.m
    rcases setUpMembers_stage d w o.m with e | e | e | e
    · simp only [e]; exact ⟨s, h1, h2, h3, h4, h5⟩
    · simp only [e]; exact ⟨s, h1, by rw [c1]; exact h2, by rw [n1]; exact h3, r1.1, r1.2⟩
    · simp only [e]; exact ⟨s, h1, by rw [c2]; exact h2, by rw [n2]; exact h3, r2.1, r2.2⟩
    · simp only [e]; exact ⟨s, h1, by rw [c3]; exact h2, by rw [n3]; exact h3, r3.1, r3.2⟩

theorem inv_run (d : Data) (h : List Event) (hp : ∀ e ∈ h, Event.noParse e = true) (o : Obj) (ho : Inv d o) : Inv d (o.run d h) := by
  induction h generalizing o with
  | nil => exact ho
  | cons e es ih =>
    have he := hp e (List.mem_cons_self ..)
    have hes : ∀ e' ∈ es, Event.noParse e' = true := fun e' h' => hp e' (List.mem_cons_of_mem _ h')
    unfold Obj.run
    simp only [List.foldl_cons]
    apply ih hes
    cases e with
    | set s => exact inv_set d o s he ho
    | setUp w => exact inv_setUp d w o ho

/-- a guarded request is answered only while the flag is on -/
theorem answer_guarded (o : Obj) (r : Req) (pen : Bool) (b : Basis) (h : o.answer (.guarded r pen) = some b) :
    o.already = true ∧ b = { live := o.m, cachedFor := o.snap } := by
  simp only [Obj.answer] at h
  split_ifs at h with ha hb
  simp only [Option.some.injEq] at h
  exact ⟨by simpa using ha, h.symm⟩


/-- a setter (other than `parse`) that changes a member entering the quantities switches the flag off -/
theorem set_core_changed (o : Obj) (s : Setter) (hs : Event.noParse (.set s) = true) (hn : 0 < o.m.numSubsets)
    (hc : (o.set s).m.core ≠ o.m.core) : (o.set s).already = false := by
  obtain ⟨m, al, snap, pr, sr⟩ := o
  obtain ⟨ns, pd, ad, nm, pp, sg, sgd, tf, tfd, ze, us, rc, tn, sn, fn, fd, pri⟩ := m
  cases s with
  | numSubsets n =>
    by_contra hf
    simp only [Obj.set, Bool.not_eq_false, Bool.and_eq_true, beq_iff_eq] at hf
    obtain ⟨_, hk⟩ := hf
    subst hk
    simp only at hn
    exact hc (by simp [Obj.set, clampSubsets_pos hn])
  | maxSegment k =>
    by_contra hf
    simp only [Obj.set, Bool.not_eq_false, Bool.and_eq_true, beq_iff_eq] at hf
    obtain ⟨_, hk⟩ := hf
    subst hk
    exact hc (by simp [Obj.set, Members.core])
  | maxTof k =>
    by_contra hf
    simp only [Obj.set, Bool.not_eq_false, Bool.and_eq_true, beq_iff_eq] at hf
    obtain ⟨_, hk⟩ := hf
    subst hk
    exact hc (by simp [Obj.set, Members.core])
  | zeroEndPlanes b =>
    by_contra hf
    simp only [Obj.set, Bool.not_eq_false, Bool.and_eq_true, beq_iff_eq] at hf
    obtain ⟨_, hk⟩ := hf
    subst hk
    exact hc rfl
  | useSubsetSens b =>
    by_contra hf
    simp only [Obj.set, Bool.not_eq_false, Bool.and_eq_true, beq_iff_eq] at hf
    obtain ⟨_, hk⟩ := hf
    subst hk
    exact hc rfl
  | frameNum b =>
    by_contra hf
    simp only [Obj.set, Bool.not_eq_false, Bool.and_eq_true, beq_iff_eq] at hf
    obtain ⟨_, hk⟩ := hf
    subst hk
    exact hc rfl
  | frameDefs b =>
    by_contra hf
    simp only [Obj.set, Bool.not_eq_false, Bool.and_eq_true, beq_iff_eq] at hf
    obtain ⟨_, hk⟩ := hf
    subst hk
    exact hc rfl
  | recomputeSens b => exact absurd (by simp [Obj.set, Members.core]) hc
  | prior p r => exact absurd (by simp [Obj.set, Members.core]) hc
  | subsetSensSptr a p => rfl
  | projData p => rfl
  | inputData p => rfl
  | additive p => rfl
  | normalisation p => rfl
  | projectorPair p => rfl
  | sensFilename p => rfl
  | subsensFilenames p => rfl
  | parseKeys z k => simp [Event.noParse] at hs

/-- a new object given the members `m` (prior set up or not as `ready` says) and set up: when `set_up` succeeds, every guarded
    request is answered, from members with the same core, and the cached state was made for exactly those members -/
theorem fresh_answers (d : Data) (w : Call) (m : Members) (ready : Bool) (hm : RangesOK d m) (r : Req) (pen : Bool)
    (hok : (({ Obj.new with m := m, priorReady := ready } : Obj).setUp d w).1 = true) :
    ∃ bf, (({ Obj.new with m := m, priorReady := ready } : Obj).setUp d w).2.answer (.guarded r pen) = some bf ∧
      bf.live.core = m.core ∧ bf.cachedFor = some bf.live := by
  unfold Obj.setUp at hok ⊢
  simp only at hok ⊢
  split at hok
  · rename_i hs
    obtain ⟨he, _⟩ := setUpMembers_success d w m hs
    obtain ⟨_, _, c3, _⟩ := stages_core d w m hm
    simp only [hs, if_true]
    refine ⟨{ live := (setUpMembers d w m).2, cachedFor := some (setUpMembers d w m).2 }, ?_, ?_, rfl⟩
    · simp only [Obj.answer]
      by_cases hp : (setUpMembers d w m).2.prior = 0 <;> simp [hp]
    · simp only; rw [he]; exact c3
  · simp at hok

end StirVerif.C05
