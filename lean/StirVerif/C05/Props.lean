/-
C05 — "Poisson log-likelihood quantities equal their textbook definition".
Property theorems over the model of `Model.lean` (a transcription of
`PoissonLogLikelihoodWithLinearModelForMeanAndProjData` and the functions it calls), for an arbitrary
linearly ordered field `K` (so in particular for `ℚ`, at which the driver executes the same definitions, and
for `ℝ`), every image, every data set, every number of viewgrams / bins / voxels, every subset scheme and
every request history.  Floating point rounding is not part of the model.
-/
import StirVerif.C05.Proofs
import Mathlib.Tactic.NormNum

set_option linter.unusedSectionVars false

namespace StirVerif.C05
variable {K : Type} [Field K] [LinearOrder K] [IsStrictOrderedRing K]

/-! ## "The 'gradient plus sensitivity' quantity exceeds the gradient by exactly the sensitivity" -/

/-- the subset gradient is the "subset gradient plus sensitivity" minus the subset sensitivity, voxel by voxel,
    exactly (thresholds, end-plane clearing, trivial / non-trivial normalisation included), when the sensitivity is
    computed with the same projector on the same viewgrams (i.e. not for TOF data with a non-TOF sensitivity projector).
    A `Bin` carries its own chain of factors, so this covers normalisation factors that differ from TOF bin to TOF bin
    (`BinNormalisationFromProjData` on TOF data, cxx:134/:145) — the configurations in which the library itself switches to
    the same projector, `C05_tof_norm_uses_same_projector` below; the harness runs them since the extension of C05.
    Since the setter extension the harness evaluates this identity also on objects whose setters were called AFTER `set_up` without a
    new `set_up` (whatever such an object still answers: gradient-plus-sensitivity minus gradient against `get_subset_sensitivity`),
    which is where a flag that is not reset shows — `C05_answered_after_setters_is_fresh` below -/
theorem C05_grad_eq_gradPlusSens_sub_sens (c : Consts K) (zero : Bool) (img : Nat → K) (S : List (Viewgram K)) (v : Nat) :
    grad c zero img S v = gradPlusSens c zero img S v - sens zero S v :=
  grad_eq_gradPlusSens_sub_sens c zero img S v

/-! ## "each quantity summed over all subsets equals its full-data counterpart"
Hypothesis: the viewgrams of the subsets together are a rearrangement of the viewgrams of the data
(`Ss.flatten.Perm All`; that the library's subset scheme has this property is C06). -/

theorem C05_sum_over_subsets_grad (c : Consts K) (zero : Bool) (img : Nat → K) (Ss : List (List (Viewgram K)))
    (All : List (Viewgram K)) (h : Ss.flatten.Perm All) (v : Nat) :
    sumMap (fun S => grad c zero img S v) Ss = grad c zero img All v :=
  grad_sum_over_subsets c zero img Ss All h v

theorem C05_sum_over_subsets_gradPlusSens (c : Consts K) (zero : Bool) (img : Nat → K) (Ss : List (List (Viewgram K)))
    (All : List (Viewgram K)) (h : Ss.flatten.Perm All) (v : Nat) :
    sumMap (fun S => gradPlusSens c zero img S v) Ss = gradPlusSens c zero img All v :=
  gradPlusSens_sum_over_subsets c zero img Ss All h v

/-- the subset sensitivities add up to the sensitivity of the whole data set.  Since the re-use extension the harness asks for the
    subset sensitivities and the total not only of newly constructed objects but after every one of up to five `set_up`s of one object
    (`C05_resetup_sensitivities_textbook` below uses this theorem for the total the object then holds) -/
theorem C05_sum_over_subsets_sens (zero : Bool) (Ss : List (List (Viewgram K)))
    (All : List (Viewgram K)) (h : Ss.flatten.Perm All) (v : Nat) :
    sumMap (fun S => sens zero S v) Ss = sens zero All v :=
  sens_sum_over_subsets zero Ss All h v

theorem C05_sum_over_subsets_value (c : Consts K) (log : K → K) (zero : Bool) (img : Nat → K) (Ss : List (List (Viewgram K)))
    (All : List (Viewgram K)) (h : Ss.flatten.Perm All) :
    sumMap (fun S => value c log zero img S) Ss = value c log zero img All :=
  value_sum_over_subsets c log zero img Ss All h

/-- Hessian times input, accumulated subset after subset into the same output (`accumulate_Hessian_times_input`),
    is the Hessian times input of the full data -/
theorem C05_sum_over_subsets_hessTimes (c : Consts K) (zero : Bool) (img x : Nat → K) (Ss : List (List (Viewgram K)))
    (All : List (Viewgram K)) (h : Ss.flatten.Perm All) (out0 : K) (v : Nat) :
    Ss.foldl (fun o S => hessTimes c zero img x o S v) out0 = hessTimes c zero img x out0 All v := by
  rw [hessTimes_foldl]; exact hessTimes_perm c zero img x out0 h v

theorem C05_sum_over_subsets_approxHess (c : Consts K) (zero : Bool) (x : Nat → K) (Ss : List (List (Viewgram K)))
    (All : List (Viewgram K)) (h : Ss.flatten.Perm All) (out0 : K) (v : Nat) :
    Ss.foldl (fun o S => approxHess c zero x o S v) out0 = approxHess c zero x out0 All v := by
  rw [approxHess_foldl]; exact approxHess_perm c zero x out0 h v

/-- when `use_subset_sensitivities` is off every subset reports the total divided by the number of subsets:
    these shares again add up to the total (the harness also checks it on the sensitivity file a later `set_up` of a re-used
    object writes: file = `get_sensitivity()` = sum of the shares) -/
theorem C05_sum_over_subsets_sensShare (total : K) (n : Nat) (hn : n ≠ 0) :
    sumMap (fun _ => sensShare total (n : K)) (List.range n) = total := by
  unfold sensShare
  rw [sumMap_const, List.length_range]
  have : (n : K) ≠ 0 := by exact_mod_cast hn
  field_simp

/-! ## "with a prior the penalised quantities are the unpenalised ones minus the prior's share" -/

/-- a penalised subset quantity is the unpenalised one minus the prior's value / gradient component divided by the
    number of subsets (this is the definition transcribed from `GeneralisedObjectiveFunction`) … -/
theorem C05_penalised_eq (q p n : K) : penalised q p n = q - p / n := rfl

/-- … and over all subsets the shares add up to the whole prior term: the penalised quantities summed over the
    subsets are the summed unpenalised ones minus the prior term -/
theorem C05_penalised_sum_over_subsets {α} (q : α → K) (p : K) (Ss : List α) (hn : Ss ≠ []) :
    sumMap (fun S => penalised (q S) p (Ss.length : K)) Ss = sumMap q Ss - p :=
  penalised_sum q p Ss hn

/-- the Hessian products (`accumulate_sub_Hessian_times_input`, `add_multiplication_with_approximate_sub_Hessian`): the share
    subtracted is the prior's Hessian applied to the *input*, divided by the number of subsets
    (GeneralisedObjectiveFunction.cxx:295, :397 since 119733357; the harness oracle checks on the implementation that it
    is not the prior's Hessian applied to the output) -/
theorem C05_penalised_hessian (q priorOfInput n : K) : penalisedHess q priorOfInput n = penalised q priorOfInput n := rfl

/-- … so that over all subsets the Hessian shares, too, add up to the whole prior Hessian term -/
theorem C05_penalised_hessian_sum_over_subsets {α} (q : α → K) (priorOfInput : K) (Ss : List α) (hn : Ss ≠ []) :
    sumMap (fun S => penalisedHess (q S) priorOfInput (Ss.length : K)) Ss = sumMap q Ss - priorOfInput :=
  penalised_sum q priorOfInput Ss hn

/-- the full-data functions on an object with a prior (`compute_objective_function(image)`, `compute_gradient`): the
    unpenalised full-data quantity minus the whole prior term — which is what the penalised subset quantities add up to -/
theorem C05_penalised_full_eq_sum_over_subsets {α} (q : α → K) (p : K) (Ss : List α) (hn : Ss ≠ []) :
    penalisedFull (sumMap q Ss) p = sumMap (fun S => penalised (q S) p (Ss.length : K)) Ss := by
  rw [penalised_sum q p Ss hn]; rfl

/-- `accumulate_Hessian_times_input` on an object with a prior (the subsets accumulated one after the other into the same
    output, every step penalised with the share `H_prior·input / num_subsets`) is the unpenalised full-data Hessian product
    minus the whole prior term `H_prior·input` -/
theorem C05_penalised_full_hessTimes (c : Consts K) (zero : Bool) (img x : Nat → K) (Ss : List (List (Viewgram K)))
    (All : List (Viewgram K)) (h : Ss.flatten.Perm All) (hn : Ss ≠ []) (priorOfInput out0 : K) (v : Nat) :
    hessTimesPenFull c zero img x priorOfInput (Ss.length : K) out0 Ss v
      = penalisedFull (hessTimes c zero img x out0 All v) priorOfInput := by
  rw [hessTimesPenFull_eq, length_mul_share Ss hn, hessTimes_perm c zero img x out0 h v]; rfl

/-- likewise `add_multiplication_with_approximate_Hessian` -/
theorem C05_penalised_full_approxHess (c : Consts K) (zero : Bool) (x : Nat → K) (Ss : List (List (Viewgram K)))
    (All : List (Viewgram K)) (h : Ss.flatten.Perm All) (hn : Ss ≠ []) (priorOfInput out0 : K) (v : Nat) :
    approxHessPenFull c zero x priorOfInput (Ss.length : K) out0 Ss v
      = penalisedFull (approxHess c zero x out0 All v) priorOfInput := by
  rw [approxHessPenFull_eq, length_mul_share Ss hn, approxHess_perm c zero x out0 h v]; rfl

/-- the loop the driver executes on the per-subset products at one voxel is the model's full-data penalised Hessian product -/
theorem C05_penFullAccumulate_is_hessTimesPenFull (c : Consts K) (zero : Bool) (img x : Nat → K) (priorOfInput nn out0 : K)
    (Ss : List (List (Viewgram K))) (v : Nat) :
    penFullAccumulate (Ss.map fun S => imageAt (hessContribs c zero img x S) v) priorOfInput nn out0
      = hessTimesPenFull c zero img x priorOfInput nn out0 Ss v := by
  unfold penFullAccumulate hessTimesPenFull hessTimes
  rw [List.foldl_map]

theorem C05_penFullAccumulate_is_approxHessPenFull (c : Consts K) (zero : Bool) (x : Nat → K) (priorOfInput nn out0 : K)
    (Ss : List (List (Viewgram K))) (v : Nat) :
    penFullAccumulate (Ss.map fun S => imageAt (ahessContribs c zero x S) v) priorOfInput nn out0
      = approxHessPenFull c zero x priorOfInput nn out0 Ss v := by
  unfold penFullAccumulate approxHessPenFull approxHess
  rw [List.foldl_map]

/-! ## "every legal number of subsets", "maximum segment … range", "TOF and non-TOF … with … proj-data … normalisation":
what `set_up` makes of the configuration -/

/-- `set_up` accepts a number of subsets exactly when subset sensitivities are used or all subsets contain the same number
    of viewgrams (the counts are those of `actual_subsets_are_approximately_balanced`; the harness compares the refusal of
    the implementation with this function on counts it obtains independently) -/
theorem C05_setUp_accepts_iff (useSubsetSens : Bool) (counts : List Nat) :
    setUpAcceptsSubsets useSubsetSens counts = true ↔ (useSubsetSens = true ∨ ∀ a ∈ counts, ∀ b ∈ counts, a = b) := by
  rw [← subsetsBalanced_iff]
  unfold setUpAcceptsSubsets
  cases useSubsetSens <;> cases subsetsBalanced counts <;> simp

/-- the segment range after `set_up`: the maximum of the data for the setting `-1`, the setting itself otherwise; refused
    exactly when the setting exceeds the data.  `setting` is the value of the member when `set_up` starts: for the first `set_up`
    of an object what the caller set; for a later one see `C05_default_range_kept_when_set_up_again_fails` -/
theorem C05_segRange (setting dataMax : Int) :
    (segRangeAfterSetUp setting dataMax = none ↔ (setting ≠ -1 ∧ dataMax < setting)) ∧
    ∀ m, segRangeAfterSetUp setting dataMax = some m → m ≤ dataMax ∧ (setting = -1 → m = dataMax) ∧ (setting ≠ -1 → m = setting) := by
  unfold segRangeAfterSetUp
  by_cases hs : setting = -1
  · subst hs
    simp
  · have hb : (setting == -1) = false := by simpa using hs
    simp only [hb, Bool.false_eq_true, if_false]
    constructor
    · by_cases hgt : setting > dataMax
      · simp [hgt, hs]
      · simp [hgt, hs]
    · intro m hm
      by_cases hgt : setting > dataMax
      · simp [hgt] at hm
      · simp only [hgt, if_false, Option.some.injEq] at hm
        subst hm
        exact ⟨by omega, fun h => absurd h hs, fun _ => rfl⟩

/-- the TOF range after `set_up` ("maximum … TOF range"): the maximum TOF bin of the data for the default `-1`, the setting
    itself otherwise; refused exactly when the setting exceeds the data.  Value, gradient, sensitivity and both Hessian
    products are those of the TOF bins `-m … m` (the harness hands exactly these viewgrams to the model and to the textbook oracle) -/
theorem C05_tofRange (setting dataMax : Int) :
    (tofRangeAfterSetUp setting dataMax = none ↔ (setting ≠ -1 ∧ dataMax < setting)) ∧
    ∀ m, tofRangeAfterSetUp setting dataMax = some m → m ≤ dataMax ∧ (setting = -1 → m = dataMax) ∧ (setting ≠ -1 → m = setting) :=
  C05_segRange setting dataMax

/-- TOF data with normalisation factors per TOF bin: when `set_up` computes the sensitivities it does so with the same (TOF)
    projector as the gradient — whatever `use_tofsens` was — so that `C05_grad_eq_gradPlusSens_sub_sens` applies to what the
    library computes -/
theorem C05_tof_norm_uses_same_projector (useTofsens tofData restricted : Bool) (links : List Bool) (h : true ∈ links) :
    sensUsesSameProjector tofData (useTofsensAfterSetUp true useTofsens tofData (isTofOnlyNorm links) restricted) = true := by
  have hl : isTofOnlyNorm links = true := by
    unfold isTofOnlyNorm; exact List.any_eq_true.mpr ⟨true, h, rfl⟩
  rw [hl]
  cases useTofsens <;> cases tofData <;> cases restricted <;> rfl

/-- a TOF range below the maximum of the data: the sensitivity computed by `set_up` is the one of the same TOF bins with the
    same projector (a non-TOF sensitivity would be the sum over all TOF bins), so that gradient-plus-sensitivity minus
    gradient is that sensitivity -/
theorem C05_restricted_tof_range_uses_same_projector (useTofsens tofData normTof : Bool) :
    sensUsesSameProjector tofData (useTofsensAfterSetUp true useTofsens tofData normTof true) = true := by
  cases useTofsens <;> cases tofData <;> cases normTof <;> rfl

/-- without TOF factors and with the full TOF range — or when `set_up` does not compute the sensitivities — the switch is left
    as the user set it -/
theorem C05_tofsens_unchanged_without_tof_norm (recompute useTofsens tofData : Bool) (links : List Bool) (h : true ∉ links) :
    useTofsensAfterSetUp recompute useTofsens tofData (isTofOnlyNorm links) false = useTofsens ∧
    ∀ normTof restricted, useTofsensAfterSetUp false useTofsens tofData normTof restricted = useTofsens := by
  have hl : isTofOnlyNorm links = false := by
    unfold isTofOnlyNorm
    rw [Bool.eq_false_iff]; intro hh
    obtain ⟨b, hb, hb'⟩ := List.any_eq_true.mp hh
    simp only [id] at hb'; subst hb'; exact h hb
  rw [hl]
  refine ⟨?_, ?_⟩
  · cases recompute <;> cases useTofsens <;> cases tofData <;> rfl
  · intro normTof restricted
    cases useTofsens <;> cases tofData <;> cases normTof <;> cases restricted <;> rfl

/-- non-vacuity: 4 views in 3 subsets (2, 1, 1 viewgrams) are refused without subset sensitivities and accepted with them;
    a chain `table × FromProjData(TOF)` switches the TOF sensitivity on; segment settings -1, 1, 3 on data with maximum 2 -/
example : setUpAcceptsSubsets false [2, 1, 1] = false ∧ setUpAcceptsSubsets true [2, 1, 1] = true ∧
    setUpAcceptsSubsets false [2, 2] = true := by decide

example : useTofsensAfterSetUp true false true (isTofOnlyNorm [false, true]) false = true ∧
    useTofsensAfterSetUp false false true (isTofOnlyNorm [false, true]) false = false ∧
    useTofsensAfterSetUp true false true (isTofOnlyNorm [false]) true = true ∧
    useTofsensAfterSetUp true false true (isTofOnlyNorm [false]) false = false := by decide

example : tofRangeAfterSetUp (-1) 2 = some 2 ∧ tofRangeAfterSetUp 0 2 = some 0 ∧ tofRangeAfterSetUp 3 2 = none := by decide

example : segRangeAfterSetUp (-1) 2 = some 2 ∧ segRangeAfterSetUp 1 2 = some 1 ∧ segRangeAfterSetUp 3 2 = none := by decide

/-- **regression witness (histories)**: before fix C05-2 `set_up` stored the range it derived from the default `-1` in the member
    itself and did not remember that (cxx:590-591, :599-600 of cf0311315), so a second `set_up` of the same object started from the
    FIRST data's maximum instead of `-1` — the compositions below: first data with maximum 0 (non-TOF), then data with maximum 2
    (5 TOF bins) → range 0 instead of 2; first maximum 2, then maximum 0 → `set_up` refused; a newly constructed object gives 2 resp. 0.
    Since the fix the object remembers that the value came from the default and a later `set_up` starts from `-1` again
    (`segRangeAfterSetUp (-1) dataMax` for every `set_up`; harness: re-use histories with change `data-and-projectors`). -/
theorem C05_default_range_kept_when_set_up_again_fails :
    ((tofRangeAfterSetUp (-1) 0).bind fun member => tofRangeAfterSetUp member 2) = some 0 ∧ tofRangeAfterSetUp (-1) 2 = some 2 ∧
    ((tofRangeAfterSetUp (-1) 2).bind fun member => tofRangeAfterSetUp member 0) = none ∧ tofRangeAfterSetUp (-1) 0 = some 0 ∧
    ((segRangeAfterSetUp (-1) 1).bind fun member => segRangeAfterSetUp member 2) = some 1 ∧ segRangeAfterSetUp (-1) 2 = some 2 := by
  decide

/-! ## "… equal the expressions derived from L = Σ_b [y_b log(ybar_b) − ybar_b] with ybar = n(Pλ + a) … wherever ybar_b > 0"
The code's thresholds appear as the regular regions `RegularGrad`, `RegularValue`, `RegularHess` (ProofsTextbook.lean). -/

theorem C05_textbook_on_regular_value (c : Consts K) (log : K → K) (zero : Bool) (img : Nat → K) (S : List (Viewgram K))
    (h : RegularValue c zero img S) : value c log zero img S = tbValue log img (dataBins zero S) :=
  value_textbook c log zero img S h

theorem C05_textbook_on_regular_grad (c : Consts K) (zero : Bool) (img : Nat → K) (S : List (Viewgram K)) (v : Nat)
    (h : RegularGrad c zero img S) : grad c zero img S v = tbGrad img (dataBins zero S) v :=
  grad_textbook c zero img S v h

theorem C05_textbook_on_regular_gradPlusSens (c : Consts K) (zero : Bool) (img : Nat → K) (S : List (Viewgram K)) (v : Nat)
    (h : RegularGrad c zero img S) : gradPlusSens c zero img S v = tbGradPlusSens img (dataBins zero S) v :=
  gradPlusSens_textbook c zero img S v h

/-- the sensitivity needs no regularity -/
theorem C05_textbook_sens (zero : Bool) (S : List (Viewgram K)) (v : Nat) :
    sens zero S v = tbSens (dataBins zero S) v :=
  sens_textbook zero S v

/-- the Hessian product: over the bins of the data — end planes of segment 0 removed when `zero_seg0_end_planes` is set, as for
    value and gradient (since edcd88182 both Hessian functions clear them; before, they did not look at the flag, see
    `C05_hessTimes_before_edcd88182_not_textbook`) -/
theorem C05_textbook_on_regular_hessTimes (c : Consts K) (zero : Bool) (img x : Nat → K) (out0 : K) (S : List (Viewgram K)) (v : Nat)
    (h : RegularHess c zero img x S) : hessTimes c zero img x out0 S v = out0 + tbHessTimes img x (dataBins zero S) v :=
  hessTimes_textbook c zero img x out0 S v h

/-! ### instance used for non-vacuity and the regression witness -/

def exC : Consts ℚ := { smallNum := 1 / 1000000, maxQuot := 10000, tiny := 1 / 100000000000000000000 }
def exB1 : Bin ℚ := { endPlane := false, y := 3, a := some (1 / 2), fac := [.normFactor 2], row := [(0, 1), (1, 2)] }
def exB2 : Bin ℚ := { endPlane := true, y := 2, a := some (1 / 4), fac := [.normFactor 2, .eff (1 / 2)], row := [(1, 1)] }
def exB3 : Bin ℚ := { endPlane := false, y := 0, a := none, fac := [], row := [(0, 3)] }
def exS : List (Viewgram ℚ) := [[exB1, exB2], [exB3]]
def exImg : Nat → ℚ := fun i => if i = 0 then 1 else 2
def exX : Nat → ℚ := fun i => if i = 0 then 1 / 2 else 1

/-- the hypotheses are satisfiable by a non-trivial instance (additive term, chained normalisation, a bin without counts,
    a cleared end plane) -/
example : RegularGrad exC true exImg exS ∧ RegularValue exC true exImg exS ∧ RegularHess exC true exImg exX exS ∧
    RegularHess exC false exImg exX exS := by
  refine ⟨?_, ?_, ?_, ?_⟩
  · unfold RegularGrad
    simp only [exS, List.forall_mem_cons, List.not_mem_nil, false_imp_iff, implies_true, and_true]
    norm_num [exB1, exB2, exB3, exC, exImg, smallOf, vgMax, maxK, yEff, zeroed, ybarTB, fwd, sumMap]
  · unfold RegularValue
    simp only [exS, List.forall_mem_cons, List.not_mem_nil, false_imp_iff, implies_true, and_true]
    norm_num [exB1, exB2, exB3, exC, exImg, smallOf, vgMax, maxK, yEff, zeroed, ybarTB, fwd, sumMap, effB, undoNorm]
  · unfold RegularHess
    simp only [exS, List.forall_mem_cons, List.not_mem_nil, false_imp_iff, implies_true, and_true]
    norm_num [exB1, exB2, exB3, exC, exImg, exX, smallOf, vgMax, maxK, hessNum, zeroed, ybarTB, fwd, sumMap]
  · unfold RegularHess
    simp only [exS, List.forall_mem_cons, List.not_mem_nil, false_imp_iff, implies_true, and_true]
    norm_num [exB1, exB2, exB3, exC, exImg, exX, smallOf, vgMax, maxK, hessNum, zeroed, ybarTB, fwd, sumMap]

/-- the subsets hypothesis is satisfiable with subsets in an order different from the data -/
example : ([[[exB3]], [[exB1, exB2]]] : List (List (Viewgram ℚ))).flatten.Perm exS := by
  simp only [List.flatten_cons, List.flatten_nil, List.append_nil, List.singleton_append, exS]
  exact List.Perm.swap _ _ _

/-- non-vacuity of `C05_penalised_full_hessTimes`: two subsets in an order different from the data, a prior term 3/2, output
    filled with 1/4: both sides are the same number, and it differs from the unpenalised product -/
example : hessTimesPenFull exC true exImg exX (3 / 2) 2 (1 / 4) [[[exB3]], [[exB1, exB2]]] 1
      = penalisedFull (hessTimes exC true exImg exX (1 / 4) exS 1) (3 / 2) ∧
    hessTimesPenFull exC true exImg exX (3 / 2) 2 (1 / 4) [[[exB3]], [[exB1, exB2]]] 1 ≠ hessTimes exC true exImg exX (1 / 4) exS 1 := by
  have h := C05_penalised_full_hessTimes exC true exImg exX [[[exB3]], [[exB1, exB2]]] exS
    (by simp only [List.flatten_cons, List.flatten_nil, List.append_nil, List.singleton_append, exS]; exact List.Perm.swap _ _ _)
    (by simp) (3 / 2) (1 / 4) 1
  simp only [List.length_cons, List.length_nil] at h
  norm_num at h
  refine ⟨h, ?_⟩
  rw [h]; unfold penalisedFull; norm_num

/-- regression witness: what the code before edcd88182 computed with `zero_seg0_end_planes = true` — the Hessian product
    without looking at the flag, i.e. `hessTimes … false …` — still contains the end-plane bin `exB2` and is not the textbook
    expression over the bins of the data, whereas the product with the flag is (replayed on the implementation by the
    harness oracle: a result that contains the end planes is a plain failure now) -/
theorem C05_hessTimes_before_edcd88182_not_textbook :
    hessTimes exC false exImg exX 0 exS 1 ≠ 0 + tbHessTimes exImg exX (dataBins true exS) 1 ∧
    hessTimes exC true exImg exX 0 exS 1 = 0 + tbHessTimes exImg exX (dataBins true exS) 1 := by
  have hreg : ∀ z, RegularHess exC z exImg exX exS := by
    intro z
    unfold RegularHess
    simp only [exS, List.forall_mem_cons, List.not_mem_nil, false_imp_iff, implies_true, and_true]
    cases z <;> norm_num [exB1, exB2, exB3, exC, exImg, exX, smallOf, vgMax, maxK, hessNum, zeroed, ybarTB, fwd, sumMap]
  refine ⟨?_, C05_textbook_on_regular_hessTimes exC true exImg exX 0 exS 1 (hreg true)⟩
  rw [C05_textbook_on_regular_hessTimes exC false exImg exX 0 exS 1 (hreg false)]
  norm_num [tbHessTimes, dataBins, zeroed, exS, exB1, exB2, exB3, exImg, exX, ybarTB, fwd, sumMap, coef]

/-! ## "… the (subset) gradient … and Hessian-times-vector … equal the expressions derived from L":
the derivatives themselves, over `ℝ` with `Real.log` (Mathlib `HasDerivAt`) -/

/-- **the gradient is the derivative of the value**: on the strict regular region (counts 0 or above the
    "really zero" threshold; neither the cap of the quotient nor, strictly, the cap of the estimate active) the model's value
    is differentiable along every coordinate direction `v` and its derivative is the model's gradient at `v` -/
theorem C05_grad_is_derivative (c : Consts ℝ) (hq : 0 < c.maxQuot) (zero : Bool) (img : Nat → ℝ) (S : List (Viewgram ℝ)) (v : Nat)
    (h : StrictRegular c zero img S) :
    HasDerivAt (fun t => value c Real.log zero (shift img v t) S) (grad c zero img S v) 0 :=
  value_hasDerivAt c hq zero img S v h

/-- **the textbook Hessian product is the derivative of the gradient**: along any direction `x` the model's gradient is
    differentiable and its derivative is `−Σ_b P_bv y_b (Px)_b / (Pλ+a)_b²` over the bins of the data
    (end planes of segment 0 removed when requested) -/
theorem C05_textbook_hessian_is_derivative_of_grad (c : Consts ℝ) (hq : 0 < c.maxQuot) (zero : Bool) (img x : Nat → ℝ)
    (S : List (Viewgram ℝ)) (v : Nat) (h : StrictRegularGrad c zero img S) :
    HasDerivAt (fun t => grad c zero (shiftX img x t) S v) (tbHessTimes img x (dataBins zero S) v) 0 :=
  grad_hasDerivAt c hq zero img x S v h

/-- **what `accumulate_sub_Hessian_times_input` adds to a zero output is the derivative of the subset gradient** along the
    input, for both values of `zero_seg0_end_planes` (since edcd88182; before, only for `false`) -/
theorem C05_hess_is_derivative_of_grad (c : Consts ℝ) (hq : 0 < c.maxQuot) (zero : Bool) (img x : Nat → ℝ)
    (S : List (Viewgram ℝ)) (v : Nat) (h : StrictRegularGrad c zero img S) (hH : RegularHess c zero img x S) :
    HasDerivAt (fun t => grad c zero (shiftX img x t) S v) (hessTimes c zero img x 0 S v) 0 := by
  rw [C05_textbook_on_regular_hessTimes c zero img x 0 S v hH, zero_add]
  exact grad_hasDerivAt c hq zero img x S v h

noncomputable def exCR : Consts ℝ := { smallNum := 1 / 1000000, maxQuot := 10000, tiny := 1 / 100000000000000000000 }
noncomputable def exR1 : Bin ℝ := { endPlane := false, y := 3, a := some (1 / 2), fac := [.normFactor 2], row := [(0, 1), (1, 2)] }
noncomputable def exR2 : Bin ℝ := { endPlane := true, y := 2, a := some (1 / 4), fac := [.normFactor 2, .eff (1 / 2)], row := [(1, 1)] }
noncomputable def exR3 : Bin ℝ := { endPlane := false, y := 0, a := none, fac := [], row := [(0, 3)] }
noncomputable def exSR : List (Viewgram ℝ) := [[exR1, exR2], [exR3]]
noncomputable def exImgR : Nat → ℝ := fun i => if i = 0 then 1 else 2

/-- the strict regular regions are inhabited by a non-trivial instance -/
example : 0 < exCR.maxQuot ∧ StrictRegular exCR true exImgR exSR ∧ StrictRegularGrad exCR false exImgR exSR := by
  refine ⟨by norm_num [exCR], ?_, ?_⟩
  · unfold StrictRegular
    simp only [exSR, List.forall_mem_cons, List.not_mem_nil, false_imp_iff, implies_true, and_true]
    norm_num [exR1, exR2, exR3, exCR, exImgR, smallOf, vgMax, maxK, yEff, zeroed, ybarTB, fwd, sumMap, effB, undoNorm]
  · unfold StrictRegularGrad
    simp only [exSR, List.forall_mem_cons, List.not_mem_nil, false_imp_iff, implies_true, and_true]
    norm_num [exR1, exR2, exR3, exCR, exImgR, smallOf, vgMax, maxK, yEff, zeroed, ybarTB, fwd, sumMap]

noncomputable def exXR : Nat → ℝ := fun i => if i = 0 then 1 / 2 else 1

/-- the hypotheses of `C05_hess_is_derivative_of_grad` with `zero_seg0_end_planes = true` are satisfiable (an end-plane bin
    with counts is present) -/
example : StrictRegularGrad exCR true exImgR exSR ∧ RegularHess exCR true exImgR exXR exSR := by
  refine ⟨?_, ?_⟩
  · unfold StrictRegularGrad
    simp only [exSR, List.forall_mem_cons, List.not_mem_nil, false_imp_iff, implies_true, and_true]
    norm_num [exR1, exR2, exR3, exCR, exImgR, smallOf, vgMax, maxK, yEff, zeroed, ybarTB, fwd, sumMap]
  · unfold RegularHess
    simp only [exSR, List.forall_mem_cons, List.not_mem_nil, false_imp_iff, implies_true, and_true]
    norm_num [exR1, exR2, exR3, exCR, exImgR, exXR, smallOf, vgMax, maxK, hessNum, zeroed, ybarTB, fwd, sumMap]

/-! ## histories: ONE object set up several times — the cached (subset) sensitivities
"… the (subset) sensitivity … returned by the Poisson log-likelihood … equal the expressions derived from L …" and
"each quantity summed over all subsets equals its full-data counterpart", quantified over *histories*: the members
`subsensitivity_sptrs` / `sensitivity_sptr` survive from one `set_up` to the next (`SensObj`: a heap of images and the
pointers into it, `setUpSens` = the sensitivity part of `PoissonLogLikelihoodWithLinearModelForMean::set_up`,
`compute_sensitivities`, `set_total_or_subset_sensitivities`, reading and writing the sensitivity files).  The harness
drives one real object through 2–5 `set_up`s with changed configurations and compares `get_subset_sensitivity` /
`get_sensitivity` with the state of the model object after every one (`hsetup` / `hsub` / `htot` lines). -/

/-- **a `set_up` that computes the sensitivities forgets the past**: for ANY state `o` of the object (whatever earlier
    `set_up`s, with whatever data, normalisation, number of subsets, `use_subset_sensitivities`, left in
    `subsensitivity_sptrs` / `sensitivity_sptr`, dangling or shared pointers included) and any files on disk, any image type and
    operations, any number of subsets `n ≥ 1`: if `set_up` is not refused and computes the sensitivities (`willCompute`: the
    member `recompute_sensitivity` is on, or there is nothing to read), then it succeeds and afterwards
    * with `use_subset_sensitivities`: `get_subset_sensitivity(s)` is `0 + inc s` (an image of zeroes to which
      `add_subset_sensitivity(·, s)` was applied once) for every `s < n`, and `get_sensitivity()` is subset 0's plus subsets 1 … n−1;
    * without: `get_sensitivity()` is the image of zeroes with all subsets accumulated, `get_subset_sensitivity(s)` that divided by `n`;
    the member `recompute_sensitivity` is on and the files are what `writeSens` makes of them.  Nothing on the right-hand sides
    mentions `o`: the result is that of a newly constructed object (next theorem). -/
theorem C05_resetup_sensitivities {I : Type} (ops : ImgOps I) (c : SensCfg) (inc : Nat → I) (o : SensObj I) (files : SensFiles I)
    (hn : 0 < c.n) (hacc : c.accepted = true) (hw : willCompute c o = true) :
    (setUpSens ops c inc o files).1 = true ∧
    (c.useSub = true →
      (∀ t, t < c.n → (setUpSens ops c inc o files).2.1.getSub t = some (ops.add ops.zero (inc t))) ∧
      (setUpSens ops c inc o files).2.1.getTot = some (sumSubs ops (fun t => ops.add ops.zero (inc t)) (c.n - 1))) ∧
    (c.useSub = false →
      (∀ t, t < c.n → (setUpSens ops c inc o files).2.1.getSub t = some (ops.divN (accSens ops inc c.n) c.n)) ∧
      (setUpSens ops c inc o files).2.1.getTot = some (accSens ops inc c.n)) ∧
    (setUpSens ops c inc o files).2.1.recompute = true ∧
    (setUpSens ops c inc o files).2.2 = writeSens c (setUpSens ops c inc o files).2.1 files :=
  setUpSens_computes ops c inc o files hn hacc hw

/-- **re-used object = fresh object**: after a computing `set_up`, every subset sensitivity and the total sensitivity of an object
    in ANY earlier state are those of a newly constructed object given the same configuration (whose `recompute_sensitivity` the
    caller switched on), and the same files are written -/
theorem C05_resetup_same_as_fresh {I : Type} (ops : ImgOps I) (c : SensCfg) (inc : Nat → I) (o : SensObj I) (files : SensFiles I)
    (hn : 0 < c.n) (hacc : c.accepted = true) (hw : willCompute c o = true) :
    (∀ t, t < c.n → (setUpSens ops c inc o files).2.1.getSub t =
        (setUpSens ops c inc { (SensObj.fresh : SensObj I) with recompute := true } files).2.1.getSub t) ∧
    (setUpSens ops c inc o files).2.1.getTot =
        (setUpSens ops c inc { (SensObj.fresh : SensObj I) with recompute := true } files).2.1.getTot ∧
    (∀ t, t < c.n → (setUpSens ops c inc o files).2.2.sub t =
        (setUpSens ops c inc { (SensObj.fresh : SensObj I) with recompute := true } files).2.2.sub t) ∧
    ((c.useSub = false ∧ c.totName = true) → (setUpSens ops c inc o files).2.2.tot =
        (setUpSens ops c inc { (SensObj.fresh : SensObj I) with recompute := true } files).2.2.tot) := by
  have hwf : willCompute c { (SensObj.fresh : SensObj I) with recompute := true } = true := by simp [willCompute]
  obtain ⟨_, a1, a2, _, a4⟩ := setUpSens_computes ops c inc o files hn hacc hw
  obtain ⟨_, b1, b2, _, b4⟩ := setUpSens_computes ops c inc _ files hn hacc hwf
  have hsub : ∀ t, t < c.n → (setUpSens ops c inc o files).2.1.getSub t =
      (setUpSens ops c inc { (SensObj.fresh : SensObj I) with recompute := true } files).2.1.getSub t := by
    intro t ht
    cases hu : c.useSub
    · rw [(a2 hu).1 t ht, (b2 hu).1 t ht]
    · rw [(a1 hu).1 t ht, (b1 hu).1 t ht]
  have htot : (setUpSens ops c inc o files).2.1.getTot =
      (setUpSens ops c inc { (SensObj.fresh : SensObj I) with recompute := true } files).2.1.getTot := by
    cases hu : c.useSub
    · rw [(a2 hu).2, (b2 hu).2]
    · rw [(a1 hu).2, (b1 hu).2]
  refine ⟨hsub, htot, ?_, ?_⟩
  · intro t ht
    rw [a4, b4]
    simp only [writeSens]
    split
    · split
      · simp [ht, hsub t ht]
      · rfl
    · split <;> rfl
  · rintro ⟨hu, hname⟩
    rw [a4, b4]
    simp [writeSens, hu, hname, htot]

/-- **the sensitivity files give the sensitivities back**: a later `set_up` with `recompute_sensitivity` off — of ANY object, the
    writer itself or a second one — that finds the files a computing `set_up` of the same configuration wrote (subset files with
    `use_subset_sensitivities`, the total otherwise), succeeds, holds the same subset sensitivities and the same total as the
    writer, and leaves the files alone -/
theorem C05_sensitivity_files_read_back {I : Type} (ops : ImgOps I) (c : SensCfg) (inc inc2 : Nat → I) (o o2 : SensObj I)
    (files : SensFiles I) (hn : 0 < c.n) (hacc : c.accepted = true) (hw : willCompute c o = true)
    (hname : (if c.useSub then c.subName else c.totName) = true) (hr2 : o2.recompute = false) :
    (setUpSens ops c inc2 o2 (setUpSens ops c inc o files).2.2).1 = true ∧
      (∀ t, t < c.n → (setUpSens ops c inc2 o2 (setUpSens ops c inc o files).2.2).2.1.getSub t
          = (setUpSens ops c inc o files).2.1.getSub t) ∧
      (setUpSens ops c inc2 o2 (setUpSens ops c inc o files).2.2).2.1.getTot = (setUpSens ops c inc o files).2.1.getTot ∧
      (setUpSens ops c inc2 o2 (setUpSens ops c inc o files).2.2).2.2 = (setUpSens ops c inc o files).2.2 :=
  setUpSens_reads_back ops c inc inc2 o o2 files hn hacc hw hname hr2

/-- **after any history the sensitivities are the textbook ones** (images with values in an ordered field, voxel-wise operations;
    `Ss` = the viewgrams of the subsets, which together are a rearrangement of the viewgrams `All` of the data — C06): whatever
    state the object was in, after a computing `set_up` with `Ss.length` subsets
    * `get_sensitivity()` is the sensitivity of the whole data set, `P^T n` over `All` (`sens`: the back projection of the
      efficiencies), with and without `use_subset_sensitivities`;
    * `get_subset_sensitivity(s)` is the sensitivity of subset `s` with `use_subset_sensitivities`, the total divided by the
      number of subsets without -/
theorem C05_resetup_sensitivities_textbook (zero : Bool) (Ss : List (List (Viewgram K))) (All : List (Viewgram K))
    (h : Ss.flatten.Perm All) (c : SensCfg) (o : SensObj (Nat → K)) (files : SensFiles (Nat → K))
    (hn : c.n = Ss.length) (hpos : 0 < Ss.length) (hacc : c.accepted = true) (hw : willCompute c o = true) :
    (setUpSens (fieldOps K) c (sensInc zero Ss) o files).2.1.getTot = some (fun v => sens zero All v) ∧
    (c.useSub = true → ∀ s, s < Ss.length →
      (setUpSens (fieldOps K) c (sensInc zero Ss) o files).2.1.getSub s = some (fun v => sens zero (Ss.getD s []) v)) ∧
    (c.useSub = false → ∀ s, s < Ss.length →
      (setUpSens (fieldOps K) c (sensInc zero Ss) o files).2.1.getSub s = some (fun v => sens zero All v / (Ss.length : K))) := by
  have hn0 : 0 < c.n := by omega
  obtain ⟨_, a1, a2, _, _⟩ := setUpSens_computes (fieldOps K) c (sensInc zero Ss) o files hn0 hacc hw
  have hacc' : ∀ v, accSens (fieldOps K) (sensInc zero Ss) c.n v = sens zero All v := by
    intro v; rw [accSens_field, hn]; exact sum_sensInc zero Ss All h v
  have hsum' : ∀ v, sumSubs (fieldOps K) (fun t => (fieldOps K).add (fieldOps K).zero (sensInc zero Ss t)) (c.n - 1) v
      = sens zero All v := by
    intro v
    rw [sumSubs_field]
    have : c.n - 1 + 1 = Ss.length := by omega
    rw [this]; exact sum_sensInc zero Ss All h v
  refine ⟨?_, ?_, ?_⟩
  · cases hu : c.useSub
    · rw [(a2 hu).2]; congr 1; funext v; exact hacc' v
    · rw [(a1 hu).2]; congr 1; funext v; exact hsum' v
  · intro hu s hs
    rw [(a1 hu).1 s (by omega)]
    congr 1; funext v
    simp [fieldOps, sensInc]
  · intro hu s hs
    rw [(a2 hu).1 s (by omega)]
    congr 1; funext v
    show accSens (fieldOps K) (sensInc zero Ss) c.n v / ((c.n : Nat) : K) = _
    rw [hacc' v, hn]

/-- non-vacuity: an object that two earlier `set_up`s (3 subsets with subset sensitivities, then 2 subsets without) have left
    with images in every slot is set up a third time with 2 subsets and subset sensitivities, images = rational numbers,
    `add_subset_sensitivity` adding 10 resp. 20: the subset sensitivities are 10 and 20 (not 10 + old, 20 + old), the total 30, as
    for a new object; then the files it wrote are read back by a fourth `set_up` -/
example :
    let ops : ImgOps Rat := { zero := 0, add := (· + ·), divN := fun a n => a / n }
    let c1 : SensCfg := { useSub := true, n := 3, totName := false, subName := false, accepted := true }
    let c2 : SensCfg := { useSub := false, n := 2, totName := false, subName := false, accepted := true }
    let c3 : SensCfg := { useSub := true, n := 2, totName := false, subName := true, accepted := true }
    let r1 := setUpSens ops c1 (fun s => (s + 1 : Nat)) (SensObj.fresh : SensObj Rat) SensFiles.empty
    let r2 := setUpSens ops c2 (fun s => (7 * (s + 1) : Nat)) r1.2.1 r1.2.2
    let r3 := setUpSens ops c3 (fun s => (10 * (s + 1) : Nat)) r2.2.1 r2.2.2
    let r4 := setUpSens ops c3 (fun _ => 0) { r3.2.1 with recompute := false } r3.2.2
    willCompute c3 r2.2.1 = true ∧
    (r1.2.1.getSub 0, r1.2.1.getSub 2, r1.2.1.getTot) = (some 1, some 3, some 6) ∧
    (r2.2.1.getSub 0, r2.2.1.getSub 1, r2.2.1.getTot) = (some (21 / 2), some (21 / 2), some 21) ∧
    (r3.1, r3.2.1.getSub 0, r3.2.1.getSub 1, r3.2.1.getTot) = (true, some 10, some 20, some 30) ∧
    (r4.1, r4.2.1.getSub 0, r4.2.1.getSub 1, r4.2.1.getTot) = (true, some 10, some 20, some 30) := by
  decide +kernel

/-! ## histories: public setters called after `set_up` WITHOUT a new `set_up`
"… for any … maximum segment or TOF range and subset scheme, the value, (subset) gradient, (subset) sensitivity and
Hessian-times-vector returned … equal the expressions derived from L …", "the 'gradient plus sensitivity' quantity exceeds the
gradient by exactly the sensitivity", quantified over *histories*: the configuration an answer must be the textbook expression of is
the one the object has been given through its setters, also when they are called after `set_up`.  The model object (`Obj`: the
members, `already_set_up`, and as ghost state the members the last successful `set_up` worked with) goes through the same setter
calls as the real object in the harness (`sset` / `ssetup` / `sreq` lines: flag and observable members after every setter, accepted /
refused for every request), and every answer of the real object is compared bit for bit with a FRESH object given the new values. -/

/-- **an answered request is the fresh answer**: for every history of setter calls (any setter but `parse`, any arguments,
    same value or new value) and `set_up`s (successful or refused at any of its checks, whatever balance / files / earlier
    sensitivities it finds) applied to a newly constructed object, a request that tests `already_set_up` — value, gradient,
    gradient plus sensitivity, Hessian product, approximate Hessian, penalised or not — is answered only if
    * every member that enters the quantities (`Members.core`: number of subsets, the data, additive term, normalisation and projector
      objects, segment and TOF range, `zero_seg0_end_planes`, `use_subset_sensitivities`, the file names, frame number and
      definitions) is the member the last successful `set_up` left — so the cached subset sensitivities and the projector set-up the
      answer uses are those of the configuration the object has now; and
    * a new object given the members of this object and set up (whenever that `set_up` succeeds) answers the same request from
      members with the same core, its cached state made for them: the answer is the fresh answer.
    (Before the flag was compared with the argument — the round-3 seed clamped `num_subsets` first — `set_num_subsets(n2)` kept the
    flag on with the sensitivities of the old subset scheme; `C05_setter_changing_a_member_resets_flag` is the step that excludes it.) -/
theorem C05_answered_after_setters_is_fresh (d : Data) (h : List Event) (hp : ∀ e ∈ h, Event.noParse e = true)
    (r : Req) (pen : Bool) (b : Basis) (ha : (Obj.new.run d h).answer (.guarded r pen) = some b) :
    b.live = (Obj.new.run d h).m ∧
    (∃ s, b.cachedFor = some s ∧ b.live.core = s.core) ∧
    ∀ w : Call, (({ Obj.new with m := b.live, priorReady := (Obj.new.run d h).priorReady } : Obj).setUp d w).1 = true →
      ∃ bf, (({ Obj.new with m := b.live, priorReady := (Obj.new.run d h).priorReady } : Obj).setUp d w).2.answer (.guarded r pen)
          = some bf ∧ bf.live.core = b.live.core ∧ bf.cachedFor = some bf.live := by
  obtain ⟨hal, hb⟩ := answer_guarded _ r pen b ha
  obtain ⟨s, h1, h2, _, h4, h5⟩ := inv_run d h hp Obj.new (inv_new d) hal
  subst hb
  refine ⟨rfl, ⟨s, h1, h2⟩, ?_⟩
  intro w hok
  exact fresh_answers d w _ _ ⟨h4, h5⟩ r pen hok

/-- **the setter table is safe**: a setter call (other than `parse`) that changes a member entering the quantities switches
    `already_set_up` off — whatever the state of the object (number of subsets positive, as the setter and the constructor guarantee),
    so every request that tests the flag is refused until the next successful `set_up` -/
theorem C05_setter_changing_a_member_resets_flag (o : Obj) (s : Setter) (hs : Event.noParse (.set s) = true)
    (hn : 0 < o.m.numSubsets) (hc : (o.set s).m.core ≠ o.m.core) (r : Req) (pen : Bool) :
    (o.set s).already = false ∧ (o.set s).answer (.guarded r pen) = none := by
  have h := set_core_changed o s hs hn hc
  exact ⟨h, by simp [Obj.answer, h]⟩

/-- a setter called with the value the member already has leaves the flag and the members alone (the value setters; the pointer
    and file-name setters reset the flag whatever the argument) -/
theorem C05_setter_same_value_keeps_flag (o : Obj) :
    o.set (.numSubsets o.m.numSubsets) = { o with m := { o.m with numSubsets := clampSubsets o.m.numSubsets } } ∧
    (o.set (.zeroEndPlanes o.m.zeroEnd)) = o ∧ (o.set (.useSubsetSens o.m.useSubsetSens)) = o ∧
    (o.set (.frameNum o.m.frameNum)) = o ∧ (o.set (.frameDefs o.m.frameDefs)) = o ∧
    (o.set (.maxSegment o.m.maxSeg)).already = o.already ∧ (o.set (.maxTof o.m.maxTof)).already = o.already ∧
    (o.set (.projData o.m.projData)).already = false ∧ (o.set (.sensFilename o.m.totName)).already = false := by
  obtain ⟨m, al, snap, pr, sr⟩ := o
  simp [Obj.set]

/-- the objects of the examples: data `7` with segments `-2 … 2` and TOF bins `-1 … 1`, one time frame -/
def exData : Data := { segMax := fun _ => 2, tofMax := fun _ => 1, numFrames := fun _ => 1 }
def exCall : Call := { balanced := fun _ => true, sub0Null := true, filesOK := false }
def exConfigure : List Event :=
  [.set (.projData 7), .set (.projectorPair 3), .set (.normalisation 2), .set (.zeroEndPlanes true), .set (.numSubsets 2), .setUp exCall]

/-- non-vacuity: after configuring and `set_up`, setters called with the SAME values (the range that `set_up` derived from `-1`
    included), `set_recompute_sensitivity(false)` and a prior that is set up leave the requests answered — from members whose core is
    that of the last `set_up`; then `set_zero_seg0_end_planes(false)` (a new value) refuses everything, also after setting the old
    value back, until the next `set_up` (which, with `recompute_sensitivity` off, sensitivities in the object and no file names, is
    refused: Mean.cxx:209/:242 "filename is empty"; after `set_recompute_sensitivity(true)` it succeeds); a prior that is not set up
    refuses the penalised requests only -/
example :
    let o1 := Obj.new.run exData (exConfigure ++ [.set (.zeroEndPlanes true), .set (.maxSegment 2), .set (.numSubsets 2),
      .set (.recomputeSens false), .set (.prior 5 true)])
    let o2 := o1.run exData [.set (.zeroEndPlanes false)]
    let o3 := o2.run exData [.set (.zeroEndPlanes true)]
    let o4 := o3.run exData [.set (.recomputeSens true), .setUp { exCall with sub0Null := false }]
    let o5 := o1.run exData [.set (.prior 6 false)]
    (o1.already, (o1.answer (.guarded .value true)).map (fun b => b.live.maxSeg), o1.snap.map (·.core) == some o1.m.core) = (true, some 2, true) ∧
    (o2.already, o2.answer (.guarded (.gradient false) false)) = (false, none) ∧
    (o3.already, o3.answer (.guarded .hessian false)) = (false, none) ∧
    (o4.already, (o4.answer (.guarded .value true)).isSome, (o3.setUp exData { exCall with sub0Null := false }).1) = (true, true, false) ∧
    ((o5.answer (.guarded .value true)).isSome, (o5.answer (.guarded .value false)).isSome, (o5.answer (.guarded (.gradient true) true)).isSome)
      = (false, true, true) := by
  decide +kernel

/-- **regression witness (`parse` after `set_up`, fix C05-3)**: `parse` of a parameter text with "zero end planes of segment 0 := 0"
    on an object that was set up with the flag on used to leave `already_set_up` on (the reset at the end of `post_processing` was
    commented out): the gradient was then answered for the new flag while the cached subset sensitivities were those of the old one.
    Since the fix `parse` resets the flag like the setters and every guarded request is refused until the next `set_up`
    (harness: `parse` histories; the class `parse-after-set_up:…` no longer occurs) -/
theorem C05_parse_after_set_up_keeps_flag_fails :
    let o := Obj.new.run exData (exConfigure ++ [.set (.parseKeys false 2)])
    o.already = false ∧ o.answer (.guarded (.gradient false) false) = none ∧ o.m.zeroEnd = false := by
  decide +kernel

/-- **observation outside the property's quantifier (requests that do not test the flag)** — not a finding: C05 speaks about requests
    AFTER set-up, and no clause is contradicted by two ANSWERED quantities here, since every guarded request is refused in these
    states.  Recorded because the model transcribes it and the harness compares the answered / refused pattern (`sreq` lines):
    `get_subset_sensitivity` / `get_sensitivity` hand out the images cached by the last `set_up` and `add_subset_sensitivity` / the public
    `actual_compute_subset_gradient_without_penalty` compute from the members as they are, whatever `already_set_up` says.  After
    `set_up` with 2 subsets and `set_num_subsets(3)` the object claims 3 subsets, every guarded request is refused, and
    `get_subset_sensitivity` still answers with the state of the last `set_up` (the 2-subset scheme); after
    `set_max_segment_num_to_process(-1)` ("all segments": a new object's `set_up` makes 2 of it) `add_subset_sensitivity` runs its loop
    over the segments `1 … -1`, i.e. over nothing.  (Harness: such answers are counted as `unguarded_answered_stale`, no oracle
    verdict; the oracle "gradient plus sensitivity minus gradient = sensitivity handed out" stays strict on whatever IS answered.) -/
theorem C05_unguarded_requests_answer_stale_fails :
    let o := Obj.new.run exData (exConfigure ++ [.set (.numSubsets 3)])
    let o' := Obj.new.run exData (exConfigure ++ [.set (.maxSegment (-1))])
    (o.answer (.guarded .value false) = none ∧
      (o.answer .getSubsetSens).map (fun b => (b.live.numSubsets, b.cachedFor.map (·.numSubsets))) = some (3, some 2)) ∧
    ((o'.answer .addSubsetSens).map (fun b => b.live.maxSeg) = some (-1) ∧
      (setUpMembers exData exCall o'.m).2.maxSeg = 2) := by
  decide +kernel

/-! ## the executable accumulation used by the driver is the image of the model -/

theorem C05_accumulate_is_image (n : Nat) (cs : List (Nat × K)) (v : Nat) (hv : v < n) :
    (accumulate n cs).getD v 0 = imageAt cs v :=
  accumulate_getD n cs v hv

/-! ## "The results do not depend on the order in which value, gradient, sensitivity and Hessian products are
first requested after set-up" — the set-up flags -/

/-- for every configuration (same / separate sensitivity projector, sensitivities computed by `set_up` or not, any number
    of subsets), both values of each of the two members without initialiser, every history of requests after `set_up`:
    every request is served (no "internal error: setup_distributable_computation not called") with the projectors handed
    to `setup_distributable_computation` and the normalisation set-up that the request needs.  (Before 577b3b1e1 the value
    path tested `already || !latest` and this failed for: no recomputation, indeterminate member `true`, value first.) -/
theorem C05_setup_machine_correct (sameProj recompute : Bool) (numSubsets : Nat) (g g2 : Bool) (rs : List Req) :
    ∀ b ∈ run sameProj (St.afterSetUp sameProj recompute numSubsets g g2) rs, b = true :=
  run_ok sameProj _ (inv_afterSetUp sameProj recompute numSubsets g g2) rs

/-- the members without initialiser are never consulted in a way that matters: the outcome of every history is the same
    for all four combinations of their indeterminate values -/
theorem C05_setup_machine_indeterminate_irrelevant (sameProj recompute : Bool) (numSubsets : Nat) (g g2 g' g2' : Bool) (rs : List Req) :
    run sameProj (St.afterSetUp sameProj recompute numSubsets g g2) rs =
      run sameProj (St.afterSetUp sameProj recompute numSubsets g' g2') rs := by
  have hlen : ∀ (s : St) (rs : List Req), (run sameProj s rs).length = rs.length := by
    intro s rs; induction rs generalizing s with
    | nil => rfl
    | cons r rs ih => simp [run, ih]
  apply List.ext_getElem
  · rw [hlen, hlen]
  · intro i h1 h2
    rw [C05_setup_machine_correct sameProj recompute numSubsets g g2 rs _ (List.getElem_mem h1),
      C05_setup_machine_correct sameProj recompute numSubsets g' g2' rs _ (List.getElem_mem h2)]

/-- non-vacuity / regression: the history on which the code before 577b3b1e1 raised its internal error (sensitivities not
    recomputed, indeterminate member `true`, value first) and a history using all kinds of request with TOF data and a
    non-TOF sensitivity projector -/
example : run true (St.afterSetUp true false 1 true false) [Req.value, Req.gradient false] = [true, true] := by decide

example : run false (St.afterSetUp false true 2 true true)
    [Req.value, Req.gradient false, Req.sensitivity, Req.hessian, Req.gradient true, Req.approxHessian, Req.value]
      = [true, true, true, true, true, true, true] := by decide

end StirVerif.C05
