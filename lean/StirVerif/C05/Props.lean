import StirVerif.C05.Proofs
namespace StirVerif.C05
end StirVerif.C05
