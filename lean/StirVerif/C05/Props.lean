/-
C05 — "Poisson log-likelihood quantities equal their textbook definition".
Property theorems over the model of `Model.lean` (a transcription of
`PoissonLogLikelihoodWithLinearModelForMeanAndProjData` and the functions it calls), for an arbitrary
linearly ordered field `K` (so in particular for `ℚ`, at which the driver executes the same definitions, and
for `ℝ`), every image, every data set, every number of viewgrams / bins / voxels, every subset scheme and
every request history.  Floating point rounding is not part of the model.
-/
import StirVerif.C05.Proofs
import Mathlib.Tactic.NormNum

set_option linter.unusedSectionVars false

namespace StirVerif.C05
variable {K : Type} [Field K] [LinearOrder K] [IsStrictOrderedRing K]

/-! ## "The 'gradient plus sensitivity' quantity exceeds the gradient by exactly the sensitivity" -/

/-- the subset gradient is the "subset gradient plus sensitivity" minus the subset sensitivity, voxel by voxel,
    exactly (thresholds, end-plane clearing, trivial / non-trivial normalisation included), when the sensitivity is
    computed with the same projector on the same viewgrams (for which viewgrams that is not the case in the code see
    `C05_sensitivity_reads_subset_fails`) -/
theorem C05_grad_eq_gradPlusSens_sub_sens (c : Consts K) (zero : Bool) (img : Nat → K) (S : List (Viewgram K)) (v : Nat) :
    grad c zero img S v = gradPlusSens c zero img S v - sens zero S v :=
  grad_eq_gradPlusSens_sub_sens c zero img S v

/-! ## "each quantity summed over all subsets equals its full-data counterpart"
Hypothesis: the viewgrams of the subsets together are a rearrangement of the viewgrams of the data
(`Ss.flatten.Perm All`; that the library's subset scheme has this property is C06). -/

theorem C05_sum_over_subsets_grad (c : Consts K) (zero : Bool) (img : Nat → K) (Ss : List (List (Viewgram K)))
    (All : List (Viewgram K)) (h : Ss.flatten.Perm All) (v : Nat) :
    sumMap (fun S => grad c zero img S v) Ss = grad c zero img All v :=
  grad_sum_over_subsets c zero img Ss All h v

theorem C05_sum_over_subsets_gradPlusSens (c : Consts K) (zero : Bool) (img : Nat → K) (Ss : List (List (Viewgram K)))
    (All : List (Viewgram K)) (h : Ss.flatten.Perm All) (v : Nat) :
    sumMap (fun S => gradPlusSens c zero img S v) Ss = gradPlusSens c zero img All v :=
  gradPlusSens_sum_over_subsets c zero img Ss All h v

theorem C05_sum_over_subsets_sens (zero : Bool) (Ss : List (List (Viewgram K)))
    (All : List (Viewgram K)) (h : Ss.flatten.Perm All) (v : Nat) :
    sumMap (fun S => sens zero S v) Ss = sens zero All v :=
  sens_sum_over_subsets zero Ss All h v

theorem C05_sum_over_subsets_value (c : Consts K) (log : K → K) (zero : Bool) (img : Nat → K) (Ss : List (List (Viewgram K)))
    (All : List (Viewgram K)) (h : Ss.flatten.Perm All) :
    sumMap (fun S => value c log zero img S) Ss = value c log zero img All :=
  value_sum_over_subsets c log zero img Ss All h

/-- Hessian times input, accumulated subset after subset into the same output (`accumulate_Hessian_times_input`),
    is the Hessian times input of the full data (as read by the function, see `C05_hessian_reads_*`) -/
theorem C05_sum_over_subsets_hessTimes (c : Consts K) (img x : Nat → K) (Ss : List (List (Viewgram K)))
    (All : List (Viewgram K)) (h : Ss.flatten.Perm All) (out0 : K) (v : Nat) :
    Ss.foldl (fun o S => hessTimes c img x o S v) out0 = hessTimes c img x out0 All v := by
  rw [hessTimes_foldl]; exact hessTimes_perm c img x out0 h v

theorem C05_sum_over_subsets_approxHess (c : Consts K) (x : Nat → K) (Ss : List (List (Viewgram K)))
    (All : List (Viewgram K)) (h : Ss.flatten.Perm All) (out0 : K) (v : Nat) :
    Ss.foldl (fun o S => approxHess c x o S v) out0 = approxHess c x out0 All v := by
  rw [approxHess_foldl]; exact approxHess_perm c x out0 h v

/-- when `use_subset_sensitivities` is off every subset reports the total divided by the number of subsets:
    these shares again add up to the total -/
theorem C05_sum_over_subsets_sensShare (total : K) (n : Nat) (hn : n ≠ 0) :
    sumMap (fun _ => sensShare total (n : K)) (List.range n) = total := by
  unfold sensShare
  rw [sumMap_const, List.length_range]
  have : (n : K) ≠ 0 := by exact_mod_cast hn
  field_simp

/-! ## "with a prior the penalised quantities are the unpenalised ones minus the prior's share" -/

/-- a penalised subset quantity is the unpenalised one minus the prior's value / gradient component divided by the
    number of subsets (this is the definition transcribed from `GeneralisedObjectiveFunction`) … -/
theorem C05_penalised_eq (q p n : K) : penalised q p n = q - p / n := rfl

/-- … and over all subsets the shares add up to the whole prior term: the penalised quantities summed over the
    subsets are the summed unpenalised ones minus the prior term -/
theorem C05_penalised_sum_over_subsets {α} (q : α → K) (p : K) (Ss : List α) (hn : Ss ≠ []) :
    sumMap (fun S => penalised (q S) p (Ss.length : K)) Ss = sumMap q Ss - p :=
  penalised_sum q p Ss hn

/-- the full statement for the Hessian products: the share subtracted is the prior's Hessian applied to the *input* -/
def C05_penalised_hessian : Prop :=
  ∀ (q priorOfInput priorOfOutput n : ℚ), penalisedHess q priorOfInput priorOfOutput n = penalised q priorOfInput n

/-- the code applies the prior's Hessian to its own output: the clause holds only where that makes no difference -/
theorem C05_penalised_hessian_partial (q priorOfInput priorOfOutput n : K) (h : priorOfOutput = priorOfInput) :
    penalisedHess q priorOfInput priorOfOutput n = penalised q priorOfInput n := by
  unfold penalisedHess penalised; rw [h]

/-- negative witness (replayed on the implementation by the harness oracle, key
    `penalised-hessian:prior-hessian-applied-to-output`) -/
theorem C05_penalised_hessian_fails : ¬ C05_penalised_hessian := by
  intro h
  have := h 1 1 2 1
  norm_num [penalisedHess, penalised] at this

/-! ## "… equal the expressions derived from L = Σ_b [y_b log(ybar_b) − ybar_b] with ybar = n(Pλ + a) … wherever ybar_b > 0"
The code's thresholds appear as the regular regions `RegularGrad`, `RegularValue`, `RegularHess` (ProofsTextbook.lean). -/

theorem C05_textbook_on_regular_value (c : Consts K) (log : K → K) (zero : Bool) (img : Nat → K) (S : List (Viewgram K))
    (h : RegularValue c zero img S) : value c log zero img S = tbValue log img (dataBins zero S) :=
  value_textbook c log zero img S h

theorem C05_textbook_on_regular_grad (c : Consts K) (zero : Bool) (img : Nat → K) (S : List (Viewgram K)) (v : Nat)
    (h : RegularGrad c zero img S) : grad c zero img S v = tbGrad img (dataBins zero S) v :=
  grad_textbook c zero img S v h

theorem C05_textbook_on_regular_gradPlusSens (c : Consts K) (zero : Bool) (img : Nat → K) (S : List (Viewgram K)) (v : Nat)
    (h : RegularGrad c zero img S) : gradPlusSens c zero img S v = tbGradPlusSens img (dataBins zero S) v :=
  gradPlusSens_textbook c zero img S v h

/-- the sensitivity needs no regularity -/
theorem C05_textbook_sens (zero : Bool) (S : List (Viewgram K)) (v : Nat) :
    sens zero S v = tbSens (dataBins zero S) v :=
  sens_textbook zero S v

/-- the full statement for the Hessian product: the bins of the data (end planes of segment 0 removed when
    `zero_seg0_end_planes` is set, as for value and gradient) -/
def C05_textbook_on_regular_hessTimes : Prop :=
  ∀ (c : Consts ℚ) (zero : Bool) (img x : Nat → ℚ) (out0 : ℚ) (S : List (Viewgram ℚ)) (v : Nat),
    RegularHess c img x S → hessTimes c img x out0 S v = out0 + tbHessTimes img x (dataBins zero S) v

/-- proved part: the Hessian product is the textbook one over *all* bins of the viewgrams it reads (the function
    does not look at `zero_seg0_end_planes`), hence the full statement for `zero_seg0_end_planes = false` -/
theorem C05_textbook_on_regular_hessTimes_partial (c : Consts K) (img x : Nat → K) (out0 : K) (S : List (Viewgram K)) (v : Nat)
    (h : RegularHess c img x S) : hessTimes c img x out0 S v = out0 + tbHessTimes img x (dataBins false S) v := by
  rw [hessTimes_textbook c img x out0 S v h]
  have : dataBins false S = S.flatten := by
    unfold dataBins zeroed
    simp only [Bool.false_and, Bool.not_false]
    exact List.filter_eq_self.mpr (fun _ _ => rfl)
  rw [this]

/-! ### instance used for non-vacuity and negative witnesses -/

def exC : Consts ℚ := { smallNum := 1 / 1000000, maxQuot := 10000, tiny := 1 / 100000000000000000000 }
def exB1 : Bin ℚ := { endPlane := false, y := 3, a := some (1 / 2), fac := [.normFactor 2], row := [(0, 1), (1, 2)] }
def exB2 : Bin ℚ := { endPlane := true, y := 2, a := some (1 / 4), fac := [.normFactor 2, .eff (1 / 2)], row := [(1, 1)] }
def exB3 : Bin ℚ := { endPlane := false, y := 0, a := none, fac := [], row := [(0, 3)] }
def exS : List (Viewgram ℚ) := [[exB1, exB2], [exB3]]
def exImg : Nat → ℚ := fun i => if i = 0 then 1 else 2
def exX : Nat → ℚ := fun i => if i = 0 then 1 / 2 else 1

/-- the hypotheses are satisfiable by a non-trivial instance (additive term, chained normalisation, a bin without counts,
    a cleared end plane) -/
example : RegularGrad exC true exImg exS ∧ RegularValue exC true exImg exS ∧ RegularHess exC exImg exX exS := by
  refine ⟨?_, ?_, ?_⟩
  · unfold RegularGrad
    simp only [exS, List.forall_mem_cons, List.not_mem_nil, false_imp_iff, implies_true, and_true]
    norm_num [exB1, exB2, exB3, exC, exImg, smallOf, vgMax, maxK, yEff, zeroed, ybarTB, fwd, sumMap]
  · unfold RegularValue
    simp only [exS, List.forall_mem_cons, List.not_mem_nil, false_imp_iff, implies_true, and_true]
    norm_num [exB1, exB2, exB3, exC, exImg, smallOf, vgMax, maxK, yEff, zeroed, ybarTB, fwd, sumMap, effB, undoNorm]
  · unfold RegularHess
    simp only [exS, List.forall_mem_cons, List.not_mem_nil, false_imp_iff, implies_true, and_true]
    norm_num [exB1, exB2, exB3, exC, exImg, exX, smallOf, vgMax, maxK, hessNum, ybarTB, fwd, sumMap]

/-- the subsets hypothesis is satisfiable with subsets in an order different from the data -/
example : ([[[exB3]], [[exB1, exB2]]] : List (List (Viewgram ℚ))).flatten.Perm exS := by
  simp only [List.flatten_cons, List.flatten_nil, List.append_nil, List.singleton_append, exS]
  exact List.Perm.swap _ _ _

/-- negative witness: with `zero_seg0_end_planes = true` the Hessian product still contains the end-plane bin `exB2`
    (replayed on the implementation by the harness oracle, key `hessian:ignores-zero-seg0-end-planes`) -/
theorem C05_textbook_on_regular_hessTimes_fails : ¬ C05_textbook_on_regular_hessTimes := by
  intro h
  have h1 := h exC true exImg exX 0 exS 1 (by
    unfold RegularHess
    simp only [exS, List.forall_mem_cons, List.not_mem_nil, false_imp_iff, implies_true, and_true]
    norm_num [exB1, exB2, exB3, exC, exImg, exX, smallOf, vgMax, maxK, hessNum, ybarTB, fwd, sumMap])
  have h2 := C05_textbook_on_regular_hessTimes_partial exC exImg exX 0 exS 1 (by
    unfold RegularHess
    simp only [exS, List.forall_mem_cons, List.not_mem_nil, false_imp_iff, implies_true, and_true]
    norm_num [exB1, exB2, exB3, exC, exImg, exX, smallOf, vgMax, maxK, hessNum, ybarTB, fwd, sumMap])
  rw [h2] at h1
  norm_num [tbHessTimes, dataBins, zeroed, exS, exB1, exB2, exB3, exImg, exX, ybarTB, fwd, sumMap, coef] at h1

/-! ## "… the (subset) gradient … and Hessian-times-vector … equal the expressions derived from L":
the derivatives themselves, over `ℝ` with `Real.log` (Mathlib `HasDerivAt`) -/

/-- **the gradient is the derivative of the value**: on the strict regular region (counts 0 or above the
    "really zero" threshold; neither the cap of the quotient nor, strictly, the cap of the estimate active) the model's value
    is differentiable along every coordinate direction `v` and its derivative is the model's gradient at `v` -/
theorem C05_grad_is_derivative (c : Consts ℝ) (hq : 0 < c.maxQuot) (zero : Bool) (img : Nat → ℝ) (S : List (Viewgram ℝ)) (v : Nat)
    (h : StrictRegular c zero img S) :
    HasDerivAt (fun t => value c Real.log zero (shift img v t) S) (grad c zero img S v) 0 :=
  value_hasDerivAt c hq zero img S v h

/-- **the textbook Hessian product is the derivative of the gradient**: along any direction `x` the model's gradient is
    differentiable and its derivative is `−Σ_b P_bv y_b (Px)_b / (Pλ+a)_b²` over the bins of the data
    (end planes of segment 0 removed when requested) -/
theorem C05_textbook_hessian_is_derivative_of_grad (c : Consts ℝ) (hq : 0 < c.maxQuot) (zero : Bool) (img x : Nat → ℝ)
    (S : List (Viewgram ℝ)) (v : Nat) (h : StrictRegularGrad c zero img S) :
    HasDerivAt (fun t => grad c zero (shiftX img x t) S v) (tbHessTimes img x (dataBins zero S) v) 0 :=
  grad_hasDerivAt c hq zero img x S v h

/-- the full statement: what `accumulate_sub_Hessian_times_input` adds to a zero output is the derivative of the subset gradient -/
def C05_hess_is_derivative_of_grad : Prop :=
  ∀ (c : Consts ℝ) (zero : Bool) (img x : Nat → ℝ) (S : List (Viewgram ℝ)) (v : Nat), 0 < c.maxQuot →
    StrictRegularGrad c zero img S → RegularHess c img x S →
      HasDerivAt (fun t => grad c zero (shiftX img x t) S v) (hessTimes c img x 0 S v) 0

/-- proved for `zero_seg0_end_planes = false` (the Hessian functions read the viewgrams directly and never clear the end
    planes; for `true` see `C05_textbook_on_regular_hessTimes_fails`) and for the viewgrams the function reads
    (see `C05_hessian_reads_subset_fails` for TOF data) -/
theorem C05_hessian_end_planes_partial (c : Consts ℝ) (hq : 0 < c.maxQuot) (img x : Nat → ℝ) (S : List (Viewgram ℝ)) (v : Nat)
    (h : StrictRegularGrad c false img S) (hH : RegularHess c img x S) :
    HasDerivAt (fun t => grad c false (shiftX img x t) S v) (hessTimes c img x 0 S v) 0 := by
  rw [C05_textbook_on_regular_hessTimes_partial c img x 0 S v hH, zero_add]
  exact grad_hasDerivAt c hq false img x S v h

noncomputable def exCR : Consts ℝ := { smallNum := 1 / 1000000, maxQuot := 10000, tiny := 1 / 100000000000000000000 }
noncomputable def exR1 : Bin ℝ := { endPlane := false, y := 3, a := some (1 / 2), fac := [.normFactor 2], row := [(0, 1), (1, 2)] }
noncomputable def exR2 : Bin ℝ := { endPlane := true, y := 2, a := some (1 / 4), fac := [.normFactor 2, .eff (1 / 2)], row := [(1, 1)] }
noncomputable def exR3 : Bin ℝ := { endPlane := false, y := 0, a := none, fac := [], row := [(0, 3)] }
noncomputable def exSR : List (Viewgram ℝ) := [[exR1, exR2], [exR3]]
noncomputable def exImgR : Nat → ℝ := fun i => if i = 0 then 1 else 2

/-- the strict regular regions are inhabited by a non-trivial instance -/
example : 0 < exCR.maxQuot ∧ StrictRegular exCR true exImgR exSR ∧ StrictRegularGrad exCR false exImgR exSR := by
  refine ⟨by norm_num [exCR], ?_, ?_⟩
  · unfold StrictRegular
    simp only [exSR, List.forall_mem_cons, List.not_mem_nil, false_imp_iff, implies_true, and_true]
    norm_num [exR1, exR2, exR3, exCR, exImgR, smallOf, vgMax, maxK, yEff, zeroed, ybarTB, fwd, sumMap, effB, undoNorm]
  · unfold StrictRegularGrad
    simp only [exSR, List.forall_mem_cons, List.not_mem_nil, false_imp_iff, implies_true, and_true]
    norm_num [exR1, exR2, exR3, exCR, exImgR, smallOf, vgMax, maxK, yEff, zeroed, ybarTB, fwd, sumMap]

/-! ### which viewgrams the Hessian functions read -/

/-- the full statement: the Hessian functions process the viewgrams of the subset -/
def C05_hessian_reads_subset : Prop := ∀ (tof0 : Nat → Nat) (S : List Nat), hessReads tof0 S = S

/-- proved part: for non-TOF data (every viewgram is its own "timing position 0" sibling) they do -/
theorem C05_hessian_reads_subset_partial (tof0 : Nat → Nat) (S : List Nat) (h : ∀ i ∈ S, tof0 i = i) :
    hessReads tof0 S = S := by
  unfold hessReads
  induction S with
  | nil => rfl
  | cons i S ih =>
    simp only [List.map_cons, h i (by simp)]
    rw [ih (fun j hj => h j (by simp [hj]))]

/-- negative witness: three TOF bins per (segment, view), ids `3k + t`: the viewgrams 0,1,2 (one view, TOF bins −1,0,1
    in some numbering with sibling 0) are all processed as viewgram 0
    (replayed on the implementation by the harness oracle, key `hessian:tof-data-processed-at-timing-pos-0`) -/
theorem C05_hessian_reads_subset_fails : ¬ C05_hessian_reads_subset := by
  intro h
  have := h (fun i => i - i % 3) [0, 1, 2]
  revert this
  decide

/-- the full statement: the sensitivity back-projects along the rows of the viewgrams of the subset -/
def C05_sensitivity_reads_subset : Prop :=
  ∀ (trivialNorm zero : Bool) (tof0 : Nat → Nat) (S : List Nat), sensReads trivialNorm zero tof0 S = S

/-- proved part: it does unless the normalisation is trivial *and* `zero_seg0_end_planes` is set, and then still for non-TOF data -/
theorem C05_sensitivity_reads_subset_partial (trivialNorm zero : Bool) (tof0 : Nat → Nat) (S : List Nat)
    (h : (trivialNorm && zero) = false ∨ ∀ i ∈ S, tof0 i = i) : sensReads trivialNorm zero tof0 S = S := by
  unfold sensReads
  rcases h with h | h
  · simp [h]
  · split
    · exact C05_hessian_reads_subset_partial tof0 S h
    · rfl

/-- negative witness: trivial normalisation, `zero_seg0_end_planes`, three TOF bins: the ones that are back-projected are
    viewgrams of timing position 0 (replayed on the implementation by the harness oracle, key
    `sensitivity:tof-zero-end-planes-trivial-norm-at-timing-pos-0`) -/
theorem C05_sensitivity_reads_subset_fails : ¬ C05_sensitivity_reads_subset := by
  intro h
  have := h true true (fun i => i - i % 3) [0, 1, 2]
  revert this
  decide

/-! ## the executable accumulation used by the driver is the image of the model -/

theorem C05_accumulate_is_image (n : Nat) (cs : List (Nat × K)) (v : Nat) (hv : v < n) :
    (accumulate n cs).getD v 0 = imageAt cs v :=
  accumulate_getD n cs v hv

/-! ## "The results do not depend on the order in which value, gradient, sensitivity and Hessian products are
first requested after set-up" — the set-up flags -/

/-- the full statement: for every configuration, both values of each member without initialiser, every history of
    requests after `set_up`: every request is served (no "internal error") with the projectors handed to
    `setup_distributable_computation` and the normalisation set-up that the request needs -/
def C05_setup_machine_correct : Prop :=
  ∀ (sameProj recompute : Bool) (numSubsets : Nat) (g g2 : Bool) (rs : List Req), 0 < numSubsets →
    ∀ b ∈ run sameProj (St.afterSetUp sameProj recompute numSubsets g g2) rs, b = true

/-- proved part: it holds whenever `set_up` computes the sensitivities (the default), for both values of both
    indeterminate members, and also without recomputation if the indeterminate member
    `latest_setup_distributable_computation_was_with_orig_projectors` happens to be `false` -/
theorem C05_setup_machine_correct_partial (sameProj recompute : Bool) (numSubsets : Nat) (g g2 : Bool) (rs : List Req)
    (hn : 0 < numSubsets) (h : recompute = true ∨ g = false) :
    ∀ b ∈ run sameProj (St.afterSetUp sameProj recompute numSubsets g g2) rs, b = true := by
  apply run_ok
  rcases h with h | h
  · subst h; exact inv_afterSetUp_recompute sameProj numSubsets hn g g2
  · subst h
    cases recompute
    · exact inv_afterSetUp_norecompute sameProj numSubsets g2
    · exact inv_afterSetUp_recompute sameProj numSubsets hn false g2

/-- negative witness: sensitivities not recomputed by `set_up` (read from file / set to 1), indeterminate member `true`,
    first request = value: the condition at .cxx:742 (`already || !latest`, where the gradient path has
    `!already || !latest`) does not set up and the library raises its internal error
    (replayed on the implementation by the harness, key `setup-flag:order-dependent-value`) -/
theorem C05_setup_machine_correct_fails : ¬ C05_setup_machine_correct := by
  intro h
  have := h true false 1 true false [Req.value] (by decide) false
  revert this
  decide

/-- … for every configuration, and whatever follows; a gradient request first makes the same value request succeed -/
theorem C05_setup_machine_value_first_fails (sameProj : Bool) (n : Nat) (g2 : Bool) (rs : List Req) :
    (run sameProj (St.afterSetUp sameProj false n true g2) (Req.value :: rs)).head? = some false ∧
      (run sameProj (St.afterSetUp sameProj false n true g2) [Req.gradient false, Req.value]) = [true, true] := by
  unfold St.afterSetUp
  simp only [Bool.false_eq_true, if_false, run, List.head?_cons]
  revert sameProj g2
  decide

/-- the hypotheses of the partial theorem are those of real use: default configuration, 2 subsets, TOF data with a
    non-TOF sensitivity projector, a history using all kinds of request -/
example : ∀ b ∈ run false (St.afterSetUp false true 2 true true)
    [Req.value, Req.gradient false, Req.sensitivity, Req.hessian, Req.gradient true, Req.approxHessian, Req.value], b = true :=
  C05_setup_machine_correct_partial false true 2 true true _ (by decide) (Or.inl rfl)

end StirVerif.C05
