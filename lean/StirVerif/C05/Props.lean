/-
C05 — "Poisson log-likelihood quantities equal their textbook definition".
Property theorems over the model of `Model.lean` (a transcription of
`PoissonLogLikelihoodWithLinearModelForMeanAndProjData` and the functions it calls), for an arbitrary
linearly ordered field `K` (so in particular for `ℚ`, at which the driver executes the same definitions, and
for `ℝ`), every image, every data set, every number of viewgrams / bins / voxels, every subset scheme and
every request history.  Floating point rounding is not part of the model.
-/
import StirVerif.C05.Proofs
import Mathlib.Tactic.NormNum

set_option linter.unusedSectionVars false

namespace StirVerif.C05
variable {K : Type} [Field K] [LinearOrder K] [IsStrictOrderedRing K]

/-! ## "The 'gradient plus sensitivity' quantity exceeds the gradient by exactly the sensitivity" -/

/-- the subset gradient is the "subset gradient plus sensitivity" minus the subset sensitivity, voxel by voxel,
    exactly (thresholds, end-plane clearing, trivial / non-trivial normalisation included), when the sensitivity is
    computed with the same projector on the same viewgrams (i.e. not for TOF data with a non-TOF sensitivity projector) -/
theorem C05_grad_eq_gradPlusSens_sub_sens (c : Consts K) (zero : Bool) (img : Nat → K) (S : List (Viewgram K)) (v : Nat) :
    grad c zero img S v = gradPlusSens c zero img S v - sens zero S v :=
  grad_eq_gradPlusSens_sub_sens c zero img S v

/-! ## "each quantity summed over all subsets equals its full-data counterpart"
Hypothesis: the viewgrams of the subsets together are a rearrangement of the viewgrams of the data
(`Ss.flatten.Perm All`; that the library's subset scheme has this property is C06). -/

theorem C05_sum_over_subsets_grad (c : Consts K) (zero : Bool) (img : Nat → K) (Ss : List (List (Viewgram K)))
    (All : List (Viewgram K)) (h : Ss.flatten.Perm All) (v : Nat) :
    sumMap (fun S => grad c zero img S v) Ss = grad c zero img All v :=
  grad_sum_over_subsets c zero img Ss All h v

theorem C05_sum_over_subsets_gradPlusSens (c : Consts K) (zero : Bool) (img : Nat → K) (Ss : List (List (Viewgram K)))
    (All : List (Viewgram K)) (h : Ss.flatten.Perm All) (v : Nat) :
    sumMap (fun S => gradPlusSens c zero img S v) Ss = gradPlusSens c zero img All v :=
  gradPlusSens_sum_over_subsets c zero img Ss All h v

theorem C05_sum_over_subsets_sens (zero : Bool) (Ss : List (List (Viewgram K)))
    (All : List (Viewgram K)) (h : Ss.flatten.Perm All) (v : Nat) :
    sumMap (fun S => sens zero S v) Ss = sens zero All v :=
  sens_sum_over_subsets zero Ss All h v

theorem C05_sum_over_subsets_value (c : Consts K) (log : K → K) (zero : Bool) (img : Nat → K) (Ss : List (List (Viewgram K)))
    (All : List (Viewgram K)) (h : Ss.flatten.Perm All) :
    sumMap (fun S => value c log zero img S) Ss = value c log zero img All :=
  value_sum_over_subsets c log zero img Ss All h

/-- Hessian times input, accumulated subset after subset into the same output (`accumulate_Hessian_times_input`),
    is the Hessian times input of the full data -/
theorem C05_sum_over_subsets_hessTimes (c : Consts K) (img x : Nat → K) (Ss : List (List (Viewgram K)))
    (All : List (Viewgram K)) (h : Ss.flatten.Perm All) (out0 : K) (v : Nat) :
    Ss.foldl (fun o S => hessTimes c img x o S v) out0 = hessTimes c img x out0 All v := by
  rw [hessTimes_foldl]; exact hessTimes_perm c img x out0 h v

theorem C05_sum_over_subsets_approxHess (c : Consts K) (x : Nat → K) (Ss : List (List (Viewgram K)))
    (All : List (Viewgram K)) (h : Ss.flatten.Perm All) (out0 : K) (v : Nat) :
    Ss.foldl (fun o S => approxHess c x o S v) out0 = approxHess c x out0 All v := by
  rw [approxHess_foldl]; exact approxHess_perm c x out0 h v

/-- when `use_subset_sensitivities` is off every subset reports the total divided by the number of subsets:
    these shares again add up to the total -/
theorem C05_sum_over_subsets_sensShare (total : K) (n : Nat) (hn : n ≠ 0) :
    sumMap (fun _ => sensShare total (n : K)) (List.range n) = total := by
  unfold sensShare
  rw [sumMap_const, List.length_range]
  have : (n : K) ≠ 0 := by exact_mod_cast hn
  field_simp

/-! ## "with a prior the penalised quantities are the unpenalised ones minus the prior's share" -/

/-- a penalised subset quantity is the unpenalised one minus the prior's value / gradient component divided by the
    number of subsets (this is the definition transcribed from `GeneralisedObjectiveFunction`) … -/
theorem C05_penalised_eq (q p n : K) : penalised q p n = q - p / n := rfl

/-- … and over all subsets the shares add up to the whole prior term: the penalised quantities summed over the
    subsets are the summed unpenalised ones minus the prior term -/
theorem C05_penalised_sum_over_subsets {α} (q : α → K) (p : K) (Ss : List α) (hn : Ss ≠ []) :
    sumMap (fun S => penalised (q S) p (Ss.length : K)) Ss = sumMap q Ss - p :=
  penalised_sum q p Ss hn

/-- the Hessian products (`accumulate_sub_Hessian_times_input`, `add_multiplication_with_approximate_sub_Hessian`): the share
    subtracted is the prior's Hessian applied to the *input*, divided by the number of subsets
    (GeneralisedObjectiveFunction.cxx:295, :397 since 119733357; the harness oracle checks on the implementation that it
    is not the prior's Hessian applied to the output) -/
theorem C05_penalised_hessian (q priorOfInput n : K) : penalisedHess q priorOfInput n = penalised q priorOfInput n := rfl

/-- … so that over all subsets the Hessian shares, too, add up to the whole prior Hessian term -/
theorem C05_penalised_hessian_sum_over_subsets {α} (q : α → K) (priorOfInput : K) (Ss : List α) (hn : Ss ≠ []) :
    sumMap (fun S => penalisedHess (q S) priorOfInput (Ss.length : K)) Ss = sumMap q Ss - priorOfInput :=
  penalised_sum q priorOfInput Ss hn

/-! ## "… equal the expressions derived from L = Σ_b [y_b log(ybar_b) − ybar_b] with ybar = n(Pλ + a) … wherever ybar_b > 0"
The code's thresholds appear as the regular regions `RegularGrad`, `RegularValue`, `RegularHess` (ProofsTextbook.lean). -/

theorem C05_textbook_on_regular_value (c : Consts K) (log : K → K) (zero : Bool) (img : Nat → K) (S : List (Viewgram K))
    (h : RegularValue c zero img S) : value c log zero img S = tbValue log img (dataBins zero S) :=
  value_textbook c log zero img S h

theorem C05_textbook_on_regular_grad (c : Consts K) (zero : Bool) (img : Nat → K) (S : List (Viewgram K)) (v : Nat)
    (h : RegularGrad c zero img S) : grad c zero img S v = tbGrad img (dataBins zero S) v :=
  grad_textbook c zero img S v h

theorem C05_textbook_on_regular_gradPlusSens (c : Consts K) (zero : Bool) (img : Nat → K) (S : List (Viewgram K)) (v : Nat)
    (h : RegularGrad c zero img S) : gradPlusSens c zero img S v = tbGradPlusSens img (dataBins zero S) v :=
  gradPlusSens_textbook c zero img S v h

/-- the sensitivity needs no regularity -/
theorem C05_textbook_sens (zero : Bool) (S : List (Viewgram K)) (v : Nat) :
    sens zero S v = tbSens (dataBins zero S) v :=
  sens_textbook zero S v

/-- the full statement for the Hessian product: the bins of the data (end planes of segment 0 removed when
    `zero_seg0_end_planes` is set, as for value and gradient) -/
def C05_textbook_on_regular_hessTimes : Prop :=
  ∀ (c : Consts ℚ) (zero : Bool) (img x : Nat → ℚ) (out0 : ℚ) (S : List (Viewgram ℚ)) (v : Nat),
    RegularHess c img x S → hessTimes c img x out0 S v = out0 + tbHessTimes img x (dataBins zero S) v

/-- proved part: the Hessian product is the textbook one over *all* bins of the viewgrams it reads (the function
    does not look at `zero_seg0_end_planes`), hence the full statement for `zero_seg0_end_planes = false` -/
theorem C05_textbook_on_regular_hessTimes_partial (c : Consts K) (img x : Nat → K) (out0 : K) (S : List (Viewgram K)) (v : Nat)
    (h : RegularHess c img x S) : hessTimes c img x out0 S v = out0 + tbHessTimes img x (dataBins false S) v := by
  rw [hessTimes_textbook c img x out0 S v h]
  have : dataBins false S = S.flatten := by
    unfold dataBins zeroed
    simp only [Bool.false_and, Bool.not_false]
    exact List.filter_eq_self.mpr (fun _ _ => rfl)
  rw [this]

/-! ### instance used for non-vacuity and negative witnesses -/

def exC : Consts ℚ := { smallNum := 1 / 1000000, maxQuot := 10000, tiny := 1 / 100000000000000000000 }
def exB1 : Bin ℚ := { endPlane := false, y := 3, a := some (1 / 2), fac := [.normFactor 2], row := [(0, 1), (1, 2)] }
def exB2 : Bin ℚ := { endPlane := true, y := 2, a := some (1 / 4), fac := [.normFactor 2, .eff (1 / 2)], row := [(1, 1)] }
def exB3 : Bin ℚ := { endPlane := false, y := 0, a := none, fac := [], row := [(0, 3)] }
def exS : List (Viewgram ℚ) := [[exB1, exB2], [exB3]]
def exImg : Nat → ℚ := fun i => if i = 0 then 1 else 2
def exX : Nat → ℚ := fun i => if i = 0 then 1 / 2 else 1

/-- the hypotheses are satisfiable by a non-trivial instance (additive term, chained normalisation, a bin without counts,
    a cleared end plane) -/
example : RegularGrad exC true exImg exS ∧ RegularValue exC true exImg exS ∧ RegularHess exC exImg exX exS := by
  refine ⟨?_, ?_, ?_⟩
  · unfold RegularGrad
    simp only [exS, List.forall_mem_cons, List.not_mem_nil, false_imp_iff, implies_true, and_true]
    norm_num [exB1, exB2, exB3, exC, exImg, smallOf, vgMax, maxK, yEff, zeroed, ybarTB, fwd, sumMap]
  · unfold RegularValue
    simp only [exS, List.forall_mem_cons, List.not_mem_nil, false_imp_iff, implies_true, and_true]
    norm_num [exB1, exB2, exB3, exC, exImg, smallOf, vgMax, maxK, yEff, zeroed, ybarTB, fwd, sumMap, effB, undoNorm]
  · unfold RegularHess
    simp only [exS, List.forall_mem_cons, List.not_mem_nil, false_imp_iff, implies_true, and_true]
    norm_num [exB1, exB2, exB3, exC, exImg, exX, smallOf, vgMax, maxK, hessNum, ybarTB, fwd, sumMap]

/-- the subsets hypothesis is satisfiable with subsets in an order different from the data -/
example : ([[[exB3]], [[exB1, exB2]]] : List (List (Viewgram ℚ))).flatten.Perm exS := by
  simp only [List.flatten_cons, List.flatten_nil, List.append_nil, List.singleton_append, exS]
  exact List.Perm.swap _ _ _

/-- negative witness: with `zero_seg0_end_planes = true` the Hessian product still contains the end-plane bin `exB2`
    (replayed on the implementation by the harness oracle, key `hessian:ignores-zero-seg0-end-planes`) -/
theorem C05_textbook_on_regular_hessTimes_fails : ¬ C05_textbook_on_regular_hessTimes := by
  intro h
  have h1 := h exC true exImg exX 0 exS 1 (by
    unfold RegularHess
    simp only [exS, List.forall_mem_cons, List.not_mem_nil, false_imp_iff, implies_true, and_true]
    norm_num [exB1, exB2, exB3, exC, exImg, exX, smallOf, vgMax, maxK, hessNum, ybarTB, fwd, sumMap])
  have h2 := C05_textbook_on_regular_hessTimes_partial exC exImg exX 0 exS 1 (by
    unfold RegularHess
    simp only [exS, List.forall_mem_cons, List.not_mem_nil, false_imp_iff, implies_true, and_true]
    norm_num [exB1, exB2, exB3, exC, exImg, exX, smallOf, vgMax, maxK, hessNum, ybarTB, fwd, sumMap])
  rw [h2] at h1
  norm_num [tbHessTimes, dataBins, zeroed, exS, exB1, exB2, exB3, exImg, exX, ybarTB, fwd, sumMap, coef] at h1

/-! ## "… the (subset) gradient … and Hessian-times-vector … equal the expressions derived from L":
the derivatives themselves, over `ℝ` with `Real.log` (Mathlib `HasDerivAt`) -/

/-- **the gradient is the derivative of the value**: on the strict regular region (counts 0 or above the
    "really zero" threshold; neither the cap of the quotient nor, strictly, the cap of the estimate active) the model's value
    is differentiable along every coordinate direction `v` and its derivative is the model's gradient at `v` -/
theorem C05_grad_is_derivative (c : Consts ℝ) (hq : 0 < c.maxQuot) (zero : Bool) (img : Nat → ℝ) (S : List (Viewgram ℝ)) (v : Nat)
    (h : StrictRegular c zero img S) :
    HasDerivAt (fun t => value c Real.log zero (shift img v t) S) (grad c zero img S v) 0 :=
  value_hasDerivAt c hq zero img S v h

/-- **the textbook Hessian product is the derivative of the gradient**: along any direction `x` the model's gradient is
    differentiable and its derivative is `−Σ_b P_bv y_b (Px)_b / (Pλ+a)_b²` over the bins of the data
    (end planes of segment 0 removed when requested) -/
theorem C05_textbook_hessian_is_derivative_of_grad (c : Consts ℝ) (hq : 0 < c.maxQuot) (zero : Bool) (img x : Nat → ℝ)
    (S : List (Viewgram ℝ)) (v : Nat) (h : StrictRegularGrad c zero img S) :
    HasDerivAt (fun t => grad c zero (shiftX img x t) S v) (tbHessTimes img x (dataBins zero S) v) 0 :=
  grad_hasDerivAt c hq zero img x S v h

/-- the full statement: what `accumulate_sub_Hessian_times_input` adds to a zero output is the derivative of the subset gradient -/
def C05_hess_is_derivative_of_grad : Prop :=
  ∀ (c : Consts ℝ) (zero : Bool) (img x : Nat → ℝ) (S : List (Viewgram ℝ)) (v : Nat), 0 < c.maxQuot →
    StrictRegularGrad c zero img S → RegularHess c img x S →
      HasDerivAt (fun t => grad c zero (shiftX img x t) S v) (hessTimes c img x 0 S v) 0

/-- proved for `zero_seg0_end_planes = false` (the Hessian functions read the viewgrams directly and never clear the end
    planes; for `true` see `C05_textbook_on_regular_hessTimes_fails`) -/
theorem C05_hessian_end_planes_partial (c : Consts ℝ) (hq : 0 < c.maxQuot) (img x : Nat → ℝ) (S : List (Viewgram ℝ)) (v : Nat)
    (h : StrictRegularGrad c false img S) (hH : RegularHess c img x S) :
    HasDerivAt (fun t => grad c false (shiftX img x t) S v) (hessTimes c img x 0 S v) 0 := by
  rw [C05_textbook_on_regular_hessTimes_partial c img x 0 S v hH, zero_add]
  exact grad_hasDerivAt c hq false img x S v h

noncomputable def exCR : Consts ℝ := { smallNum := 1 / 1000000, maxQuot := 10000, tiny := 1 / 100000000000000000000 }
noncomputable def exR1 : Bin ℝ := { endPlane := false, y := 3, a := some (1 / 2), fac := [.normFactor 2], row := [(0, 1), (1, 2)] }
noncomputable def exR2 : Bin ℝ := { endPlane := true, y := 2, a := some (1 / 4), fac := [.normFactor 2, .eff (1 / 2)], row := [(1, 1)] }
noncomputable def exR3 : Bin ℝ := { endPlane := false, y := 0, a := none, fac := [], row := [(0, 3)] }
noncomputable def exSR : List (Viewgram ℝ) := [[exR1, exR2], [exR3]]
noncomputable def exImgR : Nat → ℝ := fun i => if i = 0 then 1 else 2

/-- the strict regular regions are inhabited by a non-trivial instance -/
example : 0 < exCR.maxQuot ∧ StrictRegular exCR true exImgR exSR ∧ StrictRegularGrad exCR false exImgR exSR := by
  refine ⟨by norm_num [exCR], ?_, ?_⟩
  · unfold StrictRegular
    simp only [exSR, List.forall_mem_cons, List.not_mem_nil, false_imp_iff, implies_true, and_true]
    norm_num [exR1, exR2, exR3, exCR, exImgR, smallOf, vgMax, maxK, yEff, zeroed, ybarTB, fwd, sumMap, effB, undoNorm]
  · unfold StrictRegularGrad
    simp only [exSR, List.forall_mem_cons, List.not_mem_nil, false_imp_iff, implies_true, and_true]
    norm_num [exR1, exR2, exR3, exCR, exImgR, smallOf, vgMax, maxK, yEff, zeroed, ybarTB, fwd, sumMap]

/-! ## the executable accumulation used by the driver is the image of the model -/

theorem C05_accumulate_is_image (n : Nat) (cs : List (Nat × K)) (v : Nat) (hv : v < n) :
    (accumulate n cs).getD v 0 = imageAt cs v :=
  accumulate_getD n cs v hv

/-! ## "The results do not depend on the order in which value, gradient, sensitivity and Hessian products are
first requested after set-up" — the set-up flags -/

/-- for every configuration (same / separate sensitivity projector, sensitivities computed by `set_up` or not, any number
    of subsets), both values of each of the two members without initialiser, every history of requests after `set_up`:
    every request is served (no "internal error: setup_distributable_computation not called") with the projectors handed
    to `setup_distributable_computation` and the normalisation set-up that the request needs.  (Before 577b3b1e1 the value
    path tested `already || !latest` and this failed for: no recomputation, indeterminate member `true`, value first.) -/
theorem C05_setup_machine_correct (sameProj recompute : Bool) (numSubsets : Nat) (g g2 : Bool) (rs : List Req) :
    ∀ b ∈ run sameProj (St.afterSetUp sameProj recompute numSubsets g g2) rs, b = true :=
  run_ok sameProj _ (inv_afterSetUp sameProj recompute numSubsets g g2) rs

/-- the members without initialiser are never consulted in a way that matters: the outcome of every history is the same
    for all four combinations of their indeterminate values -/
theorem C05_setup_machine_indeterminate_irrelevant (sameProj recompute : Bool) (numSubsets : Nat) (g g2 g' g2' : Bool) (rs : List Req) :
    run sameProj (St.afterSetUp sameProj recompute numSubsets g g2) rs =
      run sameProj (St.afterSetUp sameProj recompute numSubsets g' g2') rs := by
  have hlen : ∀ (s : St) (rs : List Req), (run sameProj s rs).length = rs.length := by
    intro s rs; induction rs generalizing s with
    | nil => rfl
    | cons r rs ih => simp [run, ih]
  apply List.ext_getElem
  · rw [hlen, hlen]
  · intro i h1 h2
    rw [C05_setup_machine_correct sameProj recompute numSubsets g g2 rs _ (List.getElem_mem h1),
      C05_setup_machine_correct sameProj recompute numSubsets g' g2' rs _ (List.getElem_mem h2)]

/-- non-vacuity / regression: the history on which the code before 577b3b1e1 raised its internal error (sensitivities not
    recomputed, indeterminate member `true`, value first) and a history using all kinds of request with TOF data and a
    non-TOF sensitivity projector -/
example : run true (St.afterSetUp true false 1 true false) [Req.value, Req.gradient false] = [true, true] := by decide

example : run false (St.afterSetUp false true 2 true true)
    [Req.value, Req.gradient false, Req.sensitivity, Req.hessian, Req.gradient true, Req.approxHessian, Req.value]
      = [true, true, true, true, true, true, true] := by decide

end StirVerif.C05
