/-
C05 — the textbook expressions derived from `L = Σ_b y_b log(ybar_b) − ybar_b`, `ybar = n (Pλ + a)`, and the
proofs that the model (= the code's piecewise expressions) coincides with them on the regular region.
-/
import StirVerif.C05.ProofsAlgebra

set_option linter.unusedSectionVars false
set_option linter.unusedSimpArgs false

namespace StirVerif.C05
variable {K : Type} [Field K] [LinearOrder K] [IsStrictOrderedRing K]

/-! ## textbook definitions -/

/-- `(Pλ)_b + a_b` -/
def ybarTB (img : Nat → K) (b : Bin K) : K := fwd img b.row + b.a.getD 0

/-- the bins that belong to the data: with `zero_seg0_end_planes` the end planes of segment 0 are removed -/
def dataBins (zero : Bool) (S : List (Viewgram K)) : List (Bin K) := S.flatten.filter fun b => !zeroed zero b

/-- `Σ_b y_b log(n_b (Pλ+a)_b) − n_b (Pλ+a)_b` -/
def tbValue (log : K → K) (img : Nat → K) (B : List (Bin K)) : K :=
  sumMap (fun b => b.y * log (effB b * ybarTB img b) - effB b * ybarTB img b) B

/-- `∂L/∂λ_v = Σ_b P_bv (y_b / (Pλ+a)_b − n_b)` -/
def tbGrad (img : Nat → K) (B : List (Bin K)) (v : Nat) : K :=
  sumMap (fun b => coef b.row v * (b.y / ybarTB img b - effB b)) B

/-- `Σ_b P_bv y_b / (Pλ+a)_b` -/
def tbGradPlusSens (img : Nat → K) (B : List (Bin K)) (v : Nat) : K :=
  sumMap (fun b => coef b.row v * (b.y / ybarTB img b)) B

/-- `Σ_b P_bv n_b` -/
def tbSens (B : List (Bin K)) (v : Nat) : K := sumMap (fun b => coef b.row v * effB b) B

/-- `(∇²L · x)_v = − Σ_b P_bv y_b (Px)_b / (Pλ+a)_b²` -/
def tbHessTimes (img x : Nat → K) (B : List (Bin K)) (v : Nat) : K :=
  - sumMap (fun b => coef b.row v * (b.y * fwd x b.row / (ybarTB img b * ybarTB img b))) B

/-! ## regular regions (the code's thresholds) -/

/-- regular region of the gradient: every bin of the data has counts 0 or above the "really zero" threshold
    `small_value` of its viewgram, and the quotient is not capped (`y ≤ 10⁴ · (Pλ+a)`) -/
def RegularGrad (c : Consts K) (zero : Bool) (img : Nat → K) (S : List (Viewgram K)) : Prop :=
  ∀ vg ∈ S, ∀ b ∈ vg, zeroed zero b = false →
    (b.y = 0 ∨ smallOf c (yEff zero) vg < b.y) ∧ b.y ≤ c.maxQuot * ybarTB img b

/-- regular region of the value: as above, the cap being `y/10⁴ ≤ n (Pλ+a)` (with the efficiency, unlike the gradient's) -/
def RegularValue (c : Consts K) (zero : Bool) (img : Nat → K) (S : List (Viewgram K)) : Prop :=
  ∀ vg ∈ S, ∀ b ∈ vg, zeroed zero b = false →
    (b.y = 0 ∨ smallOf c (yEff zero) vg < b.y) ∧ b.y / c.maxQuot ≤ effB b * ybarTB img b

/-- regular region of the Hessian product: thresholds on `y·(Px)`, for the bins of the data (the cleared end planes
    contribute nothing, whatever their counts) -/
def RegularHess (c : Consts K) (zero : Bool) (img x : Nat → K) (S : List (Viewgram K)) : Prop :=
  ∀ vg ∈ S, ∀ b ∈ vg, zeroed zero b = false →
    (hessNum zero x b = 0 ∨ smallOf c (hessNum zero x) vg < hessNum zero x b) ∧
      hessNum zero x b ≤ c.maxQuot * (ybarTB img b * ybarTB img b)

/-! ## per-bin lemmas -/

theorem yEff_of_not_zeroed {zero : Bool} {b : Bin K} (h : zeroed zero b = false) : yEff zero b = b.y := by
  unfold yEff; simp [h]

theorem yEff_of_zeroed {zero : Bool} {b : Bin K} (h : zeroed zero b = true) : yEff zero b = 0 := by
  unfold yEff; simp [h]

theorem est_of_not_zeroed {zero : Bool} (img : Nat → K) {b : Bin K} (h : zeroed zero b = false) :
    est zero img b = ybarTB img b := by
  unfold est aEff ybarTB
  cases b.a <;> simp [h]

theorem ybarH_eq (img : Nat → K) (b : Bin K) : ybarH img b = ybarTB img b := by
  unfold ybarH ybarTB
  cases b.a <;> simp

theorem divTrunc_on_regular (c : Consts K) {small y d : K} (hs : 0 ≤ small) (h : y = 0 ∨ small < y)
    (hcap : y ≤ c.maxQuot * d) : divTrunc c small y d = y / d := by
  rcases h with h | h
  · subst h; rw [divTrunc_zero c hs]; simp
  · exact divTrunc_regular c h hcap

theorem gradW_zeroed (c : Consts K) {zero : Bool} (addSens : Bool) (img : Nat → K) {small : K} (hs : 0 ≤ small) {b : Bin K}
    (h : zeroed zero b = true) : gradW c zero addSens img small b = 0 := by
  unfold gradW
  simp only [yEff_of_zeroed h, divTrunc_zero c hs, mult_of_zeroed h]
  cases addSens <;> simp

theorem gradW_regular (c : Consts K) {zero : Bool} (img : Nat → K) {small : K} (hs : 0 ≤ small) {b : Bin K}
    (h : zeroed zero b = false) (hy : b.y = 0 ∨ small < b.y) (hcap : b.y ≤ c.maxQuot * ybarTB img b) :
    gradW c zero false img small b = b.y / ybarTB img b - effB b := by
  unfold gradW
  simp only [yEff_of_not_zeroed h, est_of_not_zeroed img h, divTrunc_on_regular c hs hy hcap, Bool.false_eq_true, if_false]
  rw [← mult_getD_of_not_zeroed h]
  cases mult zero b <;> rfl

theorem gradW_plus_regular (c : Consts K) {zero : Bool} (img : Nat → K) {small : K} (hs : 0 ≤ small) {b : Bin K}
    (h : zeroed zero b = false) (hy : b.y = 0 ∨ small < b.y) (hcap : b.y ≤ c.maxQuot * ybarTB img b) :
    gradW c zero true img small b = b.y / ybarTB img b := by
  unfold gradW
  simp only [yEff_of_not_zeroed h, est_of_not_zeroed img h, divTrunc_on_regular c hs hy hcap, if_true]

theorem sensW_eq (zero : Bool) (b : Bin K) : sensW zero b = if zeroed zero b then 0 else effB b := by
  unfold sensW
  by_cases h : zeroed zero b = true
  · simp [mult_of_zeroed h, h]
  · have h' : zeroed zero b = false := by simpa using h
    rw [← mult_getD_of_not_zeroed h']
    cases hm : mult zero b <;> simp [h']

theorem valueTerm_zeroed (c : Consts K) (log : K → K) {zero : Bool} (img : Nat → K) {small : K} (hs : 0 ≤ small) {b : Bin K}
    (h : zeroed zero b = true) : valueTerm c log zero img small b = 0 := by
  unfold valueTerm
  simp only [yEff_of_zeroed h, mult_of_zeroed h, mul_zero, zero_div, hs, if_true]
  simp [maxK]

theorem valueTerm_regular (c : Consts K) (log : K → K) {zero : Bool} (img : Nat → K) {small : K} (hs : 0 ≤ small) {b : Bin K}
    (h : zeroed zero b = false) (hy : b.y = 0 ∨ small < b.y) (hcap : b.y / c.maxQuot ≤ effB b * ybarTB img b) :
    valueTerm c log zero img small b = b.y * log (effB b * ybarTB img b) - effB b * ybarTB img b := by
  have hm : (mult zero b).getD 1 = effB b := mult_getD_of_not_zeroed h
  have hcap' : b.y / c.maxQuot ≤ ybarTB img b * effB b := by rw [mul_comm]; exact hcap
  unfold valueTerm
  simp only [yEff_of_not_zeroed h, est_of_not_zeroed img h]
  cases hmm : mult zero b with
  | some m =>
    have : m = effB b := by simpa [hmm] using hm
    subst this
    simp only [maxK_eq_left hcap']
    rcases hy with hy | hy
    · simp [hy, hs, mul_comm]
    · simp [not_le.mpr hy, mul_comm]
  | none =>
    have : effB b = 1 := by simpa [hmm] using hm.symm
    rw [this, mul_one] at hcap'
    simp only [maxK_eq_left hcap', this, one_mul]
    rcases hy with hy | hy
    · simp [hy, hs]
    · simp [not_le.mpr hy]

theorem hessNum_of_not_zeroed {zero : Bool} (x : Nat → K) {b : Bin K} (h : zeroed zero b = false) :
    hessNum zero x b = b.y * fwd x b.row := by
  unfold hessNum; simp [h]

theorem hessW_regular (c : Consts K) (zero : Bool) (img x : Nat → K) {small : K} (hs : 0 ≤ small) {b : Bin K}
    (hz : zeroed zero b = false)
    (hy : hessNum zero x b = 0 ∨ small < hessNum zero x b) (hcap : hessNum zero x b ≤ c.maxQuot * (ybarTB img b * ybarTB img b)) :
    hessW c zero img x small b = b.y * fwd x b.row / (ybarTB img b * ybarTB img b) := by
  unfold hessW
  rw [ybarH_eq, divTrunc_on_regular c hs hy hcap, hessNum_of_not_zeroed x hz]

/-- a cleared end-plane bin contributes nothing to the Hessian product -/
theorem hessW_zeroed (c : Consts K) (zero : Bool) (img x : Nat → K) {small : K} (hs : 0 ≤ small) {b : Bin K}
    (hz : zeroed zero b = true) : hessW c zero img x small b = 0 := by
  unfold hessW hessNum
  simp only [hz, if_true]
  exact divTrunc_zero c hs _

/-! ## the quantities on the regular region -/

theorem sumMap_dataBins (zero : Bool) (f : Bin K → K) (S : List (Viewgram K)) :
    sumMap f (dataBins zero S) = sumMap (fun vg => sumMap (fun b => if zeroed zero b then 0 else f b) vg) S := by
  unfold dataBins
  rw [sumMap_filter, sumMap_flatten]
  apply sumMap_congr; intro vg _
  apply sumMap_congr; intro b _
  cases zeroed zero b <;> simp

theorem grad_textbook (c : Consts K) (zero : Bool) (img : Nat → K) (S : List (Viewgram K)) (v : Nat)
    (h : RegularGrad c zero img S) : grad c zero img S v = tbGrad img (dataBins zero S) v := by
  unfold tbGrad
  rw [grad_eq, sumMap_dataBins]
  apply sumMap_congr; intro vg hvg
  apply sumMap_congr; intro b hb
  have hs := smallOf_nonneg c (yEff zero) vg
  by_cases hz : zeroed zero b = true
  · simp [gradW_zeroed c false img hs hz, hz]
  · have hz' : zeroed zero b = false := by simpa using hz
    obtain ⟨hy, hcap⟩ := h vg hvg b hb hz'
    simp [gradW_regular c img hs hz' hy hcap, hz']

theorem gradPlusSens_textbook (c : Consts K) (zero : Bool) (img : Nat → K) (S : List (Viewgram K)) (v : Nat)
    (h : RegularGrad c zero img S) : gradPlusSens c zero img S v = tbGradPlusSens img (dataBins zero S) v := by
  unfold tbGradPlusSens
  rw [gradPlusSens_eq, sumMap_dataBins]
  apply sumMap_congr; intro vg hvg
  apply sumMap_congr; intro b hb
  have hs := smallOf_nonneg c (yEff zero) vg
  by_cases hz : zeroed zero b = true
  · simp [gradW_zeroed c true img hs hz, hz]
  · have hz' : zeroed zero b = false := by simpa using hz
    obtain ⟨hy, hcap⟩ := h vg hvg b hb hz'
    simp [gradW_plus_regular c img hs hz' hy hcap, hz']

theorem sens_textbook (zero : Bool) (S : List (Viewgram K)) (v : Nat) :
    sens zero S v = tbSens (dataBins zero S) v := by
  unfold tbSens
  rw [sens_eq, sumMap_dataBins]
  apply sumMap_congr; intro vg _
  apply sumMap_congr; intro b _
  rw [sensW_eq]
  cases zeroed zero b <;> simp

theorem value_textbook (c : Consts K) (log : K → K) (zero : Bool) (img : Nat → K) (S : List (Viewgram K))
    (h : RegularValue c zero img S) : value c log zero img S = tbValue log img (dataBins zero S) := by
  unfold tbValue value
  rw [sumMap_dataBins]
  apply sumMap_congr; intro vg hvg
  apply sumMap_congr; intro b hb
  have hs := smallOf_nonneg c (yEff zero) vg
  by_cases hz : zeroed zero b = true
  · simp [valueTerm_zeroed c log img hs hz, hz]
  · have hz' : zeroed zero b = false := by simpa using hz
    obtain ⟨hy, hcap⟩ := h vg hvg b hb hz'
    simp [valueTerm_regular c log img hs hz' hy hcap, hz']

theorem hessTimes_textbook (c : Consts K) (zero : Bool) (img x : Nat → K) (out0 : K) (S : List (Viewgram K)) (v : Nat)
    (h : RegularHess c zero img x S) :
    hessTimes c zero img x out0 S v = out0 + tbHessTimes img x (dataBins zero S) v := by
  unfold tbHessTimes
  rw [hessTimes_eq, sumMap_dataBins, sub_eq_add_neg]
  congr 2
  apply sumMap_congr; intro vg hvg
  apply sumMap_congr; intro b hb
  have hs := smallOf_nonneg c (hessNum zero x) vg
  by_cases hz : zeroed zero b = true
  · simp [hessW_zeroed c zero img x hs hz, hz]
  · have hz' : zeroed zero b = false := by simpa using hz
    obtain ⟨hy, hcap⟩ := h vg hvg b hb hz'
    simp [hessW_regular c zero img x hs hz' hy hcap, hz']

end StirVerif.C05
