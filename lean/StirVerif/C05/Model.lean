/-
C05 — executable model of the quantities computed by
`PoissonLogLikelihoodWithLinearModelForMeanAndProjData` (value, subset gradient, gradient plus
sensitivity, subset sensitivity, Hessian times input, approximate Hessian) and of its set-up flag
state machine.

Sources (pinned tree, /repo/src):
* recon_buildblock/PoissonLogLikelihoodWithLinearModelForMeanAndProjData.cxx
    :80   `rim_truncation_sino = 0` (so the rim branch of `divide_and_truncate` is dead: not modelled)
    :494  `actual_subsets_are_approximately_balanced`, :537 `sensitivity_uses_same_projector`,
    :543  `ensure_norm_is_set_up`, :580 `set_up_before_sensitivity` (segment range :590-597, TOF range :599-606, TOF sensitivity
          switch :651-665),
    :694  `actual_compute_subset_gradient_without_penalty` (flag condition :700),
    :739  `actual_compute_objective_function_without_penalty` (flag condition :742),
    :828  `add_subset_sensitivity` (flag conditions :840 and :854),
    :948  `actual_add_multiplication_with_approximate_sub_Hessian_without_penalty`,
    :1054 `actual_accumulate_sub_Hessian_times_input_without_penalty`,
    :1402 `RPC_process_related_viewgrams_gradient`, :1463 `…_accumulate_loglikelihood`,
    :1497 `…_sensitivity_computation`;
* recon_buildblock/distributable.cxx :163 `get_viewgrams` (additive term, multiplicative term
  `normalisation->undo(1)`, `zero_end_sinograms`), :273 `distributable_computation`;
* buildblock/recon_array_functions.cxx :44 `SMALL_NUM`, :172 `divide_and_truncate`,
  :336 `accumulate_loglikelihood`;
* recon_buildblock/BinNormalisation.cxx :91 `apply` (divide by `max(1e-20, efficiency)`), :107 `undo`
  (multiply by the efficiency); BinNormalisationFromProjData.cxx :130 `apply` (multiply by the
  normalisation factor), :141 `undo` (divide by it) — the factor of a bin is the bin of the normalisation data with the same
  indices, with TOF bin 0 for all TOF bins when the normalisation data are not TOF (:134, :145): a `Bin` of the model carries its
  own chain of factors, so per-TOF-bin factors need nothing more; ChainedBinNormalisation.cxx (first, then second);
* buildblock/ProjData.cxx :256 `get_related_viewgrams(ViewgramIndices, symmetries, bool, timing_pos = 0)` and
  ProjDataInfo.cxx :458 `get_empty_related_viewgrams`: both overwrite the timing position of the indices
  by the *argument* `timing_pos`; since ec572d9db the two Hessian functions, and since 0952293c1 `get_viewgrams`
  for the ones of `zero_seg0_end_planes`, pass the timing position of their loop, so every quantity is computed
  on the viewgrams of the subset itself (the model has no "which viewgrams are read" indirection any more);
  since edcd88182 the two Hessian functions clear the end planes of segment 0 of their numerators (`zero_end_planes`, :940)
  when `zero_seg0_end_planes` is set, like `get_viewgrams` does for value, gradient and sensitivity;
* recon_buildblock/GeneralisedObjectiveFunction.cxx :121 `compute_penalty(…, subset)`, :128
  `compute_sub_gradient`, :187 `compute_gradient`, :240 / :248 `compute_objective_function`, :282 / :384 the penalised Hessian
  products and :329 / :355 their full-data loops;
* recon_buildblock/PoissonLogLikelihoodWithLinearModelForMean.cxx :275 refusal of unbalanced subsets,
  :402 `set_total_or_subset_sensitivities`; for ONE object set up several times (section "The cached (subset) sensitivities …"):
  :187-340 the sensitivity part of `set_up` (resize of `subsensitivity_sptrs`, decision to compute or to read, reading and
  writing the sensitivity files, pre-allocation of subset 0's image), :349-399 `compute_sensitivities` — with the pointers
  (`subsensitivity_sptrs[s] = subsensitivity_sptrs[0]`, `reset`, `clone`) on a small heap, since the members survive from one
  `set_up` to the next.

* the public setters of the three classes and the flag `already_set_up` (section "The public setters and `already_set_up`" with the
  source lines in its table): `Obj`, `Obj.set`, `setUpMembers` / `Obj.setUp`, `Obj.answer`.

The model is written once for an arbitrary carrier `K` with the usual operations; the driver runs it at
`Rat` (exact; every float printed by the harness is a dyadic rational) and, where `log` is needed, at
`Float`; the theorems (Proofs*.lean / Props.lean) instantiate `K` with an ordered field / `ℝ`.
Floating point rounding is *not* modelled (the comparison uses a derived forward error bound).
The data of a subset are given to the model as a list of viewgrams (the library processes whole
viewgrams; which viewgrams belong to a subset is C06's subject).
Core Lean only.
-/
namespace StirVerif.C05

/-- `Σ_{a ∈ l} f a` -/
def sumMap {α K : Type} [Add K] [OfNat K 0] (f : α → K) : List α → K
  | [] => 0
  | a :: l => f a + sumMap f l

/-- the constants of `recon_array_functions.cxx` / `BinNormalisation.cxx` (as the exact values of the
    float literals `0.000001F`, `10000.F`, `1.E-20F`) -/
structure Consts (K : Type) where
  smallNum : K
  maxQuot : K
  tiny : K

/-- one link of the normalisation chain, for one bin -/
inductive Factor (K : Type) where
  /-- `BinNormalisationFromProjData`: the stored number is the normalisation factor `N`
      (`apply` multiplies by it, `undo` divides by it) -/
  | normFactor (N : K)
  /-- a normalisation that goes through the base class `BinNormalisation::apply/undo` with
      `get_bin_efficiency(bin) = e` -/
  | eff (e : K)

/-- one bin of the measured data with everything the computations read for it -/
structure Bin (K : Type) where
  /-- segment 0 and first or last axial position (the bins `zero_end_sinograms` clears) -/
  endPlane : Bool
  /-- measured counts -/
  y : K
  /-- additive term (`none`: no additive projection data were set) -/
  a : Option K
  /-- normalisation chain in application order (`[]`: `is_trivial()`) -/
  fac : List (Factor K)
  /-- the row of the system matrix: (voxel, `P_bv`) -/
  row : List (Nat × K)

/-- a viewgram = the bins of one (segment, view, TOF bin) -/
abbrev Viewgram (K : Type) := List (Bin K)

section Quantities
variable {K : Type} [Add K] [Sub K] [Mul K] [Div K] [Neg K] [OfNat K 0] [OfNat K 1]
  [LE K] [DecidableLE K] [LT K] [DecidableLT K]

/-- `std::max(a, b)` = `(a < b) ? b : a` -/
def maxK (a b : K) : K := if a < b then b else a

/-- forward projection of one bin: `Σ_v P_bv · img_v` -/
def fwd (img : Nat → K) (row : List (Nat × K)) : K := sumMap (fun e => e.2 * img e.1) row

/-- `Array::find_max` of a viewgram of values `f` -/
def vgMax (f : Bin K → K) : Viewgram K → K
  | [] => 0
  | b :: l => l.foldl (fun m c => maxK m (f c)) (f b)

/-- `small_value = max(find_max() * SMALL_NUM, 0.F)` (recon_array_functions.cxx:185 and :356) -/
def smallOf (c : Consts K) (f : Bin K → K) (vg : Viewgram K) : K := maxK (vgMax f vg * c.smallNum) 0

/-- one element of `divide_and_truncate` (recon_array_functions.cxx:216-257, `rim_truncation_sino = 0`) -/
def divTrunc (c : Consts K) (small num denom : K) : K :=
  if num ≤ small then 0
  else if c.maxQuot * denom < num then c.maxQuot
  else num / denom

/-- does `zero_end_sinograms` clear this bin (distributable.cxx:219) -/
def zeroed (zero : Bool) (b : Bin K) : Bool := zero && b.endPlane

/-- measured counts as the call-backs see them (distributable.cxx:186-193, 221) -/
def yEff (zero : Bool) (b : Bin K) : K := if zeroed zero b then 0 else b.y

/-- additive term as the call-backs see it (distributable.cxx:177-184, 222) -/
def aEff (zero : Bool) (b : Bin K) : Option K := b.a.map fun a => if zeroed zero b then 0 else a

/-- `normalisation_sptr->undo(ones)` for one bin: the efficiency -/
def undoNorm (fac : List (Factor K)) (v : K) : K :=
  fac.foldl (fun m f => match f with | .normFactor N => m / N | .eff e => m * e) v

/-- `normalisation_sptr->apply(data)` for one bin -/
def applyNorm (c : Consts K) (fac : List (Factor K)) (v : K) : K :=
  fac.foldl (fun m f => match f with | .normFactor N => m * N | .eff e => m / maxK c.tiny e) v

/-- `mult_viewgrams_sptr` of `get_viewgrams` (distributable.cxx:200-224): `undo(1)` if the normalisation is not
    trivial, else ones if `zero_seg0_end_planes`, else absent; end planes cleared -/
def mult (zero : Bool) (b : Bin K) : Option K :=
  if !b.fac.isEmpty then some (if zeroed zero b then 0 else undoNorm b.fac 1)
  else if zero then some (if zeroed zero b then 0 else 1)
  else none

/-- `estimated_viewgrams` of the gradient call-back: forward projection plus additive term (cxx:1433-1436) -/
def est (zero : Bool) (img : Nat → K) (b : Bin K) : K :=
  match aEff zero b with
  | some a => fwd img b.row + a
  | none => fwd img b.row

/-- what `RPC_process_related_viewgrams_gradient<add_sensitivity>` back-projects for one bin (cxx:1439-1456) -/
def gradW (c : Consts K) (zero addSens : Bool) (img : Nat → K) (small : K) (b : Bin K) : K :=
  let r := divTrunc c small (yEff zero b) (est zero img b)
  if addSens then r
  else match mult zero b with
    | some m => r - m
    | none => r - 1

/-- what `RPC_process_related_viewgrams_sensitivity_computation` back-projects for one bin (cxx:1508-1515):
    the multiplicative term, or the "measured" data (ones, end planes cleared) if there is none -/
def sensW (zero : Bool) (b : Bin K) : K :=
  match mult zero b with
  | some m => m
  | none => if zeroed zero b then 0 else 1

/-- one term of `accumulate_loglikelihood` (recon_array_functions.cxx:367-371) on the estimate of
    `RPC_process_related_viewgrams_accumulate_loglikelihood` (cxx:1477-1487) -/
def valueTerm (c : Consts K) (log : K → K) (zero : Bool) (img : Nat → K) (small : K) (b : Bin K) : K :=
  let e0 := est zero img b
  let e1 := match mult zero b with
    | some m => e0 * m
    | none => e0
  let newEst := maxK e1 (yEff zero b / c.maxQuot)
  if yEff zero b ≤ small then -newEst else yEff zero b * log newEst - newEst

/-- `ybar` of the Hessian: forward projection plus additive term, read directly (the denominator is not cleared; the numerator is) (cxx:1211-1221) -/
def ybarH (img : Nat → K) (b : Bin K) : K :=
  match b.a with
  | some a => fwd img b.row + a
  | none => fwd img b.row

/-- numerator of the Hessian weight: measured data times forward projection of the input (cxx:1228-1230), the end planes of
    segment 0 cleared when `zero_seg0_end_planes` is set (cxx:1231-1234, since edcd88182; before, the function did not look at the
    flag: that is `hessNum false`) -/
def hessNum (zero : Bool) (x : Nat → K) (b : Bin K) : K := if zeroed zero b then 0 else b.y * fwd x b.row

/-- what `actual_accumulate_sub_Hessian_times_input_without_penalty` back-projects for one bin (cxx:1211-1238): a cleared
    numerator gives a zero quotient, whatever the denominator -/
def hessW (c : Consts K) (zero : Bool) (img x : Nat → K) (small : K) (b : Bin K) : K :=
  divTrunc c small (hessNum zero x b) (ybarH img b * ybarH img b)

/-- numerator of the approximate Hessian: forward projection of the input, end planes of segment 0 cleared (cxx:1049-1063) -/
def ahessNum (zero : Bool) (x : Nat → K) (b : Bin K) : K := if zeroed zero b then 0 else fwd x b.row

/-- what `actual_add_multiplication_with_approximate_sub_Hessian_without_penalty` back-projects (cxx:1038-1070):
    `fwd(x) / (y · norm²)` through `divide_and_truncate` -/
def ahessW (c : Consts K) (zero : Bool) (x : Nat → K) (small : K) (b : Bin K) : K :=
  divTrunc c small (ahessNum zero x b) (applyNorm c b.fac (applyNorm c b.fac b.y))

/-- back projection of the weights `w small b` of one viewgram, as a list of (voxel, contribution) -/
def bckVg (smallF : Viewgram K → K) (w : K → Bin K → K) (vg : Viewgram K) : List (Nat × K) :=
  let small := smallF vg
  vg.flatMap fun b => b.row.map fun e => (e.1, e.2 * w small b)

/-- value of the image described by a list of contributions at voxel `v` -/
def imageAt (cs : List (Nat × K)) (v : Nat) : K := sumMap (fun e => if e.1 = v then e.2 else 0) cs

/-- the same, accumulated into an array of `n` voxels (what the driver executes; see `Proofs.accumulate_getD`) -/
def accumulate (n : Nat) (cs : List (Nat × K)) : Array K :=
  cs.foldl (fun arr e => arr.modify e.1 (fun s => s + e.2)) (Array.replicate n 0)

/-- contributions of `distributable_compute_gradient` over the viewgrams of a subset -/
def gradContribs (c : Consts K) (zero addSens : Bool) (img : Nat → K) (S : List (Viewgram K)) : List (Nat × K) :=
  S.flatMap (bckVg (smallOf c (yEff zero)) (gradW c zero addSens img))

/-- subset gradient (without penalty) at voxel `v` -/
def grad (c : Consts K) (zero : Bool) (img : Nat → K) (S : List (Viewgram K)) (v : Nat) : K :=
  imageAt (gradContribs c zero false img S) v

/-- "subset gradient plus sensitivity" at voxel `v` -/
def gradPlusSens (c : Consts K) (zero : Bool) (img : Nat → K) (S : List (Viewgram K)) (v : Nat) : K :=
  imageAt (gradContribs c zero true img S) v

def sensContribs (zero : Bool) (S : List (Viewgram K)) : List (Nat × K) :=
  S.flatMap (bckVg (fun _ => 0) (fun _ b => sensW zero b))

/-- what `add_subset_sensitivity` adds for the subset at voxel `v` -/
def sens (zero : Bool) (S : List (Viewgram K)) (v : Nat) : K := imageAt (sensContribs zero S) v

/-- `actual_compute_objective_function_without_penalty` for the viewgrams of a subset -/
def value (c : Consts K) (log : K → K) (zero : Bool) (img : Nat → K) (S : List (Viewgram K)) : K :=
  sumMap (fun vg => sumMap (valueTerm c log zero img (smallOf c (yEff zero) vg)) vg) S

def hessContribs (c : Consts K) (zero : Bool) (img x : Nat → K) (S : List (Viewgram K)) : List (Nat × K) :=
  S.flatMap (bckVg (smallOf c (hessNum zero x)) (hessW c zero img x))

/-- `accumulate_sub_Hessian_times_input_without_penalty`: `output − back projection` -/
def hessTimes (c : Consts K) (zero : Bool) (img x : Nat → K) (out0 : K) (S : List (Viewgram K)) (v : Nat) : K :=
  out0 - imageAt (hessContribs c zero img x S) v

def ahessContribs (c : Consts K) (zero : Bool) (x : Nat → K) (S : List (Viewgram K)) : List (Nat × K) :=
  S.flatMap (bckVg (smallOf c (ahessNum zero x)) (ahessW c zero x))

/-- `add_multiplication_with_approximate_sub_Hessian_without_penalty` -/
def approxHess (c : Consts K) (zero : Bool) (x : Nat → K) (out0 : K) (S : List (Viewgram K)) (v : Nat) : K :=
  out0 - imageAt (ahessContribs c zero x S) v

/-- the penalised quantities of `GeneralisedObjectiveFunction` (cxx:121-160, 240): the prior's value /
    gradient divided by the number of subsets is subtracted -/
def penalised (q prior : K) (numSubsets : K) : K := q - prior / numSubsets

/-- the penalised Hessian-times-input / approximate Hessian of `GeneralisedObjectiveFunction`
    (cxx:282-309 `add_multiplication_with_approximate_sub_Hessian` (:295), :384-411 `accumulate_sub_Hessian_times_input` (:397)):
    `q` = the output after the unpenalised call, `priorOfInput = H_prior · input` (since 119733357 the prior's
    Hessian is applied to `input`; before, it was applied to the function's own `output`), divided by the number of
    subsets and subtracted -/
def penalisedHess (q priorOfInput : K) (numSubsets : K) : K := q - priorOfInput / numSubsets

/-- the penalised *full-data* quantities of `GeneralisedObjectiveFunction`: `compute_gradient` (cxx:187-206: the sum of the
    unpenalised subset gradients, then the prior's gradient subtracted once) and `compute_objective_function(image)`
    (cxx:248-251: the sum of the unpenalised subset values minus `compute_penalty`) -/
def penalisedFull (q prior : K) : K := q - prior

/-- `accumulate_Hessian_times_input` (cxx:355-365) on an object with a prior: the subsets one after the other into the same
    output, each step being the penalised `accumulate_sub_Hessian_times_input` (cxx:384-410): the unpenalised subset
    product is subtracted from the output, then the share `H_prior · input / num_subsets` -/
def hessTimesPenFull (c : Consts K) (zero : Bool) (img x : Nat → K) (priorOfInput numSubsets : K) (out0 : K)
    (Ss : List (List (Viewgram K))) (v : Nat) : K :=
  Ss.foldl (fun o S => penalisedHess (hessTimes c zero img x o S v) priorOfInput numSubsets) out0

/-- the same loop on the numbers it handles at one voxel: `prods` = what the unpenalised subset products subtract from the
    output there, one per subset (`hessTimes … o S v = o − product`); this is what the driver executes
    (`C05_penFullAccumulate_is_hessTimesPenFull`, `…_approxHessPenFull`) -/
def penFullAccumulate (prods : List K) (priorOfInput numSubsets out0 : K) : K :=
  prods.foldl (fun o h => penalisedHess (o - h) priorOfInput numSubsets) out0

/-- `add_multiplication_with_approximate_Hessian` (cxx:329-338) on an object with a prior, likewise (each step cxx:282-311) -/
def approxHessPenFull (c : Consts K) (zero : Bool) (x : Nat → K) (priorOfInput numSubsets : K) (out0 : K)
    (Ss : List (List (Viewgram K))) (v : Nat) : K :=
  Ss.foldl (fun o S => penalisedHess (approxHess c zero x o S v) priorOfInput numSubsets) out0

/-- `if (subset_num < 0 || subset_num >= this->get_num_subsets()) error(…)` (GeneralisedObjectiveFunction.cxx:136, :232):
    is the subset number accepted -/
def subsetAccepted (numSubsets subset : Int) : Bool := !(subset < 0 || subset ≥ numSubsets)

/-- subset sensitivity when `use_subset_sensitivities` is off (`set_total_or_subset_sensitivities`):
    the total divided by the number of subsets -/
def sensShare (total numSubsets : K) : K := total / numSubsets

end Quantities

/-! ## What `set_up` makes of the configuration -/

/-- `set_up_before_sensitivity` (cxx:590-597): `max_segment_num_to_process == -1` stands for the maximum of the data; a value
    above the maximum of the data is refused (`none`); anything else is kept as it is -/
def segRangeAfterSetUp (setting dataMax : Int) : Option Int :=
  let m := if setting == -1 then dataMax else setting
  if m > dataMax then none else some m

/-- `is_TOF_only_norm()` of a normalisation chain: `BinNormalisationFromProjData` (cxx:74) says `true` when its data have more than
    one TOF bin, `ChainedBinNormalisation` (cxx:72) when one of its two links does, the base class (BinNormalisation.h:74) `false`;
    the argument lists that answer for the links of the chain -/
def isTofOnlyNorm (links : List Bool) : Bool := links.any id

/-- `set_up_before_sensitivity` (cxx:599-606, since 4695cd773): `max_timing_pos_num_to_process == -1` (the default) stands for
    the maximum TOF bin of the data; a value above the maximum of the data is refused (`none`); anything else is kept.
    Value, gradient (cxx:751, :796), both Hessian functions (cxx:1010, :1139) and — with TOF sensitivities — the sensitivity
    (cxx:912) run over the TOF bins `-m … m`.  (Before, `set_up` overwrote the member with the maximum of the data.) -/
def tofRangeAfterSetUp (setting dataMax : Int) : Option Int :=
  let m := if setting == -1 then dataMax else setting
  if m > dataMax then none else some m

/-- the switch `use_tofsens` after `set_up_before_sensitivity` (cxx:651-665): when the sensitivities are computed by `set_up`,
    TOF data with TOF normalisation factors turn the TOF sensitivity on, and so does a TOF range below the maximum of the data
    (`restricted`; the non-TOF sensitivity is the sum over all TOF bins) -/
def useTofsensAfterSetUp (recompute useTofsens tofData normTof restricted : Bool) : Bool :=
  let u := if recompute && (!useTofsens && tofData && normTof) then true else useTofsens
  if recompute && (!u && tofData && restricted) then true else u

/-- `sensitivity_uses_same_projector()` (cxx:537-540) -/
def sensUsesSameProjector (tofData useTofsens : Bool) : Bool := !tofData || useTofsens

/-- `actual_subsets_are_approximately_balanced` (cxx:516-531) on the numbers of viewgrams per subset it has counted
    (`num_vs_in_subset`): every subset has as many as subset 0 -/
def subsetsBalanced : List Nat → Bool
  | [] => true
  | c0 :: cs => cs.all (fun c => c == c0)

/-- `PoissonLogLikelihoodWithLinearModelForMean::set_up` (cxx:275-281): unbalanced subsets are refused unless subset
    sensitivities are used -/
def setUpAcceptsSubsets (useSubsetSens : Bool) (counts : List Nat) : Bool := !(!subsetsBalanced counts && !useSubsetSens)

/-! ## The cached (subset) sensitivities of one object across several `set_up`s

`PoissonLogLikelihoodWithLinearModelForMean.cxx`: `set_up` :187-340, `compute_sensitivities` :349-399,
`set_total_or_subset_sensitivities` :402-435.  The members `subsensitivity_sptrs` (a vector of shared pointers) and
`sensitivity_sptr` survive from one `set_up` to the next, and several pointers may point to the same image
(`subsensitivity_sptrs[s] = subsensitivity_sptrs[0]`), so the model has a small heap: a pointer is an address (`Nat`),
`heap` says which image lives there.  Images are an arbitrary type `I` with the three operations the code uses. -/

/-- the operations on target images the sensitivity bookkeeping uses -/
structure ImgOps (I : Type) where
  /-- `get_empty_copy()` / `std::fill(begin_all(), end_all(), 0)` -/
  zero : I
  /-- voxel-wise `+=` -/
  add : I → I → I
  /-- voxel-wise `/= num_subsets` -/
  divN : I → Nat → I

/-- C `for (s = lo; s < lo + cnt; ++s) st = f s st` -/
def forLoop {σ : Type} (f : Nat → σ → σ) : (lo cnt : Nat) → σ → σ
  | _, 0, st => st
  | lo, cnt + 1, st => forLoop f (lo + 1) cnt (f lo st)

/-- the part of the object's state that holds the sensitivities -/
structure SensObj (I : Type) where
  /-- the images allocated so far (`none`: nothing at that address) -/
  heap : Nat → Option I
  /-- the next address `new` hands out -/
  next : Nat
  /-- `subsensitivity_sptrs.size()` -/
  size : Nat
  /-- `subsensitivity_sptrs[s]` (`none`: null pointer) -/
  sub : Nat → Option Nat
  /-- `sensitivity_sptr` -/
  tot : Option Nat
  /-- the member `recompute_sensitivity` -/
  recompute : Bool

/-- a newly constructed object (`set_defaults`: no images, `recompute_sensitivity = false`) -/
def SensObj.fresh {I : Type} : SensObj I :=
  { heap := fun _ => none, next := 0, size := 0, sub := fun _ => none, tot := none, recompute := false }

/-- the sensitivity files on disk: the total, and one per subset -/
structure SensFiles (I : Type) where
  tot : Option I
  sub : Nat → Option I

def SensFiles.empty {I : Type} : SensFiles I := { tot := none, sub := fun _ => none }

section Sens
variable {I : Type}

/-- `new`: a fresh address holding `v` -/
def SensObj.alloc (o : SensObj I) (v : I) : SensObj I × Nat :=
  ({ o with heap := fun p => if p = o.next then some v else o.heap p, next := o.next + 1 }, o.next)

/-- `*p` -/
def SensObj.deref (o : SensObj I) (p : Option Nat) : Option I := p.bind o.heap

/-- `*p = f(*p)` (through a null pointer: undefined behaviour in C++; the model leaves the state alone) -/
def SensObj.update (o : SensObj I) (p : Option Nat) (f : I → I) : SensObj I :=
  match p with
  | none => o
  | some q => { o with heap := fun r => if r = q then (o.heap r).map f else o.heap r }

/-- `subsensitivity_sptrs[s] = p` -/
def SensObj.setSub (o : SensObj I) (s : Nat) (p : Option Nat) : SensObj I :=
  { o with sub := fun t => if t = s then p else o.sub t }

/-- `subsensitivity_sptrs.resize(n)` (cxx:193): elements beyond `n` are dropped, new elements are null pointers -/
def SensObj.resize (o : SensObj I) (n : Nat) : SensObj I :=
  { o with size := n, sub := fun s => if s < n ∧ s < o.size then o.sub s else none }

/-- what `get_subset_sensitivity(s)` / `get_sensitivity()` return -/
def SensObj.getSub (o : SensObj I) (s : Nat) : Option I := o.deref (o.sub s)
def SensObj.getTot (o : SensObj I) : Option I := o.deref o.tot

/-- one turn of the loop cxx:410-420: subset `s` is added to the total -/
def addSubStep (ops : ImgOps I) (s : Nat) (o : SensObj I) : SensObj I :=
  match o.deref (o.sub s) with
  | some v => o.update o.tot (fun a => ops.add a v)
  | none => o

/-- one turn of the loop cxx:433-434: "set all other pointers the same" -/
def shareStep (s : Nat) (o : SensObj I) : SensObj I := o.setSub s (o.sub 0)

/-- `set_total_or_subset_sensitivities` (cxx:402-435) -/
def setTotalOrSubset (ops : ImgOps I) (useSub : Bool) (n : Nat) (o : SensObj I) : SensObj I :=
  if useSub then
    match o.deref (o.sub 0) with
    | none => o
    | some v0 =>
      -- `sensitivity_sptr.reset(subsensitivity_sptrs[0]->clone())`, then the other subsets are added
      forLoop (addSubStep ops) 1 (n - 1) { (o.alloc v0).1 with tot := some (o.alloc v0).2 }
  else
    match o.deref o.tot with
    | none => o
    | some vt =>
      -- `subsensitivity_sptrs[0].reset(sensitivity_sptr->clone())`, divided by `num_subsets`; all other pointers the same
      forLoop shareStep 1 (n - 1)
        ((((o.alloc vt).1).setSub 0 (some (o.alloc vt).2)).update (some (o.alloc vt).2) (fun a => ops.divN a n))

/-- one turn of the loop of `compute_sensitivities` (cxx:364-388); `inc s` = what `add_subset_sensitivity(image, s)` adds to the
    image: the back projection of the efficiencies over subset `s` (`sens` above) -/
def computeStep (ops : ImgOps I) (useSub : Bool) (inc : Nat → I) (s : Nat) (o : SensObj I) : SensObj I :=
  let o :=
    if s = 0 then o.update (o.sub 0) (fun _ => ops.zero)                   -- `std::fill(…, 0)`
    else if useSub then
      match o.deref (o.sub 0) with                                          -- `reset(subsensitivity_sptrs[0]->get_empty_copy())`
      | some _ => ((o.alloc ops.zero).1).setSub s (some (o.alloc ops.zero).2)
      | none => o
    else o.setSub s (o.sub 0)                                               -- the same image: everything accumulates in subset 0's
  o.update (o.sub s) (fun a => ops.add a (inc s))                           -- `add_subset_sensitivity(*subsensitivity_sptrs[s], s)`

/-- "copy full sensitivity (currently stored in subsensitivity[0])" (cxx:390-395) -/
def moveToTotal (useSub : Bool) (o : SensObj I) : SensObj I :=
  if useSub then o else { (o.setSub 0 none) with tot := o.sub 0 }

/-- `compute_sensitivities` (cxx:349-399).  `set_up` has put a new image into `subsensitivity_sptrs[0]` before the call
    ("preallocate one such that compute_sensitivities knows the size") -/
def computeSensitivities (ops : ImgOps I) (useSub : Bool) (n : Nat) (inc : Nat → I) (o : SensObj I) : SensObj I :=
  setTotalOrSubset ops useSub n (moveToTotal useSub (forLoop (computeStep ops useSub inc) 0 n o))

/-- what the caller has configured before `set_up`, as far as the sensitivities are concerned -/
structure SensCfg where
  useSub : Bool           -- use_subset_sensitivities
  n : Nat                 -- num_subsets
  totName : Bool          -- `sensitivity_filename` is not empty (the special name "1" is not modelled)
  subName : Bool          -- `subsensitivity_filenames` is not empty
  /-- `set_up_before_sensitivity` succeeds and the subsets are balanced or subset sensitivities are used (cxx:268-281;
      `setUpAcceptsSubsets` above) -/
  accepted : Bool

/-- does this `set_up` compute the sensitivities: the member `recompute_sensitivity` is set, or there is nothing to read
    (cxx:195-204: no image in `subsensitivity_sptrs[0]` after the `resize` and no file name for the kind of sensitivity in use) -/
def willCompute (c : SensCfg) (o : SensObj I) : Bool :=
  o.recompute || (((o.resize c.n).sub 0).isNone && ((c.useSub && !c.subName) || (!c.useSub && !c.totName)))

/-- one turn of the loop cxx:218-243: the file of subset `s` is read into a new image (`false`: `read_from_file` throws) -/
def readStep (files : SensFiles I) (s : Nat) (r : Bool × SensObj I) : Bool × SensObj I :=
  if !r.1 then r else
  match files.sub s with
  | none => (false, r.2)
  | some v => (true, ((r.2.alloc v).1).setSub s (some (r.2.alloc v).2))

/-- cxx:205-266: the sensitivities are read from file (that the images read have the characteristics of the target is not modelled) -/
def readSens (ops : ImgOps I) (c : SensCfg) (o : SensObj I) (files : SensFiles I) : Bool × SensObj I :=
  if c.useSub then
    if !c.subName then (false, o)
    else
      let r := forLoop (readStep files) 0 c.n (true, o)
      if r.1 then (true, setTotalOrSubset ops true c.n r.2) else r
  else
    if !c.totName then (false, o)
    else match files.tot with
      | none => (false, o)
      | some v => (true, setTotalOrSubset ops false c.n { (o.alloc v).1 with tot := some (o.alloc v).2 })

/-- cxx:296-330: the sensitivities just computed are written to file if a name is set -/
def writeSens (c : SensCfg) (o : SensObj I) (files : SensFiles I) : SensFiles I :=
  if c.useSub then
    if c.subName then { files with sub := fun s => if s < c.n then o.getSub s else files.sub s } else files
  else
    if c.totName then { files with tot := o.getTot } else files

/-- the sensitivity part of `PoissonLogLikelihoodWithLinearModelForMean::set_up` (cxx:187-340) on an object in ANY state
    (new, or left by earlier `set_up`s) with the files found on disk.  Result: `Succeeded::yes`?, the object, the files -/
def setUpSens (ops : ImgOps I) (c : SensCfg) (inc : Nat → I) (o : SensObj I) (files : SensFiles I) :
    Bool × SensObj I × SensFiles I :=
  let o1 := o.resize c.n
  -- cxx:195-204: nothing to read → compute (the member stays on)
  let o2 := if willCompute c o then { o1 with recompute := true } else o1
  let rd : Bool × SensObj I := if o2.recompute then (true, o2) else readSens ops c o2 files
  if !rd.1 then (false, rd.2, files)
  else if !c.accepted then (false, rd.2, files)
  else if rd.2.recompute then
    -- cxx:283-294: "preallocate one such that compute_sensitivities knows the size"
    let o3 := computeSensitivities ops c.useSub c.n inc (((rd.2.alloc ops.zero).1).setSub 0 (some (rd.2.alloc ops.zero).2))
    (true, o3, writeSens c o3 files)
  else (true, rd.2, files)

/-- closed form of what `compute_sensitivities` leaves in `sensitivity_sptr` when subset sensitivities are not used: the
    subsets accumulated one after the other into an image of zeroes -/
def accSens (ops : ImgOps I) (inc : Nat → I) : Nat → I
  | 0 => ops.zero
  | k + 1 => ops.add (accSens ops inc k) (inc k)

/-- closed form of the total when subset sensitivities are used: a copy of subset 0's, then subsets 1 … k added -/
def sumSubs (ops : ImgOps I) (v : Nat → I) : Nat → I
  | 0 => v 0
  | k + 1 => ops.add (sumSubs ops v k) (v (k + 1))

end Sens

/-! ## The set-up flags -/

/-- the kinds of request after `set_up` -/
inductive Req where
  | value
  | gradient (addSens : Bool)
  | sensitivity
  | hessian
  | approxHessian
  deriving DecidableEq, Repr

/-- flags of the object (`already`, `latestOrig`, `normSetup`, `normOrig`) and, as ghost state, what
    `setup_distributable_computation` / `normalisation_sptr->set_up` were last called with
    (`some true`: the original (TOF) projectors / data, `some false`: the sensitivity (non-TOF) ones) -/
structure St where
  already : Bool     -- distributable_computation_already_setup
  latestOrig : Bool  -- latest_setup_distributable_computation_was_with_orig_projectors (no initialiser in the header)
  normSetup : Bool   -- norm_already_setup
  normOrig : Bool    -- latest_setup_norm_was_with_orig_data (no initialiser in the header)
  workers : Option Bool
  norm : Option Bool
  deriving DecidableEq, Repr

/-- state left by `set_up_before_sensitivity` (cxx:630-632); `g`, `g2` = the indeterminate values of the
    two members without initialiser -/
def St.afterSetUpBefore (g g2 : Bool) : St :=
  { already := false, latestOrig := g, normSetup := false, normOrig := g2, workers := none, norm := none }

/-- `ensure_norm_is_set_up(for_original_data)` (cxx:543-569) -/
def ensureNorm (sameProj : Bool) (forOrig : Bool) (s : St) : St :=
  let forOrig := forOrig || sameProj
  let s :=
    if forOrig then
      if !s.normSetup || !s.normOrig then { s with norm := some true } else s
    else
      if !s.normSetup || s.normOrig then { s with norm := some false } else s
  { s with normSetup := true, normOrig := forOrig }

/-- one request: `none` = the library calls `error(…internal error: setup_distributable_computation not called…)`;
    otherwise the new state, i.e. the state in which the distributable computation of the request runs.
    The four conditions are those of cxx:700, :742 (since 577b3b1e1 the same as :700), :840-842, :854-856, as written. -/
def step (sameProj : Bool) (s : St) : Req → Option St
  | .gradient addSens =>
    let s := if !s.already || !s.latestOrig then { s with already := true, latestOrig := true, workers := some true } else s
    if !s.already then none
    else some (if !addSens then ensureNorm sameProj true s else s)
  | .value =>
    let s := if !s.already || !s.latestOrig then { s with already := true, latestOrig := true, workers := some true } else s
    if !s.already then none
    else some (ensureNorm sameProj true s)
  | .sensitivity =>
    let s :=
      if sameProj && (!s.already || !s.latestOrig) then { s with already := true, latestOrig := true, workers := some true }
      else if !sameProj && (!s.already || s.latestOrig) then { s with already := true, latestOrig := false, workers := some false }
      else s
    if !s.already then none
    else some (ensureNorm sameProj false s)
  | .hessian => some s
  | .approxHessian => some (ensureNorm sameProj true s)

/-- what a request needs of the set-up state at the moment it is served: the projectors handed to
    `setup_distributable_computation` (`none`: the request does not use `distributable_computation`) and
    the data the normalisation object was set up with (`none`: not used) -/
def needs (sameProj : Bool) : Req → Option Bool × Option Bool
  | .value => (some true, some true)
  | .gradient addSens => (some true, if addSens then none else some true)
  | .sensitivity => (some sameProj, some sameProj)
  | .hessian => (none, none)
  | .approxHessian => (none, some true)

def satisfies (have_ : Option Bool) (need : Option Bool) : Bool :=
  match need with
  | none => true
  | some b => have_ == some b

/-- is the request served correctly from state `s` -/
def servedOK (sameProj : Bool) (s : St) (r : Req) : Bool :=
  match step sameProj s r with
  | none => false
  | some s' => satisfies s'.workers (needs sameProj r).1 && satisfies s'.norm (needs sameProj r).2

/-- run a history of requests; a failed request (exception) leaves the flags as they are.  Result: per request, was it served correctly -/
def run (sameProj : Bool) : St → List Req → List Bool
  | _, [] => []
  | s, r :: rs => servedOK sameProj s r :: run sameProj ((step sameProj s r).getD s) rs

/-- the state after `set_up`: `set_up_before_sensitivity`, then — if the sensitivities are (re)computed,
    which is the default — one sensitivity request per subset -/
def St.afterSetUp (sameProj recompute : Bool) (numSubsets : Nat) (g g2 : Bool) : St :=
  if recompute then
    (List.replicate numSubsets Req.sensitivity).foldl (fun s r => (step sameProj s r).getD s) (St.afterSetUpBefore g g2)
  else St.afterSetUpBefore g g2

/-! ## The public setters and `already_set_up`

`GeneralisedObjectiveFunction::already_set_up` (GeneralisedObjectiveFunction.h:319, `false` in the constructor :87) is set by
`PoissonLogLikelihoodWithLinearModelForMean::set_up` on success (cxx:327) and nowhere else to `true`; it is *not* reset when
`set_up` starts, so a `set_up` that fails leaves it as it was.  The requests that test it (`error("Need to call set_up() …")`):
`compute_sub_gradient` (GeneralisedObjectiveFunction.cxx:132), `compute_objective_function_without_penalty(·, subset)` (:230; every
value function goes through it), `add_multiplication_with_approximate_sub_Hessian_without_penalty` (:261) and
`add_multiplication_with_approximate_sub_Hessian` (:286), `accumulate_sub_Hessian_times_input_without_penalty` (:419; every Hessian
product goes through it), `compute_sub_gradient_without_penalty` / `…_plus_sensitivity`
(PoissonLogLikelihoodWithLinearModelForMean.cxx:337, :347).  Public members that do NOT test it: `get_subset_sensitivity`,
`get_sensitivity` (cxx:122, :129: the images cached by the last `set_up`), `add_subset_sensitivity`
(PoissonLogLikelihoodWithLinearModelForMeanAndProjData.cxx:864) and `actual_compute_subset_gradient_without_penalty` (:730; public in
the header of the proj-data class) — both computed from the members as they are at the time of the call.

Every public setter is transcribed below with the condition under which it resets the flag (the "setter table"):

| setter | `already_set_up` afterwards | source |
|---|---|---|
| `set_num_subsets(n)` | `&& (num_subsets == n)`, compared BEFORE `num_subsets = max(n, 1)` | ProjData.cxx:402-403 |
| `set_proj_data_sptr`, `set_input_data`, `set_additive_proj_data_sptr`, `set_normalisation_sptr`, `set_projector_pair_sptr` | `false` (also for the pointer the object already holds) | :411, :485, :445, :477, :453 |
| `set_max_segment_num_to_process(m)`, `set_max_timing_pos_num_to_process(m)` | `&& (member == m)`; the "is default" mark is cleared | :419-421, :428-430 |
| `set_zero_seg0_end_planes(b)`, `set_frame_num(k)`, `set_frame_definitions(d)` | `&& (member == argument)` | :437, :461, :469 |
| `set_use_subset_sensitivities(b)` | `&& (member == b)` | Mean.cxx:159 |
| `set_sensitivity_filename`, `set_subsensitivity_filenames`, `set_subset_sensitivity_sptr` | `false` | Mean.cxx:91, :99, :168 |
| `set_recompute_sensitivity(b)` | unchanged | Mean.cxx:145 |
| `set_prior_sptr(p)` | unchanged ("You should call set_up() again": the prior refuses by itself when it is not set up, GeneralisedPrior.cxx:86) | GeneralisedObjectiveFunction.cxx:97 |
| `parse(…)` (ParsingObject.cxx:67 → `post_processing`) | `false` (since fix C05-3; before, the reset at the end of `post_processing` was commented out) | Mean.cxx `post_processing` |

Shared pointers, strings and the frame definitions are represented by an identity (`Nat`; `0`: null pointer / empty string; equal
identities = the same object resp. equal values): the setters only store them (`frame_defs == arg` compares values). -/

/-- the members the public setters write -/
structure Members where
  numSubsets : Int
  projData : Nat
  additive : Nat
  norm : Nat
  projPair : Nat
  maxSeg : Int
  /-- `max_segment_num_to_process_is_default`: the value was put there by `set_up` for the setting `-1` -/
  maxSegDefault : Bool
  maxTof : Int
  maxTofDefault : Bool
  zeroEnd : Bool
  useSubsetSens : Bool
  recompute : Bool
  totName : Nat
  subName : Nat
  frameNum : Int
  frameDefs : Nat
  prior : Nat
  deriving DecidableEq, Repr

/-- `set_defaults` of the three classes (GeneralisedObjectiveFunction.cxx:40-45, Mean.cxx:40-49, ProjData.cxx:88-136); the default
    normalisation object (a `TrivialBinNormalisation`), projector pair and frame definitions (one frame) get the identity `1` -/
def Members.defaults : Members :=
  { numSubsets := 1, projData := 0, additive := 0, norm := 1, projPair := 1, maxSeg := -1, maxSegDefault := false, maxTof := -1,
    maxTofDefault := false, zeroEnd := false, useSubsetSens := true, recompute := false, totName := 0, subName := 0, frameNum := 1,
    frameDefs := 1, prior := 0 }

/-- the public setters (and `parse` of a parameter text with the keys "zero end planes of segment 0" and "maximum absolute segment
    number to process") -/
inductive Setter where
  | numSubsets (n : Int)
  | projData (p : Nat)
  | inputData (p : Nat)
  | additive (p : Nat)
  | normalisation (p : Nat)
  | projectorPair (p : Nat)
  | maxSegment (m : Int)
  | maxTof (m : Int)
  | zeroEndPlanes (b : Bool)
  | useSubsetSens (b : Bool)
  | recomputeSens (b : Bool)
  | sensFilename (s : Nat)
  | subsensFilenames (s : Nat)
  | subsetSensSptr (subset : Nat) (p : Nat)
  | frameNum (k : Int)
  | frameDefs (d : Nat)
  /-- `ready`: the prior object has been set up (by whoever) -/
  | prior (p : Nat) (ready : Bool)
  | parseKeys (zeroEnd : Bool) (maxSeg : Int)
  deriving DecidableEq, Repr

/-- the objective function object as far as the setters, `set_up` and the guard of the requests are concerned -/
structure Obj where
  m : Members
  /-- `already_set_up` -/
  already : Bool
  /-- ghost: the members as the last successful `set_up` left them — what the cached sensitivities were computed for and the
      projectors set up with -/
  snap : Option Members
  /-- ghost: the prior object held is set up (`GeneralisedPrior::_already_set_up`) -/
  priorReady : Bool
  /-- ghost: `set_subset_sensitivity_sptr` has replaced a cached image since the last `set_up` -/
  sensReplaced : Bool
  deriving DecidableEq, Repr

/-- a newly constructed object -/
def Obj.new : Obj := { m := Members.defaults, already := false, snap := none, priorReady := false, sensReplaced := false }

/-- `std::max(new_num_subsets, 1)` -/
def clampSubsets (n : Int) : Int := if n < 1 then 1 else n

/-- one setter call, line by line as in the sources quoted in the table above -/
def Obj.set (o : Obj) : Setter → Obj
  | .numSubsets n =>
    { o with already := o.already && (o.m.numSubsets == n), m := { o.m with numSubsets := clampSubsets n } }
  | .projData p => { o with already := false, m := { o.m with projData := p } }
  | .inputData p => { o with already := false, m := { o.m with projData := p } }
  | .additive p => { o with already := false, m := { o.m with additive := p } }
  | .normalisation p => { o with already := false, m := { o.m with norm := p } }
  | .projectorPair p => { o with already := false, m := { o.m with projPair := p } }
  | .maxSegment k =>
    { o with already := o.already && (o.m.maxSeg == k), m := { o.m with maxSeg := k, maxSegDefault := false } }
  | .maxTof k =>
    { o with already := o.already && (o.m.maxTof == k), m := { o.m with maxTof := k, maxTofDefault := false } }
  | .zeroEndPlanes b => { o with already := o.already && (o.m.zeroEnd == b), m := { o.m with zeroEnd := b } }
  | .useSubsetSens b => { o with already := o.already && (o.m.useSubsetSens == b), m := { o.m with useSubsetSens := b } }
  | .recomputeSens b => { o with m := { o.m with recompute := b } }
  | .sensFilename s => { o with already := false, m := { o.m with totName := s } }
  | .subsensFilenames s => { o with already := false, m := { o.m with subName := s } }
  | .subsetSensSptr _ _ => { o with already := false, sensReplaced := true }
  | .frameNum k => { o with already := o.already && (o.m.frameNum == k), m := { o.m with frameNum := k } }
  | .frameDefs d => { o with already := o.already && (o.m.frameDefs == d), m := { o.m with frameDefs := d } }
  | .prior p ready => { o with priorReady := ready, m := { o.m with prior := p } }
  -- `parse`: the parser writes the members of the keys it finds; `post_processing` (ProjData.cxx:175-278) clears the two "is default"
  -- marks and rebuilds the one-frame definitions (no frame definition file); since fix C05-3 the flag is reset
  -- (`PoissonLogLikelihoodWithLinearModelForMean::post_processing`)
  | .parseKeys z k =>
    { o with already := false,
             m := { o.m with zeroEnd := z, maxSeg := k, maxSegDefault := false, maxTofDefault := false, frameDefs := 1 } }

/-- facts about the objects the members point to; they do not change during a history -/
structure Data where
  /-- `get_max_segment_num()` / `get_max_tof_pos_num()` of the projection data with this identity -/
  segMax : Nat → Int
  tofMax : Nat → Int
  /-- `get_num_frames()` of the frame definitions with this identity -/
  numFrames : Nat → Int

/-- what one call of `set_up` finds outside the members -/
structure Call where
  /-- `subsets_are_approximately_balanced()` for the members as they are when it is called (Mean.cxx:275) with the target of this call -/
  balanced : Members → Bool
  /-- `is_null_ptr(subsensitivity_sptrs[0])` after the `resize` (Mean.cxx:179-183) -/
  sub0Null : Bool
  /-- the sensitivity file(s) named can be read and fit the target (Mean.cxx:205-264) -/
  filesOK : Bool

/-- no file name for the kind of sensitivity in use (Mean.cxx:184-185) -/
def Members.noName (m : Members) : Bool := if m.useSubsetSens then m.subName == 0 else m.totName == 0

/-- Mean.cxx:181-190: `recompute_sensitivity` off, no image in `subsensitivity_sptrs[0]` and no file name → the member is switched on -/
def suRecompute (w : Call) (m : Members) : Members :=
  if !m.recompute && (w.sub0Null && m.noName) then { m with recompute := true } else m

/-- ProjData.cxx:600-604: `-1`, or a value an earlier `set_up` derived from `-1`, stands for all segments of the data -/
def suSeg (d : Data) (m : Members) : Members :=
  if m.maxSeg == -1 || m.maxSegDefault then { m with maxSeg := d.segMax m.projData, maxSegDefault := true } else m

/-- ProjData.cxx:613-617: likewise for the TOF bins -/
def suTof (d : Data) (m : Members) : Members :=
  if m.maxTof == -1 || m.maxTofDefault then { m with maxTof := d.tofMax m.projData, maxTofDefault := true } else m

/-- the members after `PoissonLogLikelihoodWithLinearModelForMean::set_up` (Mean.cxx:174-329, `set_up_before_sensitivity`
    ProjData.cxx:592-722) and whether it succeeded; a failing `set_up` keeps the members it has changed before the failure
    (the sensitivity file name "1" and a failure while writing the sensitivity files are not modelled) -/
def setUpMembers (d : Data) (w : Call) (m : Members) : Bool × Members :=
  -- GeneralisedObjectiveFunction.cxx:72-76
  if m.numSubsets ≤ 0 then (false, m) else
  let m1 := suRecompute w m
  -- Mean.cxx:202-264: read from file
  if !m1.recompute && (m1.noName || !w.filesOK) then (false, m1) else
  -- ProjData.cxx:595
  if m1.projData == 0 then (false, m1) else
  -- :600-610
  let m2 := suSeg d m1
  if m2.maxSeg > d.segMax m2.projData then (false, m2) else
  -- :613-623
  let m3 := suTof d m2
  if m3.maxTof > d.tofMax m3.projData then (false, m3) else
  -- :633, :664
  if m3.projPair == 0 then (false, m3) else
  if m3.recompute && m3.norm == 0 then (false, m3) else
  -- :709-719
  if m3.frameNum ≤ 0 then (false, m3) else
  if m3.frameNum > d.numFrames m3.frameDefs then (false, m3) else
  -- Mean.cxx:275
  if !w.balanced m3 && !m3.useSubsetSens then (false, m3) else
  (true, m3)

/-- `set_up`: on success the flag is set (Mean.cxx:327), the prior held has been set up (GeneralisedObjectiveFunction.cxx:69) and the
    sensitivities are those of the members; on failure the flag stays as it was -/
def Obj.setUp (d : Data) (w : Call) (o : Obj) : Bool × Obj :=
  let r := setUpMembers d w o.m
  if r.1 then (true, { m := r.2, already := true, snap := some r.2, priorReady := o.priorReady || r.2.prior != 0, sensReplaced := false })
  else (false, { o with m := r.2 })

/-- the public requests -/
inductive PReq where
  /-- tested against `already_set_up`; `pen`: through the penalised function (`compute_objective_function`,
      `compute_sub_gradient`, `accumulate_sub_Hessian_times_input`, `add_multiplication_with_approximate_sub_Hessian`), which then asks the prior -/
  | guarded (r : Req) (pen : Bool)
  /-- `add_subset_sensitivity`, `actual_compute_subset_gradient_without_penalty`: no test, computed from the members as they are -/
  | addSubsetSens
  | actualGradient
  /-- `get_subset_sensitivity`, `get_sensitivity`: no test, the cached images -/
  | getSubsetSens
  | getSens
  deriving DecidableEq, Repr

/-- what an answered request is computed from: the members at the time of the request and, as ghost, the members the cached state
    (sensitivities, projector set-up) was made for -/
structure Basis where
  live : Members
  cachedFor : Option Members
  deriving DecidableEq, Repr

/-- does the objective function answer the request (`none`: "Need to call set_up() for objective function first", or the prior's
    "The prior should already be set-up"), and from what -/
def Obj.answer (o : Obj) : PReq → Option Basis
  | .guarded r pen =>
    if !o.already then none
    -- `gps` has no penalised form; a null prior (or penalisation factor 0: `prior_is_zero`) is not asked
    else if pen && r != Req.gradient true && o.m.prior != 0 && !o.priorReady then none
    else some { live := o.m, cachedFor := o.snap }
  | _ => some { live := o.m, cachedFor := o.snap }

/-- the members that enter the quantities: everything but the two "is default" marks (they only matter to the next `set_up`),
    `recompute_sensitivity` (where the sensitivities come from, not what they are) and the prior (the penalised functions ask the
    prior object itself) -/
def Members.core (m : Members) : Members :=
  { m with maxSegDefault := false, maxTofDefault := false, recompute := false, prior := 0 }

/-- an event of a history: a setter call or a `set_up` (with what the world answers at that moment) -/
inductive Event where
  | set (s : Setter)
  | setUp (w : Call)

def Obj.step (d : Data) (o : Obj) : Event → Obj
  | .set s => o.set s
  | .setUp w => (o.setUp d w).2

def Obj.run (d : Data) (o : Obj) (h : List Event) : Obj := h.foldl (Obj.step d) o

/-- the history contains no `parse` -/
def Event.noParse : Event → Bool
  | .set (.parseKeys _ _) => false
  | _ => true

end StirVerif.C05
