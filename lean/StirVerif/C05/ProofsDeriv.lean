/-
C05 — over `ℝ` with `Real.log`: on the (strict) regular region the model's gradient is the derivative of the
model's value along every coordinate direction.
-/
import StirVerif.C05.ProofsTextbook
import Mathlib.Analysis.SpecialFunctions.Log.Deriv

set_option linter.unusedSectionVars false
set_option linter.unusedSimpArgs false

namespace StirVerif.C05
open Filter Topology

/-- the image moved by `t` along the coordinate direction of voxel `v` -/
def shift (img : Nat → ℝ) (v : Nat) (t : ℝ) : Nat → ℝ := fun i => img i + t * (if i = v then 1 else 0)

theorem fwd_shift (img : Nat → ℝ) (v : Nat) (t : ℝ) (row : List (Nat × ℝ)) :
    fwd (shift img v t) row = fwd img row + t * coef row v := by
  unfold fwd coef shift
  rw [← sumMap_mul_left, ← sumMap_add]
  apply sumMap_congr
  intro e _
  by_cases h : e.1 = v
  · simp [h]; ring
  · simp [h]

theorem ybarTB_shift (img : Nat → ℝ) (v : Nat) (t : ℝ) (b : Bin ℝ) :
    ybarTB (shift img v t) b = ybarTB img b + t * coef b.row v := by
  unfold ybarTB; rw [fwd_shift]; ring

theorem shift_zero (img : Nat → ℝ) (v : Nat) : shift img v 0 = img := by
  funext i; simp [shift]

theorem hasDerivAt_sumMap {α} (f : ℝ → α → ℝ) (f' : α → ℝ) (x : ℝ) (l : List α)
    (h : ∀ a ∈ l, HasDerivAt (fun t => f t a) (f' a) x) :
    HasDerivAt (fun t => sumMap (f t) l) (sumMap f' l) x := by
  induction l with
  | nil => simpa [sumMap_nil] using hasDerivAt_const x (0 : ℝ)
  | cons a l ih =>
    simp only [sumMap_cons]
    exact (h a (by simp)).add (ih fun b hb => h b (by simp [hb]))

/-- the strict regular region: as `RegularGrad` and `RegularValue`, the cap of the value being strictly inactive -/
def StrictRegular (c : Consts ℝ) (zero : Bool) (img : Nat → ℝ) (S : List (Viewgram ℝ)) : Prop :=
  ∀ vg ∈ S, ∀ b ∈ vg, zeroed zero b = false →
    (b.y = 0 ∨ smallOf c (yEff zero) vg < b.y) ∧ b.y ≤ c.maxQuot * ybarTB img b ∧
      b.y / c.maxQuot < effB b * ybarTB img b

/-- one bin -/
theorem valueTerm_hasDerivAt (c : Consts ℝ) (hq : 0 < c.maxQuot) (zero : Bool) (img : Nat → ℝ) (v : Nat) {small : ℝ}
    (hs : 0 ≤ small) (b : Bin ℝ)
    (h : zeroed zero b = false →
      (b.y = 0 ∨ small < b.y) ∧ b.y ≤ c.maxQuot * ybarTB img b ∧ b.y / c.maxQuot < effB b * ybarTB img b) :
    HasDerivAt (fun t => valueTerm c Real.log zero (shift img v t) small b)
      (coef b.row v * gradW c zero false img small b) 0 := by
  by_cases hz : zeroed zero b = true
  · -- a cleared bin contributes nothing, whatever the image
    have h0 : (fun t => valueTerm c Real.log zero (shift img v t) small b) = fun _ => (0 : ℝ) := by
      funext t; exact valueTerm_zeroed c Real.log _ hs hz
    rw [h0, gradW_zeroed c false img hs hz, mul_zero]
    exact hasDerivAt_const _ _
  · have hz' : zeroed zero b = false := by simpa using hz
    obtain ⟨hy, hcapG, hcapV⟩ := h hz'
    set p := coef b.row v with hp
    set n := effB b with hn
    set Y0 := ybarTB img b with hY0
    rw [gradW_regular c img hs hz' hy hcapG]
    -- near 0 the value term is the textbook term
    have hev : ∀ᶠ t in 𝓝 (0 : ℝ), b.y / c.maxQuot < n * (Y0 + t * p) := by
      have hc : ContinuousAt (fun t : ℝ => n * (Y0 + t * p)) 0 := by fun_prop
      have : b.y / c.maxQuot < (fun t : ℝ => n * (Y0 + t * p)) 0 := by simpa using hcapV
      exact hc.eventually (lt_mem_nhds this)
    have heq : (fun t => valueTerm c Real.log zero (shift img v t) small b) =ᶠ[𝓝 0]
        fun t => b.y * Real.log (n * (Y0 + t * p)) - n * (Y0 + t * p) := by
      filter_upwards [hev] with t ht
      rw [valueTerm_regular c Real.log (shift img v t) hs hz' hy (by rw [ybarTB_shift]; exact le_of_lt ht), ybarTB_shift]
    refine HasDerivAt.congr_of_eventuallyEq ?_ heq
    have hin : HasDerivAt (fun t : ℝ => n * (Y0 + t * p)) (n * p) 0 := by
      have h1 : HasDerivAt (fun t : ℝ => Y0 + t * p) p 0 := by
        simpa using ((hasDerivAt_id (0 : ℝ)).mul_const p).const_add Y0
      exact h1.const_mul n
    rcases hy with hy | hy
    · -- no counts: the term is −n(Pλ+a)
      have : (fun t : ℝ => b.y * Real.log (n * (Y0 + t * p)) - n * (Y0 + t * p)) = fun t => - (n * (Y0 + t * p)) := by
        funext t; rw [hy]; ring
      rw [this, hy]
      have h2 : HasDerivAt (fun t : ℝ => - (n * (Y0 + t * p))) (-(n * p)) 0 := hin.neg
      have h3 : p * (0 / Y0 - n) = -(n * p) := by rw [zero_div]; ring
      rw [h3]; exact h2
    · have hypos : 0 < b.y := lt_of_le_of_lt hs hy
      have hnY : 0 < n * Y0 := lt_trans (div_pos hypos hq) hcapV
      have hne : n * (Y0 + 0 * p) ≠ 0 := by simpa using hnY.ne'
      have hlog := (hin.log hne).const_mul b.y
      have hfin : HasDerivAt (fun t : ℝ => b.y * Real.log (n * (Y0 + t * p)) - n * (Y0 + t * p))
          (b.y * (n * p / (n * (Y0 + 0 * p))) - n * p) 0 := hlog.sub hin
      have hn0 : n ≠ 0 := by
        intro h0; rw [h0, zero_mul] at hnY; exact lt_irrefl _ hnY
      have hY : Y0 ≠ 0 := by
        intro h0; rw [h0, mul_zero] at hnY; exact lt_irrefl _ hnY
      have h3 : p * (b.y / Y0 - n) = b.y * (n * p / (n * (Y0 + 0 * p))) - n * p := by
        rw [zero_mul, add_zero]; field_simp
      rw [h3]; exact hfin

/-- **the gradient is the derivative of the value** along the direction of voxel `v`, on the strict regular region -/
theorem value_hasDerivAt (c : Consts ℝ) (hq : 0 < c.maxQuot) (zero : Bool) (img : Nat → ℝ) (S : List (Viewgram ℝ)) (v : Nat)
    (h : StrictRegular c zero img S) :
    HasDerivAt (fun t => value c Real.log zero (shift img v t) S) (grad c zero img S v) 0 := by
  rw [grad_eq]
  unfold value
  apply hasDerivAt_sumMap (fun t vg => sumMap (valueTerm c Real.log zero (shift img v t) (smallOf c (yEff zero) vg)) vg)
  intro vg hvg
  apply hasDerivAt_sumMap (fun t b => valueTerm c Real.log zero (shift img v t) (smallOf c (yEff zero) vg) b)
  intro b hb
  exact valueTerm_hasDerivAt c hq zero img v (smallOf_nonneg c (yEff zero) vg) b (h vg hvg b hb)

end StirVerif.C05

namespace StirVerif.C05
open Filter Topology

/-- the image moved by `t` along the direction `x` -/
def shiftX (img x : Nat → ℝ) (t : ℝ) : Nat → ℝ := fun i => img i + t * x i

theorem fwd_shiftX (img x : Nat → ℝ) (t : ℝ) (row : List (Nat × ℝ)) :
    fwd (shiftX img x t) row = fwd img row + t * fwd x row := by
  unfold fwd shiftX
  rw [← sumMap_mul_left, ← sumMap_add]
  apply sumMap_congr
  intro e _
  ring

theorem ybarTB_shiftX (img x : Nat → ℝ) (t : ℝ) (b : Bin ℝ) :
    ybarTB (shiftX img x t) b = ybarTB img b + t * fwd x b.row := by
  unfold ybarTB; rw [fwd_shiftX]; ring

/-- the strict regular region of the gradient: the quotient is strictly not capped -/
def StrictRegularGrad (c : Consts ℝ) (zero : Bool) (img : Nat → ℝ) (S : List (Viewgram ℝ)) : Prop :=
  ∀ vg ∈ S, ∀ b ∈ vg, zeroed zero b = false →
    (b.y = 0 ∨ smallOf c (yEff zero) vg < b.y) ∧ b.y < c.maxQuot * ybarTB img b

theorem gradW_hasDerivAt (c : Consts ℝ) (hq : 0 < c.maxQuot) (zero : Bool) (img x : Nat → ℝ) {small : ℝ}
    (hs : 0 ≤ small) (b : Bin ℝ)
    (h : zeroed zero b = false → (b.y = 0 ∨ small < b.y) ∧ b.y < c.maxQuot * ybarTB img b) :
    HasDerivAt (fun t => gradW c zero false (shiftX img x t) small b)
      (if zeroed zero b then 0 else -(b.y * fwd x b.row / (ybarTB img b * ybarTB img b))) 0 := by
  by_cases hz : zeroed zero b = true
  · have h0 : (fun t => gradW c zero false (shiftX img x t) small b) = fun _ => (0 : ℝ) := by
      funext t; exact gradW_zeroed c false _ hs hz
    rw [h0]; simp only [hz, if_true]
    exact hasDerivAt_const _ _
  · have hz' : zeroed zero b = false := by simpa using hz
    obtain ⟨hy, hcap⟩ := h hz'
    simp only [hz', Bool.false_eq_true, if_false]
    set q := fwd x b.row with hq'
    set n := effB b with hn
    set Y0 := ybarTB img b with hY0
    have hev : ∀ᶠ t in 𝓝 (0 : ℝ), b.y < c.maxQuot * (Y0 + t * q) := by
      have hc : ContinuousAt (fun t : ℝ => c.maxQuot * (Y0 + t * q)) 0 := by fun_prop
      have : b.y < (fun t : ℝ => c.maxQuot * (Y0 + t * q)) 0 := by simpa using hcap
      exact hc.eventually (lt_mem_nhds this)
    have heq : (fun t => gradW c zero false (shiftX img x t) small b) =ᶠ[𝓝 0]
        fun t => b.y / (Y0 + t * q) - n := by
      filter_upwards [hev] with t ht
      rw [gradW_regular c (shiftX img x t) hs hz' hy (by rw [ybarTB_shiftX]; exact le_of_lt ht), ybarTB_shiftX]
    refine HasDerivAt.congr_of_eventuallyEq ?_ heq
    have hin : HasDerivAt (fun t : ℝ => Y0 + t * q) q 0 := by
      simpa using ((hasDerivAt_id (0 : ℝ)).mul_const q).const_add Y0
    rcases hy with hy | hy
    · have : (fun t : ℝ => b.y / (Y0 + t * q) - n) = fun _ => -n := by
        funext t; rw [hy]; simp
      rw [this, hy]
      simpa using hasDerivAt_const (0 : ℝ) (-n)
    · have hypos : 0 < b.y := lt_of_le_of_lt hs hy
      have hY : 0 < Y0 := by
        by_contra hneg
        have : c.maxQuot * Y0 ≤ 0 := mul_nonpos_of_nonneg_of_nonpos hq.le (not_lt.mp hneg)
        linarith
      have hne : Y0 + 0 * q ≠ 0 := by simpa using hY.ne'
      have hdiv := (hasDerivAt_const (0 : ℝ) b.y).div hin hne
      have hfin := hdiv.sub_const n
      have h3 : -(b.y * q / (Y0 * Y0)) = (0 * (Y0 + 0 * q) - b.y * q) / (Y0 + 0 * q) ^ 2 := by
        have hY' : Y0 ≠ 0 := hY.ne'
        simp only [zero_mul, add_zero, zero_sub]; field_simp
      rw [h3]; exact hfin

/-- **the Hessian product of the textbook is the derivative of the model's gradient** along `x` (on the strict regular
    region, over the bins of the data, i.e. with the end planes of segment 0 removed when requested) -/
theorem grad_hasDerivAt (c : Consts ℝ) (hq : 0 < c.maxQuot) (zero : Bool) (img x : Nat → ℝ) (S : List (Viewgram ℝ)) (v : Nat)
    (h : StrictRegularGrad c zero img S) :
    HasDerivAt (fun t => grad c zero (shiftX img x t) S v) (tbHessTimes img x (dataBins zero S) v) 0 := by
  have hfun : (fun t => grad c zero (shiftX img x t) S v) = fun t =>
      sumMap (fun vg => sumMap (fun b => coef b.row v * gradW c zero false (shiftX img x t) (smallOf c (yEff zero) vg) b) vg) S := by
    funext t; exact grad_eq c zero _ S v
  have hval : tbHessTimes img x (dataBins zero S) v =
      sumMap (fun vg => sumMap (fun b => coef b.row v *
        (if zeroed zero b then 0 else -(b.y * fwd x b.row / (ybarTB img b * ybarTB img b)))) vg) S := by
    unfold tbHessTimes
    rw [sumMap_dataBins, ← neg_one_mul, ← sumMap_mul_left]
    apply sumMap_congr; intro vg _
    rw [← sumMap_mul_left]
    apply sumMap_congr; intro b _
    cases zeroed zero b <;> simp
  rw [hfun, hval]
  apply hasDerivAt_sumMap (fun t vg => sumMap (fun b => coef b.row v * gradW c zero false (shiftX img x t) (smallOf c (yEff zero) vg) b) vg)
  intro vg hvg
  apply hasDerivAt_sumMap (fun t b => coef b.row v * gradW c zero false (shiftX img x t) (smallOf c (yEff zero) vg) b)
  intro b hb
  exact (gradW_hasDerivAt c hq zero img x (smallOf_nonneg c (yEff zero) vg) b (h vg hvg b hb)).const_mul _

end StirVerif.C05
