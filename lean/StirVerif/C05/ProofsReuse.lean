/-
C05 — the cached (subset) sensitivities of one object across several `set_up`s (`SensObj`, `setUpSens` of Model.lean):
whatever state earlier `set_up`s (or anything else) left in the object, a `set_up` that computes the sensitivities leaves
exactly the sensitivities of the new configuration, and the files it writes give them back to any object that reads them.
-/
import StirVerif.C05.ProofsAlgebra
import Mathlib.Tactic.Common

namespace StirVerif.C05
variable {I : Type}

/-! ### the loop -/

theorem forLoop_inv {σ : Type} (f : Nat → σ → σ) (P : Nat → σ → Prop) :
    ∀ (cnt lo : Nat) (st : σ), (∀ s st, lo ≤ s → s < lo + cnt → P s st → P (s + 1) (f s st)) → P lo st →
      P (lo + cnt) (forLoop f lo cnt st) := by
  intro cnt
  induction cnt with
  | zero => intro lo st _ h; simpa [forLoop] using h
  | succ cnt ih =>
    intro lo st hstep h
    have h1 : P (lo + 1) (f lo st) := hstep lo st (Nat.le_refl _) (by omega) h
    have := ih (lo + 1) (f lo st) (fun s st hs hlt hp => hstep s st (by omega) (by omega) hp) h1
    simpa [forLoop, Nat.add_assoc, Nat.add_comm 1 cnt] using this

/-! ### the heap operations -/

@[simp] theorem alloc_snd (o : SensObj I) (v : I) : (o.alloc v).2 = o.next := rfl
@[simp] theorem alloc_heap (o : SensObj I) (v : I) (p : Nat) :
    (o.alloc v).1.heap p = if p = o.next then some v else o.heap p := rfl
@[simp] theorem alloc_next (o : SensObj I) (v : I) : (o.alloc v).1.next = o.next + 1 := rfl
@[simp] theorem alloc_sub (o : SensObj I) (v : I) : (o.alloc v).1.sub = o.sub := rfl
@[simp] theorem alloc_tot (o : SensObj I) (v : I) : (o.alloc v).1.tot = o.tot := rfl
@[simp] theorem alloc_recompute (o : SensObj I) (v : I) : (o.alloc v).1.recompute = o.recompute := rfl

@[simp] theorem update_some_heap (o : SensObj I) (q : Nat) (f : I → I) (r : Nat) :
    (o.update (some q) f).heap r = if r = q then (o.heap r).map f else o.heap r := rfl
@[simp] theorem update_next (o : SensObj I) (p : Option Nat) (f : I → I) : (o.update p f).next = o.next := by
  cases p <;> rfl
@[simp] theorem update_sub (o : SensObj I) (p : Option Nat) (f : I → I) : (o.update p f).sub = o.sub := by
  cases p <;> rfl
@[simp] theorem update_tot (o : SensObj I) (p : Option Nat) (f : I → I) : (o.update p f).tot = o.tot := by
  cases p <;> rfl
@[simp] theorem update_recompute (o : SensObj I) (p : Option Nat) (f : I → I) : (o.update p f).recompute = o.recompute := by
  cases p <;> rfl

@[simp] theorem setSub_sub (o : SensObj I) (s : Nat) (p : Option Nat) (t : Nat) :
    (o.setSub s p).sub t = if t = s then p else o.sub t := rfl
@[simp] theorem setSub_heap (o : SensObj I) (s : Nat) (p : Option Nat) : (o.setSub s p).heap = o.heap := rfl
@[simp] theorem setSub_next (o : SensObj I) (s : Nat) (p : Option Nat) : (o.setSub s p).next = o.next := rfl
@[simp] theorem setSub_tot (o : SensObj I) (s : Nat) (p : Option Nat) : (o.setSub s p).tot = o.tot := rfl
@[simp] theorem setSub_recompute (o : SensObj I) (s : Nat) (p : Option Nat) : (o.setSub s p).recompute = o.recompute := rfl

/-- "subset `t` points to an allocated image with content `v`" -/
def holds (o : SensObj I) (t : Nat) (v : I) : Prop := ∃ p, o.sub t = some p ∧ p < o.next ∧ o.heap p = some v

theorem getSub_of_holds {o : SensObj I} {t : Nat} {v : I} (h : holds o t v) : o.getSub t = some v := by
  obtain ⟨p, hp, _, hv⟩ := h
  simp [SensObj.getSub, SensObj.deref, hp, hv]

/-! ### `set_total_or_subset_sensitivities` -/

/-- with subset sensitivities: the total is subset 0's copy plus subsets 1 … n-1, the subsets are left alone -/
theorem setTotal_useSub (ops : ImgOps I) (n : Nat) (o : SensObj I) (v : Nat → I) (hn : 0 < n)
    (h : ∀ t, t < n → holds o t (v t)) :
    (setTotalOrSubset ops true n o).getTot = some (sumSubs ops v (n - 1)) ∧
      (∀ t, t < n → holds (setTotalOrSubset ops true n o) t (v t)) ∧
      (setTotalOrSubset ops true n o).recompute = o.recompute := by
  obtain ⟨p0, hp0, hlt0, hv0⟩ := h 0 hn
  have hd : o.deref (o.sub 0) = some (v 0) := by simp [SensObj.deref, hp0, hv0]
  simp only [setTotalOrSubset, if_true, hd]
  -- the loop
  let P : Nat → SensObj I → Prop := fun s o' =>
    o'.tot = some o.next ∧ o'.next = o.next + 1 ∧ o'.heap o.next = some (sumSubs ops v (s - 1)) ∧
      (∀ t, t < n → ∃ p, o'.sub t = some p ∧ p < o.next ∧ o'.heap p = some (v t)) ∧ o'.recompute = o.recompute
  have hP := forLoop_inv (addSubStep ops) P (n - 1) 1 { (o.alloc (v 0)).1 with tot := some (o.alloc (v 0)).2 }
    (by
      intro s o' hs hlt ⟨h1, h2, h3, h4, h5⟩
      obtain ⟨j, rfl⟩ : ∃ j, s = j + 1 := ⟨s - 1, by omega⟩
      obtain ⟨p, hp, hplt, hpv⟩ := h4 (j + 1) (by omega)
      have hd' : o'.deref (o'.sub (j + 1)) = some (v (j + 1)) := by simp [SensObj.deref, hp, hpv]
      simp only [addSubStep, hd', h1]
      refine ⟨by simp [h1], by simp [h2], ?_, ?_, by simp [h5]⟩
      · simp [h3, sumSubs]
      · intro t ht
        obtain ⟨q, hq, hqlt, hqv⟩ := h4 t ht
        exact ⟨q, by simp [hq], hqlt, by simp [hqv, Nat.ne_of_lt hqlt]⟩)
    (by
      refine ⟨rfl, rfl, by simp [sumSubs], ?_, rfl⟩
      intro t ht
      obtain ⟨q, hq, hqlt, hqv⟩ := h t ht
      exact ⟨q, by simp [hq], hqlt, by simp [hqv, Nat.ne_of_lt hqlt]⟩)
  have hn' : 1 + (n - 1) = n := by omega
  rw [hn'] at hP
  revert hP
  generalize forLoop (addSubStep ops) 1 (n - 1) _ = res
  rintro ⟨h1, h2, h3, h4, h5⟩
  refine ⟨by simp [SensObj.getTot, SensObj.deref, h1, h3], ?_, h5⟩
  intro t ht
  obtain ⟨q, hq, hqlt, hqv⟩ := h4 t ht
  exact ⟨q, hq, by omega, hqv⟩

/-- without subset sensitivities: the total is left alone, every subset points to one new image holding total / num_subsets -/
theorem setTotal_noSub (ops : ImgOps I) (n : Nat) (o : SensObj I) (T : I) (p0 : Nat) (hn : 0 < n)
    (ht : o.tot = some p0) (hlt : p0 < o.next) (hv : o.heap p0 = some T) :
    (setTotalOrSubset ops false n o).getTot = some T ∧
      (∀ t, t < n → holds (setTotalOrSubset ops false n o) t (ops.divN T n)) ∧
      (setTotalOrSubset ops false n o).recompute = o.recompute := by
  have hd : o.deref o.tot = some T := by simp [SensObj.deref, ht, hv]
  simp only [setTotalOrSubset, Bool.false_eq_true, if_false, hd]
  let P : Nat → SensObj I → Prop := fun s o' =>
    o'.tot = some p0 ∧ o'.next = o.next + 1 ∧ o'.heap p0 = some T ∧ o'.heap o.next = some (ops.divN T n) ∧
      (∀ t, t < s → o'.sub t = some o.next) ∧ o'.recompute = o.recompute
  have hP := forLoop_inv shareStep P (n - 1) 1
    ((((o.alloc T).1).setSub 0 (some (o.alloc T).2)).update (some (o.alloc T).2) (fun a => ops.divN a n))
    (by
      intro s o' hs hlt' ⟨h1, h2, h3, h4, h5, h6⟩
      refine ⟨by simp [shareStep, h1], by simp [shareStep, h2], by simp [shareStep, h3], by simp [shareStep, h4], ?_,
        by simp [shareStep, h6]⟩
      intro t ht'
      by_cases hts : t = s
      · simp [shareStep, hts, h5 0 (by omega)]
      · simp [shareStep, hts, h5 t (by omega)])
    (by
      refine ⟨by simp [ht], by simp, by simp [hv, Nat.ne_of_lt hlt], by simp, ?_, by simp⟩
      intro t ht'
      have : t = 0 := by omega
      simp [this])
  have hn' : 1 + (n - 1) = n := by omega
  rw [hn'] at hP
  revert hP
  generalize forLoop shareStep 1 (n - 1) _ = res
  rintro ⟨h1, h2, h3, h4, h5, h6⟩
  refine ⟨by simp [SensObj.getTot, SensObj.deref, h1, h3], ?_, h6⟩
  intro t ht'
  exact ⟨o.next, h5 t ht', by omega, h4⟩

/-! ### `compute_sensitivities` -/

/-- the loop with subset sensitivities, from ANY state in which subset 0 points to an allocated image: afterwards every subset
    `t < n` points to an image of its own holding `0 + inc t` -/
theorem computeLoop_useSub (ops : ImgOps I) (inc : Nat → I) (n : Nat) (o : SensObj I) (p0 : Nat) (w : I)
    (hs : o.sub 0 = some p0) (hlt : p0 < o.next) (hv : o.heap p0 = some w) :
    (∀ t, t < n → holds (forLoop (computeStep ops true inc) 0 n o) t (ops.add ops.zero (inc t))) ∧
      (forLoop (computeStep ops true inc) 0 n o).recompute = o.recompute := by
  let P : Nat → SensObj I → Prop := fun k o' =>
    o'.sub 0 = some p0 ∧ p0 < o'.next ∧ (∃ w, o'.heap p0 = some w) ∧
      (∀ t, t < k → holds o' t (ops.add ops.zero (inc t))) ∧ o'.recompute = o.recompute
  have hP := forLoop_inv (computeStep ops true inc) P n 0 o
    (by
      intro s o' _ _ ⟨h1, h2, ⟨w', h3⟩, h4, h5⟩
      by_cases hs0 : s = 0
      · subst hs0
        refine ⟨by simp [computeStep, h1], by simp [computeStep, h1, h2], ⟨ops.add ops.zero (inc 0), by simp [computeStep, h1, h3]⟩, ?_,
          by simp [computeStep, h5]⟩
        intro t ht
        have : t = 0 := by omega
        subst this
        exact ⟨p0, by simp [computeStep, h1], by simp [computeStep, h1, h2], by simp [computeStep, h1, h3]⟩
      · have hd : o'.deref (o'.sub 0) = some w' := by simp [SensObj.deref, h1, h3]
        have hne : p0 ≠ o'.next := Nat.ne_of_lt h2
        have h0s : ¬ (0 = s) := fun h => hs0 h.symm
        have hstep : computeStep ops true inc s o' =
            (((o'.alloc ops.zero).1).setSub s (some o'.next)).update (some o'.next) (fun a => ops.add a (inc s)) := by
          simp only [computeStep, hs0, if_false, if_true, hd, alloc_snd, setSub_sub]
        rw [hstep]
        refine ⟨by simp [h0s, h1], by simp; omega, ⟨w', by simp [hne, h3]⟩, ?_, by simp [h5]⟩
        intro t ht
        by_cases hts : t = s
        · subst hts
          exact ⟨o'.next, by simp, by simp, by simp⟩
        · obtain ⟨q, hq, hqlt, hqv⟩ := h4 t (by omega)
          exact ⟨q, by simp [hts, hq], by simp; omega, by simp [Nat.ne_of_lt hqlt, hqv]⟩)
    ⟨hs, hlt, ⟨w, hv⟩, fun t ht => absurd ht (Nat.not_lt_zero t), rfl⟩
  rw [Nat.zero_add] at hP
  exact ⟨hP.2.2.2.1, hP.2.2.2.2⟩

/-- the loop without subset sensitivities, from ANY state in which subset 0 points to an allocated image: afterwards that image
    holds the subsets accumulated into an image of zeroes -/
theorem computeLoop_noSub (ops : ImgOps I) (inc : Nat → I) (n : Nat) (o : SensObj I) (p0 : Nat) (w : I) (hn : 0 < n)
    (hs : o.sub 0 = some p0) (hv : o.heap p0 = some w) :
    (forLoop (computeStep ops false inc) 0 n o).sub 0 = some p0 ∧
      (forLoop (computeStep ops false inc) 0 n o).heap p0 = some (accSens ops inc n) ∧
      (forLoop (computeStep ops false inc) 0 n o).next = o.next ∧
      (forLoop (computeStep ops false inc) 0 n o).recompute = o.recompute := by
  let P : Nat → SensObj I → Prop := fun k o' =>
    o'.sub 0 = some p0 ∧ (k = 0 → ∃ w, o'.heap p0 = some w) ∧ (1 ≤ k → o'.heap p0 = some (accSens ops inc k)) ∧
      o'.next = o.next ∧ o'.recompute = o.recompute
  have hP := forLoop_inv (computeStep ops false inc) P n 0 o
    (by
      intro s o' _ _ ⟨h1, h2, h3, h4, h5⟩
      by_cases hs0 : s = 0
      · subst hs0
        obtain ⟨w', hw'⟩ := h2 rfl
        exact ⟨by simp [computeStep, h1], fun h => absurd h (by omega), fun _ => by simp [computeStep, h1, hw', accSens],
          by simp [computeStep, h4], by simp [computeStep, h5]⟩
      · have h0s : ¬ (0 = s) := fun h => hs0 h.symm
        have hh := h3 (by omega)
        obtain ⟨j, rfl⟩ : ∃ j, s = j + 1 := ⟨s - 1, by omega⟩
        exact ⟨by simp [computeStep, h1], fun h => absurd h (by omega),
          fun _ => by simp [computeStep, h1, hh, accSens], by simp [computeStep, h4], by simp [computeStep, h5]⟩)
    ⟨hs, fun _ => ⟨w, hv⟩, fun h => absurd h (by omega), rfl, rfl⟩
  rw [Nat.zero_add] at hP
  exact ⟨hP.1, hP.2.2.1 hn, hP.2.2.2.1, hP.2.2.2.2⟩

/-- `compute_sensitivities` with subset sensitivities, from ANY state in which subset 0 points to an allocated image -/
theorem computeSensitivities_useSub (ops : ImgOps I) (inc : Nat → I) (n : Nat) (o : SensObj I) (p0 : Nat) (w : I) (hn : 0 < n)
    (hs : o.sub 0 = some p0) (hlt : p0 < o.next) (hv : o.heap p0 = some w) :
    (∀ t, t < n → (computeSensitivities ops true n inc o).getSub t = some (ops.add ops.zero (inc t))) ∧
      (computeSensitivities ops true n inc o).getTot = some (sumSubs ops (fun t => ops.add ops.zero (inc t)) (n - 1)) ∧
      (computeSensitivities ops true n inc o).recompute = o.recompute := by
  obtain ⟨h1, h2⟩ := computeLoop_useSub ops inc n o p0 w hs hlt hv
  obtain ⟨g1, g2, g3⟩ := setTotal_useSub ops n _ (fun t => ops.add ops.zero (inc t)) hn h1
  refine ⟨fun t ht => ?_, ?_, ?_⟩
  · exact getSub_of_holds (by simpa [computeSensitivities, moveToTotal] using g2 t ht)
  · simpa [computeSensitivities, moveToTotal] using g1
  · simpa [computeSensitivities, moveToTotal, h2] using g3

/-- `compute_sensitivities` without subset sensitivities, from ANY state in which subset 0 points to an allocated image -/
theorem computeSensitivities_noSub (ops : ImgOps I) (inc : Nat → I) (n : Nat) (o : SensObj I) (p0 : Nat) (w : I) (hn : 0 < n)
    (hs : o.sub 0 = some p0) (hlt : p0 < o.next) (hv : o.heap p0 = some w) :
    (∀ t, t < n → (computeSensitivities ops false n inc o).getSub t = some (ops.divN (accSens ops inc n) n)) ∧
      (computeSensitivities ops false n inc o).getTot = some (accSens ops inc n) ∧
      (computeSensitivities ops false n inc o).recompute = o.recompute := by
  obtain ⟨h1, h2, h3, h4⟩ := computeLoop_noSub ops inc n o p0 w hn hs hv
  obtain ⟨g1, g2, g3⟩ := setTotal_noSub ops n (moveToTotal false (forLoop (computeStep ops false inc) 0 n o)) (accSens ops inc n) p0 hn
    (by simp [moveToTotal, h1]) (by simp [moveToTotal, h3, hlt]) (by simp [moveToTotal, h2])
  refine ⟨fun t ht => ?_, ?_, ?_⟩
  · exact getSub_of_holds (by simpa [computeSensitivities] using g2 t ht)
  · simpa [computeSensitivities] using g1
  · simpa [computeSensitivities, moveToTotal, h4] using g3

/-! ### `set_up` -/

/-- the state `set_up` hands to `compute_sensitivities` -/
theorem setUpSens_of_willCompute (ops : ImgOps I) (c : SensCfg) (inc : Nat → I) (o : SensObj I) (files : SensFiles I)
    (hacc : c.accepted = true) (hw : willCompute c o = true) :
    ∃ o2 : SensObj I, o2.recompute = true ∧
      setUpSens ops c inc o files =
        (true, computeSensitivities ops c.useSub c.n inc (((o2.alloc ops.zero).1).setSub 0 (some o2.next)),
          writeSens c (computeSensitivities ops c.useSub c.n inc (((o2.alloc ops.zero).1).setSub 0 (some o2.next))) files) := by
  refine ⟨{ o.resize c.n with recompute := true }, rfl, ?_⟩
  simp [setUpSens, hw, hacc]

theorem setUpSens_computes (ops : ImgOps I) (c : SensCfg) (inc : Nat → I) (o : SensObj I) (files : SensFiles I)
    (hn : 0 < c.n) (hacc : c.accepted = true) (hw : willCompute c o = true) :
    (setUpSens ops c inc o files).1 = true ∧
    (c.useSub = true →
      (∀ t, t < c.n → (setUpSens ops c inc o files).2.1.getSub t = some (ops.add ops.zero (inc t))) ∧
      (setUpSens ops c inc o files).2.1.getTot = some (sumSubs ops (fun t => ops.add ops.zero (inc t)) (c.n - 1))) ∧
    (c.useSub = false →
      (∀ t, t < c.n → (setUpSens ops c inc o files).2.1.getSub t = some (ops.divN (accSens ops inc c.n) c.n)) ∧
      (setUpSens ops c inc o files).2.1.getTot = some (accSens ops inc c.n)) ∧
    (setUpSens ops c inc o files).2.1.recompute = true ∧
    (setUpSens ops c inc o files).2.2 = writeSens c (setUpSens ops c inc o files).2.1 files := by
  obtain ⟨o2, hr, heq⟩ := setUpSens_of_willCompute ops c inc o files hacc hw
  rw [heq]
  have hs : (((o2.alloc ops.zero).1).setSub 0 (some o2.next)).sub 0 = some o2.next := by simp
  have hlt : o2.next < (((o2.alloc ops.zero).1).setSub 0 (some o2.next)).next := by simp
  have hv : (((o2.alloc ops.zero).1).setSub 0 (some o2.next)).heap o2.next = some ops.zero := by simp
  refine ⟨rfl, ?_, ?_, ?_, rfl⟩
  · intro hu
    rw [hu]
    obtain ⟨g1, g2, _⟩ := computeSensitivities_useSub ops inc c.n _ o2.next ops.zero hn hs hlt hv
    exact ⟨g1, g2⟩
  · intro hu
    rw [hu]
    obtain ⟨g1, g2, _⟩ := computeSensitivities_noSub ops inc c.n _ o2.next ops.zero hn hs hlt hv
    exact ⟨g1, g2⟩
  · cases hu : c.useSub
    · obtain ⟨_, _, g3⟩ := computeSensitivities_noSub ops inc c.n _ o2.next ops.zero hn hs hlt hv
      simpa [hr] using g3
    · obtain ⟨_, _, g3⟩ := computeSensitivities_useSub ops inc c.n _ o2.next ops.zero hn hs hlt hv
      simpa [hr] using g3

/-! ### reading the sensitivities back from file -/

theorem readLoop (files : SensFiles I) (n : Nat) (o : SensObj I) (v : Nat → I) (hf : ∀ t, t < n → files.sub t = some (v t)) :
    (forLoop (readStep files) 0 n (true, o)).1 = true ∧
      (∀ t, t < n → holds (forLoop (readStep files) 0 n (true, o)).2 t (v t)) ∧
      (forLoop (readStep files) 0 n (true, o)).2.recompute = o.recompute := by
  let P : Nat → Bool × SensObj I → Prop := fun k r =>
    r.1 = true ∧ (∀ t, t < k → holds r.2 t (v t)) ∧ r.2.recompute = o.recompute
  have hP := forLoop_inv (readStep files) P n 0 (true, o)
    (by
      intro s r _ hlt ⟨h1, h2, h3⟩
      have hstep : readStep files s r = (true, ((r.2.alloc (v s)).1).setSub s (some r.2.next)) := by
        simp [readStep, h1, hf s (by omega)]
      rw [hstep]
      refine ⟨rfl, ?_, by simp [h3]⟩
      intro t ht
      by_cases hts : t = s
      · subst hts
        exact ⟨r.2.next, by simp, by simp, by simp⟩
      · obtain ⟨q, hq, hqlt, hqv⟩ := h2 t (by omega)
        exact ⟨q, by simp [hts, hq], by simp; omega, by simp [Nat.ne_of_lt hqlt, hqv]⟩)
    ⟨rfl, fun t ht => absurd ht (Nat.not_lt_zero t), rfl⟩
  rw [Nat.zero_add] at hP
  exact hP

theorem readSens_useSub (ops : ImgOps I) (c : SensCfg) (o : SensObj I) (files : SensFiles I) (v : Nat → I) (hn : 0 < c.n)
    (hu : c.useSub = true) (hname : c.subName = true) (hf : ∀ t, t < c.n → files.sub t = some (v t)) :
    (readSens ops c o files).1 = true ∧
      (∀ t, t < c.n → (readSens ops c o files).2.getSub t = some (v t)) ∧
      (readSens ops c o files).2.getTot = some (sumSubs ops v (c.n - 1)) ∧
      (readSens ops c o files).2.recompute = o.recompute := by
  obtain ⟨h1, h2, h3⟩ := readLoop files c.n o v hf
  obtain ⟨g1, g2, g3⟩ := setTotal_useSub ops c.n _ v hn h2
  simp only [readSens, hu, hname, if_true, Bool.not_true, Bool.false_eq_true, if_false, h1]
  exact ⟨trivial, fun t ht => getSub_of_holds (g2 t ht), g1, by rw [g3, h3]⟩

theorem readSens_noSub (ops : ImgOps I) (c : SensCfg) (o : SensObj I) (files : SensFiles I) (T : I) (hn : 0 < c.n)
    (hu : c.useSub = false) (hname : c.totName = true) (hf : files.tot = some T) :
    (readSens ops c o files).1 = true ∧
      (∀ t, t < c.n → (readSens ops c o files).2.getSub t = some (ops.divN T c.n)) ∧
      (readSens ops c o files).2.getTot = some T ∧
      (readSens ops c o files).2.recompute = o.recompute := by
  obtain ⟨g1, g2, g3⟩ := setTotal_noSub ops c.n { (o.alloc T).1 with tot := some (o.alloc T).2 } T o.next hn rfl
    (by simp) (by simp)
  simp only [readSens, hu, hname, Bool.false_eq_true, if_false, Bool.not_true, hf]
  exact ⟨trivial, fun t ht => getSub_of_holds (g2 t ht), g1, by rw [g3]; rfl⟩

/-- a `set_up` that does not compute (member off, file name set) on ANY object reads what a computing `set_up` of the same
    configuration has written, and then holds the same subset sensitivities and the same total as the writer -/
theorem setUpSens_reads_back (ops : ImgOps I) (c : SensCfg) (inc inc2 : Nat → I) (o o2 : SensObj I) (files : SensFiles I)
    (hn : 0 < c.n) (hacc : c.accepted = true) (hw : willCompute c o = true)
    (hname : (if c.useSub then c.subName else c.totName) = true) (hr2 : o2.recompute = false) :
    (setUpSens ops c inc2 o2 (setUpSens ops c inc o files).2.2).1 = true ∧
      (∀ t, t < c.n → (setUpSens ops c inc2 o2 (setUpSens ops c inc o files).2.2).2.1.getSub t
          = (setUpSens ops c inc o files).2.1.getSub t) ∧
      (setUpSens ops c inc2 o2 (setUpSens ops c inc o files).2.2).2.1.getTot = (setUpSens ops c inc o files).2.1.getTot ∧
      (setUpSens ops c inc2 o2 (setUpSens ops c inc o files).2.2).2.2 = (setUpSens ops c inc o files).2.2 := by
  obtain ⟨_, hsub, hnosub, _, hfiles⟩ := setUpSens_computes ops c inc o files hn hacc hw
  generalize setUpSens ops c inc o files = w at hsub hnosub hfiles ⊢
  cases hu : c.useSub
  · -- the total is written and read
    simp only [hu, Bool.false_eq_true, if_false] at hname
    obtain ⟨hs, ht⟩ := hnosub hu
    have hf : w.2.2.tot = some (accSens ops inc c.n) := by rw [hfiles]; simp [writeSens, hu, hname, ht]
    have hw2 : willCompute c o2 = false := by simp [willCompute, hr2, hu, hname]
    obtain ⟨r1, r2, r3, r4⟩ := readSens_noSub ops c (o2.resize c.n) w.2.2 _ hn hu hname hf
    have hrc : (o2.resize c.n).recompute = false := hr2
    have heq : setUpSens ops c inc2 o2 w.2.2 = (true, (readSens ops c (o2.resize c.n) w.2.2).2, w.2.2) := by
      simp [setUpSens, hw2, hrc, r1, hacc, r4]
    rw [heq]
    exact ⟨rfl, fun t htn => by rw [r2 t htn, hs t htn], by rw [r3, ht], rfl⟩
  · simp only [hu, if_true] at hname
    obtain ⟨hs, ht⟩ := hsub hu
    have hf : ∀ t, t < c.n → w.2.2.sub t = some (ops.add ops.zero (inc t)) := by
      intro t htn; rw [hfiles]; simp [writeSens, hu, hname, htn, hs t htn]
    have hw2 : willCompute c o2 = false := by simp [willCompute, hr2, hu, hname]
    obtain ⟨r1, r2, r3, r4⟩ := readSens_useSub ops c (o2.resize c.n) w.2.2 _ hn hu hname hf
    have hrc : (o2.resize c.n).recompute = false := hr2
    have heq : setUpSens ops c inc2 o2 w.2.2 = (true, (readSens ops c (o2.resize c.n) w.2.2).2, w.2.2) := by
      simp [setUpSens, hw2, hrc, r1, hacc, r4]
    rw [heq]
    exact ⟨rfl, fun t htn => by rw [r2 t htn, hs t htn], by rw [r3, ht], rfl⟩

/-! ### images with values in a field: the closed forms are the textbook sensitivities -/

section Field
variable {K : Type} [Field K] [LinearOrder K] [IsStrictOrderedRing K]

/-- images as functions voxel ↦ value, with the voxel-wise operations -/
def fieldOps (K : Type) [Field K] : ImgOps (Nat → K) :=
  { zero := fun _ => 0, add := fun a b v => a v + b v, divN := fun a n v => a v / (n : K) }

/-- what `add_subset_sensitivity(·, s)` adds for subset `s` of the subset scheme `Ss` (a list of the subsets' viewgrams) -/
def sensInc (zero : Bool) (Ss : List (List (Viewgram K))) (s : Nat) : Nat → K := fun v => sens zero (Ss.getD s []) v

theorem accSens_field (inc : Nat → Nat → K) (k v : Nat) :
    accSens (fieldOps K) inc k v = sumMap (fun s => inc s v) (List.range k) := by
  induction k with
  | zero => simp [accSens, fieldOps, sumMap]
  | succ k ih =>
    rw [List.range_succ, sumMap_append]
    simp only [accSens]
    show accSens (fieldOps K) inc k v + inc k v = _
    rw [ih]; simp [sumMap]

theorem sumSubs_field (inc : Nat → Nat → K) (k v : Nat) :
    sumSubs (fieldOps K) (fun t => (fieldOps K).add (fieldOps K).zero (inc t)) k v = sumMap (fun s => inc s v) (List.range (k + 1)) := by
  induction k with
  | zero => simp [sumSubs, fieldOps, sumMap, List.range_succ]
  | succ k ih =>
    rw [List.range_succ, sumMap_append]
    simp only [sumSubs]
    show sumSubs (fieldOps K) (fun t => (fieldOps K).add (fieldOps K).zero (inc t)) k v + (0 + inc (k + 1) v) = _
    rw [ih]; simp [sumMap]

theorem sumMap_range_getD {α : Type} (g : α → K) (d : α) (l : List α) :
    sumMap (fun s => g (l.getD s d)) (List.range l.length) = sumMap g l := by
  induction l with
  | nil => simp [sumMap]
  | cons a l ih =>
    rw [List.length_cons, List.range_succ_eq_map, sumMap_cons, sumMap_map, sumMap_cons]
    simp only [List.getD_cons_zero, List.getD_cons_succ]
    rw [ih]

/-- the sum over the subsets of the scheme of what `add_subset_sensitivity` adds is the sensitivity of the whole data set -/
theorem sum_sensInc (zero : Bool) (Ss : List (List (Viewgram K))) (All : List (Viewgram K)) (h : Ss.flatten.Perm All) (v : Nat) :
    sumMap (fun s => sensInc zero Ss s v) (List.range Ss.length) = sens zero All v := by
  have := sumMap_range_getD (fun S => sens zero S v) [] Ss
  simp only [sensInc]
  rw [this]
  exact sens_sum_over_subsets zero Ss All h v

end Field

end StirVerif.C05
