/-
C05 — the set-up flag state machine of `PoissonLogLikelihoodWithLinearModelForMeanAndProjData`:
invariant, correctness of every history when the invariant holds after `set_up`, and the histories on
which it does not.
-/
import StirVerif.C05.Model
import Mathlib.Tactic.Cases
import Mathlib.Tactic.Common

namespace StirVerif.C05

/-- the flags tell the truth about what was set up (whenever `already` / `normSetup` say that something was);
    nothing is required of the members without initialiser while `already` / `normSetup` are `false` -/
def invB (s : St) : Bool :=
  (!s.already || s.workers == some s.latestOrig) && (!s.normSetup || s.norm == some s.normOrig)

/-- one step from a state satisfying the invariant: the request is served with the projectors and the normalisation
    set-up it needs, no `error`, and the invariant holds again -/
theorem step_ok (sameProj : Bool) (s : St) (r : Req) : invB s = true →
    (servedOK sameProj s r && ((step sameProj s r).map invB).getD false) = true := by
  obtain ⟨a, l, ns, no, w, nm⟩ := s
  rcases w with _ | _ | _ <;> rcases nm with _ | _ | _ <;> rcases r with _ | _ | _ | _ | _ | _ <;>
    decide +revert

theorem run_ok (sameProj : Bool) (s : St) (h : invB s = true) (rs : List Req) : ∀ b ∈ run sameProj s rs, b = true := by
  induction rs generalizing s with
  | nil => simp [run]
  | cons r rs ih =>
    have hs := step_ok sameProj s r h
    simp only [Bool.and_eq_true] at hs
    obtain ⟨h1, h2⟩ := hs
    intro b hb
    simp only [run, List.mem_cons] at hb
    rcases hb with hb | hb
    · rw [hb]; exact h1
    · cases hst : step sameProj s r with
      | none => simp [hst] at h2
      | some s' =>
        simp only [hst, Option.map_some, Option.getD_some] at h2
        simp only [hst, Option.getD_some] at hb
        exact ih s' h2 b hb

/-- the state left by `set_up_before_sensitivity` satisfies the invariant whatever the indeterminate members are -/
theorem inv_afterSetUpBefore (g g2 : Bool) : invB (St.afterSetUpBefore g g2) = true := by
  revert g g2; decide

/-- … and so does the state after `set_up`, with or without (re)computation of the sensitivities, for any number of subsets -/
theorem inv_afterSetUp (sameProj recompute : Bool) (n : Nat) (g g2 : Bool) :
    invB (St.afterSetUp sameProj recompute n g g2) = true := by
  unfold St.afterSetUp
  cases recompute
  · simpa using inv_afterSetUpBefore g g2
  · simp only [if_true]
    have hstep : ∀ (s : St), invB s = true → invB ((step sameProj s Req.sensitivity).getD s) = true := by
      intro s hs
      have := step_ok sameProj s Req.sensitivity hs
      simp only [Bool.and_eq_true] at this
      cases hst : step sameProj s Req.sensitivity with
      | none => simp [hst] at this
      | some s' => simpa [hst] using this.2
    have : ∀ (k : Nat) (s : St), invB s = true →
        invB ((List.replicate k Req.sensitivity).foldl (fun s r => (step sameProj s r).getD s) s) = true := by
      intro k
      induction k with
      | zero => intro s hs; simpa using hs
      | succ k ih => intro s hs; simp only [List.replicate_succ, List.foldl_cons]; exact ih _ (hstep s hs)
    exact this n _ (inv_afterSetUpBefore g g2)

end StirVerif.C05
