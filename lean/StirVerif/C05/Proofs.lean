import StirVerif.C05.ProofsAlgebra
import StirVerif.C05.ProofsTextbook
import StirVerif.C05.ProofsSetup
import StirVerif.C05.ProofsDeriv
import StirVerif.C05.ProofsReuse
import StirVerif.C05.ProofsSetters
