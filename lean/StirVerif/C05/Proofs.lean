import StirVerif.C05.Model
