/-
C05 — helper lemmas and proofs for the algebraic clauses: the model of `Model.lean` instantiated with an
arbitrary linearly ordered field `K` (in particular `ℚ`, which is what the driver executes, and `ℝ`).
-/
import StirVerif.C05.Model
import Mathlib.Algebra.Order.Field.Basic
import Mathlib.Tactic.Ring
import Mathlib.Tactic.Linarith
import Mathlib.Tactic.FieldSimp

set_option linter.unusedSectionVars false
set_option linter.unusedSimpArgs false

namespace StirVerif.C05
variable {K : Type} [Field K] [LinearOrder K] [IsStrictOrderedRing K]

/-! ## sums -/

theorem sumMap_nil {α} (f : α → K) : sumMap f [] = 0 := rfl
theorem sumMap_cons {α} (f : α → K) (a : α) (l : List α) : sumMap f (a :: l) = f a + sumMap f l := rfl

theorem sumMap_append {α} (f : α → K) (l₁ l₂ : List α) : sumMap f (l₁ ++ l₂) = sumMap f l₁ + sumMap f l₂ := by
  induction l₁ with
  | nil => simp [sumMap_nil]
  | cons a l ih => simp [sumMap_cons, ih, add_assoc]

theorem sumMap_congr {α} (f g : α → K) (l : List α) (h : ∀ a ∈ l, f a = g a) : sumMap f l = sumMap g l := by
  induction l with
  | nil => rfl
  | cons a l ih =>
    rw [sumMap_cons, sumMap_cons, h a (by simp), ih (fun b hb => h b (by simp [hb]))]

theorem sumMap_sub {α} (f g : α → K) (l : List α) : sumMap (fun a => f a - g a) l = sumMap f l - sumMap g l := by
  induction l with
  | nil => simp [sumMap_nil]
  | cons a l ih => simp only [sumMap_cons, ih]; ring

theorem sumMap_add {α} (f g : α → K) (l : List α) : sumMap (fun a => f a + g a) l = sumMap f l + sumMap g l := by
  induction l with
  | nil => simp [sumMap_nil]
  | cons a l ih => simp only [sumMap_cons, ih]; ring

theorem sumMap_mul_left {α} (c : K) (f : α → K) (l : List α) : sumMap (fun a => c * f a) l = c * sumMap f l := by
  induction l with
  | nil => simp [sumMap_nil]
  | cons a l ih => simp only [sumMap_cons, ih]; ring

theorem sumMap_mul_right {α} (c : K) (f : α → K) (l : List α) : sumMap (fun a => f a * c) l = sumMap f l * c := by
  induction l with
  | nil => simp [sumMap_nil]
  | cons a l ih => simp only [sumMap_cons, ih]; ring

theorem sumMap_zero {α} (l : List α) : sumMap (fun _ => (0 : K)) l = 0 := by
  induction l with
  | nil => rfl
  | cons a l ih => simp [sumMap_cons, ih]

theorem sumMap_const {α} (c : K) (l : List α) : sumMap (fun _ => c) l = (l.length : K) * c := by
  induction l with
  | nil => simp [sumMap_nil]
  | cons a l ih => simp only [sumMap_cons, ih, List.length_cons, Nat.cast_succ]; ring

theorem sumMap_perm {α} (f : α → K) {l₁ l₂ : List α} (h : l₁.Perm l₂) : sumMap f l₁ = sumMap f l₂ := by
  induction h with
  | nil => rfl
  | cons a _ ih => simp [sumMap_cons, ih]
  | swap a b l => simp only [sumMap_cons]; ring
  | trans _ _ ih₁ ih₂ => exact ih₁.trans ih₂

theorem sumMap_flatMap {α β} (f : β → K) (g : α → List β) (l : List α) :
    sumMap f (l.flatMap g) = sumMap (fun a => sumMap f (g a)) l := by
  induction l with
  | nil => rfl
  | cons a l ih => simp [List.flatMap_cons, sumMap_append, sumMap_cons, ih]

theorem sumMap_map {α β} (f : β → K) (g : α → β) (l : List α) : sumMap f (l.map g) = sumMap (fun a => f (g a)) l := by
  induction l with
  | nil => rfl
  | cons a l ih => simp [sumMap_cons, ih]

theorem sumMap_flatten {α} (f : α → K) (ls : List (List α)) : sumMap f ls.flatten = sumMap (fun l => sumMap f l) ls := by
  induction ls with
  | nil => rfl
  | cons l ls ih => simp [sumMap_append, sumMap_cons, ih]

theorem sumMap_filter {α} (f : α → K) (p : α → Bool) (l : List α) :
    sumMap f (l.filter p) = sumMap (fun a => if p a then f a else 0) l := by
  induction l with
  | nil => rfl
  | cons a l ih =>
    by_cases h : p a <;> simp [List.filter_cons, h, sumMap_cons, ih]

/-! ## images given by contributions -/

/-- coefficient of voxel `v` in a row: `P_bv` (rows may list a voxel more than once) -/
def coef (row : List (Nat × K)) (v : Nat) : K := sumMap (fun e => if e.1 = v then e.2 else 0) row

theorem imageAt_append (a b : List (Nat × K)) (v : Nat) : imageAt (a ++ b) v = imageAt a v + imageAt b v := by
  unfold imageAt; exact sumMap_append _ _ _

theorem imageAt_nil (v : Nat) : imageAt ([] : List (Nat × K)) v = 0 := rfl

theorem imageAt_flatMap {α} (g : α → List (Nat × K)) (l : List α) (v : Nat) :
    imageAt (l.flatMap g) v = sumMap (fun a => imageAt (g a) v) l := by
  unfold imageAt; exact sumMap_flatMap _ _ _

theorem imageAt_perm {a b : List (Nat × K)} (h : a.Perm b) (v : Nat) : imageAt a v = imageAt b v := by
  unfold imageAt; exact sumMap_perm _ h

theorem imageAt_row (row : List (Nat × K)) (w : K) (v : Nat) :
    imageAt (row.map fun e => (e.1, e.2 * w)) v = coef row v * w := by
  unfold imageAt coef
  rw [sumMap_map, ← sumMap_mul_right]
  apply sumMap_congr
  intro e _
  by_cases h : e.1 = v <;> simp [h]

/-- back projection of one viewgram at voxel `v`: `Σ_b P_bv · w_b` -/
theorem imageAt_bckVg (smallF : Viewgram K → K) (w : K → Bin K → K) (vg : Viewgram K) (v : Nat) :
    imageAt (bckVg smallF w vg) v = sumMap (fun b => coef b.row v * w (smallF vg) b) vg := by
  unfold bckVg
  simp only []
  rw [imageAt_flatMap]
  apply sumMap_congr
  intro b _
  exact imageAt_row b.row _ v

/-- back projection over a list of viewgrams -/
theorem imageAt_flatMap_bckVg (smallF : Viewgram K → K) (w : K → Bin K → K) (S : List (Viewgram K)) (v : Nat) :
    imageAt (S.flatMap (bckVg smallF w)) v =
      sumMap (fun vg => sumMap (fun b => coef b.row v * w (smallF vg) b) vg) S := by
  rw [imageAt_flatMap]
  apply sumMap_congr
  intro vg _
  exact imageAt_bckVg smallF w vg v

/-! ## the executable accumulation is the image -/

theorem accumulate_aux (cs : List (Nat × K)) (arr : Array K) (v : Nat) (hv : v < arr.size) :
    (cs.foldl (fun arr e => arr.modify e.1 (fun s => s + e.2)) arr).getD v 0 = arr.getD v 0 + imageAt cs v := by
  induction cs generalizing arr with
  | nil => simp [imageAt_nil]
  | cons e cs ih =>
    rw [List.foldl_cons, ih _ (by simpa using hv)]
    have : (arr.modify e.1 (fun s => s + e.2)).getD v 0 = arr.getD v 0 + (if e.1 = v then e.2 else 0) := by
      simp only [Array.getD_eq_getD_getElem?, Array.getElem?_modify]
      by_cases h : e.1 = v
      · subst h; simp [hv]
      · simp [h, hv]
    rw [this]
    unfold imageAt
    rw [sumMap_cons]
    ring

/-- the array the driver computes holds, for every voxel of the image, the value `imageAt` of the model -/
theorem accumulate_getD (n : Nat) (cs : List (Nat × K)) (v : Nat) (hv : v < n) :
    (accumulate n cs).getD v 0 = imageAt cs v := by
  unfold accumulate
  rw [accumulate_aux cs _ v (by simpa using hv)]
  simp [hv]

/-! ## thresholds -/

theorem maxK_zero_nonneg (a : K) : (0 : K) ≤ maxK a 0 := by
  unfold maxK; split <;> simp_all [not_lt]

theorem smallOf_nonneg (c : Consts K) (f : Bin K → K) (vg : Viewgram K) : 0 ≤ smallOf c f vg := maxK_zero_nonneg _

theorem maxK_eq_left {a b : K} (h : b ≤ a) : maxK a b = a := by
  unfold maxK; simp [not_lt.mpr h]

theorem divTrunc_zero (c : Consts K) {small : K} (hs : 0 ≤ small) (d : K) : divTrunc c small 0 d = 0 := by
  unfold divTrunc; simp [hs]

theorem divTrunc_regular (c : Consts K) {small num denom : K} (h1 : small < num) (h2 : num ≤ c.maxQuot * denom) :
    divTrunc c small num denom = num / denom := by
  unfold divTrunc; simp [not_le.mpr h1, not_lt.mpr h2]

/-! ## per-bin facts -/

theorem mult_none_not_zeroed {zero : Bool} {b : Bin K} (h : mult zero b = none) : zeroed zero b = false := by
  unfold mult at h
  split at h
  · simp at h
  · split at h
    · simp at h
    · rename_i hz; simp [zeroed, hz]

/-- the efficiency `n_b` of a bin: `undo` applied to 1 (1 for the trivial normalisation) -/
def effB (b : Bin K) : K := undoNorm b.fac 1

theorem effB_nil {b : Bin K} (h : b.fac = []) : effB b = 1 := by
  unfold effB undoNorm; simp [h]

/-- multiplicative term of a bin that is not cleared: the efficiency (or absent, meaning 1) -/
theorem mult_getD_of_not_zeroed {zero : Bool} {b : Bin K} (h : zeroed zero b = false) :
    (mult zero b).getD 1 = effB b := by
  unfold mult
  by_cases hf : b.fac.isEmpty
  · have : b.fac = [] := List.isEmpty_iff.mp hf
    simp [hf, h, effB_nil this]
    split <;> rfl
  · simp [hf, h, effB]

theorem mult_of_zeroed {zero : Bool} {b : Bin K} (h : zeroed zero b = true) : mult zero b = some 0 := by
  have hz : zero = true := by
    unfold zeroed at h; simp at h; exact h.1
  subst hz
  unfold mult
  by_cases hf : b.fac.isEmpty <;> simp [hf, h]

/-- what is subtracted in the gradient = what is back projected for the sensitivity -/
theorem gradW_sub (c : Consts K) (zero : Bool) (img : Nat → K) (small : K) (b : Bin K) :
    gradW c zero false img small b = gradW c zero true img small b - sensW zero b := by
  unfold gradW sensW
  simp only [Bool.false_eq_true, if_false, if_true]
  cases h : mult zero b with
  | some m => rfl
  | none => simp [mult_none_not_zeroed h]

/-! ## gradient plus sensitivity -/

theorem grad_eq (c : Consts K) (zero : Bool) (img : Nat → K) (S : List (Viewgram K)) (v : Nat) :
    grad c zero img S v =
      sumMap (fun vg => sumMap (fun b => coef b.row v * gradW c zero false img (smallOf c (yEff zero) vg) b) vg) S := by
  unfold grad gradContribs; exact imageAt_flatMap_bckVg _ _ S v

theorem gradPlusSens_eq (c : Consts K) (zero : Bool) (img : Nat → K) (S : List (Viewgram K)) (v : Nat) :
    gradPlusSens c zero img S v =
      sumMap (fun vg => sumMap (fun b => coef b.row v * gradW c zero true img (smallOf c (yEff zero) vg) b) vg) S := by
  unfold gradPlusSens gradContribs; exact imageAt_flatMap_bckVg _ _ S v

theorem sens_eq (zero : Bool) (S : List (Viewgram K)) (v : Nat) :
    sens zero S v = sumMap (fun vg => sumMap (fun b => coef b.row v * sensW zero b) vg) S := by
  unfold sens sensContribs; exact imageAt_flatMap_bckVg _ _ S v

theorem grad_eq_gradPlusSens_sub_sens (c : Consts K) (zero : Bool) (img : Nat → K) (S : List (Viewgram K)) (v : Nat) :
    grad c zero img S v = gradPlusSens c zero img S v - sens zero S v := by
  rw [grad_eq, gradPlusSens_eq, sens_eq, ← sumMap_sub]
  apply sumMap_congr
  intro vg _
  rw [← sumMap_sub]
  apply sumMap_congr
  intro b _
  rw [gradW_sub]; ring

/-! ## additivity over viewgram lists, sum over subsets -/

theorem hessTimes_eq (c : Consts K) (zero : Bool) (img x : Nat → K) (out0 : K) (S : List (Viewgram K)) (v : Nat) :
    hessTimes c zero img x out0 S v =
      out0 - sumMap (fun vg => sumMap (fun b => coef b.row v * hessW c zero img x (smallOf c (hessNum zero x) vg) b) vg) S := by
  unfold hessTimes hessContribs; rw [imageAt_flatMap_bckVg]

theorem approxHess_eq (c : Consts K) (zero : Bool) (x : Nat → K) (out0 : K) (S : List (Viewgram K)) (v : Nat) :
    approxHess c zero x out0 S v =
      out0 - sumMap (fun vg => sumMap (fun b => coef b.row v * ahessW c zero x (smallOf c (ahessNum zero x) vg) b) vg) S := by
  unfold approxHess ahessContribs; rw [imageAt_flatMap_bckVg]

/-- a quantity that is a sum over the viewgrams of the subset: summing it over subsets whose viewgrams together are
    (a permutation of) the viewgrams of the data gives the full-data quantity -/
theorem sum_over_subsets_of_additive (t : Viewgram K → K) (Ss : List (List (Viewgram K))) (All : List (Viewgram K))
    (h : Ss.flatten.Perm All) : sumMap (fun S => sumMap t S) Ss = sumMap t All := by
  rw [← sumMap_flatten]; exact sumMap_perm t h

theorem grad_sum_over_subsets (c : Consts K) (zero : Bool) (img : Nat → K) (Ss : List (List (Viewgram K)))
    (All : List (Viewgram K)) (h : Ss.flatten.Perm All) (v : Nat) :
    sumMap (fun S => grad c zero img S v) Ss = grad c zero img All v := by
  simp only [grad_eq]; exact sum_over_subsets_of_additive _ Ss All h

theorem gradPlusSens_sum_over_subsets (c : Consts K) (zero : Bool) (img : Nat → K) (Ss : List (List (Viewgram K)))
    (All : List (Viewgram K)) (h : Ss.flatten.Perm All) (v : Nat) :
    sumMap (fun S => gradPlusSens c zero img S v) Ss = gradPlusSens c zero img All v := by
  simp only [gradPlusSens_eq]; exact sum_over_subsets_of_additive _ Ss All h

theorem sens_sum_over_subsets (zero : Bool) (Ss : List (List (Viewgram K)))
    (All : List (Viewgram K)) (h : Ss.flatten.Perm All) (v : Nat) :
    sumMap (fun S => sens zero S v) Ss = sens zero All v := by
  simp only [sens_eq]; exact sum_over_subsets_of_additive _ Ss All h

theorem value_sum_over_subsets (c : Consts K) (log : K → K) (zero : Bool) (img : Nat → K) (Ss : List (List (Viewgram K)))
    (All : List (Viewgram K)) (h : Ss.flatten.Perm All) :
    sumMap (fun S => value c log zero img S) Ss = value c log zero img All := by
  unfold value; exact sum_over_subsets_of_additive _ Ss All h

/-- `accumulate_Hessian_times_input`: the subsets are accumulated one after the other into the same output -/
theorem hessTimes_foldl (c : Consts K) (zero : Bool) (img x : Nat → K) (Ss : List (List (Viewgram K))) (out0 : K) (v : Nat) :
    Ss.foldl (fun o S => hessTimes c zero img x o S v) out0 = hessTimes c zero img x out0 Ss.flatten v := by
  induction Ss generalizing out0 with
  | nil => simp [hessTimes_eq, sumMap_nil]
  | cons S Ss ih =>
    rw [List.foldl_cons, ih]
    simp only [hessTimes_eq, List.flatten_cons, sumMap_append]; ring

theorem hessTimes_perm (c : Consts K) (zero : Bool) (img x : Nat → K) (out0 : K) {A B : List (Viewgram K)} (h : A.Perm B) (v : Nat) :
    hessTimes c zero img x out0 A v = hessTimes c zero img x out0 B v := by
  simp only [hessTimes_eq]; rw [sumMap_perm _ h]

theorem approxHess_foldl (c : Consts K) (zero : Bool) (x : Nat → K) (Ss : List (List (Viewgram K))) (out0 : K) (v : Nat) :
    Ss.foldl (fun o S => approxHess c zero x o S v) out0 = approxHess c zero x out0 Ss.flatten v := by
  induction Ss generalizing out0 with
  | nil => simp [approxHess_eq, sumMap_nil]
  | cons S Ss ih =>
    rw [List.foldl_cons, ih]
    simp only [approxHess_eq, List.flatten_cons, sumMap_append]; ring

theorem approxHess_perm (c : Consts K) (zero : Bool) (x : Nat → K) (out0 : K) {A B : List (Viewgram K)} (h : A.Perm B) (v : Nat) :
    approxHess c zero x out0 A v = approxHess c zero x out0 B v := by
  simp only [approxHess_eq]; rw [sumMap_perm _ h]

/-! ## penalised quantities -/

theorem penalised_sum {α} (q : α → K) (p : K) (Ss : List α) (hn : Ss ≠ []) :
    sumMap (fun S => penalised (q S) p (Ss.length : K)) Ss = sumMap q Ss - p := by
  unfold penalised
  rw [sumMap_sub, sumMap_const]
  have : (Ss.length : K) ≠ 0 := by
    simpa using List.length_pos_iff.mpr hn |>.ne'
  field_simp

/-- the penalised full-data Hessian product: every subset step subtracts the subset product and one share of the prior term -/
theorem hessTimesPenFull_eq (c : Consts K) (zero : Bool) (img x : Nat → K) (p nn out0 : K) (Ss : List (List (Viewgram K))) (v : Nat) :
    hessTimesPenFull c zero img x p nn out0 Ss v = hessTimes c zero img x out0 Ss.flatten v - (Ss.length : K) * (p / nn) := by
  unfold hessTimesPenFull
  induction Ss generalizing out0 with
  | nil => simp [hessTimes_eq, sumMap_nil]
  | cons S Ss ih =>
    rw [List.foldl_cons, ih]
    simp only [hessTimes_eq, penalisedHess, List.flatten_cons, sumMap_append, List.length_cons]
    push_cast; ring

theorem approxHessPenFull_eq (c : Consts K) (zero : Bool) (x : Nat → K) (p nn out0 : K) (Ss : List (List (Viewgram K))) (v : Nat) :
    approxHessPenFull c zero x p nn out0 Ss v = approxHess c zero x out0 Ss.flatten v - (Ss.length : K) * (p / nn) := by
  unfold approxHessPenFull
  induction Ss generalizing out0 with
  | nil => simp [approxHess_eq, sumMap_nil]
  | cons S Ss ih =>
    rw [List.foldl_cons, ih]
    simp only [approxHess_eq, penalisedHess, List.flatten_cons, sumMap_append, List.length_cons]
    push_cast; ring

theorem length_mul_share {α} (Ss : List α) (hn : Ss ≠ []) (p : K) : (Ss.length : K) * (p / (Ss.length : K)) = p := by
  have : (Ss.length : K) ≠ 0 := by
    simpa using List.length_pos_iff.mpr hn |>.ne'
  field_simp

/-! ## what `set_up` makes of the configuration -/

theorem subsetsBalanced_iff (cs : List Nat) : subsetsBalanced cs = true ↔ ∀ a ∈ cs, ∀ b ∈ cs, a = b := by
  cases cs with
  | nil => simp [subsetsBalanced]
  | cons c0 cs =>
    simp only [subsetsBalanced, List.all_eq_true, beq_iff_eq, List.mem_cons]
    constructor
    · intro h a ha b hb
      have ha' : a = c0 := by rcases ha with rfl | ha; rfl; exact h a ha
      have hb' : b = c0 := by rcases hb with rfl | hb; rfl; exact h b hb
      rw [ha', hb']
    · intro h a ha
      exact h a (Or.inr ha) c0 (Or.inl rfl)

end StirVerif.C05
