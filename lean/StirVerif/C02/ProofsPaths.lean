/-
C02 — every access path touches exactly the addresses of its bins, in container order
(so the contiguous `write_data`/`read_data` runs of the source are justified).
-/
import StirVerif.C02.ProofsInj

namespace StirVerif.C02

/-! ### small list / monad lemmas -/

theorem ok_bind {α β : Type} (x : α) (f : α → Except Err β) : (Except.ok x >>= f) = f x := rfl

theorem flatMap_congr' {α β : Type} {xs : List α} {f g : α → List β} (h : ∀ x ∈ xs, f x = g x) :
    xs.flatMap f = xs.flatMap g := by
  induction xs with
  | nil => rfl
  | cons x t ih =>
    simp only [List.flatMap_cons]
    rw [h x (List.mem_cons_self), ih (fun y hy => h y (List.mem_cons_of_mem _ hy))]

theorem flatten_map_map {α β γ : Type} (xs : List α) (g : α → List β) (h : β → γ) :
    (xs.map fun i => (g i).map h).flatten = (xs.flatMap g).map h := by
  induction xs with
  | nil => rfl
  | cons x t ih => simp [List.flatMap_cons, ih]

/-! ### contiguous runs -/

theorem block_add (base S : Int) (m n : Nat) :
    block base S (m + n) = block base S m ++ block (base + (m : Int) * S) S n := by
  unfold block
  rw [List.range_add, List.map_append, List.map_map]
  congr 1
  apply List.map_congr_left
  intro k _
  simp only [Function.comp]
  push_cast
  ring

theorem block_mul (base S : Int) (a b : Nat) :
    block base S (a * b) = (List.range a).flatMap fun (i : Nat) => block (base + (i : Int) * (b : Int) * S) S b := by
  induction a with
  | zero => simp [block]
  | succ n ih =>
    rw [Nat.succ_mul, block_add, ih, List.range_succ, List.flatMap_append]
    simp only [List.flatMap_cons, List.flatMap_nil, List.append_nil]
    congr 2

theorem mapM_ok {α β : Type} (f : α → Except Err β) (g : α → β) (xs : List α)
    (h : ∀ x ∈ xs, f x = .ok (g x)) : xs.mapM f = .ok (xs.map g) := by
  induction xs with
  | nil => rfl
  | cons x t ih =>
    rw [List.mapM_cons, h x (List.mem_cons_self), ih (fun y hy => h y (List.mem_cons_of_mem _ hy))]
    rfl

/-! ### `rawOffset` is affine in every index -/

theorem raw_tang (l : Layout) (seg view ax tof k : Int) :
    rawOffset l ⟨seg, view, ax, l.minTang + k, tof⟩ = rawOffset l ⟨seg, view, ax, l.minTang, tof⟩ + k * l.elemSize := by
  unfold rawOffset
  cases l.order <;> simp only <;> split <;> ring

theorem raw_view_savt {l : Layout} (ho : l.order = .savt) (seg ax tang tof j : Int) :
    rawOffset l ⟨seg, l.minView + j, ax, tang, tof⟩
      = rawOffset l ⟨seg, l.minView, ax, tang, tof⟩ + j * l.numTang * l.elemSize := by
  unfold rawOffset
  simp only [ho]; split <;> ring

theorem raw_ax_savt {l : Layout} (ho : l.order = .savt) (seg view tang tof i : Int) :
    rawOffset l ⟨seg, view, l.minAx seg + i, tang, tof⟩
      = rawOffset l ⟨seg, view, l.minAx seg, tang, tof⟩ + i * (l.numViews * l.numTang) * l.elemSize := by
  unfold rawOffset
  simp only [ho]; split <;> ring

theorem raw_ax_svat {l : Layout} (ho : l.order = .svat) (seg view tang tof i : Int) :
    rawOffset l ⟨seg, view, l.minAx seg + i, tang, tof⟩
      = rawOffset l ⟨seg, view, l.minAx seg, tang, tof⟩ + i * l.numTang * l.elemSize := by
  unfold rawOffset
  simp only [ho]; split <;> ring

theorem raw_view_svat {l : Layout} (ho : l.order = .svat) (seg ax tang tof j : Int) :
    rawOffset l ⟨seg, l.minView + j, ax, tang, tof⟩
      = rawOffset l ⟨seg, l.minView, ax, tang, tof⟩ + j * (l.numAx seg * l.numTang) * l.elemSize := by
  unfold rawOffset
  simp only [ho]; split <;> ring

/-! ### requests inside the ranges -/

def SegOK (l : Layout) (seg : Int) : Prop := l.minSeg ≤ seg ∧ seg ≤ l.maxSeg
def AxOK (l : Layout) (seg ax : Int) : Prop := l.minAx seg ≤ ax ∧ ax ≤ l.maxAx seg
def ViewOK (l : Layout) (view : Int) : Prop := l.minView ≤ view ∧ view ≤ l.maxView
def TofOK (l : Layout) (tof : Int) : Prop := l.minTof ≤ tof ∧ tof ≤ l.maxTof

instance (l : Layout) (s : Int) : Decidable (SegOK l s) := by unfold SegOK; infer_instance
instance (l : Layout) (s a : Int) : Decidable (AxOK l s a) := by unfold AxOK; infer_instance
instance (l : Layout) (v : Int) : Decidable (ViewOK l v) := by unfold ViewOK; infer_instance
instance (l : Layout) (k : Int) : Decidable (TofOK l k) := by unfold TofOK; infer_instance

/-- no empty dimension (true of every `ProjDataInfo`) -/
structure Layout.Pos (l : Layout) : Prop where
  views : 0 < l.numViews
  tang : 0 < l.numTang
  ax : ∀ s, SegOK l s → 0 < l.numAx s

theorem T_cast {l : Layout} (p : l.Pos) : (l.T : Int) = l.numTang := by
  unfold Layout.T; have := p.tang; omega
theorem V_cast {l : Layout} (p : l.Pos) : (l.V : Int) = l.numViews := by
  unfold Layout.V; have := p.views; omega
theorem A_cast {l : Layout} (p : l.Pos) {seg : Int} (hs : SegOK l seg) : (l.A seg : Int) = l.numAx seg := by
  unfold Layout.A; have := p.ax seg hs; omega

theorem inRange_mk {l : Layout} (p : l.Pos) {seg view ax tof : Int} (hs : SegOK l seg) (hv : ViewOK l view)
    (ha : AxOK l seg ax) (hk : TofOK l tof) {k : Nat} (hkT : k < l.T) :
    InRange l ⟨seg, view, ax, l.minTang + (k : Int), tof⟩ := by
  have := T_cast p
  refine ⟨hs, ha, hv, ?_, hk⟩
  unfold Layout.maxTang
  constructor <;> simp only <;> omega

theorem ax_ok {l : Layout} (p : l.Pos) {seg : Int} (hs : SegOK l seg) {i : Nat} (hi : i < l.A seg) :
    AxOK l seg (l.minAx seg + (i : Int)) := by
  have := A_cast p hs
  unfold AxOK Layout.maxAx; omega

theorem view_ok {l : Layout} (p : l.Pos) {j : Nat} (hj : j < l.V) : ViewOK l (l.minView + (j : Int)) := by
  have := V_cast p
  unfold ViewOK Layout.maxView; omega

theorem first_in_range {l : Layout} (p : l.Pos) {seg view ax tof : Int} (hs : SegOK l seg) (hv : ViewOK l view)
    (ha : AxOK l seg ax) (hk : TofOK l tof) : InRange l ⟨seg, view, ax, l.minTang, tof⟩ := by
  have hT : 0 < l.T := by have := T_cast p; have := p.tang; omega
  have := inRange_mk p hs hv ha hk hT
  simpa using this

theorem ax_first {l : Layout} (p : l.Pos) {seg : Int} (hs : SegOK l seg) : AxOK l seg (l.minAx seg) := by
  have hA : 0 < l.A seg := by have := A_cast p hs; have := p.ax seg hs; omega
  simpa using ax_ok p hs hA

theorem view_first {l : Layout} (p : l.Pos) : ViewOK l l.minView := by
  have hV : 0 < l.V := by have := V_cast p; have := p.views; omega
  simpa using view_ok p hV

/-! ### rows -/

theorem rowBins_map (l : Layout) (seg view ax tof : Int) :
    (rowBins l seg view ax tof).map (rawOffset l) = block (rawOffset l ⟨seg, view, ax, l.minTang, tof⟩) l.elemSize l.T := by
  unfold rowBins block
  rw [List.map_map]
  apply List.map_congr_left
  intro k _
  simp only [Function.comp]
  exact raw_tang l seg view ax tof k

theorem addrsRow_eq {l : Layout} (p : l.Pos) {seg view ax tof : Int} (hs : SegOK l seg) (hv : ViewOK l view)
    (ha : AxOK l seg ax) (hk : TofOK l tof) :
    addrsRow l seg view ax tof = .ok ((rowBins l seg view ax tof).map (rawOffset l)) := by
  unfold addrsRow
  rw [offsetOf_ok (first_in_range p hs hv ha hk), rowBins_map]
  rfl

theorem rowBins_inRange {l : Layout} (p : l.Pos) {seg view ax tof : Int} (hs : SegOK l seg) (hv : ViewOK l view)
    (ha : AxOK l seg ax) (hk : TofOK l tof) : ∀ b ∈ rowBins l seg view ax tof, InRange l b := by
  intro b hb
  unfold rowBins at hb
  obtain ⟨k, hk1, rfl⟩ := List.mem_map.mp hb
  exact inRange_mk p hs hv ha hk (List.mem_range.mp hk1)

/-! ### viewgram -/

theorem viewgram_addrs {l : Layout} (p : l.Pos) {seg view tof : Int} (hs : SegOK l seg) (hv : ViewOK l view)
    (hk : TofOK l tof) :
    addrsViewgram l seg view tof = .ok ((binsViewgram l seg view tof).map (rawOffset l)) := by
  unfold addrsViewgram binsViewgram
  cases ho : l.order
  · -- savt: row by row
    simp only
    rw [mapM_ok _ (fun (i : Nat) => (rowBins l seg view (l.minAx seg + (i : Int)) tof).map (rawOffset l))]
    · rw [ok_bind, flatten_map_map]; rfl
    · intro i hi
      exact addrsRow_eq p hs hv (ax_ok p hs (List.mem_range.mp hi)) hk
  · -- svat: in one go
    simp only
    rw [offsetOf_ok (first_in_range p hs hv (ax_first p hs) hk), ok_bind, block_mul]
    simp only [List.map_flatMap]
    show Except.ok _ = Except.ok _
    congr 1
    apply flatMap_congr'
    intro i _
    rw [rowBins_map, raw_ax_svat ho, T_cast p]

theorem binsViewgram_inRange {l : Layout} (p : l.Pos) {seg view tof : Int} (hs : SegOK l seg) (hv : ViewOK l view)
    (hk : TofOK l tof) : ∀ b ∈ binsViewgram l seg view tof, InRange l b := by
  intro b hb
  unfold binsViewgram at hb
  obtain ⟨i, hi, hb⟩ := List.mem_flatMap.mp hb
  exact rowBins_inRange p hs hv (ax_ok p hs (List.mem_range.mp hi)) hk b hb

/-! ### sinogram -/

theorem sinogram_addrs {l : Layout} (p : l.Pos) {seg ax tof : Int} (hs : SegOK l seg) (ha : AxOK l seg ax)
    (hk : TofOK l tof) :
    addrsSinogram l seg ax tof = .ok ((binsSinogram l seg ax tof).map (rawOffset l)) := by
  unfold addrsSinogram binsSinogram
  cases ho : l.order
  · -- savt: in one go
    simp only
    rw [offsetOf_ok (first_in_range p hs (view_first p) ha hk), ok_bind, block_mul]
    simp only [List.map_flatMap]
    show Except.ok _ = Except.ok _
    congr 1
    apply flatMap_congr'
    intro j _
    rw [rowBins_map, raw_view_savt ho, T_cast p]
  · -- svat: row by row
    simp only
    rw [mapM_ok _ (fun (j : Nat) => (rowBins l seg (l.minView + (j : Int)) ax tof).map (rawOffset l))]
    · rw [ok_bind, flatten_map_map]; rfl
    · intro j hj
      exact addrsRow_eq p hs (view_ok p (List.mem_range.mp hj)) ha hk

theorem binsSinogram_inRange {l : Layout} (p : l.Pos) {seg ax tof : Int} (hs : SegOK l seg) (ha : AxOK l seg ax)
    (hk : TofOK l tof) : ∀ b ∈ binsSinogram l seg ax tof, InRange l b := by
  intro b hb
  unfold binsSinogram at hb
  obtain ⟨j, hj, hb⟩ := List.mem_flatMap.mp hb
  exact rowBins_inRange p hs (view_ok p (List.mem_range.mp hj)) ha hk b hb

/-! ### segments -/

theorem segBySino_addrs {l : Layout} (p : l.Pos) {seg tof : Int} (hs : SegOK l seg) (hk : TofOK l tof) :
    addrsSegBySino l seg tof = .ok ((binsSegBySino l seg tof).map (rawOffset l)) := by
  unfold addrsSegBySino
  rw [offsetOf_ok (first_in_range p hs (view_first p) (ax_first p hs) hk)]
  show (match l.order with
    | .savt => (pure (block _ l.elemSize (l.A seg * (l.V * l.T))) : Except Err (List Int))
    | .svat => pure _) = _
  cases ho : l.order
  · -- savt: one run = the sinograms one after the other
    simp only
    show Except.ok _ = Except.ok _
    congr 1
    unfold binsSegBySino
    rw [block_mul, List.map_flatMap]
    apply flatMap_congr'
    intro i hi
    have hsin := sinogram_addrs p hs (ax_ok p hs (List.mem_range.mp hi)) hk
    unfold addrsSinogram at hsin
    simp only [ho] at hsin
    rw [offsetOf_ok (first_in_range p hs (view_first p) (ax_ok p hs (List.mem_range.mp hi)) hk)] at hsin
    have hsin' : block (rawOffset l ⟨seg, l.minView, l.minAx seg + (i : Int), l.minTang, tof⟩) l.elemSize (l.V * l.T)
        = (binsSinogram l seg (l.minAx seg + (i : Int)) tof).map (rawOffset l) := by
      have := hsin
      simp only [bind, Except.bind, pure, Except.pure] at this
      exact Except.ok.inj this
    rw [← hsin', raw_ax_savt ho]
    congr 2
    push_cast
    rw [V_cast p, T_cast p]
  · -- svat: converted to a SegmentByView, then one run
    simp only
    show Except.ok _ = Except.ok _
    congr 1
    unfold binsSegBySino binsSinogram rowBins
    simp only [List.map_flatMap, List.map_map]
    apply flatMap_congr'
    intro i hi
    apply flatMap_congr'
    intro j _
    apply List.map_congr_left
    intro k _
    simp only [Function.comp]
    rw [raw_tang, raw_view_svat ho, raw_ax_svat ho]
    push_cast
    rw [A_cast p hs, T_cast p]
    ring

theorem segByView_addrs {l : Layout} (p : l.Pos) {seg tof : Int} (hs : SegOK l seg) (hk : TofOK l tof) :
    addrsSegByView l seg tof = .ok ((binsSegByView l seg tof).map (rawOffset l)) := by
  unfold addrsSegByView
  rw [offsetOf_ok (first_in_range p hs (view_first p) (ax_first p hs) hk)]
  show (match l.order with
    | .svat => (pure (block _ l.elemSize (l.V * (l.A seg * l.T))) : Except Err (List Int))
    | .savt => pure _) = _
  cases ho : l.order
  · -- savt: converted to a SegmentBySinogram, then one run
    simp only
    show Except.ok _ = Except.ok _
    congr 1
    unfold binsSegByView binsViewgram rowBins
    simp only [List.map_flatMap, List.map_map]
    apply flatMap_congr'
    intro j _
    apply flatMap_congr'
    intro i _
    apply List.map_congr_left
    intro k _
    simp only [Function.comp]
    rw [raw_tang, raw_ax_savt ho, raw_view_savt ho]
    push_cast
    rw [V_cast p, T_cast p]
    ring
  · -- svat: one run = the viewgrams one after the other
    simp only
    show Except.ok _ = Except.ok _
    congr 1
    unfold binsSegByView
    rw [block_mul, List.map_flatMap]
    apply flatMap_congr'
    intro j hj
    have hvg := viewgram_addrs p hs (view_ok p (List.mem_range.mp hj)) hk
    unfold addrsViewgram at hvg
    simp only [ho] at hvg
    rw [offsetOf_ok (first_in_range p hs (view_ok p (List.mem_range.mp hj)) (ax_first p hs) hk)] at hvg
    have hvg' : block (rawOffset l ⟨seg, l.minView + (j : Int), l.minAx seg, l.minTang, tof⟩) l.elemSize (l.A seg * l.T)
        = (binsViewgram l seg (l.minView + (j : Int)) tof).map (rawOffset l) := by
      have := hvg
      simp only [bind, Except.bind, pure, Except.pure] at this
      exact Except.ok.inj this
    rw [← hvg', raw_view_svat ho]
    congr 2
    push_cast
    rw [A_cast p hs, T_cast p]

theorem binsSegBySino_inRange {l : Layout} (p : l.Pos) {seg tof : Int} (hs : SegOK l seg) (hk : TofOK l tof) :
    ∀ b ∈ binsSegBySino l seg tof, InRange l b := by
  intro b hb
  unfold binsSegBySino at hb
  obtain ⟨i, hi, hb⟩ := List.mem_flatMap.mp hb
  exact binsSinogram_inRange p hs (ax_ok p hs (List.mem_range.mp hi)) hk b hb

theorem binsSegByView_inRange {l : Layout} (p : l.Pos) {seg tof : Int} (hs : SegOK l seg) (hk : TofOK l tof) :
    ∀ b ∈ binsSegByView l seg tof, InRange l b := by
  intro b hb
  unfold binsSegByView at hb
  obtain ⟨j, hj, hb⟩ := List.mem_flatMap.mp hb
  exact binsViewgram_inRange p hs (view_ok p (List.mem_range.mp hj)) hk b hb

/-! ### related viewgrams -/

theorem related_addrs {l : Layout} (p : l.Pos) {pairs : List (Int × Int)} {tof : Int}
    (hp : ∀ q ∈ pairs, ViewOK l q.1 ∧ SegOK l q.2) (hk : TofOK l tof) :
    addrsRelated l pairs tof = .ok ((binsRelated l pairs tof).map (rawOffset l)) := by
  unfold addrsRelated binsRelated
  rw [mapM_ok _ (fun (q : Int × Int) => (binsViewgram l q.2 q.1 tof).map (rawOffset l))]
  · rw [ok_bind, flatten_map_map]; rfl
  · intro q hq
    exact viewgram_addrs p (hp q hq).2 (hp q hq).1 hk

theorem binsRelated_inRange {l : Layout} (p : l.Pos) {pairs : List (Int × Int)} {tof : Int}
    (hp : ∀ q ∈ pairs, ViewOK l q.1 ∧ SegOK l q.2) (hk : TofOK l tof) :
    ∀ b ∈ binsRelated l pairs tof, InRange l b := by
  intro b hb
  unfold binsRelated at hb
  obtain ⟨q, hq, hb⟩ := List.mem_flatMap.mp hb
  exact binsViewgram_inRange p (hp q hq).2 (hp q hq).1 hk b hb

/-! ### `ProjData::fill(float)` -/

theorem mem_segRange {l : Layout} {s : Int} (h : s ∈ l.segRange) : SegOK l s := by
  unfold Layout.segRange at h
  obtain ⟨i, hi, rfl⟩ := List.mem_map.mp h
  have := List.mem_range.mp hi
  unfold SegOK; omega

theorem mem_tofRange {l : Layout} {k : Int} (h : k ∈ l.tofRange) : TofOK l k := by
  unfold Layout.tofRange at h
  obtain ⟨i, hi, rfl⟩ := List.mem_map.mp h
  have := List.mem_range.mp hi
  unfold TofOK; omega

theorem fill_addrs {l : Layout} (p : l.Pos) : addrsFill l = .ok ((binsFill l).map (rawOffset l)) := by
  unfold addrsFill binsFill
  rw [mapM_ok _ (fun (k : Int) => (l.segRange.flatMap fun s => binsSegByView l s k).map (rawOffset l))]
  · rw [ok_bind, flatten_map_map]; rfl
  · intro k hk
    rw [mapM_ok _ (fun (s : Int) => (binsSegByView l s k).map (rawOffset l))]
    · rw [ok_bind, flatten_map_map]; rfl
    · intro s hs
      exact segByView_addrs p (mem_segRange hs) (mem_tofRange hk)

theorem binsFill_inRange {l : Layout} (p : l.Pos) : ∀ b ∈ binsFill l, InRange l b := by
  intro b hb
  unfold binsFill at hb
  obtain ⟨k, hk, hb⟩ := List.mem_flatMap.mp hb
  obtain ⟨s, hs, hb⟩ := List.mem_flatMap.mp hb
  exact binsSegByView_inRange p (mem_segRange hs) (mem_tofRange hk) b hb

end StirVerif.C02
