/-
C02 — `ProjData::get_subset`: the returned `ProjDataInMemory` holds, at subset view `j`, the source's view `views[j]`.
-/
import StirVerif.C02.ProofsCopy

namespace StirVerif.C02

/-- the source bin a bin of the subset comes from -/
def subsetSrc (views : List Int) (c : Bin) : Bin := { c with view := views.getD c.view.toNat 0 }

/-- the bins of the subset object in the order `get_subset` writes them -/
def subsetDst (l : Layout) (views : List Int) : List Bin :=
  l.tofRange.flatMap fun k => l.segRange.flatMap fun s =>
    ((List.range views.length).zip views).flatMap fun jv => binsViewgram (subsetLayout l views.length) s (jv.1 : Int) k

theorem mem_zip_range {xs : List Int} {j : Nat} {v : Int} (h : (j, v) ∈ (List.range xs.length).zip xs) :
    j < xs.length ∧ xs.getD j 0 = v ∧ v ∈ xs := by
  obtain ⟨i, hi, he⟩ := List.mem_iff_getElem.mp h
  rw [List.getElem_zip] at he
  simp only [List.getElem_range, Prod.mk.injEq] at he
  obtain ⟨rfl, rfl⟩ := he
  have hl : i < xs.length := by
    have := hi; simp only [List.length_zip, List.length_range, Nat.min_self] at this; exact this
  exact ⟨hl, by rw [List.getD_eq_getElem?_getD, List.getElem?_eq_getElem hl]; rfl, List.getElem_mem hl⟩

theorem subsetLayout_Pos {l : Layout} (p : l.Pos) {n : Nat} (hn : 0 < n) : (subsetLayout l n).Pos :=
  ⟨by show (0 : Int) < (n : Int); omega, p.tang, fun s hs => p.ax s hs⟩

theorem binsViewgram_view (l : Layout) (n : Nat) (s v j k : Int) :
    binsViewgram l s v k = (binsViewgram (subsetLayout l n) s j k).map fun c => { c with view := v } := by
  simp only [binsViewgram, rowBins, List.map_flatMap, List.map_map]
  rfl

theorem view_of_mem_binsViewgram {l : Layout} {s j k : Int} {c : Bin} (h : c ∈ binsViewgram l s j k) : c.view = j := by
  simp only [binsViewgram, rowBins, List.mem_flatMap, List.mem_map, List.mem_range] at h
  obtain ⟨_, _, _, _, rfl⟩ := h
  rfl

theorem zip_map_map {α β γ : Type} (xs : List α) (f : α → β) (g : α → γ) (h : α → α) :
    ((xs.map h).map f).zip (xs.map g) = xs.map fun a => (f (h a), g a) := by
  rw [List.map_map, zip_map_same]
  rfl

theorem subsetCopy_eq {l : Layout} (p : l.Pos) {views : List Int} (hne : views ≠ []) (hv : ∀ v ∈ views, ViewOK l v) :
    subsetCopy l views = .ok ((subsetDst l views).map fun c =>
      (rawOffset l (subsetSrc views c), rawOffset (subsetLayout l views.length) c)) := by
  have hn : 0 < views.length := List.length_pos_iff.mpr hne
  have psl := subsetLayout_Pos p hn
  unfold subsetCopy subsetDst
  simp only
  rw [mapM_ok _ (fun (k : Int) => (l.segRange.flatMap fun s =>
      ((List.range views.length).zip views).flatMap fun jv => binsViewgram (subsetLayout l views.length) s (jv.1 : Int) k).map
        fun c => (rawOffset l (subsetSrc views c), rawOffset (subsetLayout l views.length) c))]
  · rw [ok_bind, flatten_map_map]; rfl
  · intro k hk
    rw [mapM_ok _ (fun (s : Int) => (((List.range views.length).zip views).flatMap fun jv =>
        binsViewgram (subsetLayout l views.length) s (jv.1 : Int) k).map
          fun c => (rawOffset l (subsetSrc views c), rawOffset (subsetLayout l views.length) c))]
    · rw [ok_bind, flatten_map_map]; rfl
    · intro s hs
      rw [mapM_ok _ (fun (jv : Nat × Int) => (binsViewgram (subsetLayout l views.length) s (jv.1 : Int) k).map
          fun c => (rawOffset l (subsetSrc views c), rawOffset (subsetLayout l views.length) c))]
      · rw [ok_bind, flatten_map_map]; rfl
      · intro jv hjv
        obtain ⟨j, v⟩ := jv
        obtain ⟨hj, hget, hmem⟩ := mem_zip_range hjv
        have hso : SegOK l s := mem_segRange hs
        have hko : TofOK l k := mem_tofRange hk
        have hvs : ViewOK (subsetLayout l views.length) (j : Int) := by
          unfold ViewOK Layout.maxView
          show (0 : Int) ≤ (j : Int) ∧ (j : Int) ≤ 0 + (views.length : Int) - 1
          omega
        simp only
        rw [viewgram_addrs p hso (hv v hmem) hko, ok_bind,
            viewgram_addrs psl (show SegOK (subsetLayout l views.length) s from hso) hvs
              (show TofOK (subsetLayout l views.length) k from hko), ok_bind]
        rw [binsViewgram_view l views.length s v (j : Int) k, zip_map_map]
        show Except.ok _ = Except.ok _
        congr 1
        apply List.map_congr_left
        intro c hc
        have hcv := view_of_mem_binsViewgram hc
        have : subsetSrc views c = { c with view := v } := by
          unfold subsetSrc
          rw [hcv, Int.toNat_natCast, hget]
        rw [this]

/-! ### the subset object refines the re-indexed abstract array -/

/-- writing `f c` at the offset of every bin `c` of a list that covers all in-range bins (each possibly several times, always
    with the same value) makes the store refine `f` -/
theorem refines_of_cover {α : Type} {l : Layout} (hm : l.WF) (cs : List Bin) (f : Bin → α)
    (hin : ∀ c ∈ cs, InRange l c) (hcov : ∀ b, InRange l b → b ∈ cs) (τ : Store α) :
    Refines l (writeAddrs τ (cs.map fun c => (rawOffset l c, f c))) f := by
  intro b hb
  have hmap : (cs.map fun c => (rawOffset l c, f c)) = (cs.map fun c => (c, f c)).map fun w => (rawOffset l w.1, w.2) := by
    rw [List.map_map]; rfl
  rw [hmap]
  have r0 : Refines l τ (fun c => τ (rawOffset l c)) := fun _ _ => rfl
  have hin' : ∀ w ∈ (cs.map fun c => (c, f c)), InRange l w.1 := by
    intro w hw
    obtain ⟨c, hc, rfl⟩ := List.mem_map.mp hw
    exact hin c hc
  rw [refines_writes hm _ r0 hin' b hb, writeBins_apply]
  have : ∀ (ds : List Bin), b ∈ ds → lastWrite (ds.map fun c => (c, f c)) b = some (f b) := by
    intro ds
    induction ds with
    | nil => intro h; cases h
    | cons c t ih =>
      intro h
      simp only [List.map_cons, lastWrite]
      by_cases ht : b ∈ t
      · rw [ih ht]
      · have hbc : b = c := by
          rcases List.mem_cons.mp h with h | h
          · exact h
          · exact absurd h ht
        have hn : lastWrite (t.map fun c => (c, f c)) b = none := by
          apply lastWrite_none_of_not_mem
          intro w hw
          obtain ⟨c', hc', rfl⟩ := List.mem_map.mp hw
          intro e; exact ht (e ▸ hc')
        rw [hn]; simp [hbc]
  rw [this _ (hcov b hb)]; rfl

theorem mem_binsViewgram {l : Layout} (p : l.Pos) {b : Bin} (r : InRange l b) : b ∈ binsViewgram l b.seg b.view b.tof := by
  have hs : SegOK l b.seg := r.seg
  unfold binsViewgram rowBins
  have ha := r.ax; have ht := r.tang
  unfold Layout.maxAx at ha; unfold Layout.maxTang at ht
  have hA := A_cast p hs; have hT := T_cast p
  refine List.mem_flatMap.mpr ⟨(b.ax - l.minAx b.seg).toNat, List.mem_range.mpr (by omega), ?_⟩
  refine List.mem_map.mpr ⟨(b.tang - l.minTang).toNat, List.mem_range.mpr (by omega), ?_⟩
  cases b
  simp only [Bin.mk.injEq] at *
  refine ⟨trivial, trivial, ?_, ?_, trivial⟩ <;> omega

theorem mem_zip_range_self (xs : List Int) {j : Nat} (hj : j < xs.length) :
    (j, xs.getD j 0) ∈ (List.range xs.length).zip xs := by
  refine List.mem_iff_getElem.mpr ⟨j, by simp [hj], ?_⟩
  rw [List.getElem_zip]
  simp only [List.getElem_range, Prod.mk.injEq, true_and]
  rw [List.getD_eq_getElem?_getD, List.getElem?_eq_getElem hj]; rfl

theorem subsetDst_inRange {l : Layout} (p : l.Pos) {views : List Int} (hne : views ≠ []) :
    ∀ c ∈ subsetDst l views, InRange (subsetLayout l views.length) c := by
  have hn : 0 < views.length := List.length_pos_iff.mpr hne
  have psl := subsetLayout_Pos p hn
  intro c hc
  unfold subsetDst at hc
  obtain ⟨k, hk, hc⟩ := List.mem_flatMap.mp hc
  obtain ⟨s, hs, hc⟩ := List.mem_flatMap.mp hc
  obtain ⟨jv, hjv, hc⟩ := List.mem_flatMap.mp hc
  obtain ⟨j, v⟩ := jv
  obtain ⟨hj, _, _⟩ := mem_zip_range hjv
  have hvs : ViewOK (subsetLayout l views.length) (j : Int) := by
    unfold ViewOK Layout.maxView
    show (0 : Int) ≤ (j : Int) ∧ (j : Int) ≤ 0 + (views.length : Int) - 1
    omega
  exact binsViewgram_inRange psl (show SegOK (subsetLayout l views.length) s from mem_segRange hs) hvs
    (show TofOK (subsetLayout l views.length) k from mem_tofRange hk) c hc

theorem subsetDst_cover {l : Layout} (p : l.Pos) {views : List Int} (hne : views ≠ []) :
    ∀ b, InRange (subsetLayout l views.length) b → b ∈ subsetDst l views := by
  have hn : 0 < views.length := List.length_pos_iff.mpr hne
  have psl := subsetLayout_Pos p hn
  intro b hb
  unfold subsetDst
  have hview := hb.view
  unfold Layout.maxView at hview
  have hview' : (0 : Int) ≤ b.view ∧ b.view ≤ 0 + (views.length : Int) - 1 := hview
  refine List.mem_flatMap.mpr ⟨b.tof, (mem_tofRange_iff l b.tof).mpr hb.tof, ?_⟩
  refine List.mem_flatMap.mpr ⟨b.seg, (mem_segRange_iff l b.seg).mpr hb.seg, ?_⟩
  refine List.mem_flatMap.mpr ⟨(b.view.toNat, views.getD b.view.toNat 0), mem_zip_range_self views (by omega), ?_⟩
  have : ((b.view.toNat : Nat) : Int) = b.view := by omega
  simp only [this]
  exact mem_binsViewgram psl hb

theorem subsetSrc_inRange {l : Layout} (p : l.Pos) {views : List Int} (hne : views ≠ []) (hv : ∀ v ∈ views, ViewOK l v) :
    ∀ c ∈ subsetDst l views, InRange l (subsetSrc views c) := by
  intro c hc
  have hr := subsetDst_inRange p hne c hc
  have hview := hr.view
  unfold Layout.maxView at hview
  have hview' : (0 : Int) ≤ c.view ∧ c.view ≤ 0 + (views.length : Int) - 1 := hview
  have hmem : views.getD c.view.toNat 0 ∈ views := (mem_zip_range (mem_zip_range_self views (j := c.view.toNat) (by omega))).2.2
  exact ⟨hr.seg, hr.ax, hv _ hmem, hr.tang, hr.tof⟩

/-- the object returned by `get_subset` refines the source's abstract array re-indexed by `views` -/
theorem subset_refines {α : Type} {l : Layout} (p : l.Pos) {views : List Int} (hne : views ≠ []) (hv : ∀ v ∈ views, ViewOK l v)
    (hm : (subsetLayout l views.length).WF) {σ τ : Store α} {m : Spec α} (r : Refines l σ m) :
    Refines (subsetLayout l views.length)
      (copyStore σ τ ((subsetDst l views).map fun c =>
        (rawOffset l (subsetSrc views c), rawOffset (subsetLayout l views.length) c)))
      (fun c => m (subsetSrc views c)) := by
  unfold copyStore
  rw [List.map_map]
  have hmap : (List.map ((fun (q : Int × Int) => (q.2, σ q.1)) ∘ fun c =>
        (rawOffset l (subsetSrc views c), rawOffset (subsetLayout l views.length) c)) (subsetDst l views))
      = (subsetDst l views).map fun c => (rawOffset (subsetLayout l views.length) c, m (subsetSrc views c)) := by
    apply List.map_congr_left
    intro c hc
    simp only [Function.comp]
    rw [r _ (subsetSrc_inRange p hne hv c hc)]
  rw [hmap]
  exact refines_of_cover hm _ _ (subsetDst_inRange p hne) (subsetDst_cover p hne) τ

/-- the layout of the subset object is well formed -/
theorem subsetLayout_WF {l : Layout} (n : Nat) (h0 : l.minSeg ≤ 0) (h1 : 0 ≤ l.maxSeg)
    (hax : ∀ s, l.minSeg ≤ s ∧ s ≤ l.maxSeg → 0 ≤ l.numAx s) (ht : 0 ≤ l.numTang)
    (htof : ¬ l.numTof > 1 → l.minTof = l.maxTof) : (subsetLayout l n).WF :=
  memLayout_WF (l := { l with minView := 0, numViews := (n : Int) }) h0 h1 hax (by show (0 : Int) ≤ (n : Int); omega) ht htof

end StirVerif.C02
