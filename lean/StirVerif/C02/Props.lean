import StirVerif.C02.Model
namespace StirVerif.C02
end StirVerif.C02
