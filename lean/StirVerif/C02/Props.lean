/-
C02 — "Projection data are one coherent array across access paths, layouts and files".
Property theorems over the model of `Model.lean` (transcription of `ProjDataFromStream::get_offset`,
`ProjDataInMemory::get_index` and of the seek/contiguous-run pattern of every get_*/set_*).
All statements are for every geometry (any number of segments with any, unequal, axial sizes, any view /
tangential / TOF ranges), both storage orders, every permutation of the segment sequence, every element size
and stream offset, and every history of writes — no bounds.

Extension (scale factor, bulk arithmetic, copies): `Op` now also has the constructors `bulk` (one pass of
`ProjData::xapyb`/`sapyb`/`axpby`/`operator+=,-=,*=,/=`: TOF, segments increasing, `SegmentBySinogram`) and `fillPd`
(`ProjData::fill(const ProjData&)`: segments increasing, TOF, `SegmentByView`), so `C02_path_addresses`,
`C02_history_refines` and `C02_read_any_path` below cover histories that contain those operations as well; the values a
bulk operation writes are arbitrary here (they are what the element-wise arithmetic produced).  New sections at the end:
the scale factor of the stream, copies into a fresh `ProjDataInMemory`, segment containers of the wrong size, and
(round 4) containers of the RIGHT size whose index range differs from the data's (`setterAccepts`, compared line by line
with `set_viewgram`/`set_sinogram`/`set_segment`/`set_related_viewgrams` of every implementation).

Hypotheses: `Layout.WF` (segment sequence = a permutation of the segment range, TOF sequence of the TOF range,
non-negative sizes, `offset_3d_data` = one complete data set — which `C02_offset3d_is_one_data_set` shows is what
`activate_TOF` computes) and `Layout.Pos` (no empty dimension); both hold of every layout STIR constructs
(`example`s below).
-/
import StirVerif.C02.ProofsRefine
import StirVerif.C02.ProofsScale
import StirVerif.C02.ProofsCopy
import StirVerif.C02.ProofsSubset
import StirVerif.C02.ProofsSetters

namespace StirVerif.C02

/-! ## the offset map -/

/-- "a single array indexed by (segment, axial position, view, tangential position, TOF bin)":
    two in-range bins with the same stream offset are the same bin — both storage orders, any segment
    permutation, unequal axial sizes, TOF or not. -/
theorem C02_offset_injective (l : Layout) (h : l.WF) (b1 b2 : Bin) (r1 : InRange l b1) (r2 : InRange l b2)
    (e : offsetOf l b1 = offsetOf l b2) : b1 = b2 := by
  rw [offsetOf_ok r1, offsetOf_ok r2] at e
  exact rawOffset_inj h r1 r2 (Except.ok.inj e)

/-- every in-range bin is accepted and lands inside the store, on an element boundary:
    `offset ≤ off(b) < offset + total·size`, `off(b) ≡ offset (mod size)`. -/
theorem C02_offset_in_range (l : Layout) (h : l.WF) (b : Bin) (r : InRange l b) :
    ∃ k : Int, 0 ≤ k ∧ k < totalSlots l ∧ offsetOf l b = .ok (l.offset + k * l.elemSize) :=
  ⟨slot l b, slot_nonneg h r, slot_lt_total h r, by rw [offsetOf_ok r, rawOffset_eq_slot h]⟩

/-- `ProjDataInMemory::get_index` is `get_offset` for element size 1, stream offset 0 and the
    Segment_AxialPos_View_TangPos order (same checks, same missing checks): all theorems apply to it. -/
theorem C02_in_memory_same (l : Layout) (b : Bin) : getIndex l b = offsetOf l.inMemory b :=
  getIndex_eq_offsetOf l b

/-- what `activate_TOF` / the `ProjDataInMemory` constructor store in `offset_3d_data` is the size of one complete
    non-TOF data set, whatever the order of the segment sequence (the `off3d` field of `Layout.WF`). -/
theorem C02_offset3d_is_one_data_set (l : Layout) (hn : l.segSeq.Nodup)
    (hm : ∀ s, s ∈ l.segSeq ↔ (l.minSeg ≤ s ∧ s ≤ l.maxSeg)) :
    stdOffset3d l = totalAx l * (l.numViews * l.numTang) * l.elemSize :=
  stdOffset3d_eq hn hm

/-! ## access paths -/

/-- "a value written through any access path …": for an in-range request through any path (single bin, viewgram,
    sinogram, segment by sinogram / by view — including the conversion when the storage order does not match —,
    related viewgrams, `fill`, `fill_from`, and — since the extension of the model — the bulk arithmetic
    `sapyb`/`xapyb`/`axpby`/`operator+=,-=,*=,/=` (`Op.bulk`) and `fill(const ProjData&)` (`Op.fillPd`)), the addresses
    the code seeks to and runs over are exactly the offsets of the bins of that path, each once, in container element
    order. -/
theorem C02_path_addresses {α : Type} (l : Layout) (p : l.Pos) (op : Op α) (hv : op.Valid l) :
    op.addrs l = .ok ((op.bins l).map (rawOffset l)) ∧ ∀ b ∈ op.bins l, InRange l b :=
  ⟨Op.addrs_eq p op hv, Op.bins_inRange p op hv⟩

/-- contiguity justifying the single `write_data`/`read_data` call: a tangential row is contiguous in both orders … -/
theorem C02_contiguous_row (l : Layout) (seg view ax tof : Int) :
    (rowBins l seg view ax tof).map (rawOffset l)
      = block (rawOffset l ⟨seg, view, ax, l.minTang, tof⟩) l.elemSize l.T :=
  rowBins_map l seg view ax tof

/-- … a whole viewgram is one contiguous run in the Segment_View_AxialPos_TangPos order … -/
theorem C02_contiguous_viewgram (l : Layout) (p : l.Pos) (ho : l.order = .svat) (seg view tof : Int)
    (hs : SegOK l seg) (hv : ViewOK l view) (hk : TofOK l tof) :
    (binsViewgram l seg view tof).map (rawOffset l)
      = block (rawOffset l ⟨seg, view, l.minAx seg, l.minTang, tof⟩) l.elemSize (l.A seg * l.T) := by
  have h := viewgram_addrs p hs hv hk
  unfold addrsViewgram at h
  simp only [ho] at h
  rw [offsetOf_ok (first_in_range p hs hv (ax_first p hs) hk), ok_bind] at h
  exact (Except.ok.inj h).symm

/-- … a whole sinogram in the Segment_AxialPos_View_TangPos order … -/
theorem C02_contiguous_sinogram (l : Layout) (p : l.Pos) (ho : l.order = .savt) (seg ax tof : Int)
    (hs : SegOK l seg) (ha : AxOK l seg ax) (hk : TofOK l tof) :
    (binsSinogram l seg ax tof).map (rawOffset l)
      = block (rawOffset l ⟨seg, l.minView, ax, l.minTang, tof⟩) l.elemSize (l.V * l.T) := by
  have h := sinogram_addrs p hs ha hk
  unfold addrsSinogram at h
  simp only [ho] at h
  rw [offsetOf_ok (first_in_range p hs (view_first p) ha hk), ok_bind] at h
  exact (Except.ok.inj h).symm

/-- … and a whole segment, in the matching container, in either order. -/
theorem C02_contiguous_segment (l : Layout) (p : l.Pos) (seg tof : Int) (hs : SegOK l seg) (hk : TofOK l tof) :
    (l.order = .savt → (binsSegBySino l seg tof).map (rawOffset l)
        = block (rawOffset l ⟨seg, l.minView, l.minAx seg, l.minTang, tof⟩) l.elemSize (l.A seg * (l.V * l.T))) ∧
    (l.order = .svat → (binsSegByView l seg tof).map (rawOffset l)
        = block (rawOffset l ⟨seg, l.minView, l.minAx seg, l.minTang, tof⟩) l.elemSize (l.V * (l.A seg * l.T))) := by
  have hf := offsetOf_ok (first_in_range p hs (view_first p) (ax_first p hs) hk)
  constructor
  · intro ho
    have h := segBySino_addrs p hs hk
    unfold addrsSegBySino at h
    rw [hf, ok_bind] at h
    simp only [ho] at h
    exact (Except.ok.inj h).symm
  · intro ho
    have h := segByView_addrs p hs hk
    unfold addrsSegByView at h
    rw [hf, ok_bind] at h
    simp only [ho] at h
    exact (Except.ok.inj h).symm

/-! ## refinement: the stream behaves as the array -/

/-- "… is read back unchanged … and no other bin changes": for ANY list of (bin, value) writes to in-range bins,
    laid down in the store at the offsets the code computes, reading the address of any in-range bin gives the
    last value written to that bin, and the previous content if it was never written. -/
theorem C02_writes_then_read {α : Type} (l : Layout) (h : l.WF) (σ : Store α) (ws : List (Bin × α))
    (hw : ∀ w ∈ ws, InRange l w.1) (b : Bin) (hb : InRange l b) :
    writeAddrs σ (ws.map fun w => (rawOffset l w.1, w.2)) (rawOffset l b)
      = (lastWrite ws b).getD (σ (rawOffset l b)) := by
  have r0 : Refines l σ (fun c => σ (rawOffset l c)) := fun _ _ => rfl
  have := refines_writes h ws r0 hw b hb
  rw [this, writeBins_apply]

/-- bins that no write names keep their value -/
theorem C02_untouched_bins_keep_value {α : Type} (l : Layout) (h : l.WF) (σ : Store α) (ws : List (Bin × α))
    (hw : ∀ w ∈ ws, InRange l w.1) (b : Bin) (hb : InRange l b) (hn : ∀ w ∈ ws, w.1 ≠ b) :
    writeAddrs σ (ws.map fun w => (rawOffset l w.1, w.2)) (rawOffset l b) = σ (rawOffset l b) := by
  rw [C02_writes_then_read l h σ ws hw b hb, lastWrite_none_of_not_mem ws b hn]
  rfl

/-- "arbitrary interleavings of write operations through different access paths": after any history of in-range
    requests through all paths (executed on the store exactly as the code addresses it), the store still holds,
    at the offset of every in-range bin, what the abstract array (reference map) holds …
    (histories may now contain `Op.bulk` and `Op.fillPd` steps: bulk arithmetic and `fill(const ProjData&)`) -/
theorem C02_history_refines {α : Type} (l : Layout) (h : l.WF) (p : l.Pos) (ops : List (Op α))
    (σ : Store α) (m : Spec α) (r : Refines l σ m) (hv : ∀ op ∈ ops, op.Valid l) :
    Refines l (ops.foldl (stepStore l) σ) (ops.foldl (stepSpec l) m) :=
  refines_history h p ops r hv

/-- … so that reading through ANY path afterwards returns the abstract array's values for the bins of that path. -/
theorem C02_read_any_path {α : Type} (l : Layout) (h : l.WF) (p : l.Pos) (ops : List (Op α))
    (σ : Store α) (m : Spec α) (r : Refines l σ m) (hv : ∀ op ∈ ops, op.Valid l) (rd : Op α) (hr : rd.Valid l) :
    readPath (ops.foldl (stepStore l) σ) (rd.addrs l) = .ok ((rd.bins l).map (ops.foldl (stepSpec l) m)) :=
  read_refines p (refines_history h p ops r hv) rd hr

/-! ## requests outside the index ranges -/

/-- "Requests outside the index ranges are reported as errors": PARTIAL — true of the pinned source for the segment,
    the axial position and the TOF index only (the three checks `get_offset` / `get_index` contain). -/
theorem C02_range_errors_partial (l : Layout) (b : Bin)
    (hb : ¬ SegOK l b.seg ∨ ¬ AxOK l b.seg b.ax ∨ ¬ TofOK l b.tof) : ∃ e, offsetOf l b = .error e := by
  unfold offsetOf SegOK AxOK TofOK at *
  by_cases h1 : l.minSeg ≤ b.seg ∧ b.seg ≤ l.maxSeg
  · by_cases h2 : l.minAx b.seg ≤ b.ax ∧ b.ax ≤ l.maxAx b.seg
    · have h3 : ¬ (l.minTof ≤ b.tof ∧ b.tof ≤ l.maxTof) := by tauto
      exact ⟨.tofRange, by simp [h1, h2, h3]⟩
    · exact ⟨.axRange, by simp [h1, h2]⟩
  · exact ⟨.segRange, by simp [h1]⟩

/-- the full clause: every request that is not in range is an error -/
def RangeErrorsFull (l : Layout) : Prop := ∀ b, ¬ InRange l b → ∃ e, offsetOf l b = .error e

/-- the full clause holds once view and tangential position are checked too (the two flags the harness reads off
    the implementation) … -/
theorem C02_range_errors_checked (l : Layout) (hv : l.checkView = true) (ht : l.checkTang = true) :
    RangeErrorsFull l := by
  intro b hb
  by_cases h1 : l.minSeg ≤ b.seg ∧ b.seg ≤ l.maxSeg
  · by_cases h2 : l.minAx b.seg ≤ b.ax ∧ b.ax ≤ l.maxAx b.seg
    · by_cases h3 : l.minTof ≤ b.tof ∧ b.tof ≤ l.maxTof
      · by_cases h4 : l.minView ≤ b.view ∧ b.view ≤ l.maxView
        · have h5 : ¬ (l.minTang ≤ b.tang ∧ b.tang ≤ l.maxTang) := fun h5 => hb ⟨h1, h2, h4, h5, h3⟩
          exact ⟨.tangRange, by simp [offsetOf, h1, h2, h3, h4, h5, hv, ht]⟩
        · exact ⟨.viewRange, by simp [offsetOf, h1, h2, h3, h4, hv]⟩
      · exact C02_range_errors_partial l b (Or.inr (Or.inr h3))
    · exact C02_range_errors_partial l b (Or.inr (Or.inl h2))
  · exact C02_range_errors_partial l b (Or.inl h1)

/-- (used by the negative witnesses) a small concrete layout: segments -1..1 stored in the order 1, -1, 0 with 2, 2, 3 axial positions,
    2 views, 3 tangential positions -1..1, 3 TOF bins, 4-byte elements at stream offset 12 -/
def exLayout (o : Order) (cv ct : Bool) : Layout :=
  { segSeq := [1, -1, 0], tofSeq := [-1, 0, 1], minSeg := -1, maxSeg := 1,
    minAx := fun _ => 0, numAx := fun s => if s = 0 then 3 else 2,
    minView := 0, numViews := 2, minTang := -1, numTang := 3, minTof := -1, maxTof := 1, numTof := 3,
    order := o, elemSize := 4, offset := 12, offset3d := 7 * (2 * 3) * 4, checkView := cv, checkTang := ct }

/-- … and FAILS for the pinned source (no view / tangential check): on the small layout above, the request
    (segment 0, view 2 = max_view+1, axial 0) is accepted and has the offset of the in-range bin
    (segment 0, view 0, axial 1): reading it returns, writing it overwrites, another bin.  Same for the tangential
    position 2 = max+1, which lands on the first bin of the next view. -/
theorem C02_view_out_of_range_aliases_fails :
    ¬ RangeErrorsFull (exLayout .savt false false) ∧
    offsetOf (exLayout .savt false false) ⟨0, 2, 0, -1, 0⟩ = offsetOf (exLayout .savt false false) ⟨0, 0, 1, -1, 0⟩ ∧
    offsetOf (exLayout .savt false false) ⟨0, 2, 0, -1, 0⟩ = .ok 300 ∧
    offsetOf (exLayout .svat false false) ⟨0, 0, 0, 2, 0⟩ = offsetOf (exLayout .svat false false) ⟨0, 0, 1, -1, 0⟩ ∧
    offsetOf (exLayout .svat false false) ⟨0, 0, 0, 2, 0⟩ = .ok 288 := by
  refine ⟨?_, by decide, by decide, by decide, by decide⟩
  intro h
  obtain ⟨e, he⟩ := h ⟨0, 2, 0, -1, 0⟩ (fun r => by have := r.view; simp [exLayout, Layout.maxView] at this)
  have : offsetOf (exLayout .savt false false) ⟨0, 2, 0, -1, 0⟩ = .ok 300 := by decide
  rw [this] at he
  cases he

/-- the hypothesis "every segment of the range occurs in the segment sequence" is needed: `std::find` returns
    `size()` for a missing segment, so with the sequence [0] for the range -1..1 the (accepted) segments -1 and 1
    share their offsets. -/
theorem C02_missing_segment_aliases_fails :
    offsetOf { exLayout .savt false false with segSeq := [0] } ⟨1, 0, 0, -1, 0⟩
      = offsetOf { exLayout .savt false false with segSeq := [0] } ⟨-1, 0, 0, -1, 0⟩ := by decide

/-! ## flush -/

/-- "written values are visible … as soon as each write call returns" (class documentation: every set_* flushes):
    PARTIAL, about the model's table of which `set_*` end with `sino_stream->flush()` — all but `set_bin_value`
    (whether the bytes reach a second reader is runtime behaviour, checked by the harness only). -/
theorem C02_flush_after_every_write_partial (k : WriteKind) (hk : k ≠ .bin) : flushes k = true := by
  cases k <;> simp_all [flushes]

/-- `set_bin_value` has no `flush()` in the pinned source -/
theorem C02_flush_set_bin_value_fails : flushes .bin = false := rfl

/-! ## the scale factor of the stream -/

/-- "a value written through any access path … is read back unchanged through every other path … whatever the …
    on-disk number type": on a stream with an integer on-disk type and scale factor `scale ≠ 0`, every value that is a
    multiple `n · scale` of the scale factor (non-negative for unsigned short), written through any path that hands the
    stream's scale factor to `write_data` (`round(value / scale)` on disk), is returned unchanged by every `get_*`
    (`number · scale`) — every `set_*` but the pinned `set_bin_value`. -/
theorem C02_scaled_value_roundtrip (ty : NumType) (hty : ty ≠ .float) (binScaled : Bool) (k : WriteKind)
    (hk : k ≠ .bin ∨ binScaled = true) (scale : Rat) (hs : scale ≠ 0) (n : Int)
    (hn : ty = .ushort → 0 ≤ (n : Rat) * scale) :
    writeThenRead ty binScaled k scale ((n : Rat) * scale) = (n : Rat) * scale :=
  writeThenRead_multiple ty hty binScaled k hk scale hs n hn

/-- float on disk (and `ProjDataInMemory`): every value is kept as it is; with scale factor 1 it is read back unchanged -/
theorem C02_float_value_roundtrip (binScaled : Bool) (k : WriteKind) (v : Rat) :
    writeThenRead .float binScaled k 1 v = v := by
  rw [writeThenRead_float, mul_one]

/-- the clause FAILS for the single-bin path of the pinned source: `set_bin_value` passes scale 1 to `write_data`
    while `get_bin_value` multiplies by `scale_factor`, so an integer value `m` comes back as `m · scale`
    (short data, scale factor 3: 6 is read back as 18, although the same value written through `set_viewgram` comes back as 6). -/
theorem C02_set_bin_value_ignores_scale_fails :
    (∀ (scale : Rat) (m : Int), writeThenRead .short false .bin scale (m : Rat) = (m : Rat) * scale) ∧
    writeThenRead .short false .bin 3 6 = 18 ∧ writeThenRead .short false .viewgram 3 6 = 6 := by
  refine ⟨fun scale m => writeThenRead_bin_unscaled .short (by decide) scale m (by intro h; cases h), ?_, ?_⟩
  · have := writeThenRead_bin_unscaled .short (by decide) 3 6 (by intro h; cases h)
    norm_num at this ⊢
    exact this
  · have := writeThenRead_multiple .short (by decide) false .viewgram (Or.inl (by decide)) 3 (by norm_num) 2 (by intro h; cases h)
    norm_num at this ⊢
    exact this

/-- non-vacuity: the hypotheses of `C02_scaled_value_roundtrip` hold for unsigned short data with scale factor 1/2 -/
example : writeThenRead .ushort false .sinogram (1/2) ((7 : Int) * (1/2)) = (7 : Int) * (1/2) :=
  C02_scaled_value_roundtrip .ushort (by decide) false .sinogram (Or.inl (by decide)) (1/2) (by norm_num) 7 (by intro _; norm_num)

/-! ## copies into a fresh `ProjDataInMemory` -/

/-- "… is read back unchanged through every other path … whatever the … backing store": `ProjDataInMemory(const ProjData&)`
    (= `ProjData::fill(const ProjData&)` on the new object, also used by `ProjDataInMemory::read_from_file`) reads, for
    every segment and TOF bin, exactly the addresses of the source's bins and writes them at the buffer index of the SAME
    bin in the new object's own layout (standard segment sequence, natural TOF order) … -/
theorem C02_copy_into_memory_addresses (l : Layout) (p : l.Pos) :
    copyIntoMemory l = .ok ((binsFillPd l).map fun b => (rawOffset l b, rawOffset (memLayout l) b)) :=
  copyIntoMemory_eq p

/-- … every in-range bin is copied … -/
theorem C02_copy_into_memory_complete (l : Layout) (p : l.Pos) (b : Bin) (r : InRange l b) : b ∈ binsFillPd l :=
  mem_binsFillPd p r

/-- … and therefore the new object holds the same abstract array as the source, whatever it held before and whatever the
    source's storage order, segment sequence, element size and offset. -/
theorem C02_copy_into_memory_refines {α : Type} (l : Layout) (p : l.Pos) (h0 : l.minSeg ≤ 0) (h1 : 0 ≤ l.maxSeg)
    (hax : ∀ s, l.minSeg ≤ s ∧ s ≤ l.maxSeg → 0 ≤ l.numAx s) (htof : ¬ l.numTof > 1 → l.minTof = l.maxTof)
    (σ τ : Store α) (m : Spec α) (r : Refines l σ m) :
    Refines (memLayout l) (copyStore σ τ ((binsFillPd l).map fun b => (rawOffset l b, rawOffset (memLayout l) b))) m :=
  copy_refines p (memLayout_WF h0 h1 hax (le_of_lt p.views) (le_of_lt p.tang) htof) r

/-- `ProjData::standard_segment_sequence` never repeats a segment: the layout of every `ProjDataInMemory` is a
    permutation of its segment range (hypothesis `segNodup` of `Layout.WF`). -/
theorem C02_standard_segment_sequence_nodup (minSeg maxSeg : Int) : (standardSegmentSequence minSeg maxSeg).Nodup :=
  standardSegmentSequence_nodup minSeg maxSeg

/-! ## `get_subset` -/

/-- `ProjData::get_subset(views)` (for TOF bin, segment, subset view `j`: `get_viewgram(views[j])` → `set_viewgram` of view
    `j` of a fresh `ProjDataInMemory` whose geometry has `views.size()` views): for a non-empty list of in-range views the
    code reads, for every bin `c` of the subset object, exactly the source address of the bin `c` with view number
    `views[c.view]`, and writes it at `c`'s own buffer index … -/
theorem C02_get_subset_addresses (l : Layout) (p : l.Pos) (views : List Int) (hne : views ≠ [])
    (hv : ∀ v ∈ views, ViewOK l v) :
    subsetCopy l views = .ok ((subsetDst l views).map fun c =>
      (rawOffset l (subsetSrc views c), rawOffset (subsetLayout l views.length) c)) :=
  subsetCopy_eq p hne hv

/-- … so that the returned object holds the source's abstract array re-indexed by `views` (every in-range bin of the
    subset is written, `subsetDst_cover`; views may repeat or come in any order), whatever the source's layout. -/
theorem C02_get_subset_refines {α : Type} (l : Layout) (p : l.Pos) (h0 : l.minSeg ≤ 0) (h1 : 0 ≤ l.maxSeg)
    (hax : ∀ s, l.minSeg ≤ s ∧ s ≤ l.maxSeg → 0 ≤ l.numAx s) (htof : ¬ l.numTof > 1 → l.minTof = l.maxTof)
    (views : List Int) (hne : views ≠ []) (hv : ∀ v ∈ views, ViewOK l v)
    (σ τ : Store α) (m : Spec α) (r : Refines l σ m) :
    Refines (subsetLayout l views.length)
      (copyStore σ τ ((subsetDst l views).map fun c =>
        (rawOffset l (subsetSrc views c), rawOffset (subsetLayout l views.length) c)))
      (fun c => m (subsetSrc views c)) :=
  subset_refines p hne hv (subsetLayout_WF views.length h0 h1 hax (le_of_lt p.tang) htof) r

/-! ## segment containers of the wrong size -/

/-- "Requests outside the index ranges are reported as errors instead of touching other data": once `set_segment`
    compares the axial range of the container with its own (`checked`, the flag the harness reads off the
    implementation), a container with an axial position too many is rejected … -/
theorem C02_oversized_segment_checked (l : Layout) (seg tof : Int) (extra : Nat) :
    ∃ e, addrsSegOversized l true seg tof extra = .error e := by
  unfold addrsSegOversized
  cases h : offsetOf l ⟨seg, l.minView, l.minAx seg, l.minTang, tof⟩ with
  | error e => exact ⟨e, rfl⟩
  | ok o => exact ⟨.axRange, rfl⟩

/-- … and it FAILS for the pinned source (views and tangential positions are compared, axial positions are not): on the
    example layout below, `set_segment` of segment 1 (first in the stream, 2 axial positions) with a container that has 3
    axial positions is accepted and its run of addresses contains the offset of the in-range bin
    (segment -1, view 0, axial 0, tang -1) of the NEXT segment in the stream. -/
theorem C02_oversized_segment_aliases_fails :
    ∃ as, addrsSegOversized (exLayout .savt false false) false 1 (-1) 1 = .ok as ∧
      offsetOf (exLayout .savt false false) ⟨-1, 0, 0, -1, -1⟩ = .ok 60 ∧ (60 : Int) ∈ as := by
  refine ⟨_, rfl, by decide, by decide⟩

/-! ## non-vacuity -/

theorem C02_example_layout_WF (o : Order) (cv ct : Bool) : (exLayout o cv ct).WF where
  segNodup := by simp [exLayout]
  segMem := by intro s; simp [exLayout]; omega
  tofMem := by intro _ k; simp [exLayout]; omega
  tofOne := by intro h; exact absurd (by simp [exLayout] : (exLayout o cv ct).numTof > 1) h
  numAxNonneg := by intro s _; simp only [exLayout]; split <;> omega
  viewsNonneg := by simp [exLayout]
  tangNonneg := by simp [exLayout]
  sizePos := by simp [exLayout]
  off3d := by intro _; simp [exLayout, totalAx]

theorem C02_example_layout_Pos (o : Order) (cv ct : Bool) : (exLayout o cv ct).Pos where
  views := by simp [exLayout]
  tang := by simp [exLayout]
  ax := by intro s _; simp only [exLayout]; split <;> omega

/-- an in-range bin of the example layout -/
example : InRange (exLayout .svat false false) ⟨-1, 1, 1, 0, 1⟩ :=
  ⟨by decide, by decide, by decide, by decide, by decide⟩

/-- `offset_3d_data` of the example layout is what `activate_TOF` computes -/
example : stdOffset3d (exLayout .savt false false) = (exLayout .savt false false).offset3d := by decide

/-- a valid history through different paths -/
example : ∀ op ∈ ([.setViewgram 0 1 (-1) [1, 2, 3, 4, 5, 6, 7, 8, 9], .setBin ⟨-1, 1, 1, 0, 1⟩ 5,
    .setSegBySino 1 0 (List.replicate 12 7), .fill 0, .fillFrom (List.replicate 126 1)] : List (Op Nat)),
    op.Valid (exLayout .svat false false) := by
  intro op hop
  simp only [List.mem_cons, List.not_mem_nil, or_false] at hop
  rcases hop with rfl | rfl | rfl | rfl | rfl
  · exact ⟨by decide, by decide, by decide⟩
  · exact ⟨by decide, by decide, by decide, by decide, by decide⟩
  · exact ⟨by decide, by decide⟩
  · trivial
  · exact ⟨by decide, by decide⟩

/-- the model computes: viewgram (segment 0, view 1, TOF -1) of the example layout in the
    Segment_View_AxialPos_TangPos order is the contiguous run of 9 elements starting at byte 12 + 4·(4·6 + 9) -/
example : addrsViewgram (exLayout .svat false false) 0 1 (-1) = .ok (block 144 4 9) := by decide

/-- the hypotheses of `C02_copy_into_memory_refines` hold for the example layout (any store content) -/
example (o : Order) (σ τ : Store Nat) (m : Spec Nat) (r : Refines (exLayout o false false) σ m) :
    Refines (memLayout (exLayout o false false))
      (copyStore σ τ ((binsFillPd (exLayout o false false)).map fun b =>
        (rawOffset (exLayout o false false) b, rawOffset (memLayout (exLayout o false false)) b))) m :=
  C02_copy_into_memory_refines _ (C02_example_layout_Pos o false false) (by simp [exLayout]) (by simp [exLayout])
    (by intro s _; simp only [exLayout]; split <;> omega) (by intro h; exact absurd (by simp [exLayout]) h) σ τ m r

/-- the hypotheses of `C02_get_subset_refines` hold for the example layout and the views [1, 0] -/
example (o : Order) (σ τ : Store Nat) (m : Spec Nat) (r : Refines (exLayout o false false) σ m) :
    Refines (subsetLayout (exLayout o false false) 2)
      (copyStore σ τ ((subsetDst (exLayout o false false) [1, 0]).map fun c =>
        (rawOffset (exLayout o false false) (subsetSrc [1, 0] c), rawOffset (subsetLayout (exLayout o false false) 2) c)))
      (fun c => m (subsetSrc [1, 0] c)) :=
  C02_get_subset_refines _ (C02_example_layout_Pos o false false) (by simp [exLayout]) (by simp [exLayout])
    (by intro s _; simp only [exLayout]; split <;> omega) (by intro h; exact absurd (by simp [exLayout]) h)
    [1, 0] (by simp) (by intro v hv; simp at hv; rcases hv with rfl | rfl <;> simp [ViewOK, Layout.maxView, exLayout]) σ τ m r

/-- the model computes: subset view 0 of `get_subset([1, 0])` comes from view 1 -/
example : subsetSrc [1, 0] ⟨0, 0, 2, 1, 0⟩ = ⟨0, 1, 2, 1, 0⟩ := by decide

/-- a history containing the bulk paths is valid on the example layout -/
example : ∀ op ∈ ([.bulk (List.replicate 126 2), .fillPd (List.replicate 126 3), .setBin ⟨0, 1, 2, 1, 0⟩ 9] : List (Op Nat)),
    op.Valid (exLayout .savt false false) := by
  intro op hop
  simp only [List.mem_cons, List.not_mem_nil, or_false] at hop
  rcases hop with rfl | rfl | rfl
  · trivial
  · trivial
  · exact ⟨by decide, by decide, by decide, by decide, by decide⟩

/-- the model computes: the in-memory copy of the example layout stores segment 0 first (standard sequence 0, 1, -1) -/
example : (memLayout (exLayout .svat false false)).segSeq = [0, 1, -1] := by decide

/-! ## containers whose own index range differs from the data's -/

/-- "Requests outside the index ranges are reported as errors instead of touching other data", for the container
    setters (`set_viewgram`, `set_sinogram`, `set_segment(SegmentBySinogram)`, `set_segment(SegmentByView)`,
    `set_related_viewgrams`; `ProjDataFromStream`, `ProjDataInterfile`, `ProjDataInMemory`): with the checks the source
    makes plus the comparison of the minimum tangential position in `set_segment` (`tangChecked = true`), a container
    is accepted IF AND ONLY IF its axial range (of its segment), its number of views and its tangential range are
    exactly the data's — every container of the right size with a shifted range, and every smaller one, is refused
    (and a refused setter writes nothing: the driver answers `err` without touching the store), while a container
    made by the data's own `get_empty_*` is never refused.  All layouts, all segments in range. -/
theorem C02_container_setter_accepts_iff_same_ranges (l : Layout) (s : Setter) (seg : Int) (c : CRange)
    (hs : l.minSeg ≤ seg ∧ seg ≤ l.maxSeg) :
    setterAccepts l true s seg c = true ↔ c = l.crange seg :=
  setterAccepts_iff l s seg c hs

/-- the direction that needs no hypothesis on the segment number: whatever is accepted has the data's ranges -/
theorem C02_container_setter_accepted_has_same_ranges (l : Layout) (s : Setter) (seg : Int) (c : CRange)
    (h : setterAccepts l true s seg c = true) : c = l.crange seg :=
  setterAccepts_exact l s seg c h

/-- … and FAILS for the pinned source (`tangChecked = false`: `set_segment` compares the NUMBER of tangential positions
    only): on the small layout a `SegmentByView`/`SegmentBySinogram` of segment 0 with tangential range 0..2 (data: -1..1)
    is accepted although it is not the data's range — its last index 2 is outside; the setter then writes it position by
    position, i.e. shifted by one bin.  `set_viewgram`/`set_sinogram` refuse the same ranges. -/
theorem C02_set_segment_shifted_tang_range_fails :
    setterAccepts (exLayout .svat false false) false .segByView 0 ⟨0, 2, 2, 0, 2⟩ = true ∧
    setterAccepts (exLayout .savt false false) false .segBySino 0 ⟨0, 2, 2, 0, 2⟩ = true ∧
    (⟨0, 2, 2, 0, 2⟩ : CRange) ≠ (exLayout .svat false false).crange 0 ∧
    setterAccepts (exLayout .svat false false) false .viewgram 0 ⟨0, 2, 2, 0, 2⟩ = false ∧
    setterAccepts (exLayout .svat false false) false .sinogram 0 ⟨0, 2, 2, 0, 2⟩ = false := by decide

/-- non-vacuity: the data's own ranges of segment 0 of the example layout are accepted by every setter, the axial range
    shifted by one (1..3 instead of 0..2: the seeded 'number of axial positions only' defect) is refused by every setter -/
example : ∀ s : Setter, setterAccepts (exLayout .svat false false) true s 0 ⟨0, 2, 2, -1, 1⟩ = true ∧
    setterAccepts (exLayout .svat false false) false s 0 ⟨1, 3, 2, -1, 1⟩ = false := by
  intro s; cases s <;> decide

end StirVerif.C02
