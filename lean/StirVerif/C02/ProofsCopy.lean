/-
C02 — copies into a fresh `ProjDataInMemory`: `ProjDataInMemory(const ProjData&)` (= `ProjData::fill(const ProjData&)`
on the new object).
-/
import StirVerif.C02.ProofsRefine

namespace StirVerif.C02

theorem zip_map_same {α β γ : Type} (xs : List α) (f : α → β) (g : α → γ) :
    (xs.map f).zip (xs.map g) = xs.map fun a => (f a, g a) := by
  induction xs with
  | nil => rfl
  | cons x t ih => simp [ih]

/-! ### the in-memory layout has the same index ranges -/

theorem memLayout_Pos {l : Layout} (p : l.Pos) : (memLayout l).Pos :=
  ⟨p.views, p.tang, fun s hs => p.ax s hs⟩

theorem binsFillPd_memLayout (l : Layout) : binsFillPd (memLayout l) = binsFillPd l := rfl

theorem copyIntoMemory_eq {l : Layout} (p : l.Pos) :
    copyIntoMemory l = .ok ((binsFillPd l).map fun b => (rawOffset l b, rawOffset (memLayout l) b)) := by
  unfold copyIntoMemory
  rw [fillPd_addrs p, ok_bind, fillPd_addrs (memLayout_Pos p), ok_bind, binsFillPd_memLayout, zip_map_same]
  rfl

/-! ### every in-range bin is copied -/

theorem mem_range_map_add {lo : Int} {n : Nat} {x : Int} (h0 : lo ≤ x) (h1 : x < lo + (n : Int)) :
    x ∈ (List.range n).map fun (i : Nat) => lo + (i : Int) := by
  refine List.mem_map.mpr ⟨(x - lo).toNat, List.mem_range.mpr (by omega), by omega⟩

theorem mem_binsFillPd {l : Layout} (p : l.Pos) {b : Bin} (r : InRange l b) : b ∈ binsFillPd l := by
  unfold binsFillPd
  refine List.mem_flatMap.mpr ⟨b.seg, ?_, List.mem_flatMap.mpr ⟨b.tof, ?_, ?_⟩⟩
  · unfold Layout.segRange
    exact mem_range_map_add r.seg.1 (by have := r.seg.2; omega)
  · unfold Layout.tofRange
    exact mem_range_map_add r.tof.1 (by have := r.tof.2; omega)
  · have hs : SegOK l b.seg := r.seg
    unfold binsSegByView binsViewgram rowBins
    have hv := r.view; have ha := r.ax; have ht := r.tang
    unfold Layout.maxView at hv; unfold Layout.maxAx at ha; unfold Layout.maxTang at ht
    have hV := V_cast p; have hA := A_cast p hs; have hT := T_cast p
    refine List.mem_flatMap.mpr ⟨(b.view - l.minView).toNat, List.mem_range.mpr (by omega), ?_⟩
    refine List.mem_flatMap.mpr ⟨(b.ax - l.minAx b.seg).toNat, List.mem_range.mpr (by omega), ?_⟩
    refine List.mem_map.mpr ⟨(b.tang - l.minTang).toNat, List.mem_range.mpr (by omega), ?_⟩
    cases b
    simp only [Bin.mk.injEq] at *
    refine ⟨trivial, ?_, ?_, ?_, trivial⟩ <;> omega

/-! ### `standard_segment_sequence` has no repetitions: the in-memory layout is well formed -/

theorem standardSegmentSequence_nodup (minSeg maxSeg : Int) : (standardSegmentSequence minSeg maxSeg).Nodup := by
  unfold standardSegmentSequence
  split
  · exact List.nodup_nil
  · rw [List.nodup_append]
    refine ⟨List.nodup_singleton 0, ?_, ?_⟩
    · rw [List.nodup_flatMap]
      constructor
      · intro k _
        rw [List.nodup_append]
        refine ⟨by split <;> simp, by split <;> simp, ?_⟩
        intro a ha b hb
        split at ha <;> split at hb <;> simp at ha hb
        omega
      · refine List.Pairwise.imp ?_ List.pairwise_lt_range
        intro a b hab
        show List.Disjoint _ _
        intro x hx hy
        simp only [List.mem_append] at hx hy
        rcases hx with hx | hx <;> rcases hy with hy | hy <;>
          (split at hx <;> split at hy <;> simp at hx hy; omega)
    · intro a ha b hb
      simp only [List.mem_singleton] at ha
      subst ha
      obtain ⟨k, _, hb⟩ := List.mem_flatMap.mp hb
      simp only [List.mem_append] at hb
      rcases hb with hb | hb <;> (split at hb <;> simp at hb; omega)

theorem mem_tofRange_iff (l : Layout) (k : Int) : k ∈ l.tofRange ↔ (l.minTof ≤ k ∧ k ≤ l.maxTof) := by
  constructor
  · exact mem_tofRange
  · intro h
    unfold Layout.tofRange
    exact mem_range_map_add h.1 (by omega)

/-- the layout of a fresh `ProjDataInMemory` is well formed whenever the geometry is (segment 0 exists, sizes are
    non-negative, TOF range consistent) -/
theorem memLayout_WF {l : Layout} (h0 : l.minSeg ≤ 0) (h1 : 0 ≤ l.maxSeg)
    (hax : ∀ s, l.minSeg ≤ s ∧ s ≤ l.maxSeg → 0 ≤ l.numAx s) (hv : 0 ≤ l.numViews) (ht : 0 ≤ l.numTang)
    (htof : ¬ l.numTof > 1 → l.minTof = l.maxTof) : (memLayout l).WF where
  segNodup := standardSegmentSequence_nodup _ _
  segMem := fun s => mem_standardSegmentSequence _ _ s h0 h1
  tofMem := fun _ k => mem_tofRange_iff l k
  tofOne := htof
  numAxNonneg := fun s hs => hax s ((mem_standardSegmentSequence _ _ s h0 h1).1 hs)
  viewsNonneg := hv
  tangNonneg := ht
  sizePos := by show (0 : Int) < 1; omega
  off3d := fun _ => by
    show stdOffset3d _ = _
    exact stdOffset3d_eq (standardSegmentSequence_nodup _ _) (fun s => mem_standardSegmentSequence _ _ s h0 h1)

/-! ### the copy refines the same abstract array -/

/-- laying down, at the buffer indices of the pairs, what the source store holds at the source addresses -/
def copyStore {α : Type} (σ τ : Store α) (pairs : List (Int × Int)) : Store α :=
  writeAddrs τ (pairs.map fun p => (p.2, σ p.1))

theorem copy_refines {α : Type} {l : Layout} (p : l.Pos) (hm : (memLayout l).WF) {σ τ : Store α} {m : Spec α}
    (r : Refines l σ m) :
    Refines (memLayout l) (copyStore σ τ ((binsFillPd l).map fun b => (rawOffset l b, rawOffset (memLayout l) b))) m := by
  intro b hb
  have hbl : InRange l b := ⟨hb.seg, hb.ax, hb.view, hb.tang, hb.tof⟩
  unfold copyStore
  rw [List.map_map]
  have hmap : (List.map ((fun (q : Int × Int) => (q.2, σ q.1)) ∘ fun b => (rawOffset l b, rawOffset (memLayout l) b)) (binsFillPd l))
      = ((binsFillPd l).map fun c => (c, m c)).map fun w => (rawOffset (memLayout l) w.1, w.2) := by
    rw [List.map_map]
    apply List.map_congr_left
    intro c hc
    simp only [Function.comp]
    rw [r c (binsFillPd_inRange p c hc)]
  rw [hmap]
  have r0 : Refines (memLayout l) τ (fun c => τ (rawOffset (memLayout l) c)) := fun _ _ => rfl
  have hin : ∀ w ∈ ((binsFillPd l).map fun c => (c, m c)), InRange (memLayout l) w.1 := by
    intro w hw
    obtain ⟨c, hc, rfl⟩ := List.mem_map.mp hw
    have := binsFillPd_inRange p c hc
    exact ⟨this.seg, this.ax, this.view, this.tang, this.tof⟩
  rw [refines_writes hm _ r0 hin b hb, writeBins_apply]
  have hmem : b ∈ binsFillPd l := mem_binsFillPd p hbl
  -- the last write to `b` carries `m b`
  have : ∀ (cs : List Bin), b ∈ cs → lastWrite (cs.map fun c => (c, m c)) b = some (m b) := by
    intro cs
    induction cs with
    | nil => intro h; cases h
    | cons c t ih =>
      intro h
      simp only [List.map_cons, lastWrite]
      by_cases ht : b ∈ t
      · rw [ih ht]
      · have hbc : b = c := by
          rcases List.mem_cons.mp h with h | h
          · exact h
          · exact absurd h ht
        have hn : lastWrite (t.map fun c => (c, m c)) b = none := by
          apply lastWrite_none_of_not_mem
          intro w hw
          obtain ⟨c', hc', rfl⟩ := List.mem_map.mp hw
          intro e; exact ht (e ▸ hc')
        rw [hn]; simp [hbc]
  rw [this _ hmem]; rfl

end StirVerif.C02
