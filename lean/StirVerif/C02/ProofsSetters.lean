/-
C02 — the acceptance checks of the container setters (`setterAccepts`): with the tangential range compared, a container is
accepted only if its index ranges ARE the data's ranges; the data's own ranges are always accepted.
-/
import StirVerif.C02.Model

namespace StirVerif.C02

theorem setterAccepts_exact (l : Layout) (s : Setter) (seg : Int) (c : CRange)
    (h : setterAccepts l true s seg c = true) : c = l.crange seg := by
  obtain ⟨a0, a1, nv, t0, t1⟩ := c
  cases s <;>
    simp only [setterAccepts, infoEquals, CRange.numAx, CRange.numTang, Layout.maxAx, Layout.maxTang, Bool.and_eq_true,
      beq_iff_eq, decide_eq_true_eq, Bool.not_true, Bool.false_or] at h <;>
    simp only [Layout.crange, Layout.maxAx, Layout.maxTang, CRange.mk.injEq] <;>
    omega

theorem setterAccepts_own_ranges (l : Layout) (t : Bool) (s : Setter) (seg : Int) (hs : l.minSeg ≤ seg ∧ seg ≤ l.maxSeg) :
    setterAccepts l t s seg (l.crange seg) = true := by
  cases s <;> cases t <;>
    simp [setterAccepts, infoEquals, CRange.numAx, CRange.numTang, Layout.crange, Layout.maxAx, Layout.maxTang, hs] <;>
    omega

/-- a refused container setter changes nothing; an accepted one holds a container with the data's ranges: in both cases
    (with the tangential range compared) no bin outside the setter's own path is written.  Stated as: acceptance
    is equivalent to the container's ranges being the data's ranges (for a segment number in range). -/
theorem setterAccepts_iff (l : Layout) (s : Setter) (seg : Int) (c : CRange) (hs : l.minSeg ≤ seg ∧ seg ≤ l.maxSeg) :
    setterAccepts l true s seg c = true ↔ c = l.crange seg :=
  ⟨setterAccepts_exact l s seg c, fun h => h ▸ setterAccepts_own_ranges l true s seg hs⟩

end StirVerif.C02
