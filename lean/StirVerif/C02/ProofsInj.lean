/-
C02 — the offset map is injective on in-range bins and stays inside the store.
-/
import StirVerif.C02.ProofsArith

namespace StirVerif.C02

/-- sum of the axial sizes of all segments in the stream -/
def totalAx (l : Layout) : Int := (l.segSeq.map l.numAx).sum

/-- well-formed layout: the segment sequence is a permutation of the segment range (no assumption on the
    order), the TOF sequence of the TOF range (when there is more than one TOF bin), sizes are non-negative,
    and `offset_3d_data` is the size of one complete non-TOF data set (what `activate_TOF` computes). -/
structure Layout.WF (l : Layout) : Prop where
  segNodup : l.segSeq.Nodup
  segMem : ∀ s, s ∈ l.segSeq ↔ (l.minSeg ≤ s ∧ s ≤ l.maxSeg)
  tofMem : l.numTof > 1 → ∀ k, k ∈ l.tofSeq ↔ (l.minTof ≤ k ∧ k ≤ l.maxTof)
  tofOne : ¬ l.numTof > 1 → l.minTof = l.maxTof
  numAxNonneg : ∀ s, s ∈ l.segSeq → 0 ≤ l.numAx s
  viewsNonneg : 0 ≤ l.numViews
  tangNonneg : 0 ≤ l.numTang
  sizePos : 0 < l.elemSize
  off3d : l.numTof > 1 → l.offset3d = totalAx l * (l.numViews * l.numTang) * l.elemSize

/-- all five indices inside their ranges -/
structure InRange (l : Layout) (b : Bin) : Prop where
  seg : l.minSeg ≤ b.seg ∧ b.seg ≤ l.maxSeg
  ax : l.minAx b.seg ≤ b.ax ∧ b.ax ≤ l.maxAx b.seg
  view : l.minView ≤ b.view ∧ b.view ≤ l.maxView
  tang : l.minTang ≤ b.tang ∧ b.tang ≤ l.maxTang
  tof : l.minTof ≤ b.tof ∧ b.tof ≤ l.maxTof

def tofIdx (l : Layout) (b : Bin) : Int := if l.numTof > 1 then (findIdx l.tofSeq b.tof : Int) else 0

def segStart (l : Layout) (b : Bin) : Int := axBefore l (findIdx l.segSeq b.seg)

/-- element index inside the segment's block -/
def within (l : Layout) (b : Bin) : Int :=
  match l.order with
  | .savt => (b.ax - l.minAx b.seg) * (l.numViews * l.numTang) + ((b.view - l.minView) * l.numTang + (b.tang - l.minTang))
  | .svat => (b.view - l.minView) * (l.numAx b.seg * l.numTang) + ((b.ax - l.minAx b.seg) * l.numTang + (b.tang - l.minTang))

/-- element index in the store -/
def slot (l : Layout) (b : Bin) : Int :=
  tofIdx l b * (totalAx l * (l.numViews * l.numTang)) + (segStart l b * (l.numViews * l.numTang) + within l b)

theorem rawOffset_eq_slot {l : Layout} (h : l.WF) (b : Bin) :
    rawOffset l b = l.offset + slot l b * l.elemSize := by
  unfold rawOffset slot tofIdx segStart within
  by_cases ht : l.numTof > 1
  · have := h.off3d ht
    cases ho : l.order <;> simp only [ht, if_true, this] <;> ring
  · cases ho : l.order <;> simp only [ht, if_false] <;> ring

theorem within_bounds {l : Layout} (_h : l.WF) {b : Bin} (r : InRange l b) :
    0 ≤ within l b ∧ within l b < l.numAx b.seg * (l.numViews * l.numTang) := by
  have ha := r.ax; have hv := r.view; have ht := r.tang
  unfold Layout.maxAx at ha; unfold Layout.maxView at hv; unfold Layout.maxTang at ht
  unfold within
  cases ho : l.order
  · -- savt
    have h1 := radix_bound (x := b.view - l.minView) (X := l.numViews) (y := b.tang - l.minTang) (Y := l.numTang)
      (by omega) (by omega) (by omega) (by omega)
    exact radix_bound (x := b.ax - l.minAx b.seg) (X := l.numAx b.seg) (by omega) (by omega) h1.1 h1.2
  · -- svat
    have h1 := radix_bound (x := b.ax - l.minAx b.seg) (X := l.numAx b.seg) (y := b.tang - l.minTang) (Y := l.numTang)
      (by omega) (by omega) (by omega) (by omega)
    have h2 := radix_bound (x := b.view - l.minView) (X := l.numViews) (by omega) (by omega) h1.1 h1.2
    have e : l.numViews * (l.numAx b.seg * l.numTang) = l.numAx b.seg * (l.numViews * l.numTang) := by ring
    simp only at h2 ⊢
    rw [e] at h2
    exact h2

theorem seg_mem {l : Layout} (h : l.WF) {b : Bin} (r : InRange l b) : b.seg ∈ l.segSeq := (h.segMem _).2 r.seg

theorem segStart_nonneg {l : Layout} (h : l.WF) (b : Bin) : 0 ≤ segStart l b := by
  unfold segStart
  rw [axBefore_eq_pre]
  have := pre_mono l.numAx l.segSeq h.numAxNonneg (Nat.zero_le (findIdx l.segSeq b.seg)) (findIdx_le_length _ _)
  rwa [pre_zero] at this

theorem segStart_add_le_total {l : Layout} (h : l.WF) {b : Bin} (r : InRange l b) :
    segStart l b + l.numAx b.seg ≤ totalAx l := by
  have hm := seg_mem h r
  have hlt := findIdx_lt_length hm
  have := pre_block_le l.numAx l.segSeq h.numAxNonneg hlt (le_refl _)
  rw [getElem_findIdx hm, pre_length] at this
  exact this

/-- position inside one non-TOF data set -/
theorem inner_bounds {l : Layout} (h : l.WF) {b : Bin} (r : InRange l b) :
    0 ≤ segStart l b * (l.numViews * l.numTang) + within l b ∧
      segStart l b * (l.numViews * l.numTang) + within l b < totalAx l * (l.numViews * l.numTang) := by
  have hVT : 0 ≤ l.numViews * l.numTang := Int.mul_nonneg h.viewsNonneg h.tangNonneg
  have hw := within_bounds h r
  have h0 := Int.mul_nonneg (segStart_nonneg h b) hVT
  have h1 : (segStart l b + l.numAx b.seg) * (l.numViews * l.numTang) ≤ totalAx l * (l.numViews * l.numTang) :=
    Int.mul_le_mul_of_nonneg_right (segStart_add_le_total h r) hVT
  have e : (segStart l b + l.numAx b.seg) * (l.numViews * l.numTang)
      = segStart l b * (l.numViews * l.numTang) + l.numAx b.seg * (l.numViews * l.numTang) := by ring
  rw [e] at h1
  constructor <;> omega

theorem tofIdx_nonneg (l : Layout) (b : Bin) : 0 ≤ tofIdx l b := by
  unfold tofIdx; split
  · exact Int.natCast_nonneg _
  · exact le_refl _

theorem slot_nonneg {l : Layout} (h : l.WF) {b : Bin} (r : InRange l b) : 0 ≤ slot l b := by
  unfold slot
  have hVT : 0 ≤ l.numViews * l.numTang := Int.mul_nonneg h.viewsNonneg h.tangNonneg
  have hi := inner_bounds h r
  have hT : 0 ≤ totalAx l * (l.numViews * l.numTang) := by omega
  have := Int.mul_nonneg (tofIdx_nonneg l b) hT
  omega

/-- number of TOF blocks in the stream -/
def numTofBlocks (l : Layout) : Int := if l.numTof > 1 then (l.tofSeq.length : Int) else 1

/-- total number of elements in the store -/
def totalSlots (l : Layout) : Int := numTofBlocks l * (totalAx l * (l.numViews * l.numTang))

theorem slot_lt_total {l : Layout} (h : l.WF) {b : Bin} (r : InRange l b) : slot l b < totalSlots l := by
  unfold slot totalSlots
  have hi := inner_bounds h r
  have hT : 0 ≤ totalAx l * (l.numViews * l.numTang) := by omega
  have hlt : tofIdx l b + 1 ≤ numTofBlocks l := by
    unfold tofIdx numTofBlocks
    by_cases ht : l.numTof > 1
    · simp only [ht, if_true]
      have := findIdx_lt_length ((h.tofMem ht _).2 r.tof)
      omega
    · simp only [ht, if_false]; omega
  have h1 := Int.mul_le_mul_of_nonneg_right hlt hT
  have e : (tofIdx l b + 1) * (totalAx l * (l.numViews * l.numTang))
      = tofIdx l b * (totalAx l * (l.numViews * l.numTang)) + totalAx l * (l.numViews * l.numTang) := by ring
  rw [e] at h1
  omega

theorem bin_ext {b1 b2 : Bin} (h1 : b1.seg = b2.seg) (h2 : b1.view = b2.view) (h3 : b1.ax = b2.ax)
    (h4 : b1.tang = b2.tang) (h5 : b1.tof = b2.tof) : b1 = b2 := by
  cases b1; cases b2; simp_all

theorem slot_inj {l : Layout} (h : l.WF) {b1 b2 : Bin} (r1 : InRange l b1) (r2 : InRange l b2)
    (e : slot l b1 = slot l b2) : b1 = b2 := by
  have hVT : 0 ≤ l.numViews * l.numTang := Int.mul_nonneg h.viewsNonneg h.tangNonneg
  have i1 := inner_bounds h r1
  have i2 := inner_bounds h r2
  unfold slot at e
  obtain ⟨etof, einner⟩ := radix_unique i1.1 i1.2 i2.1 i2.2 e
  -- TOF index
  have htof : b1.tof = b2.tof := by
    by_cases ht : l.numTof > 1
    · unfold tofIdx at etof
      simp only [ht, if_true] at etof
      have : findIdx l.tofSeq b1.tof = findIdx l.tofSeq b2.tof := by exact_mod_cast etof
      exact findIdx_inj ((h.tofMem ht _).2 r1.tof) ((h.tofMem ht _).2 r2.tof) this
    · have := h.tofOne ht
      have a := r1.tof; have b := r2.tof
      omega
  -- segment
  have m1 := seg_mem h r1
  have m2 := seg_mem h r2
  have w1 := within_bounds h r1
  have w2 := within_bounds h r2
  have hseg : b1.seg = b2.seg := by
    apply findIdx_inj m1 m2
    rcases Nat.lt_trichotomy (findIdx l.segSeq b1.seg) (findIdx l.segSeq b2.seg) with hlt | heq | hgt
    · exfalso
      have hb := pre_block_le l.numAx l.segSeq h.numAxNonneg hlt (le_of_lt (findIdx_lt_length m2))
      rw [getElem_findIdx m1] at hb
      have hb' : segStart l b1 + l.numAx b1.seg ≤ segStart l b2 := hb
      have h1 := Int.mul_le_mul_of_nonneg_right hb' hVT
      have e1 : (segStart l b1 + l.numAx b1.seg) * (l.numViews * l.numTang)
          = segStart l b1 * (l.numViews * l.numTang) + l.numAx b1.seg * (l.numViews * l.numTang) := by ring
      rw [e1] at h1
      omega
    · exact heq
    · exfalso
      have hb := pre_block_le l.numAx l.segSeq h.numAxNonneg hgt (le_of_lt (findIdx_lt_length m1))
      rw [getElem_findIdx m2] at hb
      have hb' : segStart l b2 + l.numAx b2.seg ≤ segStart l b1 := hb
      have h1 := Int.mul_le_mul_of_nonneg_right hb' hVT
      have e1 : (segStart l b2 + l.numAx b2.seg) * (l.numViews * l.numTang)
          = segStart l b2 * (l.numViews * l.numTang) + l.numAx b2.seg * (l.numViews * l.numTang) := by ring
      rw [e1] at h1
      omega
  -- inside the segment
  have hstart : segStart l b1 = segStart l b2 := by unfold segStart; rw [hseg]
  have ew : within l b1 = within l b2 := by rw [hstart] at einner; omega
  have a1 := r1.ax; have v1 := r1.view; have t1 := r1.tang
  have a2 := r2.ax; have v2 := r2.view; have t2 := r2.tang
  unfold Layout.maxAx at a1 a2; unfold Layout.maxView at v1 v2; unfold Layout.maxTang at t1 t2
  rw [hseg] at a1
  unfold within at ew
  rw [hseg] at ew
  cases ho : l.order
  · -- savt: ax, then view, then tang
    simp only [ho] at ew
    have p1 := radix_bound (x := b1.view - l.minView) (X := l.numViews) (y := b1.tang - l.minTang) (Y := l.numTang)
      (by omega) (by omega) (by omega) (by omega)
    have p2 := radix_bound (x := b2.view - l.minView) (X := l.numViews) (y := b2.tang - l.minTang) (Y := l.numTang)
      (by omega) (by omega) (by omega) (by omega)
    obtain ⟨eax, erest⟩ := radix_unique p1.1 p1.2 p2.1 p2.2 ew
    obtain ⟨eview, etang⟩ := radix_unique (M := l.numTang) (by omega) (by omega) (by omega) (by omega) erest
    exact bin_ext hseg (by omega) (by omega) (by omega) htof
  · -- svat: view, then ax, then tang
    simp only [ho] at ew
    have p1 := radix_bound (x := b1.ax - l.minAx b2.seg) (X := l.numAx b2.seg) (y := b1.tang - l.minTang) (Y := l.numTang)
      (by omega) (by omega) (by omega) (by omega)
    have p2 := radix_bound (x := b2.ax - l.minAx b2.seg) (X := l.numAx b2.seg) (y := b2.tang - l.minTang) (Y := l.numTang)
      (by omega) (by omega) (by omega) (by omega)
    obtain ⟨eview, erest⟩ := radix_unique p1.1 p1.2 p2.1 p2.2 ew
    obtain ⟨eax, etang⟩ := radix_unique (M := l.numTang) (by omega) (by omega) (by omega) (by omega) erest
    exact bin_ext hseg (by omega) (by omega) (by omega) htof

/-- `offsetOf` accepts every in-range bin (whatever the two flags are) -/
theorem offsetOf_ok {l : Layout} {b : Bin} (r : InRange l b) : offsetOf l b = .ok (rawOffset l b) := by
  unfold offsetOf
  have h1 := r.seg; have h2 := r.ax; have h3 := r.tof; have h4 := r.view; have h5 := r.tang
  simp [h1, h2, h3, h4, h5]

theorem rawOffset_inj {l : Layout} (h : l.WF) {b1 b2 : Bin} (r1 : InRange l b1) (r2 : InRange l b2)
    (e : rawOffset l b1 = rawOffset l b2) : b1 = b2 := by
  rw [rawOffset_eq_slot h, rawOffset_eq_slot h] at e
  have hs := h.sizePos
  have : slot l b1 * l.elemSize = slot l b2 * l.elemSize := by omega
  have : slot l b1 = slot l b2 := Int.eq_of_mul_eq_mul_right (by omega) this
  exact slot_inj h r1 r2 this

/-- the in-memory index function is the stream offset function for element size 1, offset 0, order `savt` -/
theorem getIndex_eq_offsetOf (l : Layout) (b : Bin) : getIndex l b = offsetOf l.inMemory b := by
  unfold getIndex offsetOf rawOffset Layout.inMemory Layout.maxAx Layout.maxView Layout.maxTang axBefore
  simp only
  repeat' split
  all_goals first | rfl | (congr 1; ring)

end StirVerif.C02
