/-
C02 — the scale factor of the stream: `round(value / scale)` on the way to the disk, `number * scale` on the way back.
-/
import StirVerif.C02.Model
import Mathlib.Data.Rat.Floor
import Mathlib.Tactic.Linarith
import Mathlib.Tactic.FieldSimp

namespace StirVerif.C02

/-- `stir::round` is the identity on integers -/
theorem stirRound_intCast (n : Int) : stirRound (n : Rat) = n := by
  unfold stirRound
  have hf : ∀ m : Int, ((m : Rat) + 1 / 2).floor = m := by
    intro m
    show ⌊(m : ℚ) + 1 / 2⌋ = m
    rw [Int.floor_eq_iff]
    constructor <;> linarith
  by_cases h : (n : Rat) ≥ 0
  · rw [if_pos h]; exact hf n
  · rw [if_neg h]
    have : (-(n : Rat) + 1 / 2).floor = -n := by
      have := hf (-n)
      rwa [Int.cast_neg] at this
    rw [this]; omega

/-- a multiple `n · scale` of the scale factor is stored as the integer `n` -/
theorem toDisk_multiple (ty : NumType) (hty : ty ≠ .float) (scale : Rat) (hs : scale ≠ 0) (n : Int)
    (hn : ty = .ushort → 0 ≤ (n : Rat) * scale) : toDisk ty scale ((n : Rat) * scale) = (n : Rat) := by
  have hdiv : (n : Rat) * scale / scale = (n : Rat) := by field_simp
  cases ty with
  | float => exact absurd rfl hty
  | ushort =>
    have h0 := hn rfl
    simp only [toDisk, hdiv, stirRound_intCast]
    rw [if_neg (not_lt.mpr h0)]
  | short => simp only [toDisk, hdiv, stirRound_intCast]
  | int => simp only [toDisk, hdiv, stirRound_intCast]

/-- every write path that passes the stream's scale factor to `write_data` gives back what was written, for every
    value that is a multiple of the scale factor -/
theorem writeThenRead_multiple (ty : NumType) (hty : ty ≠ .float) (binScaled : Bool) (k : WriteKind)
    (hk : k ≠ .bin ∨ binScaled = true) (scale : Rat) (hs : scale ≠ 0) (n : Int)
    (hn : ty = .ushort → 0 ≤ (n : Rat) * scale) :
    writeThenRead ty binScaled k scale ((n : Rat) * scale) = (n : Rat) * scale := by
  have hw : writeScale binScaled k scale = scale := by
    unfold writeScale
    rcases hk with hk | hk
    · rw [if_neg (fun h => hk h.1)]
    · rw [if_neg (fun h => by rw [hk] at h; exact absurd h.2 (by decide))]
  unfold writeThenRead fromDisk
  rw [hw, toDisk_multiple ty hty scale hs n hn]

/-- the pinned `set_bin_value` (scale 1 passed to `write_data`): an integer value `m` is stored as `m` and read back as
    `m · scale` -/
theorem writeThenRead_bin_unscaled (ty : NumType) (hty : ty ≠ .float) (scale : Rat) (m : Int)
    (hm : ty = .ushort → 0 ≤ m) : writeThenRead ty false .bin scale (m : Rat) = (m : Rat) * scale := by
  have hw : writeScale false .bin scale = 1 := by simp [writeScale]
  unfold writeThenRead fromDisk
  rw [hw]
  have := toDisk_multiple ty hty 1 one_ne_zero m (by intro h; have := hm h; rw [mul_one]; exact_mod_cast this)
  rw [mul_one] at this
  rw [this]

/-- float stores keep every value (no conversion); the value comes back multiplied by the scale factor, i.e. unchanged
    exactly when the scale factor is 1 -/
theorem writeThenRead_float (binScaled : Bool) (k : WriteKind) (scale v : Rat) :
    writeThenRead .float binScaled k scale v = v * scale := rfl

end StirVerif.C02
