/-
C02 — executable model of the projection-data layout ("one coherent array").

* `offsetOf` transcribes `ProjDataFromStream::get_offset` (src/buildblock/ProjDataFromStream.cxx:414) and,
  with element size 1 / stream offset 0 / storage order `savt`, `ProjDataInMemory::get_index`
  (src/buildblock/ProjDataInMemory.cxx:176; transcribed separately as `getIndex`, equality is a theorem):
  the range checks that exist (segment, axial position, TOF index — **not** view, **not** tangential position;
  the two flags `checkView/checkTang` switch the missing checks on, see harness `cfg` line), the `std::find`
  in `segment_sequence` that yields `size()` for a missing segment, the prefix sum of axial sizes, the TOF
  block stride `offset_3d_data`, and the two storage-order branches.
* `stdOffset3d` transcribes `ProjDataFromStream::activate_TOF` (ProjDataFromStream.cxx:122) /
  the constructor of `ProjDataInMemory` (ProjDataInMemory.cxx:54).
* `addrs…` transcribe the seek + contiguous `write_data`/`read_data` pattern of
  `get/set_bin_value`, `get/set_viewgram` (l.179/309), `get/set_sinogram` (l.501/572),
  `get_segment_by_sinogram/by_view`, `set_segment` (l.660-905, including the
  `SegmentByView <-> SegmentBySinogram` conversion constructors of SegmentByView.cxx:69 / SegmentBySinogram.cxx:76
  when the storage order does not match), `ProjData::set/get_related_viewgrams` (ProjData.cxx:256/295),
  `ProjData::fill(float)` (ProjData.cxx:361), `ProjData::fill_from/copy_to` (ProjData.h:281/314) and
  `ProjData::standard_segment_sequence` (ProjData.cxx:640).  Each returns the stream addresses in the
  element order of the STIR container that is written/read (Viewgram [ax][tang], Sinogram [view][tang],
  SegmentByView [view][ax][tang], SegmentBySinogram [ax][view][tang]).
* `bins…` are the same paths as lists of bins (their *meaning*); `Store`/`Spec` and `writeAddrs`/`writeBins`
  are the two sides of the refinement theorem.

* `toDisk`/`fromDisk`/`writeScale` transcribe the treatment of the stream's `scale_factor`: every `set_*` but
  `set_bin_value` passes `scale_factor` to `write_data` (→ `convert_range`: `round(value / scale)`,
  convert_range.inl:139-185, `stir::round` round.inl:59), `set_bin_value` passes 1 (ProjDataFromStream.cxx:300),
  every `get_*` multiplies by `scale_factor` (l.241, 279, 566, 707, 757).
* `addrsBulk`/`binsBulk` transcribe the iteration of `ProjData::xapyb` (ProjData.cxx:425-470) and `apply_func`
  (ProjData.cxx:557-585: `operator+=,-=,*=,/=`), `bulkResult` the element-wise arithmetic; `addrsFillPd`/`binsFillPd`
  the iteration of `ProjData::fill(const ProjData&)` (ProjData.cxx:375-393); `memLayout`, `copyIntoMemory`
  `ProjDataInMemory(const ProjData&)` (ProjDataInMemory.cxx:332) and `subsetCopy` `ProjData::get_subset`
  (ProjData.cxx:165-188); `padOdd` the `make_num_tangential_poss_odd` branch of `get_viewgram`/`get_sinogram`
  (ProjDataFromStream.cxx:243, 567; ProjDataInMemory.cxx:127, 242); `addrsSegOversized` what
  `set_segment` does with a segment container that has more axial positions than the segment (no size check in the
  pinned source: ProjDataFromStream.cxx:777-838, ProjDataInMemory.cxx:287-309); `setterAccepts` the checks every
  container setter (`set_viewgram`, `set_sinogram`, `set_segment` x2, `set_related_viewgrams`) makes on the index ranges
  of the container it is given (`CRange`) before it writes.

Not modelled: the byte encoding of a value (numeric type, byte order: the harness decodes bytes itself),
`fstream` buffering (only *where* `flush()` is called: `flushes`), Interfile header text, `find_scale_factor`
enlarging the scale for data that does not fit the on-disk type (the `set_*` then fail), float on-disk data with a
scale factor other than 1 (every `set_*` but `set_bin_value` fails).
Core Lean only.  All index quantities are `Int` (32/64-bit overflow not modelled), values are `Rat`.
-/
namespace StirVerif.C02

structure Bin where
  seg : Int
  view : Int
  ax : Int
  tang : Int
  tof : Int
  deriving DecidableEq, Repr, Inhabited

/-- the two supported orders (`Timing_…` variants are the same with the TOF index outermost) -/
inductive Order where
  | savt   -- Segment_AxialPos_View_TangPos
  | svat   -- Segment_View_AxialPos_TangPos
  deriving DecidableEq, Repr

inductive Err where
  | segRange | axRange | tofRange | viewRange | tangRange
  deriving DecidableEq, Repr

structure Layout where
  segSeq : List Int          -- segment_sequence (any list)
  tofSeq : List Int          -- timing_poss_sequence
  minSeg : Int
  maxSeg : Int
  minAx : Int → Int          -- get_min_axial_pos_num(segment)
  numAx : Int → Int          -- get_num_axial_poss(segment)  (max = min + num - 1)
  minView : Int
  numViews : Int
  minTang : Int
  numTang : Int
  minTof : Int
  maxTof : Int
  numTof : Int               -- get_num_tof_poss()
  order : Order
  elemSize : Int             -- on_disk_data_type.size_in_bytes()   (1 for ProjDataInMemory)
  offset : Int               -- offset of the data in the stream    (0 for ProjDataInMemory)
  offset3d : Int             -- offset_3d_data
  checkView : Bool           -- false in the pinned source
  checkTang : Bool           -- false in the pinned source

/-- `std::find(v.begin(), v.end(), a) - v.begin()`: the length of the list when `a` is missing -/
def findIdx : List Int → Int → Nat
  | [], _ => 0
  | x :: xs, a => if x = a then 0 else findIdx xs a + 1

/-- `for (i = 0; i < index; i++) num_axial_pos_offset += get_num_axial_poss(segment_sequence[i])` -/
def axBefore (l : Layout) (idx : Nat) : Int := ((l.segSeq.take idx).map l.numAx).sum

def Layout.maxAx (l : Layout) (seg : Int) : Int := l.minAx seg + l.numAx seg - 1
def Layout.maxView (l : Layout) : Int := l.minView + l.numViews - 1
def Layout.maxTang (l : Layout) : Int := l.minTang + l.numTang - 1

/-- the list `min_segment_num, …, max_segment_num` -/
def Layout.segRange (l : Layout) : List Int :=
  (List.range (l.maxSeg - l.minSeg + 1).toNat).map fun (i : Nat) => l.minSeg + (i : Int)

def Layout.tofRange (l : Layout) : List Int :=
  (List.range (l.maxTof - l.minTof + 1).toNat).map fun (i : Nat) => l.minTof + (i : Int)

/-- `activate_TOF`: `sum over segments of num_axial_poss * num_views * num_tangential_poss`, times the element size -/
def stdOffset3d (l : Layout) : Int :=
  ((l.segRange.map fun s => l.numAx s * l.numViews * l.numTang).sum) * l.elemSize

/-- the arithmetic of `get_offset` after the range checks -/
def rawOffset (l : Layout) (b : Bin) : Int :=
  let index := findIdx l.segSeq b.seg
  let numAxialPosOffset := axBefore l index
  let segmentOffset := l.offset + numAxialPosOffset * l.numTang * l.numViews * l.elemSize
  let segmentOffset :=
    if l.numTof > 1 then segmentOffset + (findIdx l.tofSeq b.tof : Int) * l.offset3d else segmentOffset
  match l.order with
  | .savt =>
    let axPosOffset := (b.ax - l.minAx b.seg) * l.numViews * l.numTang * l.elemSize
    let viewOffset := (b.view - l.minView) * l.numTang * l.elemSize
    let tangOffset := (b.tang - l.minTang) * l.elemSize
    segmentOffset + axPosOffset + viewOffset + tangOffset
  | .svat =>
    let viewOffset := (b.view - l.minView) * l.numAx b.seg * l.numTang * l.elemSize
    let axPosOffset := (b.ax - l.minAx b.seg) * l.numTang * l.elemSize
    let tangOffset := (b.tang - l.minTang) * l.elemSize
    segmentOffset + axPosOffset + viewOffset + tangOffset

/-- `ProjDataFromStream::get_offset` : range checks (in the order of the source), then `rawOffset` -/
def offsetOf (l : Layout) (b : Bin) : Except Err Int :=
  if ¬ (l.minSeg ≤ b.seg ∧ b.seg ≤ l.maxSeg) then .error .segRange
  else if ¬ (l.minAx b.seg ≤ b.ax ∧ b.ax ≤ l.maxAx b.seg) then .error .axRange
  else if ¬ (l.minTof ≤ b.tof ∧ b.tof ≤ l.maxTof) then .error .tofRange
  else if l.checkView = true ∧ ¬ (l.minView ≤ b.view ∧ b.view ≤ l.maxView) then .error .viewRange
  else if l.checkTang = true ∧ ¬ (l.minTang ≤ b.tang ∧ b.tang ≤ l.maxTang) then .error .tangRange
  else .ok (rawOffset l b)

/-- `ProjDataInMemory::get_index`, transcribed on its own (no element size, no stream offset, one order) -/
def getIndex (l : Layout) (b : Bin) : Except Err Int :=
  if ¬ (l.minSeg ≤ b.seg ∧ b.seg ≤ l.maxSeg) then .error .segRange
  else if ¬ (l.minAx b.seg ≤ b.ax ∧ b.ax ≤ l.maxAx b.seg) then .error .axRange
  else if ¬ (l.minTof ≤ b.tof ∧ b.tof ≤ l.maxTof) then .error .tofRange
  else if l.checkView = true ∧ ¬ (l.minView ≤ b.view ∧ b.view ≤ l.maxView) then .error .viewRange
  else if l.checkTang = true ∧ ¬ (l.minTang ≤ b.tang ∧ b.tang ≤ l.maxTang) then .error .tangRange
  else
    let index := findIdx l.segSeq b.seg
    let numAxialPosOffset := axBefore l index
    let segmentOffset := numAxialPosOffset * l.numTang * l.numViews
    let segmentOffset :=
      if l.numTof > 1 then segmentOffset + (findIdx l.tofSeq b.tof : Int) * l.offset3d else segmentOffset
    let axPosOffset := (b.ax - l.minAx b.seg) * l.numViews * l.numTang
    let viewOffset := (b.view - l.minView) * l.numTang
    let tangOffset := b.tang - l.minTang
    .ok (segmentOffset + axPosOffset + viewOffset + tangOffset)

/-- the layout `ProjDataInMemory` uses, as a `Layout` -/
def Layout.inMemory (l : Layout) : Layout := { l with order := .savt, elemSize := 1, offset := 0 }

/-- `ProjData::standard_segment_sequence`: 0, 1, -1, 2, -2, … restricted to valid segment numbers
    (`fuel` bounds the `while` loop: `max(|min|,|max|)` steps suffice) -/
def standardSegmentSequence (minSeg maxSeg : Int) : List Int :=
  if maxSeg < minSeg then []
  else
    let n := (max minSeg.natAbs maxSeg.natAbs)
    [0] ++ (List.range n).flatMap fun (k : Nat) =>
      let s : Int := (k : Int) + 1
      (if s ≤ maxSeg then [s] else []) ++ (if -s ≥ minSeg then [-s] else [])

/-! ### sizes -/

def Layout.V (l : Layout) : Nat := l.numViews.toNat
def Layout.T (l : Layout) : Nat := l.numTang.toNat
def Layout.A (l : Layout) (seg : Int) : Nat := (l.numAx seg).toNat

/-- `ProjDataInfo::size_all()` -/
def sizeAll (l : Layout) : Int :=
  (l.segRange.map fun s => l.numAx s * l.numViews * l.numTang).sum * (l.maxTof - l.minTof + 1)

/-! ### access paths as lists of bins (container element order) -/

def rowBins (l : Layout) (seg view ax tof : Int) : List Bin :=
  (List.range l.T).map fun (k : Nat) => ⟨seg, view, ax, l.minTang + (k : Int), tof⟩

def binsViewgram (l : Layout) (seg view tof : Int) : List Bin :=
  (List.range (l.A seg)).flatMap fun (i : Nat) => rowBins l seg view (l.minAx seg + (i : Int)) tof

def binsSinogram (l : Layout) (seg ax tof : Int) : List Bin :=
  (List.range l.V).flatMap fun (j : Nat) => rowBins l seg (l.minView + (j : Int)) ax tof

def binsSegBySino (l : Layout) (seg tof : Int) : List Bin :=
  (List.range (l.A seg)).flatMap fun (i : Nat) => binsSinogram l seg (l.minAx seg + (i : Int)) tof

def binsSegByView (l : Layout) (seg tof : Int) : List Bin :=
  (List.range l.V).flatMap fun (j : Nat) => binsViewgram l seg (l.minView + (j : Int)) tof

/-- related viewgrams: the (view, segment) pairs come from the symmetries object (C06) -/
def binsRelated (l : Layout) (pairs : List (Int × Int)) (tof : Int) : List Bin :=
  pairs.flatMap fun p => binsViewgram l p.2 p.1 tof

/-- `ProjData::fill(float)`: TOF outermost, segments in increasing order, `SegmentByView` -/
def binsFill (l : Layout) : List Bin :=
  l.tofRange.flatMap fun k => l.segRange.flatMap fun s => binsSegByView l s k

/-- `ProjData::fill_from` / `copy_to`: TOF outermost, standard segment sequence, `SegmentBySinogram` -/
def binsAll (l : Layout) : List Bin :=
  l.tofRange.flatMap fun k => (standardSegmentSequence l.minSeg l.maxSeg).flatMap fun s => binsSegBySino l s k

/-! ### access paths as the code performs them: seek to `get_offset(first bin)`, then a contiguous run -/

/-- `n` consecutive elements starting at stream address `base` -/
def block (base size : Int) (n : Nat) : List Int := (List.range n).map fun (k : Nat) => base + (k : Int) * size

/-- `get_bin_value` / `set_bin_value` -/
def addrsBin (l : Layout) (b : Bin) : Except Err (List Int) := do
  let o ← offsetOf l b
  pure [o]

/-- one tangential row starting at the given bin -/
def addrsRow (l : Layout) (seg view ax tof : Int) : Except Err (List Int) := do
  let o ← offsetOf l ⟨seg, view, ax, l.minTang, tof⟩
  pure (block o l.elemSize l.T)

/-- `get_viewgram` / `set_viewgram`: row by row (savt), in one go (svat) -/
def addrsViewgram (l : Layout) (seg view tof : Int) : Except Err (List Int) :=
  match l.order with
  | .savt => do
    let rows ← (List.range (l.A seg)).mapM fun (i : Nat) => addrsRow l seg view (l.minAx seg + (i : Int)) tof
    pure rows.flatten
  | .svat => do
    let o ← offsetOf l ⟨seg, view, l.minAx seg, l.minTang, tof⟩
    pure (block o l.elemSize (l.A seg * l.T))

/-- `get_sinogram` / `set_sinogram`: in one go (savt), row by row (svat) -/
def addrsSinogram (l : Layout) (seg ax tof : Int) : Except Err (List Int) :=
  match l.order with
  | .savt => do
    let o ← offsetOf l ⟨seg, l.minView, ax, l.minTang, tof⟩
    pure (block o l.elemSize (l.V * l.T))
  | .svat => do
    let rows ← (List.range l.V).mapM fun (j : Nat) => addrsRow l seg (l.minView + (j : Int)) ax tof
    pure rows.flatten

/-- `set_segment(SegmentBySinogram)` / `get_segment_by_sinogram`, addresses in [ax][view][tang] order.
    savt: one contiguous run.  svat: converted to a `SegmentByView` (element (a,v,t) ↦ (v,a,t)), which is
    written as one contiguous run in [view][ax][tang] order. -/
def addrsSegBySino (l : Layout) (seg tof : Int) : Except Err (List Int) := do
  let o ← offsetOf l ⟨seg, l.minView, l.minAx seg, l.minTang, tof⟩
  match l.order with
  | .savt => pure (block o l.elemSize (l.A seg * (l.V * l.T)))
  | .svat =>
    pure ((List.range (l.A seg)).flatMap fun (i : Nat) => (List.range l.V).flatMap fun (j : Nat) => (List.range l.T).map fun (k : Nat) =>
      o + ((((j * l.A seg + i) * l.T + k : Nat) : Int)) * l.elemSize)

/-- `set_segment(SegmentByView)` / `get_segment_by_view`, addresses in [view][ax][tang] order -/
def addrsSegByView (l : Layout) (seg tof : Int) : Except Err (List Int) := do
  let o ← offsetOf l ⟨seg, l.minView, l.minAx seg, l.minTang, tof⟩
  match l.order with
  | .svat => pure (block o l.elemSize (l.V * (l.A seg * l.T)))
  | .savt =>
    pure ((List.range l.V).flatMap fun (j : Nat) => (List.range (l.A seg)).flatMap fun (i : Nat) => (List.range l.T).map fun (k : Nat) =>
      o + ((((i * l.V + j) * l.T + k : Nat) : Int)) * l.elemSize)

/-- `set_related_viewgrams` / `get_related_viewgrams`: one `set/get_viewgram` per related pair -/
def addrsRelated (l : Layout) (pairs : List (Int × Int)) (tof : Int) : Except Err (List Int) := do
  let vs ← pairs.mapM fun p => addrsViewgram l p.2 p.1 tof
  pure vs.flatten

/-- `ProjData::fill(float)` -/
def addrsFill (l : Layout) : Except Err (List Int) := do
  let xs ← l.tofRange.mapM fun k => do
    let ys ← l.segRange.mapM fun s => addrsSegByView l s k
    pure ys.flatten
  pure xs.flatten

/-- `ProjData::fill_from` / `copy_to` -/
def addrsAll (l : Layout) : Except Err (List Int) := do
  let xs ← l.tofRange.mapM fun k => do
    let ys ← (standardSegmentSequence l.minSeg l.maxSeg).mapM fun s => addrsSegBySino l s k
    pure ys.flatten
  pure xs.flatten

/-- which `set_*` end with `sino_stream->flush()` in the source: all but `set_bin_value` -/
inductive WriteKind where
  | bin | viewgram | sinogram | segment | related | fill
  deriving DecidableEq, Repr

def flushes : WriteKind → Bool
  | .bin => false
  | _ => true

/-! ### values: on-disk number type and scale factor -/

inductive NumType where
  | float | short | ushort | int
  deriving DecidableEq, Repr

/-- `stir::round(float)` (round.inl:59): half away from zero -/
def stirRound (x : Rat) : Int := if x ≥ 0 then (x + 1/2).floor else -((-x + 1/2).floor)

/-- `write_data` with the given scale: same type (float → float) is copied (write_data.inl:125-131),
    otherwise `convert_range`: negatives are truncated to 0 for unsigned types, else `round(value / scale)` -/
def toDisk (ty : NumType) (scale : Rat) (v : Rat) : Rat :=
  match ty with
  | .float => v
  | .ushort => if v < 0 then 0 else (stirRound (v / scale) : Rat)
  | _ => (stirRound (v / scale) : Rat)

/-- `… *= scale_factor` at the end of every `get_*` -/
def fromDisk (scale : Rat) (d : Rat) : Rat := d * scale

/-- the scale a write passes to `write_data`: `scale_factor`, except `set_bin_value` (`float scale = float(1)`);
    `binScaled` is what the harness probes (true once `set_bin_value` uses the scale factor too) -/
def writeScale (binScaled : Bool) (k : WriteKind) (scale : Rat) : Rat :=
  if k = .bin ∧ binScaled = false then 1 else scale

/-- what a reader gets back for a value written through a path of kind `k` -/
def writeThenRead (ty : NumType) (binScaled : Bool) (k : WriteKind) (scale : Rat) (v : Rat) : Rat :=
  fromDisk scale (toDisk ty (writeScale binScaled k scale) v)

/-! ### bulk paths -/

/-- `ProjData::xapyb`, `apply_func` (`operator+=` …), `sum`, …: TOF outermost, segments in increasing order,
    one `SegmentBySinogram` each (`get_segment_by_sinogram` … `set_segment`) -/
def binsBulk (l : Layout) : List Bin :=
  l.tofRange.flatMap fun k => l.segRange.flatMap fun s => binsSegBySino l s k

def addrsBulk (l : Layout) : Except Err (List Int) := do
  let xs ← l.tofRange.mapM fun k => do
    let ys ← l.segRange.mapM fun s => addrsSegBySino l s k
    pure ys.flatten
  pure xs.flatten

/-- `ProjData::fill(const ProjData&)`: segments in increasing order, TOF inside, `SegmentByView` -/
def binsFillPd (l : Layout) : List Bin :=
  l.segRange.flatMap fun s => l.tofRange.flatMap fun k => binsSegByView l s k

def addrsFillPd (l : Layout) : Except Err (List Int) := do
  let xs ← l.segRange.mapM fun s => do
    let ys ← l.tofRange.mapM fun k => addrsSegByView l s k
    pure ys.flatten
  pure xs.flatten

/-- element-wise arithmetic of the bulk operations (`Array::xapyb`, `operator+=` … on segments / on the buffer) -/
inductive BulkKind where
  | sapyb | xapyb | sapybv | xapybv | add | sub | mul | div | addf | subf | mulf | divf
  deriving DecidableEq, Repr

/-- new value of one element: `o` old value, `x y` operands, `a b` scalars, `A B` element-wise coefficients -/
def bulkResult (k : BulkKind) (o x y a b A B : Rat) : Rat :=
  match k with
  | .sapyb => a * o + b * y
  | .xapyb => a * x + b * y
  | .sapybv => A * o + B * y
  | .xapybv => A * x + B * y
  | .add => o + y
  | .sub => o - y
  | .mul => o * y
  | .div => o / y
  | .addf => o + a
  | .subf => o - a
  | .mulf => o * a
  | .divf => o / a

/-- the layout of the `ProjDataInMemory` created for the same geometry (constructor, ProjDataInMemory.cxx:54):
    standard segment sequence, natural TOF order, `offset_3d_data` = one data set -/
def memLayout (l : Layout) : Layout :=
  let m : Layout := { l with order := .savt, elemSize := 1, offset := 0,
                             segSeq := standardSegmentSequence l.minSeg l.maxSeg, tofSeq := l.tofRange, offset3d := 0 }
  { m with offset3d := stdOffset3d m }

/-- `ProjDataInMemory(const ProjData&)` → `ProjData::fill(const ProjData&)` on the new object: for every
    (segment, TOF) the source addresses read (`get_segment_by_view`) paired with the buffer indices written -/
def copyIntoMemory (l : Layout) : Except Err (List (Int × Int)) := do
  let src ← addrsFillPd l
  let dst ← addrsFillPd (memLayout l)
  pure (src.zip dst)

/-- geometry of the subset: `ProjDataInfoSubsetByView` keeps everything but the views (`views.size()` of them, numbered from 0) -/
def subsetLayout (l : Layout) (n : Nat) : Layout :=
  memLayout { l with minView := 0, numViews := (n : Int) }

/-- `ProjData::get_subset`: for TOF, segment, subset view `j`: `get_viewgram(views[j])` → `set_viewgram` of view `j`
    of the new `ProjDataInMemory`: (source address, buffer index) pairs -/
def subsetCopy (l : Layout) (views : List Int) : Except Err (List (Int × Int)) := do
  let sl := subsetLayout l views.length
  let xs ← l.tofRange.mapM fun k => do
    let ys ← l.segRange.mapM fun s => do
      let zs ← ((List.range views.length).zip views).mapM fun (jv : Nat × Int) => do
        let src ← addrsViewgram l s jv.2 k
        let dst ← addrsViewgram sl s (jv.1 : Int) k
        pure (src.zip dst)
      pure zs.flatten
    pure ys.flatten
  pure xs.flatten

/-- `make_num_tangential_poss_odd`: with an even number of tangential positions every row grows by one zero element -/
def padOdd (l : Layout) (vals : List Rat) : List Rat :=
  if l.numTang % 2 = 0 ∧ l.T > 0 then
    (List.range (vals.length / l.T)).flatMap fun (r : Nat) => ((vals.drop (r * l.T)).take l.T) ++ [0]
  else vals

/-- a viewgram obtained with `make_num_tangential_poss_odd` has another `ProjDataInfo` / number of tangential
    positions when that number is even: `set_viewgram` returns `Succeeded::no` -/
def oddViewgramAccepted (l : Layout) : Bool := l.numTang % 2 ≠ 0

/-- `set_segment` with a container holding `extra` axial positions more than the segment: the whole container is
    written as one contiguous run from the start of the segment (after the conversion to the matching container
    type when needed) — unless the size is checked (`checked`, probed by the harness; false in the pinned source) -/
def addrsSegOversized (l : Layout) (checked : Bool) (seg tof : Int) (extra : Nat) : Except Err (List Int) := do
  let o ← offsetOf l ⟨seg, l.minView, l.minAx seg, l.minTang, tof⟩
  if checked then .error .axRange
  else pure (block o l.elemSize ((l.A seg + extra) * (l.V * l.T)))

/-! ### acceptance checks of the container setters (containers whose own index ranges differ from the data's) -/

/-- the index ranges of a container handed to a setter, as its own `ProjDataInfo` describes them: axial range of the
    container's segment, number of views (`min_view_num` is 0 for every `ProjDataInfo`), tangential range -/
structure CRange where
  minAx : Int
  maxAx : Int
  numViews : Int
  minTang : Int
  maxTang : Int
  deriving DecidableEq, Repr

inductive Setter where
  | viewgram | sinogram | segBySino | segByView | related
  deriving DecidableEq, Repr

def CRange.numAx (c : CRange) : Int := c.maxAx - c.minAx + 1
def CRange.numTang (c : CRange) : Int := c.maxTang - c.minTang + 1

/-- `ProjDataInfo::operator==` → `blindly_equals` (ProjDataInfo.cxx:716-731) between the data's `ProjDataInfo` and a clone of
    it whose ranges were edited for segment `seg` (segment, TOF, scanner, bed position are those of the clone's origin):
    min/max view, min/max tangential position, min/max axial position per segment -/
def infoEquals (l : Layout) (seg : Int) (c : CRange) : Bool :=
  c.numViews == l.numViews && c.minTang == l.minTang && c.maxTang == l.maxTang
    && c.minAx == l.minAx seg && c.maxAx == l.maxAx seg

/-- the checks each container setter performs before it writes (everything else it does is `addrs…` above):
    * `set_viewgram` (ProjDataFromStream.cxx:333-355): number of tangential positions, number of axial positions of the
      viewgram's segment, then `ProjDataInfo !=`; `ProjDataInMemory::set_viewgram` (ProjDataInMemory.cxx:150): `ProjDataInfo !=`;
    * `set_sinogram` (ProjDataFromStream.cxx:601, ProjDataInMemory.cxx:253): `ProjDataInfo !=`;
    * `ProjData::set_related_viewgrams` (ProjData.cxx:295): `set_viewgram` of each member, stops at the first refusal
      (all members share one `ProjDataInfo`, so the first one decides);
    * `set_segment`, both overloads, `ProjDataFromStream` and `ProjDataInMemory` (ProjDataFromStream.cxx:778-803, 864-889,
      ProjDataInMemory.cxx:295-317): NUMBER of tangential positions, NUMBER of views, segment number in range, min AND max
      axial position.  The minimum tangential position is not compared: `tangChecked` (probed by the harness) is false
      in the pinned source. -/
def setterAccepts (l : Layout) (tangChecked : Bool) (s : Setter) (seg : Int) (c : CRange) : Bool :=
  match s with
  | .viewgram | .related =>
    c.numTang == l.numTang && c.numAx == l.numAx seg && infoEquals l seg c
  | .sinogram => infoEquals l seg c
  | .segBySino | .segByView =>
    c.numTang == l.numTang && c.numViews == l.numViews && decide (l.minSeg ≤ seg ∧ seg ≤ l.maxSeg)
      && c.minAx == l.minAx seg && c.maxAx == l.maxAx seg && (!tangChecked || c.minTang == l.minTang)

/-- the data's own ranges for segment `seg` -/
def Layout.crange (l : Layout) (seg : Int) : CRange :=
  { minAx := l.minAx seg, maxAx := l.maxAx seg, numViews := l.numViews, minTang := l.minTang, maxTang := l.maxTang }

/-! ### the two sides of the refinement -/

/-- the stream: address ↦ element -/
abbrev Store (α : Type) := Int → α
/-- the abstract array: bin ↦ element -/
abbrev Spec (α : Type) := Bin → α

def Store.write {α : Type} (σ : Store α) (a : Int) (v : α) : Store α := fun x => if x = a then v else σ x
def Spec.write {α : Type} (m : Spec α) (b : Bin) (v : α) : Spec α := fun x => if x = b then v else m x

/-- writing a list of (address, value) pairs in order -/
def writeAddrs {α : Type} (σ : Store α) : List (Int × α) → Store α
  | [] => σ
  | (a, v) :: rest => writeAddrs (σ.write a v) rest

def writeBins {α : Type} (m : Spec α) : List (Bin × α) → Spec α
  | [] => m
  | (b, v) :: rest => writeBins (m.write b v) rest

end StirVerif.C02
