/-
C02 — `standard_segment_sequence`, the bulk paths `fill_from`/`copy_to`, and `offset_3d_data`.
-/
import StirVerif.C02.ProofsPaths
import Mathlib.Algebra.BigOperators.Group.List.Basic
import Mathlib.Data.List.Nodup

namespace StirVerif.C02

/-- `ProjData::standard_segment_sequence` lists exactly the valid segment numbers (when 0 is one of them) -/
theorem mem_standardSegmentSequence (minSeg maxSeg s : Int) (h0 : minSeg ≤ 0) (h1 : 0 ≤ maxSeg) :
    s ∈ standardSegmentSequence minSeg maxSeg ↔ (minSeg ≤ s ∧ s ≤ maxSeg) := by
  unfold standardSegmentSequence
  have : ¬ maxSeg < minSeg := by omega
  simp only [this, if_false, List.mem_append, List.mem_singleton, List.mem_flatMap, List.mem_range]
  constructor
  · rintro (rfl | ⟨k, hk, hs⟩)
    · omega
    · rcases hs with hs | hs
      · split at hs
        · simp at hs; omega
        · simp at hs
      · split at hs
        · simp at hs; omega
        · simp at hs
  · intro hs
    by_cases hz : s = 0
    · left; exact hz
    · right
      by_cases hp : 0 < s
      · refine ⟨(s - 1).toNat, by omega, Or.inl ?_⟩
        simp; omega
      · refine ⟨(-s - 1).toNat, by omega, Or.inr ?_⟩
        simp; omega

theorem all_addrs {l : Layout} (p : l.Pos) (h0 : l.minSeg ≤ 0) (h1 : 0 ≤ l.maxSeg) :
    addrsAll l = .ok ((binsAll l).map (rawOffset l)) := by
  unfold addrsAll binsAll
  rw [mapM_ok _ (fun (k : Int) =>
    ((standardSegmentSequence l.minSeg l.maxSeg).flatMap fun s => binsSegBySino l s k).map (rawOffset l))]
  · rw [ok_bind, flatten_map_map]; rfl
  · intro k hk
    rw [mapM_ok _ (fun (s : Int) => (binsSegBySino l s k).map (rawOffset l))]
    · rw [ok_bind, flatten_map_map]; rfl
    · intro s hs
      exact segBySino_addrs p ((mem_standardSegmentSequence _ _ s h0 h1).1 hs) (mem_tofRange hk)

theorem binsAll_inRange {l : Layout} (p : l.Pos) (h0 : l.minSeg ≤ 0) (h1 : 0 ≤ l.maxSeg) :
    ∀ b ∈ binsAll l, InRange l b := by
  intro b hb
  unfold binsAll at hb
  obtain ⟨k, hk, hb⟩ := List.mem_flatMap.mp hb
  obtain ⟨s, hs, hb⟩ := List.mem_flatMap.mp hb
  exact binsSegBySino_inRange p ((mem_standardSegmentSequence _ _ s h0 h1).1 hs) (mem_tofRange hk) b hb

/-! ### the bulk paths: `ProjData::xapyb` / `apply_func` (`operator+=` …) and `ProjData::fill(const ProjData&)` -/

theorem bulk_addrs {l : Layout} (p : l.Pos) : addrsBulk l = .ok ((binsBulk l).map (rawOffset l)) := by
  unfold addrsBulk binsBulk
  rw [mapM_ok _ (fun (k : Int) => (l.segRange.flatMap fun s => binsSegBySino l s k).map (rawOffset l))]
  · rw [ok_bind, flatten_map_map]; rfl
  · intro k hk
    rw [mapM_ok _ (fun (s : Int) => (binsSegBySino l s k).map (rawOffset l))]
    · rw [ok_bind, flatten_map_map]; rfl
    · intro s hs
      exact segBySino_addrs p (mem_segRange hs) (mem_tofRange hk)

theorem binsBulk_inRange {l : Layout} (p : l.Pos) : ∀ b ∈ binsBulk l, InRange l b := by
  intro b hb
  unfold binsBulk at hb
  obtain ⟨k, hk, hb⟩ := List.mem_flatMap.mp hb
  obtain ⟨s, hs, hb⟩ := List.mem_flatMap.mp hb
  exact binsSegBySino_inRange p (mem_segRange hs) (mem_tofRange hk) b hb

theorem fillPd_addrs {l : Layout} (p : l.Pos) : addrsFillPd l = .ok ((binsFillPd l).map (rawOffset l)) := by
  unfold addrsFillPd binsFillPd
  rw [mapM_ok _ (fun (s : Int) => (l.tofRange.flatMap fun k => binsSegByView l s k).map (rawOffset l))]
  · rw [ok_bind, flatten_map_map]; rfl
  · intro s hs
    rw [mapM_ok _ (fun (k : Int) => (binsSegByView l s k).map (rawOffset l))]
    · rw [ok_bind, flatten_map_map]; rfl
    · intro k hk
      exact segByView_addrs p (mem_segRange hs) (mem_tofRange hk)

theorem binsFillPd_inRange {l : Layout} (p : l.Pos) : ∀ b ∈ binsFillPd l, InRange l b := by
  intro b hb
  unfold binsFillPd at hb
  obtain ⟨s, hs, hb⟩ := List.mem_flatMap.mp hb
  obtain ⟨k, hk, hb⟩ := List.mem_flatMap.mp hb
  exact binsSegByView_inRange p (mem_segRange hs) (mem_tofRange hk) b hb

/-! ### `offset_3d_data` as computed by `activate_TOF` -/

theorem segRange_nodup (l : Layout) : l.segRange.Nodup := by
  unfold Layout.segRange
  apply List.Nodup.map _ List.nodup_range
  intro a b h
  simp only at h
  omega

theorem mem_segRange_iff (l : Layout) (s : Int) : s ∈ l.segRange ↔ (l.minSeg ≤ s ∧ s ≤ l.maxSeg) := by
  constructor
  · exact fun h => mem_segRange h
  · intro h
    unfold Layout.segRange
    refine List.mem_map.mpr ⟨(s - l.minSeg).toNat, List.mem_range.mpr (by omega), by omega⟩

theorem sum_map_mul (xs : List Int) (f : Int → Int) (c d : Int) :
    (xs.map fun s => f s * c * d).sum = (xs.map f).sum * (c * d) := by
  induction xs with
  | nil => simp
  | cons x t ih => simp only [List.map_cons, List.sum_cons, ih]; ring

/-- if the segment sequence is a permutation of the segment range, `activate_TOF` computes the size of one
    complete non-TOF data set -/
theorem stdOffset3d_eq {l : Layout} (hn : l.segSeq.Nodup) (hm : ∀ s, s ∈ l.segSeq ↔ (l.minSeg ≤ s ∧ s ≤ l.maxSeg)) :
    stdOffset3d l = totalAx l * (l.numViews * l.numTang) * l.elemSize := by
  unfold stdOffset3d totalAx
  rw [sum_map_mul]
  have hp : l.segSeq.Perm l.segRange :=
    (List.perm_ext_iff_of_nodup hn (segRange_nodup l)).2 (fun a => by rw [hm, mem_segRange_iff])
  rw [(hp.map l.numAx).sum_eq]

end StirVerif.C02
