/-
C02 — helper lemmas: mixed-radix arithmetic, `findIdx`, prefix sums of the axial sizes.
-/
import StirVerif.C02.Model
import Mathlib.Tactic.Ring
import Mathlib.Tactic.Linarith

namespace StirVerif.C02

/-! ### mixed radix -/

theorem radix_bound {x X y Y : Int} (hx : 0 ≤ x) (hxX : x < X) (hy : 0 ≤ y) (hyY : y < Y) :
    0 ≤ x * Y + y ∧ x * Y + y < X * Y := by
  have hY : 0 ≤ Y := by omega
  constructor
  · have := Int.mul_nonneg hx hY
    omega
  · have h1 : (x + 1) * Y ≤ X * Y := Int.mul_le_mul_of_nonneg_right (by omega) hY
    have e : (x + 1) * Y = x * Y + Y := by ring
    rw [e] at h1
    omega

theorem radix_unique {M a a' r r' : Int} (hr : 0 ≤ r) (hrM : r < M) (hr' : 0 ≤ r') (hr'M : r' < M)
    (h : a * M + r = a' * M + r') : a = a' ∧ r = r' := by
  have hM : 0 ≤ M := by omega
  have haa : a = a' := by
    rcases lt_trichotomy a a' with hlt | heq | hgt
    · exfalso
      have h1 : (a + 1) * M ≤ a' * M := Int.mul_le_mul_of_nonneg_right (by omega) hM
      have e : (a + 1) * M = a * M + M := by ring
      rw [e] at h1
      omega
    · exact heq
    · exfalso
      have h1 : (a' + 1) * M ≤ a * M := Int.mul_le_mul_of_nonneg_right (by omega) hM
      have e : (a' + 1) * M = a' * M + M := by ring
      rw [e] at h1
      omega
  subst haa
  exact ⟨rfl, by omega⟩

/-! ### `findIdx` (`std::find`) -/

theorem findIdx_le_length (xs : List Int) (a : Int) : findIdx xs a ≤ xs.length := by
  induction xs with
  | nil => simp [findIdx]
  | cons x t ih =>
    simp only [findIdx, List.length_cons]
    split <;> omega

theorem findIdx_lt_length {xs : List Int} {a : Int} (h : a ∈ xs) : findIdx xs a < xs.length := by
  induction xs with
  | nil => simp at h
  | cons x t ih =>
    simp only [findIdx, List.length_cons]
    by_cases hx : x = a
    · simp [hx]
    · simp only [hx, if_false]
      have : a ∈ t := by
        rcases List.mem_cons.mp h with h1 | h1
        · exact absurd h1.symm hx
        · exact h1
      have := ih this
      omega

/-- a missing segment gives `size()` -/
theorem findIdx_eq_length {xs : List Int} {a : Int} (h : a ∉ xs) : findIdx xs a = xs.length := by
  induction xs with
  | nil => simp [findIdx]
  | cons x t ih =>
    simp only [List.mem_cons, not_or] at h
    have hx : ¬ x = a := fun e => h.1 e.symm
    simp [findIdx, hx, ih h.2]

theorem getElem_findIdx {xs : List Int} {a : Int} (h : a ∈ xs) :
    xs[findIdx xs a]'(findIdx_lt_length h) = a := by
  induction xs with
  | nil => simp at h
  | cons x t ih =>
    by_cases hx : x = a
    · simp [findIdx, hx]
    · have hm : a ∈ t := by
        rcases List.mem_cons.mp h with h1 | h1
        · exact absurd h1.symm hx
        · exact h1
      simp only [findIdx, hx, if_false, List.getElem_cons_succ]
      exact ih hm

theorem findIdx_inj {xs : List Int} {a b : Int} (ha : a ∈ xs) (hb : b ∈ xs)
    (h : findIdx xs a = findIdx xs b) : a = b := by
  have h1 := getElem_findIdx ha
  have h2 := getElem_findIdx hb
  simp only [h] at h1
  exact h1.symm.trans h2

/-! ### prefix sums -/

/-- sum of `f` over the first `n` entries -/
def pre (f : Int → Int) (xs : List Int) (n : Nat) : Int := ((xs.take n).map f).sum

theorem pre_zero (f : Int → Int) (xs : List Int) : pre f xs 0 = 0 := by simp [pre]

theorem pre_succ (f : Int → Int) (xs : List Int) (n : Nat) (h : n < xs.length) :
    pre f xs (n + 1) = pre f xs n + f (xs[n]) := by
  induction xs generalizing n with
  | nil => simp at h
  | cons x t ih =>
    cases n with
    | zero => simp [pre]
    | succ m =>
      have hm : m < t.length := by simpa using h
      have := ih m hm
      simp only [pre, List.take_succ_cons, List.map_cons, List.sum_cons, List.getElem_cons_succ] at this ⊢
      rw [this]; ring

theorem pre_length (f : Int → Int) (xs : List Int) : pre f xs xs.length = (xs.map f).sum := by
  simp [pre]

theorem pre_mono (f : Int → Int) (xs : List Int) (hf : ∀ x ∈ xs, 0 ≤ f x) {m n : Nat} (hmn : m ≤ n)
    (hn : n ≤ xs.length) : pre f xs m ≤ pre f xs n := by
  induction n with
  | zero =>
    have : m = 0 := by omega
    subst this; exact le_refl _
  | succ k ih =>
    rcases Nat.lt_or_ge m (k + 1) with hlt | hge
    · have hk : k < xs.length := by omega
      have h1 := ih (by omega) (by omega)
      rw [pre_succ f xs k hk]
      have := hf (xs[k]) (List.getElem_mem hk)
      omega
    · have : m = k + 1 := by omega
      subst this; exact le_refl _

/-- segment blocks do not overlap: the block of entry `i` ends where a later block starts, at the latest -/
theorem pre_block_le (f : Int → Int) (xs : List Int) (hf : ∀ x ∈ xs, 0 ≤ f x) {i j : Nat} (hij : i < j)
    (hj : j ≤ xs.length) : pre f xs i + f (xs[i]'(by omega)) ≤ pre f xs j := by
  have hi : i < xs.length := by omega
  rw [← pre_succ f xs i hi]
  exact pre_mono f xs hf (by omega) hj

theorem axBefore_eq_pre (l : Layout) (n : Nat) : axBefore l n = pre l.numAx l.segSeq n := rfl

end StirVerif.C02
