/-
C02 — refinement: the stream, written through the offsets the code computes, behaves as the abstract
array indexed by (segment, view, axial position, tangential position, TOF bin).
-/
import StirVerif.C02.ProofsMore

namespace StirVerif.C02

/-- the store holds, at the address of every in-range bin, what the abstract array holds for that bin -/
def Refines {α : Type} (l : Layout) (σ : Store α) (m : Spec α) : Prop :=
  ∀ b, InRange l b → σ (rawOffset l b) = m b

/-- one write -/
theorem refines_write {α : Type} {l : Layout} (h : l.WF) {σ : Store α} {m : Spec α} (r : Refines l σ m)
    {b : Bin} (hb : InRange l b) (v : α) : Refines l (σ.write (rawOffset l b) v) (m.write b v) := by
  intro c hc
  unfold Store.write Spec.write
  by_cases e : c = b
  · subst e; simp
  · have : rawOffset l c ≠ rawOffset l b := fun eo => e (rawOffset_inj h hc hb eo)
    simp [this, e, r c hc]

/-- any list of writes (induction over the list, via injectivity of the offsets) -/
theorem refines_writes {α : Type} {l : Layout} (h : l.WF) (ws : List (Bin × α)) :
    ∀ {σ : Store α} {m : Spec α}, Refines l σ m → (∀ w ∈ ws, InRange l w.1) →
      Refines l (writeAddrs σ (ws.map fun w => (rawOffset l w.1, w.2))) (writeBins m ws) := by
  induction ws with
  | nil => intro σ m r _; exact r
  | cons w t ih =>
    intro σ m r hw
    obtain ⟨b, v⟩ := w
    simp only [List.map_cons, writeAddrs, writeBins]
    exact ih (refines_write h r (hw (b, v) List.mem_cons_self) v) (fun x hx => hw x (List.mem_cons_of_mem _ hx))

/-- value of the last write to `b` in a write list -/
def lastWrite {α : Type} : List (Bin × α) → Bin → Option α
  | [], _ => none
  | (c, v) :: rest, b => match lastWrite rest b with
    | some x => some x
    | none => if c = b then some v else none

/-- the abstract array after a list of writes: the last value written to a bin, otherwise the old value -/
theorem writeBins_apply {α : Type} (ws : List (Bin × α)) : ∀ (m : Spec α) (b : Bin),
    writeBins m ws b = (lastWrite ws b).getD (m b) := by
  induction ws with
  | nil => intro m b; rfl
  | cons w t ih =>
    intro m b
    obtain ⟨c, v⟩ := w
    simp only [writeBins, lastWrite]
    rw [ih]
    cases hl : lastWrite t b with
    | some x => simp
    | none =>
      simp only [Option.getD_none, Spec.write]
      by_cases e : b = c
      · subst e; simp
      · have e' : ¬ c = b := fun x => e x.symm
        simp [e, e']

theorem lastWrite_none_of_not_mem {α : Type} (ws : List (Bin × α)) (b : Bin) (h : ∀ w ∈ ws, w.1 ≠ b) :
    lastWrite ws b = none := by
  induction ws with
  | nil => rfl
  | cons w t ih =>
    obtain ⟨c, v⟩ := w
    simp only [lastWrite]
    rw [ih (fun x hx => h x (List.mem_cons_of_mem _ hx))]
    have : ¬ c = b := h (c, v) List.mem_cons_self
    simp [this]

/-! ### operations through the access paths -/

/-- a write request through one of the access paths, with the values in container element order -/
inductive Op (α : Type) where
  | setBin (b : Bin) (v : α)
  | setViewgram (seg view tof : Int) (vals : List α)
  | setSinogram (seg ax tof : Int) (vals : List α)
  | setSegBySino (seg tof : Int) (vals : List α)
  | setSegByView (seg tof : Int) (vals : List α)
  | setRelated (pairs : List (Int × Int)) (tof : Int) (vals : List α)
  | fill (v : α)
  | fillFrom (vals : List α)
  /-- one pass of `ProjData::xapyb` / `apply_func` (`sapyb`, `xapyb`, `operator+=` …): the new values, in the order
      the generic code writes them (TOF, segments increasing, `SegmentBySinogram`) -/
  | bulk (vals : List α)
  /-- `ProjData::fill(const ProjData&)` (also behind `ProjDataInMemory(const ProjData&)`, `write_to_file`): the
      source's values in the order they are written (segments increasing, TOF, `SegmentByView`) -/
  | fillPd (vals : List α)

/-- the addresses the code writes (transcription of the seek/write pattern) -/
def Op.addrs {α : Type} (l : Layout) : Op α → Except Err (List Int)
  | .setBin b _ => addrsBin l b
  | .setViewgram s v k _ => addrsViewgram l s v k
  | .setSinogram s a k _ => addrsSinogram l s a k
  | .setSegBySino s k _ => addrsSegBySino l s k
  | .setSegByView s k _ => addrsSegByView l s k
  | .setRelated ps k _ => addrsRelated l ps k
  | .fill _ => addrsFill l
  | .fillFrom _ => addrsAll l
  | .bulk _ => addrsBulk l
  | .fillPd _ => addrsFillPd l

/-- the bins the request means -/
def Op.bins {α : Type} (l : Layout) : Op α → List Bin
  | .setBin b _ => [b]
  | .setViewgram s v k _ => binsViewgram l s v k
  | .setSinogram s a k _ => binsSinogram l s a k
  | .setSegBySino s k _ => binsSegBySino l s k
  | .setSegByView s k _ => binsSegByView l s k
  | .setRelated ps k _ => binsRelated l ps k
  | .fill _ => binsFill l
  | .fillFrom _ => binsAll l
  | .bulk _ => binsBulk l
  | .fillPd _ => binsFillPd l

def Op.vals {α : Type} (l : Layout) : Op α → List α
  | .setBin _ v => [v]
  | .setViewgram _ _ _ vs => vs
  | .setSinogram _ _ _ vs => vs
  | .setSegBySino _ _ vs => vs
  | .setSegByView _ _ vs => vs
  | .setRelated _ _ vs => vs
  | .fill v => List.replicate (binsFill l).length v
  | .fillFrom vs => vs
  | .bulk vs => vs
  | .fillPd vs => vs

/-- the request is inside the index ranges -/
def Op.Valid {α : Type} (l : Layout) : Op α → Prop
  | .setBin b _ => InRange l b
  | .setViewgram s v k _ => SegOK l s ∧ ViewOK l v ∧ TofOK l k
  | .setSinogram s a k _ => SegOK l s ∧ AxOK l s a ∧ TofOK l k
  | .setSegBySino s k _ => SegOK l s ∧ TofOK l k
  | .setSegByView s k _ => SegOK l s ∧ TofOK l k
  | .setRelated ps k _ => (∀ q ∈ ps, ViewOK l q.1 ∧ SegOK l q.2) ∧ TofOK l k
  | .fill _ => True
  | .fillFrom _ => l.minSeg ≤ 0 ∧ 0 ≤ l.maxSeg
  | .bulk _ => True
  | .fillPd _ => True

theorem Op.addrs_eq {α : Type} {l : Layout} (p : l.Pos) (op : Op α) (hv : op.Valid l) :
    op.addrs l = .ok ((op.bins l).map (rawOffset l)) := by
  cases op with
  | setBin b v => simp only [Op.addrs, Op.bins, addrsBin]; rw [offsetOf_ok hv]; rfl
  | setViewgram s v k vs => exact viewgram_addrs p hv.1 hv.2.1 hv.2.2
  | setSinogram s a k vs => exact sinogram_addrs p hv.1 hv.2.1 hv.2.2
  | setSegBySino s k vs => exact segBySino_addrs p hv.1 hv.2
  | setSegByView s k vs => exact segByView_addrs p hv.1 hv.2
  | setRelated ps k vs => exact related_addrs p hv.1 hv.2
  | fill v => exact fill_addrs p
  | fillFrom vs => exact all_addrs p hv.1 hv.2
  | bulk vs => exact bulk_addrs p
  | fillPd vs => exact fillPd_addrs p

theorem Op.bins_inRange {α : Type} {l : Layout} (p : l.Pos) (op : Op α) (hv : op.Valid l) :
    ∀ b ∈ op.bins l, InRange l b := by
  cases op with
  | setBin b v => intro c hc; simp only [Op.bins, List.mem_singleton] at hc; subst hc; exact hv
  | setViewgram s v k vs => exact binsViewgram_inRange p hv.1 hv.2.1 hv.2.2
  | setSinogram s a k vs => exact binsSinogram_inRange p hv.1 hv.2.1 hv.2.2
  | setSegBySino s k vs => exact binsSegBySino_inRange p hv.1 hv.2
  | setSegByView s k vs => exact binsSegByView_inRange p hv.1 hv.2
  | setRelated ps k vs => exact binsRelated_inRange p hv.1 hv.2
  | fill v => exact binsFill_inRange p
  | fillFrom vs => exact binsAll_inRange p hv.1 hv.2
  | bulk vs => exact binsBulk_inRange p
  | fillPd vs => exact binsFillPd_inRange p

/-- what the code does to the stream: values are laid down at the addresses of the path, in order;
    a rejected request (`error()`) leaves the stream alone -/
def stepStore {α : Type} (l : Layout) (σ : Store α) (op : Op α) : Store α :=
  match op.addrs l with
  | .ok as => writeAddrs σ (as.zip (op.vals l))
  | .error _ => σ

/-- what the request means for the abstract array -/
def stepSpec {α : Type} (l : Layout) (m : Spec α) (op : Op α) : Spec α :=
  writeBins m ((op.bins l).zip (op.vals l))

theorem zip_map_raw {α : Type} (l : Layout) (bs : List Bin) (vs : List α) :
    (bs.map (rawOffset l)).zip vs = (bs.zip vs).map fun w => (rawOffset l w.1, w.2) := by
  induction bs generalizing vs with
  | nil => simp
  | cons b t ih =>
    cases vs with
    | nil => simp
    | cons v vt => simp [ih]

theorem refines_step {α : Type} {l : Layout} (h : l.WF) (p : l.Pos) {σ : Store α} {m : Spec α}
    (r : Refines l σ m) (op : Op α) (hv : op.Valid l) : Refines l (stepStore l σ op) (stepSpec l m op) := by
  unfold stepStore stepSpec
  rw [Op.addrs_eq p op hv]
  simp only
  rw [zip_map_raw]
  apply refines_writes h _ r
  intro w hw
  exact Op.bins_inRange p op hv w.1 (List.of_mem_zip hw).1

theorem refines_history {α : Type} {l : Layout} (h : l.WF) (p : l.Pos) (ops : List (Op α)) :
    ∀ {σ : Store α} {m : Spec α}, Refines l σ m → (∀ op ∈ ops, op.Valid l) →
      Refines l (ops.foldl (stepStore l) σ) (ops.foldl (stepSpec l) m) := by
  induction ops with
  | nil => intro σ m r _; exact r
  | cons op t ih =>
    intro σ m r hv
    simp only [List.foldl_cons]
    exact ih (refines_step h p r op (hv op List.mem_cons_self)) (fun x hx => hv x (List.mem_cons_of_mem _ hx))

/-- reading through a path: the values found at the addresses the code reads -/
def readPath {α : Type} (σ : Store α) (addrs : Except Err (List Int)) : Except Err (List α) :=
  addrs.map fun as => as.map σ

theorem read_refines {α : Type} {l : Layout} (p : l.Pos) {σ : Store α} {m : Spec α}
    (r : Refines l σ m) (op : Op α) (hv : op.Valid l) :
    readPath σ (op.addrs l) = .ok ((op.bins l).map m) := by
  unfold readPath
  rw [Op.addrs_eq p op hv]
  show Except.ok _ = Except.ok _
  congr 1
  show List.map σ (List.map (rawOffset l) (Op.bins l op)) = _
  rw [List.map_map]
  apply List.map_congr_left
  intro b hb
  exact r b (Op.bins_inRange p op hv b hb)

end StirVerif.C02
