/-
C07 — helper lemmas, finite-sum algebra: the textbook EM quantities over an explicit system matrix
(rows = bins, columns = voxels) and count preservation.
-/
import StirVerif.C07.ProofsImage
import Mathlib.Algebra.BigOperators.Group.Finset.Basic
import Mathlib.Algebra.BigOperators.Ring.Finset
import Mathlib.Algebra.BigOperators.Field
import Mathlib.Algebra.Order.BigOperators.Group.Finset

namespace StirVerif.C07
open Finset

variable {nb nv : ℕ}

/-- forward projection `(Pλ)_b` -/
def fwd (P : Fin nb → Fin nv → ℚ) (lam : Fin nv → ℚ) (b : Fin nb) : ℚ := ∑ j, P b j * lam j

/-- textbook subset gradient-plus-sensitivity `Σ_{b∈S} P_bj · y_b / ((Pλ)_b + a_b)`
    (what `compute_sub_gradient_without_penalty_plus_sensitivity` is on the regular region of `divide_and_truncate`,
    property C05) -/
def gpsSpec (P : Fin nb → Fin nv → ℚ) (y a : Fin nb → ℚ) (S : Finset (Fin nb)) (lam : Fin nv → ℚ) (j : Fin nv) : ℚ :=
  ∑ b ∈ S, P b j * (y b / (fwd P lam b + a b))

/-- textbook subset sensitivity `Σ_{b∈S} P_bj · n_b` (`n_b` = efficiency; 1 without normalisation) -/
def sensSpec (P : Fin nb → Fin nv → ℚ) (eff : Fin nb → ℚ) (S : Finset (Fin nb)) (j : Fin nv) : ℚ :=
  ∑ b ∈ S, P b j * eff b

/-- the EM update of the property statement: `λ · A_S^T[y / (A_S λ + a)] / s_S`, zero where `s_S = 0` -/
def emStep (P : Fin nb → Fin nv → ℚ) (y a eff : Fin nb → ℚ) (S : Finset (Fin nb)) (lam : Fin nv → ℚ) (j : Fin nv) : ℚ :=
  if sensSpec P eff S j = 0 then 0 else lam j * gpsSpec P y a S lam j / sensSpec P eff S j

theorem fwd_nonneg {P : Fin nb → Fin nv → ℚ} {lam : Fin nv → ℚ} (hP : ∀ b j, 0 ≤ P b j) (hl : ∀ j, 0 ≤ lam j)
    (b : Fin nb) : 0 ≤ fwd P lam b :=
  Finset.sum_nonneg fun j _ => mul_nonneg (hP b j) (hl j)

theorem gpsSpec_nonneg {P : Fin nb → Fin nv → ℚ} {y a : Fin nb → ℚ} {lam : Fin nv → ℚ} (S : Finset (Fin nb))
    (hP : ∀ b j, 0 ≤ P b j) (hy : ∀ b, 0 ≤ y b) (ha : ∀ b, 0 ≤ a b) (hl : ∀ j, 0 ≤ lam j) (j : Fin nv) :
    0 ≤ gpsSpec P y a S lam j :=
  Finset.sum_nonneg fun b _ =>
    mul_nonneg (hP b j) (div_nonneg (hy b) (add_nonneg (fwd_nonneg hP hl b) (ha b)))

theorem sensSpec_nonneg {P : Fin nb → Fin nv → ℚ} {eff : Fin nb → ℚ} (S : Finset (Fin nb))
    (hP : ∀ b j, 0 ≤ P b j) (he : ∀ b, 0 < eff b) (j : Fin nv) : 0 ≤ sensSpec P eff S j :=
  Finset.sum_nonneg fun b _ => mul_nonneg (hP b j) (le_of_lt (he b))

/-- a voxel no bin of the subset sees has zero numerator too -/
theorem gpsSpec_eq_zero_of_sens {P : Fin nb → Fin nv → ℚ} {y a eff : Fin nb → ℚ} {lam : Fin nv → ℚ}
    (S : Finset (Fin nb)) (hP : ∀ b j, 0 ≤ P b j) (he : ∀ b, 0 < eff b) (j : Fin nv)
    (h : sensSpec P eff S j = 0) : gpsSpec P y a S lam j = 0 := by
  have hz : ∀ b ∈ S, P b j * eff b = 0 :=
    (Finset.sum_eq_zero_iff_of_nonneg fun b _ => mul_nonneg (hP b j) (le_of_lt (he b))).mp h
  apply Finset.sum_eq_zero
  intro b hb
  have : P b j = 0 := by
    rcases mul_eq_zero.mp (hz b hb) with h0 | h0
    · exact h0
    · exact absurd h0 (ne_of_gt (he b))
  rw [this, zero_mul]

/-- **count preservation**: all data in one subset, no additive term, every bin with counts has a non-zero
    estimated projection (regular region): `Σ_j s_j λ'_j = Σ_b y_b`. -/
theorem count_preservation (P : Fin nb → Fin nv → ℚ) (y eff : Fin nb → ℚ) (lam : Fin nv → ℚ)
    (hP : ∀ b j, 0 ≤ P b j) (he : ∀ b, 0 < eff b)
    (hreg : ∀ b, y b ≠ 0 → fwd P lam b ≠ 0) :
    ∑ j, sensSpec P eff univ j * emStep P y (fun _ => 0) eff univ lam j = ∑ b, y b := by
  have step1 : ∀ j, sensSpec P eff univ j * emStep P y (fun _ => 0) eff univ lam j
      = lam j * gpsSpec P y (fun _ => 0) univ lam j := by
    intro j
    unfold emStep
    split_ifs with h
    · rw [gpsSpec_eq_zero_of_sens univ hP he j h]; simp
    · field_simp
  simp only [step1, gpsSpec, add_zero]
  -- Σ_j λ_j Σ_b P_bj y_b/(Pλ)_b = Σ_b y_b/(Pλ)_b Σ_j P_bj λ_j
  simp only [Finset.mul_sum]
  rw [Finset.sum_comm]
  apply Finset.sum_congr rfl
  intro b _
  have : ∑ j, lam j * (P b j * (y b / fwd P lam b)) = (y b / fwd P lam b) * fwd P lam b := by
    unfold fwd
    rw [Finset.mul_sum]
    apply Finset.sum_congr rfl
    intro j _
    ring
  rw [this]
  by_cases hy : y b = 0
  · simp [hy]
  · exact div_mul_cancel₀ _ (hreg b hy)

end StirVerif.C07
