/-
C07 — helper lemmas, voxel level: `stir::divide`, the MAP denominators, the relative-change clamp and the
multiplicative application, for one voxel.
-/
import StirVerif.C07.Model
import Mathlib.Algebra.Order.Field.Basic
import Mathlib.Algebra.Order.Field.Rat
import Mathlib.Tactic.Ring
import Mathlib.Tactic.Linarith
import Mathlib.Tactic.FieldSimp
import Mathlib.Tactic.NormNum
import Mathlib.Tactic.SplitIfs
import Mathlib.Tactic.Positivity

namespace StirVerif.C07

theorem absR_nonneg (x : Rat) : 0 ≤ absR x := by
  unfold absR; split_ifs with h <;> linarith

theorem absR_of_nonneg {x : Rat} (h : 0 ≤ x) : absR x = x := by
  unfold absR; split_ifs with h' <;> linarith

theorem absR_eq_zero {x : Rat} : absR x = 0 ↔ x = 0 := by
  unfold absR; split_ifs with h <;> constructor <;> intro h' <;> linarith

theorem absR_zero : absR 0 = 0 := absR_eq_zero.mpr rfl

/-! ### MAP denominators -/

theorem denAdditive_bounds (n : Nat) (pg s : Rat) (hs : 0 ≤ s) :
    s / 10 ≤ denAdditive n pg s ∧ denAdditive n pg s ≤ s * 10 := by
  simp only [denAdditive, stdMax, stdMin]
  constructor <;> split_ifs <;> linarith

/-- inside the clamp range the additive denominator is the one-step-late expression -/
theorem denAdditive_eq (n : Nat) (pg s : Rat) (h1 : s / 10 ≤ pg / n + s) (h2 : pg / n + s ≤ s * 10) :
    denAdditive n pg s = pg / n + s := by
  simp only [denAdditive, stdMax, stdMin]
  split_ifs <;> linarith

theorem denMultiplicative_bounds (pg s : Rat) (hs : 0 ≤ s) :
    s / 10 ≤ denMultiplicative pg s ∧ denMultiplicative pg s ≤ s * 10 := by
  simp only [denMultiplicative, stdMax, stdMin]
  constructor <;> split_ifs <;> nlinarith

theorem denMultiplicative_eq (pg s : Rat) (h1 : 1 / 10 ≤ pg + 1) (h2 : pg + 1 ≤ 10) :
    denMultiplicative pg s = (1 + pg) * s := by
  simp only [denMultiplicative, stdMax, stdMin]
  split_ifs <;> first | (exfalso; linarith) | (exfalso; norm_num at *; done) | ring

/-- all three denominators: within `[s/10, 10 s]` for a non-negative sensitivity -/
theorem denom_bounds (m : MapModel) (n : Nat) (pg s : Rat) (hs : 0 ≤ s) :
    s / 10 ≤ denom m n pg s ∧ denom m n pg s ≤ s * 10 := by
  cases m
  · simp only [denom]; constructor <;> linarith
  · exact denAdditive_bounds n pg s hs
  · exact denMultiplicative_bounds pg s hs

theorem denom_nonneg (m : MapModel) (n : Nat) (pg s : Rat) (hs : 0 ≤ s) : 0 ≤ denom m n pg s := by
  have := (denom_bounds m n pg s hs).1; linarith

theorem denom_eq_zero_iff (m : MapModel) (n : Nat) (pg s : Rat) (hs : 0 ≤ s) : denom m n pg s = 0 ↔ s = 0 := by
  have h := denom_bounds m n pg s hs
  constructor
  · intro h0; rw [h0] at h; linarith [h.1]
  · intro h0; subst h0; simp only [zero_div, zero_mul] at h; exact le_antisymm h.2 h.1

/-! ### `stir::divide` -/

theorem maxElem_foldl_ge (xs : List Rat) (a : Rat) :
    a ≤ xs.foldl (fun m y => if m < y then y else m) a ∧
      ∀ x ∈ xs, x ≤ xs.foldl (fun m y => if m < y then y else m) a := by
  induction xs generalizing a with
  | nil => simp
  | cons y ys ih =>
    simp only [List.foldl_cons, List.mem_cons]
    have h1 := ih (if a < y then y else a)
    refine ⟨le_trans ?_ h1.1, ?_⟩
    · split_ifs with h <;> linarith
    · rintro x (rfl | hx)
      · refine le_trans ?_ h1.1
        split_ifs with h <;> linarith
      · exact h1.2 x hx

theorem le_maxElem {g : Img} {x : Rat} (hx : x ∈ g) : x ≤ maxElem g := by
  cases g with
  | nil => simp at hx
  | cons a as =>
    simp only [maxElem]
    rcases List.mem_cons.mp hx with rfl | h
    · exact (maxElem_foldl_ge as _).1
    · exact (maxElem_foldl_ge as a).2 x h

theorem smallValue_nonneg (g : Img) (c : Rat) : 0 ≤ smallValue g c := by
  simp only [smallValue]; split_ifs with h <;> linarith

theorem smallValue_zero (g : Img) : smallValue g 0 = 0 := by
  simp [smallValue]

/-- where the denominator does not vanish and the pair is not below the threshold, `divide` divides -/
theorem divide1_regular {small num den : Rat} (hd : den ≠ 0) (h : ¬(absR den ≤ small ∧ absR num ≤ small)) :
    divide1 small num den = .fin (num / den) := by
  simp only [divide1, if_neg h, if_neg hd]

/-- threshold `0` (no prior): `0/0 ↦ 0`, otherwise the quotient -/
theorem divide1_zero_threshold (num den : Rat) :
    divide1 0 num den = if den = 0 then (if num = 0 then .fin 0 else if 0 < num then .pinf else .ninf)
                        else .fin (num / den) := by
  by_cases hd : den = 0
  · subst hd
    by_cases hn : num = 0
    · subst hn; simp [divide1, absR_zero]
    · have : ¬ absR num ≤ 0 := by
        intro h; exact hn (absR_eq_zero.mp (le_antisymm h (absR_nonneg _)))
      rcases lt_trichotomy num 0 with h | h | h
      · simp [divide1, absR_zero, this, hn, h, not_lt.mpr (le_of_lt h)]
      · exact absurd h hn
      · simp [divide1, absR_zero, this, hn, h]
  · have : ¬ absR den ≤ 0 := by
      intro h; exact hd (absR_eq_zero.mp (le_antisymm h (absR_nonneg _)))
    simp [divide1, this, hd]

/-- non-negative numerator over non-negative denominator, consistent zeros: a finite non-negative quotient -/
theorem divide1_nonneg {small num den : Rat} (hsm : 0 ≤ small) (hn : 0 ≤ num) (hd : 0 ≤ den)
    (hcons : den = 0 → num = 0) : ∃ q, divide1 small num den = .fin q ∧ 0 ≤ q := by
  unfold divide1
  by_cases h1 : absR den ≤ small ∧ absR num ≤ small
  · rw [if_pos h1]; exact ⟨0, rfl, le_refl _⟩
  · rw [if_neg h1]
    by_cases h2 : den = 0
    · exfalso; apply h1
      rw [h2, hcons h2, absR_zero]; exact ⟨hsm, hsm⟩
    · rw [if_neg h2]; exact ⟨num / den, rfl, div_nonneg hn hd⟩

/-! ### relative-change clamp and application -/

theorem thresholdUpperLower_nonneg {lo hi q : Rat} (hlo : 0 ≤ lo) (hhi : lo ≤ hi) (hq : 0 ≤ q) :
    ∃ r, thresholdUpperLower lo hi (.fin q) = .fin r ∧ 0 ≤ r := by
  simp only [thresholdUpperLower]
  split_ifs with h1 h2
  · exact ⟨hi, rfl, le_trans hlo hhi⟩
  · exact ⟨lo, rfl, hlo⟩
  · exact ⟨q, rfl, hq⟩

theorem thresholdUpperLower_id {lo hi q : Rat} (h1 : lo ≤ q) (h2 : q ≤ hi) :
    thresholdUpperLower lo hi (.fin q) = .fin q := by
  simp only [thresholdUpperLower]
  split_ifs <;> first | rfl | (exfalso; linarith)

/-- **non-negativity, one voxel, every branch** (no prior / additive / multiplicative MAP, with and without the
    relative-change limits) -/
theorem updVoxel_nonneg (m : MapModel) (n : Nat) (small : Rat) (limit : Bool) (minRel maxRel lam g s pg : Rat)
    (hsm : 0 ≤ small) (hmin : 0 ≤ minRel) (hmm : minRel ≤ maxRel)
    (hl : 0 ≤ lam) (hg : 0 ≤ g) (hs : 0 ≤ s) (hcons : s = 0 → g = 0) :
    ∃ q, updVoxel m n small limit minRel maxRel lam g s pg = .fin q ∧ 0 ≤ q := by
  obtain ⟨u, hu, hu0⟩ := divide1_nonneg (small := small) (num := g) (den := denom m n pg s) hsm hg
    (denom_nonneg m n pg s hs) (fun h => hcons ((denom_eq_zero_iff m n pg s hs).mp h))
  simp only [updVoxel, hu]
  cases limit
  · exact ⟨lam * u, by simp [mulExt], mul_nonneg hl hu0⟩
  · obtain ⟨r, hr, hr0⟩ := thresholdUpperLower_nonneg hmin hmm hu0
    simp only [if_true, hr, mulExt]
    exact ⟨lam * r, rfl, mul_nonneg hl hr0⟩

/-- **EM formula, one voxel**: no prior (threshold 0), relative-change limits not active (first sub-iteration, or the
    quotient within the limits): `λ' = λ · g / s`, and `0` where `s = 0 ∧ g = 0`. -/
theorem updVoxel_em (n : Nat) (limit : Bool) (minRel maxRel lam g s pg : Rat)
    (hlim : limit = false ∨ (minRel ≤ g / s ∧ g / s ≤ maxRel)) (hcons : s = 0 → g = 0) :
    updVoxel .none n 0 limit minRel maxRel lam g s pg = .fin (if s = 0 then 0 else lam * g / s) := by
  simp only [updVoxel, denom, divide1_zero_threshold]
  by_cases hs : s = 0
  · have hg := hcons hs
    subst hs; subst hg
    rcases hlim with h | h
    · subst h; simp [mulExt]
    · cases limit
      · simp [mulExt]
      · simp only [div_zero] at h
        simp [mulExt, thresholdUpperLower_id h.1 h.2]
  · simp only [if_neg hs]
    rcases hlim with h | h
    · subst h; simp [mulExt, mul_div_assoc]
    · cases limit
      · simp [mulExt, mul_div_assoc]
      · simp [mulExt, thresholdUpperLower_id h.1 h.2, mul_div_assoc]

/-- **one-step-late MAP update, one voxel**: with a prior, where the clamps are not active and the division is above
    the threshold of `stir::divide`, `λ' = λ · g / den`. -/
theorem updVoxel_map (m : MapModel) (n : Nat) (small : Rat) (limit : Bool) (minRel maxRel lam g s pg : Rat)
    (hs : 0 < s) (hreg : small < g ∨ small < denom m n pg s) (hg : 0 ≤ g)
    (hlim : limit = false ∨ (minRel ≤ g / denom m n pg s ∧ g / denom m n pg s ≤ maxRel)) :
    updVoxel m n small limit minRel maxRel lam g s pg = .fin (lam * g / denom m n pg s) := by
  have hd0 : 0 < denom m n pg s := by
    have := (denom_bounds m n pg s (le_of_lt hs)).1; linarith
  have hdiv : divide1 small g (denom m n pg s) = .fin (g / denom m n pg s) := by
    apply divide1_regular (ne_of_gt hd0)
    rw [absR_of_nonneg (le_of_lt hd0), absR_of_nonneg hg]
    rintro ⟨h1, h2⟩
    rcases hreg with h | h <;> linarith
  simp only [updVoxel, hdiv]
  rcases hlim with h | h
  · subst h; simp [mulExt, mul_div_assoc]
  · cases limit
    · simp [mulExt, mul_div_assoc]
    · simp [mulExt, thresholdUpperLower_id h.1 h.2, mul_div_assoc]

end StirVerif.C07
