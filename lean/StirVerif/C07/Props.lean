import StirVerif.C07.Model
namespace StirVerif.C07
end StirVerif.C07
